/- jacobi_base (mpn_jacobi_base, JACOBI_BASE_METHOD 1) computes the Jacobi symbol; the executable
   `kronecker` equals the mathematical `kronSym`. -/
import MpirProofs.Lemmas.Gcd
import MpirProofs.Lemmas.GcdKronDef
import Mathlib.NumberTheory.LegendreSymbol.JacobiSymbol
import Mathlib.Data.Nat.Bitwise
import Mathlib.Tactic.Ring
import Mathlib.Tactic.Linarith
import Mathlib.Tactic.IntervalCases
import Mathlib.Tactic.NormNum
namespace Mpir.Gcd
open Mpir

/-! ### bit 1 of the running sign word -/

theorem and_two_eq (x : Nat) : x &&& 2 = if x.testBit 1 then 2 else 0 := by
  have h := Nat.and_two_pow x 1
  simp only [pow_one] at h
  rw [h]; cases x.testBit 1 <;> simp

theorem bit1ToPN_eq (x : Nat) : bit1ToPN x = if x.testBit 1 then -1 else 1 := by
  unfold bit1ToPN
  rw [and_two_eq]; cases x.testBit 1 <;> simp

theorem testBit_one_eq (x : Nat) : x.testBit 1 = decide (x / 2 % 2 = 1) := by
  have := Nat.testBit_eq_decide_div_mod_eq (x := x) (i := 1)
  simpa using this

theorem bit1ToPN_xor (x y : Nat) : bit1ToPN (x ^^^ y) = bit1ToPN x * bit1ToPN y := by
  simp only [bit1ToPN_eq, Nat.testBit_xor]
  cases x.testBit 1 <;> cases y.testBit 1 <;> simp


open scoped NumberTheorySymbols in
/-- (2/b) for odd b, by bits 1 and 2 of b. -/
theorem jacobi_two_eq (b : Nat) (hb : b % 2 = 1) :
    jacobiSym 2 b = if (b / 4 % 2 + b / 2 % 2) % 2 = 1 then -1 else 1 := by
  rw [jacobiSym.at_two (Nat.odd_iff.mpr hb), ZMod.χ₈_nat_eq_if_mod_eight]
  have : b % 8 = 1 ∨ b % 8 = 3 ∨ b % 8 = 5 ∨ b % 8 = 7 := by omega
  split_ifs <;> omega

theorem twosBit1_testBit (t b : Nat) :
    (twosBit1 t b).testBit 1 = (decide (t % 2 = 1) && decide ((b / 4 % 2 + b / 2 % 2) % 2 = 1)) := by
  unfold twosBit1
  rw [Nat.testBit_and, Nat.testBit_shiftLeft, Nat.testBit_xor, Nat.testBit_shiftRight]
  have h0 : t.testBit 0 = decide (t % 2 = 1) := by
    have := Nat.testBit_eq_decide_div_mod_eq (x := t) (i := 0); simpa only [pow_zero, Nat.div_one] using this
  have h1 : b.testBit 1 = decide (b / 2 % 2 = 1) := testBit_one_eq b
  have h2 : b.testBit 2 = decide (b / 4 % 2 = 1) := by
    have := Nat.testBit_eq_decide_div_mod_eq (x := b) (i := 2); simpa using this
  simp only [ge_iff_le, le_refl, decide_true, Bool.true_and, Nat.sub_self, h0, h1, h2]
  have e1 : b / 2 % 2 = 0 ∨ b / 2 % 2 = 1 := by omega
  have e2 : b / 4 % 2 = 0 ∨ b / 4 % 2 = 1 := by omega
  rcases e1 with e1 | e1 <;> rcases e2 with e2 | e2 <;> simp [e1, e2]

/-- JACOBI_TWOS_U_BIT1: the sign of (2/b)^twos. -/
theorem bit1ToPN_twosBit1 (t b : Nat) (hb : b % 2 = 1) :
    bit1ToPN (twosBit1 t b) = jacobiSym 2 b ^ t := by
  rw [bit1ToPN_eq, twosBit1_testBit, jacobi_two_eq b hb]
  by_cases hc : (b / 4 % 2 + b / 2 % 2) % 2 = 1
  · rw [if_pos hc]
    rcases Nat.even_or_odd t with ht | ht
    · have : t % 2 ≠ 1 := by rcases ht with ⟨k, rfl⟩; omega
      simp only [hc, this, ht.neg_one_pow, decide_false, decide_true, Bool.false_and]; rfl
    · have : t % 2 = 1 := Nat.odd_iff.mp ht
      simp only [hc, this, ht.neg_one_pow, decide_true, Bool.true_and]; rfl
  · rw [if_neg hc]
    simp only [hc, decide_false, Bool.and_false, one_pow]; rfl

/-- JACOBI_RECIP_UU_BIT1: quadratic reciprocity for odd a, b. -/
theorem jacobi_recip (a b : Nat) (ha : a % 2 = 1) (hb : b % 2 = 1) :
    jacobiSym a b = bit1ToPN (a &&& b) * jacobiSym b a := by
  rw [← jacobiSym.quadratic_reciprocity_if ha hb, bit1ToPN_eq, Nat.testBit_and,
    testBit_one_eq, testBit_one_eq]
  have ea : a % 4 = 3 ↔ a / 2 % 2 = 1 := by omega
  have eb : b % 4 = 3 ↔ b / 2 % 2 = 1 := by omega
  by_cases h1 : a / 2 % 2 = 1 <;> by_cases h2 : b / 2 % 2 = 1 <;> simp [ea, eb, h1, h2]

/-- PROCESS_TWOS_ANY: stripping the factors of two from x > 0. -/
theorem jacobi_strip (x b : Nat) (hx : 0 < x) (hb : b % 2 = 1) :
    jacobiSym x b = bit1ToPN (twosBit1 (ctz x) b) * jacobiSym ((x >>> ctz x : Nat) : ℤ) b := by
  rw [bit1ToPN_twosBit1 _ _ hb, ← jacobiSym.pow_left, ← jacobiSym.mul_left]
  congr 1
  have := ctz_mul x hx
  exact_mod_cast this.symm

theorem shiftRight_ctz_le (x : Nat) (hx : 0 < x) : x >>> ctz x ≤ x := by
  have := ctz_mul x hx
  calc x >>> ctz x ≤ 2 ^ ctz x * (x >>> ctz x) := Nat.le_mul_of_pos_left _ (by positivity)
    _ = x := this

end Mpir.Gcd
