/- mpz_next_prime_candidate / mpz_nextprime (models in Mpir/Model/Sieve.lean): the incremental residues, the
   candidates skipped, the table path. -/
import MpirProofs.Lemmas.Sieve
namespace Mpir.Sieve
open Mpir Mpir.Numth

theorem add_two_mod (c q : ℕ) (hq : 2 ≤ q) :
    (if c % q + 2 ≥ q then c % q + 2 - q else c % q + 2) = (c + 2) % q := by
  have hlt : c % q < q := Nat.mod_lt _ (by omega)
  have e : (c + 2) % q = (c % q + 2) % q := (Nat.mod_add_mod c q 2).symm
  rw [e]
  generalize c % q = x at *
  by_cases h : x + 2 ≥ q
  · rw [if_pos h, Nat.mod_eq_sub_mod h, Nat.mod_eq_of_lt (by omega)]
  · rw [if_neg h, Nat.mod_eq_of_lt (by omega)]

/-- next_prime_candidate.c:113-120: one pass over `moduli[]` reports whether the current candidate c has a factor
    in the table and leaves the residues of c + 2 -/
theorem npcResidues_spec (c : ℕ) : ∀ prs : List ℕ, (∀ q ∈ prs, 2 ≤ q) →
    npcResidues (prs.map (fun q => c % q)) prs =
      (decide (∃ q ∈ prs, q ∣ c), prs.map (fun q => (c + 2) % q)) := by
  intro prs
  induction prs with
  | nil => intro _; simp [npcResidues]
  | cons q qs ih =>
    intro h
    have hq : 2 ≤ q := h q (by simp)
    simp only [List.map_cons, npcResidues, ih (fun x hx => h x (List.mem_cons_of_mem _ hx)), add_two_mod c q hq]
    congr 1
    by_cases hd : q ∣ c
    · have : c % q = 0 := Nat.mod_eq_zero_of_dvd hd
      simp [this, hd]
    · have : c % q ≠ 0 := fun e => hd (Nat.dvd_of_mod_eq_zero e)
      simp [this, hd]

/-- **The residue loop.**  If the loop started at candidate p + diff with moduli[i] = (p + diff) mod prime_i returns r,
    then r is a candidate of the same parity that the table does not divide and that passed the test, and every
    candidate before it either has a prime factor from the table or was rejected by the test. -/
theorem npcLoop_spec (mr : ℕ → Bool) (prs : List ℕ) (hprs : ∀ q ∈ prs, 2 ≤ q) :
    ∀ fuel p diff r, npcLoop mr prs fuel p diff (prs.map (fun q => (p + diff) % q)) = some r →
      p + diff ≤ r ∧ (r - (p + diff)) % 2 = 0 ∧ mr r = true ∧ (∀ q ∈ prs, ¬ q ∣ r) ∧
      ∀ c, p + diff ≤ c → c < r → (c - (p + diff)) % 2 = 0 → (∃ q ∈ prs, q ∣ c) ∨ mr c = false := by
  intro fuel
  induction fuel with
  | zero => intro p diff r h; simp [npcLoop] at h
  | succ f ih =>
    intro p diff r h
    simp only [npcLoop, npcResidues_spec (p + diff) prs hprs] at h
    by_cases hcomp : ∃ q ∈ prs, q ∣ p + diff
    · simp only [hcomp, decide_true, if_true] at h
      rw [show p + diff + 2 = p + (diff + 2) by omega] at h
      obtain ⟨h1, h2, h3, h4, h5⟩ := ih p (diff + 2) r h
      refine ⟨by omega, by omega, h3, h4, fun c hc1 hc2 hc3 => ?_⟩
      by_cases hce : c = p + diff
      · subst hce; exact Or.inl hcomp
      · exact h5 c (by omega) hc2 (by omega)
    · simp only [hcomp, decide_false, Bool.false_eq_true, if_false] at h
      by_cases hm : mr (p + diff) = true
      · simp only [hm, if_true, Option.some.injEq] at h
        subst h
        refine ⟨Nat.le_refl _, by simp, hm, fun q hq hd => hcomp ⟨q, hq, hd⟩, fun c hc1 hc2 => by omega⟩
      · simp only [hm] at h
        obtain ⟨h1, h2, h3, h4, h5⟩ := ih (p + diff) 2 r h
        refine ⟨by omega, by omega, h3, h4, fun c hc1 hc2 hc3 => ?_⟩
        by_cases hce : c = p + diff
        · subst hce; exact Or.inr (by simpa using hm)
        · exact h5 c (by omega) hc2 (by omega)

/-- **No prime is skipped**, given only that the test never rejects a prime (which holds for mpz_miller_rabin:
    `Mpir.Numth.miller_rabin_never_rejects_prime`): table primes are primes below the first candidate p0 (odd). -/
theorem npcLoop_no_prime_skipped (mr : ℕ → Bool) (prs : List ℕ) (hprs : ∀ q ∈ prs, q.Prime) (p0 : ℕ)
    (hodd : p0 % 2 = 1) (h3 : 3 ≤ p0) (hbig : ∀ q ∈ prs, q < p0) (hnorej : ∀ c, c.Prime → mr c = true)
    (fuel r : ℕ) (h : npcLoop mr prs fuel p0 0 (prs.map (fun q => p0 % q)) = some r) :
    p0 ≤ r ∧ r % 2 = 1 ∧ mr r = true ∧ (∀ q ∈ prs, ¬ q ∣ r) ∧ ∀ c, p0 ≤ c → c < r → ¬ c.Prime := by
  obtain ⟨h1, h2, h3', h4, h5⟩ := npcLoop_spec mr prs (fun q hq => (hprs q hq).two_le) fuel p0 0 r (by simpa using h)
  simp only [Nat.add_zero] at h1 h2 h5
  refine ⟨h1, by omega, h3', h4, fun c hc1 hc2 hp => ?_⟩
  have hcodd : c % 2 = 1 := by
    rcases hp.eq_two_or_odd with e | e
    · omega
    · exact e
  rcases h5 c hc1 hc2 (by omega) with ⟨q, hq, hd⟩ | hrej
  · have := (Nat.prime_dvd_prime_iff_eq (hprs q hq) hp).1 hd
    have := hbig q hq
    omega
  · rw [hnorej c hp] at hrej; exact absurd hrej (by simp)

end Mpir.Sieve
