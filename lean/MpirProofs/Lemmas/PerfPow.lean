/- mpz_perfect_power_p (mpz/perfpow.c): COMPLETENESS — every perfect power is answered "yes".
   Invariant of the factoring loop, for every exponent `b ≥ 2`:  |u| is a b-th power  ⟺  b ∣ n2 ∧ the cofactor is a b-th power
   (`n2 = 0`: no constraint yet, `b ∣ 0`).  The prime table is the REGENERATED one (Gen/SqrtTabs.lean). -/
import MpirProofs.Lemmas.RootremBridge
import Mathlib.Data.Nat.Prime.Basic
namespace Mpir.Root
open Mpir Mpir.Gen.SqrtTabs

/-- `A` is a perfect `b`-th power. -/
def IsPow (b A : Nat) : Prop := ∃ t, A = t ^ b

/-! ### table facts (kernel-checked on the regenerated table) -/

theorem perfpowPrimes_head : perfpowPrimes = 2 :: perfpowPrimes.drop 1 := by decide +kernel

theorem perfpowPrimes_prime_tab :
    perfpowPrimes.all (fun p => decide (2 ≤ p) && (List.range p).all (fun d => decide (d < 2) || p % d != 0)) = true := by
  decide +kernel

theorem perfpowPrimes_cover_tab :
    (List.range smallestOmittedPrime).all (fun d => decide (d < 2) || perfpowPrimes.any (fun p => d % p == 0)) = true := by
  decide +kernel

theorem perfpowPrimes_prime (p : Nat) (hp : p ∈ perfpowPrimes) : p.Prime := by
  have h := List.all_eq_true.mp perfpowPrimes_prime_tab p hp
  simp only [Bool.and_eq_true, decide_eq_true_eq, List.all_eq_true, List.mem_range, Bool.or_eq_true, bne_iff_ne, ne_eq] at h
  rw [Nat.prime_def_lt]
  refine ⟨h.1, fun m hm hd => ?_⟩
  rcases h.2 m hm with h2 | h2
  · have : m ≠ 0 := by rintro rfl; simp at hd; omega
    omega
  · exact absurd (Nat.mod_eq_zero_of_dvd hd) h2

/-- every `d` with `2 ≤ d < SMALLEST_OMITTED_PRIME` has a divisor in the table. -/
theorem perfpowPrimes_cover (d : Nat) (h2 : 2 ≤ d) (hd : d < smallestOmittedPrime) : ∃ p ∈ perfpowPrimes, p ∣ d := by
  have h := List.all_eq_true.mp perfpowPrimes_cover_tab d (List.mem_range.mpr hd)
  simp only [Bool.or_eq_true, decide_eq_true_eq, List.any_eq_true, beq_iff_eq] at h
  rcases h with h | ⟨p, hp, hm⟩
  · omega
  · exact ⟨p, hp, Nat.dvd_of_mod_eq_zero hm⟩

/-! ### perfect powers and one prime -/

theorem pow_mul_unique {p : Nat} (hp : 2 ≤ p) (i j x y : Nat) (h : p ^ i * x = p ^ j * y)
    (hx : ¬ p ∣ x) (hy : ¬ p ∣ y) : i = j ∧ x = y := by
  have hpos : ∀ k, 0 < p ^ k := fun k => Nat.pow_pos (by omega)
  rcases Nat.lt_trichotomy i j with hl | he | hl
  · exfalso
    obtain ⟨d, rfl⟩ : ∃ d, j = i + (d + 1) := ⟨j - i - 1, by omega⟩
    rw [pow_add, Nat.mul_assoc] at h
    have := Nat.eq_of_mul_eq_mul_left (hpos i) h
    exact hx ⟨p ^ d * y, by rw [this, pow_succ]; ring⟩
  · subst he
    exact ⟨rfl, Nat.eq_of_mul_eq_mul_left (hpos i) h⟩
  · exfalso
    obtain ⟨d, rfl⟩ : ∃ d, i = j + (d + 1) := ⟨i - j - 1, by omega⟩
    rw [pow_add, Nat.mul_assoc] at h
    have := Nat.eq_of_mul_eq_mul_left (hpos j) h
    exact hy ⟨p ^ d * x, by rw [← this, pow_succ]; ring⟩

theorem exists_pow_mul_not_dvd {p : Nat} (hp : 2 ≤ p) : ∀ n : Nat, n ≠ 0 → ∃ e n', ¬ p ∣ n' ∧ n = p ^ e * n' := by
  intro n
  induction n using Nat.strong_induction_on with
  | _ n ih =>
    intro hn
    by_cases hd : p ∣ n
    · obtain ⟨c, rfl⟩ := hd
      have hc0 : c ≠ 0 := by rintro rfl; simp at hn
      have hlt : c < p * c := by nlinarith [Nat.pos_of_ne_zero hc0]
      obtain ⟨e, n', h1, h2⟩ := ih c hlt hc0
      exact ⟨e + 1, n', h1, by rw [pow_succ', Nat.mul_assoc, ← h2]⟩
    · exact ⟨0, n, hd, by simp⟩

/-- splitting off a prime power: `p^n·A'` (`p ∤ A'`) is a `b`-th power iff `b ∣ n` and `A'` is one. -/
theorem isPow_split {p : Nat} (hp : p.Prime) (n A' b : Nat) (hb : 1 ≤ b) (hA' : ¬ p ∣ A') :
    IsPow b (p ^ n * A') ↔ b ∣ n ∧ IsPow b A' := by
  constructor
  · rintro ⟨t, ht⟩
    have ht0 : t ≠ 0 := by
      rintro rfl
      rw [Nat.zero_pow (by omega)] at ht
      rcases Nat.mul_eq_zero.mp ht with h | h
      · exact absurd h (Nat.ne_of_gt (Nat.pow_pos hp.pos))
      · exact hA' (h ▸ Nat.dvd_zero p)
    obtain ⟨e, t', hnd, rfl⟩ := exists_pow_mul_not_dvd hp.two_le t ht0
    rw [mul_pow, ← pow_mul] at ht
    have hnd' : ¬ p ∣ t' ^ b := fun h => hnd (hp.dvd_of_dvd_pow h)
    obtain ⟨e1, e2⟩ := pow_mul_unique hp.two_le _ _ _ _ ht hA' hnd'
    exact ⟨⟨e, by rw [e1, Nat.mul_comm]⟩, t', e2⟩
  · rintro ⟨⟨c, rfl⟩, t', rfl⟩
    exact ⟨p ^ c * t', by rw [mul_pow, ← pow_mul, Nat.mul_comm c b]⟩

theorem iroot_pow (t m : Nat) (hm : 0 < m) : iroot m (t ^ m) = t :=
  (iroot_unique m (t ^ m) t hm (Nat.le_refl _) (Nat.pow_lt_pow_left (Nat.lt_succ_self _) (Nat.ne_of_gt hm))).symm

theorem isPow_iff_iroot (m a : Nat) (hm : 0 < m) : IsPow m a ↔ iroot m a ^ m = a := by
  constructor
  · rintro ⟨t, rfl⟩; rw [iroot_pow t m hm]
  · intro h; exact ⟨_, h.symm⟩

/-- a prime divisor of the exponent is an exponent. -/
theorem isPow_of_dvd {b m A : Nat} (hd : m ∣ b) (h : IsPow b A) : IsPow m A := by
  obtain ⟨c, rfl⟩ := hd
  obtain ⟨t, rfl⟩ := h
  exact ⟨t ^ c, by rw [← pow_mul, Nat.mul_comm]⟩

/-! ### signs -/

theorem isPP_iff_mag (u : Int) : IsPP u ↔ ∃ b, 2 ≤ b ∧ (u < 0 → b % 2 = 1) ∧ IsPow b u.natAbs := by
  constructor
  · rintro ⟨a, b, hb, rfl⟩
    refine ⟨b, hb, fun hneg => ?_, a.natAbs, Int.natAbs_pow a b⟩
    by_contra hc
    have he : Even b := Nat.even_iff.mpr (by omega)
    have := he.pow_nonneg a
    omega
  · rintro ⟨b, hb, hodd, t, ht⟩
    exact isPP_of_mag u t b hb hodd ht

/-! ### pow2P, isprime, scan1 -/

theorem pow2P_true (n : Nat) (hn : n ≠ 0) (h : pow2P n = true) : ∃ k, n = 2 ^ k := by
  unfold pow2P at h
  exact (Nat.and_sub_one_eq_zero_iff_isPowerOfTwo hn).mp (by simpa using h)

/-- an odd divisor of a power of two is 1. -/
theorem odd_dvd_pow2P (n b : Nat) (hn : n ≠ 0) (h : pow2P n = true) (hb : b ∣ n) (hodd : b % 2 = 1) : b = 1 := by
  obtain ⟨k, rfl⟩ := pow2P_true n hn h
  obtain ⟨j, -, rfl⟩ := (Nat.dvd_prime_pow Nat.prime_two).mp hb
  cases j with
  | zero => rfl
  | succ j => rw [pow_succ] at hodd; omega

theorem isprimeGo_iff (t : Nat) (ht : 3 ≤ t) (hodd : t % 2 = 1) : ∀ (fuel d : Nat), d % 2 = 1 → 3 ≤ d →
    (∀ e, 2 ≤ e → e < d → ¬ e ∣ t) → t < d + 2 * fuel → (isprimeGo t fuel d = true ↔ t.Prime)
  | 0, d, _, _, hnd, hf => by
    exact absurd (Nat.dvd_refl t) (hnd t (by omega) (by omega))
  | fuel + 1, d, hd, hd3, hnd, hf => by
    unfold isprimeGo
    dsimp only
    by_cases hq : t / d < d
    · rw [if_pos hq]
      simp only [true_iff]
      rw [Nat.prime_def_le_sqrt]
      refine ⟨by omega, fun m hm2 hms hmd => ?_⟩
      have h1 : m * m ≤ t := Nat.le_sqrt.mp hms
      have h2 : t < d * d := by
        have := (Nat.div_lt_iff_lt_mul (by omega : 0 < d)).mp hq
        exact this
      have : m < d := by
        by_contra hc
        have : d * d ≤ m * m := Nat.mul_le_mul (by omega) (by omega)
        omega
      exact hnd m hm2 this hmd
    · rw [if_neg hq]
      have hdd : d * d ≤ t := by
        have : d ≤ t / d := by omega
        calc d * d ≤ t / d * d := Nat.mul_le_mul_right _ this
          _ ≤ t := Nat.div_mul_le_self _ _
      by_cases hr : t - t / d * d = 0
      · rw [if_pos hr]
        simp only [Bool.false_eq_true, false_iff]
        intro hp
        have hdvd : d ∣ t := by
          have := Nat.div_mul_le_self t d
          exact ⟨t / d, by rw [Nat.mul_comm]; omega⟩
        rcases hp.eq_one_or_self_of_dvd d hdvd with h | h
        · omega
        · have : 3 * d ≤ d * d := Nat.mul_le_mul_right _ hd3
          omega
      · rw [if_neg hr]
        refine isprimeGo_iff t ht hodd fuel (d + 2) (by omega) (by omega) (fun e he2 hed => ?_) (by omega)
        by_cases h1 : e < d
        · exact hnd e he2 h1
        · by_cases h2 : e = d
          · subst h2
            intro hdvd
            apply hr
            obtain ⟨c, hc⟩ := hdvd
            rw [hc, Nat.mul_div_cancel_left _ (by omega : 0 < e), Nat.mul_comm]; omega
          · have h3 : e = d + 1 := by omega
            subst h3
            intro hdvd
            have : 2 ∣ t := Nat.dvd_trans ⟨(d + 1) / 2, by omega⟩ hdvd
            omega

theorem isprime_iff (t : Nat) : isprime t = true ↔ t.Prime := by
  unfold isprime
  by_cases h : t < 3 ∨ t % 2 = 0
  · rw [if_pos h]
    simp only [beq_iff_eq]
    constructor
    · rintro rfl; exact Nat.prime_two
    · intro hp
      rcases h with h | h
      · have := hp.two_le; omega
      · rcases hp.eq_one_or_self_of_dvd 2 (Nat.dvd_of_mod_eq_zero h) with h2 | h2 <;> omega
  · rw [if_neg h]
    exact isprimeGo_iff t (by omega) (by omega) t 3 (by norm_num) (by norm_num)
      (fun e he2 he3 hd => by
        have : e = 2 := by omega
        subst this
        have := Nat.mod_eq_zero_of_dvd hd
        omega) (by omega)

theorem scan1Go_odd : ∀ (fuel a c : Nat), 0 < a → a < 2 ^ fuel →
    ∃ t, scan1Go fuel a c = c + t ∧ 2 ^ t ∣ a ∧ (a / 2 ^ t) % 2 = 1
  | 0, a, c, h0, hf => by simp at hf; omega
  | fuel + 1, a, c, h0, hf => by
    unfold scan1Go
    by_cases h : a % 2 = 0
    · rw [if_pos h]
      obtain ⟨t, e, d, o⟩ := scan1Go_odd fuel (a / 2) (c + 1) (by omega) (by rw [pow_succ] at hf; omega)
      refine ⟨t + 1, by rw [e]; omega, ?_, ?_⟩
      · obtain ⟨q, hq⟩ := d
        exact ⟨q, by rw [pow_succ]; have := Nat.div_add_mod a 2; rw [hq] at this; rw [← this, h]; ring⟩
      · rw [pow_succ, Nat.mul_comm, ← Nat.div_div_eq_div_mul]; exact o
    · rw [if_neg h]
      exact ⟨0, rfl, by simp, by simp; omega⟩

/-- the odd part: `a = 2^(scan1 a)·(a >> scan1 a)` with an odd cofactor. -/
theorem scan1_odd (a : Nat) (ha : 0 < a) : (a >>> scan1 a) % 2 = 1 := by
  obtain ⟨t, e, _, o⟩ := scan1Go_odd (bitLen a) a 0 ha (bitLen_spec a ha).2.1
  unfold scan1
  rw [e, Nat.zero_add, Nat.shiftRight_eq_div_pow]; exact o

/-! ### the invariant -/

/-- for every exponent `b ≥ 2`: `A` is a b-th power iff `b ∣ n2` and the cofactor `a` is. -/
def PPInv (A a n2 : Nat) : Prop := ∀ b, 2 ≤ b → (IsPow b A ↔ b ∣ n2 ∧ IsPow b a)

/-- the exponents allowed by the sign. -/
def ExpOK (u : Int) (b : Nat) : Prop := 2 ≤ b ∧ (u < 0 → b % 2 = 1)

theorem isPP_inv {u : Int} {a n2 : Nat} (hinv : PPInv u.natAbs a n2) :
    IsPP u ↔ ∃ b, ExpOK u b ∧ b ∣ n2 ∧ IsPow b a := by
  rw [isPP_iff_mag]
  constructor
  · rintro ⟨b, h1, h2, h3⟩; exact ⟨b, ⟨h1, h2⟩, (hinv b h1).mp h3⟩
  · rintro ⟨b, ⟨h1, h2⟩, h3⟩; exact ⟨b, h1, h2, (hinv b h1).mpr h3⟩

/-- `(rootExact a m).2` decides "`a` is an m-th power" under the contract at `(a, m)`. -/
theorem rootExact_iff (a m : Nat) (hrr : 2 ≤ m → RootremAt a m) (ha : 0 < a) (hm : 1 ≤ m) :
    (rootExact a m).2 = true ↔ IsPow m a := by
  rw [rootExact_spec a m hrr ha hm, isPow_iff_iroot m a (by omega)]
  simp

/-- label `n2prime:` with a prime `n2`: complete. -/
theorem ppN2prime_complete (u : Int) (a n2 : Nat) (hp : n2.Prime) (hrr : RootremAt a n2) (ha : 0 < a)
    (hinv : PPInv u.natAbs a n2) (h : IsPP u) : ppN2prime (decide (u < 0)) a n2 = true := by
  obtain ⟨b, ⟨hb2, hbo⟩, hd, hpw⟩ := (isPP_inv hinv).mp h
  have hbn : b = n2 := by
    rcases hp.eq_one_or_self_of_dvd b hd with h1 | h1
    · omega
    · exact h1
  subst hbn
  unfold ppN2prime
  by_cases hc : (decide (b = 2) && decide (u < 0)) = true
  · exfalso
    simp only [Bool.and_eq_true, decide_eq_true_eq] at hc
    have := hbo hc.2
    omega
  · rw [if_neg hc]
    exact (rootExact_iff a b (fun _ => hrr) ha (by omega)).mpr hpw

/-! ### the factoring loop -/

theorem stripPrime_max (p : Nat) (hp : 2 ≤ p) : ∀ (fuel a n : Nat), 0 < a → a < 2 ^ fuel →
    ∃ t, stripPrime p fuel a n = (a / p ^ t, n + t) ∧ p ^ t ∣ a ∧ ¬ p ∣ a / p ^ t
  | 0, a, n, h0, hf => by simp at hf; omega
  | fuel + 1, a, n, h0, hf => by
    unfold stripPrime
    by_cases h : a % p = 0
    · rw [if_pos h]
      have hdv : p ∣ a := Nat.dvd_of_mod_eq_zero h
      have hlt : a / p < 2 ^ fuel := by
        have : a / p ≤ a / 2 := Nat.div_le_div_left hp (by omega)
        rw [pow_succ] at hf; omega
      have hpos : 0 < a / p := Nat.div_pos (Nat.le_of_dvd h0 hdv) (by omega)
      obtain ⟨t, e, d, o⟩ := stripPrime_max p hp fuel (a / p) (n + 1) hpos hlt
      refine ⟨t + 1, by rw [e, Nat.div_div_eq_div_mul, ← pow_succ']; congr 1; omega, ?_, ?_⟩
      · obtain ⟨q, hq⟩ := d
        exact ⟨q, by rw [pow_succ', Nat.mul_assoc, ← hq, Nat.mul_div_cancel' hdv]⟩
      · rw [pow_succ', ← Nat.div_div_eq_div_mul]; exact o
    · rw [if_neg h]
      exact ⟨0, by simp, by simp, by simpa using fun hd => h (Nat.mod_eq_zero_of_dvd hd)⟩

/-- COMPLETENESS of the trial-division loop: an early answer is "yes" for every perfect power; falling through keeps
    the invariant, and the cofactor has no divisor among the primes tried. -/
theorem ppFactor_complete (u : Int) (hrr : ∀ a k, 0 < a → 2 ≤ k → a ∣ u.natAbs → RootremAt a k) (hu : u ≠ 0) :
    ∀ (ps : List Nat) (a n2 : Nat), (∀ p ∈ ps, p.Prime) → 0 < a → a ∣ u.natAbs → PPInv u.natAbs a n2 →
    match ppFactor (decide (u < 0)) ps a n2 with
    | .inl b => IsPP u → b = true
    | .inr (a', n2') => 0 < a' ∧ a' ∣ a ∧ PPInv u.natAbs a' n2' ∧ ∀ p ∈ ps, ¬ p ∣ a'
  | [], a, n2, _, ha, _, hinv => by
    simp only [ppFactor]
    exact ⟨ha, Nat.dvd_refl a, hinv, fun p hp => by simp at hp⟩
  | p :: ps, a, n2, hps, ha, hau, hinv => by
    have hpp : p.Prime := hps p (by simp)
    have hps' : ∀ q ∈ ps, q.Prime := fun q hq => hps q (List.mem_cons_of_mem _ hq)
    unfold ppFactor
    by_cases h1 : a % p = 0
    · rw [if_pos h1]
      by_cases h2 : a % (p * p) ≠ 0
      · -- p divides exactly once
        rw [if_pos h2]
        intro hpp'
        exfalso
        obtain ⟨b, ⟨hb2, _⟩, _, hpw⟩ := (isPP_inv hinv).mp hpp'
        have hdv : p ∣ a := Nat.dvd_of_mod_eq_zero h1
        obtain ⟨c, hc⟩ := hdv
        have hnc : ¬ p ∣ c := by
          rintro ⟨d, rfl⟩
          apply h2
          rw [hc]; exact Nat.mod_eq_zero_of_dvd ⟨d, by ring⟩
        have := (isPow_split hpp 1 c b (by omega) hnc).mp (by rw [pow_one, ← hc]; exact hpw)
        have := Nat.le_of_dvd (by omega) this.1
        omega
      · rw [if_neg h2]
        have h2' : a % (p * p) = 0 := by simpa using h2
        have hdv2 : p * p ∣ a := Nat.dvd_of_mod_eq_zero h2'
        have hpos2 : 0 < a / (p * p) := Nat.div_pos (Nat.le_of_dvd ha hdv2) (Nat.mul_pos hpp.pos hpp.pos)
        have hlt2 : a / (p * p) < 2 ^ bitLen a :=
          Nat.lt_of_le_of_lt (Nat.div_le_self _ _) (bitLen_spec a ha).2.1
        obtain ⟨t, e, d, o⟩ := stripPrime_max p hpp.two_le (bitLen a) (a / (p * p)) 2 hpos2 hlt2
        rw [e]
        dsimp only
        -- a = p^(2+t) · a'
        have ha_eq : a = p ^ (2 + t) * (a / (p * p) / p ^ t) := by
          have e1 : a = p * p * (a / (p * p)) := (Nat.mul_div_cancel' hdv2).symm
          have e2 : a / (p * p) = p ^ t * (a / (p * p) / p ^ t) := (Nat.mul_div_cancel' d).symm
          rw [pow_add, pow_two, Nat.mul_assoc, ← e2, ← e1]
        generalize a / (p * p) / p ^ t = a' at *
        generalize hn : 2 + t = n at *
        have ha' : 0 < a' := by
          rcases Nat.eq_zero_or_pos a' with h0 | h0
          · rw [h0, Nat.mul_zero] at ha_eq; omega
          · exact h0
        have ha'a : a' ∣ a := ⟨p ^ n, by rw [ha_eq, Nat.mul_comm]⟩
        -- the invariant after this prime
        have hinv' : PPInv u.natAbs a' (Nat.gcd n2 n) := by
          intro b hb
          rw [hinv b hb, ha_eq, isPow_split hpp n a' b (by omega) o, Nat.dvd_gcd_iff]
          tauto
        by_cases h3 : (pow2P n && decide (u < 0)) = true
        · rw [if_pos h3]
          intro hpp'
          exfalso
          simp only [Bool.and_eq_true, decide_eq_true_eq] at h3
          obtain ⟨b, ⟨hb2, hbo⟩, hd, _⟩ := (isPP_inv hinv').mp hpp'
          have := odd_dvd_pow2P n b (by omega) h3.1 (Nat.dvd_trans hd (Nat.gcd_dvd_right _ _)) (hbo h3.2)
          omega
        · rw [if_neg h3]
          by_cases h4 : Nat.gcd n2 n = 1
          · rw [if_pos h4]
            intro hpp'
            exfalso
            obtain ⟨b, ⟨hb2, _⟩, hd, _⟩ := (isPP_inv hinv').mp hpp'
            rw [h4] at hd
            have := Nat.le_of_dvd (by omega) hd
            omega
          · rw [if_neg h4]
            have hg0 : Nat.gcd n2 n ≠ 0 := by
              have : 0 < Nat.gcd n2 n := Nat.gcd_pos_of_pos_right _ (by omega)
              omega
            generalize Nat.gcd n2 n = g at *
            by_cases h5 : a' = 1
            · rw [if_pos h5]
              intro hpp'
              obtain ⟨b, ⟨hb2, hbo⟩, hd, _⟩ := (isPP_inv hinv').mp hpp'
              simp only [Bool.not_eq_true', Bool.and_eq_false_iff, decide_eq_false_iff_not]
              by_cases hneg : u < 0
              · right
                by_contra hc
                have hc' : pow2P g = true := by simpa using hc
                have := odd_dvd_pow2P g b hg0 hc' hd (hbo hneg)
                omega
              · left; exact hneg
            · rw [if_neg h5]
              by_cases h6 : isprime g = true
              · rw [if_pos h6]
                intro hpp'
                exact ppN2prime_complete u a' g ((isprime_iff g).mp h6)
                  (hrr a' g ha' ((isprime_iff g).mp h6).two_le (Nat.dvd_trans ha'a hau)) ha' hinv' hpp'
              · rw [if_neg h6]
                have key := ppFactor_complete u hrr hu ps a' g hps' ha' (Nat.dvd_trans ha'a hau) hinv'
                generalize ppFactor (decide (u < 0)) ps a' g = res at *
                cases res with
                | inl b => exact key
                | inr pr =>
                  obtain ⟨a'', n2''⟩ := pr
                  simp only at key ⊢
                  obtain ⟨k1, k2, k3, k4⟩ := key
                  refine ⟨k1, Nat.dvd_trans k2 ha'a, k3, fun q hq => ?_⟩
                  rcases List.mem_cons.mp hq with rfl | hq'
                  · exact fun hd => o (Nat.dvd_trans hd k2)
                  · exact k4 q hq'
    · rw [if_neg h1]
      have key := ppFactor_complete u hrr hu ps a n2 hps' ha hau hinv
      generalize ppFactor (decide (u < 0)) ps a n2 = res at *
      cases res with
      | inl b => exact key
      | inr pr =>
        obtain ⟨a'', n2''⟩ := pr
        simp only at key ⊢
        obtain ⟨k1, k2, k3, k4⟩ := key
        refine ⟨k1, k2, k3, fun q hq => ?_⟩
        rcases List.mem_cons.mp hq with rfl | hq'
        · exact fun hd => h1 (Nat.mod_eq_zero_of_dvd (Nat.dvd_trans hd k2))
        · exact k4 q hq'

/-! ### the root-attempt loops -/

/-- COMPLETENESS of both root-attempt loops: if `a = t^m` for a prime `m ≥ nth` (dividing `n2` in the bounded loop) and `a`
    has no divisor in `[2, SMALLEST_OMITTED_PRIME)`, the loop reaches an exact root before its cut-off and before its
    fuel / bound runs out. -/
theorem ppRoots_complete (a : Nat) (bound : Option Nat) (m : Nat) (hm : m.Prime) (ha : 0 < a)
    (hrr : ∀ k, 2 ≤ k → RootremAt a k) (hpow : IsPow m a)
    (hbound : ∀ n2, bound = some n2 → m ∣ n2 ∧ 0 < n2)
    (hbig : ∀ t, 2 ≤ t → t ∣ a → smallestOmittedPrime ≤ t) :
    ∀ (fuel nth : Nat), 2 ≤ nth → nth ≤ m → m < nth + fuel → ppRoots a bound fuel nth = true
  | 0, nth, _, h1, h2 => by omega
  | fuel + 1, nth, h0, h1, h2 => by
    have hmp : isprime m = true := (isprime_iff m).mpr hm
    -- the attempt at `nth`: exact, or the root is still large
    have attempt : (rootExact a nth).2 = false → nth ≠ m ∧ ¬ (rootExact a nth).1 < smallestOmittedPrime := by
      intro hne
      have hspec := rootExact_spec a nth (hrr nth) ha (by omega)
      have hnot : ¬ IsPow nth a := by
        rw [← rootExact_iff a nth (hrr nth) ha (by omega), hne]; simp
      have hnm : nth ≠ m := by rintro rfl; exact hnot hpow
      refine ⟨hnm, ?_⟩
      rw [hspec]
      simp only [not_lt]
      obtain ⟨t, ht⟩ := hpow
      have ht2 : 2 ≤ t := by
        by_contra hc
        have : t = 0 ∨ t = 1 := by omega
        rcases this with rfl | rfl
        · rw [Nat.zero_pow hm.pos] at ht; omega
        · rw [Nat.one_pow] at ht
          exact hnot ⟨1, by rw [ht, Nat.one_pow]⟩
      have htb := hbig t ht2 ⟨t ^ (m - 1), by rw [ht, ← pow_succ']; congr 1; have := hm.pos; omega⟩
      apply Rootrem.le_iroot (by omega)
      calc smallestOmittedPrime ^ nth ≤ t ^ nth := Nat.pow_le_pow_left htb _
        _ ≤ t ^ m := Nat.pow_le_pow_right (by omega) h1
        _ = a := ht.symm
    unfold ppRoots
    cases bound with
    | none =>
      simp only
      by_cases hp : isprime nth = true
      · simp only [hp, Bool.not_true, Bool.false_eq_true, if_false]
        by_cases he : (rootExact a nth).2 = true
        · generalize rootExact a nth = re at *
          obtain ⟨q, ex⟩ := re
          simp only at he ⊢
          rw [he]; simp
        · have he' : (rootExact a nth).2 = false := by simpa using he
          obtain ⟨g1, g2⟩ := attempt he'
          generalize rootExact a nth = re at *
          obtain ⟨q, ex⟩ := re
          simp only at he' g2 ⊢
          rw [he']
          simp only [Bool.false_eq_true, if_false]
          rw [if_neg g2]
          exact ppRoots_complete a none m hm ha hrr hpow hbound hbig fuel (nth + 1) (by omega) (by omega) (by omega)
      · have hp' : isprime nth = false := by simpa using hp
        have hnm : nth ≠ m := by rintro rfl; rw [hmp] at hp'; simp at hp'
        simp only [hp', Bool.not_false, if_true]
        exact ppRoots_complete a none m hm ha hrr hpow hbound hbig fuel (nth + 1) (by omega) (by omega) (by omega)
    | some n2 =>
      simp only
      obtain ⟨hmd, hn2⟩ := hbound n2 rfl
      have hmle : m ≤ n2 := Nat.le_of_dvd hn2 hmd
      rw [if_neg (by omega)]
      by_cases hc : (!isprime nth || n2 % nth != 0) = true
      · rw [if_pos hc]
        have hnm : nth ≠ m := by
          rintro rfl
          rw [hmp, Nat.mod_eq_zero_of_dvd hmd] at hc
          simp at hc
        exact ppRoots_complete a (some n2) m hm ha hrr hpow hbound hbig fuel (nth + 1) (by omega) (by omega) (by omega)
      · rw [if_neg hc]
        by_cases he : (rootExact a nth).2 = true
        · generalize rootExact a nth = re at *
          obtain ⟨q, ex⟩ := re
          simp only at he ⊢
          rw [he]; simp
        · have he' : (rootExact a nth).2 = false := by simpa using he
          obtain ⟨g1, g2⟩ := attempt he'
          generalize rootExact a nth = re at *
          obtain ⟨q, ex⟩ := re
          simp only at he' g2 ⊢
          rw [he']
          simp only [Bool.false_eq_true, if_false]
          rw [if_neg g2]
          exact ppRoots_complete a (some n2) m hm ha hrr hpow hbound hbig fuel (nth + 1) (by omega) (by omega) (by omega)

/-! ### mpz_perfect_power_p -/

/-- COMPLETENESS: mpz_perfect_power_p answers "yes" on every perfect power. -/
theorem perfect_power_complete_at (u : Int) (hrr : ∀ a k, 0 < a → 2 ≤ k → a ∣ u.natAbs → RootremAt a k)
    (h : IsPP u) : mpzPerfectPowerP u = true := by
  unfold mpzPerfectPowerP
  by_cases h0 : u = 0
  · rw [if_pos h0]
  · rw [if_neg h0]
    dsimp only
    have hA : 0 < u.natAbs := Int.natAbs_pos.mpr h0
    have hsc := scan1_spec u.natAbs
    have hodd := scan1_odd u.natAbs hA
    generalize scan1 u.natAbs = n2 at *
    have ha2 : 0 < u.natAbs >>> n2 := by
      rcases Nat.eq_zero_or_pos (u.natAbs >>> n2) with hz | hz
      · rw [hz] at hodd; simp at hodd
      · exact hz
    generalize u.natAbs >>> n2 = a2 at *
    have h2nd : ¬ 2 ∣ a2 := fun hd => by have := Nat.mod_eq_zero_of_dvd hd; omega
    have ha2u : a2 ∣ u.natAbs := ⟨2 ^ n2, by rw [hsc, Nat.mul_comm]⟩
    have hinv : PPInv u.natAbs a2 n2 := by
      intro b hb
      rw [hsc]
      exact isPow_split Nat.prime_two n2 a2 b (by omega) h2nd
    obtain ⟨b, ⟨hb2, hbo⟩, hbd, hbp⟩ := (isPP_inv hinv).mp h
    by_cases h1 : n2 = 1
    · exfalso; rw [h1] at hbd; have := Nat.le_of_dvd (by omega) hbd; omega
    · rw [if_neg h1]
      by_cases h2 : (decide (n2 > 1) && pow2P n2 && decide (u < 0)) = true
      · exfalso
        simp only [Bool.and_eq_true, decide_eq_true_eq] at h2
        have := odd_dvd_pow2P n2 b (by omega) h2.1.2 hbd (hbo h2.2)
        omega
      · rw [if_neg h2]
        by_cases h3 : isprime n2 = true
        · rw [if_pos h3]
          have hp := (isprime_iff n2).mp h3
          exact ppN2prime_complete u a2 n2 hp (hrr a2 n2 ha2 hp.two_le ha2u) ha2 hinv h
        · rw [if_neg h3]
          have key := ppFactor_complete u hrr h0 (perfpowPrimes.drop 1) a2 n2
            (fun p hp => perfpowPrimes_prime p (List.mem_of_mem_drop hp)) ha2 ha2u hinv
          generalize ppFactor (decide (u < 0)) (perfpowPrimes.drop 1) a2 n2 = res at *
          cases res with
          | inl r => exact key h
          | inr pr =>
            obtain ⟨a3, n3⟩ := pr
            simp only at key ⊢
            obtain ⟨ha3, ha32, hinv3, hcop⟩ := key
            have ha3u : a3 ∣ u.natAbs := Nat.dvd_trans ha32 ha2u
            -- no small divisors are left
            have hbig : ∀ t, 2 ≤ t → t ∣ a3 → smallestOmittedPrime ≤ t := by
              intro t ht2 htd
              by_contra hc
              obtain ⟨p, hp, hpd⟩ := perfpowPrimes_cover t ht2 (by omega)
              rw [perfpowPrimes_head] at hp
              rcases List.mem_cons.mp hp with rfl | hp'
              · exact h2nd (Nat.dvd_trans hpd (Nat.dvd_trans htd ha32))
              · exact hcop p hp' (Nat.dvd_trans hpd htd)
            obtain ⟨b3, ⟨hb32, hb3o⟩, hb3d, hb3p⟩ := (isPP_inv hinv3).mp h
            -- a prime divisor of the exponent
            have hmp : (Nat.minFac b3).Prime := Nat.minFac_prime (by omega)
            have hmd : Nat.minFac b3 ∣ b3 := Nat.minFac_dvd b3
            generalize Nat.minFac b3 = m at *
            have hmpow : IsPow m a3 := isPow_of_dvd hmd hb3p
            have hstart : (if decide (u < 0) = true then 3 else 2) ≤ m := by
              by_cases hneg : u < 0
              · simp only [hneg, decide_true, if_true]
                have hm2 := hmp.two_le
                have : m ≠ 2 := by
                  rintro rfl
                  have := hb3o hneg
                  have := Nat.mod_eq_zero_of_dvd hmd
                  omega
                omega
              · simp only [hneg, decide_false, Bool.false_eq_true, if_false]; exact hmp.two_le
            have hs2 : 2 ≤ (if decide (u < 0) = true then 3 else 2) := by split <;> omega
            have hrr3 : ∀ k, 2 ≤ k → RootremAt a3 k := fun k hk => hrr a3 k ha3 hk ha3u
            by_cases h4 : n3 = 0
            · rw [if_pos h4]
              by_cases ha31 : a3 = 1
              · -- the cofactor is 1: the first index tried (2, or 3 for a negative operand) is exact
                subst ha31
                by_cases hneg : u < 0
                · simp only [hneg, decide_true, if_true]
                  exact ppRoots_complete 1 none 3 Nat.prime_three ha3 hrr3 ⟨1, by simp⟩ (fun _ hh => by cases hh) hbig
                    _ 3 (by omega) (by omega) (by omega)
                · simp only [hneg, decide_false, Bool.false_eq_true, if_false]
                  exact ppRoots_complete 1 none 2 Nat.prime_two ha3 hrr3 ⟨1, by simp⟩ (fun _ hh => by cases hh) hbig
                    _ 2 (by omega) (by omega) (by omega)
              · refine ppRoots_complete a3 none m hmp ha3 hrr3 hmpow (fun _ hh => by cases hh) hbig _ _ hs2 hstart ?_
                -- fuel: 2^m ≤ a3, so m < bits(a3)
                obtain ⟨t, ht⟩ := hmpow
                have ht2 : 2 ≤ t := by
                  by_contra hc
                  have : t = 0 ∨ t = 1 := by omega
                  rcases this with rfl | rfl
                  · rw [Nat.zero_pow hmp.pos] at ht; omega
                  · rw [Nat.one_pow] at ht; exact ha31 ht
                have h2t : 2 ^ m ≤ a3 := by rw [ht]; exact Nat.pow_le_pow_left ht2 m
                have hlt := (bitLen_spec a3 ha3).2.1
                have : 2 ^ m < 2 ^ bitLen a3 := by omega
                have := (Nat.pow_lt_pow_iff_right (by norm_num : 1 < 2)).mp this
                omega
            · rw [if_neg h4]
              refine ppRoots_complete a3 (some n3) m hmp ha3 hrr3 hmpow
                (fun n hh => by cases hh; exact ⟨Nat.dvd_trans hmd hb3d, by omega⟩) hbig _ _ hs2 hstart ?_
              have := Nat.le_of_dvd (by omega) (Nat.dvd_trans hmd hb3d)
              omega

end Mpir.Root
