/- C20, stream I/O, second part: lemmas for Props/C20_io2.lean (models: Mpir/Model/CxxIo.lean, CxxIo2.lean). -/
import MpirProofs.Lemmas.CxxIo
import Mpir.Model.CxxIo2
namespace Mpir.CxxIo
open Mpir.Printf

/-! ### cursors -/

theorem Cursor.mono {P Q : Char → Prop} (hPQ : ∀ c, P c → Q c) {f : Fmt} {d u : List Char} {i : IStream} {c : Char}
    (h : Cursor P f d u i c) : Cursor Q f d u i c := by
  rcases h with h | ⟨h1, h2, h3⟩
  · exact Or.inl h
  · exact Or.inr ⟨h1, h2, hPQ c h3⟩

/-- reading the character the cursor stands on -/
theorem get_cursor {P : Char → Prop} {f : Fmt} {d : List Char} {x : Char} {r : List Char} {i : IStream} {c : Char}
    (h : Cursor P f d (x :: r) i c) : c = x ∧ Cursor (· = x) f (x :: d) r (i.get c).1 (i.get c).2 := by
  rcases h with ⟨r', he, rfl⟩ | ⟨he, _, _⟩
  · cases he
    refine ⟨rfl, ?_⟩
    cases r with
    | nil => exact Or.inr ⟨rfl, rfl, rfl⟩
    | cons y r'' => exact Or.inl ⟨r'', rfl, rfl⟩
  · cases he

/-- the test `c == a` of the C against the text, for a character `a` the stale character cannot be -/
theorem cursor_head {P : Char → Prop} {f : Fmt} {d u : List Char} {i : IStream} {c : Char} (h : Cursor P f d u i c) (a : Char)
    (hP : ∀ c, P c → c ≠ a) : c = a ↔ ∃ t, u = a :: t := by
  rcases h with ⟨r, rfl, rfl⟩ | ⟨rfl, _, h3⟩
  · constructor
    · rintro rfl; exact ⟨r, rfl⟩
    · rintro ⟨t, ht⟩; cases ht; rfl
  · constructor
    · intro e; exact absurd e (hP c h3)
    · rintro ⟨t, ht⟩; cases ht

theorem finish_cursor {P : Char → Prop} {f : Fmt} {d u : List Char} {i : IStream} {c : Char} (h : Cursor P f d u i c) (a : Bool) :
    finish i c a = if u = [] then (if a then mkG [] d f else mkE d f) else mkG u d f := by
  rcases h with ⟨r, rfl, rfl⟩ | ⟨rfl, rfl, _⟩
  · simp [finish_mkG]
  · simp [finish_mkE]

theorem digitTest10_eq : digitTest 10 = isdigit := by
  funext c; simp [digitTest]

/-- `__gmp_istream_set_digits (s, i, c, ok, 10)` from a cursor: the longest run of digits is collected and consumed -/
theorem setDigits_cursor {P : Char → Prop} (hP : ∀ c, P c → isdigit c = false) {f : Fmt} {d u : List Char} {i : IStream} {c : Char}
    (s : List Char) (ok : Bool) (h : Cursor P f d u i c) :
    (setDigits s i c ok 10).1 = s ++ u.takeWhile isdigit ∧
    (setDigits s i c ok 10).2.2.2 = (ok || !(u.takeWhile isdigit).isEmpty) ∧
    Cursor (fun c => P c ∨ isdigit c = true) f ((u.takeWhile isdigit).reverse ++ d) (u.dropWhile isdigit)
      (setDigits s i c ok 10).2.1 (setDigits s i c ok 10).2.2.1 := by
  rcases h with ⟨r, rfl, rfl⟩ | ⟨rfl, rfl, hc⟩
  · unfold setDigits
    simp only [rest_mkG]
    rcases digitsLoop_spec (digitTest 10) f r (r.length + 1) s c d ok (Nat.le_refl _) with ⟨x, tl, h1, h2⟩ | ⟨h1, c', hc', h2⟩
    · rw [h2]
      rw [digitTest10_eq] at h1 ⊢
      exact ⟨rfl, rfl, Or.inl ⟨tl, h1, rfl⟩⟩
    · rw [h2]
      rw [digitTest10_eq] at h1 hc' ⊢
      have hds : List.takeWhile isdigit (c :: r) = c :: r := takeWhile_all _ _ h1
      refine ⟨rfl, ?_, Or.inr ⟨h1, rfl, Or.inr hc'⟩⟩
      rw [hds]; simp
  · unfold setDigits
    rw [digitsLoop_mkE _ _ _ _ _ _ _ (by rw [digitTest10_eq]; exact hP c hc)]
    exact ⟨by simp, by simp, Or.inr ⟨by simp, by simp, Or.inl hc⟩⟩

/-! ### the specification side -/

theorem after_append (f : Fmt) (d X v : List Char) (n : Nat) (e fl : Bool) :
    after f d (X ++ v) (X.length + n) e fl = after f (X.reverse ++ d) v n e fl := by
  induction X generalizing d with
  | nil => simp
  | cons x X ih =>
    have : (x :: X).length + n = (X.length + n) + 1 := by simp; omega
    rw [this, List.cons_append, after_cons, ih]
    simp

theorem expSpec_pre (k : Nat) (m u : List Char) :
    expSpec k m u = { expSpec 0 m u with n := k + (expSpec 0 m u).n } := by
  unfold expSpec
  split
  · split
    · simp only []
      split <;> simp <;> omega
    · simp
  · simp

theorem mantSpec_pre (sg : List Char) (k : Nat) (u : List Char) :
    mantSpec sg k u = { mantSpec sg 0 u with n := k + (mantSpec sg 0 u).n } := by
  unfold mantSpec
  simp only []
  split
  · split
    · simp
    · rw [expSpec_pre (k + _ + 1 + _), expSpec_pre (0 + _ + 1 + _)]; simp; omega
  · split
    · simp
    · rw [expSpec_pre (k + _), expSpec_pre (0 + _)]; simp; omega

/-! ### ismpf.cc, stage by stage -/

/-- ismpf.cc:109-136: exponent, putback / clear, verdict -/
def expRun (s : List Char) (i : IStream) (c : Char) (ok : Bool) : IStream × Option (List Char) :=
  let r : List Char × IStream × Char × Bool :=
    if ok ∧ (c = 'e' ∨ c = 'E') then
      let g := i.get c
      let sg : List Char × IStream × Char :=
        if g.2 = '-' ∨ g.2 = '+' then ((s ++ [c]) ++ [g.2], (g.1.get g.2).1, (g.1.get g.2).2) else (s ++ [c], g.1, g.2)
      setDigits sg.1 sg.2.1 sg.2.2 false 10
    else (s, i, c, ok)
  let i' := finish r.2.1 r.2.2.1 r.2.2.2
  if r.2.2.2 then (i', some r.1) else (i'.setFail, none)

/-- ismpf.cc:86-136: digits, point, digits, then `expRun` -/
def mantRun (s : List Char) (i : IStream) (c : Char) : IStream × Option (List Char) :=
  let r1 := setDigits s i c false 10
  let r2 : List Char × IStream × Char × Bool :=
    if r1.2.2.1 = '.' then
      setDigits (r1.1 ++ ['.']) (r1.2.1.get r1.2.2.1).1 (r1.2.1.get r1.2.2.1).2 r1.2.2.2 10
    else r1
  expRun r2.1 r2.2.1 r2.2.2.1 r2.2.2.2

theorem scanF_eq (i : IStream) :
    scanF i = mantRun (readSign (start i).1 (start i).2).1 (readSign (start i).1 (start i).2).2.1 (readSign (start i).1 (start i).2).2.2 := by
  unfold scanF mantRun expRun
  simp only []

theorem after_fail_here (f : Fmt) (d u : List Char) :
    (if u = [] then mkE d f else mkG u d f).setFail = after f d u 0 u.isEmpty true := by
  cases u <;> simp [after, mkE, mkG, IStream.setFail]

theorem exp_stage {P : Char → Prop} (hP : ∀ c, P c → c ≠ 'e' ∧ c ≠ 'E') {f : Fmt} {d u : List Char} {i : IStream} {c : Char}
    (m : List Char) (ok : Bool) (h : Cursor P f d u i c) :
    expRun m i c ok =
      if ok then (after f d u (expSpec 0 m u).n (expSpec 0 m u).eof (expSpec 0 m u).fail, (expSpec 0 m u).text)
      else (after f d u 0 u.isEmpty true, none) := by
  have hfin : ∀ a : Bool, (finish i c a) = if u = [] then (if a then mkG [] d f else mkE d f) else mkG u d f := finish_cursor h
  cases ok with
  | false =>
    unfold expRun
    simp only [Bool.false_eq_true, false_and, if_false, hfin]
    rw [← after_fail_here]
  | true =>
    have he := cursor_head h 'e' (fun c hc => (hP c hc).1)
    have hE := cursor_head h 'E' (fun c hc => (hP c hc).2)
    by_cases hc : c = 'e' ∨ c = 'E'
    · -- an exponent follows
      obtain ⟨t, rfl⟩ : ∃ t, u = c :: t := by
        rcases hc with rfl | rfl
        · exact he.mp rfl
        · exact hE.mp rfl
      obtain ⟨_, hg⟩ := get_cursor h
      have hspec : expSpec 0 m (c :: t) =
          (if (expSign t).2.takeWhile isdigit = [] then ⟨0 + 1 + (expSign t).1.length, none, (expSign t).2.isEmpty, true⟩
           else ⟨0 + 1 + (expSign t).1.length + ((expSign t).2.takeWhile isdigit).length,
                 some (m ++ c :: (expSign t).1 ++ (expSign t).2.takeWhile isdigit), false, false⟩) := by
        simp only [expSpec, hc, if_true]
      rw [hspec]
      unfold expRun
      simp only [hc, and_self, if_true]
      -- the sign of the exponent
      have hsg : ∃ (es t1 : List Char) (i2 : IStream) (c2 : Char),
          expSign t = (es, t1) ∧ c :: t = (c :: es) ++ t1 ∧
          (if (i.get c).2 = '-' ∨ (i.get c).2 = '+' then ((m ++ [c]) ++ [(i.get c).2], ((i.get c).1.get (i.get c).2).1, ((i.get c).1.get (i.get c).2).2)
            else (m ++ [c], (i.get c).1, (i.get c).2)) = (m ++ [c] ++ es, i2, c2) ∧
          Cursor (fun x => x = c ∨ x = '-' ∨ x = '+') f (es.reverse ++ c :: d) t1 i2 c2 := by
        have hm := cursor_head hg '-' (fun x hx => by rw [hx]; rcases hc with rfl | rfl <;> decide)
        have hp := cursor_head hg '+' (fun x hx => by rw [hx]; rcases hc with rfl | rfl <;> decide)
        by_cases h1 : (i.get c).2 = '-'
        · obtain ⟨r, rfl⟩ := hm.mp h1
          obtain ⟨_, hg2⟩ := get_cursor hg
          exact ⟨['-'], r, _, _, rfl, rfl, by simp [h1], hg2.mono (fun x hx => Or.inr (Or.inl hx))⟩
        · by_cases h2 : (i.get c).2 = '+'
          · obtain ⟨r, rfl⟩ := hp.mp h2
            obtain ⟨_, hg2⟩ := get_cursor hg
            exact ⟨['+'], r, _, _, rfl, rfl, by simp [h2], hg2.mono (fun x hx => Or.inr (Or.inr hx))⟩
          · have hn1 : ¬ ∃ r, t = '-' :: r := fun hh => h1 (hm.mpr hh)
            have hn2 : ¬ ∃ r, t = '+' :: r := fun hh => h2 (hp.mpr hh)
            refine ⟨[], t, _, _, ?_, rfl, by simp [h1, h2], hg.mono (fun x hx => Or.inl hx)⟩
            unfold expSign
            split
            · exact absurd ⟨_, rfl⟩ hn1
            · exact absurd ⟨_, rfl⟩ hn2
            · rfl
      obtain ⟨es, t1, i2, c2, e1, hu, e2, hcur⟩ := hsg
      rw [e1, e2]
      simp only []
      have hPd : ∀ x, (x = c ∨ x = '-' ∨ x = '+') → isdigit x = false := by
        intro x hx
        rcases hx with rfl | rfl | rfl
        · rcases hc with rfl | rfl <;> decide
        · decide
        · decide
      obtain ⟨hs1, hs2, hcur2⟩ := setDigits_cursor hPd (m ++ [c] ++ es) false hcur
      rw [hs1, hs2, finish_cursor hcur2, hu]
      have hsplit : t1 = t1.takeWhile isdigit ++ t1.dropWhile isdigit := (List.takeWhile_append_dropWhile).symm
      clear hs1 hs2 hcur2 hcur e1 e2 hu
      generalize List.takeWhile isdigit t1 = ed at *
      generalize List.dropWhile isdigit t1 = rest at *
      subst hsplit
      cases ed with
      | nil =>
        simp only [List.isEmpty_nil, Bool.not_true, Bool.or_false, Bool.false_eq_true, if_false, if_true, List.reverse_nil, List.nil_append]
        rw [after_fail_here]
        have := after_append f d (c :: es) rest 0 rest.isEmpty true
        simp only [List.length_cons, Nat.add_zero, List.reverse_cons] at this
        rw [show 0 + 1 + es.length = es.length + 1 by omega, this]
        simp
      | cons a ed' =>
        have := after_append f d ((c :: es) ++ (a :: ed')) rest 0 false false
        simp only [List.length_append, Nat.add_zero] at this
        simp only [List.isEmpty_cons, Bool.not_false, Bool.or_true, if_true, reduceCtorEq, if_false]
        rw [show 0 + 1 + es.length + (a :: ed').length = (c :: es).length + (a :: ed').length by simp; omega,
          show c :: es ++ (a :: ed' ++ rest) = (c :: es ++ a :: ed') ++ rest by simp, this]
        have hD : (a :: ed').reverse ++ (es.reverse ++ c :: d) = (c :: es ++ a :: ed').reverse ++ d := by simp
        rw [hD]
        generalize (c :: es ++ a :: ed').reverse ++ d = D
        have hm : m ++ [c] ++ es ++ a :: ed' = m ++ c :: es ++ a :: ed' := by simp
        rw [hm]
        cases rest <;> simp [after, mkG]
    · -- no exponent: the number ends here
      have hspec : expSpec 0 m u = ⟨0, some m, false, false⟩ := by
        unfold expSpec
        split
        · rename_i e t
          have : ¬ (e = 'e' ∨ e = 'E') := by
            intro hh
            rcases h with ⟨r, hr, _⟩ | ⟨hr, _, _⟩
            · cases hr; exact hc hh
            · cases hr
          simp [this]
        · rfl
      unfold expRun
      simp only [hc, and_false, if_false, if_true, hfin, hspec]
      cases u <;> simp [after, mkG]

/-- a stale character that cannot be taken for part of a floating-point number (end of input before the mantissa) -/
def StaleF (c : Char) : Prop := isdigit c = false ∧ c ≠ '.' ∧ c ≠ 'e' ∧ c ≠ 'E'

theorem isdigit_iff (c : Char) : isdigit c = true ↔ 48 ≤ c.toNat ∧ c.toNat ≤ 57 := by
  simp [isdigit, char_le_iff]

theorem mant_stage {P : Char → Prop} (hP : ∀ c, P c → StaleF c) {f : Fmt} {d u : List Char} {i : IStream} {c : Char}
    (sg : List Char) (h : Cursor P f d u i c) :
    mantRun sg i c = (after f d u (mantSpec sg 0 u).n (mantSpec sg 0 u).eof (mantSpec sg 0 u).fail, (mantSpec sg 0 u).text) := by
  have hdig : ∀ x, isdigit x = true → x ≠ '.' ∧ x ≠ 'e' ∧ x ≠ 'E' := by
    intro x hx
    rw [isdigit_iff] at hx
    refine ⟨?_, ?_, ?_⟩ <;> (intro e; rw [e] at hx; revert hx; decide)
  obtain ⟨hs1, hs2, hcur1⟩ := setDigits_cursor (fun c hc => (hP c hc).1) sg false h
  have hsplit : u = u.takeWhile isdigit ++ u.dropWhile isdigit := (List.takeWhile_append_dropWhile).symm
  have hpt := cursor_head hcur1 '.' (fun x hx => by
    rcases hx with hx | hx
    · exact (hP x hx).2.1
    · exact (hdig x hx).1)
  unfold mantRun
  simp only []
  generalize setDigits sg i c false 10 = r1 at *
  obtain ⟨s1, i1, c1, ok1⟩ := r1
  simp only [] at hs1 hs2 hcur1 hpt ⊢
  by_cases hc1 : c1 = '.'
  · -- a point
    subst hc1
    obtain ⟨t, ht⟩ := hpt.mp rfl
    rw [ht] at hcur1
    obtain ⟨_, hg⟩ := get_cursor hcur1
    obtain ⟨ht1, ht2, hcur2⟩ := setDigits_cursor (P := (· = '.')) (fun x hx => by rw [hx]; decide) (s1 ++ ['.']) ok1 hg
    have hcur3 := exp_stage (P := fun x => x = '.' ∨ isdigit x = true) (fun x hx => by
      rcases hx with rfl | hx
      · constructor <;> decide
      · exact (hdig x hx).2) (setDigits (s1 ++ ['.']) (i1.get '.').1 (i1.get '.').2 ok1 10).1
        (setDigits (s1 ++ ['.']) (i1.get '.').1 (i1.get '.').2 ok1 10).2.2.2 hcur2
    simp only [if_true]
    rw [hcur3, ht1, ht2, hs1, hs2]
    have hspec : mantSpec sg 0 u =
        (if u.takeWhile isdigit = [] ∧ t.takeWhile isdigit = [] then ⟨0 + 1, none, (t.dropWhile isdigit).isEmpty, true⟩
         else expSpec (0 + (u.takeWhile isdigit).length + 1 + (t.takeWhile isdigit).length) (sg ++ u.takeWhile isdigit ++ '.' :: t.takeWhile isdigit)
           (t.dropWhile isdigit)) := by
      simp only [mantSpec, ht]
    rw [hspec]
    have hsplit2 : t = t.takeWhile isdigit ++ t.dropWhile isdigit := (List.takeWhile_append_dropWhile).symm
    rw [ht] at hsplit
    clear hcur3 hcur2 ht1 ht2 hs1 hs2 hg hcur1 hpt hspec ht
    generalize List.takeWhile isdigit u = ip at *
    generalize List.takeWhile isdigit t = fp at *
    generalize List.dropWhile isdigit t = u3 at *
    subst hsplit2
    subst hsplit
    have hA : ∀ n e fl, after f (fp.reverse ++ '.' :: (ip.reverse ++ d)) u3 n e fl =
        after f d (ip ++ '.' :: (fp ++ u3)) (ip.length + 1 + fp.length + n) e fl := by
      intro n e fl
      have := after_append f d (ip ++ '.' :: fp) u3 n e fl
      simp only [List.length_append, List.length_cons, List.reverse_append, List.reverse_cons, List.append_assoc, List.cons_append,
        List.nil_append] at this
      rw [show ip.length + 1 + fp.length + n = ip.length + (fp.length + 1) + n by omega, ← this]
    rw [hA, hA]
    by_cases hz : ip = [] ∧ fp = []
    · obtain ⟨rfl, rfl⟩ := hz
      simp
    · have hok : (false || !ip.isEmpty || !fp.isEmpty) = true := by
        cases ip <;> cases fp <;> simp_all
      simp only [hok, if_true, hz, if_false]
      rw [expSpec_pre (0 + ip.length + 1 + fp.length)]
      simp [List.append_assoc]
  · -- no point
    have hnp : ¬ ∃ t, u.dropWhile isdigit = '.' :: t := fun hh => hc1 (hpt.mpr hh)
    have hcur3 := exp_stage (P := fun x => P x ∨ isdigit x = true) (fun x hx => by
      rcases hx with hx | hx
      · exact (hP x hx).2.2
      · exact (hdig x hx).2) s1 ok1 hcur1
    simp only [hc1, if_false]
    rw [hcur3, hs1, hs2]
    have hspec : mantSpec sg 0 u =
        (if u.takeWhile isdigit = [] then ⟨0, none, (u.dropWhile isdigit).isEmpty, true⟩
         else expSpec (0 + (u.takeWhile isdigit).length) (sg ++ u.takeWhile isdigit) (u.dropWhile isdigit)) := by
      unfold mantSpec
      simp only []
      split
      · rename_i t ht; exact absurd ⟨t, ht⟩ hnp
      · rfl
    rw [hspec]
    clear hcur3 hs1 hs2 hcur1 hpt hspec hc1
    generalize List.takeWhile isdigit u = ip at *
    generalize List.dropWhile isdigit u = u2 at *
    subst hsplit
    have hA : ∀ n e fl, after f (ip.reverse ++ d) u2 n e fl = after f d (ip ++ u2) (ip.length + n) e fl := by
      intro n e fl
      rw [after_append]
    rw [hA, hA]
    cases ip with
    | nil => simp
    | cons a ip' =>
      simp only [List.isEmpty_cons, Bool.not_false, Bool.or_true, if_true, reduceCtorEq, if_false]
      rw [expSpec_pre (0 + (a :: ip').length)]
      simp

/-! ### sign, white space, the whole of the scanner -/

/-- what may be the stale character when the input ends before the mantissa: NUL (nothing read), white space, a sign -/
def Stale1 (c : Char) : Prop := c = '\x00' ∨ isspace c = true ∨ c = '-' ∨ c = '+'

theorem staleF_of_stale1 (c : Char) (h : Stale1 c) : StaleF c := by
  rcases h with rfl | h | rfl | rfl
  · refine ⟨?_, ?_, ?_, ?_⟩ <;> decide
  · rw [isspace_iff] at h
    refine ⟨?_, ?_, ?_, ?_⟩
    · cases hd : isdigit c
      · rfl
      · rw [isdigit_iff] at hd; omega
    all_goals (intro e; rw [e] at h; revert h; decide)
  · refine ⟨?_, ?_, ?_, ?_⟩ <;> decide
  · refine ⟨?_, ?_, ?_, ?_⟩ <;> decide

theorem skipWs_specP (P : Char → Prop) (hsp : ∀ c, isspace c = true → P c) (f : Fmt) :
    ∀ (r : List Char) (n : Nat) (c : Char) (d : List Char), r.length + 1 ≤ n →
    Cursor P f (((c :: r).takeWhile isspace).reverse ++ d) ((c :: r).dropWhile isspace)
      (skipWs n (mkG r (c :: d) f) c).1 (skipWs n (mkG r (c :: d) f) c).2 := by
  intro r
  induction r with
  | nil =>
    intro n c d hn
    obtain ⟨m, rfl⟩ : ∃ m, n = m + 1 := ⟨n - 1, by simp at hn; omega⟩
    by_cases hc : isspace c = true
    · right
      simp [skipWs, hc, hsp c hc]
    · have e : skipWs (m + 1) (mkG [] (c :: d) f) c = (mkG [] (c :: d) f, c) := by simp [skipWs, hc]
      rw [e]
      left
      exact ⟨[], by simp [hc], by simp [hc]⟩
  | cons y r ih =>
    intro n c d hn
    obtain ⟨m, rfl⟩ : ∃ m, n = m + 1 := ⟨n - 1, by simp at hn; omega⟩
    by_cases hc : isspace c = true
    · have hm : r.length + 1 ≤ m := by simp at hn; omega
      have := ih m y (c :: d) hm
      simp only [skipWs, hc, if_true, get_mkG_cons, failed_mkG, Bool.false_eq_true, if_false]
      simpa [hc] using this
    · have e : skipWs (m + 1) (mkG (y :: r) (c :: d) f) c = (mkG (y :: r) (c :: d) f, c) := by simp [skipWs, hc]
      rw [e]
      left
      exact ⟨y :: r, by simp [hc], by simp [hc]⟩

/-- ismpf.cc:63-77 (= ismpz.cc:146-160): where the number starts; the stale character is NUL or white space -/
theorem start_specP (P : Char → Prop) (hsp : ∀ c, isspace c = true → P c) (h0 : P '\x00') (f : Fmt) (t d : List Char) :
    Cursor P f ((wsPrefix f t).reverse ++ d) (t.drop (wsPrefix f t).length) (start (mkG t d f)).1 (start (mkG t d f)).2 := by
  cases t with
  | nil =>
    right
    simp [start, wsPrefix, skipWs, h0, show isspace '\x00' = false by decide]
  | cons x r =>
    by_cases hs : f.skipws = true
    · have := skipWs_specP P hsp f r (r.length + 1) x d (Nat.le_refl _)
      simp only [start, get_mkG_cons, fmt_mkG, hs, if_true, rest_mkG, wsPrefix, drop_takeWhile_length]
      exact this
    · left
      simp only [start, get_mkG_cons, fmt_mkG, hs, wsPrefix]
      exact ⟨r, by simp, by simp⟩

/-- the stale character when the input ends before the sign: NUL (nothing read) or white space -/
def Stale0F (c : Char) : Prop := c = '\x00' ∨ isspace c = true

theorem stale0F_ne (a : Char) (ha : a ≠ '\x00') (hs : isspace a = false) : ∀ c, Stale0F c → c ≠ a := by
  intro c hc e
  subst e
  rcases hc with hc | hc
  · exact ha hc
  · rw [hs] at hc; cases hc

theorem sign_stage {f : Fmt} {d u : List Char} {i : IStream} {c : Char} (h : Cursor Stale0F f d u i c) :
    mantRun (readSign i c).1 (readSign i c).2.1 (readSign i c).2.2 =
      (after f d u (floatSpec u).n (floatSpec u).eof (floatSpec u).fail, (floatSpec u).text) := by
  have hm := cursor_head h '-' (stale0F_ne '-' (by decide) (by decide))
  have hp := cursor_head h '+' (stale0F_ne '+' (by decide) (by decide))
  by_cases h1 : c = '-'
  · obtain ⟨t, rfl⟩ := hm.mp h1
    obtain ⟨_, hg⟩ := get_cursor h
    have key := mant_stage (P := Stale1) staleF_of_stale1 ['-'] (hg.mono (fun x hx => Or.inr (Or.inr (Or.inl hx))))
    have hr : readSign i c = (['-'], (i.get c).1, (i.get c).2) := by simp [readSign, h1]
    rw [hr]
    simp only []
    rw [key]
    have hn : floatSpec ('-' :: t) = mantSpec ['-'] 1 t := rfl
    rw [hn, mantSpec_pre ['-'] 1 t]
    simp only [Nat.add_comm 1, after_cons]
  · by_cases h2 : c = '+'
    · obtain ⟨t, rfl⟩ := hp.mp h2
      obtain ⟨_, hg⟩ := get_cursor h
      have key := mant_stage (P := Stale1) staleF_of_stale1 [] (hg.mono (fun x hx => Or.inr (Or.inr (Or.inr hx))))
      have hr : readSign i c = ([], (i.get c).1, (i.get c).2) := by simp [readSign, h2]
      rw [hr]
      simp only []
      rw [key]
      have hn : floatSpec ('+' :: t) = mantSpec [] 1 t := rfl
      rw [hn, mantSpec_pre [] 1 t]
      simp only [Nat.add_comm 1, after_cons]
    · have hn1 : ¬ ∃ t, u = '-' :: t := fun hh => h1 (hm.mpr hh)
      have hn2 : ¬ ∃ t, u = '+' :: t := fun hh => h2 (hp.mpr hh)
      have key := mant_stage (P := Stale1) staleF_of_stale1 [] (h.mono (fun x hx => by
        rcases hx with hx | hx
        · exact Or.inl hx
        · exact Or.inr (Or.inl hx)))
      have hr : readSign i c = ([], i, c) := by simp [readSign, h1, h2]
      rw [hr]
      simp only []
      rw [key]
      have hn : floatSpec u = mantSpec [] 0 u := by
        unfold floatSpec
        split
        · exact absurd ⟨_, rfl⟩ hn1
        · exact absurd ⟨_, rfl⟩ hn2
        · rfl
      rw [hn]

theorem scanF_at (f : Fmt) (t d : List Char) :
    scanF (mkG t d f) =
      (after f ((wsPrefix f t).reverse ++ d) (t.drop (wsPrefix f t).length)
          (floatSpec (t.drop (wsPrefix f t).length)).n (floatSpec (t.drop (wsPrefix f t).length)).eof
          (floatSpec (t.drop (wsPrefix f t).length)).fail,
       (floatSpec (t.drop (wsPrefix f t).length)).text) := by
  rw [scanF_eq]
  exact sign_stage (start_specP Stale0F (fun c hc => Or.inr hc) (Or.inl rfl) f t d)

/-! ### reading back what was written: fixed and detected base, with something after the number -/

section
open List

theorem takeWhile_append_stop (p : Char → Bool) (ds tail : List Char) (hall : ∀ c ∈ ds, p c = true)
    (ht : ∀ c, tail.head? = some c → p c = false) : (ds ++ tail).takeWhile p = ds := by
  induction ds with
  | nil =>
    cases tail with
    | nil => rfl
    | cons a t => simp [ht a rfl]
  | cons a t ih =>
    simp [hall a mem_cons_self, ih (fun c hc => hall c (mem_cons_of_mem _ hc))]

/-- a digit string followed by something that is no digit -/
theorem digitsPart_tail (b : Nat) (neg : Bool) (pre : Nat) (zero : Bool) (ds tail : List Char) (hne : ds ≠ [])
    (hall : ∀ c ∈ ds, digitTest b c = true) (ht : ∀ c, tail.head? = some c → digitTest b c = false) :
    digitsPart b neg pre zero (ds ++ tail) =
      ⟨pre + ds.length, .value (if neg then -(digitsVal b ds : Int) else digitsVal b ds), false, false⟩ := by
  unfold digitsPart
  simp only [takeWhile_append_stop _ _ _ hall ht, hne, ne_eq, not_false_eq_true, if_true]

/-- the lone "0" of a detected octal number, followed by something that is no octal digit -/
theorem digitsPart_zero (neg : Bool) (pre : Nat) (tail : List Char) (ht : ∀ c, tail.head? = some c → digitTest 8 c = false) :
    digitsPart 8 neg pre true tail = ⟨pre, .value 0, false, false⟩ := by
  unfold digitsPart
  have := takeWhile_append_stop (digitTest 8) [] tail (by simp) ht
  simp only [nil_append] at this
  simp [this]

/-- what may follow a number in the text `operator<<` writes: nothing, or the slash of a rational -/
def TailOk (tail : List Char) : Prop := tail = [] ∨ ∃ v, tail = '/' :: v

theorem tailOk_digit (tail : List Char) (h : TailOk tail) (b : Nat) : ∀ c, tail.head? = some c → digitTest b c = false := by
  intro c hc
  rcases h with rfl | ⟨v, rfl⟩
  · simp at hc
  · simp only [head?_cons, Option.some.injEq] at hc
    subst hc
    exact digitTest_of_not_xdigit b _ (by decide)

theorem digitsVal_zero_cons (b : Nat) (ds : List Char) : digitsVal b ('0' :: ds) = digitsVal b ds := by
  simp [digitsVal, show Scanf.digitValue '0' = 0 by decide]

theorem hexOnly_outBase (f : Fmt) (h : f.hexOnly = true) : f.outBase = 16 ∧ f.octOnly = false := by
  rcases f with ⟨dec, oct, hex, sb, sp, up, l, r, it, fx, sc, spt, sk⟩
  cases dec <;> cases oct <;> cases hex <;> simp_all [Fmt.outBase, Fmt.hexOnly, Fmt.octOnly]

theorem octOnly_outBase (f : Fmt) (h : f.octOnly = true) : f.outBase = 8 ∧ f.hexOnly = false := by
  rcases f with ⟨dec, oct, hex, sb, sp, up, l, r, it, fx, sc, spt, sk⟩
  cases dec <;> cases oct <;> cases hex <;> simp_all [Fmt.outBase, Fmt.hexOnly, Fmt.octOnly]

theorem outBase_ten (f : Fmt) (h : f.outBase = 10) : f.hexOnly = false ∧ f.octOnly = false := by
  unfold Fmt.outBase at h
  split_ifs at h <;> simp_all

/-- the number part (prefix and digits) of what `fo` writes for the magnitude `n`, read under `fi`, with `k` sign
    characters in front and `tail` behind -/
theorem bodySpec_written (fo fi : Fmt) (hc : ReadsBack fo fi) (neg : Bool) (k n : Nat) (tail : List Char) (ht : TailOk tail) :
    bodySpec fi neg k ((prefixStr fo (decide (n = 0)) ++ natDigits fo.outBase fo.outUpper n) ++ tail) =
      ⟨k + (prefixStr fo (decide (n = 0)) ++ natDigits fo.outBase fo.outUpper n).length,
       .value (if neg then -(n : Int) else n), false, false⟩ := by
  have hb := outBase_cases fo
  have hr := outBase_range fo
  obtain ⟨hall, hval⟩ := natDigits_spec fo.outBase hb fo.outUpper n
  have hdne := natDigits_ne_nil fo.outBase fo.outUpper n
  have hhead := natDigits_head_zero_iff fo.outBase fo.outUpper hr.1 hr.2 n
  have hzero : n = 0 → natDigits fo.outBase fo.outUpper n = ['0'] := by rintro rfl; exact natDigits_zero _ _
  generalize hds : natDigits fo.outBase fo.outUpper n = ds at *
  have h0 : digitTest fo.outBase '0' = true := by rcases hb with h | h | h <;> rw [h] <;> decide
  rcases hc with ⟨hfi, hx⟩ | ⟨hfi, hcond⟩
  · -- the base is named by basefield
    have hpre : prefixStr fo (decide (n = 0)) = [] ∨ prefixStr fo (decide (n = 0)) = ['0'] := by
      unfold prefixStr
      by_cases hs : fo.showbase = true
      · have hh : fo.hexOnly = false := by cases h : fo.hexOnly <;> simp_all
        simp only [hs, if_true, hh, Bool.false_eq_true, if_false]
        split_ifs <;> simp
      · simp [hs]
    simp only [bodySpec, hfi]
    rcases hpre with hp | hp <;> rw [hp]
    · rw [nil_append, digitsPart_tail _ _ _ _ ds tail hdne hall (tailOk_digit tail ht _), hval]
    · have hall' : ∀ c ∈ ['0'] ++ ds, digitTest fo.outBase c = true := by
        intro c hc
        rcases mem_append.mp hc with h | h
        · simp only [mem_singleton] at h; rw [h]; exact h0
        · exact hall c h
      rw [digitsPart_tail _ _ _ _ (['0'] ++ ds) tail (by simp) hall' (tailOk_digit tail ht _)]
      rw [show ['0'] ++ ds = '0' :: ds from rfl, digitsVal_zero_cons, hval]
  · -- the base is detected
    have hzcase : ∀ (tl : List Char), TailOk tl → bodySpec fi neg k ('0' :: tl) = ⟨k + 1, .value 0, false, false⟩ := by
      intro tl htl
      simp only [bodySpec, hfi]
      rcases htl with rfl | ⟨v, rfl⟩
      · exact digitsPart_zero neg (k + 1) [] (by simp)
      · exact digitsPart_zero neg (k + 1) ('/' :: v) (tailOk_digit _ (Or.inr ⟨v, rfl⟩) 8)
    by_cases hn : n = 0
    · -- "0" whatever the base: no prefix (octal shows none for 0; hex shows 0x)
      have hds0 := hzero hn
      by_cases hh : fo.hexOnly = true ∧ fo.showbase = true
      · have hp : prefixStr fo (decide (n = 0)) = ['0', 'x'] ∨ prefixStr fo (decide (n = 0)) = ['0', 'X'] := by
          unfold prefixStr; simp only [hh.2, hh.1, if_true]; split_ifs <;> simp
        have h16 := (hexOnly_outBase fo hh.1).1
        rw [h16] at hall hval
        rcases hp with hp | hp <;> rw [hp] <;> simp only [bodySpec, hfi, cons_append, nil_append]
        · rw [digitsPart_tail 16 _ _ _ ds tail hdne hall (tailOk_digit tail ht _), hval]; simp [hn]; omega
        · rw [digitsPart_tail 16 _ _ _ ds tail hdne hall (tailOk_digit tail ht _), hval]; simp [hn]; omega
      · have hp : prefixStr fo (decide (n = 0)) = [] := by
          unfold prefixStr
          by_cases hs : fo.showbase = true
          · have : fo.hexOnly = false := by cases h : fo.hexOnly <;> simp_all
            simp [hs, this, hn]
          · simp [hs]
        rw [hp, hds0, nil_append, show ['0'] ++ tail = '0' :: tail from rfl, hzcase tail ht]
        simp [hn]
    · have hne0 : ds.head? ≠ some '0' := fun h => hn (hhead.mp h)
      rcases hcond with h10 | hsb
      · -- decimal text
        have hp : prefixStr fo (decide (n = 0)) = [] := by
          unfold prefixStr
          simp [(outBase_ten fo h10).1, (outBase_ten fo h10).2]
        rw [hp, nil_append]
        rw [h10] at hall hval
        cases hd : ds with
        | nil => exact absurd hd hdne
        | cons a t =>
          rw [hd] at hne0 hall hval hdne
          have ha0 : a ≠ '0' := by simpa using hne0
          have : bodySpec fi neg k (a :: t ++ tail) = digitsPart 10 neg k false (a :: t ++ tail) := by
            simp only [bodySpec, hfi, cons_append]
            split <;> simp_all
          rw [this, digitsPart_tail 10 _ _ _ (a :: t) tail hdne hall (tailOk_digit tail ht _), hval]
      · by_cases hh : fo.hexOnly = true
        · have hp : prefixStr fo (decide (n = 0)) = ['0', 'x'] ∨ prefixStr fo (decide (n = 0)) = ['0', 'X'] := by
            unfold prefixStr; simp only [hsb, hh, if_true]; split_ifs <;> simp
          have h16 := (hexOnly_outBase fo hh).1
          rw [h16] at hall hval
          rcases hp with hp | hp <;> rw [hp] <;> simp only [bodySpec, hfi, cons_append, nil_append]
          · rw [digitsPart_tail 16 _ _ _ ds tail hdne hall (tailOk_digit tail ht _), hval]; simp; omega
          · rw [digitsPart_tail 16 _ _ _ ds tail hdne hall (tailOk_digit tail ht _), hval]; simp; omega
        · by_cases ho : fo.octOnly = true
          · have hp : prefixStr fo (decide (n = 0)) = ['0'] := by
              unfold prefixStr; simp [hsb, hh, ho, hn]
            have h8 := (octOnly_outBase fo ho).1
            rw [h8] at hall hval
            rw [hp]
            cases hd : ds with
            | nil => exact absurd hd hdne
            | cons a t =>
              rw [hd] at hall hval hdne
              have ha := (digitTest8_iff a).mp (hall a mem_cons_self)
              have hax : a ≠ 'x' := by rw [Ne, char_eq_iff]; have : ('x' : Char).toNat = 120 := rfl; omega
              have haX : a ≠ 'X' := by rw [Ne, char_eq_iff]; have : ('X' : Char).toNat = 88 := rfl; omega
              have : bodySpec fi neg k (['0'] ++ a :: t ++ tail) = digitsPart 8 neg (k + 1) true (a :: t ++ tail) := by
                simp only [bodySpec, hfi, cons_append, nil_append]
                split <;> simp_all
              rw [this, digitsPart_tail 8 _ _ _ (a :: t) tail hdne hall (tailOk_digit tail ht _), hval]
              simp; omega
          · -- neither hex nor octal: decimal
            have h10 : fo.outBase = 10 := by
              unfold Fmt.outBase; simp [hh, ho]
            have hp : prefixStr fo (decide (n = 0)) = [] := by
              unfold prefixStr
              simp [hh, ho]
            rw [hp, nil_append]
            rw [h10] at hall hval
            cases hd : ds with
            | nil => exact absurd hd hdne
            | cons a t =>
              rw [hd] at hne0 hall hval hdne
              have ha0 : a ≠ '0' := by simpa using hne0
              have : bodySpec fi neg k (a :: t ++ tail) = digitsPart 10 neg k false (a :: t ++ tail) := by
                simp only [bodySpec, hfi, cons_append]
                split <;> simp_all
              rw [this, digitsPart_tail 10 _ _ _ (a :: t) tail hdne hall (tailOk_digit tail ht _), hval]

theorem written_ge_48 (fo : Fmt) (z : Bool) (n : Nat) : ∀ c ∈ prefixStr fo z ++ natDigits fo.outBase fo.outUpper n, 48 ≤ c.toNat := by
  intro c hc
  rcases mem_append.mp hc with h | h
  · unfold prefixStr at h
    split_ifs at h <;> simp at h
    all_goals (rcases h with rfl | rfl) <;> decide
  · exact digit_ge_48 _ (outBase_cases fo) c ((natDigits_spec fo.outBase (outBase_cases fo) fo.outUpper n).1 c h)

/-- sign, prefix and digits as `fo` writes them, read under `fi`, with `tail` behind -/
theorem numSpec_written (fo fi : Fmt) (hc : ReadsBack fo fi) (neg : Bool) (n : Nat) (sg tail : List Char)
    (hsg : sg = [] ∧ neg = false ∨ sg = ['-'] ∧ neg = true ∨ sg = ['+'] ∧ neg = false) (ht : TailOk tail) :
    numSpec fi ((sg ++ (prefixStr fo (decide (n = 0)) ++ natDigits fo.outBase fo.outUpper n)) ++ tail) =
      ⟨(sg ++ (prefixStr fo (decide (n = 0)) ++ natDigits fo.outBase fo.outUpper n)).length,
       .value (if neg then -(n : Int) else n), false, false⟩ := by
  have hge := written_ge_48 fo (decide (n = 0)) n
  have hne : prefixStr fo (decide (n = 0)) ++ natDigits fo.outBase fo.outUpper n ≠ [] := by
    simp [natDigits_ne_nil]
  rcases hsg with ⟨rfl, rfl⟩ | ⟨rfl, rfl⟩ | ⟨rfl, rfl⟩
  · have key := bodySpec_written fo fi hc false 0 n tail ht
    generalize prefixStr fo (decide (n = 0)) ++ natDigits fo.outBase fo.outUpper n = body at *
    cases body with
    | nil => exact absurd rfl hne
    | cons a t =>
      have ha := hge a mem_cons_self
      have h1 : a ≠ '-' := by rw [Ne, char_eq_iff]; have : ('-' : Char).toNat = 45 := rfl; omega
      have h2 : a ≠ '+' := by rw [Ne, char_eq_iff]; have : ('+' : Char).toNat = 43 := rfl; omega
      have : numSpec fi ([] ++ a :: t ++ tail) = bodySpec fi false 0 (a :: t ++ tail) := by
        unfold numSpec; split <;> simp_all
      rw [this, key]
      simp
  · have key := bodySpec_written fo fi hc true 1 n tail ht
    have : numSpec fi (['-'] ++ (prefixStr fo (decide (n = 0)) ++ natDigits fo.outBase fo.outUpper n) ++ tail) =
        bodySpec fi true 1 ((prefixStr fo (decide (n = 0)) ++ natDigits fo.outBase fo.outUpper n) ++ tail) := rfl
    rw [this, key]
    simp; omega
  · have key := bodySpec_written fo fi hc false 1 n tail ht
    have : numSpec fi (['+'] ++ (prefixStr fo (decide (n = 0)) ++ natDigits fo.outBase fo.outUpper n) ++ tail) =
        bodySpec fi false 1 ((prefixStr fo (decide (n = 0)) ++ natDigits fo.outBase fo.outUpper n) ++ tail) := rfl
    rw [this, key]
    simp; omega

theorem signStr_cases (fo : Fmt) (z : Int) :
    signStr fo (decide (z < 0)) = [] ∧ decide (z < 0) = false ∨ signStr fo (decide (z < 0)) = ['-'] ∧ decide (z < 0) = true ∨
      signStr fo (decide (z < 0)) = ['+'] ∧ decide (z < 0) = false := by
  unfold signStr
  by_cases hz : z < 0
  · simp [hz]
  · by_cases hsp : fo.showpos = true <;> simp [hz, hsp]

theorem fieldLayout_nopad (fo : Fmt) (w : Int) (fill : Char) (sg pre body : List Char) (hw : w ≤ 0) :
    fieldLayout fo w fill sg pre body = sg ++ (pre ++ body) := by
  have hpad : (w - ((sg.length + pre.length + body.length : Nat) : Int)).toNat = 0 := by omega
  unfold fieldLayout
  simp only [hpad, replicate_zero, append_nil, nil_append]
  split_ifs <;> simp

theorem wsPrefix_nil (fi : Fmt) (T : List Char) (h : ∀ c, T.head? = some c → isspace c = false) : wsPrefix fi T = [] := by
  unfold wsPrefix
  split
  · cases T with
    | nil => rfl
    | cons a t => simp [h a rfl]
  · rfl

theorem not_space_of_ge (c : Char) (h : 43 ≤ c.toNat) : isspace c = false := by
  cases hs : isspace c
  · rfl
  · have := (isspace_iff c).mp hs; omega

/-- the text `o << z` / the numerator part of `o << q` starts with no white space -/
theorem written_head (fo : Fmt) (z : Int) (tail : List Char) :
    ∀ c, ((signStr fo (decide (z < 0)) ++ (prefixStr fo (decide (z.natAbs = 0)) ++ natDigits fo.outBase fo.outUpper z.natAbs)) ++ tail).head? = some c →
      isspace c = false := by
  intro c hc
  have hge := written_ge_48 fo (decide (z.natAbs = 0)) z.natAbs
  have hne : prefixStr fo (decide (z.natAbs = 0)) ++ natDigits fo.outBase fo.outUpper z.natAbs ≠ [] := by
    simp [natDigits_ne_nil]
  generalize prefixStr fo (decide (z.natAbs = 0)) ++ natDigits fo.outBase fo.outUpper z.natAbs = body at *
  cases body with
  | nil => exact absurd rfl hne
  | cons a t =>
    have ha := hge a mem_cons_self
    rcases signStr_cases fo z with ⟨h, _⟩ | ⟨h, _⟩ | ⟨h, _⟩ <;> rw [h] at hc <;> simp at hc <;> subst hc
    · exact not_space_of_ge _ (by omega)
    · exact not_space_of_ge _ (by decide)
    · exact not_space_of_ge _ (by decide)

theorem natAbs_val (z : Int) : (if decide (z < 0) = true then -((z.natAbs : Nat) : Int) else ((z.natAbs : Nat) : Int)) = z := by
  by_cases hz : z < 0
  · rw [if_pos (by simpa using hz)]; omega
  · rw [if_neg (by simpa using hz)]; omega

theorem decide_natAbs (z : Int) : decide (z = 0) = decide (z.natAbs = 0) := by
  by_cases h : z = 0 <;> simp [h]

end

/-! ### `operator<< (ostream &, mpf)`: from the lengths of doprntf.c to the text -/

section
open List

/-- the bytes between the (internal) padding and the padding on the right -/
def bodyOf (q : Pieces) : List Char :=
  q.s.take q.intlen.toNat ++ zeros q.intzeros ++ (if q.pointlen ≠ 0 then ['.'] else []) ++ zeros q.fraczeros ++
    (q.s.drop q.intlen.toNat).take q.fraclen.toNat ++ zeros q.preczeros ++ q.expStr

@[simp] theorem length_zeros (n : Int) : (zeros n).length = n.toNat := by simp [zeros]

/-- doprntf.c:333-372 writes [padding] sign prefix [padding] body [padding] -/
theorem emitPieces_bytes (p : Params) (q : Pieces) (hj : p.justify ≠ .none)
    (h1 : 0 ≤ q.intlen) (h3 : 0 ≤ q.intzeros) (h4 : q.pointlen = 0 ∨ q.pointlen = 1) (h5 : 0 ≤ q.fraczeros) (h6 : 0 ≤ q.fraclen)
    (h7 : q.intlen + q.fraclen ≤ q.s.length) (h8 : 0 ≤ q.preczeros) :
    callsBytes (emitPieces p q) =
      justLayout p.justify
        (replicate (p.width - ((q.sign.toList.length + q.showbase.length + (bodyOf q).length : Nat) : Int)).toNat p.fill)
        q.sign.toList q.showbase (bodyOf q) := by
  have hl1 : (q.s.take q.intlen.toNat).length = q.intlen.toNat := by
    rw [length_take]; omega
  have hl2 : ((q.s.drop q.intlen.toNat).take q.fraclen.toNat).length = q.fraclen.toNat := by
    rw [length_take, length_drop]; omega
  have hpl : (if q.pointlen ≠ 0 then ['.'] else []).length = q.pointlen.toNat := by
    rcases h4 with h | h <;> simp [h]
  have hlen : ((q.sign.toList.length + q.showbase.length + (bodyOf q).length : Nat) : Int) =
      (if q.sign.isSome then 1 else 0) + (q.showbase.length : Int) + q.intlen + q.intzeros + q.pointlen + q.fraczeros +
        q.fraclen + q.preczeros + (q.expStr.length : Int) := by
    unfold bodyOf
    simp only [length_append, hl1, hl2, hpl, length_zeros]
    cases q.sign <;> simp <;> omega
  unfold emitPieces justLayout
  simp only []
  rw [← hlen]
  generalize (p.width - ((q.sign.toList.length + q.showbase.length + (bodyOf q).length : Nat) : Int)) = jl
  have hb : callsBytes ([Call.memory (q.s.take q.intlen.toNat)] ++ repsMaybe '0' q.intzeros.toNat ++
      (if q.pointlen ≠ 0 then [Call.memory ['.']] else []) ++ repsMaybe '0' q.fraczeros.toNat ++
      memoryMaybe ((q.s.drop q.intlen.toNat).take q.fraclen.toNat) ++ repsMaybe '0' q.preczeros.toNat ++ memoryMaybe q.expStr) = bodyOf q := by
    unfold bodyOf zeros
    simp only [callsBytes_append, callsBytes_repsMaybe, callsBytes_memoryMaybe, callsBytes_cons, callsBytes_nil, Call.bytes, append_nil]
    split <;> simp [Call.bytes]
  have hre : ∀ (A S M I L c1 c2 c3 c4 c5 c6 c7 : List Call), A ++ S ++ M ++ I ++ c1 ++ c2 ++ c3 ++ c4 ++ c5 ++ c6 ++ c7 ++ L =
      A ++ (S ++ (M ++ (I ++ ((c1 ++ c2 ++ c3 ++ c4 ++ c5 ++ c6 ++ c7) ++ L)))) := by
    intros; simp only [append_assoc]
  rw [hre, callsBytes_append, callsBytes_append, callsBytes_append, callsBytes_append, callsBytes_append, hb]
  generalize bodyOf q = body
  by_cases hjl : jl ≤ 0
  · have ht : jl.toNat = 0 := by omega
    simp only [if_pos hjl, ht]
    cases hs : q.sign <;> cases hjj : p.justify <;> simp_all [Call.bytes]
  · simp only [if_neg hjl]
    cases hs : q.sign <;> cases hjj : p.justify <;> simp_all [Call.bytes]

theorem zeros_max (x : Int) : zeros (max 0 x) = zeros x := by
  unfold zeros; congr 1; omega

theorem zeros_nonpos (x : Int) (h : x ≤ 0) : zeros x = [] := by
  unfold zeros; rw [show x.toNat = 0 by omega]; rfl

/-- from the lengths to the text, given what the integer and the fraction part are -/
theorem body_eq (general st sp : Bool) (prec : Int) (s ip fp expStr : List Char)
    (intlen intzeros fraczeros fraclen preczeros pointlen : Int)
    (hip : s.take intlen.toNat ++ zeros intzeros = ip) (hfp : zeros fraczeros ++ (s.drop intlen.toNat).take fraclen.toNat = fp)
    (hfl : (fp.length : Int) = fraczeros + fraclen) (hil : (ip.length : Int) = intlen + intzeros)
    (hpz : preczeros = if st = true then max 0 (prec - (fraczeros + fraclen + (if general = true then intlen + intzeros else 0))) else 0)
    (hpt : pointlen = if fraczeros + fraclen + preczeros ≠ 0 ∨ sp = true then 1 else 0) :
    s.take intlen.toNat ++ zeros intzeros ++ (if pointlen ≠ 0 then ['.'] else []) ++ zeros fraczeros ++
      (s.drop intlen.toNat).take fraclen.toNat ++ zeros preczeros ++ expStr = floatBody general st sp prec ip fp expStr := by
  unfold floatBody
  simp only []
  have hpzz : zeros preczeros =
      (if st = true then zeros (prec - ((fp.length + (if general = true then ip.length else 0) : Nat) : Int)) else []) := by
    rw [hpz]
    cases st
    · simp [zeros]
    · simp only [if_true, zeros_max]
      congr 1
      cases general <;> simp <;> omega
  have hfpn : 0 ≤ fraczeros + fraclen := by omega
  have hpzl : (zeros preczeros).length = preczeros.toNat := length_zeros _
  have hpzn : 0 ≤ preczeros := by rw [hpz]; split <;> omega
  have hcond : (pointlen ≠ 0) ↔ (fp ++ zeros preczeros ≠ [] ∨ sp = true) := by
    rw [hpt]
    have : fp ++ zeros preczeros ≠ [] ↔ fraczeros + fraclen + preczeros ≠ 0 := by
      rw [Ne, ← length_eq_zero_iff, length_append, hpzl]
      omega
    rw [this]
    split <;> simp_all
  rw [← hpzz]
  have e : (if pointlen ≠ 0 then ['.'] else []) = (if fp ++ zeros preczeros ≠ [] ∨ sp = true then ['.'] else ([] : List Char)) := by
    by_cases h : pointlen ≠ 0
    · rw [if_pos h, if_pos (hcond.mp h)]
    · rw [if_neg h, if_neg (fun hh => h (hcond.mpr hh))]
  rw [e, ← hip, ← hfp]
  simp only [append_assoc]

theorem fParams_layout (o : OStream) (sign pre body : List Char) :
    justLayout (paramsFromIos o).1.justify
      (replicate ((paramsFromIos o).1.width - ((sign.length + pre.length + body.length : Nat) : Int)).toNat (paramsFromIos o).1.fill)
      sign pre body = fieldLayout o.fmt o.width o.fill sign pre body := by
  rcases o with ⟨out, e, fl, b, f, w, fi, pr⟩
  rcases f with ⟨dec, oct, hex, sb, sp, up, l, r, it, fx, sc, spt, sk⟩
  cases l <;> cases r <;> cases it <;> simp [paramsFromIos, fieldLayout, justLayout]

theorem fParams_justify (o : OStream) : (paramsFromIos o).1.justify ≠ .none := by
  rcases o with ⟨out, e, fl, b, f, w, fi, pr⟩
  rcases f with ⟨dec, oct, hex, sb, sp, up, l, r, it, fx, sc, spt, sk⟩
  cases l <;> cases r <;> cases it <;> simp [paramsFromIos]

theorem piecesOf_sign (o : OStream) (letter : Char) (D : FDigits) :
    (piecesOf (paramsFromIos o).1 letter D).sign.toList = if D.neg = true then ['-'] else if o.fmt.showpos = true then ['+'] else [] := by
  rcases o with ⟨out, e, fl, b, f, w, fi, pr⟩
  rcases f with ⟨dec, oct, hex, sb, sp, up, l, r, it, fx, sc, spt, sk⟩
  cases hn : D.neg <;> cases sp <;> simp [piecesOf, paramsFromIos, hn]

theorem piecesOf_empty (p : Params) (letter : Char) (D : FDigits) :
    ((piecesOf p letter D).intlen = 0 ∧ (piecesOf p letter D).fraclen = 0) ↔ D.s = [] := by
  rw [← length_eq_zero_iff]
  simp only [piecesOf]
  by_cases hs : D.sci = true
  · simp only [hs, if_true, true_or]; omega
  · by_cases he : D.exp ≤ 0
    · have h0 : ¬ 0 < D.exp := by omega
      simp only [hs, he, h0, if_true, if_false, false_or, Bool.false_eq_true]; simp
    · have h0 : 0 < D.exp := by omega
      simp only [hs, he, h0, if_true, if_false, false_or, Bool.false_eq_true]; omega

theorem piecesOf_showbase (o : OStream) (letter : Char) (D : FDigits) :
    (piecesOf (paramsFromIos o).1 letter D).showbase = prefixStr o.fmt (decide (D.s = [])) := by
  have he := piecesOf_empty (paramsFromIos o).1 letter D
  have hsb : (piecesOf (paramsFromIos o).1 letter D).showbase =
      (if (paramsFromIos o).1.showbase = .no then []
       else if (paramsFromIos o).1.showbase = .nonzero ∧ (piecesOf (paramsFromIos o).1 letter D).intlen = 0 ∧ (piecesOf (paramsFromIos o).1 letter D).fraclen = 0 then []
       else (if (paramsFromIos o).1.base = 16 then ['0', 'x'] else if (paramsFromIos o).1.base = -16 then ['0', 'X']
             else if (paramsFromIos o).1.base = 8 then ['0'] else [])) := rfl
  rw [hsb]
  simp only [he]
  rcases o with ⟨out, e, fl, b, f, w, fi, pr⟩
  rcases f with ⟨dec, oct, hex, sb, sp, up, l, r, it, fx, sc, spt, sk⟩
  by_cases hz : D.s = [] <;>
  cases dec <;> cases oct <;> cases hex <;> cases up <;> cases sb <;>
    simp [paramsFromIos, prefixStr, Fmt.hexOnly, Fmt.octOnly, hz]

theorem piecesOf_body (p : Params) (letter : Char) (D : FDigits) :
    bodyOf (piecesOf p letter D) =
      floatBody (decide (p.conv = 3)) p.showtrailing p.showpoint D.prec
        (if D.sci = true then sciText D.s else fixedText D.s D.exp).1 (if D.sci = true then sciText D.s else fixedText D.s D.exp).2
        (if D.sci = true then expTextIos letter (D.exp - ((min 1 D.s.length : Nat) : Int)) else []) := by
  rcases D with ⟨neg, s, exp, prec, sci⟩
  unfold bodyOf
  cases sci
  · by_cases he : exp ≤ 0
    · -- 0.000sss
      have h0 : ¬ 0 < exp := by omega
      simp only [piecesOf, Bool.false_eq_true, if_false, he, if_true, false_or, h0, fixedText]
      refine body_eq _ _ _ _ _ _ _ _ _ _ _ _ _ _ ?_ ?_ ?_ ?_ ?_ rfl
      · simp [zeros]
      · simp
      · simp; omega
      · simp
      · simp
    · -- sss.sss or sss000
      have h0 : 0 < exp := by omega
      simp only [piecesOf, Bool.false_eq_true, if_false, he, if_true, false_or, h0, fixedText]
      by_cases hle : (s.length : Int) ≤ exp
      · have hm : min (s.length : Int) exp = s.length := by omega
        simp only [hm]
        refine body_eq _ _ _ _ _ _ _ _ _ _ _ _ _ _ ?_ ?_ ?_ ?_ ?_ rfl
        · simp only [Int.toNat_natCast, take_length]
          rw [take_of_length_le (by omega)]
        · simp only [Int.toNat_natCast, drop_length, take_nil, sub_self]
          rw [drop_eq_nil_of_le (by omega)]
          simp [zeros]
        · rw [drop_eq_nil_of_le (by omega)]; simp
        · rw [take_of_length_le (by omega)]; simp; omega
        · simp
      · have hm : min (s.length : Int) exp = exp := by omega
        simp only [hm]
        refine body_eq _ _ _ _ _ _ _ _ _ _ _ _ _ _ ?_ ?_ ?_ ?_ ?_ rfl
        · rw [zeros_nonpos _ (by omega), zeros_nonpos _ (by omega)]
        · rw [zeros_nonpos _ (le_refl _), nil_append, take_of_length_le (by rw [length_drop]; omega)]
        · rw [length_drop]; omega
        · rw [zeros_nonpos _ (by omega), append_nil, length_take]; omega
        · simp
  · -- d.ddd
    simp only [piecesOf, if_true, true_or, sciText]
    cases s with
    | nil =>
      simp only [length_nil, Int.natCast_zero, show min (1 : Int) 0 = 0 by omega, if_true, Nat.min_zero, Nat.cast_zero]
      refine body_eq _ _ _ _ _ _ _ _ _ _ _ _ _ _ ?_ ?_ ?_ ?_ ?_ rfl
      · simp [zeros]
      · simp [zeros]
      · simp
      · simp
      · simp
    | cons a t =>
      have hm : min (1 : Int) ((a :: t).length : Int) = 1 := by simp only [length_cons]; omega
      have hmn : min 1 (a :: t).length = 1 := by simp only [length_cons]; omega
      simp only [hm, hmn, show ¬ ((1 : Int) = 0) by omega, if_false, reduceCtorEq, Nat.cast_one]
      refine body_eq _ _ _ _ _ _ _ _ _ _ _ _ _ _ ?_ ?_ ?_ ?_ ?_ rfl
      · simp [zeros]
      · simp [zeros]
      · simp
      · simp
      · simp

theorem piecesOf_bounds (p : Params) (letter : Char) (D : FDigits) :
    0 ≤ (piecesOf p letter D).intlen ∧ 0 ≤ (piecesOf p letter D).intzeros ∧
    ((piecesOf p letter D).pointlen = 0 ∨ (piecesOf p letter D).pointlen = 1) ∧ 0 ≤ (piecesOf p letter D).fraczeros ∧
    0 ≤ (piecesOf p letter D).fraclen ∧ (piecesOf p letter D).intlen + (piecesOf p letter D).fraclen ≤ (piecesOf p letter D).s.length ∧
    0 ≤ (piecesOf p letter D).preczeros := by
  simp only [piecesOf]
  cases hs : D.sci <;> simp only [Bool.false_eq_true, false_or, true_or, if_true, if_false]
  all_goals refine ⟨?_, ?_, ?_, ?_, ?_, ?_, ?_⟩
  all_goals first | (split_ifs <;> omega) | (split_ifs <;> simp) | omega

theorem ofNat_ne_minus (n : Nat) (h : 48 ≤ n) : Char.ofNat n ≠ '-' := by
  intro e
  have h2 : (Char.ofNat n).toNat = 45 := by rw [e]; rfl
  unfold Char.ofNat at h2
  split at h2
  · simp [Char.ofNatAux, Char.toNat] at h2; omega
  · revert h2; decide

theorem radix_digitChar_ge (base : Int) (d : Nat) : 48 ≤ Radix.digitChar base d := by
  unfold Radix.digitChar; split_ifs <;> omega

/-- the '-' test of doprntf.c:132 on what mpf_get_str returns: exactly the negative operands -/
theorem get_str_neg (base : Int) (nd : Nat) (f : Mpf.F) :
    (decide (((MpfStr.get_str base nd f).1.map Char.ofNat).head? = some '-')) = decide (f.size < 0) := by
  unfold MpfStr.get_str
  simp only []
  by_cases h : f.size < 0
  · simp [h]
  · simp only [h, if_false, nil_append, decide_false, decide_eq_false_iff_not]
    cases hd : (MpfStr.get_digits base.natAbs nd f).1 with
    | nil => simp
    | cons a t =>
      simp only [map_cons, head?_cons, Option.some.injEq]
      exact ofNat_ne_minus _ (radix_digitChar_ge base a)

theorem mpfDigits_neg (p : Params) (f : Mpf.F) : (mpfDigits p f).neg = decide (f.size < 0) := by
  unfold mpfDigits
  simp only []
  split_ifs <;> exact get_str_neg _ _ _

/-! ### mpf_set_str accepts what the scanner collects -/

/-- byte codes of decimal digits -/
def DigCodes (l : List Nat) : Prop := ∀ c ∈ l, 48 ≤ c ∧ c ≤ 57

theorem dv_digit (c : Nat) (h : 48 ≤ c ∧ c ≤ 57) : Radix.digitValue 0 c < 10 := by
  obtain ⟨h1, h2⟩ := h
  interval_cases c <;> decide

theorem digit_not_marker (c : Nat) (h : 48 ≤ c ∧ c ≤ 57) : MpfStr.isMarker 10 c = false := by
  obtain ⟨h1, h2⟩ := h
  interval_cases c <;> decide

theorem digit_not_space (c : Nat) (h : 48 ≤ c ∧ c ≤ 57) : Radix.isSpace c = false := by
  obtain ⟨h1, h2⟩ := h
  interval_cases c <;> decide

theorem splitLast_none (l : List Nat) (h : ∀ c ∈ l, MpfStr.isMarker 10 c = false) : MpfStr.splitLast 10 l = none := by
  induction l with
  | nil => rfl
  | cons a t ih =>
    simp [MpfStr.splitLast, ih (fun c hc => h c (mem_cons_of_mem _ hc)), h a mem_cons_self]

theorem splitLast_marker (A B : List Nat) (e : Nat) (he : MpfStr.isMarker 10 e = true) (hB : ∀ c ∈ B, MpfStr.isMarker 10 c = false) :
    MpfStr.splitLast 10 (A ++ e :: B) = some (A, B) := by
  induction A with
  | nil => simp [MpfStr.splitLast, splitLast_none B hB, he]
  | cons a t ih => simp [MpfStr.splitLast, ih]

theorem scanMant_digits (l rest ds : List Nat) (dot : Option Nat) (hl : DigCodes l)
    (hr : MpfStr.scanMant (Radix.digitValue 0) 10 rest = some (ds, dot)) :
    MpfStr.scanMant (Radix.digitValue 0) 10 (l ++ rest) = some (l.map (Radix.digitValue 0) ++ ds, dot) := by
  induction l with
  | nil => simpa using hr
  | cons a t ih =>
    have ha := hl a mem_cons_self
    have h46 : a ≠ 46 := by omega
    simp [MpfStr.scanMant, ih (fun c hc => hl c (mem_cons_of_mem _ hc)), digit_not_space a ha, h46, dv_digit a ha]

/-- digits, optionally a point and digits -/
theorem scanMant_mantissa (ip fp : List Nat) (hip : DigCodes ip) (hfp : DigCodes fp) (pt : Bool) :
    ∃ r, MpfStr.scanMant (Radix.digitValue 0) 10 (ip ++ (if pt then 46 :: fp else [])) = some r := by
  cases pt with
  | false =>
    have := scanMant_digits ip [] [] none hip rfl
    exact ⟨_, by simpa using this⟩
  | true =>
    have h1 := scanMant_digits fp [] [] none hfp rfl
    simp only [append_nil] at h1
    have h2 : MpfStr.scanMant (Radix.digitValue 0) 10 (46 :: fp) = some (fp.map (Radix.digitValue 0), some (fp.map (Radix.digitValue 0)).length) := by
      simp [MpfStr.scanMant, h1, show Radix.isSpace 46 = false by decide]
    exact ⟨_, scanMant_digits ip _ _ _ hip h2⟩

theorem scanExp_some (es ed : List Nat) (hes : es = [] ∨ es = [45] ∨ es = [43]) (hed : DigCodes ed) (hne : ed ≠ []) :
    ∃ x, MpfStr.scanExp (Radix.digitValue 0) 10 (es ++ ed) = some x := by
  cases ed with
  | nil => exact absurd rfl hne
  | cons a t =>
    have ha := hed a mem_cons_self
    have hda := dv_digit a ha
    unfold MpfStr.scanExp
    rcases hes with rfl | rfl | rfl
    · have h1 : a ≠ 43 := by omega
      have h2 : a ≠ 45 := by omega
      rw [nil_append]
      split
      rename_i x sgn t' heq
      have ht' : t' = a :: t := by
        split at heq
        · rename_i r h; simp only [cons.injEq] at h; omega
        · rename_i r h; simp only [cons.injEq] at h; omega
        · simp only [Prod.mk.injEq] at heq; exact heq.2.symm
      subst ht'
      simp [hda]
    · simp [hda]
    · simp [hda]

theorem mant_no_marker (ip fp : List Nat) (pt : Bool) (hip : DigCodes ip) (hfp : DigCodes fp) :
    ∀ c ∈ ip ++ (if pt then 46 :: fp else []), MpfStr.isMarker 10 c = false := by
  intro c hc
  rcases mem_append.mp hc with h | h
  · exact digit_not_marker c (hip c h)
  · cases pt with
    | false => simp at h
    | true =>
      simp only [if_true, mem_cons] at h
      rcases h with rfl | h
      · decide
      · exact digit_not_marker c (hfp c h)

theorem parseBody_ok (neg : Bool) (ip fp : List Nat) (pt : Bool) (xc : List Nat) (hip : DigCodes ip) (hfp : DigCodes fp)
    (hne : ip ≠ [] ∨ (pt = true ∧ fp ≠ []))
    (hx : xc = [] ∨ ∃ e es ed, (e = 101 ∨ e = 69) ∧ (es = [] ∨ es = [45] ∨ es = [43]) ∧ ed ≠ [] ∧ DigCodes ed ∧ xc = e :: (es ++ ed)) :
    MpfStr.parseBody neg 10 10 ((ip ++ (if pt then 46 :: fp else [])) ++ xc) ≠ none := by
  obtain ⟨r, hscan⟩ := scanMant_mantissa ip fp hip hfp pt
  have hnm := mant_no_marker ip fp pt hip hfp
  -- the first character
  have hfirst : ∃ c R, ip ++ (if pt then 46 :: fp else []) = c :: R ∧
      (Radix.digitValue 0 c < 10 ∨ (c = 46 ∧ Radix.digitValue 0 ((R ++ xc).headD 0) < 10)) := by
    cases ip with
    | cons a t => exact ⟨a, _, rfl, Or.inl (dv_digit a (hip a mem_cons_self))⟩
    | nil =>
      rcases hne with h | ⟨rfl, h⟩
      · exact absurd rfl h
      · cases fp with
        | nil => exact absurd rfl h
        | cons b t => exact ⟨46, b :: t, rfl, Or.inr ⟨rfl, by simpa using dv_digit b (hfp b mem_cons_self)⟩⟩
  obtain ⟨c, R, hM, hcond⟩ := hfirst
  rw [hM] at hscan hnm ⊢
  have hRm : ∀ c' ∈ R, MpfStr.isMarker 10 c' = false := fun c' hc' => hnm c' (mem_cons_of_mem _ hc')
  obtain ⟨ds, dot⟩ := r
  rcases hx with rfl | ⟨e, es, ed, he, hes, hedne, hed, rfl⟩
  · rw [append_nil] at hcond ⊢
    have hsp : MpfStr.splitLast 10 R = none := splitLast_none R hRm
    unfold MpfStr.parseBody
    simp only [show ¬ (36 < 10) by omega, if_false, hcond, not_true_eq_false, hsp, hscan]
    split <;> simp
  · have hB : ∀ c' ∈ es ++ ed, MpfStr.isMarker 10 c' = false := by
      intro c' hc'
      rcases mem_append.mp hc' with h | h
      · rcases hes with rfl | rfl | rfl <;> simp at h <;> subst h <;> decide
      · exact digit_not_marker c' (hed c' h)
    have hsp : MpfStr.splitLast 10 (R ++ e :: (es ++ ed)) = some (R, es ++ ed) :=
      splitLast_marker R (es ++ ed) e (by rcases he with rfl | rfl <;> decide) hB
    obtain ⟨x, hxs⟩ := scanExp_some es ed hes hed hedne
    unfold MpfStr.parseBody
    simp only [show ¬ (36 < 10) by omega, if_false, cons_append, hcond, not_true_eq_false, hsp, hscan, hxs]
    split <;> simp

theorem takeWhile_all_nat (p : Nat → Bool) (l : List Nat) (h : ∀ c ∈ l, p c = true) : l.takeWhile p = l := by
  induction l with
  | nil => rfl
  | cons a t ih => simp [h a mem_cons_self, ih (fun c hc => h c (mem_cons_of_mem _ hc))]

theorem clean_prefix (l : List Nat) (h : ∀ c ∈ l, 43 ≤ c) : (l.takeWhile (· != 0)).dropWhile Radix.isSpace = l := by
  have h1 : l.takeWhile (· != 0) = l := by
    apply takeWhile_all_nat
    intro c hc
    have := h c hc
    simp; omega
  rw [h1]
  cases l with
  | nil => rfl
  | cons a t =>
    have ha := h a mem_cons_self
    have : Radix.isSpace a = false := by
      unfold Radix.isSpace
      simp; omega
    simp [this]

/-- an exponent as the scanner collects it: nothing, or the letter, an optional sign and at least one digit -/
def ExpOk (x : List Char) : Prop :=
  x = [] ∨ ∃ e es ed, (e = 'e' ∨ e = 'E') ∧ (es = [] ∨ es = ['-'] ∨ es = ['+']) ∧ ed ≠ [] ∧ (∀ c ∈ ed, isdigit c = true) ∧ x = e :: (es ++ ed)

theorem expSpec_text (k : Nat) (m u s : List Char) (h : (expSpec k m u).text = some s) : ∃ x, ExpOk x ∧ s = m ++ x := by
  unfold expSpec at h
  split at h
  · rename_i e t
    split at h
    · rename_i he
      simp only [] at h
      split at h
      · cases h
      · rename_i hne
        simp only [Option.some.injEq] at h
        refine ⟨e :: ((expSign t).1 ++ (expSign t).2.takeWhile isdigit), Or.inr ⟨e, (expSign t).1, _, he, ?_, hne, ?_, rfl⟩, ?_⟩
        · unfold expSign; split <;> simp
        · intro c hc; exact mem_takeWhile_imp' _ _ _ hc
        · rw [← h]; simp
    · simp only [Option.some.injEq] at h
      exact ⟨[], Or.inl rfl, by simp [h]⟩
  · simp only [Option.some.injEq] at h
    exact ⟨[], Or.inl rfl, by simp [h]⟩

theorem mantSpec_text (sg : List Char) (k : Nat) (u s : List Char) (h : (mantSpec sg k u).text = some s) :
    ∃ (ip fp : List Char) (pt : Bool) (x : List Char), (∀ c ∈ ip, isdigit c = true) ∧ (∀ c ∈ fp, isdigit c = true) ∧
      (ip ≠ [] ∨ (pt = true ∧ fp ≠ [])) ∧ ExpOk x ∧ s = sg ++ (ip ++ (if pt then '.' :: fp else [])) ++ x := by
  have hip : ∀ c ∈ u.takeWhile isdigit, isdigit c = true := fun c hc => mem_takeWhile_imp' _ _ _ hc
  unfold mantSpec at h
  simp only [] at h
  split at h
  · rename_i t ht
    have hfp : ∀ c ∈ t.takeWhile isdigit, isdigit c = true := fun c hc => mem_takeWhile_imp' _ _ _ hc
    split at h
    · cases h
    · rename_i hne
      obtain ⟨x, hx, rfl⟩ := expSpec_text _ _ _ _ h
      refine ⟨_, _, true, x, hip, hfp, ?_, hx, by simp⟩
      by_cases h1 : u.takeWhile isdigit = []
      · exact Or.inr ⟨rfl, fun h2 => hne ⟨h1, h2⟩⟩
      · exact Or.inl h1
  · split at h
    · cases h
    · rename_i hne
      obtain ⟨x, hx, rfl⟩ := expSpec_text _ _ _ _ h
      exact ⟨_, [], false, x, hip, by simp, Or.inl hne, hx, by simp⟩

theorem digCodes_map (l : List Char) (h : ∀ c ∈ l, isdigit c = true) : DigCodes (l.map Char.toNat) := by
  intro n hn
  obtain ⟨c, hc, rfl⟩ := mem_map.mp hn
  exact (isdigit_iff c).mp (h c hc)

/-- mpf_set_str accepts every text the scanner hands to it (the ASSERT_NOCARRY of ismpf.cc:130 cannot fire) -/
theorem parse_scanned (u s : List Char) (h : (floatSpec u).text = some s) : MpfStr.parse 10 (s.map Char.toNat) ≠ none := by
  have hshape : ∃ (sg ip fp : List Char) (pt : Bool) (x : List Char), (sg = [] ∨ sg = ['-']) ∧ (∀ c ∈ ip, isdigit c = true) ∧
      (∀ c ∈ fp, isdigit c = true) ∧ (ip ≠ [] ∨ (pt = true ∧ fp ≠ [])) ∧ ExpOk x ∧ s = sg ++ (ip ++ (if pt then '.' :: fp else [])) ++ x := by
    unfold floatSpec at h
    split at h
    · obtain ⟨ip, fp, pt, x, h1, h2, h3, h4, h5⟩ := mantSpec_text _ _ _ _ h; exact ⟨_, ip, fp, pt, x, Or.inr rfl, h1, h2, h3, h4, h5⟩
    · obtain ⟨ip, fp, pt, x, h1, h2, h3, h4, h5⟩ := mantSpec_text _ _ _ _ h; exact ⟨_, ip, fp, pt, x, Or.inl rfl, h1, h2, h3, h4, h5⟩
    · obtain ⟨ip, fp, pt, x, h1, h2, h3, h4, h5⟩ := mantSpec_text _ _ _ _ h; exact ⟨_, ip, fp, pt, x, Or.inl rfl, h1, h2, h3, h4, h5⟩
  obtain ⟨sg, ip, fp, pt, x, hsg, hip, hfp, hne, hx, rfl⟩ := hshape
  have hipc := digCodes_map ip hip
  have hfpc := digCodes_map fp hfp
  have hnec : ip.map Char.toNat ≠ [] ∨ (pt = true ∧ fp.map Char.toNat ≠ []) := by
    rcases hne with h | ⟨h1, h2⟩
    · exact Or.inl (by simpa using h)
    · exact Or.inr ⟨h1, by simpa using h2⟩
  have hxc : x.map Char.toNat = [] ∨ ∃ e es ed, (e = 101 ∨ e = 69) ∧ (es = [] ∨ es = [45] ∨ es = [43]) ∧ ed ≠ [] ∧ DigCodes ed ∧
      x.map Char.toNat = e :: (es ++ ed) := by
    rcases hx with rfl | ⟨e, es, ed, he, hes, hedne, hed, rfl⟩
    · exact Or.inl rfl
    · refine Or.inr ⟨e.toNat, es.map Char.toNat, ed.map Char.toNat, ?_, ?_, by simpa using hedne, digCodes_map ed hed, by simp⟩
      · rcases he with rfl | rfl
        · exact Or.inl rfl
        · exact Or.inr rfl
      · rcases hes with rfl | rfl | rfl
        · exact Or.inl rfl
        · exact Or.inr (Or.inl rfl)
        · exact Or.inr (Or.inr rfl)
  have hMmap : (ip ++ (if pt then '.' :: fp else [])).map Char.toNat = ip.map Char.toNat ++ (if pt then 46 :: fp.map Char.toNat else []) := by
    cases pt <;> simp
  have key := parseBody_ok
  generalize hbody : (ip.map Char.toNat ++ (if pt then 46 :: fp.map Char.toNat else [])) ++ x.map Char.toNat = body at *
  have hbody43 : ∀ c ∈ body, 43 ≤ c := by
    intro c hc
    rw [← hbody] at hc
    rcases mem_append.mp hc with h | h
    · rcases mem_append.mp h with h | h
      · have := hipc c h; omega
      · cases pt with
        | false => simp at h
        | true =>
          simp only [if_true, mem_cons] at h
          rcases h with rfl | h
          · omega
          · have := hfpc c h; omega
    · rcases hxc with h0 | ⟨e, es, ed, he, hes, _, hed, h0⟩
      · rw [h0] at h; simp at h
      · rw [h0] at h
        simp only [mem_cons, mem_append] at h
        rcases h with rfl | h | h
        · rcases he with rfl | rfl <;> omega
        · rcases hes with rfl | rfl | rfl <;> simp at h <;> omega
        · have := hed c h; omega
  have hbodyhead : body.head? ≠ some 45 := by
    have := parseBody_ok false _ _ pt _ hipc hfpc hnec hxc
    rw [hbody] at this
    intro hh
    cases hb : body with
    | nil => rw [hb] at hh; simp at hh
    | cons a t =>
      rw [hb] at hh this
      simp only [head?_cons, Option.some.injEq] at hh
      subst hh
      revert this
      unfold MpfStr.parseBody
      simp only [show ¬ (36 < 10) by omega, if_false]
      have h45 : ¬ Radix.digitValue 0 45 < 10 := by decide
      simp [h45]
  have hs0 : (sg ++ (ip ++ (if pt then '.' :: fp else [])) ++ x).map Char.toNat = sg.map Char.toNat ++ body := by
    rw [← hbody, ← hMmap]; simp
  rw [hs0]
  have hb10 : MpfStr.baseOf 10 = 10 := by decide
  have he10 : MpfStr.expBaseOf 10 = 10 := by decide
  unfold MpfStr.parse
  simp only [hb10, he10, show ¬ ((10 : Nat) < 2 ∨ 62 < (10 : Nat)) by omega, if_false]
  rcases hsg with rfl | rfl
  · simp only [map_nil, nil_append, clean_prefix body hbody43]
    have hneg : (body.head? == some 45) = false := by
      cases hh : body.head? with
      | none => rfl
      | some a =>
        have : a ≠ 45 := fun e => hbodyhead (by rw [hh, e])
        simp [this]
    simp only [hneg, Bool.false_eq_true, if_false]
    rw [← hbody]
    exact parseBody_ok false _ _ pt _ hipc hfpc hnec hxc
  · have h43 : ∀ c ∈ (['-'].map Char.toNat) ++ body, 43 ≤ c := by
      intro c hc
      simp only [map_cons, map_nil, cons_append, nil_append, mem_cons] at hc
      rcases hc with rfl | hc
      · decide
      · exact hbody43 c hc
    simp only [clean_prefix _ h43]
    simp only [map_cons, map_nil, cons_append, nil_append, head?_cons, tail_cons]
    have : ((some ('-' : Char).toNat : Option Nat) == some 45) = true := by decide
    simp only [this, if_true]
    rw [← hbody]
    exact parseBody_ok true _ _ pt _ hipc hfpc hnec hxc

theorem scanF_not_good' (i : IStream) (h : i.good = false) : scanF i = ({ i with fail := true }, none) := by
  have hg : ({ i with fail := true } : IStream).good = false := by simp [IStream.good]
  have hsp : isspace '\x00' = false := by decide
  have hstart : start i = ({ i with fail := true }, '\x00') := by
    unfold start
    rw [get_not_good i _ h]
    simp only
    split
    · cases hn : ({ i with fail := true } : IStream).rest.length + 1 with
      | zero => simp [skipWs]
      | succ n => simp [skipWs, hsp]
    · rfl
  have hrs : readSign { i with fail := true } '\x00' = ([], { i with fail := true }, '\x00') := by
    simp [readSign, show ¬ (('\x00' : Char) = '-' ∨ ('\x00' : Char) = '+') by decide]
  have hl : ∀ n s, digitsLoop (digitTest 10) n s { i with fail := true } '\x00' false = (s, { i with fail := true }, '\x00', false) := by
    intro n s; cases n <;> simp [digitsLoop, show digitTest 10 '\x00' = false by decide]
  rw [scanF_eq, hstart]
  simp only [hrs]
  unfold mantRun expRun setDigits
  simp only [hl, show ¬ (('\x00' : Char) = '.') by decide, if_false, Bool.false_eq_true, false_and]
  simp [finish, hg, IStream.setFail]

end

end Mpir.CxxIo
