/-
  Arithmetic for C02 part c02_dcappr (contract of the repaired mpn_dc_divappr_q): the TRUNCATED PRODUCT
      tS D Q m = Σ_{j<m} q_j · ⌊D / B^(m-1-j)⌋            (q_j the base-B digits of Q < B^m)
  i.e. the part of Q·D / B^(m-1) that mpn_sb_divappr_q / mpn_dc_divappr_q really subtract from their window (a product
  d_i·q_j is subtracted iff i + j ≥ m - 1).  Splitting (`tS_split`), relation to the exact product (`tS_bounds`), the
  all-ones quotient of __divappr_helper (`tS_sat`), decrementing the quotient (`tS_dec`, the fix-up loop
  dc_divappr_q.c:127-128), the middle product (`tS_mm`, `mm_eq_mulmidV`).
-/
import MpirProofs.Lemmas.Base
import Mpir.Model.DcDivappr
import Mathlib.Tactic.Ring
import Mathlib.Tactic.Linarith
import Mathlib.Tactic.Positivity
namespace Mpir.DcDivappr
open Mpir

/-- truncated product: the top digit of Q times D, the next digit times ⌊D/B⌋, … -/
def tS : Nat → Nat → Nat → Nat
  | _, _, 0 => 0
  | D, Q, m + 1 => (Q / B ^ m) * D + tS (D / B) (Q % B ^ m) m

/-- Σ_{i<k} (limb i of D) -/
def sumd (D : Nat) : Nat → Nat
  | 0 => 0
  | k + 1 => sumd D k + D / B ^ k % B

theorem Bpow_pos (k : Nat) : 0 < B ^ k := pow_pos B_pos k

theorem tS_zero_q : ∀ (m D : Nat), tS D 0 m = 0
  | 0, _ => rfl
  | m + 1, D => by
    show (0 / B ^ m) * D + tS (D / B) (0 % B ^ m) m = 0
    rw [Nat.zero_div, Nat.zero_mod, tS_zero_q m, Nat.zero_mul]

theorem div_pow_succ (D k : Nat) : D / B / B ^ k = D / B ^ (k + 1) := by
  rw [Nat.div_div_eq_div_mul, pow_succ, Nat.mul_comm]

theorem div_pow_succ' (D k : Nat) : D / B ^ k / B = D / B ^ (k + 1) := by
  rw [Nat.div_div_eq_div_mul, pow_succ]

theorem div_pow_add (D a b : Nat) : D / B ^ a / B ^ b = D / B ^ (a + b) := by
  rw [Nat.div_div_eq_div_mul, pow_add]

/-- value = high · P + low -/
theorem mod_of_split (a P r : Nat) (hr : r < P) : (a * P + r) % P = r := by
  rw [Nat.add_comm, Nat.add_mul_mod_self_right, Nat.mod_eq_of_lt hr]

theorem div_of_split (a P r : Nat) (hr : r < P) : (a * P + r) / P = a := by
  have hP : 0 < P := by omega
  rw [Nat.add_comm, Nat.add_mul_div_right _ _ hP, Nat.div_eq_of_lt hr, Nat.zero_add]

/-- splitting the quotient into a high part of sh digits and a low part of sl digits -/
theorem tS_split (sl : Nat) : ∀ (sh D Qh Ql : Nat), Qh < B ^ sh → Ql < B ^ sl →
    tS D (Qh * B ^ sl + Ql) (sh + sl) = tS D Qh sh + tS (D / B ^ sh) Ql sl
  | 0, D, Qh, Ql, hQh, _ => by
    have : Qh = 0 := by simpa using hQh
    subst this
    simp [tS]
  | sh + 1, D, Qh, Ql, hQh, hQl => by
    have hP := Bpow_pos sh
    have hPl := Bpow_pos sl
    have e : sh + 1 + sl = (sh + sl) + 1 := by omega
    rw [e]
    show ((Qh * B ^ sl + Ql) / B ^ (sh + sl)) * D + tS (D / B) ((Qh * B ^ sl + Ql) % B ^ (sh + sl)) (sh + sl)
      = ((Qh / B ^ sh) * D + tS (D / B) (Qh % B ^ sh) sh) + tS (D / B ^ (sh + 1)) Ql sl
    have hdm := Nat.div_add_mod Qh (B ^ sh)
    have hm := Nat.mod_lt Qh hP
    have hlow : Qh % B ^ sh * B ^ sl + Ql < B ^ (sh + sl) := by
      rw [pow_add]
      have : (Qh % B ^ sh + 1) * B ^ sl ≤ B ^ sh * B ^ sl := Nat.mul_le_mul_right _ hm
      nlinarith
    have hval : Qh * B ^ sl + Ql = (Qh / B ^ sh) * B ^ (sh + sl) + (Qh % B ^ sh * B ^ sl + Ql) := by
      rw [pow_add]
      conv_lhs => rw [← hdm]
      ring
    rw [hval, div_of_split _ _ _ hlow, mod_of_split _ _ _ hlow,
      tS_split sl sh (D / B) (Qh % B ^ sh) Ql hm hQl, div_pow_succ]
    ring

/-- the truncated product against the exact one: 0 ≤ Q·D - B^(m-1)·tS < m·B^m (stated after multiplication by B) -/
theorem tS_bounds : ∀ (m D Q : Nat), Q < B ^ m →
    B ^ m * tS D Q m ≤ B * (Q * D) ∧ B * (Q * D) ≤ B ^ m * tS D Q m + m * B ^ (m + 1)
  | 0, D, Q, hQ => by
    have : Q = 0 := by simpa using hQ
    subst this
    simp [tS]
  | m + 1, D, Q, hQ => by
    have hB := B_pos
    have hP := Bpow_pos m
    have hdm := Nat.div_add_mod Q (B ^ m)
    have hm := Nat.mod_lt Q hP
    obtain ⟨i1, i2⟩ := tS_bounds m (D / B) (Q % B ^ m) hm
    have hD := Nat.div_add_mod D B
    have hDm := Nat.mod_lt D hB
    show B ^ (m + 1) * ((Q / B ^ m) * D + tS (D / B) (Q % B ^ m) m) ≤ B * (Q * D) ∧
      B * (Q * D) ≤ B ^ (m + 1) * ((Q / B ^ m) * D + tS (D / B) (Q % B ^ m) m) + (m + 1) * B ^ (m + 1 + 1)
    rw [pow_succ (n := m + 1), pow_succ (n := m)]
    rw [pow_succ] at i2
    generalize tS (D / B) (Q % B ^ m) m = t at *
    generalize Q / B ^ m = qt at *
    generalize Q % B ^ m = ql at *
    generalize B ^ m = P at *
    generalize D / B = D' at *
    generalize D % B = d0 at *
    subst hdm hD
    have a1 : B * (P * t) ≤ B * (B * (ql * D')) := Nat.mul_le_mul_left _ i1
    have a2 : B * (B * (ql * D')) ≤ B * (P * t + m * (P * B)) := Nat.mul_le_mul_left _ i2
    have a3 : ql * d0 ≤ P * B := Nat.mul_le_mul hm.le hDm.le
    have a4 : B * (ql * d0) ≤ B * (P * B) := Nat.mul_le_mul_left _ a3
    constructor
    · nlinarith [Nat.zero_le (B * (ql * d0)), Nat.zero_le (B * (P * qt * d0))]
    · nlinarith

theorem sumd_shift : ∀ (k D : Nat), sumd D (k + 1) = D % B + sumd (D / B) k
  | 0, D => by simp [sumd]
  | k + 1, D => by
    show sumd D (k + 1) + D / B ^ (k + 1) % B = D % B + (sumd (D / B) k + D / B / B ^ k % B)
    rw [sumd_shift k D, div_pow_succ]; ring

theorem sumd_le : ∀ (k D : Nat), sumd D k + k ≤ k * B
  | 0, _ => by simp [sumd]
  | k + 1, D => by
    have := sumd_le k D
    have := Nat.mod_lt (D / B ^ k) B_pos
    show sumd D k + D / B ^ k % B + (k + 1) ≤ (k + 1) * B
    nlinarith

theorem pow_succ_sub_one (m : Nat) : B ^ (m + 1) - 1 = (B - 1) * B ^ m + (B ^ m - 1) := by
  have hB := B_pos
  have hP := Bpow_pos m
  rw [pow_succ]
  have h : (B - 1) * B ^ m + B ^ m = B ^ m * B := by
    calc (B - 1) * B ^ m + B ^ m = (B - 1 + 1) * B ^ m := by ring
      _ = B ^ m * B := by rw [Nat.sub_add_cancel hB]; ring
  omega

/-- the all-ones quotient (what __divappr_helper stores): tS D (B^(m+1) - 1) (m+1) = B·D - ⌊D/B^m⌋ - Σ_{i<m} d_i -/
theorem tS_sat : ∀ (m D : Nat), tS D (B ^ (m + 1) - 1) (m + 1) + D / B ^ m + sumd D m = B * D
  | 0, D => by
    have hB := B_pos
    show ((B ^ (0 + 1) - 1) / B ^ 0) * D + tS (D / B) ((B ^ (0 + 1) - 1) % B ^ 0) 0 + D / B ^ 0 + sumd D 0 = B * D
    simp only [pow_zero, Nat.div_one, zero_add, pow_one, tS, sumd, Nat.add_zero]
    obtain ⟨b, hb⟩ : ∃ b, B = b + 1 := ⟨B - 1, by omega⟩
    rw [hb, Nat.add_sub_cancel]; ring
  | m + 1, D => by
    have hB := B_pos
    have hP := Bpow_pos (m + 1)
    have ih := tS_sat m (D / B)
    have hlow : B ^ (m + 1) - 1 < B ^ (m + 1) := by omega
    show ((B ^ (m + 1 + 1) - 1) / B ^ (m + 1)) * D + tS (D / B) ((B ^ (m + 1 + 1) - 1) % B ^ (m + 1)) (m + 1)
      + D / B ^ (m + 1) + sumd D (m + 1) = B * D
    rw [pow_succ_sub_one (m + 1), div_of_split _ _ _ hlow, mod_of_split _ _ _ hlow, sumd_shift]
    rw [div_pow_succ] at ih
    have hD := Nat.div_add_mod D B
    obtain ⟨b, hb⟩ : ∃ b, B = b + 1 := ⟨B - 1, by omega⟩
    have e : B - 1 = b := by omega
    rw [e]
    have : b * D + D = B * D := by rw [hb]; ring
    generalize tS (D / B) (B ^ (m + 1) - 1) (m + 1) = t at *
    generalize sumd (D / B) m = s at *
    omega

/-- every natural ≥ 1 is Q1·B^z with a non-zero low digit of Q1 -/
theorem exists_trailing : ∀ (Q : Nat), 1 ≤ Q → ∃ z Q1, Q = Q1 * B ^ z ∧ Q1 % B ≠ 0 := by
  intro Q
  induction Q using Nat.strong_induction_on with
  | _ Q ih =>
    intro hQ
    by_cases h : Q % B = 0
    · have hB := B_pos
      have hlt : Q / B < Q := Nat.div_lt_self (by omega) (by rw [B_eq]; omega)
      have hge : 1 ≤ Q / B := Nat.div_pos (Nat.le_of_dvd (by omega) (Nat.dvd_of_mod_eq_zero h)) hB
      obtain ⟨z, Q1, e, h1⟩ := ih (Q / B) hlt hge
      refine ⟨z + 1, Q1, ?_, h1⟩
      have := Nat.div_add_mod Q B
      rw [h, Nat.add_zero] at this
      rw [← this, e, pow_succ]; ring
    · exact ⟨0, Q, by simp, h⟩

/-- decrementing the quotient: with z trailing zero digits, the truncated product drops by ⌊D/B^(m-1)⌋ plus the z
    divisor limbs d_(m-1-z) … d_(m-2) (dc_divappr_q.c:125-128) -/
theorem tS_dec (m z D Q1 : Nat) (hQ : Q1 * B ^ z < B ^ m) (h1 : Q1 % B ≠ 0) :
    tS D (Q1 * B ^ z) m = tS D (Q1 * B ^ z - 1) m + D / B ^ (m - 1) + sumd (D / B ^ (m - 1 - z)) z := by
  have hB := B_pos
  have hPz := Bpow_pos z
  have hQ1 : 1 ≤ Q1 := by
    by_contra hc
    have : Q1 = 0 := by omega
    rw [this] at h1; simp at h1
  -- z < m
  have hzm : z < m := by
    by_contra hc
    have : B ^ m ≤ B ^ z := Nat.pow_le_pow_right hB (by omega)
    have : 1 * B ^ z ≤ Q1 * B ^ z := Nat.mul_le_mul_right _ hQ1
    omega
  obtain ⟨k, rfl⟩ : ∃ k, m = (k + 1) + z := ⟨m - z - 1, by omega⟩
  have hQ1lt : Q1 < B ^ (k + 1) := by
    rw [pow_add] at hQ
    exact Nat.lt_of_mul_lt_mul_right hQ
  -- Q1 = Qa·B + q0
  have hdm := Nat.div_add_mod Q1 B
  have hq0 := Nat.mod_lt Q1 hB
  have hQa : Q1 / B < B ^ k := by
    rw [Nat.div_lt_iff_lt_mul hB, ← pow_succ]; exact hQ1lt
  have e1 : Q1 * B ^ z = Q1 * B ^ z + 0 := rfl
  have e2 : Q1 * B ^ z - 1 = (Q1 - 1) * B ^ z + (B ^ z - 1) := by
    obtain ⟨q, rfl⟩ : ∃ q, Q1 = q + 1 := ⟨Q1 - 1, by omega⟩
    rw [Nat.add_sub_cancel]
    have : (q + 1) * B ^ z = q * B ^ z + B ^ z := by ring
    omega
  have hQ1m : Q1 - 1 < B ^ (k + 1) := by omega
  rw [e2]
  conv_lhs => rw [e1]
  rw [tS_split z (k + 1) D Q1 0 hQ1lt hPz, tS_split z (k + 1) D (Q1 - 1) (B ^ z - 1) hQ1m (by omega), tS_zero_q]
  -- the high parts: split off the low digit
  have hdm' : Q1 / B * B + Q1 % B = Q1 := by rw [Nat.mul_comm]; exact hdm
  have f1 : Q1 = (Q1 / B) * B ^ 1 + Q1 % B := by rw [pow_one]; omega
  have f2 : Q1 - 1 = (Q1 / B) * B ^ 1 + (Q1 % B - 1) := by rw [pow_one]; omega
  have g1 : tS D Q1 (k + 1) = tS D (Q1 / B) k + (Q1 % B) * (D / B ^ k) := by
    conv_lhs => rw [f1]
    rw [tS_split 1 k D (Q1 / B) (Q1 % B) hQa (by rw [pow_one]; exact hq0)]
    simp [tS]
  have g2 : tS D (Q1 - 1) (k + 1) = tS D (Q1 / B) k + (Q1 % B - 1) * (D / B ^ k) := by
    conv_lhs => rw [f2]
    rw [tS_split 1 k D (Q1 / B) (Q1 % B - 1) hQa (by rw [pow_one]; omega)]
    simp [tS]
  rw [g1, g2]
  have ek : k + 1 + z - 1 = k + z := by omega
  have ek2 : k + z - z = k := by omega
  rw [ek, ek2]
  obtain ⟨q0, hq0e⟩ : ∃ q0, Q1 % B = q0 + 1 := ⟨Q1 % B - 1, by omega⟩
  rw [hq0e, Nat.add_sub_cancel]
  -- the low part
  match z with
  | 0 =>
    simp [tS, sumd]; ring
  | z + 1 =>
    have hs := tS_sat z (D / B ^ (k + 1))
    rw [div_pow_add] at hs
    have hsh := sumd_shift z (D / B ^ k)
    rw [div_pow_succ'] at hsh
    rw [hsh]
    have hD := Nat.div_add_mod (D / B ^ k) B
    rw [div_pow_succ'] at hD
    have ekz : k + (z + 1) = k + 1 + z := by omega
    rw [ekz]
    generalize tS (D / B ^ (k + 1)) (B ^ (z + 1) - 1) (z + 1) = t at *
    generalize sumd (D / B ^ (k + 1)) z = s at *
    generalize tS D (Q1 / B) k = u at *
    have : (q0 + 1) * (D / B ^ k) = q0 * (D / B ^ k) + D / B ^ k := by ring
    omega

/-! ## the middle product -/

/-- Σ_j q_j · (⌊D / B^(m-1-j)⌋ mod B^sl), same recursion as `tS` -/
def mm (sl : Nat) : Nat → Nat → Nat → Nat
  | _, _, 0 => 0
  | D, Q, m + 1 => (Q / B ^ m) * (D % B ^ sl) + mm sl (D / B) (Q % B ^ m) m

theorem tS_mm (sl : Nat) : ∀ (m D Q : Nat), tS D Q m = B ^ sl * tS (D / B ^ sl) Q m + mm sl D Q m
  | 0, _, _ => by simp [tS, mm]
  | m + 1, D, Q => by
    show (Q / B ^ m) * D + tS (D / B) (Q % B ^ m) m
      = B ^ sl * ((Q / B ^ m) * (D / B ^ sl) + tS (D / B ^ sl / B) (Q % B ^ m) m)
        + ((Q / B ^ m) * (D % B ^ sl) + mm sl (D / B) (Q % B ^ m) m)
    rw [tS_mm sl m (D / B) (Q % B ^ m)]
    have e : D / B / B ^ sl = D / B ^ sl / B := by
      rw [Nat.div_div_eq_div_mul, Nat.div_div_eq_div_mul, Nat.mul_comm]
    rw [e]
    have hD : (Q / B ^ m) * D = (Q / B ^ m) * (B ^ sl * (D / B ^ sl) + D % B ^ sl) := by
      rw [Nat.div_add_mod D (B ^ sl)]
    rw [hD]
    ring

theorem mm_le (sl : Nat) : ∀ (m D Q : Nat), Q < B ^ m → mm sl D Q m ≤ m * (B * B ^ sl)
  | 0, _, _, _ => by simp [mm]
  | m + 1, D, Q, hQ => by
    have hP := Bpow_pos m
    have ih := mm_le sl m (D / B) (Q % B ^ m) (Nat.mod_lt _ hP)
    have h1 : Q / B ^ m < B := by
      rw [Nat.div_lt_iff_lt_mul hP, Nat.mul_comm, ← pow_succ]; exact hQ
    have h2 := Nat.mod_lt D (Bpow_pos sl)
    show (Q / B ^ m) * (D % B ^ sl) + mm sl (D / B) (Q % B ^ m) m ≤ (m + 1) * (B * B ^ sl)
    have : (Q / B ^ m) * (D % B ^ sl) ≤ B * B ^ sl := Nat.mul_le_mul h1.le h2.le
    nlinarith

theorem mod_div_mod (Q m j : Nat) (h : j < m) : Q % B ^ m / B ^ j % B = Q / B ^ j % B := by
  have e : B ^ m = B ^ j * B ^ (m - j) := by rw [← pow_add]; congr 1; omega
  rw [e, Nat.mod_mul_right_div_self]
  apply Nat.mod_mod_of_dvd
  exact dvd_pow_self B (by omega)

theorem mod_pow_div_mod (D an e sl : Nat) (h : e + sl ≤ an) : D % B ^ an / B ^ e % B ^ sl = D / B ^ e % B ^ sl := by
  have e1 : B ^ an = B ^ e * B ^ (an - e) := by rw [← pow_add]; congr 1; omega
  rw [e1, Nat.mod_mul_right_div_self]
  apply Nat.mod_mod_of_dvd
  exact pow_dvd_pow B (by omega)

theorem mulmidV_congr (an bn A Q m : Nat) : ∀ j, j ≤ m → mulmidV an bn A (Q % B ^ m) j = mulmidV an bn A Q j
  | 0, _ => rfl
  | j + 1, h => by
    show mulmidV an bn A (Q % B ^ m) j + (Q % B ^ m / B ^ j % B) * _ = mulmidV an bn A Q j + (Q / B ^ j % B) * _
    rw [mulmidV_congr an bn A Q m j (by omega), mod_div_mod Q m j (by omega)]

/-- mpn_mulmid (tp, dp, an, qp, bn) with an = sl + bn - 1 is the middle part `mm` of the truncated product -/
theorem mm_eq_mulmidV (sl an bn D : Nat) (hsl : 1 ≤ sl) (han : an + 1 = sl + bn) : ∀ (m e Q : Nat), Q < B ^ m → bn = m + e →
    mm sl (D / B ^ e) Q m = mulmidV an bn D Q m
  | 0, _, _, _, _ => rfl
  | m + 1, e, Q, hQ, hbn => by
    have hP := Bpow_pos m
    have h1 : Q / B ^ m < B := by
      rw [Nat.div_lt_iff_lt_mul hP, Nat.mul_comm, ← pow_succ]; exact hQ
    show (Q / B ^ m) * (D / B ^ e % B ^ sl) + mm sl (D / B ^ e / B) (Q % B ^ m) m
      = mulmidV an bn D Q m + (Q / B ^ m % B) * (D % B ^ an / B ^ (bn - 1 - m) % B ^ (an - bn + 1))
    have e1 : bn - 1 - m = e := by omega
    have e2 : an - bn + 1 = sl := by omega
    have e3 : D / B ^ e / B = D / B ^ (e + 1) := div_pow_succ' D e
    rw [e1, e2, e3, mod_pow_div_mod D an e sl (by omega), Nat.mod_eq_of_lt h1,
      mm_eq_mulmidV sl an bn D hsl han m (e + 1) (Q % B ^ m) (Nat.mod_lt _ hP) (by omega),
      mulmidV_congr an bn D Q m m (le_refl _)]
    ring

end Mpir.DcDivappr
