/- Helper lemmas for the C09 models (Mpir/Model/Root.lean). -/
import MpirProofs.Lemmas.Base
import MpirProofs.Lemmas.Bits
import Mpir.Model.Root
import Mathlib.Tactic.Ring
import Mathlib.Tactic.Linarith
import Mathlib.Tactic.NormNum
import Mathlib.Data.Nat.ModEq
import Mathlib.Data.Nat.Sqrt
import Mathlib.Tactic.Zify
import Mathlib.Tactic.LinearCombination
import Mathlib.Algebra.Ring.Parity
namespace Mpir.Root
open Mpir Mpir.Gen.SqrtTabs


/-! ### the mod-256 probe -/

/-- kernel-checked fact about the regenerated `sq_res_0x100`: every square residue has its bit set. -/
theorem sqRes256_table : ∀ j < 256, sqRes256 (j * j % 256) = true := by decide +kernel

theorem sqRes256_mod (lo : Nat) : sqRes256 lo = sqRes256 (lo % 256) := by
  simp [sqRes256]

theorem sqRes256_sq (k : Nat) : sqRes256 (k * k % B) = true := by
  rw [sqRes256_mod]
  have h : k * k % B % 256 = (k % 256) * (k % 256) % 256 := by
    rw [Nat.mod_mod_of_dvd _ (by unfold B; norm_num : 256 ∣ B), Nat.mul_mod]
  rw [h]
  exact sqRes256_table _ (Nat.mod_lt _ (by norm_num))

/-! ### PERFSQR_MOD_1 / PERFSQR_MOD_2 -/

/-- what a regenerated test entry must satisfy (decidable; checked by the kernel on the whole table):
    `d` divides `2^48 - 1`, `inv·d ≡ 1 (mod 2^49)`, the product `q·d` cannot wrap, and for every square
    residue `j² mod d` the bit at the index the modexact step produces is set. -/
def testOK (t : ModTest) : Bool :=
  decide (0 < t.d) && decide ((2 ^ mod34Bits - 1) % t.d = 0) && decide (t.inv * t.d % 2 ^ perfsqrModBits = 1)
    && decide (t.d * 2 ^ perfsqrModBits ≤ B)
    && (List.range t.d).all fun j => (List.range t.d).all fun i =>
        !decide ((i * 2 ^ perfsqrModBits + j * j) % t.d = 0) || perfsqrBit t i

theorem perfsqrTests_ok : perfsqrTests.all testOK = true := by decide +kernel

theorem bits_facts : perfsqrModBits ≤ 63 ∧ mod34Bits + 1 = perfsqrModBits ∧ mod34Bits = 48 := by decide


theorem and_mask (x k : Nat) (hk : k ≤ 63) : x % B &&& ((1 <<< k) % B - 1) = x % 2 ^ k := by
  have h1 : (1 <<< k) % B = 2 ^ k := by
    rw [Nat.one_shiftLeft]
    apply Nat.mod_eq_of_lt
    unfold B
    exact Nat.pow_lt_pow_right (by norm_num) (by omega)
  rw [h1, Nat.and_two_pow_sub_one_eq_mod]
  exact Nat.mod_mod_of_dvd _ (by unfold B; exact Nat.pow_dvd_pow 2 (by omega))

/-- the modexact step: for `r < 2^49` the index satisfies `idx < d` and `d ∣ idx·2^49 + r`. -/
theorem perfsqrIdx_spec (t : ModTest) (r : Nat) (hd : 0 < t.d)
    (hinv : t.inv * t.d % 2 ^ perfsqrModBits = 1) (hw : t.d * 2 ^ perfsqrModBits ≤ B)
    (hr : r < 2 ^ perfsqrModBits) :
    perfsqrIdx t r < t.d ∧ (perfsqrIdx t r * 2 ^ perfsqrModBits + r) % t.d = 0 := by
  have hb := bits_facts.1
  unfold perfsqrIdx
  dsimp only
  rw [and_mask _ _ hb]
  generalize perfsqrModBits = m at *
  set q := r * t.inv % 2 ^ m with hq
  have hqlt : q < 2 ^ m := Nat.mod_lt _ (by positivity)
  have hqd : q * t.d < B := by nlinarith
  rw [Nat.mod_eq_of_lt hqd, Nat.shiftRight_eq_div_pow]
  have hlow : q * t.d % 2 ^ m = r := by
    rw [hq, Nat.mod_mul_mod, Nat.mul_assoc, Nat.mul_mod, hinv, Nat.mul_one, Nat.mod_mod, Nat.mod_eq_of_lt hr]
  have hdiv := Nat.div_add_mod (q * t.d) (2 ^ m)
  rw [hlow] at hdiv
  constructor
  · apply Nat.div_lt_of_lt_mul
    nlinarith
  · have : q * t.d / 2 ^ m * 2 ^ m + r = q * t.d := by linarith [Nat.mul_comm (2 ^ m) (q * t.d / 2 ^ m)]
    rw [this]; exact Nat.mul_mod_left _ _

/-- one residue test never rejects a square: `r ≡ k² (mod 2^48-1)`, `r < 2^49`. -/
theorem perfsqrTest_sq (t : ModTest) (ht : testOK t = true) (k r : Nat) (hr : r < 2 ^ perfsqrModBits)
    (hmod : r % (2 ^ mod34Bits - 1) = k * k % (2 ^ mod34Bits - 1)) : perfsqrTest t r = true := by
  simp only [testOK, Bool.and_eq_true, decide_eq_true_eq, List.all_eq_true, List.mem_range,
    Bool.or_eq_true, Bool.not_eq_true', decide_eq_false_iff_not] at ht
  obtain ⟨⟨⟨⟨hd, hdvd⟩, hinv⟩, hw⟩, htab⟩ := ht
  obtain ⟨hlt, hz⟩ := perfsqrIdx_spec t r hd hinv hw hr
  have hrd : r % t.d = k * k % t.d := by
    have h1 := Nat.mod_mod_of_dvd r (Nat.dvd_of_mod_eq_zero hdvd)
    have h2 := Nat.mod_mod_of_dvd (k * k) (Nat.dvd_of_mod_eq_zero hdvd)
    rw [← h1, ← h2, hmod]
  have hz' : (perfsqrIdx t r * 2 ^ perfsqrModBits + (k % t.d) * (k % t.d)) % t.d = 0 := by
    rw [Nat.add_mod, ← Nat.mul_mod, ← hrd, ← Nat.add_mod]; exact hz
  rcases htab (k % t.d) (Nat.mod_lt _ hd) _ hlt with h | h
  · exact absurd hz' h
  · exact h


/-! ### mpn_mod_34lsub1 -/


theorem parts0_congr (x : Nat) : m34Parts0 x % (2 ^ 48 - 1) = x % (2 ^ 48 - 1) := by
  unfold m34Parts0
  rw [Nat.and_two_pow_sub_one_eq_mod, Nat.shiftRight_eq_div_pow]
  norm_num
  omega

theorem parts1_congr (x : Nat) : m34Parts1 x % (2 ^ 48 - 1) = (x * 2 ^ 64) % (2 ^ 48 - 1) := by
  unfold m34Parts1
  rw [Nat.and_two_pow_sub_one_eq_mod, Nat.shiftRight_eq_div_pow, Nat.shiftLeft_eq]
  norm_num
  omega

theorem parts2_congr (x : Nat) : m34Parts2 x % (2 ^ 48 - 1) = (x * 2 ^ 128) % (2 ^ 48 - 1) := by
  unfold m34Parts2
  rw [Nat.and_two_pow_sub_one_eq_mod, Nat.shiftRight_eq_div_pow, Nat.shiftLeft_eq]
  norm_num
  omega

theorem parts_bound (x : Nat) (hx : x < B) : m34Parts0 x < 2 ^ 49 ∧ m34Parts1 x < 2 ^ 49 ∧ m34Parts2 x < 2 ^ 49 := by
  unfold m34Parts0 m34Parts1 m34Parts2
  simp only [Nat.and_two_pow_sub_one_eq_mod, Nat.shiftRight_eq_div_pow, Nat.shiftLeft_eq, B_eq] at *
  norm_num
  omega

/-- ADD (c, a, val): exact two-limb accumulation while the carry counter cannot wrap. -/
theorem m34Add_spec (a c v : Nat) (ha : a < B) (hv : v < B) (hc : c + 1 < B) :
    (m34Add a c v).1 + B * (m34Add a c v).2 = a + B * c + v ∧ (m34Add a c v).1 < B ∧
    (m34Add a c v).2 ≤ c + 1 := by
  unfold m34Add boolToNat
  simp only [B_eq] at *
  by_cases h : (a + v) % 18446744073709551616 < v <;> simp only [h, decide_true, decide_false, Bool.false_eq_true, if_true, if_false, ↓reduceIte] <;> omega

def M34.acc (st : M34) : Nat :=
  (st.a0 + B * st.c0) + B * (st.a1 + B * st.c1) + B ^ 2 * (st.a2 + B * st.c2)

def M34.ok (st : M34) (n : Nat) : Prop :=
  st.a0 < B ∧ st.a1 < B ∧ st.a2 < B ∧ st.c0 + n < B ∧ st.c1 + n < B ∧ st.c2 + n < B

theorem B3_modEq : B ^ 3 ≡ 1 [MOD B ^ 3 - 1] :=
  Nat.modEq_sub (Nat.one_le_pow _ _ B_pos)

theorem m34Loop_spec : ∀ (p : List Nat) (st : M34), Limbs p → st.ok p.length →
    (m34Loop p st).acc ≡ st.acc + val p [MOD B ^ 3 - 1] ∧ (m34Loop p st).ok 0
  | [], st, _, hok => by simpa [m34Loop, Nat.ModEq] using hok
  | [p0], st, hp, hok => by
    obtain ⟨h0, h1, h2, hc0, hc1, hc2⟩ := hok
    have hp0 := (Limbs_cons.mp hp).1
    obtain ⟨e, b, c⟩ := m34Add_spec st.a0 st.c0 p0 h0 hp0 (by simpa using hc0)
    simp only [m34Loop, M34.acc, M34.ok, val_cons, val_nil, List.length_cons, List.length_nil] at *
    refine ⟨?_, b, h1, h2, by omega, by omega, by omega⟩
    unfold Nat.ModEq; congr 1
    generalize (m34Add st.a0 st.c0 p0).1 = x at *
    generalize (m34Add st.a0 st.c0 p0).2 = y at *
    nlinarith
  | [p0, p1], st, hp, hok => by
    obtain ⟨h0, h1, h2, hc0, hc1, hc2⟩ := hok
    have ⟨hp0, hp'⟩ := Limbs_cons.mp hp
    have hp1 := (Limbs_cons.mp hp').1
    simp only [List.length_cons, List.length_nil] at hc0 hc1 hc2
    obtain ⟨e0, b0, c0⟩ := m34Add_spec st.a0 st.c0 p0 h0 hp0 (by omega)
    obtain ⟨e1, b1, c1⟩ := m34Add_spec st.a1 st.c1 p1 h1 hp1 (by omega)
    simp only [m34Loop, M34.acc, M34.ok, val_cons, val_nil] at *
    refine ⟨?_, b0, b1, h2, by omega, by omega, by omega⟩
    unfold Nat.ModEq; congr 1
    generalize (m34Add st.a0 st.c0 p0).1 = x0 at *
    generalize (m34Add st.a0 st.c0 p0).2 = y0 at *
    generalize (m34Add st.a1 st.c1 p1).1 = x1 at *
    generalize (m34Add st.a1 st.c1 p1).2 = y1 at *
    nlinarith
  | p0 :: p1 :: p2 :: rest, st, hp, hok => by
    obtain ⟨h0, h1, h2, hc0, hc1, hc2⟩ := hok
    have ⟨hp0, hp'⟩ := Limbs_cons.mp hp
    have ⟨hp1, hp''⟩ := Limbs_cons.mp hp'
    have ⟨hp2, hrest⟩ := Limbs_cons.mp hp''
    simp only [List.length_cons] at hc0 hc1 hc2
    obtain ⟨e0, b0, c0⟩ := m34Add_spec st.a0 st.c0 p0 h0 hp0 (by omega)
    obtain ⟨e1, b1, c1⟩ := m34Add_spec st.a1 st.c1 p1 h1 hp1 (by omega)
    obtain ⟨e2, b2, c2⟩ := m34Add_spec st.a2 st.c2 p2 h2 hp2 (by omega)
    have ih := m34Loop_spec rest
      ⟨(m34Add st.a0 st.c0 p0).1, (m34Add st.a1 st.c1 p1).1, (m34Add st.a2 st.c2 p2).1,
       (m34Add st.a0 st.c0 p0).2, (m34Add st.a1 st.c1 p1).2, (m34Add st.a2 st.c2 p2).2⟩ hrest
      ⟨b0, b1, b2, by simp only; omega, by simp only; omega, by simp only; omega⟩
    simp only [m34Loop]
    refine ⟨?_, ih.2⟩
    refine ih.1.trans ?_
    simp only [M34.acc, val_cons]
    generalize (m34Add st.a0 st.c0 p0).1 = x0 at *
    generalize (m34Add st.a0 st.c0 p0).2 = y0 at *
    generalize (m34Add st.a1 st.c1 p1).1 = x1 at *
    generalize (m34Add st.a1 st.c1 p1).2 = y1 at *
    generalize (m34Add st.a2 st.c2 p2).1 = x2 at *
    generalize (m34Add st.a2 st.c2 p2).2 = y2 at *
    have key : x0 + B * y0 + B * (x1 + B * y1) + B ^ 2 * (x2 + B * y2) + val rest
        = st.a0 + B * st.c0 + B * (st.a1 + B * st.c1) + B ^ 2 * (st.a2 + B * st.c2)
          + (p0 + B * p1 + B ^ 2 * p2) + 1 * val rest := by nlinarith
    have tgt : st.a0 + B * st.c0 + B * (st.a1 + B * st.c1) + B ^ 2 * (st.a2 + B * st.c2)
          + (p0 + B * (p1 + B * (p2 + B * val rest)))
        = st.a0 + B * st.c0 + B * (st.a1 + B * st.c1) + B ^ 2 * (st.a2 + B * st.c2)
          + (p0 + B * p1 + B ^ 2 * p2) + B ^ 3 * val rest := by ring
    rw [key, tgt]
    exact Nat.ModEq.add_left _ (B3_modEq.symm.mul_right _)


theorem dvd_B3 : (2 ^ 48 - 1) ∣ B ^ 3 - 1 := by unfold B; norm_num

/-- mpn_mod_34lsub1 returns a limb congruent to `{p, n}` modulo `2^48 - 1`
    (`n/3 < GMP_NUMB_MAX` is the C's ASSERT; `p.length < B - 1` is a little stronger and always true). -/
theorem mod34lsub1_congr (p : List Nat) (hp : Limbs p) (hn : p.length + 1 < B) :
    mod34lsub1 p % (2 ^ 48 - 1) = val p % (2 ^ 48 - 1) ∧ mod34lsub1 p < B := by
  obtain ⟨hc, h0, h1, h2, hc0, hc1, hc2⟩ := m34Loop_spec p ⟨0, 0, 0, 0, 0, 0⟩ hp
    ⟨B_pos, B_pos, B_pos, by simpa using by omega, by simpa using by omega, by simpa using by omega⟩
  have hc' := Nat.ModEq.of_dvd dvd_B3 hc
  unfold mod34lsub1
  dsimp only
  generalize m34Loop p ⟨0, 0, 0, 0, 0, 0⟩ = st at *
  simp only [Nat.add_zero] at hc0 hc1 hc2
  obtain ⟨p0a, -, -⟩ := parts_bound st.a0 h0
  obtain ⟨-, p1a, -⟩ := parts_bound st.a1 h1
  obtain ⟨-, -, p2a⟩ := parts_bound st.a2 h2
  obtain ⟨-, p1c, -⟩ := parts_bound st.c0 hc0
  obtain ⟨-, -, p2c⟩ := parts_bound st.c1 hc1
  obtain ⟨p0c, -, -⟩ := parts_bound st.c2 hc2
  have hV : m34Parts0 st.a0 + m34Parts1 st.a1 + m34Parts2 st.a2 + m34Parts1 st.c0 + m34Parts2 st.c1
      + m34Parts0 st.c2 < B := by simp only [B_eq]; omega
  rw [Nat.mod_eq_of_lt hV]
  refine ⟨?_, hV⟩
  have e : m34Parts0 st.a0 + m34Parts1 st.a1 + m34Parts2 st.a2 + m34Parts1 st.c0 + m34Parts2 st.c1
      + m34Parts0 st.c2 ≡ st.a0 + st.a1 * 2 ^ 64 + st.a2 * 2 ^ 128 + st.c0 * 2 ^ 64 + st.c1 * 2 ^ 128
        + st.c2 [MOD 2 ^ 48 - 1] :=
    ((((Nat.ModEq.add (parts0_congr st.a0) (parts1_congr st.a1)).add (parts2_congr st.a2)).add
      (parts1_congr st.c0)).add (parts2_congr st.c1)).add (parts0_congr st.c2)
  have hB3 : B ^ 3 ≡ 1 [MOD 2 ^ 48 - 1] := by unfold B; decide
  have e2 : st.acc ≡ st.a0 + st.a1 * 2 ^ 64 + st.a2 * 2 ^ 128 + st.c0 * 2 ^ 64 + st.c1 * 2 ^ 128
      + st.c2 [MOD 2 ^ 48 - 1] := by
    have : st.acc = st.a0 + st.a1 * 2 ^ 64 + st.a2 * 2 ^ 128 + st.c0 * 2 ^ 64 + st.c1 * 2 ^ 128
        + B ^ 3 * st.c2 := by unfold M34.acc B; ring
    rw [this]
    have := hB3.mul_right st.c2
    rw [Nat.one_mul] at this
    exact Nat.ModEq.add_left _ this
  have hc'' : st.acc ≡ val p [MOD 2 ^ 48 - 1] := by simpa [M34.acc] using hc'
  exact (e.trans e2.symm).trans hc''

theorem perfsqrFold_spec (r : Nat) (hr : r < B) :
    perfsqrFold r % (2 ^ 48 - 1) = r % (2 ^ 48 - 1) ∧ perfsqrFold r < 2 ^ 49 := by
  unfold perfsqrFold
  have : mod34Bits = 48 := by decide
  rw [this]
  have h1 : (1 <<< 48) % B = 2 ^ 48 := by unfold B; decide
  rw [h1, Nat.and_two_pow_sub_one_eq_mod, Nat.shiftRight_eq_div_pow]
  simp only [B_eq] at hr
  norm_num
  omega



/-! ### square roots: characterisation, denormalisation, the wrapper -/


/-- characterisation used everywhere: `N = s² + r`, `r ≤ 2s` pins down `s = ⌊√N⌋`. -/
theorem sqrt_of_rem {N s r : Nat} (h : s * s + r = N) (hr : r ≤ 2 * s) :
    s = Nat.sqrt N ∧ r = N - Nat.sqrt N * Nat.sqrt N := by
  have hs : s = Nat.sqrt N := by
    apply Nat.eq_sqrt.mpr
    constructor <;> nlinarith
  subst hs
  exact ⟨rfl, by omega⟩

/-- denormalisation (sqrtrem.c:322-347): from the root/remainder of `u·2^(2k)` to those of `u`. -/
theorem denorm (u k S R : Nat) (hS : S * S + R = u * 2 ^ (2 * k)) (hR : R ≤ 2 * S) :
    S / 2 ^ k = Nat.sqrt u ∧
    (R + 2 * (S % 2 ^ k) * S - (S % 2 ^ k) * (S % 2 ^ k)) / 2 ^ (2 * k) = u - Nat.sqrt u * Nat.sqrt u := by
  have hK : 0 < 2 ^ k := by positivity
  generalize hKe : 2 ^ k = K at *
  have hK2 : 2 ^ (2 * k) = K * K := by rw [Nat.mul_comm, pow_mul, hKe]; ring
  rw [hK2] at hS ⊢
  obtain ⟨S1, s0, hdec, hs0⟩ : ∃ S1 s0, S = S1 * K + s0 ∧ s0 < K :=
    ⟨S / K, S % K, by rw [Nat.mul_comm]; exact (Nat.div_add_mod S K).symm, Nat.mod_lt _ hK⟩
  have e1 : S / K = S1 := by
    rw [hdec, Nat.mul_comm, Nat.mul_add_div hK, Nat.div_eq_of_lt hs0, Nat.add_zero]
  have e2 : S % K = s0 := by
    rw [hdec, Nat.mul_comm, Nat.mul_add_mod, Nat.mod_eq_of_lt hs0]
  rw [e1, e2]
  -- S1² ≤ u < (S1+1)²
  have hle : S1 * S1 ≤ u := by
    by_contra hc
    have hc := Nat.lt_of_not_le hc
    have : (S1 * S1) * (K * K) ≥ (u + 1) * (K * K) := Nat.mul_le_mul_right _ hc
    nlinarith
  have hlt : u < (S1 + 1) * (S1 + 1) := by
    by_contra hc
    have hc := Nat.le_of_not_lt hc
    have h1 : (S1 + 1) * (S1 + 1) * (K * K) ≤ u * (K * K) := Nat.mul_le_mul_right _ hc
    have h2 : S + 1 ≤ (S1 + 1) * K := by nlinarith
    have h3 : (S + 1) * (S + 1) ≤ ((S1 + 1) * K) * ((S1 + 1) * K) := Nat.mul_le_mul h2 h2
    nlinarith
  have hsq : S1 = Nat.sqrt u := Nat.eq_sqrt.mpr ⟨hle, hlt⟩
  refine ⟨hsq, ?_⟩
  rw [← hsq]
  obtain ⟨d, hd⟩ := Nat.exists_eq_add_of_le hle
  have key : R + 2 * s0 * S = d * (K * K) + s0 * s0 := by
    subst hdec; subst hd
    zify at hS ⊢
    linear_combination hS
  rw [key, Nat.add_sub_cancel, Nat.mul_div_cancel _ (Nat.mul_pos hK hK), hd, Nat.add_sub_cancel_left]


theorem bitLen_spec (h : Nat) (hp : 0 < h) : 2 ^ (bitLen h - 1) ≤ h ∧ h < 2 ^ bitLen h ∧ 0 < bitLen h := by
  unfold bitLen
  rw [if_neg (by omega)]
  exact ⟨by simpa using Nat.log2_self_le (by omega), by simpa using Nat.lt_log2_self, by omega⟩

/-- the even shift count of mpn_sqrtrem normalises the high limb: `B/4 ≤ high·2^(2c) < B`. -/
theorem clz_half_norm (h : Nat) (hp : 0 < h) (hB : h < B) :
    2 ^ 62 ≤ h * 2 ^ (2 * (clz h / 2)) ∧ h * 2 ^ (2 * (clz h / 2)) < 2 ^ 64 ∧ clz h / 2 ≤ 31 ∧
    (h + 1) * 2 ^ (2 * (clz h / 2)) ≤ 2 ^ 64 := by
  obtain ⟨h1, h2, h3⟩ := bitLen_spec h hp
  have hL : bitLen h ≤ 64 := by
    by_contra hc
    have : 2 ^ 64 ≤ 2 ^ (bitLen h - 1) := Nat.pow_le_pow_right (by norm_num) (by omega)
    unfold B at hB; omega
  unfold clz
  generalize bitLen h = L at *
  set c := (64 - L) / 2 with hc
  refine ⟨?_, ?_, by omega, ?_⟩
  · calc 2 ^ 62 ≤ 2 ^ (L - 1 + 2 * c) := Nat.pow_le_pow_right (by norm_num) (by omega)
      _ = 2 ^ (L - 1) * 2 ^ (2 * c) := by rw [pow_add]
      _ ≤ h * 2 ^ (2 * c) := Nat.mul_le_mul_right _ h1
  · calc h * 2 ^ (2 * c) < 2 ^ L * 2 ^ (2 * c) := Nat.mul_lt_mul_of_pos_right h2 (by positivity)
      _ = 2 ^ (L + 2 * c) := by rw [pow_add]
      _ ≤ 2 ^ 64 := Nat.pow_le_pow_right (by norm_num) (by omega)
  · calc (h + 1) * 2 ^ (2 * c) ≤ 2 ^ L * 2 ^ (2 * c) := Nat.mul_le_mul_right _ h2
      _ = 2 ^ (L + 2 * c) := by rw [pow_add]
      _ ≤ 2 ^ 64 := Nat.pow_le_pow_right (by norm_num) (by omega)

/-- the contract of mpn_dc_sqrtrem on a normalised operand `B^(2n)/4 ≤ N < B^(2n)`. -/
def DcSpec : Prop := ∀ n N, 0 < n → B ^ (2 * n) ≤ 4 * N → N < B ^ (2 * n) →
  (dcSqrtrem n N).1 * (dcSqrtrem n N).1 + (dcSqrtrem n N).2 = N ∧ (dcSqrtrem n N).2 ≤ 2 * (dcSqrtrem n N).1

theorem sqrtremVal_norm (u nn high : Nat) (hnn : 0 < nn) (hu1 : high * B ^ (nn - 1) ≤ u)
    (hu2 : u < (high + 1) * B ^ (nn - 1)) (hp : 0 < high) (hB : high < B)
    (hbr : ¬(nn = 1 ∧ high ≥ B / 2)) (hdc : DcSpec) :
    sqrtremVal u nn high = (Nat.sqrt u, u - Nat.sqrt u * Nat.sqrt u) := by
  obtain ⟨c1, c2, c3, c4⟩ := clz_half_norm high hp hB
  unfold sqrtremVal
  rw [if_neg hbr]
  dsimp only
  generalize hc : clz high / 2 = c at *
  have hBpow : ∀ m, B ^ m = 2 ^ (64 * m) := fun m => by unfold B; rw [pow_mul]
  have hBm : 0 < B ^ (nn - 1) := pow_pos B_pos _
  by_cases hcase : nn % 2 ≠ 0 ∨ c > 0
  · rw [if_pos hcase]
    -- the normalised operand and its shape u·2^(2k)
    set tn := (nn + 1) / 2 with htn
    set k := c + nn % 2 * 64 / 2 with hk
    have hk63 : k ≤ 63 := by have := Nat.mod_lt nn (by norm_num : 0 < 2); omega
    have hT : (u <<< (2 * c)) * B ^ (2 * tn - nn) = u * 2 ^ (2 * k) := by
      rw [Nat.shiftLeft_eq, hBpow, Nat.mul_assoc, ← pow_add]
      congr 2; omega
    have hTn : B ^ (2 * tn) = 2 ^ (2 * k) * (2 ^ (64 - 2 * c) * B ^ (nn - 1)) := by
      rw [hBpow, hBpow, ← pow_add, ← pow_add]; congr 1; omega
    have h64 : (2:Nat) ^ 64 = 2 ^ (2 * c) * 2 ^ (64 - 2 * c) := by rw [← pow_add]; congr 1; omega
    have hpc : 0 < 2 ^ (2 * c) := by positivity
    have hlo : 2 ^ (64 - 2 * c) ≤ 4 * high := by
      have : 2 ^ (2 * c) * 2 ^ (64 - 2 * c) ≤ 2 ^ (2 * c) * (4 * high) := by rw [← h64]; nlinarith
      exact Nat.le_of_mul_le_mul_left this hpc
    have hhi : high + 1 ≤ 2 ^ (64 - 2 * c) := by
      have : 2 ^ (2 * c) * (high + 1) ≤ 2 ^ (2 * c) * 2 ^ (64 - 2 * c) := by rw [← h64]; nlinarith
      exact Nat.le_of_mul_le_mul_left this hpc
    rw [hT]
    have hN1 : B ^ (2 * tn) ≤ 4 * (u * 2 ^ (2 * k)) := by
      rw [hTn]
      have : 2 ^ (64 - 2 * c) * B ^ (nn - 1) ≤ 4 * u := by nlinarith
      nlinarith [Nat.mul_le_mul_left (2 ^ (2 * k)) this]
    have hN2 : u * 2 ^ (2 * k) < B ^ (2 * tn) := by
      rw [hTn]
      have : u < 2 ^ (64 - 2 * c) * B ^ (nn - 1) := by nlinarith
      nlinarith [Nat.mul_lt_mul_of_pos_left this (by positivity : 0 < 2 ^ (2 * k))]
    obtain ⟨e1, e2⟩ := hdc tn (u * 2 ^ (2 * k)) (by omega) hN1 hN2
    generalize dcSqrtrem tn (u * 2 ^ (2 * k)) = res at *
    obtain ⟨S, R⟩ := res
    simp only at e1 e2 ⊢
    rw [and_mask _ _ hk63, Nat.shiftRight_eq_div_pow, Nat.shiftRight_eq_div_pow]
    obtain ⟨d1, d2⟩ := denorm u k S R e1 e2
    rw [d1, d2]
  · rw [if_neg hcase]
    have hc0 : c = 0 := by omega
    have hev : nn % 2 = 0 := by omega
    subst hc0
    simp only [Nat.mul_zero, pow_zero, Nat.mul_one] at c1 c4
    have hnn2 : 2 * ((nn + 1) / 2) = (nn - 1) + 1 := by omega
    have hBn : B ^ (2 * ((nn + 1) / 2)) = B * B ^ (nn - 1) := by rw [hnn2, pow_succ]; ring
    have hB64 : B = 2 ^ 64 := rfl
    have g1 : B ^ (2 * ((nn + 1) / 2)) ≤ 4 * u := by
      rw [hBn]; generalize B ^ (nn - 1) = P at *; rw [hB64]
      nlinarith [Nat.mul_le_mul_right P c1]
    have g2 : u < B ^ (2 * ((nn + 1) / 2)) := by
      rw [hBn]; generalize B ^ (nn - 1) = P at *; rw [hB64]
      nlinarith [Nat.mul_le_mul_right P c4]
    obtain ⟨e1, e2⟩ := hdc ((nn + 1) / 2) u (by omega) g1 g2
    generalize dcSqrtrem ((nn + 1) / 2) u = res at *
    obtain ⟨S, R⟩ := res
    simp only at e1 e2
    obtain ⟨d1, d2⟩ := sqrt_of_rem e1 e2
    rw [← d1] at d2 ⊢; rw [← d2]


/-! ### iroot, mpz_root & co -/


theorem irootGo_spec (n u : Nat) : ∀ (i t : Nat), t ^ n ≤ u → u < (t + 2 ^ i) ^ n →
    (irootGo n u i t) ^ n ≤ u ∧ u < (irootGo n u i t + 1) ^ n
  | 0, t, h1, h2 => by simpa [irootGo] using ⟨h1, h2⟩
  | i + 1, t, h1, h2 => by
    unfold irootGo
    split
    · next h => exact irootGo_spec n u i _ h (by rw [Nat.add_assoc, ← Nat.two_mul, ← pow_succ']; exact h2)
    · next h => exact irootGo_spec n u i _ h1 (Nat.lt_of_not_le h)

/-- the specification function is the floor n-th root. -/
theorem iroot_spec (n u : Nat) (hn : 0 < n) : (iroot n u) ^ n ≤ u ∧ u < (iroot n u + 1) ^ n := by
  unfold iroot
  split
  · next h =>
    split
    · next h0 => subst h0; simp [Nat.ne_of_gt hn]
    · next h0 =>
      refine ⟨by simp; omega, ?_⟩
      calc u < 2 ^ (u.log2 + 1) := Nat.lt_log2_self
        _ ≤ 2 ^ n := Nat.pow_le_pow_right (by norm_num) h
        _ = (1 + 1) ^ n := by norm_num
  · apply irootGo_spec
    · simp [Nat.ne_of_gt hn]
    · rw [Nat.zero_add, ← pow_mul]
      calc u < 2 ^ (u.log2 + 1) := Nat.lt_log2_self
        _ ≤ 2 ^ ((u.log2 / n + 1) * n) := by
            apply Nat.pow_le_pow_right (by norm_num)
            have := Nat.div_add_mod u.log2 n
            have := Nat.mod_lt u.log2 hn
            nlinarith

theorem iroot_unique (n u t : Nat) (hn : 0 < n) (h1 : t ^ n ≤ u) (h2 : u < (t + 1) ^ n) : t = iroot n u := by
  obtain ⟨s1, s2⟩ := iroot_spec n u hn
  rcases Nat.lt_trichotomy t (iroot n u) with h | h | h
  · exact absurd (Nat.lt_of_lt_of_le h2 (Nat.le_trans (Nat.pow_le_pow_left h n) s1)) (Nat.lt_irrefl _)
  · exact h
  · exact absurd (Nat.lt_of_lt_of_le s2 (Nat.le_trans (Nat.pow_le_pow_left h n) h1)) (Nat.lt_irrefl _)

theorem iroot_one (u : Nat) : iroot 1 u = u := (iroot_unique 1 u u (by norm_num) (by simp) (by simp)).symm

theorem iroot_two (u : Nat) : iroot 2 u = Nat.sqrt u :=
  (iroot_unique 2 u _ (by norm_num) (by rw [pow_two]; exact Nat.sqrt_le u)
    (by rw [pow_two]; exact Nat.lt_succ_sqrt u)).symm

theorem irootFast_eq (n u : Nat) : irootFast n u = iroot n u := by
  unfold irootFast
  split
  · next h => subst h; exact (iroot_one u).symm
  · split
    · next h => subst h; exact (iroot_two u).symm
    · rfl

theorem iroot_zero (n : Nat) (hn : 0 < n) : iroot n 0 = 0 := by
  have := (iroot_spec n 0 hn).1
  exact (Nat.pow_eq_zero.mp (Nat.le_zero.mp this)).1

theorem powS_eq (t n : Nat) : powS t n = t ^ n := by
  unfold powS
  split
  · next h => subst h; simp
  · next h =>
    split
    · next h1 =>
      have : t = 0 ∨ t = 1 := by omega
      rcases this with rfl | rfl <;> simp [h]
    · rfl


/-- the contract of mpn_rootrem ({up, un}, k) for `k ≥ 2` on a normalised operand: truncated root; the
    second component is zero exactly for perfect k-th powers, and is the remainder when `remp ≠ NULL`. -/
def RootremSpec : Prop := ∀ a k w, 0 < a → 2 ≤ k →
  (rootrem a (limbCount a) k w).1 = iroot k a ∧
  ((rootrem a (limbCount a) k w).2 = 0 ↔ (iroot k a) ^ k = a) ∧
  (w = true → (rootrem a (limbCount a) k w).2 = a - (iroot k a) ^ k)

/-- mpz/root.c, nthroot.c, rootrem.c common part: the two exceptions. -/
theorem mpzRootCore_exc (u : Int) (n : Nat) (w : Bool) :
    (u < 0 ∧ n % 2 = 0 → mpzRootCore u n w = .error "sqrtneg") ∧
    (¬(u < 0 ∧ n % 2 = 0) → n = 0 → mpzRootCore u n w = .error "div0") := by
  unfold mpzRootCore
  constructor
  · intro h; rw [if_pos h]
  · intro h h0; rw [if_neg h, if_pos h0]

/-- mpz/root.c, nthroot.c, rootrem.c common part: zero, n = 1, sign of root and remainder, flag. -/
theorem mpzRootCore_ok (u : Int) (n : Nat) (w : Bool) (hrr : RootremSpec)
    (h1 : ¬(u < 0 ∧ n % 2 = 0)) (h2 : n ≠ 0) :
    ∃ rem : Int, mpzRootCore u n w =
        .ok (u.sign * (iroot n u.natAbs : Nat), rem, decide ((iroot n u.natAbs) ^ n = u.natAbs)) ∧
      (w = true → rem = u.sign * ((u.natAbs - (iroot n u.natAbs) ^ n : Nat) : Int)) := by
  unfold mpzRootCore
  have hn : 0 < n := Nat.pos_of_ne_zero h2
  rw [if_neg h1, if_neg h2]
  by_cases h3 : u = 0
  · subst h3
    exact ⟨0, by simp [iroot_zero n hn, h2], by simp⟩
  · have ha : 0 < u.natAbs := Int.natAbs_pos.mpr h3
    have hsg : (if u < 0 then (-1 : Int) else 1) = u.sign := by
      rcases lt_trichotomy u 0 with h | h | h
      · simp [h, Int.sign_eq_neg_one_of_neg h]
      · exact absurd h h3
      · simp [not_lt.mpr (le_of_lt h), Int.sign_eq_one_of_pos h]
    rw [if_neg h3]
    dsimp only
    by_cases h4 : n = 1
    · subst h4
      exact ⟨0, by simp [hsg, iroot_one], by simp [iroot_one]⟩
    · obtain ⟨r1, r2, r3⟩ := hrr u.natAbs n w ha (by omega)
      rw [if_neg h4]
      generalize rootrem u.natAbs (limbCount u.natAbs) n w = res at *
      obtain ⟨root, rem⟩ := res
      simp only at r1 r2 r3
      subst r1
      have hb : (rem == 0) = decide (iroot n u.natAbs ^ n = u.natAbs) := by
        by_cases h5 : rem = 0
        · simp [h5, r2.mp h5]
        · have h6 : ¬ iroot n u.natAbs ^ n = u.natAbs := fun h => h5 (r2.mpr h)
          simp [h5, h6]
      refine ⟨u.sign * (rem : Int), ?_, fun hw => by rw [r3 hw]⟩
      show Except.ok ((if u < 0 then (-1 : Int) else 1) * ((iroot n u.natAbs : Nat) : Int),
        (if u < 0 then (-1 : Int) else 1) * (rem : Int), rem == 0) = _
      rw [hsg, hb]



/-! ### Zimmermann's step, mpn_sqrtrem1 -/


/-- Zimmermann's step (one level of the Karatsuba square root; also one pass of the loop of
    mpn_sqrtrem1 with β = 2^prec): from `N = s² + r`, `r ≤ 2s`, `β ≤ 2s` and two more base-β digits
    `a1, a0` to the root and remainder of `N·β² + a1·β + a0`, with at most one correction. -/
theorem zstep (β s r a1 a0 q u s' : Nat) (hs : β ≤ 2 * s) (hr : r ≤ 2 * s) (h1 : a1 < β) (h0 : a0 < β)
    (hdm : 2 * s * q + u = r * β + a1) (hu : u < 2 * s) (hs' : s' = s * β + q) :
    q ≤ β ∧
    (q * q ≤ u * β + a0 →
      s' * s' + (u * β + a0 - q * q) = (s * s + r) * (β * β) + a1 * β + a0 ∧ u * β + a0 - q * q ≤ 2 * s') ∧
    (u * β + a0 < q * q →
      1 ≤ s' ∧ q * q ≤ u * β + a0 + (2 * s' - 1) ∧
      (s' - 1) * (s' - 1) + (u * β + a0 + (2 * s' - 1) - q * q) = (s * s + r) * (β * β) + a1 * β + a0 ∧
      u * β + a0 + (2 * s' - 1) - q * q ≤ 2 * (s' - 1)) := by
  have hβ : 0 < β := by omega
  have hq : q ≤ β := by
    by_contra hc
    have : β + 1 ≤ q := by omega
    have : 2 * s * (β + 1) ≤ 2 * s * q := Nat.mul_le_mul_left _ this
    nlinarith
  have hN : s' * s' + (u * β + a0) = (s * s + r) * (β * β) + a1 * β + a0 + q * q := by
    rw [hs']
    have : β * (2 * s * q + u) = β * (r * β + a1) := by rw [hdm]
    nlinarith
  have hub : u * β + a0 < 2 * s * β := by nlinarith
  refine ⟨hq, fun hc => ⟨by omega, ?_⟩, fun hc => ?_⟩
  · have : 2 * s * β ≤ 2 * s' := by rw [hs']; nlinarith
    omega
  · have hq1 : 1 ≤ q := by
      by_contra h; have : q = 0 := by omega
      rw [this] at hc; omega
    have hs1 : 1 ≤ s' := by rw [hs']; omega
    have hqq : q * q ≤ 2 * s * β := by nlinarith
    have h2s : 2 * s * β + 2 * q = 2 * s' := by rw [hs']; ring
    refine ⟨hs1, by omega, ?_, by omega⟩
    obtain ⟨m, hm⟩ : ∃ m, s' = m + 1 := ⟨s' - 1, by omega⟩
    rw [hm] at hN ⊢
    simp only [Nat.add_sub_cancel]
    have : (m + 1) * (m + 1) = m * m + 2 * m + 1 := by ring
    rw [this] at hN
    have e : 2 * (m + 1) - 1 = 2 * m + 1 := by omega
    rw [e]
    omega




theorem step8 (s r np0 : Nat) (hnp : np0 < B) (hr : r ≤ 2 * s) (hs1 : 128 ≤ s) (hs2 : s < 256) :
    ∃ s' r', sqrtrem1Step 8 (s, r, np0) = (s', r', (np0 * 65536) % B) ∧
      s' * s' + r' = (s * s + r) * 65536 + np0 / 281474976710656 ∧ r' ≤ 2 * s' := by
  have hs3 : 0 < 2 * s := by omega
  obtain ⟨q, u, hdm, hu, hq⟩ : ∃ q u, 2 * s * q + u = r * 256 + np0 / 72057594037927936 ∧ u < 2 * s ∧
      (r * 256 + np0 / 72057594037927936) / (2 * s) = q :=
    ⟨_, _, Nat.div_add_mod _ _, Nat.mod_lt _ hs3, rfl⟩
  obtain ⟨hqb, hA, hC⟩ := zstep 256 s r (np0 / 72057594037927936) (np0 * 256 % B / 72057594037927936) q u (s * 256 + q)
    (by omega) hr (by simp only [B_eq] at hnp; omega) (by simp only [B_eq]; omega) hdm hu rfl
  have hqq : q * q ≤ 65536 := by nlinarith
  have hcomm : q * (2 * s) = 2 * s * q := Nat.mul_comm _ _
  have hN : (s * s + r) * (256 * 256) + np0 / 72057594037927936 * 256 + np0 * 256 % B / 72057594037927936
      = (s * s + r) * 65536 + np0 / 281474976710656 := by
    generalize s * s + r = N
    simp only [B_eq] at *; omega
  have e1 : (wshl r 8 + np0 >>> 56) % B = r * 256 + np0 / 72057594037927936 := by
    unfold wshl; simp only [Nat.shiftLeft_eq, Nat.shiftRight_eq_div_pow, B_eq] at *; omega
  have e3 : (2 * s) % B = 2 * s := by simp only [B_eq]; omega
  have e4 : wsub (r * 256 + np0 / 72057594037927936) ((q * (2 * s)) % B) = u := by
    unfold wsub; simp only [B_eq] at *; omega
  have e5 : (wshl s 8 + q) % B = s * 256 + q := by
    unfold wshl; simp only [Nat.shiftLeft_eq, B_eq] at *; omega
  have e6 : (wshl u 8 + wshl np0 8 >>> 56) % B = u * 256 + np0 * 256 % B / 72057594037927936 := by
    unfold wshl; simp only [Nat.shiftLeft_eq, Nat.shiftRight_eq_div_pow, B_eq] at *; omega
  have e7 : (q * q) % B = q * q := by simp only [B_eq]; omega
  have e9 : wshl (wshl np0 8) 8 = np0 * 65536 % B := by
    unfold wshl; simp only [Nat.shiftLeft_eq, B_eq] at *; omega
  unfold sqrtrem1Step
  dsimp only
  rw [e1, e3, hq, e4, e5, e6, e7, e9]
  by_cases hc : u * 256 + np0 * 256 % B / 72057594037927936 < q * q
  · obtain ⟨c1, c2, c3, c4⟩ := hC hc
    rw [if_pos hc]
    have f1 : wsub (s * 256 + q) 1 = s * 256 + q - 1 := by
      unfold wsub; simp only [B_eq] at *; omega
    have f2 : (wsub (u * 256 + np0 * 256 % B / 72057594037927936) (q * q) + wsub (2 * (s * 256 + q) % B) 1) % B
        = u * 256 + np0 * 256 % B / 72057594037927936 + (2 * (s * 256 + q) - 1) - q * q := by
      unfold wsub; simp only [B_eq] at *; omega
    refine ⟨_, _, rfl, ?_, ?_⟩
    · dsimp only; rw [f1, f2, c3, hN]
    · dsimp only; rw [f1, f2]; exact c4
  · obtain ⟨c1, c2⟩ := hA (Nat.le_of_not_lt hc)
    rw [if_neg hc]
    have f2 : wsub (u * 256 + np0 * 256 % B / 72057594037927936) (q * q)
        = u * 256 + np0 * 256 % B / 72057594037927936 - q * q := by
      unfold wsub; simp only [B_eq] at *; omega
    refine ⟨_, _, rfl, ?_, ?_⟩
    · dsimp only; rw [f2, c1, hN]
    · dsimp only; rw [f2]; exact c2

theorem step16 (s r np0 : Nat) (hnp : np0 < B) (hr : r ≤ 2 * s) (hs1 : 32768 ≤ s) (hs2 : s < 65536) :
    ∃ s' r', sqrtrem1Step 16 (s, r, np0) = (s', r', (np0 * 4294967296) % B) ∧
      s' * s' + r' = (s * s + r) * 4294967296 + np0 / 4294967296 ∧ r' ≤ 2 * s' := by
  have hs3 : 0 < 2 * s := by omega
  obtain ⟨q, u, hdm, hu, hq⟩ : ∃ q u, 2 * s * q + u = r * 65536 + np0 / 281474976710656 ∧ u < 2 * s ∧
      (r * 65536 + np0 / 281474976710656) / (2 * s) = q :=
    ⟨_, _, Nat.div_add_mod _ _, Nat.mod_lt _ hs3, rfl⟩
  obtain ⟨hqb, hA, hC⟩ := zstep 65536 s r (np0 / 281474976710656) (np0 * 65536 % B / 281474976710656) q u (s * 65536 + q)
    (by omega) hr (by simp only [B_eq] at hnp; omega) (by simp only [B_eq]; omega) hdm hu rfl
  have hqq : q * q ≤ 4294967296 := by nlinarith
  have hcomm : q * (2 * s) = 2 * s * q := Nat.mul_comm _ _
  have hN : (s * s + r) * (65536 * 65536) + np0 / 281474976710656 * 65536 + np0 * 65536 % B / 281474976710656
      = (s * s + r) * 4294967296 + np0 / 4294967296 := by
    generalize s * s + r = N
    simp only [B_eq] at *; omega
  have e1 : (wshl r 16 + np0 >>> 48) % B = r * 65536 + np0 / 281474976710656 := by
    unfold wshl; simp only [Nat.shiftLeft_eq, Nat.shiftRight_eq_div_pow, B_eq] at *; omega
  have e3 : (2 * s) % B = 2 * s := by simp only [B_eq]; omega
  have e4 : wsub (r * 65536 + np0 / 281474976710656) ((q * (2 * s)) % B) = u := by
    unfold wsub; simp only [B_eq] at *; omega
  have e5 : (wshl s 16 + q) % B = s * 65536 + q := by
    unfold wshl; simp only [Nat.shiftLeft_eq, B_eq] at *; omega
  have e6 : (wshl u 16 + wshl np0 16 >>> 48) % B = u * 65536 + np0 * 65536 % B / 281474976710656 := by
    unfold wshl; simp only [Nat.shiftLeft_eq, Nat.shiftRight_eq_div_pow, B_eq] at *; omega
  have e7 : (q * q) % B = q * q := by simp only [B_eq]; omega
  have e9 : wshl (wshl np0 16) 16 = np0 * 4294967296 % B := by
    unfold wshl; simp only [Nat.shiftLeft_eq, B_eq] at *; omega
  unfold sqrtrem1Step
  dsimp only
  rw [e1, e3, hq, e4, e5, e6, e7, e9]
  by_cases hc : u * 65536 + np0 * 65536 % B / 281474976710656 < q * q
  · obtain ⟨c1, c2, c3, c4⟩ := hC hc
    rw [if_pos hc]
    have f1 : wsub (s * 65536 + q) 1 = s * 65536 + q - 1 := by
      unfold wsub; simp only [B_eq] at *; omega
    have f2 : (wsub (u * 65536 + np0 * 65536 % B / 281474976710656) (q * q) + wsub (2 * (s * 65536 + q) % B) 1) % B
        = u * 65536 + np0 * 65536 % B / 281474976710656 + (2 * (s * 65536 + q) - 1) - q * q := by
      unfold wsub; simp only [B_eq] at *; omega
    refine ⟨_, _, rfl, ?_, ?_⟩
    · dsimp only; rw [f1, f2, c3, hN]
    · dsimp only; rw [f1, f2]; exact c4
  · obtain ⟨c1, c2⟩ := hA (Nat.le_of_not_lt hc)
    rw [if_neg hc]
    have f2 : wsub (u * 65536 + np0 * 65536 % B / 281474976710656) (q * q)
        = u * 65536 + np0 * 65536 % B / 281474976710656 - q * q := by
      unfold wsub; simp only [B_eq] at *; omega
    refine ⟨_, _, rfl, ?_, ?_⟩
    · dsimp only; rw [f2, c1, hN]
    · dsimp only; rw [f2]; exact c2



/-- kernel-checked fact about the regenerated `approx_tab`: entry `i` is `⌊√(256·(i+64))⌋`, in [128, 255]. -/
theorem approxTab_ok : ∀ i < 192, 128 ≤ approxTab.getD i 0 ∧ approxTab.getD i 0 ≤ 255 ∧
    approxTab.getD i 0 * approxTab.getD i 0 ≤ 256 * (i + 64) ∧
    256 * (i + 64) < (approxTab.getD i 0 + 1) * (approxTab.getD i 0 + 1) := by decide +kernel

theorem approxTabBase_eq : approxTabBase = 64 := by decide

/-- the table seed plus the first correction is the exact 8-bit root of the top 16 bits. -/
theorem seed_spec (a : Nat) (h1 : B / 4 ≤ a) (h2 : a < B) :
    (sqrtrem1Seed a).1 * (sqrtrem1Seed a).1 + (sqrtrem1Seed a).2 = a / 281474976710656 ∧
    (sqrtrem1Seed a).2 ≤ 2 * (sqrtrem1Seed a).1 ∧ 128 ≤ (sqrtrem1Seed a).1 ∧ (sqrtrem1Seed a).1 < 256 := by
  have hB := B_eq
  have hq1 : 64 ≤ a / 72057594037927936 := by omega
  have hq2 : a / 72057594037927936 < 256 := by omega
  obtain ⟨t1, t2, t3, t4⟩ := approxTab_ok (a / 72057594037927936 - 64) (by omega)
  unfold sqrtrem1Seed
  simp only [Nat.shiftRight_eq_div_pow, approxTabBase_eq, Nat.reduceSub, Nat.reducePow]
  generalize approxTab.getD (a / 72057594037927936 - 64) 0 = s at *
  have hZ : (s + 1) * (s + 1) = s * s + 2 * s + 1 := by ring
  have e1 : s * s % B = s * s := by rw [hB]; omega
  have e2 : wsub (a / 281474976710656) (s * s) = a / 281474976710656 - s * s := by
    unfold wsub; rw [hB]; omega
  rw [e1, e2]
  by_cases hc : 2 * s < a / 281474976710656 - s * s
  · rw [if_pos hc]
    have e3 : (s + 1) % B = s + 1 := by rw [hB]; omega
    have e4 : wsub (a / 281474976710656 - s * s) ((2 * s + 1) % B) = a / 281474976710656 - s * s - (2 * s + 1) := by
      unfold wsub; rw [hB]; omega
    rw [e3, e4]
    dsimp only
    have hlt : s + 1 < 256 := by
      by_contra hh
      have : 256 * 256 ≤ (s + 1) * (s + 1) := Nat.mul_le_mul (by omega) (by omega)
      omega
    refine ⟨by omega, by omega, by omega, hlt⟩
  · rw [if_neg hc]
    dsimp only
    refine ⟨by omega, by omega, t1, by omega⟩




theorem sqrtrem1Loop_unroll (st : Nat × Nat × Nat) :
    sqrtrem1Loop 6 8 st = sqrtrem1Step 16 (sqrtrem1Step 8 st) := by
  rw [sqrtrem1Loop, if_pos (by norm_num), sqrtrem1Loop, if_pos (by norm_num), sqrtrem1Loop,
    if_neg (by norm_num)]

theorem bitsA (x : Nat) (_hx : x < 18446744073709551616) :
    x / 281474976710656 * 65536 + x * 65536 % 18446744073709551616 / 281474976710656 = x / 4294967296 := by omega
theorem bitsB (x : Nat) (_hx : x < 18446744073709551616) :
    x / 4294967296 * 4294967296 + x * 65536 % 18446744073709551616 * 65536 % 18446744073709551616 / 4294967296 = x := by omega

theorem sq_bounds16 (s r N : Nat) (h : s * s + r = N) (hr : r ≤ 2 * s) (h1 : 1073741824 ≤ N) (h2 : N < 4294967296) :
    32768 ≤ s ∧ s < 65536 := by
  constructor
  · by_contra hh
    have h3 : s + 1 ≤ 32768 := by omega
    have h4 : (s + 1) * (s + 1) ≤ 32768 * (s + 1) := Nat.mul_le_mul_right _ h3
    have h5 : (s + 1) * (s + 1) = s * s + 2 * s + 1 := by ring
    omega
  · by_contra hh
    have h3 : 65536 ≤ s := by omega
    have h4 : 65536 * s ≤ s * s := Nat.mul_le_mul_right _ h3
    omega

/-- mpn_sqrtrem1 on a normalised limb: `s² + r = a`, `r ≤ 2s`. -/
theorem sqrtrem1_sq (a : Nat) (h1 : B / 4 ≤ a) (h2 : a < B) :
    (sqrtrem1 a).1 * (sqrtrem1 a).1 + (sqrtrem1 a).2 = a ∧ (sqrtrem1 a).2 ≤ 2 * (sqrtrem1 a).1 := by
  have hB := B_eq
  obtain ⟨g1, g2, g3, g4⟩ := seed_spec a h1 h2
  unfold sqrtrem1
  dsimp only
  generalize (sqrtrem1Seed a).1 = s0 at *
  generalize (sqrtrem1Seed a).2 = r0 at *
  rw [sqrtrem1Loop_unroll]
  have hnp0 : wshl a 16 = a * 65536 % B := by unfold wshl; rw [Nat.shiftLeft_eq]
  rw [hnp0]
  obtain ⟨s1, r1, e1, i1, b1⟩ := step8 s0 r0 (a * 65536 % B) (Nat.mod_lt _ B_pos) g2 (by omega) (by omega)
  rw [e1]
  have hN1 : (s0 * s0 + r0) * 65536 + a * 65536 % B / 281474976710656 = a / 4294967296 := by
    rw [g1, hB]; exact bitsA a (by omega)
  rw [hN1] at i1
  obtain ⟨hs1a, hs1b⟩ := sq_bounds16 s1 r1 _ i1 b1 (by omega) (by omega)
  obtain ⟨s2, r2, e2, i2, b2⟩ := step16 s1 r1 (a * 65536 % B * 65536 % B) (Nat.mod_lt _ B_pos) b1 (by omega) (by omega)
  rw [e2]
  unfold sqrtrem1Out
  dsimp only
  have hN2 : (s1 * s1 + r1) * 4294967296 + a * 65536 % B * 65536 % B / 4294967296 = a := by
    rw [i1, hB]; exact bitsB a (by omega)
  rw [hN2] at i2
  exact ⟨i2, b2⟩



/-! ### mpn_dc_sqrtrem -/


/-- the contract of mpn_sqrtrem2 on a normalised two-limb operand: `{np0, np1} = sp0² + cc·B + rp0`,
    `0 ≤ cc`, remainder at most `2·sp0`. -/
def Sqrtrem2Spec : Prop := ∀ np0 np1, np0 < B → B / 4 ≤ np1 → np1 < B →
  (sqrtrem2 np0 np1).1 * (sqrtrem2 np0 np1).1 +
      ((sqrtrem2 np0 np1).2.2 * (B : Int) + ((sqrtrem2 np0 np1).2.1 : Int)).toNat = np1 * B + np0 ∧
  ((sqrtrem2 np0 np1).2.2 * (B : Int) + ((sqrtrem2 np0 np1).2.1 : Int)).toNat ≤ 2 * (sqrtrem2 np0 np1).1

theorem dcBase_spec (h2 : Sqrtrem2Spec) (N : Nat) (hN1 : B ^ 2 ≤ 4 * N) (hN2 : N < B ^ 2) :
    (dcBase N).1 * (dcBase N).1 + (dcBase N).2 = N ∧ (dcBase N).2 ≤ 2 * (dcBase N).1 := by
  have hB := B_eq
  rw [pow_two] at hN1 hN2
  have hb : N / B < B := Nat.div_lt_of_lt_mul hN2
  have hnp1 : N / B % B = N / B := Nat.mod_eq_of_lt hb
  have hlo : B / 4 ≤ N / B := by
    rw [Nat.le_div_iff_mul_le B_pos]
    have : B / 4 * 4 = B := by rw [hB]
    nlinarith
  obtain ⟨c1, c2⟩ := h2 (N % B) (N / B % B) (Nat.mod_lt _ B_pos) (by rw [hnp1]; exact hlo)
    (by rw [hnp1]; exact hb)
  unfold dcBase
  dsimp only
  generalize sqrtrem2 (N % B) (N / B % B) = res at *
  obtain ⟨s, r, cc⟩ := res
  dsimp only at c1 c2 ⊢
  unfold dcBaseOut
  dsimp only
  refine ⟨?_, c2⟩
  rw [c1, hnp1, Nat.mul_comm]; exact Nat.div_add_mod N B

/-- Zimmermann's combination step at value level. -/
theorem dcCombine_spec (l N s1 r1 : Nat) (hs : B ^ l ≤ 2 * s1) (hr : r1 ≤ 2 * s1)
    (hi : s1 * s1 + r1 = N / (B ^ l * B ^ l)) :
    (dcCombine l N (s1, r1)).1 * (dcCombine l N (s1, r1)).1 + (dcCombine l N (s1, r1)).2 = N ∧
    (dcCombine l N (s1, r1)).2 ≤ 2 * (dcCombine l N (s1, r1)).1 := by
  have hβ : 0 < B ^ l := pow_pos B_pos _
  unfold dcCombine
  dsimp only
  generalize B ^ l = β at *
  have hs0 : 0 < s1 := by omega
  -- the two low digits
  have ha1 : N / β % β < β := Nat.mod_lt _ hβ
  have ha0 : N % β < β := Nat.mod_lt _ hβ
  have hNdec : N = N / (β * β) * (β * β) + N / β % β * β + N % β := by
    have e1 := Nat.div_add_mod N β
    have e2 := Nat.div_add_mod (N / β) β
    rw [Nat.div_div_eq_div_mul] at e2
    nlinarith
  -- quotient by s1, parity bit, halving
  have hdm := Nat.div_add_mod (r1 * β + N / β % β) s1
  have hus := Nat.mod_lt (r1 * β + N / β % β) hs0
  have hc := Nat.div_add_mod ((r1 * β + N / β % β) / s1) 2
  have hc2 := Nat.mod_lt ((r1 * β + N / β % β) / s1) (by norm_num : 0 < 2)
  generalize (r1 * β + N / β % β) / s1 = qs at *
  generalize (r1 * β + N / β % β) % s1 = us at *
  generalize hqd : qs / 2 = q at *
  generalize hcd : qs % 2 = c at *
  obtain ⟨u, hu⟩ : ∃ u, (if c ≠ 0 then us + s1 else us) = u := ⟨_, rfl⟩
  rw [hu]
  have hu1 : 2 * s1 * q + u = r1 * β + N / β % β := by
    have : c = 0 ∨ c = 1 := by omega
    rcases this with rfl | rfl
    · simp at hu; subst hu; nlinarith
    · simp at hu; subst hu; nlinarith
  have hu2 : u < 2 * s1 := by
    have : c = 0 ∨ c = 1 := by omega
    rcases this with rfl | rfl
    · simp at hu; omega
    · simp at hu; omega
  obtain ⟨hq, hA, hC⟩ := zstep β s1 r1 (N / β % β) (N % β) q u (s1 * β + q) hs hr ha1 ha0 hu1 hu2 rfl
  rw [hi, ← hNdec] at hA hC
  by_cases hneg : u * β + N % β < q * q
  · obtain ⟨c1, c2, c3, c4⟩ := hC hneg
    have hlt : ((u * β + N % β : Nat) : Int) - ((q * q : Nat) : Int) < 0 := by omega
    rw [if_pos hlt]
    dsimp only
    have e : (((u * β + N % β : Nat) : Int) - ((q * q : Nat) : Int) + 2 * ((s1 * β + q : Nat) : Int) - 1).toNat
        = u * β + N % β + (2 * (s1 * β + q) - 1) - q * q := by omega
    rw [e]
    exact ⟨c3, c4⟩
  · obtain ⟨c1, c2⟩ := hA (Nat.le_of_not_lt hneg)
    have hge : ¬ ((u * β + N % β : Nat) : Int) - ((q * q : Nat) : Int) < 0 := by omega
    rw [if_neg hge]
    dsimp only
    have e : (((u * β + N % β : Nat) : Int) - ((q * q : Nat) : Int)).toNat = u * β + N % β - q * q := by omega
    rw [e]
    exact ⟨c1, c2⟩


theorem dcSqrtremF_spec (h2 : Sqrtrem2Spec) : ∀ (fuel n N : Nat), 0 < n → n ≤ fuel →
    B ^ (2 * n) ≤ 4 * N → N < B ^ (2 * n) →
    (dcSqrtremF fuel n N).1 * (dcSqrtremF fuel n N).1 + (dcSqrtremF fuel n N).2 = N ∧
    (dcSqrtremF fuel n N).2 ≤ 2 * (dcSqrtremF fuel n N).1
  | 0, n, N, hn, hf, _, _ => by omega
  | fuel + 1, n, N, hn, hf, hN1, hN2 => by
    rw [dcSqrtremF, if_neg (by omega)]
    by_cases h1 : n = 1
    · subst h1
      rw [if_pos rfl]
      exact dcBase_spec h2 N (by simpa using hN1) (by simpa using hN2)
    · rw [if_neg h1]
      have hl : 0 < n / 2 := by omega
      have hh : n / 2 ≤ n - n / 2 := by omega
      have hsum : 2 * n = 2 * (n / 2) + 2 * (n - n / 2) := by omega
      have hX : 0 < B ^ (2 * (n / 2)) := pow_pos B_pos _
      have hXl : B ^ (2 * (n / 2)) = B ^ (n / 2) * B ^ (n / 2) := by rw [← pow_add]; congr 1; omega
      rw [hsum, pow_add] at hN1 hN2
      -- B^(2h) = 4·H², B^h = 2·H
      obtain ⟨H, hH⟩ : ∃ H, B ^ (n - n / 2) = 2 * H := by
        obtain ⟨m, hm⟩ : ∃ m, n - n / 2 = m + 1 := ⟨n - n / 2 - 1, by omega⟩
        exact ⟨B ^ m * 2 ^ 63, by rw [hm, pow_succ]; unfold B; ring⟩
      have hY : B ^ (2 * (n - n / 2)) = 4 * (H * H) := by
        rw [Nat.mul_comm 2, pow_mul, hH]; ring
      have hBl : B ^ (n / 2) ≤ B ^ (n - n / 2) := Nat.pow_le_pow_right B_pos hh
      rw [hY] at hN1 hN2
      generalize hNh : N / B ^ (2 * (n / 2)) = Nh at *
      have hNh2 : Nh < 4 * (H * H) := by
        rw [← hNh]; exact Nat.div_lt_of_lt_mul hN2
      have hNh1 : H * H ≤ Nh := by
        rw [← hNh, Nat.le_div_iff_mul_le hX]; nlinarith
      obtain ⟨i1, i2⟩ := dcSqrtremF_spec h2 fuel (n - n / 2) Nh (by omega) (by omega)
        (by rw [hY]; omega) (by rw [hY]; exact hNh2)
      generalize dcSqrtremF fuel (n - n / 2) Nh = hi at *
      obtain ⟨s1, r1⟩ := hi
      simp only at i1 i2
      have hs1 : H ≤ s1 := by
        by_contra hc
        have h3 : s1 + 1 ≤ H := by omega
        have h4 : (s1 + 1) * (s1 + 1) ≤ H * H := Nat.mul_le_mul h3 h3
        have h5 : (s1 + 1) * (s1 + 1) = s1 * s1 + 2 * s1 + 1 := by ring
        omega
      exact dcCombine_spec (n / 2) N s1 r1 (by omega) i2 (by rw [← hXl, ← hNh] at *; exact i1)

/-- mpn_dc_sqrtrem is correct on normalised operands, given the contract of its base case mpn_sqrtrem2. -/
theorem dcSpec_of_sqrtrem2 (h2 : Sqrtrem2Spec) : DcSpec := by
  intro n N hn h1 hlt
  exact dcSqrtremF_spec h2 n n N hn (Nat.le_refl _) h1 hlt



/-! ### mpn_sqrtrem2 -/


/-- the subtraction loop of mpn_sqrtrem2: with `r ≤ 2s`, `0 < s` it returns `(qhl, r - qhl·s)`, `qhl ≤ 2`. -/
theorem sqrtrem2Sub_spec (s r : Nat) (hs : 0 < s) (hr : r ≤ 2 * s) (hs32 : s < 4294967296) :
    ∃ qhl r', sqrtrem2Sub 4 0 r s = (qhl, r') ∧ qhl ≤ 2 ∧ r = qhl * s + r' ∧ r' < s ∧
      (qhl = 2 → r' = 0) := by
  have hB := B_eq
  have hsB : s < B := by omega
  have w : ∀ x, x ≥ s → x < B → wsub x s = x - s := by
    intro x h1 h2; unfold wsub; rw [hB] at *; omega
  by_cases h1 : r ≥ s
  · by_cases h2 : r - s ≥ s
    · refine ⟨2, 0, ?_, by omega, by omega, by omega, by omega⟩
      have : r = 2 * s := by omega
      subst this
      have e1 : wsub (2 * s) s = s := by rw [w _ (by omega) (by rw [hB] at *; omega)]; omega
      have e2 : wsub s s = 0 := by rw [w _ (by omega) hsB]; omega
      simp [sqrtrem2Sub, e1, e2, Nat.not_le.mpr hs]
      omega
    · refine ⟨1, r - s, ?_, by omega, by omega, by omega, by omega⟩
      have e1 : wsub r s = r - s := w _ h1 (by rw [hB] at *; omega)
      simp [sqrtrem2Sub, e1, h1, h2]
  · refine ⟨0, r, ?_, by omega, by omega, by omega, by omega⟩
    simp [sqrtrem2Sub, h1]



theorem boolToNat_decide (p : Prop) [Decidable p] : boolToNat (decide p) = if p then 1 else 0 := by
  by_cases h : p <;> simp [boolToNat, h]

/-- sqrtrem.c:236-240: adding `S` (possibly `S = B`, stored as 0) and then `S − 1` with carries. -/
theorem sqrtrem2AddBack_spec (S rp : Nat) (cc : Int) (V : Nat) (hrp : rp < B) (hS1 : 1 ≤ S) (hS2 : S ≤ B)
    (hval : cc * (B : Int) + (rp : Int) + (2 * S - 1 : Nat) = (V : Int)) :
    ∃ rp' cc', sqrtrem2AddBack (S % B) rp cc = (S - 1, rp', cc') ∧ cc' * (B : Int) + (rp' : Int) = (V : Int) ∧
      rp' < B := by
  have hB := B_eq
  unfold sqrtrem2AddBack
  dsimp only
  have hw : wsub (S % B) 1 = S - 1 := by unfold wsub; rw [B_eq] at *; omega
  rw [hw, boolToNat_decide, boolToNat_decide]
  refine ⟨_, _, rfl, ?_, Nat.mod_lt _ B_pos⟩
  · 
    have : (cc + ((if S % B ≠ 0 then (if rp + S % B ≥ B then 1 else 0) else 1 : Nat) : Int)
        + ((if (if S % B ≠ 0 then (rp + S % B) % B else rp) + (S - 1) ≥ B then 1 else 0 : Nat) : Int)) * (B : Int)
        + ((((if S % B ≠ 0 then (rp + S % B) % B else rp) + (S - 1)) % B : Nat) : Int) = (V : Int) := by
      rw [B_eq] at *
      by_cases h0 : S % 18446744073709551616 ≠ 0
      · rw [if_pos h0, if_pos h0]
        by_cases h1 : rp + S % 18446744073709551616 ≥ 18446744073709551616
        · rw [if_pos h1]
          by_cases h2 : (rp + S % 18446744073709551616) % 18446744073709551616 + (S - 1) ≥ 18446744073709551616
          · rw [if_pos h2]; omega
          · rw [if_neg h2]; omega
        · rw [if_neg h1]
          by_cases h2 : (rp + S % 18446744073709551616) % 18446744073709551616 + (S - 1) ≥ 18446744073709551616
          · rw [if_pos h2]; omega
          · rw [if_neg h2]; omega
      · rw [if_neg h0, if_neg h0]
        by_cases h2 : rp + (S - 1) ≥ 18446744073709551616
        · rw [if_pos h2]; omega
        · rw [if_neg h2]; omega
    exact this


/-- sqrtrem.c:232-241: subtract `q²` (and `qhl·B`) from the two-limb remainder `T = cch·B + rp`, and
    correct once if that went negative. -/
theorem sqrtrem2Fix_spec (S cch rp qq qh T QQ : Nat) (hrp : rp < B) (hqq : qq < B) (hS1 : 1 ≤ S)
    (hS2 : S ≤ B) (hT : cch * B + rp = T) (hQQ : qq + qh * B = QQ) (hA : QQ ≤ T → S < B)
    (hC : T < QQ → QQ ≤ T + (2 * S - 1)) :
    ∃ sp rp' cc', sqrtrem2Fix (S % B) cch rp qq qh = (sp, rp', cc') ∧
      (QQ ≤ T → sp = S ∧ cc' * (B : Int) + (rp' : Int) = ((T - QQ : Nat) : Int)) ∧
      (T < QQ → sp = S - 1 ∧ cc' * (B : Int) + (rp' : Int) = ((T + (2 * S - 1) - QQ : Nat) : Int)) ∧
      rp' < B := by
  have hB := B_eq
  unfold sqrtrem2Fix
  dsimp only
  rw [boolToNat_decide]
  have hrp1 : wsub rp qq < B := by unfold wsub; exact Nat.mod_lt _ B_pos
  have hval : ((cch : Int) - ((if rp < qq then 1 else 0 : Nat) + qh : Nat)) * (B : Int) + (wsub rp qq : Nat)
      = (T : Int) - (QQ : Int) := by
    unfold wsub
    rw [B_eq] at *
    by_cases h : rp < qq
    · rw [if_pos h]; push_cast; omega
    · rw [if_neg h]; push_cast; omega
  generalize (cch : Int) - ((if rp < qq then 1 else 0 : Nat) + qh : Nat) = cc0 at *
  generalize wsub rp qq = rp1 at *
  by_cases hneg : T < QQ
  · have hc : cc0 < 0 := by
      by_contra hc
      have : (0 : Int) ≤ cc0 * (B : Int) := Int.mul_nonneg (by omega) (by rw [hB]; norm_num)
      omega
    rw [if_pos hc]
    have h2 := hC hneg
    obtain ⟨rp', cc', e, v, vlt⟩ := sqrtrem2AddBack_spec S rp1 cc0 (T + (2 * S - 1) - QQ) hrp1 hS1 hS2
      (by push_cast [Nat.cast_sub h2]; omega)
    exact ⟨_, _, _, e, fun h => absurd hneg (Nat.not_lt.mpr h), fun _ => ⟨rfl, v⟩, vlt⟩
  · have hle := Nat.le_of_not_lt hneg
    have hc : ¬ cc0 < 0 := by
      intro hc
      have : cc0 * (B : Int) ≤ -1 * (B : Int) :=
        Int.mul_le_mul_of_nonneg_right (by omega) (by rw [hB]; norm_num)
      omega
    rw [if_neg hc]
    refine ⟨_, _, _, rfl, fun _ => ⟨Nat.mod_eq_of_lt (hA hle), ?_⟩, fun h => absurd h hneg, hrp1⟩
    have : cc0 * (B : Int) + (rp1 : Int) = ((T - QQ : Nat) : Int) := by
      rw [hval, Nat.cast_sub hle]
    exact this


theorem splitT (u a : Nat) : u / 4294967296 * 18446744073709551616 + (u * 4294967296 % 18446744073709551616 + a)
    = u * 4294967296 + a := by omega

/-- mpn_sqrtrem2 after the subtraction loop: `np1 = s² + r`, `r = qhl·s + r'`, `r' < s`. -/
theorem sqrtrem2Tail_specI (np0 s r r' qhl : Nat) (hnp0 : np0 < B) (hs1 : 2147483648 ≤ s)
    (hs2 : s < 4294967296) (hr : r ≤ 2 * s) (hql : qhl ≤ 2) (hr' : r = qhl * s + r') (hr's : r' < s)
    (h2 : qhl = 2 → r' = 0) :
    ∃ sp rp cc, sqrtrem2Tail np0 s r' qhl = (sp, rp, cc) ∧
      sp * sp + (cc * (B : Int) + (rp : Int)).toNat = (s * s + r) * B + np0 ∧
      (cc * (B : Int) + (rp : Int)).toNat ≤ 2 * sp ∧ (0 : Int) ≤ cc * (B : Int) + (rp : Int) ∧ rp < B := by
  have hB := B_eq
  have hs3 : 0 < 2 * s := by omega
  obtain ⟨q0, u, hdm, hu, hq⟩ : ∃ q u, 2 * s * q + u = r' * 4294967296 + np0 / 4294967296 ∧ u < 2 * s ∧
      (r' * 4294967296 + np0 / 4294967296) / (2 * s) = q :=
    ⟨_, _, Nat.div_add_mod _ _, Nat.mod_lt _ hs3, rfl⟩
  have hq31 : q0 < 2147483648 := by
    by_contra hc
    have : 2 * s * 2147483648 ≤ 2 * s * q0 := Nat.mul_le_mul_left _ (by omega)
    rw [hB] at hnp0; omega
  have hmask : np0 &&& (2 ^ 32 - 1) = np0 % 4294967296 := Nat.and_two_pow_sub_one_eq_mod np0 32
  obtain ⟨qb, qh, hqb, hqh, hsum, hqb1, hqh1, hexcl⟩ : ∃ qb qh, qhl &&& 1 = qb ∧ qhl >>> 1 = qh ∧
      qhl = qb + 2 * qh ∧ qb ≤ 1 ∧ qh ≤ 1 ∧ (qh = 1 → qb = 0) := by
    have : qhl = 0 ∨ qhl = 1 ∨ qhl = 2 := by omega
    rcases this with rfl | rfl | rfl
    · exact ⟨0, 0, rfl, rfl, rfl, by omega, by omega, by omega⟩
    · exact ⟨1, 0, rfl, rfl, rfl, by omega, by omega, by omega⟩
    · exact ⟨0, 1, rfl, rfl, rfl, by omega, by omega, by omega⟩
  -- when qhl = 2 the remainder was exactly 2s: the new quotient digit is 0
  have hq0 : qh = 1 → q0 = 0 := by
    intro h
    have : r' = 0 := h2 (by omega)
    subst this
    by_contra hc
    have : 2 * s * 1 ≤ 2 * s * q0 := Nat.mul_le_mul_left _ (by omega)
    rw [hB] at hnp0; omega
  have hdmQ : 2 * s * (q0 + qb * 2147483648 + qh * 4294967296) + u
      = r * 4294967296 + np0 / 4294967296 := by
    subst hr' hsum
    have e : 2 * s * (q0 + qb * 2147483648 + qh * 4294967296)
        = 2 * s * q0 + (qb + 2 * qh) * s * 4294967296 := by ring
    rw [e]; nlinarith
  obtain ⟨hQle, hA, hC⟩ := zstep 4294967296 s r (np0 / 4294967296) (np0 % 4294967296)
    (q0 + qb * 2147483648 + qh * 4294967296) u (s * 4294967296 + (q0 + qb * 2147483648 + qh * 4294967296))
    (by omega) hr (by rw [hB] at hnp0; omega) (by omega) hdmQ hu rfl
  have hN : (s * s + r) * (4294967296 * 4294967296) + np0 / 4294967296 * 4294967296 + np0 % 4294967296
      = (s * s + r) * B + np0 := by
    generalize s * s + r = M
    rw [hB]; omega
  rw [hN] at hA hC
  generalize hql' : q0 + qb * 2147483648 = ql at *
  have hqllt : ql < 4294967296 := by omega
  have hqlql : ql * ql < B := by
    rw [hB]; have : ql * ql ≤ 4294967295 * 4294967295 := Nat.mul_le_mul (by omega) (by omega)
    omega
  have hQQ : ql * ql + qh * B = (ql + qh * 4294967296) * (ql + qh * 4294967296) := by
    have : qh = 0 ∨ qh = 1 := by omega
    rcases this with rfl | rfl
    · simp
    · have : ql = 0 := by have := hq0 rfl; have := hexcl rfl; omega
      subst this; rw [hB]
  generalize hQ : ql + qh * 4294967296 = Q at *
  have hcomm : q0 * (2 * s) = 2 * s * q0 := Nat.mul_comm _ _
  have e1 : (wshl r' 32 + np0 >>> 32) % B = r' * 4294967296 + np0 / 4294967296 := by
    unfold wshl; simp only [Nat.shiftLeft_eq, Nat.shiftRight_eq_div_pow, B_eq] at *; omega
  have e3 : (2 * s) % B = 2 * s := by rw [hB]; omega
  have e4 : wsub (r' * 4294967296 + np0 / 4294967296) ((q0 * (2 * s)) % B) = u := by
    unfold wsub; rw [B_eq] at *; omega
  have e5 : (q0 + wshl qb 31) % B = ql := by
    unfold wshl; simp only [Nat.shiftLeft_eq, hB]; omega
  have e6 : (wshl ((s + qh) % B) 32 + ql) % B = (s * 4294967296 + Q) % B := by
    unfold wshl; simp only [Nat.shiftLeft_eq, hB]; omega
  have e8 : (wshl u 32 + np0 % 4294967296) % B = u * 4294967296 % B + np0 % 4294967296 := by
    unfold wshl; simp only [Nat.shiftLeft_eq, hB]; omega
  have e9 : (ql * ql) % B = ql * ql := Nat.mod_eq_of_lt hqlql
  unfold sqrtrem2Tail
  dsimp only
  rw [hqb, hqh, e1, e3, hq, e4, e5, e6, hmask, e8, e9, Nat.shiftRight_eq_div_pow]
  simp only [Nat.reducePow]
  obtain ⟨sp, rp, cc, efix, fA, fC, frp⟩ := sqrtrem2Fix_spec (s * 4294967296 + Q) (u / 4294967296)
    (u * 4294967296 % B + np0 % 4294967296) (ql * ql) qh (u * 4294967296 + np0 % 4294967296) (Q * Q)
    (by rw [hB]; omega) hqlql (by omega) (by rw [hB]; omega) (by rw [hB]; exact splitT _ _) hQQ
    (by
      intro hle
      have : qh = 0 ∨ qh = 1 := by omega
      rcases this with rfl | rfl
      · rw [hB]; omega
      · exfalso
        have : ql = 0 := by have := hq0 rfl; have := hexcl rfl; omega
        subst this
        have hQv : Q = 4294967296 := by omega
        subst hQv
        rw [hB] at hnp0; omega)
    (fun h => (hC h).2.1)
  refine ⟨sp, rp, cc, efix, ?_⟩
  by_cases hneg : u * 4294967296 + np0 % 4294967296 < Q * Q
  · obtain ⟨c1, c2, c3, c4⟩ := hC hneg
    obtain ⟨f1, f2⟩ := fC hneg
    rw [f1, f2, Int.toNat_natCast]; exact ⟨c3, c4, Int.natCast_nonneg _, frp⟩
  · obtain ⟨c1, c2⟩ := hA (Nat.le_of_not_lt hneg)
    obtain ⟨f1, f2⟩ := fA (Nat.le_of_not_lt hneg)
    rw [f1, f2, Int.toNat_natCast]; exact ⟨c1, c2, Int.natCast_nonneg _, frp⟩

theorem sqrtrem2Tail_spec (np0 s r r' qhl : Nat) (hnp0 : np0 < B) (hs1 : 2147483648 ≤ s)
    (hs2 : s < 4294967296) (hr : r ≤ 2 * s) (hql : qhl ≤ 2) (hr' : r = qhl * s + r') (hr's : r' < s)
    (h2 : qhl = 2 → r' = 0) :
    ∃ sp rp cc, sqrtrem2Tail np0 s r' qhl = (sp, rp, cc) ∧
      sp * sp + (cc * (B : Int) + (rp : Int)).toNat = (s * s + r) * B + np0 ∧
      (cc * (B : Int) + (rp : Int)).toNat ≤ 2 * sp := by
  obtain ⟨sp, rp, cc, e, p1, p2, -⟩ := sqrtrem2Tail_specI np0 s r r' qhl hnp0 hs1 hs2 hr hql hr' hr's h2
  exact ⟨sp, rp, cc, e, p1, p2⟩


theorem sq_bounds32 (s r N : Nat) (h : s * s + r = N) (hr : r ≤ 2 * s) (h1 : 4611686018427387904 ≤ N)
    (h2 : N < 18446744073709551616) : 2147483648 ≤ s ∧ s < 4294967296 := by
  constructor
  · by_contra hh
    have h3 : s + 1 ≤ 2147483648 := by omega
    have h4 : (s + 1) * (s + 1) ≤ 2147483648 * (s + 1) := Nat.mul_le_mul_right _ h3
    have h5 : (s + 1) * (s + 1) = s * s + 2 * s + 1 := by ring
    omega
  · by_contra hh
    have h3 : 4294967296 ≤ s := by omega
    have h4 : 4294967296 * s ≤ s * s := Nat.mul_le_mul_right _ h3
    omega

/-- mpn_sqrtrem2 on a normalised two-limb operand: `{np0, np1} = sp² + cc·B + rp`, remainder ≤ 2·sp. -/
theorem sqrtrem2_ex (np0 np1 : Nat) (h0 : np0 < B) (h1 : B / 4 ≤ np1) (h2 : np1 < B) :
    ∃ sp rp cc, sqrtrem2 np0 np1 = (sp, rp, cc) ∧
      sp * sp + (cc * (B : Int) + (rp : Int)).toNat = np1 * B + np0 ∧
      (cc * (B : Int) + (rp : Int)).toNat ≤ 2 * sp := by
  have hB := B_eq
  obtain ⟨g1, g2⟩ := sqrtrem1_sq np1 h1 h2
  unfold sqrtrem2
  dsimp only
  generalize (sqrtrem1 np1).1 = s at *
  generalize (sqrtrem1 np1).2 = r at *
  obtain ⟨b1, b2⟩ := sq_bounds32 s r np1 g1 g2 (by rw [hB] at h1; omega) (by rw [hB] at h2; exact h2)
  obtain ⟨qhl, r', eSub, q1, q2, q3, q4⟩ := sqrtrem2Sub_spec s r (by omega) g2 b2
  rw [eSub]
  dsimp only
  obtain ⟨sp, rp, cc, e, p1, p2⟩ := sqrtrem2Tail_spec np0 s r r' qhl h0 b1 b2 g2 q1 q2 q3 q4
  rw [g1] at p1
  exact ⟨sp, rp, cc, e, p1, p2⟩

/-- the same with the sign of the two-limb remainder: `cc·B + rp ≥ 0` as an integer (so `cc ≥ 0`). -/
theorem sqrtrem2_exI (np0 np1 : Nat) (h0 : np0 < B) (h1 : B / 4 ≤ np1) (h2 : np1 < B) :
    ∃ sp rp cc, sqrtrem2 np0 np1 = (sp, rp, cc) ∧
      sp * sp + (cc * (B : Int) + (rp : Int)).toNat = np1 * B + np0 ∧
      (cc * (B : Int) + (rp : Int)).toNat ≤ 2 * sp ∧ (0 : Int) ≤ cc * (B : Int) + (rp : Int) ∧ rp < B := by
  have hB := B_eq
  obtain ⟨g1, g2⟩ := sqrtrem1_sq np1 h1 h2
  unfold sqrtrem2
  dsimp only
  generalize (sqrtrem1 np1).1 = s at *
  generalize (sqrtrem1 np1).2 = r at *
  obtain ⟨b1, b2⟩ := sq_bounds32 s r np1 g1 g2 (by rw [hB] at h1; omega) (by rw [hB] at h2; exact h2)
  obtain ⟨qhl, r', eSub, q1, q2, q3, q4⟩ := sqrtrem2Sub_spec s r (by omega) g2 b2
  rw [eSub]
  dsimp only
  obtain ⟨sp, rp, cc, e, p1, p2⟩ := sqrtrem2Tail_specI np0 s r r' qhl h0 b1 b2 g2 q1 q2 q3 q4
  rw [g1] at p1
  exact ⟨sp, rp, cc, e, p1, p2⟩

theorem sqrtrem2_spec : Sqrtrem2Spec := by
  intro np0 np1 h0 h1 h2
  obtain ⟨sp, rp, cc, e, p1, p2⟩ := sqrtrem2_ex np0 np1 h0 h1 h2
  rw [e]
  exact ⟨p1, p2⟩

/-- mpn_dc_sqrtrem is correct on every normalised operand. -/
theorem dcSpec : DcSpec := dcSpec_of_sqrtrem2 sqrtrem2_spec



/-! ### mpn_sqrtrem, all paths; limb lists -/


theorem val_toLimbs : ∀ (n v : Nat), val (toLimbs n v) = v % B ^ n ∧ (toLimbs n v).length = n
  | 0, v => by simp [toLimbs, Nat.mod_one]
  | n + 1, v => by
    obtain ⟨ih, il⟩ := val_toLimbs n (v / B)
    simp only [toLimbs, val_cons, ih, List.length_cons, il, pow_succ, and_true]
    rw [Nat.mul_comm (B ^ n) B, Nat.mod_mul]

theorem natLimbs_zero : natLimbs 0 = [] := by rw [natLimbs]; simp

theorem natLimbs_pos (v : Nat) (h : v ≠ 0) : natLimbs v = v % B :: natLimbs (v / B) := by
  rw [natLimbs]; simp [h]

theorem val_natLimbs (v : Nat) : val (natLimbs v) = v ∧ ((natLimbs v).length = 0 ↔ v = 0) := by
  induction v using Nat.strong_induction_on with
  | _ v ih =>
    by_cases h : v = 0
    · subst h; simp [natLimbs_zero]
    · rw [natLimbs_pos v h]
      have := (ih (v / B) (Nat.div_lt_self (Nat.pos_of_ne_zero h) (by unfold B; norm_num))).1
      simp only [val_cons, this, List.length_cons]
      exact ⟨Nat.mod_add_div v B, by simp [h]⟩

/-- the most significant limb brackets the value. -/
theorem val_getLast : ∀ (l : List Nat), l ≠ [] → Limbs l →
    l.getLastD 0 * B ^ (l.length - 1) ≤ val l ∧ val l < (l.getLastD 0 + 1) * B ^ (l.length - 1) ∧
    l.getLastD 0 < B
  | [], h, _ => absurd rfl h
  | [x], _, hl => by simpa using (Limbs_cons.mp hl).1
  | x :: y :: ys, _, hl => by
    obtain ⟨hx, hl'⟩ := Limbs_cons.mp hl
    obtain ⟨i1, i2, i3⟩ := val_getLast (y :: ys) (by simp) hl'
    have e : (x :: y :: ys).getLastD 0 = (y :: ys).getLastD 0 := by simp [List.getLastD]
    rw [e]
    simp only [List.length_cons, Nat.add_sub_cancel] at i1 i2 ⊢
    rw [val_cons]
    generalize (y :: ys).getLastD 0 = h at *
    generalize val (y :: ys) = w at *
    rw [pow_succ]
    generalize B ^ ys.length = P at *
    refine ⟨by nlinarith, by nlinarith, i3⟩


/-- value-level mpn_sqrtrem, all paths. -/
theorem sqrtremVal_spec (u nn high : Nat) (hnn : 0 < nn) (hu1 : high * B ^ (nn - 1) ≤ u)
    (hu2 : u < (high + 1) * B ^ (nn - 1)) (hp : 0 < high) (hB : high < B) :
    sqrtremVal u nn high = (Nat.sqrt u, u - Nat.sqrt u * Nat.sqrt u) := by
  by_cases hbr : nn = 1 ∧ high ≥ B / 2
  · obtain ⟨h1, h2⟩ := hbr
    subst h1
    simp only [Nat.sub_self, pow_zero, Nat.mul_one] at hu1 hu2
    have : u = high := by omega
    subst this
    unfold sqrtremVal
    rw [if_pos ⟨rfl, h2⟩]
    obtain ⟨e, r⟩ := sqrtrem1_sq u (by have := B_eq; omega) hB
    obtain ⟨d1, d2⟩ := sqrt_of_rem e r
    exact Prod.ext d1 d2
  · exact sqrtremVal_norm u nn high hnn hu1 hu2 hp hB hbr dcSpec

theorem sqrtrem_full (np : List Nat) (hl : Limbs np) (hne : np ≠ []) (hhi : np.getLastD 0 ≠ 0) :
    val (sqrtrem np).sp = Nat.sqrt (val np) ∧ (sqrtrem np).sp.length = (np.length + 1) / 2 ∧
    val (sqrtrem np).rp = val np - Nat.sqrt (val np) * Nat.sqrt (val np) ∧
    (sqrtrem np).rn = (sqrtrem np).rp.length ∧
    ((sqrtrem np).rn = 0 ↔ ∃ k, val np = k * k) := by
  have hlen : 0 < np.length := List.length_pos_iff.mpr hne
  obtain ⟨g1, g2, g3⟩ := val_getLast np hne hl
  have hv := sqrtremVal_spec (val np) np.length (np.getLastD 0) hlen g1 g2 (Nat.pos_of_ne_zero hhi) g3
  unfold sqrtrem
  dsimp only
  rw [if_neg (by omega), hv]
  dsimp only
  generalize val np = u at *
  -- the root fits in (nn+1)/2 limbs
  have hult : u < B ^ np.length := by
    have : (np.getLastD 0 + 1) * B ^ (np.length - 1) ≤ B * B ^ (np.length - 1) :=
      Nat.mul_le_mul_right _ (by omega)
    have e : B * B ^ (np.length - 1) = B ^ np.length := by
      rw [← pow_succ']; congr 1; omega
    omega
  have hslt : Nat.sqrt u < B ^ ((np.length + 1) / 2) := by
    rw [Nat.sqrt_lt', ← pow_mul]
    exact Nat.lt_of_lt_of_le hult (Nat.pow_le_pow_right B_pos (by omega))
  obtain ⟨t1, t2⟩ := val_toLimbs ((np.length + 1) / 2) (Nat.sqrt u)
  obtain ⟨n1, n2⟩ := val_natLimbs (u - Nat.sqrt u * Nat.sqrt u)
  refine ⟨by rw [t1, Nat.mod_eq_of_lt hslt], t2, n1, rfl, ?_⟩
  rw [n2]
  constructor
  · intro h; exact ⟨Nat.sqrt u, by have := Nat.sqrt_le u; omega⟩
  · rintro ⟨k, rfl⟩; rw [Nat.sqrt_eq]; omega


theorem natLimbs_wf (v : Nat) (h : v ≠ 0) :
    natLimbs v ≠ [] ∧ Limbs (natLimbs v) ∧ (natLimbs v).getLastD 0 ≠ 0 := by
  induction v using Nat.strong_induction_on with
  | _ v ih =>
    rw [natLimbs_pos v h]
    refine ⟨by simp, ?_, ?_⟩
    · by_cases h2 : v / B = 0
      · rw [h2, natLimbs_zero]; exact Limbs_cons.mpr ⟨Nat.mod_lt _ B_pos, Limbs_nil⟩
      · exact Limbs_cons.mpr ⟨Nat.mod_lt _ B_pos,
          (ih (v / B) (Nat.div_lt_self (Nat.pos_of_ne_zero h) (by unfold B; norm_num)) h2).2.1⟩
    · by_cases h2 : v / B = 0
      · rw [h2, natLimbs_zero]
        have : v % B = v := Nat.mod_eq_of_lt ((Nat.div_eq_zero_iff_lt B_pos).mp h2)
        simp [List.getLastD, this, h]
      · obtain ⟨a1, a2, a3⟩ := ih (v / B) (Nat.div_lt_self (Nat.pos_of_ne_zero h) (by unfold B; norm_num)) h2
        obtain ⟨y, ys, hy⟩ := List.exists_cons_of_ne_nil a1
        rw [hy] at a3 ⊢
        simpa [List.getLastD] using a3



/-! ### n-th roots: the final adjustment -/


/-- the correction loop `while (S^k > R) S--` reaches the floor root from any candidate that is at most
    `fuel` too large. -/
theorem adjustDown_spec (k R : Nat) (hk : 0 < k) : ∀ (fuel s : Nat), iroot k R ≤ s → s ≤ iroot k R + fuel →
    adjustDown k R fuel s = iroot k R
  | 0, s, h1, h2 => by simp [adjustDown]; omega
  | fuel + 1, s, h1, h2 => by
    obtain ⟨r1, r2⟩ := iroot_spec k R hk
    unfold adjustDown
    split
    · next h =>
      have : iroot k R < s := by
        by_contra hc
        have : s = iroot k R := by omega
        subst this; omega
      exact adjustDown_spec k R hk fuel (s - 1) (by omega) (by omega)
    · next h =>
      by_contra hc
      have : iroot k R + 1 ≤ s := by omega
      have := Nat.pow_le_pow_left this k
      omega



/-! ### mpz_perfect_power_p: soundness -/


/-- the manual's definition: `op = a^b` for integers `a`, `b` with `b > 1`. -/
def IsPP (u : Int) : Prop := ∃ (a : Int) (b : Nat), 2 ≤ b ∧ a ^ b = u

/-- from a magnitude `A = Y^b`, `b ≥ 2` (odd if the number is negative) to the signed statement. -/
theorem isPP_of_mag (u : Int) (Y b : Nat) (hb : 2 ≤ b) (hodd : u < 0 → b % 2 = 1)
    (h : u.natAbs = Y ^ b) : IsPP u := by
  rcases lt_or_ge u 0 with hu | hu
  · refine ⟨-(Y : Int), b, hb, ?_⟩
    have ho : Odd b := Nat.odd_iff.mpr (hodd hu)
    rw [Odd.neg_pow ho]
    have : (u.natAbs : Int) = -u := Int.ofNat_natAbs_of_nonpos (le_of_lt hu)
    have h2 : ((Y ^ b : Nat) : Int) = -u := by rw [← h]; exact this
    push_cast at h2; rw [h2]; ring
  · refine ⟨(Y : Int), b, hb, ?_⟩
    have : (u.natAbs : Int) = u := Int.natAbs_of_nonneg hu
    rw [← this, h]; push_cast; rfl

theorem scan1Go_spec : ∀ (fuel a c : Nat), ∃ t, scan1Go fuel a c = c + t ∧ 2 ^ t ∣ a
  | 0, a, c => ⟨0, by simp [scan1Go], by simp⟩
  | fuel + 1, a, c => by
    unfold scan1Go
    split
    · next h =>
      obtain ⟨t, e, d⟩ := scan1Go_spec fuel (a / 2) (c + 1)
      refine ⟨t + 1, by rw [e]; omega, ?_⟩
      rw [pow_succ]
      have : a = a / 2 * 2 := by omega
      rw [this]; exact Nat.mul_dvd_mul_right d 2
    · exact ⟨0, by simp, by simp⟩

theorem scan1_spec (a : Nat) : a = 2 ^ scan1 a * (a >>> scan1 a) := by
  obtain ⟨t, e, d⟩ := scan1Go_spec (bitLen a) a 0
  unfold scan1
  rw [e, Nat.zero_add, Nat.shiftRight_eq_div_pow, Nat.mul_div_cancel' d]

theorem stripPrime_spec (p : Nat) : ∀ (fuel a n : Nat), ∃ t, stripPrime p fuel a n = (a / p ^ t, n + t) ∧ p ^ t ∣ a
  | 0, a, n => ⟨0, by simp [stripPrime], by simp⟩
  | fuel + 1, a, n => by
    unfold stripPrime
    split
    · next h =>
      obtain ⟨t, e, d⟩ := stripPrime_spec p fuel (a / p) (n + 1)
      refine ⟨t + 1, ?_, ?_⟩
      · rw [e, Nat.div_div_eq_div_mul, pow_succ']; congr 1; omega
      · rw [pow_succ']
        have : a = p * (a / p) := (Nat.mul_div_cancel' (Nat.dvd_of_mod_eq_zero h)).symm
        rw [this]; exact Nat.mul_dvd_mul_left p d
    · exact ⟨0, by simp, by simp⟩

theorem isprime_facts (t : Nat) (h : isprime t = true) : 2 ≤ t ∧ (t ≠ 2 → t % 2 = 1) := by
  unfold isprime at h
  split at h
  · next hc => simp at h; omega
  · next hc => omega

theorem pow2P_two_pow (k : Nat) : pow2P (2 ^ k) = true := by
  unfold pow2P
  rw [Nat.and_two_pow_sub_one_eq_mod, Nat.mod_self]; rfl

theorem exists_two_pow_mul_odd : ∀ (n : Nat), n ≠ 0 → ∃ k m, m % 2 = 1 ∧ n = 2 ^ k * m := by
  intro n
  induction n using Nat.strong_induction_on with
  | _ n ih =>
    intro hn
    by_cases h : n % 2 = 1
    · exact ⟨0, n, h, by simp⟩
    · obtain ⟨k, m, hm, e⟩ := ih (n / 2) (by omega) (by omega)
      exact ⟨k + 1, m, hm, by rw [pow_succ, Nat.mul_assoc, Nat.mul_comm 2, ← Nat.mul_assoc, ← e]; omega⟩

/-- a positive number that fails the `POW2_P` test has an odd divisor `≥ 3`. -/
theorem odd_divisor_of_not_pow2P (n : Nat) (hn : n ≠ 0) (h : pow2P n = false) :
    ∃ b, 3 ≤ b ∧ b % 2 = 1 ∧ b ∣ n := by
  obtain ⟨k, m, hm, e⟩ := exists_two_pow_mul_odd n hn
  by_cases h1 : m = 1
  · subst h1; rw [Nat.mul_one] at e; subst e
    rw [pow2P_two_pow] at h; exact absurd h (by simp)
  · exact ⟨m, by omega, hm, ⟨2 ^ k, by rw [e, Nat.mul_comm]⟩⟩


/-- the contract of mpn_rootrem at one operand/index pair. -/
def RootremAt (a k : Nat) : Prop := ∀ w,
  (rootrem a (limbCount a) k w).1 = iroot k a ∧
  ((rootrem a (limbCount a) k w).2 = 0 ↔ (iroot k a) ^ k = a) ∧
  (w = true → (rootrem a (limbCount a) k w).2 = a - (iroot k a) ^ k)

/-- `exact = mpz_root (q, u2, nth)` under the contract of mpn_rootrem at this operand and index. -/
theorem rootExact_spec (a nth : Nat) (hrr : 2 ≤ nth → RootremAt a nth) (ha : 0 < a) (hn : 1 ≤ nth) :
    rootExact a nth = (iroot nth a, decide ((iroot nth a) ^ nth = a)) := by
  unfold rootExact
  rw [if_neg (by omega)]
  by_cases h1 : nth = 1
  · subst h1; simp [iroot_one]
  · rw [if_neg h1]
    obtain ⟨r1, r2, -⟩ := hrr (by omega) false
    generalize rootrem a (limbCount a) nth false = res at *
    obtain ⟨r, m⟩ := res
    simp only at r1 r2 ⊢
    subst r1
    congr 1
    by_cases h5 : m = 0
    · simp [h5, r2.mp h5]
    · have h6 : ¬ iroot nth a ^ nth = a := fun h => h5 (r2.mpr h)
      simp [h5, h6]

/-- the root-attempt loops only answer "yes" on an exact prime root (dividing `n2` in the bounded loop). -/
theorem ppRoots_sound (a : Nat) (bound : Option Nat) : ∀ (fuel nth : Nat), ppRoots a bound fuel nth = true →
    ∃ m, nth ≤ m ∧ isprime m = true ∧ (∀ n2, bound = some n2 → n2 % m = 0) ∧ (rootExact a m).2 = true
  | 0, nth, h => by simp [ppRoots] at h
  | fuel + 1, nth, h => by
    unfold ppRoots at h
    cases bound with
    | none =>
      simp only at h
      by_cases hp : isprime nth = true
      · simp only [hp, Bool.not_true, Bool.false_eq_true, if_false] at h
        by_cases he : (rootExact a nth).2 = true
        · exact ⟨nth, Nat.le_refl _, hp, (fun _ h => by cases h), he⟩
        · have he' : (rootExact a nth).2 = false := by simpa using he
          generalize rootExact a nth = re at *
          obtain ⟨q, ex⟩ := re
          simp only at he' h
          subst he'
          simp only [Bool.false_eq_true, if_false] at h
          split at h
          · exact absurd h (by simp)
          · obtain ⟨m, m1, m2, m3, m4⟩ := ppRoots_sound a none fuel (nth + 1) h
            exact ⟨m, by omega, m2, m3, m4⟩
      · have hp' : isprime nth = false := by simpa using hp
        simp only [hp', Bool.not_false, if_true] at h
        obtain ⟨m, m1, m2, m3, m4⟩ := ppRoots_sound a none fuel (nth + 1) h
        exact ⟨m, by omega, m2, m3, m4⟩
    | some n2 =>
      simp only at h
      by_cases h1 : nth > n2
      · rw [if_pos h1] at h; exact absurd h (by simp)
      · rw [if_neg h1] at h
        by_cases hc : (!isprime nth || n2 % nth != 0) = true
        · rw [if_pos hc] at h
          obtain ⟨m, m1, m2, m3, m4⟩ := ppRoots_sound a (some n2) fuel (nth + 1) h
          exact ⟨m, by omega, m2, m3, m4⟩
        · rw [if_neg hc] at h
          simp only [Bool.or_eq_true, Bool.not_eq_true', bne_iff_ne, ne_eq, not_or, Bool.not_eq_false,
            Decidable.not_not] at hc
          by_cases he : (rootExact a nth).2 = true
          · exact ⟨nth, Nat.le_refl _, hc.1, (fun k hk => by cases hk; exact hc.2), he⟩
          · have he' : (rootExact a nth).2 = false := by simpa using he
            generalize rootExact a nth = re at *
            obtain ⟨q, ex⟩ := re
            simp only at he' h
            subst he'
            simp only [Bool.false_eq_true, if_false] at h
            split at h
            · exact absurd h (by simp)
            · obtain ⟨m, m1, m2, m3, m4⟩ := ppRoots_sound a (some n2) fuel (nth + 1) h
              exact ⟨m, by omega, m2, m3, m4⟩

theorem ppN2prime_sound (neg : Bool) (a n2 : Nat) (h : ppN2prime neg a n2 = true) :
    ¬(n2 = 2 ∧ neg = true) ∧ (rootExact a n2).2 = true := by
  unfold ppN2prime at h
  split at h
  · exact absurd h (by simp)
  · next hc => simp at hc; exact ⟨fun ⟨h1, h2⟩ => by simp [h1, h2] at hc, h⟩


/-- the common conclusion: `|u| = y^n2 · t^m` with `m ∣ n2`, `m ≥ 2`, `m` odd if `u < 0`. -/
theorem isPP_conclude (u : Int) (y t m n2 : Nat) (hm : 2 ≤ m) (hdvd : m ∣ n2)
    (hodd : u < 0 → m % 2 = 1) (h : u.natAbs = y ^ n2 * t ^ m) : IsPP u := by
  obtain ⟨c, rfl⟩ := hdvd
  refine isPP_of_mag u (y ^ c * t) m hm hodd ?_
  rw [h, mul_pow, ← pow_mul, Nat.mul_comm c m]

theorem rootExact_true (a m : Nat) (hrr : 2 ≤ m → RootremAt a m) (ha : 0 < a) (hm : 1 ≤ m)
    (h : (rootExact a m).2 = true) : a = (iroot m a) ^ m := by
  rw [rootExact_spec a m hrr ha hm] at h
  have h' : iroot m a ^ m = a := by simpa using h
  exact h'.symm

theorem ppFactor_sound (u : Int) (hrr : ∀ a k, 0 < a → 2 ≤ k → a ∣ u.natAbs → RootremAt a k) (hu : u ≠ 0) :
    ∀ (ps : List Nat) (a n2 : Nat),
    (∃ y, u.natAbs = y ^ n2 * a) →
    match ppFactor (decide (u < 0)) ps a n2 with
    | .inl b => b = true → IsPP u
    | .inr (a', n2') => ∃ y, u.natAbs = y ^ n2' * a'
  | [], a, n2, hinv => by simpa [ppFactor] using hinv
  | p :: ps, a, n2, hinv => by
    have hA : u.natAbs ≠ 0 := Int.natAbs_ne_zero.mpr hu
    unfold ppFactor
    by_cases h1 : a % p = 0
    · rw [if_pos h1]
      by_cases h2 : a % (p * p) ≠ 0
      · rw [if_pos h2]; simp
      · rw [if_neg h2]
        have h2' : a % (p * p) = 0 := by simpa using h2
        obtain ⟨t, e, d⟩ := stripPrime_spec p (bitLen a) (a / (p * p)) 2
        rw [e]
        dsimp only
        obtain ⟨y, hy⟩ := hinv
        -- a = p^(2+t) · a'
        have ha : a = p ^ (2 + t) * (a / (p * p) / p ^ t) := by
          have e1 : a = p * p * (a / (p * p)) := (Nat.mul_div_cancel' (Nat.dvd_of_mod_eq_zero h2')).symm
          have e2 : a / (p * p) = p ^ t * (a / (p * p) / p ^ t) := (Nat.mul_div_cancel' d).symm
          rw [pow_add, pow_two, Nat.mul_assoc, ← e2, ← e1]
        generalize a / (p * p) / p ^ t = a' at *
        generalize hn : 2 + t = n at *
        by_cases h3 : (pow2P n && decide (u < 0)) = true
        · rw [if_pos h3]; simp
        · rw [if_neg h3]
          by_cases h4 : Nat.gcd n2 n = 1
          · rw [if_pos h4]; simp
          · rw [if_neg h4]
            have hg : 2 ≤ Nat.gcd n2 n := by
              have : 0 < Nat.gcd n2 n := Nat.gcd_pos_of_pos_right _ (by omega)
              omega
            -- the new invariant
            obtain ⟨c1, hc1⟩ := Nat.gcd_dvd_left n2 n
            obtain ⟨c2, hc2⟩ := Nat.gcd_dvd_right n2 n
            have hinv' : u.natAbs = (y ^ c1 * p ^ c2) ^ Nat.gcd n2 n * a' := by
              rw [hy, ha, mul_pow, ← pow_mul, ← pow_mul, Nat.mul_comm c1, Nat.mul_comm c2, ← hc1, ← hc2]
              ring
            have ha' : 0 < a' := by
              rcases Nat.eq_zero_or_pos a' with h0 | h0
              · rw [h0, Nat.mul_zero] at hinv'; exact absurd hinv' hA
              · exact h0
            generalize Nat.gcd n2 n = g at *
            by_cases h5 : a' = 1
            · rw [if_pos h5]
              intro hb
              simp only [Bool.not_eq_true', Bool.and_eq_false_iff, decide_eq_false_iff_not] at hb
              subst h5
              rcases hb with hb | hb
              · exact isPP_conclude u (y ^ c1 * p ^ c2) 1 g g hg (dvd_refl g) (fun h => absurd h hb)
                  (by rw [hinv', Nat.one_pow])
              · obtain ⟨b, b1, b2, b3⟩ := odd_divisor_of_not_pow2P g (by omega) hb
                exact isPP_conclude u (y ^ c1 * p ^ c2) 1 b g (by omega) b3 (fun _ => b2)
                  (by rw [hinv', Nat.one_pow])
            · rw [if_neg h5]
              by_cases h6 : isprime g = true
              · rw [if_pos h6]
                intro hb
                obtain ⟨n1, n2'⟩ := ppN2prime_sound _ a' g hb
                obtain ⟨f1, f2⟩ := isprime_facts g h6
                have hr := rootExact_true a' g (fun h => hrr a' g ha' h ⟨_, by rw [hinv', Nat.mul_comm]⟩) ha' (by omega) n2'
                refine isPP_conclude u (y ^ c1 * p ^ c2) (iroot g a') g g f1 (dvd_refl g) ?_ (by rw [hinv', ← hr])
                intro hneg
                exact f2 (fun h2 => n1 ⟨h2, by simpa using hneg⟩)
              · rw [if_neg h6]
                exact ppFactor_sound u hrr hu ps a' g ⟨_, hinv'⟩
    · rw [if_neg h1]
      exact ppFactor_sound u hrr hu ps a n2 hinv


/-- mpz_perfect_power_p never answers "yes" on a number that is not a perfect power (given the contract
    of mpn_rootrem for the exactness flags). -/
theorem perfect_power_sound_at (u : Int) (hrr : ∀ a k, 0 < a → 2 ≤ k → a ∣ u.natAbs → RootremAt a k)
    (h : mpzPerfectPowerP u = true) : IsPP u := by
  unfold mpzPerfectPowerP at h
  by_cases h0 : u = 0
  · subst h0; exact ⟨0, 2, by omega, by norm_num⟩
  · rw [if_neg h0] at h
    dsimp only at h
    have hA : u.natAbs ≠ 0 := Int.natAbs_ne_zero.mpr h0
    have hsc := scan1_spec u.natAbs
    generalize scan1 u.natAbs = n2 at *
    by_cases h1 : n2 = 1
    · rw [if_pos h1] at h; exact absurd h (by simp)
    · rw [if_neg h1] at h
      by_cases h2 : (decide (n2 > 1) && pow2P n2 && decide (u < 0)) = true
      · rw [if_pos h2] at h; exact absurd h (by simp)
      · rw [if_neg h2] at h
        have ha2 : 0 < u.natAbs >>> n2 := by
          rcases Nat.eq_zero_or_pos (u.natAbs >>> n2) with hz | hz
          · rw [hz, Nat.mul_zero] at hsc; exact absurd hsc hA
          · exact hz
        generalize u.natAbs >>> n2 = a2 at *
        by_cases h3 : isprime n2 = true
        · rw [if_pos h3] at h
          obtain ⟨n1, n2'⟩ := ppN2prime_sound _ a2 n2 h
          obtain ⟨f1, f2⟩ := isprime_facts n2 h3
          have hr := rootExact_true a2 n2 (fun h => hrr a2 n2 ha2 h ⟨_, by rw [hsc, Nat.mul_comm]⟩) ha2 (by omega) n2'
          refine isPP_conclude u 2 (iroot n2 a2) n2 n2 f1 (dvd_refl _) ?_ (by rw [hsc, ← hr])
          intro hneg
          exact f2 (fun hh => n1 ⟨hh, by simpa using hneg⟩)
        · rw [if_neg h3] at h
          have key := ppFactor_sound u hrr h0 (perfpowPrimes.drop 1) a2 n2 ⟨2, hsc⟩
          generalize ppFactor (decide (u < 0)) (perfpowPrimes.drop 1) a2 n2 = res at *
          cases res with
          | inl b => exact key h
          | inr pr =>
            obtain ⟨a3, n3⟩ := pr
            simp only at key h
            obtain ⟨y, hy⟩ := key
            have ha3 : 0 < a3 := by
              rcases Nat.eq_zero_or_pos a3 with hz | hz
              · rw [hz, Nat.mul_zero] at hy; exact absurd hy hA
              · exact hz
            by_cases h4 : n3 = 0
            · rw [if_pos h4] at h
              obtain ⟨m, m1, m2, -, m4⟩ := ppRoots_sound a3 none _ _ h
              obtain ⟨f1, f2⟩ := isprime_facts m m2
              have hr := rootExact_true a3 m (fun h => hrr a3 m ha3 h ⟨_, by rw [hy, Nat.mul_comm]⟩) ha3 (by omega) m4
              refine isPP_conclude u y (iroot m a3) m n3 f1 (by rw [h4]; exact dvd_zero m) ?_ (by rw [hy, ← hr])
              intro hneg
              have : decide (u < 0) = true := by simpa using hneg
              rw [this] at m1
              exact f2 (by simp at m1; omega)
            · rw [if_neg h4] at h
              obtain ⟨m, m1, m2, m3, m4⟩ := ppRoots_sound a3 (some n3) _ _ h
              obtain ⟨f1, f2⟩ := isprime_facts m m2
              have hr := rootExact_true a3 m (fun h => hrr a3 m ha3 h ⟨_, by rw [hy, Nat.mul_comm]⟩) ha3 (by omega) m4
              refine isPP_conclude u y (iroot m a3) m n3 f1 (Nat.dvd_of_mod_eq_zero (m3 n3 rfl)) ?_
                (by rw [hy, ← hr])
              intro hneg
              have : decide (u < 0) = true := by simpa using hneg
              rw [this] at m1
              exact f2 (by simp at m1; omega)




/-- the same under the global contract (old form). -/
theorem perfect_power_sound (hrr : RootremSpec) (u : Int) (h : mpzPerfectPowerP u = true) : IsPP u :=
  perfect_power_sound_at u (fun a k ha hk _ w => hrr a k w ha hk) h

/-! ### mpn_perfect_square_p: the normalising final test -/

/-- the third test of mpn_perfect_square_p on ANY limb vector (high zero limbs allowed, all-zero
    included): true exactly for squares. -/
theorem perfectSquareFinal_iff (up : List Nat) (hl : Limbs up) :
    perfectSquareFinal up = true ↔ ∃ k, val up = k * k := by
  obtain ⟨n1, n2, n3, -, -⟩ := Mpir.Bits.normalize_spec up
  unfold perfectSquareFinal
  dsimp only
  generalize normalize up = nz at *
  cases nz with
  | nil =>
    simp only [List.isEmpty_nil, if_true, true_iff]
    exact ⟨0, by rw [← n1]; simp⟩
  | cons x xs =>
    have hne : (x :: xs) ≠ [] := by simp
    have hhi : (x :: xs).getLastD 0 ≠ 0 := by
      intro h
      apply n2
      rw [List.getLastD_eq_getLast?] at h
      cases hg : (x :: xs).getLast? with
      | none => simp at hg
      | some v => rw [hg] at h; simp at h; rw [h]
    have key := (sqrtrem_full (x :: xs) (n3 hl) hne hhi).2.2.2.2
    rw [n1] at key
    simp only [List.isEmpty_cons, Bool.false_eq_true, if_false, beq_iff_eq]
    exact key



/-! ### mpz_root & co with a local contract for mpn_rootrem; the root-is-1 exit -/


theorem mpzRootCore_ok_at (u : Int) (n : Nat) (w : Bool) (hloc : u ≠ 0 → 2 ≤ n → RootremAt u.natAbs n)
    (h1 : ¬(u < 0 ∧ n % 2 = 0)) (h2 : n ≠ 0) :
    ∃ rem : Int, mpzRootCore u n w =
        .ok (u.sign * (iroot n u.natAbs : Nat), rem, decide ((iroot n u.natAbs) ^ n = u.natAbs)) ∧
      (w = true → rem = u.sign * ((u.natAbs - (iroot n u.natAbs) ^ n : Nat) : Int)) := by
  unfold mpzRootCore
  have hn : 0 < n := Nat.pos_of_ne_zero h2
  rw [if_neg h1, if_neg h2]
  by_cases h3 : u = 0
  · subst h3
    exact ⟨0, by simp [iroot_zero n hn, h2], by simp⟩
  · have ha : 0 < u.natAbs := Int.natAbs_pos.mpr h3
    have hsg : (if u < 0 then (-1 : Int) else 1) = u.sign := by
      rcases lt_trichotomy u 0 with h | h | h
      · simp [h, Int.sign_eq_neg_one_of_neg h]
      · exact absurd h h3
      · simp [not_lt.mpr (le_of_lt h), Int.sign_eq_one_of_pos h]
    rw [if_neg h3]
    dsimp only
    by_cases h4 : n = 1
    · subst h4
      exact ⟨0, by simp [hsg, iroot_one], by simp [iroot_one]⟩
    · obtain ⟨r1, r2, r3⟩ := hloc h3 (by omega) w
      rw [if_neg h4]
      generalize rootrem u.natAbs (limbCount u.natAbs) n w = res at *
      obtain ⟨root, rem⟩ := res
      simp only at r1 r2 r3
      subst r1
      have hb : (rem == 0) = decide (iroot n u.natAbs ^ n = u.natAbs) := by
        by_cases h5 : rem = 0
        · simp [h5, r2.mp h5]
        · have h6 : ¬ iroot n u.natAbs ^ n = u.natAbs := fun h => h5 (r2.mpr h)
          simp [h5, h6]
      refine ⟨u.sign * (rem : Int), ?_, fun hw => by rw [r3 hw]⟩
      show Except.ok ((if u < 0 then (-1 : Int) else 1) * ((iroot n u.natAbs : Nat) : Int),
        (if u < 0 then (-1 : Int) else 1) * (rem : Int), rem == 0) = _
      rw [hsg, hb]

theorem mpz_root_sign_flag_at (u : Int) (n : Nat) (hloc : u ≠ 0 → 2 ≤ n → RootremAt u.natAbs n) :
    (u < 0 ∧ n % 2 = 0 → mpzRoot u n = .error "sqrtneg" ∧ mpzRootrem u n = .error "sqrtneg") ∧
    (¬(u < 0 ∧ n % 2 = 0) → n = 0 → mpzRoot u n = .error "div0" ∧ mpzRootrem u n = .error "div0") ∧
    (¬(u < 0 ∧ n % 2 = 0) → n ≠ 0 → ∃ (root rem : Int) (flag : Bool),
        mpzRoot u n = .ok (root, flag) ∧ mpzRootrem u n = .ok (root, rem) ∧
        root = u.sign * (iroot n u.natAbs : Nat) ∧
        (flag = true ↔ (iroot n u.natAbs) ^ n = u.natAbs) ∧ (flag = true ↔ root ^ n = u) ∧
        root ^ n + rem = u) := by
  refine ⟨fun h => ?_, fun h h0 => ?_, fun h h0 => ?_⟩
  · simp [mpzRoot, mpzRootrem, (mpzRootCore_exc u n false).1 h, (mpzRootCore_exc u n true).1 h, Except.map]
  · simp [mpzRoot, mpzRootrem, (mpzRootCore_exc u n false).2 h h0, (mpzRootCore_exc u n true).2 h h0,
      Except.map]
  · obtain ⟨r0, e0, -⟩ := mpzRootCore_ok_at u n false hloc h h0
    obtain ⟨r1, e1, hr1⟩ := mpzRootCore_ok_at u n true hloc h h0
    have hr1 := hr1 rfl
    have hn : 0 < n := Nat.pos_of_ne_zero h0
    obtain ⟨s1, s2⟩ := iroot_spec n u.natAbs hn
    generalize iroot n u.natAbs = t at *
    refine ⟨u.sign * (t : Int), r1, decide (t ^ n = u.natAbs), ?_, ?_, rfl, by simp, ?_, ?_⟩
    · simp [mpzRoot, e0, Except.map]
    · simp [mpzRootrem, e1, Except.map]
    · -- root^n = u ↔ t^n = |u|
      rw [decide_eq_true_iff]
      rcases lt_trichotomy u 0 with hu | hu | hu
      · have hodd : Odd n := Nat.odd_iff.mpr (by have := Nat.mod_two_eq_zero_or_one n; omega)
        have hab : (u.natAbs : Int) = -u := Int.ofNat_natAbs_of_nonpos (le_of_lt hu)
        rw [Int.sign_eq_neg_one_of_neg hu, neg_one_mul, Odd.neg_pow hodd]
        constructor
        · intro e; have : (t : Int) ^ n = (u.natAbs : Int) := by rw [← e, Nat.cast_pow]
          rw [this, hab]; ring
        · intro e; have : ((t : Int)) ^ n = (u.natAbs : Int) := by rw [hab]; linarith
          exact_mod_cast this
      · subst hu
        simp only [Int.natAbs_zero, Nat.le_zero] at s1
        simp [(Nat.pow_eq_zero.mp s1).1, Nat.ne_of_gt hn]
      · have hab : (u.natAbs : Int) = u := Int.natAbs_of_nonneg (le_of_lt hu)
        rw [Int.sign_eq_one_of_pos hu, one_mul]
        constructor
        · intro e; have : (t : Int) ^ n = (u.natAbs : Int) := by rw [← e, Nat.cast_pow]
          rw [this, hab]
        · intro e; have : ((t : Int)) ^ n = (u.natAbs : Int) := by rw [hab]; exact e
          exact_mod_cast this
    · -- root^n + rem = u
      rw [hr1]
      have hc : ((u.natAbs - t ^ n : Nat) : Int) = (u.natAbs : Int) - (t : Int) ^ n := by
        rw [Int.ofNat_sub s1]; push_cast; ring
      rw [hc]
      rcases lt_trichotomy u 0 with hu | hu | hu
      · have hodd : Odd n := Nat.odd_iff.mpr (by have := Nat.mod_two_eq_zero_or_one n; omega)
        rw [Int.sign_eq_neg_one_of_neg hu, neg_one_mul, Odd.neg_pow hodd,
          Int.ofNat_natAbs_of_nonpos (le_of_lt hu)]
        ring
      · subst hu
        simp only [Int.natAbs_zero, Nat.le_zero] at s1
        simp [(Nat.pow_eq_zero.mp s1).1, Nat.ne_of_gt hn]
      · rw [Int.sign_eq_one_of_pos hu, one_mul, one_mul, Int.natAbs_of_nonneg (le_of_lt hu)]
        ring



/-- `k ≥ bitlength(a)`: the k-th root of `a ≥ 1` is 1. -/
theorem iroot_eq_one (a k : Nat) (ha : 0 < a) (hk : bitLen a ≤ k) (hk0 : 0 < k) : iroot k a = 1 := by
  obtain ⟨_, b2, _⟩ := bitLen_spec a ha
  refine (iroot_unique k a 1 hk0 (by rw [Nat.one_pow]; exact ha) ?_).symm
  calc a < 2 ^ bitLen a := b2
    _ ≤ 2 ^ k := Nat.pow_le_pow_right (by norm_num) hk

theorem xnb_one (a k : Nat) (ha : 0 < a) (hk : bitLen a ≤ k) : (bitLen a - 1) / k + 1 = 1 := by
  obtain ⟨_, _, b3⟩ := bitLen_spec a ha
  rw [Nat.div_eq_of_lt (by omega)]

/-- the root-is-1 exit of mpn_rootrem_internal (rootrem.c:118-138; since 4290b4f taken before any
    temporary is allocated). -/
theorem rootremInternal_one (a k : Nat) (ap : Bool) (ha : 0 < a) (hk : bitLen a ≤ k) :
    rootremInternal a k ap = (1, a - 1, false) := by
  unfold rootremInternal
  dsimp only
  rw [if_pos (xnb_one a k ha hk)]

theorem rootremBasecase_one (a k : Nat) (ha : 0 < a) (hk : bitLen a ≤ k) :
    rootremBasecase a k = (1, a - 1) := by
  unfold rootremBasecase
  dsimp only
  rw [if_pos (xnb_one a k ha hk)]

/-- mpn_rootrem with a root index at least the bit length of the operand: root 1, remainder `a − 1`,
    on every dispatch path. -/
theorem rootrem_one (a un k : Nat) (w : Bool) (ha : 0 < a) (hk : bitLen a ≤ k) (hun : un ≤ k) :
    rootrem a un k w = (1, a - 1) := by
  unfold rootrem
  by_cases h1 : un < rootremThreshold
  · rw [if_pos h1]; exact rootremBasecase_one a k ha hk
  · rw [if_neg h1]
    have h2 : ¬ ((!w && decide (un / k > 2)) = true) := by
      have : un / k ≤ 1 := by
        have hk0 : 0 < k := by have := bitLen_spec a ha; omega
        rw [Nat.div_le_iff_le_mul_add_pred hk0]; omega
      simp; intro _; omega
    rw [if_neg h2, rootremInternal_one a k false ha hk]

theorem limbCount_le_bitLen (a : Nat) (ha : 0 < a) : limbCount a ≤ bitLen a := by
  obtain ⟨w1, w2, w3⟩ := natLimbs_wf a (by omega)
  obtain ⟨g1, _, _⟩ := val_getLast _ w1 w2
  rw [(val_natLimbs a).1] at g1
  obtain ⟨_, b2, _⟩ := bitLen_spec a ha
  unfold limbCount
  generalize (natLimbs a).length = L at *
  by_contra hc
  have h1 : 1 * B ^ (L - 1) ≤ (natLimbs a).getLastD 0 * B ^ (L - 1) :=
    Nat.mul_le_mul_right _ (Nat.pos_of_ne_zero w3)
  have h2 : (2:Nat) ^ (L - 1) ≤ B ^ (L - 1) := Nat.pow_le_pow_left (by unfold B; norm_num) _
  have h3 : (2:Nat) ^ bitLen a ≤ 2 ^ (L - 1) := Nat.pow_le_pow_right (by norm_num) (by omega)
  omega


/-- the contract of mpn_rootrem holds outright when the index is at least the operand's bit length. -/
theorem rootremAt_huge (a k : Nat) (ha : 0 < a) (hk : bitLen a ≤ k) : RootremAt a k := by
  have hk0 : 0 < k := by have := bitLen_spec a ha; omega
  have h1 := iroot_eq_one a k ha hk hk0
  intro w
  rw [rootrem_one a (limbCount a) k w ha hk (Nat.le_trans (limbCount_le_bitLen a ha) hk), h1]
  refine ⟨rfl, ?_, fun _ => by simp⟩
  simp only [Nat.one_pow]
  omega


end Mpir.Root
