/- Helper lemmas for the C09 models (Mpir/Model/Root.lean). -/
import MpirProofs.Lemmas.Base
import Mpir.Model.Root
import Mathlib.Tactic.Ring
import Mathlib.Tactic.Linarith
import Mathlib.Tactic.NormNum
import Mathlib.Data.Nat.ModEq
namespace Mpir.Root
open Mpir Mpir.Gen.SqrtTabs


/-! ### the mod-256 probe -/

/-- kernel-checked fact about the regenerated `sq_res_0x100`: every square residue has its bit set. -/
theorem sqRes256_table : ∀ j < 256, sqRes256 (j * j % 256) = true := by decide +kernel

theorem sqRes256_mod (lo : Nat) : sqRes256 lo = sqRes256 (lo % 256) := by
  simp [sqRes256]

theorem sqRes256_sq (k : Nat) : sqRes256 (k * k % B) = true := by
  rw [sqRes256_mod]
  have h : k * k % B % 256 = (k % 256) * (k % 256) % 256 := by
    rw [Nat.mod_mod_of_dvd _ (by unfold B; norm_num : 256 ∣ B), Nat.mul_mod]
  rw [h]
  exact sqRes256_table _ (Nat.mod_lt _ (by norm_num))

/-! ### PERFSQR_MOD_1 / PERFSQR_MOD_2 -/

/-- what a regenerated test entry must satisfy (decidable; checked by the kernel on the whole table):
    `d` divides `2^48 - 1`, `inv·d ≡ 1 (mod 2^49)`, the product `q·d` cannot wrap, and for every square
    residue `j² mod d` the bit at the index the modexact step produces is set. -/
def testOK (t : ModTest) : Bool :=
  decide (0 < t.d) && decide ((2 ^ mod34Bits - 1) % t.d = 0) && decide (t.inv * t.d % 2 ^ perfsqrModBits = 1)
    && decide (t.d * 2 ^ perfsqrModBits ≤ B)
    && (List.range t.d).all fun j => (List.range t.d).all fun i =>
        !decide ((i * 2 ^ perfsqrModBits + j * j) % t.d = 0) || perfsqrBit t i

theorem perfsqrTests_ok : perfsqrTests.all testOK = true := by decide +kernel

theorem bits_facts : perfsqrModBits ≤ 63 ∧ mod34Bits + 1 = perfsqrModBits ∧ mod34Bits = 48 := by decide


theorem and_mask (x k : Nat) (hk : k ≤ 63) : x % B &&& ((1 <<< k) % B - 1) = x % 2 ^ k := by
  have h1 : (1 <<< k) % B = 2 ^ k := by
    rw [Nat.one_shiftLeft]
    apply Nat.mod_eq_of_lt
    unfold B
    exact Nat.pow_lt_pow_right (by norm_num) (by omega)
  rw [h1, Nat.and_two_pow_sub_one_eq_mod]
  exact Nat.mod_mod_of_dvd _ (by unfold B; exact Nat.pow_dvd_pow 2 (by omega))

/-- the modexact step: for `r < 2^49` the index satisfies `idx < d` and `d ∣ idx·2^49 + r`. -/
theorem perfsqrIdx_spec (t : ModTest) (r : Nat) (hd : 0 < t.d)
    (hinv : t.inv * t.d % 2 ^ perfsqrModBits = 1) (hw : t.d * 2 ^ perfsqrModBits ≤ B)
    (hr : r < 2 ^ perfsqrModBits) :
    perfsqrIdx t r < t.d ∧ (perfsqrIdx t r * 2 ^ perfsqrModBits + r) % t.d = 0 := by
  have hb := bits_facts.1
  unfold perfsqrIdx
  dsimp only
  rw [and_mask _ _ hb]
  generalize perfsqrModBits = m at *
  set q := r * t.inv % 2 ^ m with hq
  have hqlt : q < 2 ^ m := Nat.mod_lt _ (by positivity)
  have hqd : q * t.d < B := by nlinarith
  rw [Nat.mod_eq_of_lt hqd, Nat.shiftRight_eq_div_pow]
  have hlow : q * t.d % 2 ^ m = r := by
    rw [hq, Nat.mod_mul_mod, Nat.mul_assoc, Nat.mul_mod, hinv, Nat.mul_one, Nat.mod_mod, Nat.mod_eq_of_lt hr]
  have hdiv := Nat.div_add_mod (q * t.d) (2 ^ m)
  rw [hlow] at hdiv
  constructor
  · apply Nat.div_lt_of_lt_mul
    nlinarith
  · have : q * t.d / 2 ^ m * 2 ^ m + r = q * t.d := by linarith [Nat.mul_comm (2 ^ m) (q * t.d / 2 ^ m)]
    rw [this]; exact Nat.mul_mod_left _ _

/-- one residue test never rejects a square: `r ≡ k² (mod 2^48-1)`, `r < 2^49`. -/
theorem perfsqrTest_sq (t : ModTest) (ht : testOK t = true) (k r : Nat) (hr : r < 2 ^ perfsqrModBits)
    (hmod : r % (2 ^ mod34Bits - 1) = k * k % (2 ^ mod34Bits - 1)) : perfsqrTest t r = true := by
  simp only [testOK, Bool.and_eq_true, decide_eq_true_eq, List.all_eq_true, List.mem_range,
    Bool.or_eq_true, Bool.not_eq_true', decide_eq_false_iff_not] at ht
  obtain ⟨⟨⟨⟨hd, hdvd⟩, hinv⟩, hw⟩, htab⟩ := ht
  obtain ⟨hlt, hz⟩ := perfsqrIdx_spec t r hd hinv hw hr
  have hrd : r % t.d = k * k % t.d := by
    have h1 := Nat.mod_mod_of_dvd r (Nat.dvd_of_mod_eq_zero hdvd)
    have h2 := Nat.mod_mod_of_dvd (k * k) (Nat.dvd_of_mod_eq_zero hdvd)
    rw [← h1, ← h2, hmod]
  have hz' : (perfsqrIdx t r * 2 ^ perfsqrModBits + (k % t.d) * (k % t.d)) % t.d = 0 := by
    rw [Nat.add_mod, ← Nat.mul_mod, ← hrd, ← Nat.add_mod]; exact hz
  rcases htab (k % t.d) (Nat.mod_lt _ hd) _ hlt with h | h
  · exact absurd hz' h
  · exact h


/-! ### mpn_mod_34lsub1 -/


theorem parts0_congr (x : Nat) : m34Parts0 x % (2 ^ 48 - 1) = x % (2 ^ 48 - 1) := by
  unfold m34Parts0
  rw [Nat.and_two_pow_sub_one_eq_mod, Nat.shiftRight_eq_div_pow]
  norm_num
  omega

theorem parts1_congr (x : Nat) : m34Parts1 x % (2 ^ 48 - 1) = (x * 2 ^ 64) % (2 ^ 48 - 1) := by
  unfold m34Parts1
  rw [Nat.and_two_pow_sub_one_eq_mod, Nat.shiftRight_eq_div_pow, Nat.shiftLeft_eq]
  norm_num
  omega

theorem parts2_congr (x : Nat) : m34Parts2 x % (2 ^ 48 - 1) = (x * 2 ^ 128) % (2 ^ 48 - 1) := by
  unfold m34Parts2
  rw [Nat.and_two_pow_sub_one_eq_mod, Nat.shiftRight_eq_div_pow, Nat.shiftLeft_eq]
  norm_num
  omega

theorem parts_bound (x : Nat) (hx : x < B) : m34Parts0 x < 2 ^ 49 ∧ m34Parts1 x < 2 ^ 49 ∧ m34Parts2 x < 2 ^ 49 := by
  unfold m34Parts0 m34Parts1 m34Parts2
  simp only [Nat.and_two_pow_sub_one_eq_mod, Nat.shiftRight_eq_div_pow, Nat.shiftLeft_eq, B_eq] at *
  norm_num
  omega

/-- ADD (c, a, val): exact two-limb accumulation while the carry counter cannot wrap. -/
theorem m34Add_spec (a c v : Nat) (ha : a < B) (hv : v < B) (hc : c + 1 < B) :
    (m34Add a c v).1 + B * (m34Add a c v).2 = a + B * c + v ∧ (m34Add a c v).1 < B ∧
    (m34Add a c v).2 ≤ c + 1 := by
  unfold m34Add boolToNat
  simp only [B_eq] at *
  by_cases h : (a + v) % 18446744073709551616 < v <;> simp only [h, decide_true, decide_false, Bool.false_eq_true, if_true, if_false, ↓reduceIte] <;> omega

def M34.acc (st : M34) : Nat :=
  (st.a0 + B * st.c0) + B * (st.a1 + B * st.c1) + B ^ 2 * (st.a2 + B * st.c2)

def M34.ok (st : M34) (n : Nat) : Prop :=
  st.a0 < B ∧ st.a1 < B ∧ st.a2 < B ∧ st.c0 + n < B ∧ st.c1 + n < B ∧ st.c2 + n < B

theorem B3_modEq : B ^ 3 ≡ 1 [MOD B ^ 3 - 1] :=
  Nat.modEq_sub (Nat.one_le_pow _ _ B_pos)

theorem m34Loop_spec : ∀ (p : List Nat) (st : M34), Limbs p → st.ok p.length →
    (m34Loop p st).acc ≡ st.acc + val p [MOD B ^ 3 - 1] ∧ (m34Loop p st).ok 0
  | [], st, _, hok => by simpa [m34Loop, Nat.ModEq] using hok
  | [p0], st, hp, hok => by
    obtain ⟨h0, h1, h2, hc0, hc1, hc2⟩ := hok
    have hp0 := (Limbs_cons.mp hp).1
    obtain ⟨e, b, c⟩ := m34Add_spec st.a0 st.c0 p0 h0 hp0 (by simpa using hc0)
    simp only [m34Loop, M34.acc, M34.ok, val_cons, val_nil, List.length_cons, List.length_nil] at *
    refine ⟨?_, b, h1, h2, by omega, by omega, by omega⟩
    unfold Nat.ModEq; congr 1
    generalize (m34Add st.a0 st.c0 p0).1 = x at *
    generalize (m34Add st.a0 st.c0 p0).2 = y at *
    nlinarith
  | [p0, p1], st, hp, hok => by
    obtain ⟨h0, h1, h2, hc0, hc1, hc2⟩ := hok
    have ⟨hp0, hp'⟩ := Limbs_cons.mp hp
    have hp1 := (Limbs_cons.mp hp').1
    simp only [List.length_cons, List.length_nil] at hc0 hc1 hc2
    obtain ⟨e0, b0, c0⟩ := m34Add_spec st.a0 st.c0 p0 h0 hp0 (by omega)
    obtain ⟨e1, b1, c1⟩ := m34Add_spec st.a1 st.c1 p1 h1 hp1 (by omega)
    simp only [m34Loop, M34.acc, M34.ok, val_cons, val_nil] at *
    refine ⟨?_, b0, b1, h2, by omega, by omega, by omega⟩
    unfold Nat.ModEq; congr 1
    generalize (m34Add st.a0 st.c0 p0).1 = x0 at *
    generalize (m34Add st.a0 st.c0 p0).2 = y0 at *
    generalize (m34Add st.a1 st.c1 p1).1 = x1 at *
    generalize (m34Add st.a1 st.c1 p1).2 = y1 at *
    nlinarith
  | p0 :: p1 :: p2 :: rest, st, hp, hok => by
    obtain ⟨h0, h1, h2, hc0, hc1, hc2⟩ := hok
    have ⟨hp0, hp'⟩ := Limbs_cons.mp hp
    have ⟨hp1, hp''⟩ := Limbs_cons.mp hp'
    have ⟨hp2, hrest⟩ := Limbs_cons.mp hp''
    simp only [List.length_cons] at hc0 hc1 hc2
    obtain ⟨e0, b0, c0⟩ := m34Add_spec st.a0 st.c0 p0 h0 hp0 (by omega)
    obtain ⟨e1, b1, c1⟩ := m34Add_spec st.a1 st.c1 p1 h1 hp1 (by omega)
    obtain ⟨e2, b2, c2⟩ := m34Add_spec st.a2 st.c2 p2 h2 hp2 (by omega)
    have ih := m34Loop_spec rest
      ⟨(m34Add st.a0 st.c0 p0).1, (m34Add st.a1 st.c1 p1).1, (m34Add st.a2 st.c2 p2).1,
       (m34Add st.a0 st.c0 p0).2, (m34Add st.a1 st.c1 p1).2, (m34Add st.a2 st.c2 p2).2⟩ hrest
      ⟨b0, b1, b2, by simp only; omega, by simp only; omega, by simp only; omega⟩
    simp only [m34Loop]
    refine ⟨?_, ih.2⟩
    refine ih.1.trans ?_
    simp only [M34.acc, val_cons]
    generalize (m34Add st.a0 st.c0 p0).1 = x0 at *
    generalize (m34Add st.a0 st.c0 p0).2 = y0 at *
    generalize (m34Add st.a1 st.c1 p1).1 = x1 at *
    generalize (m34Add st.a1 st.c1 p1).2 = y1 at *
    generalize (m34Add st.a2 st.c2 p2).1 = x2 at *
    generalize (m34Add st.a2 st.c2 p2).2 = y2 at *
    have key : x0 + B * y0 + B * (x1 + B * y1) + B ^ 2 * (x2 + B * y2) + val rest
        = st.a0 + B * st.c0 + B * (st.a1 + B * st.c1) + B ^ 2 * (st.a2 + B * st.c2)
          + (p0 + B * p1 + B ^ 2 * p2) + 1 * val rest := by nlinarith
    have tgt : st.a0 + B * st.c0 + B * (st.a1 + B * st.c1) + B ^ 2 * (st.a2 + B * st.c2)
          + (p0 + B * (p1 + B * (p2 + B * val rest)))
        = st.a0 + B * st.c0 + B * (st.a1 + B * st.c1) + B ^ 2 * (st.a2 + B * st.c2)
          + (p0 + B * p1 + B ^ 2 * p2) + B ^ 3 * val rest := by ring
    rw [key, tgt]
    exact Nat.ModEq.add_left _ (B3_modEq.symm.mul_right _)


theorem dvd_B3 : (2 ^ 48 - 1) ∣ B ^ 3 - 1 := by unfold B; norm_num

/-- mpn_mod_34lsub1 returns a limb congruent to `{p, n}` modulo `2^48 - 1`
    (`n/3 < GMP_NUMB_MAX` is the C's ASSERT; `p.length < B - 1` is a little stronger and always true). -/
theorem mod34lsub1_congr (p : List Nat) (hp : Limbs p) (hn : p.length + 1 < B) :
    mod34lsub1 p % (2 ^ 48 - 1) = val p % (2 ^ 48 - 1) ∧ mod34lsub1 p < B := by
  obtain ⟨hc, h0, h1, h2, hc0, hc1, hc2⟩ := m34Loop_spec p ⟨0, 0, 0, 0, 0, 0⟩ hp
    ⟨B_pos, B_pos, B_pos, by simpa using by omega, by simpa using by omega, by simpa using by omega⟩
  have hc' := Nat.ModEq.of_dvd dvd_B3 hc
  unfold mod34lsub1
  dsimp only
  generalize m34Loop p ⟨0, 0, 0, 0, 0, 0⟩ = st at *
  simp only [Nat.add_zero] at hc0 hc1 hc2
  obtain ⟨p0a, -, -⟩ := parts_bound st.a0 h0
  obtain ⟨-, p1a, -⟩ := parts_bound st.a1 h1
  obtain ⟨-, -, p2a⟩ := parts_bound st.a2 h2
  obtain ⟨-, p1c, -⟩ := parts_bound st.c0 hc0
  obtain ⟨-, -, p2c⟩ := parts_bound st.c1 hc1
  obtain ⟨p0c, -, -⟩ := parts_bound st.c2 hc2
  have hV : m34Parts0 st.a0 + m34Parts1 st.a1 + m34Parts2 st.a2 + m34Parts1 st.c0 + m34Parts2 st.c1
      + m34Parts0 st.c2 < B := by simp only [B_eq]; omega
  rw [Nat.mod_eq_of_lt hV]
  refine ⟨?_, hV⟩
  have e : m34Parts0 st.a0 + m34Parts1 st.a1 + m34Parts2 st.a2 + m34Parts1 st.c0 + m34Parts2 st.c1
      + m34Parts0 st.c2 ≡ st.a0 + st.a1 * 2 ^ 64 + st.a2 * 2 ^ 128 + st.c0 * 2 ^ 64 + st.c1 * 2 ^ 128
        + st.c2 [MOD 2 ^ 48 - 1] :=
    ((((Nat.ModEq.add (parts0_congr st.a0) (parts1_congr st.a1)).add (parts2_congr st.a2)).add
      (parts1_congr st.c0)).add (parts2_congr st.c1)).add (parts0_congr st.c2)
  have hB3 : B ^ 3 ≡ 1 [MOD 2 ^ 48 - 1] := by unfold B; decide
  have e2 : st.acc ≡ st.a0 + st.a1 * 2 ^ 64 + st.a2 * 2 ^ 128 + st.c0 * 2 ^ 64 + st.c1 * 2 ^ 128
      + st.c2 [MOD 2 ^ 48 - 1] := by
    have : st.acc = st.a0 + st.a1 * 2 ^ 64 + st.a2 * 2 ^ 128 + st.c0 * 2 ^ 64 + st.c1 * 2 ^ 128
        + B ^ 3 * st.c2 := by unfold M34.acc B; ring
    rw [this]
    have := hB3.mul_right st.c2
    rw [Nat.one_mul] at this
    exact Nat.ModEq.add_left _ this
  have hc'' : st.acc ≡ val p [MOD 2 ^ 48 - 1] := by simpa [M34.acc] using hc'
  exact (e.trans e2.symm).trans hc''

theorem perfsqrFold_spec (r : Nat) (hr : r < B) :
    perfsqrFold r % (2 ^ 48 - 1) = r % (2 ^ 48 - 1) ∧ perfsqrFold r < 2 ^ 49 := by
  unfold perfsqrFold
  have : mod34Bits = 48 := by decide
  rw [this]
  have h1 : (1 <<< 48) % B = 2 ^ 48 := by unfold B; decide
  rw [h1, Nat.and_two_pow_sub_one_eq_mod, Nat.shiftRight_eq_div_pow]
  simp only [B_eq] at hr
  norm_num
  omega


end Mpir.Root
