/- Helper lemmas for the C09 models (Mpir/Model/Root.lean). -/
import MpirProofs.Lemmas.Base
import Mpir.Model.Root
namespace Mpir.Root
end Mpir.Root
