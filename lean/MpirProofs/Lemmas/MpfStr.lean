/- Helper lemmas for the mpf_set_str / mpf_get_str model (Mpir/Model/MpfStr.lean):
   limb counts, truncation to the top limbs, the one-sided approximation relation `Appr` in which the
   truncation errors of mpn_pow_1_highpart are accumulated, and the invariant of its loop. -/
import MpirProofs.Lemmas.Mpf
import Mpir.Model.MpfStr
import Mathlib.Tactic.Ring
import Mathlib.Tactic.Linarith
import Mathlib.Tactic.Positivity
import Mathlib.Tactic.FieldSimp
import Mathlib.Tactic.NormNum
import Mathlib.Tactic.Push
import Mathlib.Algebra.Order.Field.Power
namespace Mpir.MpfStr
open Mpir Mpir.Mpf

/-! ### limb counts -/

theorem B_pow' (n : Nat) : B ^ n = 2 ^ (64 * n) := by unfold B; rw [← pow_mul]

theorem limbLen_zero : limbLen 0 = 0 := by simp [limbLen]

theorem limbLen_spec {v : Nat} (hv : v ≠ 0) : B ^ (limbLen v - 1) ≤ v ∧ v < B ^ limbLen v := by
  unfold limbLen; rw [if_neg hv]
  have h1 : 2 ^ v.log2 ≤ v := Nat.log2_self_le hv
  have h2 : v < 2 ^ (v.log2 + 1) := Nat.lt_log2_self
  constructor
  · rw [B_pow']
    calc 2 ^ (64 * (v.log2 / 64 + 1 - 1)) ≤ 2 ^ v.log2 := Nat.pow_le_pow_right (by norm_num) (by omega)
      _ ≤ v := h1
  · rw [B_pow']
    calc v < 2 ^ (v.log2 + 1) := h2
      _ ≤ 2 ^ (64 * (v.log2 / 64 + 1)) := Nat.pow_le_pow_right (by norm_num) (by omega)

theorem limbLen_pos {v : Nat} (hv : v ≠ 0) : 1 ≤ limbLen v := by
  unfold limbLen; rw [if_neg hv]; omega

/-- the limb count is characterised by the two bounds -/
theorem limbLen_eq {v n : Nat} (hn : 1 ≤ n) (h1 : B ^ (n - 1) ≤ v) (h2 : v < B ^ n) : limbLen v = n := by
  have hv : v ≠ 0 := by
    intro h; rw [h] at h1; have := Bpow_pos (n - 1); omega
  obtain ⟨a, b⟩ := limbLen_spec hv
  have hp := limbLen_pos hv
  have hB : 1 < B := one_lt_B
  by_contra hne
  rcases Nat.lt_or_gt_of_ne hne with h | h
  · have : B ^ limbLen v ≤ B ^ (n - 1) := Nat.pow_le_pow_right B_pos (by omega)
    omega
  · have : B ^ n ≤ B ^ (limbLen v - 1) := Nat.pow_le_pow_right B_pos (by omega)
    omega

theorem limbLen_mul_Bpow {v : Nat} (hv : v ≠ 0) (k : Nat) : limbLen (v * B ^ k) = limbLen v + k := by
  obtain ⟨a, b⟩ := limbLen_spec hv
  have hp := limbLen_pos hv
  apply limbLen_eq (by omega)
  · have : limbLen v + k - 1 = (limbLen v - 1) + k := by omega
    rw [this, pow_add]; exact Nat.mul_le_mul_right _ a
  · rw [pow_add]; exact Nat.mul_lt_mul_of_pos_right b (Bpow_pos k)

/-! ### keeping the top limbs -/

/-- `keepTop P v = (t, d)`: `t` is `v` without its `d` low limbs, has `min (limbLen v) P` limbs, and nothing
    is dropped when `v` has at most `P` limbs -/
theorem keepTop_spec (P : Nat) (hP : 1 ≤ P) {v : Nat} (hv : v ≠ 0) :
    (keepTop P v).1 * B ^ (keepTop P v).2 ≤ v ∧ v < ((keepTop P v).1 + 1) * B ^ (keepTop P v).2 ∧
    limbLen (keepTop P v).1 = min (limbLen v) P ∧ (keepTop P v).1 ≠ 0 ∧
    limbLen v = limbLen (keepTop P v).1 + (keepTop P v).2 ∧
    (limbLen v ≤ P → keepTop P v = (v, 0)) := by
  obtain ⟨a, b⟩ := limbLen_spec hv
  have hp := limbLen_pos hv
  unfold keepTop
  by_cases h : limbLen v > P
  · simp only [h, if_true]
    set d := limbLen v - P with hd
    have hBd := Bpow_pos d
    have hq1 : v / B ^ d * B ^ d ≤ v := Nat.div_mul_le_self v _
    have hq2 : v < (v / B ^ d + 1) * B ^ d := by
      have := Nat.lt_succ_iff.mpr (Nat.le_refl (v / B ^ d))
      have h3 := Nat.div_add_mod v (B ^ d)
      have h4 := Nat.mod_lt v hBd
      nlinarith
    have hlo : B ^ (P - 1) ≤ v / B ^ d := by
      rw [Nat.le_div_iff_mul_le hBd, ← pow_add]
      have : P - 1 + d = limbLen v - 1 := by omega
      rw [this]; exact a
    have hhi : v / B ^ d < B ^ P := by
      rw [Nat.div_lt_iff_lt_mul hBd, ← pow_add]
      have : P + d = limbLen v := by omega
      rw [this]; exact b
    have hl : limbLen (v / B ^ d) = P := limbLen_eq hP hlo hhi
    have hne : v / B ^ d ≠ 0 := by
      have := Bpow_pos (P - 1); omega
    refine ⟨hq1, hq2, ?_, hne, ?_, ?_⟩
    · rw [hl]; omega
    · rw [hl]; omega
    · intro h'; omega
  · simp only [h, if_false]
    refine ⟨by simp, by simp, ?_, hv, by simp, by simp⟩
    omega

/-! ### one-sided approximation with accumulated truncation factors -/

/-- `x` approximates `v` from below within `k` factors `(1 - ε)` -/
def Appr (ε : ℚ) (x v : ℚ) (k : ℕ) : Prop := v * (1 - ε) ^ k ≤ x ∧ x ≤ v

section appr
set_option linter.unusedSectionVars false
variable {ε : ℚ} (h0 : 0 ≤ ε) (h1 : ε ≤ 1)
include h0 h1

theorem one_sub_nonneg : 0 ≤ 1 - ε := by linarith
theorem one_sub_le_one : 1 - ε ≤ 1 := by linarith

theorem Appr.refl (v : ℚ) : Appr ε v v 0 := by unfold Appr; simp

theorem Appr.mono {x v : ℚ} {k k' : ℕ} (hv : 0 ≤ v) (h : Appr ε x v k) (hk : k ≤ k') : Appr ε x v k' := by
  refine ⟨le_trans ?_ h.1, h.2⟩
  apply mul_le_mul_of_nonneg_left _ hv
  exact pow_le_pow_of_le_one (one_sub_nonneg h0 h1) (one_sub_le_one h0 h1) hk

theorem Appr.trans {x y v : ℚ} {j k : ℕ} (hxy : Appr ε x y j) (hyv : Appr ε y v k) :
    Appr ε x v (j + k) := by
  refine ⟨?_, le_trans hxy.2 hyv.2⟩
  have hp : 0 ≤ (1 - ε) ^ j := pow_nonneg (one_sub_nonneg h0 h1) j
  calc v * (1 - ε) ^ (j + k) = (v * (1 - ε) ^ k) * (1 - ε) ^ j := by rw [pow_add]; ring
    _ ≤ y * (1 - ε) ^ j := mul_le_mul_of_nonneg_right hyv.1 hp
    _ ≤ x := hxy.1

theorem Appr.mul_const {x v : ℚ} {k : ℕ} (h : Appr ε x v k) {c : ℚ} (hc : 0 ≤ c) : Appr ε (x * c) (v * c) k := by
  refine ⟨?_, mul_le_mul_of_nonneg_right h.2 hc⟩
  calc v * c * (1 - ε) ^ k = (v * (1 - ε) ^ k) * c := by ring
    _ ≤ x * c := mul_le_mul_of_nonneg_right h.1 hc

theorem Appr.nonneg {x v : ℚ} {k : ℕ} (hv : 0 ≤ v) (h : Appr ε x v k) : 0 ≤ x :=
  le_trans (mul_nonneg hv (pow_nonneg (one_sub_nonneg h0 h1) k)) h.1

theorem Appr.mul {x v y w : ℚ} {j k : ℕ} (hv : 0 ≤ v) (hw : 0 ≤ w) (hx : Appr ε x v j) (hy : Appr ε y w k) :
    Appr ε (x * y) (v * w) (j + k) := by
  have hx0 := Appr.nonneg h0 h1 hv hx
  have hy0 := Appr.nonneg h0 h1 hw hy
  refine ⟨?_, mul_le_mul hx.2 hy.2 hy0 hv⟩
  have hpj : 0 ≤ (1 - ε) ^ j := pow_nonneg (one_sub_nonneg h0 h1) j
  have hpk : 0 ≤ (1 - ε) ^ k := pow_nonneg (one_sub_nonneg h0 h1) k
  calc v * w * (1 - ε) ^ (j + k) = (v * (1 - ε) ^ j) * (w * (1 - ε) ^ k) := by rw [pow_add]; ring
    _ ≤ x * y := mul_le_mul hx.1 hy.1 (mul_nonneg hw hpk) hx0

theorem Appr.sq {x v : ℚ} {k : ℕ} (hv : 0 ≤ v) (h : Appr ε x v k) : Appr ε (x * x) (v * v) (2 * k) := by
  have := Appr.mul h0 h1 hv hv h h
  rwa [← two_mul] at this

/-- Bernoulli: the accumulated factor loses at most `k ε` -/
theorem one_sub_pow_ge (k : ℕ) : 1 - (k : ℚ) * ε ≤ (1 - ε) ^ k := by
  have := one_add_mul_le_pow (show (-2 : ℚ) ≤ -ε by linarith) k
  calc 1 - (k : ℚ) * ε = 1 + (k : ℚ) * (-ε) := by ring
    _ ≤ (1 + -ε) ^ k := this
    _ = (1 - ε) ^ k := by ring_nf

theorem Appr.err {x v : ℚ} {k : ℕ} (hv : 0 ≤ v) (h : Appr ε x v k) : v - x ≤ (k : ℚ) * ε * v := by
  have := one_sub_pow_ge h0 h1 k
  have : v * (1 - (k : ℚ) * ε) ≤ x := le_trans (mul_le_mul_of_nonneg_left this hv) h.1
  linarith

end appr

/-- truncation to the top `P` limbs is one factor `(1 - 1/B^(P-1))` -/
theorem appr_keepTop (P : Nat) (hP : 1 ≤ P) {v : Nat} (hv : v ≠ 0) :
    Appr (1 / (B : ℚ) ^ (P - 1)) (((keepTop P v).1 : ℚ) * (B : ℚ) ^ (keepTop P v).2) (v : ℚ) 1 := by
  obtain ⟨a, b, c, d, e, f⟩ := keepTop_spec P hP hv
  have hBq : (0 : ℚ) < (B : ℚ) ^ (P - 1) := pow_pos Bq_pos _
  by_cases hle : limbLen v ≤ P
  · rw [f hle]
    have h0 : (0 : ℚ) ≤ 1 / (B : ℚ) ^ (P - 1) := by positivity
    have h1 : 1 / (B : ℚ) ^ (P - 1) ≤ 1 := by
      rw [div_le_one hBq]; exact one_le_pow₀ (by exact_mod_cast B_pos)
    have := Appr.mono h0 h1 (Nat.cast_nonneg v) (Appr.refl h0 h1 (v : ℚ)) (Nat.zero_le 1)
    simpa using this
  · set t := (keepTop P v).1
    set dd := (keepTop P v).2
    have hlt : limbLen t = P := by rw [c]; omega
    obtain ⟨t1, _⟩ := limbLen_spec d
    rw [hlt] at t1
    refine ⟨?_, by exact_mod_cast a⟩
    -- v (1 - ε) ≤ t B^dd  ⟸  v - t B^dd < B^dd ≤ t B^dd ε ≤ v ε
    have hb' : (v : ℚ) < ((t : ℚ) + 1) * (B : ℚ) ^ dd := by exact_mod_cast b
    have ha' : (t : ℚ) * (B : ℚ) ^ dd ≤ (v : ℚ) := by exact_mod_cast a
    have ht1 : (B : ℚ) ^ (P - 1) ≤ (t : ℚ) := by exact_mod_cast t1
    have hBd : (0 : ℚ) < (B : ℚ) ^ dd := pow_pos Bq_pos _
    have key : (B : ℚ) ^ dd ≤ (v : ℚ) * (1 / (B : ℚ) ^ (P - 1)) := by
      rw [mul_one_div, le_div_iff₀ hBq]
      calc (B : ℚ) ^ dd * (B : ℚ) ^ (P - 1) ≤ (B : ℚ) ^ dd * (t : ℚ) := mul_le_mul_of_nonneg_left ht1 hBd.le
        _ = (t : ℚ) * (B : ℚ) ^ dd := by ring
        _ ≤ v := ha'
    rw [pow_one]
    nlinarith

/-! ### mpn_pow_1_highpart -/

/-- ε of a `P`-limb truncation -/
def epsP (P : Nat) : ℚ := 1 / (B : ℚ) ^ (P - 1)

theorem epsP_nonneg (P : Nat) : 0 ≤ epsP P := by unfold epsP; positivity
theorem epsP_le_one (P : Nat) : epsP P ≤ 1 := by
  unfold epsP
  rw [div_le_one (pow_pos Bq_pos _)]; exact one_le_pow₀ (by exact_mod_cast B_pos)

theorem powLoop_one (base P : Nat) : powLoop base P 1 = (base, 0) := by
  rw [powLoop]; simp

theorem powLoop_step (base P e : Nat) (he : 2 ≤ e) :
    powLoop base P e = powStep base P (powLoop base P (e / 2)) (e % 2 == 1) := by
  rw [powLoop]; simp [show ¬ e ≤ 1 by omega]

/-- invariant of the squaring loop: the state is base^e from below within e-1 truncation factors -/
theorem powLoop_appr (base P : Nat) (hb : 1 ≤ base) (hP : 1 ≤ P) : ∀ e : Nat, 1 ≤ e →
    (powLoop base P e).1 ≠ 0 ∧
    Appr (epsP P) (((powLoop base P e).1 : ℚ) * (B : ℚ) ^ (powLoop base P e).2) ((base : ℚ) ^ e) (e - 1) := by
  intro e
  induction e using Nat.strong_induction_on with
  | _ e ih =>
    intro he
    have h0 := epsP_nonneg P
    have h1 := epsP_le_one P
    by_cases h2 : e = 1
    · subst h2
      rw [powLoop_one]
      refine ⟨by simp; omega, ?_⟩
      simpa using Appr.refl h0 h1 (base : ℚ)
    · have he2 : 2 ≤ e := by omega
      obtain ⟨r0, a0⟩ := ih (e / 2) (by omega) (by omega)
      rw [powLoop_step base P e he2]
      set st := powLoop base P (e / 2) with hst
      have hsq : st.1 * st.1 ≠ 0 := Nat.mul_ne_zero r0 r0
      obtain ⟨_, _, _, kne, _, _⟩ := keepTop_spec P hP hsq
      have ak := appr_keepTop P hP hsq
      have hbq : (0 : ℚ) ≤ (base : ℚ) := Nat.cast_nonneg _
      have hbe : (0 : ℚ) ≤ (base : ℚ) ^ (e / 2) := pow_nonneg hbq _
      -- squared state
      have asq := Appr.sq h0 h1 hbe a0
      have hBi : (0 : ℚ) ≤ (B : ℚ) ^ (2 * st.2) := (pow_pos Bq_pos _).le
      have ak' := Appr.mul_const h0 h1 ak hBi
      have e1 : ((st.1 * st.1 : ℕ) : ℚ) * (B : ℚ) ^ (2 * st.2) =
          (st.1 : ℚ) * (B : ℚ) ^ st.2 * ((st.1 : ℚ) * (B : ℚ) ^ st.2) := by
        push_cast; rw [two_mul, pow_add]; ring
      rw [e1] at ak'
      have tr := Appr.trans h0 h1 ak' asq
      have e2 : (base : ℚ) ^ (e / 2) * (base : ℚ) ^ (e / 2) = (base : ℚ) ^ (2 * (e / 2)) := by
        rw [two_mul, pow_add]
      rw [e2] at tr
      set k := keepTop P (st.1 * st.1) with hk
      have e3 : (k.1 : ℚ) * (B : ℚ) ^ k.2 * (B : ℚ) ^ (2 * st.2) = (k.1 : ℚ) * (B : ℚ) ^ (2 * st.2 + k.2) := by
        rw [pow_add]; ring
      rw [e3] at tr
      have hpos : (0 : ℚ) ≤ (base : ℚ) ^ (2 * (e / 2)) := pow_nonneg hbq _
      unfold powStep
      by_cases hbit : e % 2 = 1
      · have : (e % 2 == 1) = true := by simp [hbit]
        simp only [this, if_true]
        refine ⟨Nat.mul_ne_zero kne (by omega), ?_⟩
        have m := Appr.mul_const h0 h1 tr hbq
        have e4 : (base : ℚ) ^ (2 * (e / 2)) * (base : ℚ) = (base : ℚ) ^ e := by
          rw [← pow_succ]; congr 1; omega
        rw [e4] at m
        have e5 : ((k.1 * base : ℕ) : ℚ) * (B : ℚ) ^ (2 * st.2 + k.2) =
            (k.1 : ℚ) * (B : ℚ) ^ (2 * st.2 + k.2) * (base : ℚ) := by push_cast; ring
        rw [e5]
        exact Appr.mono h0 h1 (pow_nonneg hbq _) m (by omega)
      · have : (e % 2 == 1) = false := by simp [hbit]
        simp only [this]
        refine ⟨kne, ?_⟩
        have e4 : 2 * (e / 2) = e := by omega
        rw [e4] at tr hpos
        exact Appr.mono h0 h1 hpos tr (by omega)

/-- mpn_pow_1_highpart: the returned limbs (at most `P`, top limb non-zero) times B^ign are base^e from below
    within `e` truncation factors `(1 - B^(1-P))` -/
theorem powHigh_appr (base P e : Nat) (hb : 1 ≤ base) (hP : 1 ≤ P) (he : 1 ≤ e) :
    (powHigh base e P).1 ≠ 0 ∧ limbLen (powHigh base e P).1 ≤ P ∧
    Appr (epsP P) (((powHigh base e P).1 : ℚ) * (B : ℚ) ^ (powHigh base e P).2) ((base : ℚ) ^ e) e := by
  obtain ⟨r0, a0⟩ := powLoop_appr base P hb hP e he
  have h0 := epsP_nonneg P
  have h1 := epsP_le_one P
  obtain ⟨_, _, kl, kne, _, _⟩ := keepTop_spec P hP r0
  have ak := appr_keepTop P hP r0
  unfold powHigh
  set st := powLoop base P e
  refine ⟨kne, by rw [kl]; omega, ?_⟩
  have hBi : (0 : ℚ) ≤ (B : ℚ) ^ st.2 := (pow_pos Bq_pos _).le
  have ak' := Appr.mul_const h0 h1 ak hBi
  have tr := Appr.trans h0 h1 ak' a0
  have e3 : ((keepTop P st.1).1 : ℚ) * (B : ℚ) ^ (keepTop P st.1).2 * (B : ℚ) ^ st.2 =
      ((keepTop P st.1).1 : ℚ) * (B : ℚ) ^ (st.2 + (keepTop P st.1).2) := by rw [pow_add]; ring
  rw [e3] at tr
  have : 1 + (e - 1) = e := by omega
  rw [this] at tr
  exact tr

end Mpir.MpfStr
