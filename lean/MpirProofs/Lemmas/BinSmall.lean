/-
  Lemmas for C16 part binsmall: mul1…mul8 of mpz/bin_uiui.c, the accumulation loop of mpz_smallk_bin_uiui,
  mpn_divrem_hensel_rsh_qr_1_preinv as an exact 2-adic division, mpz_smallkdc_bin_uiui.
-/
import MpirProofs.Lemmas.Numth
namespace Mpir.Numth
open Mpir Mpir.Gen.NumthTabs Nat

/-! ## mul1 … mul8 -/

/-- `x * y` in limb arithmetic does not wrap when the factors are products of at most a, b numbers ≤ t and t^(a+b) < B -/
theorem mulB_fit {x y t a b : ℕ} (hx : x ≤ t ^ a) (hy : y ≤ t ^ b) (h : t ^ (a + b) < B) :
    x * y % B = x * y ∧ x * y ≤ t ^ (a + b) := by
  have : x * y ≤ t ^ (a + b) := by rw [pow_add]; exact Nat.mul_le_mul hx hy
  exact ⟨Nat.mod_eq_of_lt (by omega), this⟩

theorem pow_le_of_fit {t a w : ℕ} (ht : 1 ≤ t) (haw : a ≤ w) (h : t ^ w < B) : t ^ a < B :=
  lt_of_le_of_lt (Nat.pow_le_pow_right ht haw) h

theorem two_dvd_consec (m : ℕ) : 2 ∣ m * (m + 1) := by
  have := Nat.factorial_dvd_ascFactorial m 2
  simpa [Nat.ascFactorial, Nat.factorial, mul_comm] using this

theorem eight_dvd_consec4 (m : ℕ) : 8 ∣ m * (m + 1) * ((m + 2) * (m + 3)) := by
  have h := Nat.factorial_dvd_ascFactorial m 4
  have e : m.ascFactorial 4 = m * (m + 1) * ((m + 2) * (m + 3)) := by
    simp only [Nat.ascFactorial]; ring
  rw [e] at h
  exact Dvd.dvd.trans (by decide : 8 ∣ 4 !) h

theorem or_one_eq (m : ℕ) : m ||| 1 = m + (1 - m % 2) := by
  have h0 : ∀ q : ℕ, 2 * q ||| 1 = 2 * q + 1 := fun q => by
    have := Nat.shiftLeft_add_eq_or_of_lt (i := 1) (b := 1) (by decide) q
    rw [Nat.shiftLeft_eq] at this
    rw [mul_comm]; simpa using this.symm
  rcases Nat.mod_two_eq_zero_or_one m with h | h
  · have e : m = 2 * (m / 2) := by omega
    rw [h]; conv_lhs => rw [e]
    rw [h0]; omega
  · have e : m = 2 * (m / 2) + 1 := by omega
    rw [h]; conv_lhs => rw [e, ← h0, Nat.or_assoc, Nat.or_self, h0]
    omega

/-- mul1 … mul8 (bin_uiui.c:130-199) with the `tcnttab[]` count put back: the product of w consecutive numbers
    starting at m, provided (largest factor)^w fits a limb — which is what `nmax = log_n_max (n)` guarantees. -/
theorem mulfunc_spec (w m : ℕ) (hw1 : 1 ≤ w) (hw8 : w ≤ 8) (hfit : (m + w - 1) ^ w < B) :
    mulfunc w m * 2 ^ tcnt (w - 1) = m.ascFactorial w := by
  by_cases hw : w = 1
  · subst hw; simp [mulfunc, tcnt, tcnttab, Nat.ascFactorial]
  have ht1 : 1 ≤ m + w - 1 := by omega
  generalize ht : m + w - 1 = t at hfit ht1
  have hB : ∀ a ≤ w, t ^ a < B := fun a ha => pow_le_of_fit ht1 ha hfit
  have hle : ∀ i < w, m + i ≤ t ^ 1 := fun i hi => by rw [pow_one]; omega
  have hmod : ∀ i < w, (m + i) % B = m + i := fun i hi =>
    Nat.mod_eq_of_lt (lt_of_le_of_lt (hle i hi) (hB 1 (by omega)))
  have hm0 : m % B = m := by have := hmod 0 (by omega); simpa using this
  have d2 := two_dvd_consec
  have d8 := eight_dvd_consec4
  have hdiv : ∀ {x a c : ℕ}, x ≤ t ^ a → x / c ≤ t ^ a := fun h => le_trans (Nat.div_le_self _ _) h
  interval_cases w
  · omega
  · -- mul2: (m | 1) * ((m + 1) >> 1)
    simp only [mulfunc, tcnt, tcnttab, List.getD_cons_succ, List.getD_cons_zero, hmod 1 (by omega)]
    rw [or_one_eq]
    have hx : m + (1 - m % 2) ≤ t ^ 1 := by rw [pow_one]; omega
    have hy : (m + 1) / 2 ≤ t ^ 1 := hdiv (hle 1 (by omega))
    rw [(mulB_fit hx hy (hB 2 (by omega))).1]
    simp only [Nat.ascFactorial]
    rcases Nat.mod_two_eq_zero_or_one m with h | h
    · rw [h]; have : (m + 1) / 2 * 2 = m := by omega
      simp only [Nat.sub_zero, pow_one, Nat.add_zero, Nat.mul_one]; rw [mul_assoc, this]
    · rw [h]; have : (m + 1) / 2 * 2 = m + 1 := by omega
      simp only [Nat.sub_self, Nat.add_zero, pow_one, Nat.mul_one]; rw [mul_assoc, this]; ring
  · -- mul3
    simp only [mulfunc, tcnt, tcnttab, List.getD_cons_succ, List.getD_cons_zero, hm0, hmod 1 (by omega),
      hmod 2 (by omega), Nat.add_zero]
    have p01 := mulB_fit (hle 0 (by omega)) (hle 1 (by omega)) (hB 2 (by omega))
    simp only [Nat.add_zero] at p01
    rw [p01.1, (mulB_fit (hdiv p01.2) (hle 2 (by omega)) (hB 3 (by omega))).1]
    simp only [Nat.ascFactorial]
    obtain ⟨c, hc⟩ := d2 m
    rw [hc, Nat.mul_div_cancel_left _ (by decide : 0 < 2)]
    have : m * (m + 1) = 2 * c := hc
    simp only [Nat.add_zero]
    calc c * (m + 2) * 2 ^ 1 = (m + 2) * (2 * c) := by ring
      _ = _ := by rw [← this]; ring
  · -- mul4
    simp only [mulfunc, tcnt, tcnttab, List.getD_cons_succ, List.getD_cons_zero, hm0, hmod 1 (by omega),
      hmod 2 (by omega), hmod 3 (by omega), Nat.add_zero]
    have p01 := mulB_fit (hle 0 (by omega)) (hle 1 (by omega)) (hB 2 (by omega))
    have p23 := mulB_fit (hle 2 (by omega)) (hle 3 (by omega)) (hB 2 (by omega))
    simp only [Nat.add_zero] at p01
    rw [p01.1, p23.1, (mulB_fit (hdiv p01.2) (hdiv p23.2) (hB 4 (by omega))).1]
    simp only [Nat.ascFactorial]
    obtain ⟨c, hc⟩ := d2 m
    obtain ⟨e, he⟩ := d2 (m + 2)
    rw [hc, he, Nat.mul_div_cancel_left _ (by decide : 0 < 2), Nat.mul_div_cancel_left _ (by decide : 0 < 2)]
    have h1 : m * (m + 1) = 2 * c := hc
    have h2 : (m + 2) * (m + 3) = 2 * e := he
    simp only [Nat.add_zero]
    calc c * e * 2 ^ 2 = (2 * e) * (2 * c) := by ring
      _ = _ := by rw [← h1, ← h2]; ring
  · -- mul5
    simp only [mulfunc, tcnt, tcnttab, List.getD_cons_succ, List.getD_cons_zero, hm0, hmod 1 (by omega),
      hmod 2 (by omega), hmod 3 (by omega), hmod 4 (by omega), Nat.add_zero]
    have p01 := mulB_fit (hle 0 (by omega)) (hle 1 (by omega)) (hB 2 (by omega))
    simp only [Nat.add_zero] at p01
    have p012 := mulB_fit p01.2 (hle 2 (by omega)) (hB 3 (by omega))
    have p34 := mulB_fit (hle 3 (by omega)) (hle 4 (by omega)) (hB 2 (by omega))
    rw [p01.1, p012.1, p34.1, (mulB_fit (hdiv p012.2) (hdiv p34.2) (hB 5 (by omega))).1]
    simp only [Nat.ascFactorial]
    obtain ⟨c, hc⟩ := d2 m
    obtain ⟨e, he⟩ := d2 (m + 3)
    have h1 : m * (m + 1) = 2 * c := hc
    have h2 : (m + 3) * (m + 4) = 2 * e := he
    have e1 : m * (m + 1) * (m + 2) = 2 * (c * (m + 2)) := by rw [h1]; ring
    rw [e1, h2, Nat.mul_div_cancel_left _ (by decide : 0 < 2), Nat.mul_div_cancel_left _ (by decide : 0 < 2)]
    simp only [Nat.add_zero]
    calc c * (m + 2) * e * 2 ^ 2 = (2 * e) * ((m + 2) * (2 * c)) := by ring
      _ = _ := by rw [← h1, ← h2]; ring
  · -- mul6
    simp only [mulfunc, tcnt, tcnttab, List.getD_cons_succ, List.getD_cons_zero, hm0, hmod 1 (by omega),
      hmod 2 (by omega), hmod 3 (by omega), hmod 4 (by omega), hmod 5 (by omega), Nat.add_zero]
    have p01 := mulB_fit (hle 0 (by omega)) (hle 1 (by omega)) (hB 2 (by omega))
    simp only [Nat.add_zero] at p01
    have p23 := mulB_fit (hle 2 (by omega)) (hle 3 (by omega)) (hB 2 (by omega))
    have p0123 := mulB_fit p01.2 p23.2 (hB 4 (by omega))
    have p45 := mulB_fit (hle 4 (by omega)) (hle 5 (by omega)) (hB 2 (by omega))
    rw [p01.1, p23.1, p0123.1, p45.1, (mulB_fit (hdiv p0123.2) (hdiv p45.2) (hB 6 (by omega))).1]
    simp only [Nat.ascFactorial]
    obtain ⟨c, hc⟩ := d8 m
    obtain ⟨e, he⟩ := d2 (m + 4)
    have h2 : (m + 4) * (m + 5) = 2 * e := he
    rw [hc, h2, Nat.mul_div_cancel_left _ (by decide : 0 < 8), Nat.mul_div_cancel_left _ (by decide : 0 < 2)]
    simp only [Nat.add_zero]
    calc c * e * 2 ^ 4 = (2 * e) * (8 * c) := by ring
      _ = _ := by rw [← hc, ← h2]; ring
  · -- mul7
    simp only [mulfunc, tcnt, tcnttab, List.getD_cons_succ, List.getD_cons_zero, hm0, hmod 1 (by omega),
      hmod 2 (by omega), hmod 3 (by omega), hmod 4 (by omega), hmod 5 (by omega), hmod 6 (by omega), Nat.add_zero]
    have p01 := mulB_fit (hle 0 (by omega)) (hle 1 (by omega)) (hB 2 (by omega))
    simp only [Nat.add_zero] at p01
    have p23 := mulB_fit (hle 2 (by omega)) (hle 3 (by omega)) (hB 2 (by omega))
    have p0123 := mulB_fit p01.2 p23.2 (hB 4 (by omega))
    have p45 := mulB_fit (hle 4 (by omega)) (hle 5 (by omega)) (hB 2 (by omega))
    have p456 := mulB_fit p45.2 (hle 6 (by omega)) (hB 3 (by omega))
    rw [p01.1, p23.1, p0123.1, p45.1, p456.1, (mulB_fit (hdiv p0123.2) (hdiv p456.2) (hB 7 (by omega))).1]
    simp only [Nat.ascFactorial]
    obtain ⟨c, hc⟩ := d8 m
    obtain ⟨e, he⟩ := d2 (m + 4)
    have h2 : (m + 4) * (m + 5) = 2 * e := he
    have e1 : (m + 4) * (m + 5) * (m + 6) = 2 * (e * (m + 6)) := by rw [h2]; ring
    rw [hc, e1, Nat.mul_div_cancel_left _ (by decide : 0 < 8), Nat.mul_div_cancel_left _ (by decide : 0 < 2)]
    simp only [Nat.add_zero]
    calc c * (e * (m + 6)) * 2 ^ 4 = (m + 6) * ((2 * e) * (8 * c)) := by ring
      _ = _ := by rw [← hc, ← h2]; ring
  · -- mul8
    simp only [mulfunc, tcnt, tcnttab, List.getD_cons_succ, List.getD_cons_zero, hm0, hmod 1 (by omega),
      hmod 2 (by omega), hmod 3 (by omega), hmod 4 (by omega), hmod 5 (by omega), hmod 6 (by omega), hmod 7 (by omega),
      Nat.add_zero]
    have p01 := mulB_fit (hle 0 (by omega)) (hle 1 (by omega)) (hB 2 (by omega))
    simp only [Nat.add_zero] at p01
    have p23 := mulB_fit (hle 2 (by omega)) (hle 3 (by omega)) (hB 2 (by omega))
    have p0123 := mulB_fit p01.2 p23.2 (hB 4 (by omega))
    have p45 := mulB_fit (hle 4 (by omega)) (hle 5 (by omega)) (hB 2 (by omega))
    have p67 := mulB_fit (hle 6 (by omega)) (hle 7 (by omega)) (hB 2 (by omega))
    have p4567 := mulB_fit p45.2 p67.2 (hB 4 (by omega))
    rw [p01.1, p23.1, p0123.1, p45.1, p67.1, p4567.1, (mulB_fit (hdiv p0123.2) (hdiv p4567.2) (hB 8 (by omega))).1]
    simp only [Nat.ascFactorial]
    obtain ⟨c, hc⟩ := d8 m
    obtain ⟨e, he⟩ := d8 (m + 4)
    have h2 : (m + 4) * (m + 5) * ((m + 6) * (m + 7)) = 8 * e := he
    rw [hc, h2, Nat.mul_div_cancel_left _ (by decide : 0 < 8), Nat.mul_div_cancel_left _ (by decide : 0 < 8)]
    simp only [Nat.add_zero]
    calc c * e * 2 ^ 6 = (8 * e) * (8 * c) := by ring
      _ = _ := by rw [← hc, ← h2]; ring

/-! ## mpn_divrem_hensel_rsh_qr_1_preinv: exact division by an odd limb -/

/-- one limb of Hensel division: with d·m ≡ 1 (mod B), q = ((x − t) mod B)·m mod B satisfies
    x + B·(borrow + high(q·d)) = q·d + t -/
theorem hensel_limb (x t d m : ℕ) (hx : x < B) (ht : t < B) (hd : d < B) (hdm : d * m % B = 1) :
    let c' := if t > x then 1 else 0
    let q := (x + B - t) % B * m % B
    x + B * (c' + q * d / B) = q * d + t ∧ q < B ∧ q * d / B + c' < B := by
  intro c' q
  have hB : 2 ≤ B := by rw [B_eq]; norm_num
  have hq : q < B := Nat.mod_lt _ (by omega)
  have h1 : (x + B - t) % B + t = x + B * c' := by
    simp only [c']
    split
    · rw [Nat.mod_eq_of_lt (by omega)]; omega
    · have : x + B - t = (x - t) + B := by omega
      rw [this, Nat.add_mod_right, Nat.mod_eq_of_lt (by omega)]; omega
  have h2 : q * d % B = (x + B - t) % B := by
    simp only [q]
    rw [Nat.mod_mul_mod, mul_assoc, mul_comm m d, Nat.mul_mod, hdm, Nat.mul_one, Nat.mod_mod, Nat.mod_mod]
  have h3 := Nat.div_add_mod (q * d) B
  have hle : q * d / B + 2 ≤ B := by
    have : q * d ≤ (B - 1) * (B - 1) := Nat.mul_le_mul (by omega) (by omega)
    have h4 : q * d < B * (B - 1) := by
      have h5 : (B - 1) * (B - 1) < B * (B - 1) := Nat.mul_lt_mul_of_pos_right (by omega) (by omega)
      exact lt_of_le_of_lt this h5
    have := Nat.div_lt_of_lt_mul h4
    omega
  refine ⟨?_, hq, ?_⟩
  · rw [Nat.mul_add]; omega
  · simp only [c']; split <;> omega

theorem henselRshAux_spec (xs d m : ℕ) (hd : d < B) (hdm : d * m % B = 1) :
    ∀ cnt j h c acc, h + c < B → acc < B ^ j → xs % B ^ j + (h + c) * B ^ j = acc * d →
      henselRshAux xs d m cnt j h c acc < B ^ (j + cnt) ∧
      ∃ e, xs % B ^ (j + cnt) + e * B ^ (j + cnt) = henselRshAux xs d m cnt j h c acc * d := by
  intro cnt
  induction cnt with
  | zero => intro j h c acc hc hacc hinv; exact ⟨hacc, h + c, hinv⟩
  | succ cnt ih =>
    intro j h c acc hc hacc hinv
    unfold henselRshAux
    simp only
    have hxj : xs / B ^ j % B < B := Nat.mod_lt _ B_pos
    rw [Nat.mod_eq_of_lt hc]
    obtain ⟨e1, e2, e3⟩ := hensel_limb (xs / B ^ j % B) (h + c) d m hxj hc hd hdm
    generalize hq : (xs / B ^ j % B + B - (h + c)) % B * m % B = q at e1 e2 e3 ⊢
    generalize hc' : (if h + c > xs / B ^ j % B then 1 else 0) = c' at e1 e3 ⊢
    have hstep := ih (j + 1) (q * d / B) c' (acc + q * B ^ j) e3 (by
      rw [pow_succ]
      have : q * B ^ j ≤ (B - 1) * B ^ j := Nat.mul_le_mul_right _ (by omega)
      have hB := B_pos
      have e : (B - 1) * B ^ j + B ^ j = B ^ j * B := by
        have h1 : (B - 1) * B ^ j + 1 * B ^ j = (B - 1 + 1) * B ^ j := (Nat.add_mul _ _ _).symm
        rw [Nat.sub_add_cancel (by omega : 1 ≤ B), Nat.one_mul] at h1
        rw [h1, mul_comm]
      omega) (by
      rw [Nat.mod_pow_succ]
      generalize xs / B ^ j % B = xj at e1
      generalize xs % B ^ j = lo at hinv
      generalize q * d / B = h' at e1
      rw [pow_succ]
      have := congrArg (· * B ^ j) e1
      nlinarith [this, hinv])
    rw [show j + (cnt + 1) = j + 1 + cnt by omega]
    exact hstep

/-- mpn_divrem_hensel_rsh_qr_1_preinv (qp, xp, n, d, m, s) when (x >> s) = d·T exactly: the n quotient limbs are T -/
theorem henselRshDiv_exact (x n d m s T : ℕ) (hx : x < B ^ n) (hd : d < B) (hdm : d * m % B = 1)
    (hT : x >>> s = d * T) : henselRshDiv x n d m s = T := by
  unfold henselRshDiv
  rw [Nat.mod_eq_of_lt hx, hT]
  obtain ⟨h1, e, h2⟩ := henselRshAux_spec (d * T) d m hd hdm n 0 0 0 0 (by have := B_pos; omega) (by simp) (by simp [Nat.mod_one])
  simp only [Nat.zero_add] at h1 h2
  generalize henselRshAux (d * T) d m n 0 0 0 0 = Q at h1 h2 ⊢
  have hdpos : 0 < d := by
    rcases Nat.eq_zero_or_pos d with h | h
    · subst h; simp at hdm
    · exact h
  have hxs : d * T < B ^ n := by
    rw [← hT]; exact lt_of_le_of_lt (by rw [Nat.shiftRight_eq_div_pow]; exact Nat.div_le_self _ _) hx
  have hTlt : T < B ^ n := lt_of_le_of_lt (Nat.le_mul_of_pos_left T hdpos) hxs
  rw [Nat.mod_eq_of_lt hxs] at h2
  -- d·T + e·B^n = Q·d, d invertible mod B^n  ⇒  Q ≡ T (mod B^n)
  have hcop : Nat.Coprime d (B ^ n) := by
    apply Nat.Coprime.pow_right
    have : Nat.Coprime d B := by
      have h1 : Nat.gcd d B ∣ d * m % B := by
        rw [Nat.dvd_mod_iff (Nat.gcd_dvd_right d B)]
        exact Dvd.dvd.mul_right (Nat.gcd_dvd_left d B) m
      rw [hdm] at h1
      exact Nat.dvd_one.mp h1
    exact this
  have hmod : (d * Q) % B ^ n = (d * T) % B ^ n := by
    rw [mul_comm d Q, ← h2, Nat.add_mul_mod_self_right]
  have hQT : Q ≡ T [MOD B ^ n] := Nat.ModEq.cancel_left_of_coprime (by rwa [Nat.coprime_comm, Nat.Coprime] at hcop) hmod
  have := Nat.ModEq.eq_of_lt_of_lt hQT h1 hTlt
  exact this

/-! ## log_n_max, the accumulation loop of mpz_smallk_bin_uiui -/

theorem logNMaxAux_spec (n : ℕ) (hn : n ≤ limbrootsTable.getD 0 0) :
    ∀ L, 1 ≤ L → 1 ≤ logNMaxAux L n ∧ logNMaxAux L n ≤ L ∧ n ≤ limbrootsTable.getD (logNMaxAux L n - 1) 0 := by
  intro L
  induction L with
  | zero => intro h; omega
  | succ L ih =>
    intro _
    unfold logNMaxAux
    split
    · rename_i hgt
      have hL : 1 ≤ L := by
        rcases Nat.eq_zero_or_pos L with h | h
        · subst h; omega
        · exact h
      obtain ⟨a, b, c⟩ := ih hL
      exact ⟨a, by omega, c⟩
    · rename_i hle
      exact ⟨by omega, le_refl _, by simpa using Nat.le_of_not_gt hle⟩

theorem limbroots_pow : ∀ i < 8, limbrootsTable.getD i 0 ^ (i + 1) < B := by decide +kernel

/-- `MAXFACS (nmax, n)` = log_n_max (n): 1 ≤ nmax ≤ 8 and n^nmax fits a limb -/
theorem log_n_max_spec (n : ℕ) (hn : n < B) :
    1 ≤ log_n_max n ∧ log_n_max n ≤ 8 ∧ n ^ log_n_max n < B := by
  have h0 : n ≤ limbrootsTable.getD 0 0 := by
    have : limbrootsTable.getD 0 0 = B - 1 := by decide +kernel
    omega
  obtain ⟨a, b, c⟩ := logNMaxAux_spec n h0 8 (by omega)
  refine ⟨a, b, ?_⟩
  unfold log_n_max
  generalize logNMaxAux 8 n = r at a b c
  have := limbroots_pow (r - 1) (by omega)
  rw [Nat.sub_add_cancel a] at this
  exact lt_of_le_of_lt (Nat.pow_le_pow_left c r) this

theorem pow_fit_le {n w W : ℕ} (h : n ^ W < B) (hw : w ≤ W) : n ^ w < B := by
  rcases Nat.eq_zero_or_pos n with h0 | h0
  · subst h0
    rcases Nat.eq_zero_or_pos w with hw0 | hw0
    · subst hw0; simp [B_eq]
    · rw [Nat.zero_pow hw0]; exact B_pos
  · exact lt_of_le_of_lt (Nat.pow_le_pow_right h0 hw) h

theorem smallkLoop_spec (n k W : ℕ) (hk : k ≤ n) (hW8 : W ≤ 8) (hW : n ^ W < B) :
    ∀ fuel nmax numfac i rp i2, numfac ≤ fuel → nmax ≤ W → (numfac ≠ 0 → 1 ≤ nmax) → (numfac ≠ 0 → i + numfac = n + 1) →
      numfac ≤ k → rp * 2 ^ i2 = (n - k + 1).ascFactorial (k - numfac) →
      (smallkLoop fuel nmax numfac i rp i2).1 * 2 ^ (smallkLoop fuel nmax numfac i rp i2).2 = (n - k + 1).ascFactorial k := by
  intro fuel
  induction fuel with
  | zero =>
    intro nmax numfac i rp i2 h1 _ _ _ _ hinv
    have : numfac = 0 := by omega
    subst this
    simpa [smallkLoop] using hinv
  | succ fuel ih =>
    intro nmax numfac i rp i2 h1 h2 h3 h4 h5 hinv
    unfold smallkLoop
    by_cases h0 : numfac = 0
    · subst h0; simpa using hinv
    · simp only [h0, if_false]
      have hn1 := h3 h0
      have hi := h4 h0
      have hmin1 : 1 ≤ min nmax numfac := by simp only [Nat.le_min]; omega
      have hminW : min nmax numfac ≤ W := le_trans (Nat.min_le_left _ _) h2
      have hminF : min nmax numfac ≤ numfac := Nat.min_le_right _ _
      generalize min nmax numfac = w at hmin1 hminW hminF ⊢
      have hfit : (i + w - 1) ^ w < B := by
        have : i + w - 1 ≤ n := by omega
        exact lt_of_le_of_lt (Nat.pow_le_pow_left this w) (pow_fit_le hW hminW)
      have hm := mulfunc_spec w i hmin1 (by omega) hfit
      apply ih w (numfac - w) ((i + w) % B) (rp * mulfunc w i) (i2 + tcnt (w - 1)) (by omega) hminW (fun _ => hmin1)
      · intro hne
        have hB : n < B := by
          have := pow_fit_le hW (show 1 ≤ W by omega)
          simpa using this
        rw [Nat.mod_eq_of_lt (by omega)]; omega
      · omega
      · rw [pow_add, show rp * mulfunc w i * (2 ^ i2 * 2 ^ tcnt (w - 1)) = rp * 2 ^ i2 * (mulfunc w i * 2 ^ tcnt (w - 1)) by ring,
          hinv, hm, show i = n - k + 1 + (k - numfac) by omega, Nat.ascFactorial_mul_ascFactorial]
        congr 1; omega

theorem lt_pow_limbCount (v : ℕ) : v < B ^ (if limbCount v = 0 then 1 else limbCount v) := by
  unfold limbCount
  by_cases hv : v = 0
  · subst hv; simp [B_eq]
  · simp only [hv, if_false, Nat.add_eq_zero_iff, Nat.one_ne_zero, and_false]
    have h1 : v < 2 ^ (v.log2 + 1) := Nat.lt_log2_self
    have h2 : v.log2 + 1 ≤ 64 * (v.log2 / 64 + 1) := by omega
    have h3 : B ^ (v.log2 / 64 + 1) = 2 ^ (64 * (v.log2 / 64 + 1)) := by
      rw [show B = 2 ^ 64 by rw [B_eq]; norm_num, ← pow_mul]
    rw [h3]
    exact lt_of_lt_of_le h1 (Nat.pow_le_pow_right (by decide) h2)

theorem smallkLoop_i2_indep : ∀ fuel nmax numfac i rp i2,
    (smallkLoop fuel nmax numfac i rp i2).2 = (smallkLoop fuel nmax numfac 0 0 i2).2 := by
  intro fuel
  induction fuel with
  | zero => intros; rfl
  | succ fuel ih =>
    intro nmax numfac i rp i2
    unfold smallkLoop
    by_cases h0 : numfac = 0
    · simp [h0]
    · simp only [h0, if_false]
      rw [ih, ih _ _ ((0 + min nmax numfac) % B) (0 * mulfunc (min nmax numfac) 0)]

/-- the twos removed on the fly by mul1…mul8 never exceed the twos of k! (every chunk size, every 2 ≤ k ≤ 25) -/
theorem smallk_i2_le : ∀ nm < 9, 1 ≤ nm → ∀ k < ODD_FACTORIAL_TABLE_LIMIT + 1, 2 ≤ k →
    (smallkLoop k (min nm k) (k - min nm k) 0 0 (tcnt (min nm k - 1))).2 ≤ fac2cntTab (k / 2 - 1) := by
  decide +kernel

theorem smallk_tables : ∀ k < ODD_FACTORIAL_TABLE_LIMIT + 1, 2 ≤ k →
    k ! = 2 ^ fac2cntTab (k / 2 - 1) * oddfacTab k ∧ oddfacTab k < B ∧ oddfacTab k * facinvTab (k - 2) % B = 1 := by
  decide +kernel

theorem shiftRight_of_mul_two_pow {r a b c : ℕ} (h : r * 2 ^ a = 2 ^ b * c) (hab : a ≤ b) : r >>> (b - a) = c := by
  have hb : b = a + (b - a) := by omega
  rw [hb, pow_add] at h
  have h2 : r = 2 ^ (b - a) * c := by
    have : r * 2 ^ a = 2 ^ (b - a) * c * 2 ^ a := by rw [h]; ring
    exact Nat.eq_of_mul_eq_mul_right (by positivity) this
  rw [Nat.shiftRight_eq_div_pow, h2, Nat.mul_div_cancel_left _ (by positivity)]

/-- **mpz_smallk_bin_uiui (n, k) = binomial (n, k)** for 2 ≤ k ≤ ODD_FACTORIAL_TABLE_LIMIT, k ≤ n < 2^64 -/
theorem smallk_bin_uiui_eq (n k : ℕ) (hk2 : 2 ≤ k) (hk25 : k ≤ ODD_FACTORIAL_TABLE_LIMIT) (hkn : k ≤ n) (hn : n < B) :
    smallk_bin_uiui n k = n.choose k := by
  obtain ⟨hW1, hW8, hWfit⟩ := log_n_max_spec n hn
  unfold smallk_bin_uiui
  simp only
  rw [show min (log_n_max n) 8 = log_n_max n from Nat.min_eq_left hW8]
  have hnm1 : 1 ≤ min (log_n_max n) k := by simp only [Nat.le_min]; omega
  have hnmW : min (log_n_max n) k ≤ log_n_max n := Nat.min_le_left _ _
  have hnmk : min (log_n_max n) k ≤ k := Nat.min_le_right _ _
  have hi2 := smallk_i2_le (log_n_max n) (by omega) hW1 k (by omega) hk2
  generalize hnm : min (log_n_max n) k = nm at hnm1 hnmW hnmk hi2 ⊢
  have hfit : (n - k + 1 + nm - 1) ^ nm < B :=
    lt_of_le_of_lt (Nat.pow_le_pow_left (by omega) nm) (pow_fit_le hWfit hnmW)
  have hm := mulfunc_spec nm (n - k + 1) hnm1 (by omega) hfit
  have hloop := smallkLoop_spec n k (log_n_max n) hkn hW8 hWfit k nm (k - nm) ((n - k + 1 + nm) % B) (mulfunc nm (n - k + 1))
    (tcnt (nm - 1)) (by omega) hnmW (fun _ => hnm1) (fun h => by rw [Nat.mod_eq_of_lt (by omega)]; omega) (by omega)
    (by rw [hm]; congr 1; omega)
  rw [← smallkLoop_i2_indep k nm (k - nm) ((n - k + 1 + nm) % B) (mulfunc nm (n - k + 1))] at hi2
  generalize smallkLoop k nm (k - nm) ((n - k + 1 + nm) % B) (mulfunc nm (n - k + 1)) (tcnt (nm - 1)) = res at hloop hi2 ⊢
  obtain ⟨rp, i2⟩ := res
  simp only at hloop hi2 ⊢
  obtain ⟨t1, t2, t3⟩ := smallk_tables k (by omega) hk2
  have hdesc : (n - k + 1).ascFactorial k = k ! * n.choose k := by
    rw [← Nat.add_descFactorial_eq_ascFactorial, Nat.sub_add_cancel hkn, Nat.descFactorial_eq_factorial_mul_choose]
  rw [hdesc, t1, mul_assoc] at hloop
  exact henselRshDiv_exact rp _ (oddfacTab k) (facinvTab (k - 2)) _ (n.choose k) (lt_pow_limbCount rp) t2 t3
    (shiftRight_of_mul_two_pow hloop hi2)

/-! ## mpz_smallkdc_bin_uiui -/

theorem bc_bin_uiui_binom : ∀ n < ODD_FACTORIAL_EXTTABLE_LIMIT + 1, ∀ k < n + 1, 2 ≤ k → 2 ≤ n - k →
    bc_bin_uiui n k = binom n k := by
  decide +kernel

theorem smallkdc_tables : ∀ k < 2 * ODD_CENTRAL_BINOMIAL_TABLE_LIMIT + 1, ODD_FACTORIAL_TABLE_LIMIT < k →
    binom k (k / 2) = 2 ^ (fac2binTable.getD (k - k / 2 - ODD_CENTRAL_BINOMIAL_OFFSET) 0 - (if k - k / 2 ≠ k / 2 then 1 else 0)) *
        bin2kkTable.getD (k - k / 2 - ODD_CENTRAL_BINOMIAL_OFFSET) 0 ∧
      bin2kkTable.getD (k - k / 2 - ODD_CENTRAL_BINOMIAL_OFFSET) 0 < B ∧
      bin2kkTable.getD (k - k / 2 - ODD_CENTRAL_BINOMIAL_OFFSET) 0 * bin2kkinvTable.getD (k - k / 2 - ODD_CENTRAL_BINOMIAL_OFFSET) 0 % B = 1 := by
  decide +kernel

theorem smallkdc_consts : ODD_FACTORIAL_TABLE_LIMIT = 25 ∧ ODD_CENTRAL_BINOMIAL_TABLE_LIMIT = 35 ∧ ODD_FACTORIAL_EXTTABLE_LIMIT = 67 ∧
    BIN_UIUI_RECURSIVE_SMALLDC = 1 := by decide

/-- **mpz_smallkdc_bin_uiui (n, k) = binomial (n, k)** for ODD_FACTORIAL_TABLE_LIMIT < k ≤ 2·ODD_CENTRAL_BINOMIAL_TABLE_LIMIT,
    2k ≤ n < 2^64 (fuel = recursion depth allowance: k ≤ 25·2^fuel) -/
theorem smallkdc_bin_uiui_eq : ∀ fuel n k, ODD_FACTORIAL_TABLE_LIMIT < k → k ≤ 2 * ODD_CENTRAL_BINOMIAL_TABLE_LIMIT →
    k ≤ 25 * 2 ^ fuel → 2 * k ≤ n → n < B → smallkdc_bin_uiui fuel n k = n.choose k := by
  obtain ⟨c1, c2, c3, c4⟩ := smallkdc_consts
  intro fuel
  induction fuel with
  | zero => intro n k h1 _ h3 _ _; rw [c1] at h1; omega
  | succ fuel ih =>
    intro n k h1 h2 h3 h4 hn
    have hrec : ∀ n' k', 13 ≤ k' → 2 * k' ≤ k + 1 → k' ≤ n' → (ODD_FACTORIAL_TABLE_LIMIT < k' → 2 * k' ≤ n') → n' < B →
        (if BIN_UIUI_RECURSIVE_SMALLDC = 0 ∨ k' ≤ ODD_FACTORIAL_TABLE_LIMIT then smallk_bin_uiui n' k'
          else smallkdc_bin_uiui fuel n' k') = n'.choose k' := by
      intro n' k' g1 g2 g3 g4 g5
      rw [c4]
      by_cases hk' : k' ≤ ODD_FACTORIAL_TABLE_LIMIT
      · simp only [hk', or_true, if_true]
        exact smallk_bin_uiui_eq n' k' (by omega) hk' g3 g5
      · simp only [hk', Nat.one_ne_zero, or_false, if_false]
        rw [c1] at hk'
        exact ih n' k' (by rw [c1]; omega) (by rw [c2] at h2 ⊢; omega) (by rw [pow_succ] at h3; omega) (g4 (by rw [c1]; omega)) g5
    have htab := smallkdc_tables k (by omega) h1
    rw [c1] at h1
    rw [c2] at h2
    unfold smallkdc_bin_uiui
    simp only
    rw [hrec n (k / 2) (by omega) (by omega) (by omega) (by omega) hn]
    have hsecond : (if n - k / 2 ≤ ODD_FACTORIAL_EXTTABLE_LIMIT then n.choose (k / 2) * bc_bin_uiui (n - k / 2) (k - k / 2)
        else n.choose (k / 2) * (if BIN_UIUI_RECURSIVE_SMALLDC = 0 ∨ k - k / 2 ≤ ODD_FACTORIAL_TABLE_LIMIT then
          smallk_bin_uiui (n - k / 2) (k - k / 2) else smallkdc_bin_uiui fuel (n - k / 2) (k - k / 2))) =
        n.choose k * k.choose (k / 2) := by
      rw [Nat.choose_mul (Nat.div_le_self k 2)]
      split
      · rename_i hle
        rw [bc_bin_uiui_binom (n - k / 2) (by omega) (k - k / 2) (by omega) (by omega) (by omega), binom_eq_choose]
      · rw [hrec (n - k / 2) (k - k / 2) (by omega) (by omega) (by omega) (by omega) (by omega)]
    rw [hsecond]
    obtain ⟨t1, t2, t3⟩ := htab
    rw [binom_eq_choose] at t1
    refine henselRshDiv_exact _ _ _ _ _ (n.choose k) (lt_pow_limbCount _) t2 t3 ?_
    have := @shiftRight_of_mul_two_pow (n.choose k * k.choose (k / 2)) 0
      (fac2binTable.getD (k - k / 2 - ODD_CENTRAL_BINOMIAL_OFFSET) 0 - (if k - k / 2 ≠ k / 2 then 1 else 0))
      (bin2kkTable.getD (k - k / 2 - ODD_CENTRAL_BINOMIAL_OFFSET) 0 * n.choose k) (by rw [t1]; ring) (Nat.zero_le _)
    simpa using this

end Mpir.Numth
