/-
  Lemmas for C16 part binsmall: mul1…mul8 of mpz/bin_uiui.c, the accumulation loop of mpz_smallk_bin_uiui,
  mpn_divrem_hensel_rsh_qr_1_preinv as an exact 2-adic division, mpz_smallkdc_bin_uiui.
-/
import MpirProofs.Lemmas.Numth
namespace Mpir.Numth
open Mpir Mpir.Gen.NumthTabs Nat

/-! ## mul1 … mul8 -/

/-- `x * y` in limb arithmetic does not wrap when the factors are products of at most a, b numbers ≤ t and t^(a+b) < B -/
theorem mulB_fit {x y t a b : ℕ} (hx : x ≤ t ^ a) (hy : y ≤ t ^ b) (h : t ^ (a + b) < B) :
    x * y % B = x * y ∧ x * y ≤ t ^ (a + b) := by
  have : x * y ≤ t ^ (a + b) := by rw [pow_add]; exact Nat.mul_le_mul hx hy
  exact ⟨Nat.mod_eq_of_lt (by omega), this⟩

theorem pow_le_of_fit {t a w : ℕ} (ht : 1 ≤ t) (haw : a ≤ w) (h : t ^ w < B) : t ^ a < B :=
  lt_of_le_of_lt (Nat.pow_le_pow_right ht haw) h

theorem two_dvd_consec (m : ℕ) : 2 ∣ m * (m + 1) := by
  have := Nat.factorial_dvd_ascFactorial m 2
  simpa [Nat.ascFactorial, Nat.factorial, mul_comm] using this

theorem eight_dvd_consec4 (m : ℕ) : 8 ∣ m * (m + 1) * ((m + 2) * (m + 3)) := by
  have h := Nat.factorial_dvd_ascFactorial m 4
  have e : m.ascFactorial 4 = m * (m + 1) * ((m + 2) * (m + 3)) := by
    simp only [Nat.ascFactorial]; ring
  rw [e] at h
  exact Dvd.dvd.trans (by decide : 8 ∣ 4 !) h

theorem or_one_eq (m : ℕ) : m ||| 1 = m + (1 - m % 2) := by
  have h0 : ∀ q : ℕ, 2 * q ||| 1 = 2 * q + 1 := fun q => by
    have := Nat.shiftLeft_add_eq_or_of_lt (i := 1) (b := 1) (by decide) q
    rw [Nat.shiftLeft_eq] at this
    rw [mul_comm]; simpa using this.symm
  rcases Nat.mod_two_eq_zero_or_one m with h | h
  · have e : m = 2 * (m / 2) := by omega
    rw [h]; conv_lhs => rw [e]
    rw [h0]; omega
  · have e : m = 2 * (m / 2) + 1 := by omega
    rw [h]; conv_lhs => rw [e, ← h0, Nat.or_assoc, Nat.or_self, h0]
    omega

/-- mul1 … mul8 (bin_uiui.c:130-199) with the `tcnttab[]` count put back: the product of w consecutive numbers
    starting at m, provided (largest factor)^w fits a limb — which is what `nmax = log_n_max (n)` guarantees. -/
theorem mulfunc_spec (w m : ℕ) (hw1 : 1 ≤ w) (hw8 : w ≤ 8) (hfit : (m + w - 1) ^ w < B) :
    mulfunc w m * 2 ^ tcnt (w - 1) = m.ascFactorial w := by
  by_cases hw : w = 1
  · subst hw; simp [mulfunc, tcnt, tcnttab, Nat.ascFactorial]
  have ht1 : 1 ≤ m + w - 1 := by omega
  generalize ht : m + w - 1 = t at hfit ht1
  have hB : ∀ a ≤ w, t ^ a < B := fun a ha => pow_le_of_fit ht1 ha hfit
  have hle : ∀ i < w, m + i ≤ t ^ 1 := fun i hi => by rw [pow_one]; omega
  have hmod : ∀ i < w, (m + i) % B = m + i := fun i hi =>
    Nat.mod_eq_of_lt (lt_of_le_of_lt (hle i hi) (hB 1 (by omega)))
  have hm0 : m % B = m := by have := hmod 0 (by omega); simpa using this
  have d2 := two_dvd_consec
  have d8 := eight_dvd_consec4
  have hdiv : ∀ {x a c : ℕ}, x ≤ t ^ a → x / c ≤ t ^ a := fun h => le_trans (Nat.div_le_self _ _) h
  interval_cases w
  · omega
  · -- mul2: (m | 1) * ((m + 1) >> 1)
    simp only [mulfunc, tcnt, tcnttab, List.getD_cons_succ, List.getD_cons_zero, hmod 1 (by omega)]
    rw [or_one_eq]
    have hx : m + (1 - m % 2) ≤ t ^ 1 := by rw [pow_one]; omega
    have hy : (m + 1) / 2 ≤ t ^ 1 := hdiv (hle 1 (by omega))
    rw [(mulB_fit hx hy (hB 2 (by omega))).1]
    simp only [Nat.ascFactorial]
    rcases Nat.mod_two_eq_zero_or_one m with h | h
    · rw [h]; have : (m + 1) / 2 * 2 = m := by omega
      simp only [Nat.sub_zero, pow_one, Nat.add_zero, Nat.mul_one]; rw [mul_assoc, this]
    · rw [h]; have : (m + 1) / 2 * 2 = m + 1 := by omega
      simp only [Nat.sub_self, Nat.add_zero, pow_one, Nat.mul_one]; rw [mul_assoc, this]; ring
  · -- mul3
    simp only [mulfunc, tcnt, tcnttab, List.getD_cons_succ, List.getD_cons_zero, hm0, hmod 1 (by omega),
      hmod 2 (by omega), Nat.add_zero]
    have p01 := mulB_fit (hle 0 (by omega)) (hle 1 (by omega)) (hB 2 (by omega))
    simp only [Nat.add_zero] at p01
    rw [p01.1, (mulB_fit (hdiv p01.2) (hle 2 (by omega)) (hB 3 (by omega))).1]
    simp only [Nat.ascFactorial]
    obtain ⟨c, hc⟩ := d2 m
    rw [hc, Nat.mul_div_cancel_left _ (by decide : 0 < 2)]
    have : m * (m + 1) = 2 * c := hc
    simp only [Nat.add_zero]
    calc c * (m + 2) * 2 ^ 1 = (m + 2) * (2 * c) := by ring
      _ = _ := by rw [← this]; ring
  · -- mul4
    simp only [mulfunc, tcnt, tcnttab, List.getD_cons_succ, List.getD_cons_zero, hm0, hmod 1 (by omega),
      hmod 2 (by omega), hmod 3 (by omega), Nat.add_zero]
    have p01 := mulB_fit (hle 0 (by omega)) (hle 1 (by omega)) (hB 2 (by omega))
    have p23 := mulB_fit (hle 2 (by omega)) (hle 3 (by omega)) (hB 2 (by omega))
    simp only [Nat.add_zero] at p01
    rw [p01.1, p23.1, (mulB_fit (hdiv p01.2) (hdiv p23.2) (hB 4 (by omega))).1]
    simp only [Nat.ascFactorial]
    obtain ⟨c, hc⟩ := d2 m
    obtain ⟨e, he⟩ := d2 (m + 2)
    rw [hc, he, Nat.mul_div_cancel_left _ (by decide : 0 < 2), Nat.mul_div_cancel_left _ (by decide : 0 < 2)]
    have h1 : m * (m + 1) = 2 * c := hc
    have h2 : (m + 2) * (m + 3) = 2 * e := he
    simp only [Nat.add_zero]
    calc c * e * 2 ^ 2 = (2 * e) * (2 * c) := by ring
      _ = _ := by rw [← h1, ← h2]; ring
  · -- mul5
    simp only [mulfunc, tcnt, tcnttab, List.getD_cons_succ, List.getD_cons_zero, hm0, hmod 1 (by omega),
      hmod 2 (by omega), hmod 3 (by omega), hmod 4 (by omega), Nat.add_zero]
    have p01 := mulB_fit (hle 0 (by omega)) (hle 1 (by omega)) (hB 2 (by omega))
    simp only [Nat.add_zero] at p01
    have p012 := mulB_fit p01.2 (hle 2 (by omega)) (hB 3 (by omega))
    have p34 := mulB_fit (hle 3 (by omega)) (hle 4 (by omega)) (hB 2 (by omega))
    rw [p01.1, p012.1, p34.1, (mulB_fit (hdiv p012.2) (hdiv p34.2) (hB 5 (by omega))).1]
    simp only [Nat.ascFactorial]
    obtain ⟨c, hc⟩ := d2 m
    obtain ⟨e, he⟩ := d2 (m + 3)
    have h1 : m * (m + 1) = 2 * c := hc
    have h2 : (m + 3) * (m + 4) = 2 * e := he
    have e1 : m * (m + 1) * (m + 2) = 2 * (c * (m + 2)) := by rw [h1]; ring
    rw [e1, h2, Nat.mul_div_cancel_left _ (by decide : 0 < 2), Nat.mul_div_cancel_left _ (by decide : 0 < 2)]
    simp only [Nat.add_zero]
    calc c * (m + 2) * e * 2 ^ 2 = (2 * e) * ((m + 2) * (2 * c)) := by ring
      _ = _ := by rw [← h1, ← h2]; ring
  · -- mul6
    simp only [mulfunc, tcnt, tcnttab, List.getD_cons_succ, List.getD_cons_zero, hm0, hmod 1 (by omega),
      hmod 2 (by omega), hmod 3 (by omega), hmod 4 (by omega), hmod 5 (by omega), Nat.add_zero]
    have p01 := mulB_fit (hle 0 (by omega)) (hle 1 (by omega)) (hB 2 (by omega))
    simp only [Nat.add_zero] at p01
    have p23 := mulB_fit (hle 2 (by omega)) (hle 3 (by omega)) (hB 2 (by omega))
    have p0123 := mulB_fit p01.2 p23.2 (hB 4 (by omega))
    have p45 := mulB_fit (hle 4 (by omega)) (hle 5 (by omega)) (hB 2 (by omega))
    rw [p01.1, p23.1, p0123.1, p45.1, (mulB_fit (hdiv p0123.2) (hdiv p45.2) (hB 6 (by omega))).1]
    simp only [Nat.ascFactorial]
    obtain ⟨c, hc⟩ := d8 m
    obtain ⟨e, he⟩ := d2 (m + 4)
    have h2 : (m + 4) * (m + 5) = 2 * e := he
    rw [hc, h2, Nat.mul_div_cancel_left _ (by decide : 0 < 8), Nat.mul_div_cancel_left _ (by decide : 0 < 2)]
    simp only [Nat.add_zero]
    calc c * e * 2 ^ 4 = (2 * e) * (8 * c) := by ring
      _ = _ := by rw [← hc, ← h2]; ring
  · -- mul7
    simp only [mulfunc, tcnt, tcnttab, List.getD_cons_succ, List.getD_cons_zero, hm0, hmod 1 (by omega),
      hmod 2 (by omega), hmod 3 (by omega), hmod 4 (by omega), hmod 5 (by omega), hmod 6 (by omega), Nat.add_zero]
    have p01 := mulB_fit (hle 0 (by omega)) (hle 1 (by omega)) (hB 2 (by omega))
    simp only [Nat.add_zero] at p01
    have p23 := mulB_fit (hle 2 (by omega)) (hle 3 (by omega)) (hB 2 (by omega))
    have p0123 := mulB_fit p01.2 p23.2 (hB 4 (by omega))
    have p45 := mulB_fit (hle 4 (by omega)) (hle 5 (by omega)) (hB 2 (by omega))
    have p456 := mulB_fit p45.2 (hle 6 (by omega)) (hB 3 (by omega))
    rw [p01.1, p23.1, p0123.1, p45.1, p456.1, (mulB_fit (hdiv p0123.2) (hdiv p456.2) (hB 7 (by omega))).1]
    simp only [Nat.ascFactorial]
    obtain ⟨c, hc⟩ := d8 m
    obtain ⟨e, he⟩ := d2 (m + 4)
    have h2 : (m + 4) * (m + 5) = 2 * e := he
    have e1 : (m + 4) * (m + 5) * (m + 6) = 2 * (e * (m + 6)) := by rw [h2]; ring
    rw [hc, e1, Nat.mul_div_cancel_left _ (by decide : 0 < 8), Nat.mul_div_cancel_left _ (by decide : 0 < 2)]
    simp only [Nat.add_zero]
    calc c * (e * (m + 6)) * 2 ^ 4 = (m + 6) * ((2 * e) * (8 * c)) := by ring
      _ = _ := by rw [← hc, ← h2]; ring
  · -- mul8
    simp only [mulfunc, tcnt, tcnttab, List.getD_cons_succ, List.getD_cons_zero, hm0, hmod 1 (by omega),
      hmod 2 (by omega), hmod 3 (by omega), hmod 4 (by omega), hmod 5 (by omega), hmod 6 (by omega), hmod 7 (by omega),
      Nat.add_zero]
    have p01 := mulB_fit (hle 0 (by omega)) (hle 1 (by omega)) (hB 2 (by omega))
    simp only [Nat.add_zero] at p01
    have p23 := mulB_fit (hle 2 (by omega)) (hle 3 (by omega)) (hB 2 (by omega))
    have p0123 := mulB_fit p01.2 p23.2 (hB 4 (by omega))
    have p45 := mulB_fit (hle 4 (by omega)) (hle 5 (by omega)) (hB 2 (by omega))
    have p67 := mulB_fit (hle 6 (by omega)) (hle 7 (by omega)) (hB 2 (by omega))
    have p4567 := mulB_fit p45.2 p67.2 (hB 4 (by omega))
    rw [p01.1, p23.1, p0123.1, p45.1, p67.1, p4567.1, (mulB_fit (hdiv p0123.2) (hdiv p4567.2) (hB 8 (by omega))).1]
    simp only [Nat.ascFactorial]
    obtain ⟨c, hc⟩ := d8 m
    obtain ⟨e, he⟩ := d8 (m + 4)
    have h2 : (m + 4) * (m + 5) * ((m + 6) * (m + 7)) = 8 * e := he
    rw [hc, h2, Nat.mul_div_cancel_left _ (by decide : 0 < 8), Nat.mul_div_cancel_left _ (by decide : 0 < 8)]
    simp only [Nat.add_zero]
    calc c * e * 2 ^ 6 = (8 * e) * (8 * c) := by ring
      _ = _ := by rw [← hc, ← h2]; ring

/-! ## mpn_divrem_hensel_rsh_qr_1_preinv: exact division by an odd limb -/

/-- one limb of Hensel division: with d·m ≡ 1 (mod B), q = ((x − t) mod B)·m mod B satisfies
    x + B·(borrow + high(q·d)) = q·d + t -/
theorem hensel_limb (x t d m : ℕ) (hx : x < B) (ht : t < B) (hd : d < B) (hdm : d * m % B = 1) :
    let c' := if t > x then 1 else 0
    let q := (x + B - t) % B * m % B
    x + B * (c' + q * d / B) = q * d + t ∧ q < B ∧ q * d / B + c' < B := by
  intro c' q
  have hB : 2 ≤ B := by rw [B_eq]; norm_num
  have hq : q < B := Nat.mod_lt _ (by omega)
  have h1 : (x + B - t) % B + t = x + B * c' := by
    simp only [c']
    split
    · rw [Nat.mod_eq_of_lt (by omega)]; omega
    · have : x + B - t = (x - t) + B := by omega
      rw [this, Nat.add_mod_right, Nat.mod_eq_of_lt (by omega)]; omega
  have h2 : q * d % B = (x + B - t) % B := by
    simp only [q]
    rw [Nat.mod_mul_mod, mul_assoc, mul_comm m d, Nat.mul_mod, hdm, Nat.mul_one, Nat.mod_mod, Nat.mod_mod]
  have h3 := Nat.div_add_mod (q * d) B
  have hle : q * d / B + 2 ≤ B := by
    have : q * d ≤ (B - 1) * (B - 1) := Nat.mul_le_mul (by omega) (by omega)
    have h4 : q * d < B * (B - 1) := by
      have h5 : (B - 1) * (B - 1) < B * (B - 1) := Nat.mul_lt_mul_of_pos_right (by omega) (by omega)
      exact lt_of_le_of_lt this h5
    have := Nat.div_lt_of_lt_mul h4
    omega
  refine ⟨?_, hq, ?_⟩
  · rw [Nat.mul_add]; omega
  · simp only [c']; split <;> omega

theorem henselRshAux_spec (xs d m : ℕ) (hd : d < B) (hdm : d * m % B = 1) :
    ∀ cnt j h c acc, h + c < B → acc < B ^ j → xs % B ^ j + (h + c) * B ^ j = acc * d →
      henselRshAux xs d m cnt j h c acc < B ^ (j + cnt) ∧
      ∃ e, xs % B ^ (j + cnt) + e * B ^ (j + cnt) = henselRshAux xs d m cnt j h c acc * d := by
  intro cnt
  induction cnt with
  | zero => intro j h c acc hc hacc hinv; exact ⟨hacc, h + c, hinv⟩
  | succ cnt ih =>
    intro j h c acc hc hacc hinv
    unfold henselRshAux
    simp only
    have hxj : xs / B ^ j % B < B := Nat.mod_lt _ B_pos
    rw [Nat.mod_eq_of_lt hc]
    obtain ⟨e1, e2, e3⟩ := hensel_limb (xs / B ^ j % B) (h + c) d m hxj hc hd hdm
    generalize hq : (xs / B ^ j % B + B - (h + c)) % B * m % B = q at e1 e2 e3 ⊢
    generalize hc' : (if h + c > xs / B ^ j % B then 1 else 0) = c' at e1 e3 ⊢
    have hstep := ih (j + 1) (q * d / B) c' (acc + q * B ^ j) e3 (by
      rw [pow_succ]
      have : q * B ^ j ≤ (B - 1) * B ^ j := Nat.mul_le_mul_right _ (by omega)
      have hB := B_pos
      have e : (B - 1) * B ^ j + B ^ j = B ^ j * B := by
        have h1 : (B - 1) * B ^ j + 1 * B ^ j = (B - 1 + 1) * B ^ j := (Nat.add_mul _ _ _).symm
        rw [Nat.sub_add_cancel (by omega : 1 ≤ B), Nat.one_mul] at h1
        rw [h1, mul_comm]
      omega) (by
      rw [Nat.mod_pow_succ]
      generalize xs / B ^ j % B = xj at e1
      generalize xs % B ^ j = lo at hinv
      generalize q * d / B = h' at e1
      rw [pow_succ]
      have := congrArg (· * B ^ j) e1
      nlinarith [this, hinv])
    rw [show j + (cnt + 1) = j + 1 + cnt by omega]
    exact hstep

/-- mpn_divrem_hensel_rsh_qr_1_preinv (qp, xp, n, d, m, s) when (x >> s) = d·T exactly: the n quotient limbs are T -/
theorem henselRshDiv_exact (x n d m s T : ℕ) (hx : x < B ^ n) (hd : d < B) (hdm : d * m % B = 1)
    (hT : x >>> s = d * T) : henselRshDiv x n d m s = T := by
  unfold henselRshDiv
  rw [Nat.mod_eq_of_lt hx, hT]
  obtain ⟨h1, e, h2⟩ := henselRshAux_spec (d * T) d m hd hdm n 0 0 0 0 (by have := B_pos; omega) (by simp) (by simp [Nat.mod_one])
  simp only [Nat.zero_add] at h1 h2
  generalize henselRshAux (d * T) d m n 0 0 0 0 = Q at h1 h2 ⊢
  have hdpos : 0 < d := by
    rcases Nat.eq_zero_or_pos d with h | h
    · subst h; simp at hdm
    · exact h
  have hxs : d * T < B ^ n := by
    rw [← hT]; exact lt_of_le_of_lt (by rw [Nat.shiftRight_eq_div_pow]; exact Nat.div_le_self _ _) hx
  have hTlt : T < B ^ n := lt_of_le_of_lt (Nat.le_mul_of_pos_left T hdpos) hxs
  rw [Nat.mod_eq_of_lt hxs] at h2
  -- d·T + e·B^n = Q·d, d invertible mod B^n  ⇒  Q ≡ T (mod B^n)
  have hcop : Nat.Coprime d (B ^ n) := by
    apply Nat.Coprime.pow_right
    have : Nat.Coprime d B := by
      have h1 : Nat.gcd d B ∣ d * m % B := by
        rw [Nat.dvd_mod_iff (Nat.gcd_dvd_right d B)]
        exact Dvd.dvd.mul_right (Nat.gcd_dvd_left d B) m
      rw [hdm] at h1
      exact Nat.dvd_one.mp h1
    exact this
  have hmod : (d * Q) % B ^ n = (d * T) % B ^ n := by
    rw [mul_comm d Q, ← h2, Nat.add_mul_mod_self_right]
  have hQT : Q ≡ T [MOD B ^ n] := Nat.ModEq.cancel_left_of_coprime (by rwa [Nat.coprime_comm, Nat.Coprime] at hcop) hmod
  have := Nat.ModEq.eq_of_lt_of_lt hQT h1 hTlt
  exact this

end Mpir.Numth
