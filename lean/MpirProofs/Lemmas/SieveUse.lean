/- The LOOP_ON_SIEVE macro reading a real bit array (Mpir.Sieve.sieveLoop) does what the walk over the array's
   meaning does (Mpir.Numth.sieveWalk); hence the array-reading models of mpz_2multiswing_1,
   mpz_goetgheluck_bin_uiui and mpz_primorial_ui equal the models of Mpir/Model/Numth.lean. -/
import MpirProofs.Lemmas.Goet
import MpirProofs.Lemmas.Primorial
import MpirProofs.Lemmas.SieveTop
namespace Mpir.Sieve
open Mpir Mpir.Numth

/-- the array says "prime" exactly where trial division does, on the bits b … max b stop -/
def ExactOn (sieve : Array ℕ) (lo hi : ℕ) : Prop := ∀ j, lo ≤ j → j ≤ hi → sieveBit sieve j = !isPrimeTD (bit_to_n j)

theorem sieveLoop_eq_walk (sieve : Array ℕ) (stop : ℕ) (body : ℕ → FL → FL) :
    ∀ fuel b st, ExactOn sieve b (max b stop) → (if stop < b then 1 else stop - b + 1) ≤ fuel →
      sieveLoop sieve stop body fuel (2 ^ (b % 64)) (b / 64) b st =
        sieveWalk body (if stop < b then 1 else stop - b + 1) b st := by
  intro fuel
  induction fuel with
  | zero => intro b st _ h; split at h <;> omega
  | succ f ih =>
    intro b st hex hf
    have hb : sieveBit sieve b = !isPrimeTD (bit_to_n b) := hex b (Nat.le_refl _) (Nat.le_max_left _ _)
    simp only [sieveLoop, clearAt_eq, hb, Bool.not_not, mask_step, index_step, ← bit_to_n_eq_id]
    by_cases hmore : b + 1 ≤ stop
    · have h1 : ¬ stop < b := by omega
      have h2 : ¬ stop < b + 1 := by omega
      simp only [hmore, if_true, h1, if_false]
      rw [ih (b + 1) _ (fun j hj1 hj2 => hex j (by omega) (by rw [Nat.max_def] at hj2 ⊢; split at hj2 <;> split <;> omega))
        (by simp only [h2, if_false]; simp only [h1, if_false] at hf; omega)]
      simp only [h2, if_false]
      rw [show stop - b + 1 = (stop - (b + 1) + 1) + 1 by omega]
      simp only [sieveWalk]
    · simp only [hmore, if_false]
      have : (if stop < b then 1 else stop - b + 1) = 1 := by split <;> omega
      rw [this]
      simp only [sieveWalk]

theorem loopOnSieveArr_eq (sieve : Array ℕ) (start stop : ℕ) (body : ℕ → FL → FL) (st : FL)
    (hex : ExactOn sieve start (max start stop)) :
    loopOnSieveArr sieve start stop body st = loopOnSieve start stop body st := by
  unfold loopOnSieveArr loopOnSieve
  rw [Nat.one_shiftLeft]
  exact sieveLoop_eq_walk sieve stop body _ start st hex (by split <;> omega)

theorem exactOn_mono {sieve : Array ℕ} {w lo hi : ℕ} (h : ExactOn sieve 0 w) (hhi : hi ≤ w) : ExactOn sieve lo hi :=
  fun j _ hj => h j (Nat.zero_le _) (by omega)

/-- mpz_2multiswing_1 reading a sieve array that is right up to n_to_bit n -/
theorem multiswingArr_eq (sieve : Array ℕ) (n0 : ℕ) (h26 : 26 ≤ n0) (hB : n0 < B)
    (hex : ExactOn sieve 0 (nb (n0 - n0 % 2))) : multiswingArr sieve n0 = mpz_2multiswing_1 n0 := by
  unfold multiswingArr mpz_2multiswing_1
  simp only []
  generalize hn : n0 - n0 % 2 = n at *
  have hn26 : 26 ≤ n := by omega
  have hnB : n < B := by omega
  have hBv := B_eq
  obtain ⟨hr1, hr2⟩ := apprsqrt_bounds n (by omega)
  have hrange := swing_ranges n (by omega)
  generalize hr : limb_apprsqrt n = r at *
  have hr5 : 5 ≤ r := by
    by_contra hlt
    have : r * r ≤ 4 * 4 := Nat.mul_le_mul (by omega) (by omega)
    omega
  have hrn : r ≤ n := by nlinarith
  rw [n_to_bit_five, n_to_bit_eq_nb r hr5 (by omega), n_to_bit_eq_nb (n / 3) (by omega) (by omega),
    n_to_bit_eq_nb (n / 2) (by omega) (by omega), n_to_bit_eq_nb n (by omega) hnB]
  have h1 : nb r ≤ nb n := nb_mono hrn
  have h2 : nb (n / 3) ≤ nb n := nb_mono (by omega)
  have h3 : nb (n / 2) + 1 ≤ nb n := by rw [nb_eq, nb_eq]; omega
  rw [loopOnSieveArr_eq _ _ _ _ _ (exactOn_mono hex (by rw [Nat.max_def]; split <;> omega)),
    loopOnSieveArr_eq _ _ _ _ _ (exactOn_mono hex (by rw [Nat.max_def]; split <;> omega)),
    loopOnSieveArr_eq _ _ _ _ _ (exactOn_mono hex (by rw [Nat.max_def]; split <;> omega))]

/-- mpz_goetgheluck_bin_uiui reading a sieve array that is right up to n_to_bit n -/
theorem goetgheluckArr_eq (sieve : Array ℕ) (n k : ℕ) (h25 : 25 ≤ n) (hnB : n < B) (hk : 2 * k ≤ n)
    (hlast : nb (n - k) < nb n) (hex : ExactOn sieve 0 (nb n)) : goetgheluckArr sieve n k = goetgheluck_bin_uiui n k := by
  unfold goetgheluckArr goetgheluck_bin_uiui
  simp only []
  have hBv := B_eq
  obtain ⟨hr1, hr2⟩ := apprsqrt_bounds n h25
  have hrange := swing_ranges n h25
  generalize hr : limb_apprsqrt n = r at *
  have hr5 : 5 ≤ r := by
    by_contra hlt
    have : r * r ≤ 4 * 4 := Nat.mul_le_mul (by omega) (by omega)
    omega
  have hrn : r ≤ n := by nlinarith
  rw [n_to_bit_five, n_to_bit_eq_nb r hr5 (by omega), n_to_bit_eq_nb (n / 2) (by omega) (by omega),
    n_to_bit_eq_nb (n - k) (by omega) (by omega), n_to_bit_eq_nb n (by omega) hnB]
  have h1 : nb r ≤ nb n := nb_mono hrn
  have h2 : nb (n / 2) ≤ nb n := nb_mono (by omega)
  have h4 : nb (n / 3) ≤ nb (n / 2) := nb_mono (by omega)
  rw [loopOnSieveArr_eq _ _ _ _ _ (exactOn_mono hex (by rw [Nat.max_def]; split <;> omega)),
    loopOnSieveArr_eq _ _ _ _ _ (exactOn_mono hex (by rw [Nat.max_def]; split <;> omega)),
    loopOnSieveArr_eq _ _ _ _ _ (exactOn_mono hex (by rw [Nat.max_def]; split <;> omega))]


/-- the sieve part of mpz_primorial_ui reading a sieve array -/
theorem primorialArr_eq (sieve : Array ℕ) (n : ℕ) (h5 : 5 ≤ n) (hnB : n < B) (hex : ExactOn sieve 0 (nb n)) :
    primorialArr sieve n = mpz_primorial_ui n := by
  have hlen : Mpir.Gen.NumthTabs.primorialTable.length = 5 := by decide
  unfold primorialArr mpz_primorial_ui
  simp only [hlen, show ¬ n < 5 by omega, if_false]
  rw [n_to_bit_five, n_to_bit_eq_nb n h5 hnB,
    loopOnSieveArr_eq _ _ _ _ _ (exactOn_mono hex (by rw [Nat.max_def]; split <;> omega))]
  rfl

/-- what gmp_primesieve (model) delivers is `ExactOn` up to n_to_bit n -/
theorem gmp_primesieve_exactOn (n : ℕ) (h4 : 4 < n) (hn : n < B) :
    ∃ a c, gmp_primesieve n = some (a, c) ∧ ExactOn a 0 (nb n) := by
  obtain ⟨a, e, _, _, hb, _⟩ := gmp_primesieve_struct n h4 hn
  refine ⟨a, _, e, fun j _ hj => ?_⟩
  have h := hb j hj
  rw [← isPrimeTD_iff] at h
  cases h1 : sieveBit a j <;> cases h2 : isPrimeTD (bit_to_n j) <;> simp_all

end Mpir.Sieve
