/- Helper lemmas for the pointer-level alias model (Mpir/Model/AliasMem.lean): the state invariant and
   what each memory primitive does to it. -/
import MpirProofs.Lemmas.DivZ
import Mpir.Model.AliasMem
namespace Mpir.AliasMem
open Mpir
open Mpir.DivZ (sizeNat siz sameSign)

/-! ### limb lists -/

theorem toLimbs_length : ∀ (n v : Nat), (toLimbs n v).length = n := fun n v => (DivZ.val_toLimbs n v).2.1
theorem Limbs_toLimbs : ∀ (n v : Nat), Limbs (toLimbs n v) := fun n v => (DivZ.val_toLimbs n v).2.2
theorem val_toLimbs (n v : Nat) : val (toLimbs n v) = v % B ^ n := (DivZ.val_toLimbs n v).1
theorem val_toLimbs_lt {n v : Nat} (h : v < B ^ n) : val (toLimbs n v) = v := by
  rw [val_toLimbs, Nat.mod_eq_of_lt h]

theorem toLimbs_take : ∀ (n k v : Nat), k ≤ n → (toLimbs n v).take k = toLimbs k v
  | _, 0, _, _ => by simp [toLimbs]
  | 0, k + 1, _, h => by omega
  | n + 1, k + 1, v, h => by
    simp only [toLimbs, List.take_succ_cons]
    rw [toLimbs_take n k (v / B) (by omega)]

theorem toLimbs_getD : ∀ (n i v : Nat), i < n → (toLimbs n v).getD i 0 = v / B ^ i % B
  | 0, _, _, h => by omega
  | n + 1, 0, v, _ => by simp [toLimbs]
  | n + 1, i + 1, v, h => by
    simp only [toLimbs, List.getD_cons_succ]
    rw [toLimbs_getD n i (v / B) (by omega), Nat.div_div_eq_div_mul, pow_succ, Nat.mul_comm]

theorem Limbs_replicate_junk (n : Nat) : Limbs (List.replicate n junk) := by
  intro x hx
  rw [List.mem_replicate] at hx
  rw [hx.2, B_eq]; decide

theorem take_append_drop_len (l b : List Nat) (k : Nat) (hk : k ≤ l.length) :
    (l ++ b.drop l.length).take k = l.take k := by
  rw [List.take_append_of_le_length hk]

theorem length_wr (l b : List Nat) (h : l.length ≤ b.length) : (l ++ b.drop l.length).length = b.length := by
  simp; omega

theorem Limbs_wr {l b : List Nat} (hl : Limbs l) (hb : Limbs b) : Limbs (l ++ b.drop l.length) :=
  Limbs_append.mpr ⟨hl, Limbs_drop hb _⟩

/-- the most significant of `k` limbs decides whether the value needs all `k` -/
theorem val_top {l : List Nat} (hL : Limbs l) (k : Nat) (hk : 1 ≤ k) (hkl : k ≤ l.length) :
    (l.getD (k - 1) 0 ≠ 0 ↔ B ^ (k - 1) ≤ val (l.take k)) := by
  obtain ⟨j, rfl⟩ : ∃ j, k = j + 1 := ⟨k - 1, by omega⟩
  have hlt : j < l.length := by omega
  have h1 : l.take (j + 1) = l.take j ++ [l.getD j 0] := by
    rw [List.take_add_one]
    simp [List.getD_eq_getElem?_getD, List.getElem?_eq_getElem hlt]
  have h2 := val_lt (l.take j) (Limbs_take hL _)
  have h3 : (l.take j).length = j := by simp; omega
  rw [h3] at h2
  simp only [Nat.add_sub_cancel]
  rw [h1, val_append, h3]
  simp only [val_cons, val_nil, Nat.mul_zero, Nat.add_zero]
  constructor
  · intro h
    have : 1 ≤ l.getD j 0 := Nat.one_le_iff_ne_zero.mpr h
    nlinarith [Nat.mul_le_mul_left (B ^ j) this]
  · intro h h0
    rw [h0] at h; omega

/-! ### the invariant -/

structure Inv (s : St) : Prop where
  live : ∀ i, i < s.nv → ∃ l, s.blk (s.ptr i) = some l ∧ l.length = s.alloc i ∧ Limbs l
  inj : ∀ i j, i < s.nv → j < s.nv → s.ptr i = s.ptr j → i = j
  lt : ∀ i, i < s.nv → s.ptr i < s.next
  fresh : ∀ p, s.next ≤ p → s.blk p = none
  fits : ∀ i, i < s.nv → (s.size i).natAbs ≤ s.alloc i
  norm : ∀ i, i < s.nv → s.size i = siz (s.value i)

theorem sgnv_natAbs (sz : Int) (m : Nat) : (sgnv sz m).natAbs = m := by
  unfold sgnv; split <;> simp

theorem value_eq_sgnv (s : St) (v : Nat) : s.value v = sgnv (s.size v) (s.mag v) := rfl

theorem value_natAbs (s : St) (v : Nat) : (s.value v).natAbs = s.mag v := sgnv_natAbs _ _

/-- the value of `i` depends only on its header and its block -/
theorem value_congr {s s' : St} {i : Nat} (h1 : s'.vars i = s.vars i)
    (h2 : s'.blk (s.ptr i) = s.blk (s.ptr i)) : s'.value i = s.value i := by
  unfold St.value St.mag St.limbs St.size St.ptr at *
  rw [h1, h2]

theorem limbs_congr {s s' : St} {i : Nat} (h1 : s'.vars i = s.vars i)
    (h2 : s'.blk (s.ptr i) = s.blk (s.ptr i)) : s'.limbs i = s.limbs i := by
  unfold St.limbs St.size St.ptr at *
  rw [h1, h2]

namespace Inv
variable {s : St}

theorem size_natAbs (h : Inv s) {i : Nat} (hi : i < s.nv) : (s.size i).natAbs = sizeNat (s.mag i) := by
  rw [h.norm i hi, DivZ.siz_natAbs, value_natAbs]

theorem size_neg_iff (h : Inv s) {i : Nat} (hi : i < s.nv) : s.size i < 0 ↔ s.value i < 0 := by
  rw [h.norm i hi, DivZ.siz_neg_iff]

theorem size_eq_zero_iff (h : Inv s) {i : Nat} (hi : i < s.nv) : s.size i = 0 ↔ s.value i = 0 := by
  rw [h.norm i hi, DivZ.siz_eq_zero]

theorem limbs_spec (h : Inv s) {i : Nat} (hi : i < s.nv) :
    (s.limbs i).length = (s.size i).natAbs ∧ Limbs (s.limbs i) := by
  obtain ⟨l, hl, hlen, hL⟩ := h.live i hi
  have := h.fits i hi
  unfold St.limbs; rw [hl]; simp only [Option.getD_some]
  exact ⟨by simp; omega, Limbs_take hL _⟩

theorem mag_lt (h : Inv s) {i : Nat} (hi : i < s.nv) : s.mag i < B ^ (s.size i).natAbs := by
  have := val_lt _ (h.limbs_spec hi).2
  rwa [(h.limbs_spec hi).1] at this

theorem mag_ge (h : Inv s) {i : Nat} (hi : i < s.nv) (h0 : s.size i ≠ 0) :
    B ^ ((s.size i).natAbs - 1) ≤ s.mag i := by
  have h1 := h.size_natAbs hi
  by_contra hc
  have : sizeNat (s.mag i) ≤ (s.size i).natAbs - 1 := (DivZ.sizeNat_le_iff _ _).mpr (by omega)
  omega

/-- `PTR (v)[0 .. |SIZ (v)|)` can be read -/
theorem load_var (h : Inv s) {i : Nat} (hi : i < s.nv) :
    s.load (s.ptr i) (s.size i).natAbs = .ok (s.limbs i) := by
  obtain ⟨l, hl, hlen, _⟩ := h.live i hi
  have := h.fits i hi
  unfold St.load St.limbs; rw [hl]; simp only [Option.getD_some]
  rw [if_pos (by omega)]

/-- the top limb of a normalised non-zero variable is non-zero -/
theorem top_ne_zero (h : Inv s) {i : Nat} (hi : i < s.nv) (h0 : s.size i ≠ 0) :
    (s.limbs i).getD ((s.size i).natAbs - 1) 0 ≠ 0 := by
  have hs := h.limbs_spec hi
  have hk : 1 ≤ (s.size i).natAbs := by omega
  rw [val_top hs.2 _ hk (by omega)]
  rw [List.take_of_length_le (by omega)]
  exact h.mag_ge hi h0

end Inv

/-! ### frame: the variables of `s` look the same in `s'` -/

/-- headers of the variables and every live block of `s` are unchanged in `s'` -/
structure Ext (s s' : St) : Prop where
  nv : s'.nv = s.nv
  vars : ∀ i, s'.vars i = s.vars i
  blk : ∀ p, s.blk p ≠ none → s'.blk p = s.blk p
  next : s.next ≤ s'.next

theorem Ext.refl (s : St) : Ext s s := ⟨rfl, fun _ => rfl, fun _ _ => rfl, Nat.le_refl _⟩

theorem Ext.trans {a b c : St} (h1 : Ext a b) (h2 : Ext b c) : Ext a c :=
  ⟨h2.nv.trans h1.nv, fun i => (h2.vars i).trans (h1.vars i),
   fun p hp => by rw [h2.blk p (by rw [h1.blk p hp]; exact hp), h1.blk p hp], Nat.le_trans h1.next h2.next⟩

namespace Ext
variable {s s' : St}

theorem size (h : Ext s s') (i : Nat) : s'.size i = s.size i := by unfold St.size; rw [h.vars]
theorem ptr (h : Ext s s') (i : Nat) : s'.ptr i = s.ptr i := by unfold St.ptr; rw [h.vars]
theorem alloc (h : Ext s s') (i : Nat) : s'.alloc i = s.alloc i := by unfold St.alloc; rw [h.vars]

theorem value (h : Ext s s') (hs : Inv s) {i : Nat} (hi : i < s.nv) : s'.value i = s.value i := by
  obtain ⟨l, hl, _⟩ := hs.live i hi
  exact value_congr (h.vars i) (h.blk _ (by rw [hl]; simp))

theorem load (h : Ext s s') {p n : Nat} {l : List Nat} (hl : s.load p n = .ok l) : s'.load p n = .ok l := by
  unfold St.load at *
  cases hb : s.blk p with
  | none => rw [hb] at hl; simp at hl
  | some b => rw [h.blk p (by rw [hb]; simp), hb]; rw [hb] at hl; exact hl

end Ext

/-! ### malloc / free -/

theorem malloc_fst (s : St) (l : List Nat) : (s.malloc l).1 = s.next := rfl

theorem malloc_blk_new (s : St) (l : List Nat) : (s.malloc l).2.blk s.next = some l := by
  simp [St.malloc, St.setBlk]

theorem malloc_ext {s : St} (h : Inv s) (l : List Nat) : Ext s (s.malloc l).2 := by
  refine ⟨rfl, fun _ => rfl, fun p hp => ?_, by simp [St.malloc]⟩
  have : p ≠ s.next := fun e => hp (by rw [e]; exact h.fresh _ (Nat.le_refl _))
  simp [St.malloc, St.setBlk, this]

theorem malloc_inv {s : St} (h : Inv s) (l : List Nat) : Inv (s.malloc l).2 := by
  have he := malloc_ext h l
  have hne : ∀ i, i < s.nv → s.ptr i ≠ s.next := fun i hi => Nat.ne_of_lt (h.lt i hi)
  refine ⟨fun i hi => ?_, fun i j hi hj => h.inj i j hi hj, fun i hi => ?_, fun p hp => ?_,
    fun i hi => h.fits i hi, fun i hi => ?_⟩
  · obtain ⟨b, hb, hlen, hL⟩ := h.live i hi
    exact ⟨b, by rw [he.ptr, he.blk _ (by rw [hb]; simp), hb], hlen, hL⟩
  · have := h.lt i hi
    show s.ptr i < s.next + 1
    omega
  · have hp' : s.next + 1 ≤ p := hp
    have : p ≠ s.next := by omega
    simp only [St.malloc, St.setBlk, this, if_false]
    exact h.fresh p (by omega)
  · rw [he.size, he.value h hi]; exact h.norm i hi

theorem malloc_ne_ptr {s : St} (h : Inv s) {i : Nat} (hi : i < s.nv) : s.ptr i ≠ s.next :=
  Nat.ne_of_lt (h.lt i hi)

/-- freeing a block that is not a variable's -/
theorem free_inv {s : St} (h : Inv s) (p : Nat) (hp : ∀ i, i < s.nv → s.ptr i ≠ p) :
    Inv (s.free p) ∧ (s.free p).nv = s.nv ∧ (∀ i, (s.free p).vars i = s.vars i) ∧
    ∀ i, i < s.nv → (s.free p).value i = s.value i := by
  have hb : ∀ i, i < s.nv → (s.free p).blk (s.ptr i) = s.blk (s.ptr i) := fun i hi => by
    simp [St.free, St.setBlk, hp i hi]
  have hv : ∀ i, i < s.nv → (s.free p).value i = s.value i := fun i hi => value_congr rfl (hb i hi)
  refine ⟨⟨fun i hi => ?_, fun i j hi hj => h.inj i j hi hj, fun i hi => h.lt i hi, fun q hq => ?_,
    fun i hi => h.fits i hi, fun i hi => ?_⟩, rfl, fun _ => rfl, hv⟩
  · obtain ⟨b, hb', hlen, hL⟩ := h.live i hi
    exact ⟨b, by rw [show (s.free p).ptr i = s.ptr i from rfl, hb i hi, hb'], hlen, hL⟩
  · by_cases e : q = p
    · simp [St.free, St.setBlk, e]
    · simp only [St.free, St.setBlk, e, if_false]; exact h.fresh q hq
  · rw [show (s.free p).size i = s.size i from rfl, hv i hi]; exact h.norm i hi

/-! ### MPZ_REALLOC -/

theorem realloc_spec {s : St} (h : Inv s) {v : Nat} (hv : v < s.nv) (n : Nat) :
    Inv (s.mpzRealloc v n) ∧ (s.mpzRealloc v n).nv = s.nv ∧ (∀ i, (s.mpzRealloc v n).size i = s.size i) ∧
    (∀ i, i < s.nv → (s.mpzRealloc v n).value i = s.value i) ∧
    n ≤ (s.mpzRealloc v n).alloc v ∧ (∀ i, s.alloc i ≤ (s.mpzRealloc v n).alloc i) := by
  by_cases hlt : s.alloc v < n
  · obtain ⟨l, hl, hlen, hL⟩ := h.live v hv
    have hvars : ∀ i, (s.mpzRealloc v n).vars i =
        if i = v then { alloc := n, size := s.size v, ptr := s.next } else s.vars i := fun i => by
      simp [St.mpzRealloc, hlt, St.setVar, St.malloc, St.free, St.setBlk]
    have hblk : ∀ q, (s.mpzRealloc v n).blk q =
        if q = s.next then some (l ++ List.replicate (n - l.length) junk)
        else if q = s.ptr v then none else s.blk q := fun q => by
      simp [St.mpzRealloc, hlt, St.setVar, St.malloc, St.free, St.setBlk, hl]
    have hnext : (s.mpzRealloc v n).next = s.next + 1 := by
      simp [St.mpzRealloc, hlt, St.setVar, St.malloc, St.free, St.setBlk]
    have hnv : (s.mpzRealloc v n).nv = s.nv := by
      simp [St.mpzRealloc, hlt, St.setVar, St.malloc, St.free, St.setBlk]
    have hsize : ∀ i, (s.mpzRealloc v n).size i = s.size i := fun i => by
      unfold St.size; rw [hvars]; split
      · next e => subst e; rfl
      · rfl
    have hptr_v : (s.mpzRealloc v n).ptr v = s.next := by unfold St.ptr; rw [hvars]; simp
    have hptr_o : ∀ i, i ≠ v → (s.mpzRealloc v n).ptr i = s.ptr i := fun i hi => by
      unfold St.ptr; rw [hvars]; simp [hi]
    have halloc_v : (s.mpzRealloc v n).alloc v = n := by unfold St.alloc; rw [hvars]; simp
    have halloc_o : ∀ i, i ≠ v → (s.mpzRealloc v n).alloc i = s.alloc i := fun i hi => by
      unfold St.alloc; rw [hvars]; simp [hi]
    have hblk_o : ∀ i, i < s.nv → i ≠ v → (s.mpzRealloc v n).blk (s.ptr i) = s.blk (s.ptr i) := fun i hi hiv => by
      rw [hblk]
      have h1 : s.ptr i ≠ s.next := Nat.ne_of_lt (h.lt i hi)
      have h2 : s.ptr i ≠ s.ptr v := fun e => hiv (h.inj i v hi hv e)
      simp [h1, h2]
    have hfit := h.fits v hv
    have hval : ∀ i, i < s.nv → (s.mpzRealloc v n).value i = s.value i := fun i hi => by
      by_cases hiv : i = v
      · subst hiv
        unfold St.value St.mag St.limbs
        rw [hsize, hptr_v, hblk, hl]
        simp only [if_true, Option.getD_some]
        rw [List.take_append_of_le_length (by omega)]
      · exact value_congr (by rw [hvars]; simp [hiv]) (hblk_o i hi hiv)
    refine ⟨⟨fun i hi => ?_, fun i j hi hj e => ?_, fun i hi => ?_, fun q hq => ?_, fun i hi => ?_, fun i hi => ?_⟩,
      hnv, hsize, hval, by omega, fun i => ?_⟩
    · rw [hnv] at hi
      by_cases hiv : i = v
      · subst hiv
        refine ⟨l ++ List.replicate (n - l.length) junk, by rw [hptr_v, hblk]; simp, ?_, ?_⟩
        · rw [halloc_v]; simp; omega
        · exact Limbs_append.mpr ⟨hL, Limbs_replicate_junk _⟩
      · obtain ⟨b, hb, hbl, hbL⟩ := h.live i hi
        exact ⟨b, by rw [hptr_o i hiv, hblk_o i hi hiv, hb], by rw [halloc_o i hiv]; exact hbl, hbL⟩
    · rw [hnv] at hi hj
      by_cases hiv : i = v <;> by_cases hjv : j = v
      · rw [hiv, hjv]
      · rw [hiv, hptr_v, hptr_o j hjv] at e
        exact absurd e.symm (Nat.ne_of_lt (h.lt j hj))
      · rw [hjv, hptr_v, hptr_o i hiv] at e
        exact absurd e (Nat.ne_of_lt (h.lt i hi))
      · rw [hptr_o i hiv, hptr_o j hjv] at e; exact h.inj i j hi hj e
    · rw [hnv] at hi; rw [hnext]
      by_cases hiv : i = v
      · rw [hiv, hptr_v]; omega
      · rw [hptr_o i hiv]; have := h.lt i hi; omega
    · rw [hnext] at hq
      rw [hblk]
      have h1 : q ≠ s.next := by omega
      have h2 : q ≠ s.ptr v := by have := h.lt v hv; omega
      simp only [h1, h2, if_false]
      exact h.fresh q (by omega)
    · rw [hnv] at hi; rw [hsize]
      by_cases hiv : i = v
      · rw [hiv, halloc_v]; omega
      · rw [halloc_o i hiv]; exact h.fits i hi
    · rw [hnv] at hi; rw [hsize, hval i hi]; exact h.norm i hi
    · by_cases hiv : i = v
      · rw [hiv, halloc_v]; omega
      · rw [halloc_o i hiv]
  · have e : s.mpzRealloc v n = s := by simp [St.mpzRealloc, hlt]
    rw [e]
    exact ⟨h, rfl, fun _ => rfl, fun _ _ => rfl, by omega, fun _ => Nat.le_refl _⟩

/-! ### writing a variable: new block content + new size -/

/-- replace the block of `v` by `b` and set `SIZ (v) = sz` -/
def St.put (s : St) (v : Nat) (b : List Nat) (sz : Int) : St := (s.setBlk (s.ptr v) (some b)).setSize v sz

/-- what `put` preserves / establishes: `b` has the size of the block, its low `k = sizeNat m` limbs have the
    value `m`, the size field is `±k` -/
theorem put_spec {s : St} (h : Inv s) {v : Nat} (hv : v < s.nv) (b : List Nat) (m : Nat) (neg : Bool)
    (hlen : b.length = s.alloc v) (hL : Limbs b) (hk : sizeNat m ≤ s.alloc v)
    (hval : val (b.take (sizeNat m)) = m) :
    let sz : Int := if neg then -(sizeNat m : Int) else (sizeNat m : Int)
    Inv (s.put v b sz) ∧ (s.put v b sz).nv = s.nv ∧ (s.put v b sz).next = s.next ∧
    (s.put v b sz).value v = (if neg then -(m : Int) else (m : Int)) ∧
    (∀ i, i ≠ v → (s.put v b sz).vars i = s.vars i) ∧
    (∀ i, i < s.nv → i ≠ v → (s.put v b sz).value i = s.value i) ∧
    (∀ i, (s.put v b sz).ptr i = s.ptr i) ∧ (∀ i, (s.put v b sz).alloc i = s.alloc i) ∧
    (∀ p, p ≠ s.ptr v → (s.put v b sz).blk p = s.blk p) := by
  intro sz
  have hvars_o : ∀ i, i ≠ v → (s.put v b sz).vars i = s.vars i := fun i hi => by
    simp [St.put, St.setSize, St.setVar, St.setBlk, hi]
  have hptr : ∀ i, (s.put v b sz).ptr i = s.ptr i := fun i => by
    by_cases hi : i = v
    · subst hi; simp [St.put, St.setSize, St.setVar, St.setBlk, St.ptr]
    · unfold St.ptr; rw [hvars_o i hi]
  have halloc : ∀ i, (s.put v b sz).alloc i = s.alloc i := fun i => by
    by_cases hi : i = v
    · subst hi; simp [St.put, St.setSize, St.setVar, St.setBlk, St.alloc]
    · unfold St.alloc; rw [hvars_o i hi]
  have hsize_v : (s.put v b sz).size v = sz := by simp [St.put, St.setSize, St.setVar, St.setBlk, St.size]
  have hblk : ∀ p, (s.put v b sz).blk p = if p = s.ptr v then some b else s.blk p := fun p => by
    simp [St.put, St.setSize, St.setVar, St.setBlk]
  have hblk_o : ∀ i, i < s.nv → i ≠ v → (s.put v b sz).blk (s.ptr i) = s.blk (s.ptr i) := fun i hi hiv => by
    rw [hblk]; rw [if_neg (fun e => hiv (h.inj i v hi hv e))]
  have hszabs : sz.natAbs = sizeNat m := by simp only [sz]; split <;> simp
  have hvalv : (s.put v b sz).value v = (if neg then -(m : Int) else (m : Int)) := by
    unfold St.value St.mag St.limbs
    rw [hsize_v, hptr, hblk]
    simp only [if_true, Option.getD_some, hszabs, hval]
    cases neg
    · simp [sz]
    · simp only [sz, if_true]
      by_cases hm : m = 0
      · subst hm; simp [DivZ.sizeNat_eq_zero.mpr rfl]
      · have : sizeNat m ≠ 0 := fun e => hm (DivZ.sizeNat_eq_zero.mp e)
        rw [if_pos (by omega)]
  have hval_o : ∀ i, i < s.nv → i ≠ v → (s.put v b sz).value i = s.value i := fun i hi hiv =>
    value_congr (hvars_o i hiv) (hblk_o i hi hiv)
  refine ⟨⟨fun i hi => ?_, fun i j hi hj e => ?_, fun i hi => ?_, fun q hq => ?_, fun i hi => ?_, fun i hi => ?_⟩,
    rfl, rfl, hvalv, hvars_o, hval_o, hptr, halloc, fun p hp => by rw [hblk]; simp [hp]⟩
  · by_cases hiv : i = v
    · subst hiv
      exact ⟨b, by rw [hptr, hblk]; simp, by rw [halloc]; exact hlen, hL⟩
    · obtain ⟨c, hc, hcl, hcL⟩ := h.live i hi
      exact ⟨c, by rw [hptr, hblk_o i hi hiv, hc], by rw [halloc]; exact hcl, hcL⟩
  · rw [hptr, hptr] at e; exact h.inj i j hi hj e
  · rw [hptr]; exact h.lt i hi
  · rw [hblk]
    have : q ≠ s.ptr v := by have := h.lt v hv; have hq' : s.next ≤ q := hq; omega
    simp only [this, if_false]; exact h.fresh q hq
  · rw [halloc]
    by_cases hiv : i = v
    · subst hiv; rw [hsize_v, hszabs]; exact hk
    · unfold St.size; rw [hvars_o i hiv]; exact h.fits i hi
  · by_cases hiv : i = v
    · subst hiv
      rw [hsize_v, hvalv]
      unfold siz
      cases neg
      · simp [sz]
      · simp only [sz, if_true, Int.natAbs_neg, Int.natAbs_natCast]
        by_cases hm : m = 0
        · subst hm; simp [DivZ.sizeNat_eq_zero.mpr rfl]
        · rw [if_pos (by omega)]
    · rw [hval_o i hi hiv]; unfold St.size; rw [hvars_o i hiv]; exact h.norm i hi

/-- everything but the variable `v` (header and block) is the same in `s'` -/
structure Upd (s s' : St) (v : Nat) : Prop where
  nv : s'.nv = s.nv
  next : s'.next = s.next
  vars_o : ∀ i, i ≠ v → s'.vars i = s.vars i
  ptr : ∀ i, s'.ptr i = s.ptr i
  alloc : ∀ i, s'.alloc i = s.alloc i
  blk_o : ∀ p, p ≠ s.ptr v → s'.blk p = s.blk p

theorem Upd.value_o {s s' : St} {v : Nat} (u : Upd s s' v) (h : Inv s) (hv : v < s.nv) {i : Nat}
    (hi : i < s.nv) (hiv : i ≠ v) : s'.value i = s.value i :=
  value_congr (u.vars_o i hiv) (u.blk_o _ (fun e => hiv (h.inj i v hi hv e)))

theorem Upd.size_o {s s' : St} {v : Nat} (u : Upd s s' v) {i : Nat} (hiv : i ≠ v) : s'.size i = s.size i := by
  unfold St.size; rw [u.vars_o i hiv]

theorem Upd.load_o {s s' : St} {v : Nat} (u : Upd s s' v) {p n : Nat} (hp : p ≠ s.ptr v) :
    s'.load p n = s.load p n := by
  unfold St.load; rw [u.blk_o p hp]

theorem put_upd {s : St} (h : Inv s) {v : Nat} (hv : v < s.nv) (b : List Nat) (m : Nat) (neg : Bool)
    (hlen : b.length = s.alloc v) (hL : Limbs b) (hk : sizeNat m ≤ s.alloc v)
    (hval : val (b.take (sizeNat m)) = m) :
    Inv (s.put v b (if neg then -(sizeNat m : Int) else (sizeNat m : Int))) ∧
    Upd s (s.put v b (if neg then -(sizeNat m : Int) else (sizeNat m : Int))) v ∧
    (s.put v b (if neg then -(sizeNat m : Int) else (sizeNat m : Int))).value v = (if neg then -(m : Int) else (m : Int)) := by
  obtain ⟨a1, a2, a3, a4, a5, _, a7, a8, a9⟩ := put_spec h hv b m neg hlen hL hk hval
  exact ⟨a1, ⟨a2, a3, a5, a7, a8, a9⟩, a4⟩

theorem store_var {s : St} (h : Inv s) {v : Nat} (hv : v < s.nv) (l : List Nat) (hl : l.length ≤ s.alloc v) :
    ∃ b, s.blk (s.ptr v) = some b ∧ b.length = s.alloc v ∧ Limbs b ∧
      s.store (s.ptr v) l = .ok (s.setBlk (s.ptr v) (some (l ++ b.drop l.length))) := by
  obtain ⟨b, hb, hlen, hL⟩ := h.live v hv
  refine ⟨b, hb, hlen, hL, ?_⟩
  unfold St.store; rw [hb]; simp only []
  rw [if_pos (by omega)]

/-- one-output result: `w` holds `z`, the other variables keep their values -/
def Res (s s' : St) (w : Nat) (z : Int) : Prop :=
  Inv s' ∧ s'.nv = s.nv ∧ s'.value w = z ∧ ∀ i, i < s.nv → i ≠ w → s'.value i = s.value i

theorem setInt_spec {s : St} (h : Inv s) {v : Nat} (hv : v < s.nv) (z : Int) (hz : sizeNat z.natAbs ≤ s.alloc v) :
    ∃ s', s.setInt v z = .ok s' ∧ Res s s' v z ∧ Upd s s' v := by
  obtain ⟨b, hb, hlen, hL, hst⟩ := store_var h hv (toLimbs (sizeNat z.natAbs) z.natAbs) (by rw [toLimbs_length]; exact hz)
  have hput := put_upd h hv (toLimbs (sizeNat z.natAbs) z.natAbs ++ b.drop (toLimbs (sizeNat z.natAbs) z.natAbs).length)
    z.natAbs (decide (z < 0)) (by rw [length_wr _ _ (by rw [toLimbs_length]; omega)]; exact hlen)
    (Limbs_wr (Limbs_toLimbs _ _) hL) hz
    (by rw [List.take_append_of_le_length (by rw [toLimbs_length]), List.take_of_length_le (by rw [toLimbs_length])]
        exact val_toLimbs_lt (DivZ.lt_B_pow_sizeNat _))
  have hsz : (if decide (z < 0) = true then -(sizeNat z.natAbs : Int) else (sizeNat z.natAbs : Int)) = siz z := by
    unfold siz; simp
  rw [hsz] at hput
  refine ⟨_, ?_, ⟨hput.1, hput.2.1.nv, ?_, fun i hi hiv => hput.2.1.value_o h hv hi hiv⟩, hput.2.1⟩
  · unfold St.setInt
    simp only [bind, Except.bind, hst, pure, Except.pure]
    rfl
  · rw [hput.2.2]
    by_cases hz0 : z < 0
    · rw [if_pos (by simpa using hz0)]; omega
    · rw [if_neg (by simpa using hz0)]; omega

theorem sgnv_neg (sz : Int) (m : Nat) (h : sz = 0 → m = 0) : sgnv (-sz) m = -(sgnv sz m) := by
  unfold sgnv
  by_cases h0 : sz = 0
  · simp [h0, h h0]
  · by_cases h1 : sz < 0
    · rw [if_neg (by omega), if_pos h1]; omega
    · rw [if_pos (by omega), if_neg h1]

theorem Inv.mag_zero {s : St} (h : Inv s) {i : Nat} (hi : i < s.nv) (h0 : s.size i = 0) : s.mag i = 0 := by
  have := h.mag_lt hi; rw [h0] at this; simpa using this

theorem sizeNat_add_le {a b k : Nat} (ha : a < B ^ k) (hb : b < B ^ k) : sizeNat (a + b) ≤ k + 1 := by
  rw [DivZ.sizeNat_le_iff, pow_succ]
  have : 2 ≤ B := by rw [B_eq]; decide
  nlinarith

theorem pow_le_max_l (a b : Nat) : B ^ a ≤ B ^ max a b := Nat.pow_le_pow_right B_pos (Nat.le_max_left _ _)
theorem pow_le_max_r (a b : Nat) : B ^ b ≤ B ^ max a b := Nat.pow_le_pow_right B_pos (Nat.le_max_right _ _)

/-! ### mpz_set, mpz_add/sub, mpz_add_ui/sub_ui -/

theorem mpz_aors_ok {s : St} (h : Inv s) {w u v : Nat} (hw : w < s.nv) (hu : u < s.nv) (hv : v < s.nv) (sub : Bool) :
    ∃ s', mpz_aors sub w u v s = .ok s' ∧
      Res s s' w (if sub then s.value u - s.value v else s.value u + s.value v) := by
  obtain ⟨i1, n1, sz1, v1, a1, _⟩ := realloc_spec h hw (max (s.size u).natAbs (if sub then -(s.size v) else s.size v).natAbs + 1)
  have hvabs : (if sub then -(s.size v) else s.size v).natAbs = (s.size v).natAbs := by cases sub <;> simp
  rw [hvabs] at i1 n1 sz1 v1 a1
  have hlu := i1.load_var (i := u) (by rw [n1]; exact hu)
  have hlv := i1.load_var (i := v) (by rw [n1]; exact hv)
  rw [sz1] at hlu hlv
  set s1 := s.mpzRealloc w (max (s.size u).natAbs (s.size v).natAbs + 1) with hs1
  have hzu : sgnv (s.size u) (val (s1.limbs u)) = s.value u := by
    rw [← v1 u hu, value_eq_sgnv, sz1]; rfl
  have hzv : sgnv (if sub then -(s.size v) else s.size v) (val (s1.limbs v)) = (if sub then -(s.value v) else s.value v) := by
    cases sub
    · simp only [Bool.false_eq_true, if_false]; rw [← v1 v hv, value_eq_sgnv, sz1]; rfl
    · simp only [if_true]
      show sgnv (-s.size v) (s1.mag v) = -s.value v
      rw [sgnv_neg _ _ (fun h0 => i1.mag_zero (by rw [n1]; exact hv) (by rw [sz1]; exact h0)), ← v1 v hv, value_eq_sgnv, sz1]
  have hmu := i1.mag_lt (i := u) (by rw [n1]; exact hu)
  have hmv := i1.mag_lt (i := v) (by rw [n1]; exact hv)
  rw [sz1] at hmu hmv
  have hfit : sizeNat (sgnv (s.size u) (val (s1.limbs u)) + sgnv (if sub then -(s.size v) else s.size v) (val (s1.limbs v))).natAbs
      ≤ s1.alloc w := by
    refine Nat.le_trans ?_ a1
    refine Nat.le_trans ?_ (sizeNat_add_le (Nat.lt_of_lt_of_le hmu (pow_le_max_l _ _)) (Nat.lt_of_lt_of_le hmv (pow_le_max_r _ _)))
    have hmono : ∀ a b : Nat, a ≤ b → sizeNat a ≤ sizeNat b := fun a b hab =>
      (DivZ.sizeNat_le_iff _ _).mpr (Nat.lt_of_le_of_lt hab (DivZ.lt_B_pow_sizeNat b))
    apply hmono
    have e1 := sgnv_natAbs (s.size u) (val (s1.limbs u))
    have e2 := sgnv_natAbs (if sub then -(s.size v) else s.size v) (val (s1.limbs v))
    unfold St.mag at *
    omega
  obtain ⟨s', hs', hres, _⟩ := setInt_spec i1 (v := w) (by rw [n1]; exact hw) _ hfit
  refine ⟨s', ?_, hres.1, by rw [hres.2.1, n1], ?_, fun i hi hiw => by rw [hres.2.2.2 i (by rw [n1]; exact hi) hiw, v1 i hi]⟩
  · unfold mpz_aors
    simp only [bind, Except.bind, hvabs]
    rw [← hs1]
    simp only [hlu, hlv]
    exact hs'
  · rw [hres.2.2.1, hzu, hzv]; cases sub <;> simp <;> omega

theorem mpz_aors_ui_ok {s : St} (h : Inv s) {w u : Nat} (hw : w < s.nv) (hu : u < s.nv) (sub : Bool) (c : Nat) (hc : c < B) :
    ∃ s', mpz_aors_ui sub w u c s = .ok s' ∧
      Res s s' w (if sub then s.value u - c else s.value u + c) := by
  obtain ⟨i1, n1, sz1, v1, a1, _⟩ := realloc_spec h hw ((s.size u).natAbs + 1)
  have hlu := i1.load_var (i := u) (by rw [n1]; exact hu)
  rw [sz1] at hlu
  set s1 := s.mpzRealloc w ((s.size u).natAbs + 1) with hs1
  have hzu : sgnv (s.size u) (val (s1.limbs u)) = s.value u := by
    rw [← v1 u hu, value_eq_sgnv, sz1]; rfl
  have hmu := i1.mag_lt (i := u) (by rw [n1]; exact hu)
  rw [sz1] at hmu
  have hfit : sizeNat (if sub then sgnv (s.size u) (val (s1.limbs u)) - (c : Int) else sgnv (s.size u) (val (s1.limbs u)) + c).natAbs
      ≤ s1.alloc w := by
    refine Nat.le_trans ?_ a1
    have hcB : c < B ^ (max (s.size u).natAbs 1) :=
      Nat.lt_of_lt_of_le hc (by
        calc B = B ^ 1 := (pow_one B).symm
          _ ≤ B ^ max (s.size u).natAbs 1 := pow_le_max_r _ _)
    by_cases hu0 : (s.size u).natAbs = 0
    · have hm0 : val (s1.limbs u) = 0 := by
        rw [hu0] at hmu; show s1.mag u = 0; simpa using hmu
      rw [DivZ.sizeNat_le_iff, hu0, hm0]
      have : sgnv (s.size u) 0 = 0 := by unfold sgnv; split <;> simp
      rw [this]; simp only [Nat.zero_add, pow_one]
      cases sub <;> simp <;> omega
    · have hmax : max (s.size u).natAbs 1 = (s.size u).natAbs := by omega
      rw [hmax] at hcB
      refine Nat.le_trans ?_ (sizeNat_add_le hmu hcB)
      have hmono : ∀ a b : Nat, a ≤ b → sizeNat a ≤ sizeNat b := fun a b hab =>
        (DivZ.sizeNat_le_iff _ _).mpr (Nat.lt_of_le_of_lt hab (DivZ.lt_B_pow_sizeNat b))
      apply hmono
      have e1 := sgnv_natAbs (s.size u) (val (s1.limbs u))
      have e2 := Int.natAbs_add_le (sgnv (s.size u) (val (s1.limbs u))) (c : Int)
      have e3 := Int.natAbs_sub_le (sgnv (s.size u) (val (s1.limbs u))) (c : Int)
      rw [e1] at e2 e3
      simp only [Int.natAbs_natCast] at e2 e3
      cases sub
      · simp only [Bool.false_eq_true, if_false]; exact e2
      · simp only [if_true]; exact e3
  obtain ⟨s', hs', hres, _⟩ := setInt_spec i1 (v := w) (by rw [n1]; exact hw) _ hfit
  refine ⟨s', ?_, hres.1, by rw [hres.2.1, n1], ?_, fun i hi hiw => by rw [hres.2.2.2 i (by rw [n1]; exact hi) hiw, v1 i hi]⟩
  · unfold mpz_aors_ui
    simp only [bind, Except.bind]
    rw [← hs1]
    simp only [hlu]
    exact hs'
  · rw [hres.2.2.1, hzu]

theorem mpz_set_ok {s : St} (h : Inv s) {w u : Nat} (hw : w < s.nv) (hu : u < s.nv) :
    ∃ s', mpz_set w u s = .ok s' ∧ Res s s' w (s.value u) := by
  obtain ⟨i1, n1, sz1, v1, a1, _⟩ := realloc_spec h hw (s.size u).natAbs
  have hlu := i1.load_var (i := u) (by rw [n1]; exact hu)
  rw [sz1] at hlu
  set s1 := s.mpzRealloc w (s.size u).natAbs with hs1
  have hu1 : u < s1.nv := by rw [n1]; exact hu
  have hw1 : w < s1.nv := by rw [n1]; exact hw
  have hls := i1.limbs_spec hu1
  rw [sz1] at hls
  obtain ⟨b, hb, hlen, hL, hst⟩ := store_var i1 hw1 (s1.limbs u) (by rw [hls.1]; exact a1)
  have hsn := i1.size_natAbs hu1
  rw [sz1] at hsn
  have hput := put_upd i1 hw1 (s1.limbs u ++ b.drop (s1.limbs u).length) (s1.mag u) (decide (s.size u < 0))
    (by rw [length_wr _ _ (by rw [hls.1]; omega)]; exact hlen) (Limbs_wr hls.2 hL) (by rw [← hsn]; exact a1)
    (by rw [← hsn, List.take_append_of_le_length (by rw [hls.1]), List.take_of_length_le (by rw [hls.1])]; rfl)
  have hsz : (if decide (s.size u < 0) = true then -(sizeNat (s1.mag u) : Int) else (sizeNat (s1.mag u) : Int)) = s.size u := by
    rw [← hsn]
    by_cases h0 : s.size u < 0
    · rw [if_pos (by simpa using h0)]; omega
    · rw [if_neg (by simpa using h0)]; omega
  rw [hsz] at hput
  refine ⟨_, ?_, hput.1, by rw [hput.2.1.nv, n1], ?_, fun i hi hiw => by rw [hput.2.1.value_o i1 hw1 (by rw [n1]; exact hi) hiw, v1 i hi]⟩
  · unfold mpz_set
    simp only [bind, Except.bind]
    rw [← hs1]
    simp only [hlu, hst, pure, Except.pure]
    rfl
  · rw [hput.2.2, ← v1 u hu, value_eq_sgnv, sz1]
    unfold sgnv; by_cases h0 : s.size u < 0 <;> simp [h0]

/-! ### temporaries -/

theorem load_length {s : St} {p n : Nat} {l : List Nat} (h : s.load p n = .ok l) : l.length = n := by
  unfold St.load at h
  cases hb : s.blk p with
  | none => rw [hb] at h; simp at h
  | some b =>
    rw [hb] at h; simp only [] at h
    split at h
    · next hn => cases h; simp; omega
    · simp at h

theorem load_Limbs {s : St} (hs : Inv s) {i n : Nat} (hi : i < s.nv) {l : List Nat}
    (h : s.load (s.ptr i) n = .ok l) : Limbs l := by
  obtain ⟨b, hb, _, hL⟩ := hs.live i hi
  unfold St.load at h; rw [hb] at h; simp only [] at h
  split at h
  · cases h; exact Limbs_take hL _
  · simp at h

theorem load_of_blk {s : St} {p : Nat} {l : List Nat} (h : s.blk p = some l) : s.load p l.length = .ok l := by
  unfold St.load; rw [h]; simp

theorem copyIf_spec {s : St} (h : Inv s) (c : Bool) {p n : Nat} {l : List Nat} (hl : s.load p n = .ok l) :
    ∃ p' s', s.copyIf c p n = .ok (p', s') ∧ Inv s' ∧ Ext s s' ∧ s'.load p' n = .ok l ∧
      (c = true → p' = s.next ∧ s'.next = s.next + 1) ∧ (c = false → p' = p ∧ s' = s) := by
  cases c
  · exact ⟨p, s, by simp [St.copyIf, pure, Except.pure], h, Ext.refl s, hl, by simp, by simp⟩
  · refine ⟨s.next, (s.malloc l).2, ?_, malloc_inv h l, malloc_ext h l, ?_, by simp [St.malloc], by simp⟩
    · simp only [St.copyIf, St.tmpCopy, bind, Except.bind, hl, pure, Except.pure, if_true]
      rfl
    · have := load_of_blk (malloc_blk_new s l)
      rwa [load_length hl] at this

theorem tmpInit_spec {s : St} (h : Inv s) (n : Nat) :
    (s.tmpInit n).1 = s.nv ∧ Inv (s.tmpInit n).2 ∧ (s.tmpInit n).2.nv = s.nv + 1 ∧
    (∀ i, i < s.nv → (s.tmpInit n).2.value i = s.value i ∧ (s.tmpInit n).2.size i = s.size i) ∧
    (s.tmpInit n).2.alloc s.nv = n ∧ (s.tmpInit n).2.value s.nv = 0 := by
  have hvars : ∀ i, (s.tmpInit n).2.vars i = if i = s.nv then { alloc := n, size := 0, ptr := s.next } else s.vars i :=
    fun i => by simp [St.tmpInit, St.tmpAlloc, St.malloc, St.setVar, St.setBlk]
  have hblk : ∀ q, (s.tmpInit n).2.blk q = if q = s.next then some (List.replicate n junk) else s.blk q :=
    fun q => by simp [St.tmpInit, St.tmpAlloc, St.malloc, St.setVar, St.setBlk]
  have hnext : (s.tmpInit n).2.next = s.next + 1 := by simp [St.tmpInit, St.tmpAlloc, St.malloc, St.setVar, St.setBlk]
  have hnv : (s.tmpInit n).2.nv = s.nv + 1 := by simp [St.tmpInit]
  have hvo : ∀ i, i < s.nv → (s.tmpInit n).2.vars i = s.vars i := fun i hi => by
    rw [hvars]; rw [if_neg (by omega)]
  have hbo : ∀ i, i < s.nv → (s.tmpInit n).2.blk (s.ptr i) = s.blk (s.ptr i) := fun i hi => by
    rw [hblk, if_neg (Nat.ne_of_lt (h.lt i hi))]
  have hval : ∀ i, i < s.nv → (s.tmpInit n).2.value i = s.value i := fun i hi => value_congr (hvo i hi) (hbo i hi)
  have hnew : (s.tmpInit n).2.vars s.nv = { alloc := n, size := 0, ptr := s.next } := by rw [hvars]; simp
  have hval_new : (s.tmpInit n).2.value s.nv = 0 := by
    unfold St.value St.mag St.limbs St.size; rw [hnew]; simp
  refine ⟨rfl, ⟨fun i hi => ?_, fun i j hi hj e => ?_, fun i hi => ?_, fun q hq => ?_, fun i hi => ?_, fun i hi => ?_⟩,
    hnv, fun i hi => ⟨hval i hi, by unfold St.size; rw [hvo i hi]⟩, by unfold St.alloc; rw [hnew], hval_new⟩
  · rw [hnv] at hi
    by_cases hin : i = s.nv
    · subst hin
      refine ⟨List.replicate n junk, ?_, ?_, Limbs_replicate_junk n⟩
      · unfold St.ptr; rw [hnew, hblk]; simp
      · unfold St.alloc; rw [hnew]; simp
    · have hi' : i < s.nv := by omega
      obtain ⟨b, hb, hbl, hbL⟩ := h.live i hi'
      refine ⟨b, ?_, ?_, hbL⟩
      · have : (s.tmpInit n).2.ptr i = s.ptr i := by unfold St.ptr; rw [hvo i hi']
        rw [this, hbo i hi', hb]
      · unfold St.alloc; rw [hvo i hi']; exact hbl
  · rw [hnv] at hi hj
    have hp : ∀ k, k < s.nv → (s.tmpInit n).2.ptr k = s.ptr k := fun k hk => by unfold St.ptr; rw [hvo k hk]
    have hpn : (s.tmpInit n).2.ptr s.nv = s.next := by unfold St.ptr; rw [hnew]
    by_cases hin : i = s.nv <;> by_cases hjn : j = s.nv
    · rw [hin, hjn]
    · rw [hin, hpn, hp j (by omega)] at e; exact absurd e.symm (Nat.ne_of_lt (h.lt j (by omega)))
    · rw [hjn, hpn, hp i (by omega)] at e; exact absurd e (Nat.ne_of_lt (h.lt i (by omega)))
    · rw [hp i (by omega), hp j (by omega)] at e; exact h.inj i j (by omega) (by omega) e
  · rw [hnv] at hi; rw [hnext]
    by_cases hin : i = s.nv
    · subst hin; unfold St.ptr; rw [hnew]; simp
    · have : (s.tmpInit n).2.ptr i = s.ptr i := by unfold St.ptr; rw [hvo i (by omega)]
      rw [this]; have := h.lt i (by omega); omega
  · rw [hnext] at hq; rw [hblk, if_neg (by omega)]; exact h.fresh q (by omega)
  · rw [hnv] at hi
    by_cases hin : i = s.nv
    · subst hin; unfold St.size St.alloc; rw [hnew]; simp
    · unfold St.size St.alloc; rw [hvo i (by omega)]; exact h.fits i (by omega)
  · rw [hnv] at hi
    by_cases hin : i = s.nv
    · subst hin; rw [hval_new]; unfold St.size; rw [hnew]; simp [siz, DivZ.sizeNat_eq_zero.mpr rfl]
    · rw [hval i (by omega)]; unfold St.size; rw [hvo i (by omega)]; exact h.norm i (by omega)

theorem tmpDone_spec {s : St} (h : Inv s) (k : Nat) (hk : s.nv = k + 1) :
    Inv s.tmpDone ∧ s.tmpDone.nv = k ∧ ∀ i, i < k → s.tmpDone.value i = s.value i := by
  have hnv : s.tmpDone.nv = k := by simp [St.tmpDone, hk]
  have hbo : ∀ i, i < k → s.tmpDone.blk (s.ptr i) = s.blk (s.ptr i) := fun i hi => by
    have : s.ptr i ≠ s.ptr (s.nv - 1) := fun e => by
      have := h.inj i (s.nv - 1) (by omega) (by omega) e; omega
    simp [St.tmpDone, St.free, St.setBlk, this]
  have hval : ∀ i, i < k → s.tmpDone.value i = s.value i := fun i hi => value_congr rfl (hbo i hi)
  refine ⟨⟨fun i hi => ?_, fun i j hi hj e => ?_, fun i hi => ?_, fun q hq => ?_, fun i hi => ?_, fun i hi => ?_⟩, hnv, hval⟩
  · rw [hnv] at hi
    obtain ⟨b, hb, hbl, hbL⟩ := h.live i (by omega)
    exact ⟨b, by rw [show s.tmpDone.ptr i = s.ptr i from rfl, hbo i hi, hb], hbl, hbL⟩
  · rw [hnv] at hi hj; exact h.inj i j (by omega) (by omega) e
  · rw [hnv] at hi; exact h.lt i (by omega)
  · by_cases e : q = s.ptr (s.nv - 1)
    · simp [St.tmpDone, St.free, St.setBlk, e]
    · simp only [St.tmpDone, St.free, St.setBlk, e, if_false]; exact h.fresh q hq
  · rw [hnv] at hi; exact h.fits i (by omega)
  · rw [hnv] at hi; rw [hval i hi]; exact h.norm i (by omega)

end Mpir.AliasMem
