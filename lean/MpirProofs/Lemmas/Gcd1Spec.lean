/- mpn_gcd_1 model = Nat.gcd: the wrapper around the binary loop (gcd_1.c:52-118, 161-163). -/
import MpirProofs.Lemmas.Gcd1
namespace Mpir.Gcd
open Mpir

/-- the value every path of mpn_gcd_1 returns: gcd of the odd parts, shifted back by the common twos -/
theorem gcd1_tail (r V zb : Nat) (hr : r < B) (hV : V % 2 = 1) (hVB : V < B) :
    (if r = 0 then (V <<< zb) % B else gcd1Strip r V zb) = (Nat.gcd r V * 2 ^ zb) % B := by
  split
  · rename_i h; rw [h, Nat.gcd_zero_left, Nat.shiftLeft_eq]
  · rename_i h; exact gcd1Strip_spec r V zb (Nat.pos_of_ne_zero h) hr hV hVB

theorem val_pos_of_head {u0 : Nat} {rest : List Nat} (h : u0 ≠ 0) : 0 < val (u0 :: rest) := by
  rw [val_cons]; omega

/-- common twos, several limbs: zero_bits computed from the low limb only (gcd_1.c:75-80) -/
theorem zero_bits_multi (u0 : Nat) (rest : List Nat) (v : Nat) (hu0 : u0 < B) (hv0 : 0 < v) (hvB : v < B) :
    Nat.gcd (val (u0 :: rest)) v =
      2 ^ (if u0 ≠ 0 then min (ctz v) (ctz u0) else ctz v) * Nat.gcd (val (u0 :: rest)) (v >>> ctz v) := by
  have hB : B = 2 ^ 64 := rfl
  obtain ⟨hv1, hvodd⟩ := ctz_spec v hv0
  have hzv : ctz v < 64 := ctz_lt_of_lt_pow v 64 hv0 (by rw [← hB]; exact hvB)
  rw [shiftRight_ctz]
  generalize ctz v = zv at *
  generalize v / 2 ^ zv = V at *
  rw [val_cons]
  generalize val rest = R
  split
  · rename_i h
    have hu0' : 0 < u0 := Nat.pos_of_ne_zero h
    obtain ⟨hu1, huodd⟩ := ctz_spec u0 hu0'
    have hc : ctz u0 < 64 := ctz_lt_of_lt_pow u0 64 hu0' (by rw [← hB]; exact hu0)
    generalize ctz u0 = c at *
    generalize u0 / 2 ^ c = o at *
    have e : u0 + B * R = 2 ^ c * (o + 2 ^ (64 - c) * R) := by
      rw [Nat.mul_add, ← Nat.mul_assoc, ← Nat.pow_add, ← hu1]
      have : c + (64 - c) = 64 := by omega
      rw [this, hB]
    have hW : (o + 2 ^ (64 - c) * R) % 2 = 1 := by
      obtain ⟨j, hj⟩ : ∃ j, 64 - c = j + 1 := ⟨63 - c, by omega⟩
      rw [hj, pow_succ, Nat.mul_assoc, Nat.mul_comm (2 ^ j), Nat.mul_assoc]
      omega
    rw [e, hv1, gcd_pow_two c zv _ V hW hvodd, gcd_two_pow_odd c _ V hvodd, Nat.min_comm]
  · rename_i h
    have h0 : u0 = 0 := by omega
    subst h0
    rw [Nat.zero_add]
    have e : B * R = 2 ^ zv * (2 ^ (64 - zv) * R) := by
      rw [← Nat.mul_assoc, ← Nat.pow_add]
      have : zv + (64 - zv) = 64 := by omega
      rw [this, hB]
    have e2 : B * R = 2 ^ 64 * R := by rw [hB]
    conv_lhs => rw [e, hv1, Nat.gcd_mul_left, gcd_two_pow_odd _ R V hvodd]
    rw [e2, gcd_two_pow_odd _ R V hvodd]

theorem gcd_le_right_lt {a v : Nat} (hv0 : 0 < v) (hvB : v < B) : Nat.gcd a v < B :=
  lt_of_le_of_lt (Nat.le_of_dvd hv0 (Nat.gcd_dvd_right a v)) hvB

theorem gcd_1_multi (u0 u1 : Nat) (rest : List Nat) (v : Nat) (hu0 : u0 < B) (hv0 : 0 < v) (hvB : v < B) :
    gcd_1 (u0 :: u1 :: rest) v = Nat.gcd (val (u0 :: u1 :: rest)) v := by
  have hB : B = 2 ^ 64 := rfl
  obtain ⟨hv1, hvodd⟩ := ctz_spec v hv0
  have hVB : v >>> ctz v < B := lt_of_le_of_lt (Nat.shiftRight_le _ _) hvB
  have hVodd : (v >>> ctz v) % 2 = 1 := ctz_odd v hv0
  have hr := modexact_spec (u0 :: u1 :: rest) (v >>> ctz v) hVodd
  have hg := modexact_gcd (u0 :: u1 :: rest) (v >>> ctz v) hVodd
  have hz := zero_bits_multi u0 (u1 :: rest) v hu0 hv0 hvB
  unfold gcd_1
  simp only [List.headD_cons, List.length_cons]
  rw [if_pos (by omega)]
  rw [gcd1_tail _ _ _ (lt_trans hr.1 hVB) hVodd hVB, hg, Nat.mul_comm]
  by_cases h0 : u0 = 0
  · simp only [h0, ne_eq, not_true_eq_false, if_false] at hz ⊢
    rw [← hz]; exact Nat.mod_eq_of_lt (gcd_le_right_lt hv0 hvB)
  · simp only [h0, ne_eq, not_false_eq_true, if_true] at hz ⊢
    rw [← hz]; exact Nat.mod_eq_of_lt (gcd_le_right_lt hv0 hvB)

theorem gcd_1_single (u0 v : Nat) (hu00 : 0 < u0) (hu0 : u0 < B) (hv0 : 0 < v) (hvB : v < B) :
    gcd_1 [u0] v = Nat.gcd u0 v := by
  have hB : B = 2 ^ 64 := rfl
  obtain ⟨hv1, hvodd⟩ := ctz_spec v hv0
  obtain ⟨hu1, huodd⟩ := ctz_spec u0 hu00
  have hVB : v >>> ctz v < B := lt_of_le_of_lt (Nat.shiftRight_le _ _) hvB
  have hOB : u0 >>> ctz u0 < B := lt_of_le_of_lt (Nat.shiftRight_le _ _) hu0
  have hVodd : (v >>> ctz v) % 2 = 1 := ctz_odd v hv0
  have hOodd : (u0 >>> ctz u0) % 2 = 1 := ctz_odd u0 hu00
  -- the answer in terms of the odd parts
  have key : Nat.gcd u0 v = Nat.gcd (u0 >>> ctz u0) (v >>> ctz v) * 2 ^ min (ctz v) (ctz u0) := by
    conv_lhs => rw [hu1, hv1]
    rw [gcd_pow_two _ _ _ _ huodd hvodd, shiftRight_ctz, shiftRight_ctz, Nat.mul_comm, Nat.min_comm]
  have hlt : Nat.gcd (u0 >>> ctz u0) (v >>> ctz v) * 2 ^ min (ctz v) (ctz u0) < B := by
    rw [← key]; exact gcd_le_right_lt hv0 hvB
  -- after the swap: ul ≥ vl, both odd, gcd unchanged
  have hswap : ∀ (ul vl : Nat), ul % 2 = 1 → vl % 2 = 1 → ul < B → vl < B → vl ≤ ul →
      Nat.gcd ul vl = Nat.gcd (u0 >>> ctz u0) (v >>> ctz v) →
      (if ul >>> 16 > vl then
          (if ul % vl = 0 then (vl <<< min (ctz v) (ctz u0)) % B else gcd1Strip (ul % vl) vl (min (ctz v) (ctz u0)))
        else ((gcd1Loop (ul >>> 1 + vl >>> 1) (ul >>> 1) (vl >>> 1) <<< 1 ||| 1) <<< min (ctz v) (ctz u0)) % B)
        = Nat.gcd (u0 >>> ctz u0) (v >>> ctz v) * 2 ^ min (ctz v) (ctz u0) := by
    intro ul vl hul hvl hulB hvlB hle hgc
    have hvl0 : 0 < vl := by omega
    split
    · have hrB : ul % vl < B := lt_trans (Nat.mod_lt _ hvl0) hvlB
      rw [gcd1_tail _ _ _ hrB hvl hvlB]
      have : Nat.gcd (ul % vl) vl = Nat.gcd ul vl := by
        rw [Nat.gcd_comm ul vl, Nat.gcd_rec vl ul]
      rw [this, hgc]; exact Nat.mod_eq_of_lt hlt
    · have h1 : ul >>> 1 < 2 ^ 63 := by rw [Nat.shiftRight_eq_div_pow]; rw [hB] at hulB; omega
      have h2 : vl >>> 1 < 2 ^ 63 := by rw [Nat.shiftRight_eq_div_pow]; rw [hB] at hvlB; omega
      rw [shl1_or1, gcd1Loop_spec _ _ _ h1 h2 (le_refl _), Nat.shiftLeft_eq]
      have e1 : 2 * (ul >>> 1) + 1 = ul := by rw [Nat.shiftRight_eq_div_pow]; omega
      have e2 : 2 * (vl >>> 1) + 1 = vl := by rw [Nat.shiftRight_eq_div_pow]; omega
      rw [e1, e2, hgc]; exact Nat.mod_eq_of_lt hlt
  unfold gcd_1
  simp only [List.headD_cons, List.length_cons, List.length_nil]
  rw [if_neg (by omega), key]
  by_cases hsw : v >>> ctz v > u0 >>> ctz u0
  · simp only [hsw, if_true]
    exact hswap _ _ hVodd hOodd hVB hOB (by omega) (Nat.gcd_comm _ _)
  · simp only [hsw, if_false]
    exact hswap _ _ hOodd hVodd hOB hVB (by omega) rfl

end Mpir.Gcd
