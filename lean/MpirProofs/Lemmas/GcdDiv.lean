/- hgcd2.c `div1` / `div2` (single- and double-limb shift-subtract division) compute the Euclidean
   quotient and remainder. -/
import MpirProofs.Lemmas.Gcd1
namespace Mpir.Gcd
open Mpir

/-! ### the Down loops (restoring division) -/

theorem div1DownB_succ (k r X q : Nat) :
    div1DownB (k + 1) r X q =
      if r ≥ X >>> 1 then div1DownB k (r - X >>> 1) (X >>> 1) (((q <<< 1) % B) ||| 1)
      else div1DownB k r (X >>> 1) ((q <<< 1) % B) := by
  simp only [div1DownB]
  split <;> rfl

theorem div1DownA_succ (k r X q : Nat) :
    div1DownA (k + 1) r X q =
      if r ≥ X then div1DownA k (r - X) (X >>> 1) (((q <<< 1) % B) ||| 1)
      else div1DownA k r (X >>> 1) ((q <<< 1) % B) := by
  simp only [div1DownA]
  split <;> rfl

theorem div2DownB_eq : ∀ k n d q, div2DownB k n d q = div1DownB k n d q := by
  intro k
  induction k with
  | zero => intros; rfl
  | succ k ih =>
    intro n d q
    rw [div1DownB_succ]
    simp only [div2DownB]
    split <;> simp only [ih]

theorem div2DownA_eq : ∀ k n d q, div2DownA k n d q = div1DownA k n d q := by
  intro k
  induction k with
  | zero => intros; rfl
  | succ k ih =>
    intro n d q
    rw [div1DownA_succ]
    simp only [div2DownA]
    split <;> simp only [ih]

theorem shl1_modB (q : Nat) (h : 2 * q < B) : (q <<< 1) % B = 2 * q := by
  rw [Nat.shiftLeft_eq, pow_one, Nat.mul_comm, Nat.mod_eq_of_lt h]

theorem shl1_modB_or1 (q : Nat) (h : 2 * q < B) : ((q <<< 1) % B) ||| 1 = 2 * q + 1 := by
  rw [Nat.mod_eq_of_lt (by rw [Nat.shiftLeft_eq, pow_one]; omega), shl1_or1]

theorem mul_pow_succ_shr (d k : Nat) : (d * 2 ^ (k + 1)) >>> 1 = d * 2 ^ k := by
  rw [Nat.shiftRight_eq_div_pow, pow_one, pow_succ, ← Nat.mul_assoc, Nat.mul_div_cancel _ (by norm_num)]

/-- `k` restoring-division steps with divisors `d·2^(k-1), …, d`. -/
theorem div1DownB_spec : ∀ k r q d, r < d * 2 ^ k → q * 2 ^ k + r / d < B →
    div1DownB k r (d * 2 ^ k) q = (q * 2 ^ k + r / d, r % d) := by
  intro k
  induction k with
  | zero =>
    intro r q d hr _
    simp only [pow_zero, Nat.mul_one] at hr ⊢
    simp [div1DownB, Nat.div_eq_of_lt hr, Nat.mod_eq_of_lt hr]
  | succ k ih =>
    intro r q d hr hq
    have hd : 0 < d := by
      rcases Nat.eq_zero_or_pos d with h | h
      · subst h; simp at hr
      · exact h
    have hp : 0 < 2 ^ k := by positivity
    have h2q : 2 * q < B := by
      have h1 : q * 2 ^ (k + 1) = 2 * q * 2 ^ k := by rw [pow_succ]; ring
      have h2 : 2 * q ≤ 2 * q * 2 ^ k := Nat.le_mul_of_pos_right _ hp
      generalize r / d = e at hq
      omega
    rw [div1DownB_succ, mul_pow_succ_shr]
    split
    · rename_i hge
      have hge : d * 2 ^ k ≤ r := hge
      have hdiv : (r - d * 2 ^ k) / d = r / d - 2 ^ k := by
        rw [Nat.sub_mul_div]
      have hle : 2 ^ k ≤ r / d := by
        rw [Nat.le_div_iff_mul_le hd, Nat.mul_comm]; exact hge
      have hmod : (r - d * 2 ^ k) % d = r % d := by
        rw [Nat.sub_mul_mod hge]
      rw [shl1_modB_or1 q h2q, ih (r - d * 2 ^ k) (2 * q + 1) d]
      · rw [hdiv, hmod]
        congr 1
        rw [pow_succ]
        have : (2 * q + 1) * 2 ^ k = q * (2 ^ k * 2) + 2 ^ k := by ring
        omega
      · rw [pow_succ, ← Nat.mul_assoc] at hr; omega
      · rw [hdiv]
        have : (2 * q + 1) * 2 ^ k = q * 2 ^ (k + 1) + 2 ^ k := by rw [pow_succ]; ring
        omega
    · rename_i hlt
      have hlt : r < d * 2 ^ k := Nat.lt_of_not_ge hlt
      rw [shl1_modB q h2q, ih r (2 * q) d hlt]
      · congr 1
        rw [pow_succ]; ring
      · have : 2 * q * 2 ^ k = q * 2 ^ (k + 1) := by rw [pow_succ]; ring
        omega

theorem div1DownB_congr (k r X X' q : Nat) (h : X >>> 1 = X' >>> 1) :
    div1DownB k r X q = div1DownB k r X' q := by
  cases k with
  | zero => rfl
  | succ k => rw [div1DownB_succ, div1DownB_succ, h]

/-- The "test, then shift" loop is the "shift, then test" loop started one bit higher. -/
theorem div1DownA_eq_DownB : ∀ k r Y q, div1DownA k r Y q = div1DownB k r (2 * Y) q := by
  intro k
  induction k with
  | zero => intros; rfl
  | succ k ih =>
    intro r Y q
    have e1 : (2 * Y) >>> 1 = Y := by
      rw [Nat.shiftRight_eq_div_pow, pow_one, Nat.mul_div_cancel_left _ (by norm_num)]
    have e2 : (2 * (Y >>> 1)) >>> 1 = Y >>> 1 := by
      rw [Nat.shiftRight_eq_div_pow (2 * _), pow_one, Nat.mul_div_cancel_left _ (by norm_num)]
    rw [div1DownA_succ, div1DownB_succ, e1, ih, ih,
      div1DownB_congr k _ (2 * (Y >>> 1)) Y _ e2, div1DownB_congr k _ (2 * (Y >>> 1)) Y _ e2]

theorem div1DownA_spec (k r q d : Nat) (hr : r < d * 2 ^ (k + 1))
    (hq : q * 2 ^ (k + 1) + r / d < B) :
    div1DownA (k + 1) r (d * 2 ^ k) q = (q * 2 ^ (k + 1) + r / d, r % d) := by
  rw [div1DownA_eq_DownB]
  have e : 2 * (d * 2 ^ k) = d * 2 ^ (k + 1) := by rw [pow_succ]; ring
  rw [e]
  exact div1DownB_spec (k + 1) r q d hr hq

/-! ### the Up loops (normalisation of the divisor) -/

theorem mul_two_pow_succ (a k : Nat) : a * 2 ^ (k + 1) = 2 * a * 2 ^ k := by
  rw [pow_succ]; ring

theorem div1UpHi_spec : ∀ f d0 cnt, d0 < B → 2 ^ 63 ≤ d0 * 2 ^ f →
    ∃ j, div1UpHi f d0 cnt = (d0 * 2 ^ j, cnt + j) ∧ 2 ^ 63 ≤ d0 * 2 ^ j ∧ d0 * 2 ^ j < B := by
  intro f
  induction f with
  | zero =>
    intro d0 cnt hd h
    exact ⟨0, by simp [div1UpHi], by simpa using h, by simpa using hd⟩
  | succ f ih =>
    intro d0 cnt hd h
    by_cases hlt : d0 < 2 ^ 63
    · have h2 : 2 * d0 < B := by rw [B_eq]; omega
      obtain ⟨j, hj, h1, h3⟩ := ih (2 * d0) (cnt + 1) h2 (by rw [mul_two_pow_succ] at h; exact h)
      refine ⟨j + 1, ?_, ?_, ?_⟩
      · simp only [div1UpHi, if_pos hlt]
        rw [shl1_modB d0 h2, hj, mul_two_pow_succ]
        congr 1
        ring
      · rw [mul_two_pow_succ]; exact h1
      · rw [mul_two_pow_succ]; exact h3
    · refine ⟨0, ?_, by simpa using Nat.le_of_not_lt hlt, by simpa using hd⟩
      simp only [div1UpHi, if_neg hlt]; simp

theorem div1Up_spec (n : Nat) (hn : 2 * n < B) : ∀ f d0 cnt, n < d0 * 2 ^ f → d0 < B →
    ∃ j, div1Up f n d0 cnt = (d0 * 2 ^ j, cnt + j) ∧ n < d0 * 2 ^ j := by
  intro f
  induction f with
  | zero =>
    intro d0 cnt h hd
    exact ⟨0, by simp [div1Up], by simpa using h⟩
  | succ f ih =>
    intro d0 cnt h hd
    by_cases hge : n ≥ d0
    · have h2 : 2 * d0 < B := by omega
      obtain ⟨j, hj, h1⟩ := ih (2 * d0) (cnt + 1) (by rw [mul_two_pow_succ] at h; exact h) h2
      refine ⟨j + 1, ?_, ?_⟩
      · simp only [div1Up, if_pos hge]
        rw [shl1_modB d0 h2, hj, mul_two_pow_succ]
        congr 1
        ring
      · rw [mul_two_pow_succ]; exact h1
    · refine ⟨0, ?_, by simpa using Nat.lt_of_not_ge hge⟩
      simp only [div1Up, if_neg hge]; simp

/-! ### div1 -/

/-- hgcd2.c `div1`: quotient and remainder of a limb by a nonzero limb. -/
theorem div1_spec (n d : Nat) (hn : n < B) (hd0 : 0 < d) (hd : d < B) :
    (div1 n d).1 = n / d ∧ (div1 n d).2 = n % d := by
  have hq : 0 * 2 ^ 0 + n / d < B := by
    have := Nat.div_le_self n d
    omega
  unfold div1
  split
  · rename_i hge
    obtain ⟨j, hj, h1, h2⟩ := div1UpHi_spec 64 d 1 hd (by
      have : 1 * 2 ^ 64 ≤ d * 2 ^ 64 := Nat.mul_le_mul_right _ hd0
      omega)
    rw [hj]
    simp only
    rw [Nat.add_comm 1 j, div1DownA_spec j n 0 d
      (by rw [mul_two_pow_succ, Nat.mul_assoc]; rw [B_eq] at hn; omega)
      (by simpa using hq)]
    simp
  · rename_i hlt
    obtain ⟨j, hj, h1⟩ := div1Up_spec n (by rw [B_eq]; omega) 64 d 0 (by
      have : 1 * 2 ^ 64 ≤ d * 2 ^ 64 := Nat.mul_le_mul_right _ hd0
      omega) hd
    rw [hj]
    simp only
    rw [Nat.zero_add, div1DownB_spec j n 0 d h1 (by simpa using hq)]
    simp

example : div1 1000000007 13 = (76923077, 6) := by decide +kernel
example : div1 (B - 1) 3 = (6148914691236517205, 0) := by decide +kernel

/-! ### div2 -/

theorem shl1_modBB (q : Nat) (h : 2 * q < B * B) : (q <<< 1) % (B * B) = 2 * q := by
  rw [Nat.shiftLeft_eq, pow_one, Nat.mul_comm, Nat.mod_eq_of_lt h]

theorem div2UpHi_spec : ∀ f d0 cnt, d0 < B * B → 2 ^ 63 * B ≤ d0 * 2 ^ f →
    ∃ j, div2UpHi f d0 cnt = (d0 * 2 ^ j, cnt + j) ∧ 2 ^ 63 * B ≤ d0 * 2 ^ j ∧
      d0 * 2 ^ j < B * B := by
  intro f
  induction f with
  | zero =>
    intro d0 cnt hd h
    exact ⟨0, by simp [div2UpHi], by simpa using h, by simpa using hd⟩
  | succ f ih =>
    intro d0 cnt hd h
    by_cases hlt : d0 / B < 2 ^ 63
    · have hlt' : d0 < 2 ^ 63 * B := (Nat.div_lt_iff_lt_mul B_pos).mp hlt
      have h2 : 2 * d0 < B * B := by rw [B_eq] at hlt' ⊢; omega
      obtain ⟨j, hj, h1, h3⟩ := ih (2 * d0) (cnt + 1) h2
        (by rw [mul_two_pow_succ] at h; exact h)
      refine ⟨j + 1, ?_, ?_, ?_⟩
      · simp only [div2UpHi, if_pos hlt]
        rw [shl1_modBB d0 h2, hj, mul_two_pow_succ]
        congr 1
        ring
      · rw [mul_two_pow_succ]; exact h1
      · rw [mul_two_pow_succ]; exact h3
    · have hge : 2 ^ 63 * B ≤ d0 := by
        rcases Nat.lt_or_ge d0 (2 ^ 63 * B) with h' | h'
        · exact absurd ((Nat.div_lt_iff_lt_mul B_pos).mpr h') hlt
        · exact h'
      refine ⟨0, ?_, by simpa using hge, by simpa using hd⟩
      simp only [div2UpHi, if_neg hlt]; simp

theorem div2Up_spec (n : Nat) (hn : 2 * n < B * B) : ∀ f d0 cnt, n < d0 * 2 ^ f → d0 < B * B →
    ∃ j, div2Up f n d0 cnt = (d0 * 2 ^ j, cnt + j) ∧ n < d0 * 2 ^ j := by
  intro f
  induction f with
  | zero =>
    intro d0 cnt h hd
    exact ⟨0, by simp [div2Up], by simpa using h⟩
  | succ f ih =>
    intro d0 cnt h hd
    by_cases hge : n ≥ d0
    · have h2 : 2 * d0 < B * B := by omega
      obtain ⟨j, hj, h1⟩ := ih (2 * d0) (cnt + 1) (by rw [mul_two_pow_succ] at h; exact h) h2
      refine ⟨j + 1, ?_, ?_⟩
      · simp only [div2Up, if_pos hge]
        rw [shl1_modBB d0 h2, hj, mul_two_pow_succ]
        congr 1
        ring
      · rw [mul_two_pow_succ]; exact h1
    · refine ⟨0, ?_, by simpa using Nat.lt_of_not_ge hge⟩
      simp only [div2Up, if_neg hge]; simp

/-- hgcd2.c `div2`: quotient and remainder of a two-limb value by a two-limb value with nonzero
    high limb (the quotient fits one limb). -/
theorem div2_spec (n d : Nat) (hn : n < B * B) (hd0 : B ≤ d) (hd : d < B * B) :
    (div2 n d).1 = n / d ∧ (div2 n d).2 = n % d := by
  have hdpos : 0 < d := lt_of_lt_of_le B_pos hd0
  have hq : 0 * 2 ^ 0 + n / d < B := by
    have h1 : n / d ≤ n / B := Nat.div_le_div_left hd0 B_pos
    have h2 : n / B < B := (Nat.div_lt_iff_lt_mul B_pos).mpr hn
    omega
  unfold div2
  split
  · rename_i hge
    have hge' : 2 ^ 63 * B ≤ n := (Nat.le_div_iff_mul_le B_pos).mp hge
    obtain ⟨j, hj, h1, h2⟩ := div2UpHi_spec 64 d 1 hd (by
      have : B * 2 ^ 64 ≤ d * 2 ^ 64 := Nat.mul_le_mul_right _ hd0
      rw [B_eq] at this ⊢
      omega)
    rw [hj]
    simp only
    rw [Nat.add_comm 1 j, div2DownA_eq, div1DownA_spec j n 0 d
      (by rw [mul_two_pow_succ, Nat.mul_assoc]; rw [B_eq] at hn h1; omega)
      (by simpa using hq)]
    simp
  · rename_i hlt
    have hlt' : n < 2 ^ 63 * B :=
      (Nat.div_lt_iff_lt_mul B_pos).mp (Nat.lt_of_not_ge hlt)
    obtain ⟨j, hj, h1⟩ := div2Up_spec n (by rw [B_eq] at hlt' ⊢; omega) 128 d 0 (by
      have h3 : B * 2 ^ 128 ≤ d * 2 ^ 128 := Nat.mul_le_mul_right _ hd0
      have h4 : 2 ^ 63 * B ≤ B * 2 ^ 128 := by
        rw [Nat.mul_comm]
        exact Nat.mul_le_mul_left _ (Nat.pow_le_pow_right (by norm_num) (by norm_num))
      exact lt_of_lt_of_le hlt' (le_trans h4 h3)) hd
    rw [hj]
    simp only
    rw [Nat.zero_add, div2DownB_eq, div1DownB_spec j n 0 d h1 (by simpa using hq)]
    simp

example : div2 (B * B - 1) (B + 7) = (18446744073709551609, 48) := by
  decide +kernel
example : div2 (2 ^ 127 - 1) (3 * B + 5) = (3074457345618258602, 21521201419327810221) := by
  decide +kernel

end Mpir.Gcd
