/- FFT ring layer: mpn_normmod_2expp1, mpn_mul_2expmod_2expp1, mpn_div_2expmod_2expp1. -/
import MpirProofs.Lemmas.FftRing
namespace Mpir.Fft
open Mpir

theorem BZ_eq : (B : Int) = 18446744073709551616 := by exact_mod_cast B_eq

theorem B_le_pow (n : Nat) (hn : 1 ≤ n) : (B : Int) ≤ (B : Int) ^ n := by
  calc (B : Int) = (B : Int) ^ 1 := (pow_one _).symm
    _ ≤ (B : Int) ^ n := pow_le_pow_right₀ (by have := BZ_pos; omega) hn

theorem fits_signed (P v s : Int) (hP : (B : Int) ≤ P) (hv0 : 0 ≤ v) (hv1 : v < P)
    (hs : -9223372036854775808 ≤ s ∧ s < 9223372036854775808) :
    -(P * (B : Int)) ≤ 2 * (v + s) ∧ 2 * (v + s) < P * (B : Int) := by
  rw [BZ_eq] at *; constructor <;> linarith

@[simp] theorem sint_zero : sint 0 = 0 := by rw [sint_def]; simp
@[simp] theorem sint_one : sint 1 = 1 := by rw [sint_def]; simp

/-- `t[limbs] = 0; mpn_addmod_2expp1_1(t, limbs, c)`: the signed limb is added without wrap-around -/
theorem fold_add (xs : List Nat) (c : Nat) (hxs : Limbs xs) (hn : 1 ≤ xs.length) (hc : c < B) :
    ∃ ys g, addmod1 (xs ++ [0]) c = ys ++ [g] ∧ ys.length = xs.length ∧ Limbs (ys ++ [g]) ∧
      rval (ys ++ [g]) = (val xs : Int) + sint c := by
  obtain ⟨r0, rs, rfl⟩ : ∃ r0 rs, xs = r0 :: rs := by
    cases xs with
    | nil => simp at hn
    | cons a as => exact ⟨a, as, rfl⟩
  have hr : Limbs (r0 :: (rs ++ [0])) := by
    have : r0 :: (rs ++ [0]) = (r0 :: rs) ++ [0] := rfl
    rw [this]; exact Limbs_snoc.mpr ⟨hxs, B_pos⟩
  obtain ⟨⟨k, hk⟩, hl, hlen⟩ := addmod1_spec r0 (rs ++ [0]) c hr hc
  have e0 : (r0 :: rs) ++ [0] = r0 :: (rs ++ [0]) := rfl
  rw [e0]
  simp only [List.length_append, List.length_cons, List.length_nil] at hlen hk
  obtain ⟨ys, g, hyg, hys⟩ := exists_snoc _ (rs.length + 1) (by rw [hlen])
  refine ⟨ys, g, hyg, by simp [hys], hyg ▸ hl, ?_⟩
  have hv : val (r0 :: (rs ++ [0])) = val (r0 :: rs) := by
    rw [← e0, val_snoc]; simp
  rw [hyg, hv] at hk
  have hs := sint_range c hc
  have hv0 : (0 : Int) ≤ val (r0 :: rs) := by positivity
  have hv1 := valZ_lt _ hxs
  have hP := B_le_pow (r0 :: rs).length hn
  simp only [List.length_cons] at hv1 hP
  have hf := fits_signed _ _ _ hP hv0 hv1 hs
  apply rval_of_eq ys g (hyg ▸ hl) _ k
  · rw [hys]; linear_combination hk
  · rw [hys, pow_succ]; exact hf.1
  · rw [hys, pow_succ]; exact hf.2

/-- one folding step of normmod: `t[limbs] = 0; mpn_addmod_2expp1_1(t, limbs, -hi)` -/
theorem fold_step (xs : List Nat) (h : Nat) (hx : Limbs (xs ++ [h])) (hn : 1 ≤ xs.length) (hmin : h ≠ B / 2) :
    ∃ ys g, addmod1 (xs ++ [0]) (lneg h) = ys ++ [g] ∧ ys.length = xs.length ∧ Limbs (ys ++ [g]) ∧
      rval (ys ++ [g]) = (val xs : Int) - sint h := by
  have ⟨hxs, hh⟩ := Limbs_snoc.mp hx
  obtain ⟨ys, g, h1, h2, h3, h4⟩ := fold_add xs (lneg h) hxs hn (lneg_lt h)
  exact ⟨ys, g, h1, h2, h3, by rw [h4, sint_lneg h hh hmin]; ring⟩

/-- canonical (fully reduced) residue: top limb 0, or the single value B^n as (0,…,0,1) -/
def Canonical (x : List Nat) : Prop := top x = 0 ∨ (top x = 1 ∧ val (lo x) = 0)

theorem canonical_range (xs : List Nat) (t : Nat) (hx : Limbs (xs ++ [t])) (hc : Canonical (xs ++ [t])) :
    0 ≤ rval (xs ++ [t]) ∧ rval (xs ++ [t]) ≤ (B : Int) ^ xs.length := by
  have ⟨hxs, _⟩ := Limbs_snoc.mp hx
  have hv1 := valZ_lt xs hxs
  have hv0 : (0 : Int) ≤ val xs := by positivity
  rw [rval_snoc]
  rcases hc with h | ⟨h, h0⟩
  · simp only [top_snoc] at h; subst h
    simp only [sint_zero, mul_zero, add_zero]; constructor <;> linarith
  · simp only [top_snoc, lo_snoc] at h h0; subst h
    rw [sint_one, h0]; simp

theorem modEq_pmod_iff (n : Nat) (a b : Int) : a ≡ b [ZMOD pmod n] ↔ ∃ q : Int, a - b = q * ((B : Int) ^ n + 1) := by
  rw [Int.modEq_iff_dvd]; unfold pmod
  constructor
  · rintro ⟨q, hq⟩; exact ⟨-q, by linear_combination -hq⟩
  · rintro ⟨q, hq⟩; exact ⟨-q, by linear_combination -hq⟩

theorem normmod_spec (xs : List Nat) (h : Nat) (hx : Limbs (xs ++ [h])) (hn : 1 ≤ xs.length) (hmin : h ≠ B / 2) :
    ∃ ys g, normmod (xs ++ [h]) = ys ++ [g] ∧ ys.length = xs.length ∧ Limbs (ys ++ [g]) ∧
      Canonical (ys ++ [g]) ∧ rval (ys ++ [g]) ≡ rval (xs ++ [h]) [ZMOD pmod xs.length] := by
  have ⟨hxs, hh⟩ := Limbs_snoc.mp hx
  have hB := BZ_eq
  have hP := B_le_pow xs.length hn
  have hv0 : (0 : Int) ≤ val xs := by positivity
  have hv1 := valZ_lt xs hxs
  unfold normmod
  simp only [top_snoc, setTop_snoc]
  by_cases h0 : h = 0
  · subst h0
    refine ⟨xs, 0, by simp, rfl, hx, Or.inl (by simp), Int.ModEq.refl _⟩
  · simp only [h0, ne_eq, not_false_eq_true, ↓reduceIte]
    obtain ⟨ys, g, e1, l1, hl1, r1⟩ := fold_step xs h hx hn hmin
    rw [e1]; simp only [top_snoc, setTop_snoc]
    have hs := sint_range h hh
    have ⟨hys, hg⟩ := Limbs_snoc.mp hl1
    have hy0 : (0 : Int) ≤ val ys := by positivity
    have hy1 := valZ_lt ys hys
    rw [l1] at hy1
    -- first congruence
    have c1 : rval (ys ++ [g]) ≡ rval (xs ++ [h]) [ZMOD pmod xs.length] := by
      rw [modEq_pmod_iff]; refine ⟨-sint h, ?_⟩
      rw [r1, rval_snoc]; ring
    have tb := top_bounds ys g hl1 (-1) 1 (by rw [l1, r1]; nlinarith) (by rw [l1, r1]; nlinarith)
    by_cases g0 : g = 0
    · subst g0
      refine ⟨ys, 0, by simp, l1, hl1, Or.inl (by simp), c1⟩
    · simp only [g0, not_false_eq_true, ↓reduceIte]
      have gmin : g ≠ B / 2 := by
        intro hg2; rw [hg2] at tb
        have : sint (B / 2) = -9223372036854775808 := by rw [sint_def]; simp [B_eq]
        rw [this] at tb; omega
      obtain ⟨zs, f, e2, l2, hl2, r2⟩ := fold_step ys g hl1 (by omega) gmin
      rw [e2]; simp only [top_snoc, setTop_snoc]
      have ⟨hzs, hf⟩ := Limbs_snoc.mp hl2
      have hz0 : (0 : Int) ≤ val zs := by positivity
      have hz1 := valZ_lt zs hzs
      rw [l2, l1] at hz1
      have c2 : rval (zs ++ [f]) ≡ rval (ys ++ [g]) [ZMOD pmod xs.length] := by
        rw [modEq_pmod_iff]; refine ⟨-sint g, ?_⟩
        rw [r2, rval_snoc, l1]; ring
      have hg0 : sint g ≠ 0 := fun hh0 => g0 ((sint_eq_zero hg).mp hh0)
      rw [rval_snoc, l1] at r1
      -- the value after the second step lies in [-1, B^n]
      have rng : -1 ≤ rval (zs ++ [f]) ∧ rval (zs ++ [f]) ≤ (B : Int) ^ xs.length := by
        rw [r2]
        have : sint g = 1 ∨ sint g = -1 := by omega
        rcases this with hg1 | hg1 <;> rw [hg1] at r1 ⊢ <;> constructor <;> nlinarith
      have tb2 := top_bounds zs f hl2 (-1) 1 (by rw [l2, l1]; nlinarith) (by rw [l2, l1]; nlinarith)
      by_cases fm : f = B - 1
      · simp only [fm, ↓reduceIte]
        subst fm
        have hsf : sint (B - 1) = -1 := (sint_eq_neg_one hf).mpr rfl
        have hzv : (val zs : Int) = (B : Int) ^ xs.length - 1 := by
          have := rng.1; rw [rval_snoc, hsf, l2, l1] at this; omega
        -- third step: + 1
        have h1B : (1 : Nat) < B := by rw [B_eq]; norm_num
        obtain ⟨ws, e, hwe, hwl', hlw, r3'⟩ := fold_add zs 1 hzs (by omega) h1B
        rw [hwe]
        have hwl : ws.length = xs.length := by rw [hwl', l2, l1]
        have r3 : rval (ws ++ [e]) = (B : Int) ^ xs.length := by rw [r3', hzv, sint_one]; ring
        have ⟨hwsl, he⟩ := Limbs_snoc.mp hlw
        have hw0 : (0 : Int) ≤ val ws := by positivity
        have hw1 := valZ_lt ws hwsl
        rw [hwl] at hw1
        have tb3 := top_bounds ws e hlw 1 1 (by rw [hwl, r3]; ring_nf; rfl) (by rw [hwl, r3]; nlinarith)
        have he1 : sint e = 1 := by omega
        have hee : e = 1 := (sint_eq_one he).mp he1
        refine ⟨ws, e, rfl, hwl, hlw, Or.inr ⟨by simpa using hee, ?_⟩, ?_⟩
        · rw [rval_snoc, he1, hwl] at r3
          simp only [lo_snoc]
          have : (val ws : Int) = 0 := by linarith
          exact_mod_cast this
        · refine Int.ModEq.trans ?_ (c2.trans c1)
          rw [modEq_pmod_iff]; refine ⟨1, ?_⟩
          rw [r3, rval_snoc, hsf, hzv, l2, l1]; ring
      · simp only [fm, ↓reduceIte]
        have hsf : sint f ≠ -1 := fun hh1 => fm ((sint_eq_neg_one hf).mp hh1)
        refine ⟨zs, f, rfl, by rw [l2, l1], hl2, ?_, c2.trans c1⟩
        have : sint f = 0 ∨ sint f = 1 := by omega
        rcases this with hf0 | hf1
        · exact Or.inl (by simpa using (sint_eq_zero hf).mp hf0)
        · refine Or.inr ⟨by simpa using (sint_eq_one hf).mp hf1, ?_⟩
          have := rng.2; rw [rval_snoc, hf1, l2, l1] at this
          simp only [lo_snoc]
          have : (val zs : Int) = 0 := by linarith
          exact_mod_cast this

end Mpir.Fft
