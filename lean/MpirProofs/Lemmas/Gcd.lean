/- Helper lemmas for the C07 models (Mpir/Model/Gcd.lean): word-level facts shared by the
   gcd_1, gcdext_1 and jacobi_base proofs. -/
import MpirProofs.Lemmas.Base
import Mpir.Model.Gcd
import Mathlib.Tactic.Ring
import Mathlib.Tactic.Linarith
import Mathlib.Data.Nat.GCD.Basic
import Mathlib.Data.Int.GCD
namespace Mpir.Gcd
open Mpir

/-! ### count_trailing_zeros -/

theorem ctzAux_spec : ∀ (f x : Nat), 0 < x → x ≤ f →
    x = 2 ^ ctzAux f x * (x / 2 ^ ctzAux f x) ∧ (x / 2 ^ ctzAux f x) % 2 = 1
  | 0, x, h0, hf => by omega
  | f + 1, x, h0, hf => by
    unfold ctzAux
    split
    · simp; assumption
    · have hx2 : 0 < x / 2 := by omega
      have ih := ctzAux_spec f (x / 2) hx2 (by omega)
      have e : x / 2 ^ (1 + ctzAux f (x / 2)) = x / 2 / 2 ^ ctzAux f (x / 2) := by
        rw [Nat.pow_add, pow_one, Nat.div_div_eq_div_mul]
      rw [e]
      refine ⟨?_, ih.2⟩
      have : x = 2 * (x / 2) := by omega
      rw [Nat.pow_add, pow_one]
      generalize 2 ^ ctzAux f (x / 2) = p at *
      generalize x / 2 / p = q at *
      rw [Nat.mul_assoc, ← ih.1]; exact this

/-- x = 2^(ctz x) · odd. -/
theorem ctz_spec (x : Nat) (h : 0 < x) :
    x = 2 ^ ctz x * (x / 2 ^ ctz x) ∧ (x / 2 ^ ctz x) % 2 = 1 :=
  ctzAux_spec x x h (le_refl _)

theorem shiftRight_ctz (x : Nat) : x >>> ctz x = x / 2 ^ ctz x := Nat.shiftRight_eq_div_pow _ _

/-- the odd part of x: x >>> ctz x -/
theorem ctz_odd (x : Nat) (h : 0 < x) : (x >>> ctz x) % 2 = 1 := by
  rw [shiftRight_ctz]; exact (ctz_spec x h).2

theorem ctz_mul (x : Nat) (h : 0 < x) : 2 ^ ctz x * (x >>> ctz x) = x := by
  rw [shiftRight_ctz]; exact (ctz_spec x h).1.symm

/-- characterisation: x = 2^k · o with o odd ⇒ ctz x = k -/
theorem ctz_unique (x k o : Nat) (ho : o % 2 = 1) (hx : x = 2 ^ k * o) : ctz x = k := by
  have hx0 : 0 < x := by
    rw [hx]; exact Nat.mul_pos (by positivity) (by omega)
  obtain ⟨h1, h2⟩ := ctz_spec x hx0
  generalize ctz x = c at *
  generalize x / 2 ^ c = o' at *
  rcases Nat.lt_trichotomy c k with hlt | heq | hgt
  · exfalso
    obtain ⟨d, rfl⟩ := Nat.exists_eq_add_of_lt hlt
    have : 2 ^ c * o' = 2 ^ c * (2 ^ (d + 1) * o) := by
      rw [← h1, hx]; ring
    have := Nat.eq_of_mul_eq_mul_left (by positivity) this
    rw [this, pow_succ] at h2
    have : (2 ^ d * 2 * o) % 2 = 0 := by
      rw [Nat.mul_assoc, Nat.mul_comm, Nat.mul_assoc]; exact Nat.mul_mod_right _ _
    omega
  · exact heq
  · exfalso
    obtain ⟨d, rfl⟩ := Nat.exists_eq_add_of_lt hgt
    have : 2 ^ k * o = 2 ^ k * (2 ^ (d + 1) * o') := by
      rw [← hx, h1]; ring
    have := Nat.eq_of_mul_eq_mul_left (by positivity) this
    rw [this, pow_succ] at ho
    have : (2 ^ d * 2 * o') % 2 = 0 := by
      rw [Nat.mul_assoc, Nat.mul_comm, Nat.mul_assoc]; exact Nat.mul_mod_right _ _
    omega

theorem ctz_lt_of_lt_pow (x n : Nat) (h0 : 0 < x) (h : x < 2 ^ n) : ctz x < n := by
  by_contra hc
  obtain ⟨h1, hodd⟩ := ctz_spec x h0
  have h2 : 2 ^ n ≤ 2 ^ ctz x := Nat.pow_le_pow_right (by norm_num) (by omega)
  have hq : 1 ≤ x / 2 ^ ctz x := by
    rcases Nat.eq_zero_or_pos (x / 2 ^ ctz x) with h | h
    · rw [h] at hodd; simp at hodd
    · exact h
  have : 2 ^ ctz x ≤ x := by
    calc 2 ^ ctz x = 2 ^ ctz x * 1 := by ring
      _ ≤ 2 ^ ctz x * (x / 2 ^ ctz x) := Nat.mul_le_mul_left _ hq
      _ = x := h1.symm
  omega

end Mpir.Gcd
