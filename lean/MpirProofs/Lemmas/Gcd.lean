/- Helper lemmas for the C07 models (Mpir/Model/Gcd.lean). -/
import MpirProofs.Lemmas.Base
import Mpir.Model.Gcd
import Mathlib.Tactic.Ring
import Mathlib.Tactic.Linarith
import Mathlib.Data.Nat.GCD.Basic
import Mathlib.Data.Int.GCD
namespace Mpir.Gcd
open Mpir

end Mpir.Gcd
