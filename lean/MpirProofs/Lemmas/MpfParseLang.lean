/- Lemmas: the recogniser `MpfParse.recog` is sound and complete for the inductive grammar `MpfParse.Lang`. -/
import MpirProofs.Lemmas.MpfParse
namespace Mpir.MpfParse
open Mpir Mpir.MpfStr

/-! ### more facts about the digit value table: NUL, white space, '+', '-' are not digits -/

theorem tab_at2 : ∀ c ∈ [0, 9, 10, 11, 12, 13, 32, 43, 45],
    Radix.digitValue 0 c = 255 ∧ Radix.digitValue 224 c = 255 := by decide +kernel

theorem not_dig (b r c : Nat) (hr : r ≤ 62) (hc : c ∈ [0, 9, 10, 11, 12, 13, 32, 43, 45]) : ¬ dv b c < r := by
  obtain ⟨h1, h2⟩ := tab_at2 c hc
  by_cases h : 36 < b
  · rw [dv_hi b h, h2]; omega
  · rw [dv_lo b h, h1]; omega

theorem space_not_dig (b r c : Nat) (hr : r ≤ 62) (hs : Radix.isSpace c = true) : ¬ dv b c < r := by
  simp only [Radix.isSpace, Bool.or_eq_true, beq_iff_eq, Bool.and_eq_true, decide_eq_true_eq] at hs
  have : c = 32 ∨ c = 9 ∨ c = 10 ∨ c = 11 ∨ c = 12 ∨ c = 13 := by omega
  apply not_dig b r c hr
  rcases this with rfl | rfl | rfl | rfl | rfl | rfl <;> simp

theorem dig_not_space (b c : Nat) (hb : b ≤ 62) (h : dv b c < b) : Radix.isSpace c = false := by
  cases hs : Radix.isSpace c with
  | false => rfl
  | true => exact absurd h (space_not_dig b b c hb hs)

theorem dig_not_marker (b c : Nat) (hb : b ≤ 62) (h : dv b c < b) : isMarker b c = false := by
  cases hs : isMarker b c with
  | false => rfl
  | true => exact absurd h (marker_facts b c hb hs).2.2

/-! ### list helpers -/

theorem tw_all {p : Nat → Bool} (l : List Nat) (h : ∀ x ∈ l, p x = true) :
    l.takeWhile p = l ∧ l.dropWhile p = [] := by
  induction l with
  | nil => simp
  | cons a t ih =>
    have ha := h a (List.mem_cons_self ..)
    have := ih (fun x hx => h x (List.mem_cons_of_mem _ hx))
    simp [List.takeWhile_cons, List.dropWhile_cons, ha, this]

theorem tw_append {p : Nat → Bool} (m : List Nat) (k : Nat) (e : List Nat) (h : ∀ x ∈ m, p x = true)
    (hk : p k = false) : (m ++ k :: e).takeWhile p = m ∧ (m ++ k :: e).dropWhile p = k :: e := by
  induction m with
  | nil => simp [List.takeWhile_cons, List.dropWhile_cons, hk]
  | cons a t ih =>
    have ha := h a (List.mem_cons_self ..)
    have := ih (fun x hx => h x (List.mem_cons_of_mem _ hx))
    simp [List.takeWhile_cons, List.dropWhile_cons, ha, this]

/-! ### mantissa -/

theorem scanMant_iff (b : Nat) (hb : b ≤ 62) (m ds : List Nat) (pt : Option Nat) :
    scanMant (dv b) b m = some (ds, pt) ↔ Mant b m ds pt := by
  constructor
  · intro h
    induction m generalizing ds pt with
    | nil => simp [scanMant] at h; obtain ⟨rfl, rfl⟩ := h; exact Mant.nil
    | cons c cs ih =>
      simp only [scanMant] at h
      cases hs : scanMant (dv b) b cs with
      | none => simp [hs] at h
      | some q =>
        obtain ⟨ds', pt'⟩ := q
        have ih' := ih ds' pt' hs
        simp only [hs] at h
        by_cases h1 : Radix.isSpace c = true
        · simp only [h1, if_true, Option.some.injEq, Prod.mk.injEq] at h
          obtain ⟨rfl, rfl⟩ := h
          exact Mant.space h1 ih'
        · simp only [h1, Bool.false_eq_true, if_false] at h
          by_cases h2 : c = 46
          · subst h2
            simp only [if_true] at h
            cases pt' with
            | some _ => simp at h
            | none =>
              simp only [Option.some.injEq, Prod.mk.injEq] at h
              obtain ⟨rfl, rfl⟩ := h
              exact Mant.point ih'
          · simp only [h2, if_false] at h
            by_cases h3 : dv b c < b
            · simp only [h3, if_true, Option.some.injEq, Prod.mk.injEq] at h
              obtain ⟨rfl, rfl⟩ := h
              exact Mant.digit h3 ih'
            · simp [h3] at h
  · intro h
    induction h with
    | nil => simp [scanMant]
    | space hs _ ih => simp [scanMant, ih, hs]
    | @digit c t ds pt hd _ ih =>
      have h1 := dig_not_space b c hb hd
      have h2 : c ≠ 46 := fun h => dv_point b hb (h ▸ hd)
      simp [scanMant, ih, h1, h2, hd]
    | point _ ih =>
      have h1 : Radix.isSpace 46 = false := by decide
      simp [scanMant, ih, h1]

theorem mantissa_iff (b : Nat) (hb : b ≤ 62) (m ds : List Nat) (pt : Option Nat) :
    mantissa b m = some (ds, pt) ↔ Mant b m ds pt := by
  rw [← scanMant_eq b hb, scanMant_iff b hb]

theorem mant_noMarker (b : Nat) (hb : b ≤ 62) {m ds : List Nat} {pt : Option Nat} (h : Mant b m ds pt) :
    NoMarker b m := by
  induction h with
  | nil => intro x hx; simp at hx
  | @space c t ds pt hs _ ih =>
    intro x hx
    rcases List.mem_cons.1 hx with rfl | hx
    · cases hm : isMarker b x with
      | false => rfl
      | true => have := (marker_facts b x hb hm).1; rw [hs] at this; cases this
    · exact ih x hx
  | @digit c t ds pt hd _ ih =>
    intro x hx
    rcases List.mem_cons.1 hx with rfl | hx
    · exact dig_not_marker b x hb hd
    · exact ih x hx
  | point _ ih =>
    intro x hx
    rcases List.mem_cons.1 hx with rfl | hx
    · cases hm : isMarker b 46 with
      | false => rfl
      | true => exact absurd rfl (marker_facts b 46 hb hm).2.1
    · exact ih x hx

/-! ### exponent -/

theorem run_facts (b eb : Nat) (l : List Nat) :
    (∀ c ∈ l.takeWhile (isDig b eb), dv b c < eb) ∧
    (∀ c, (l.dropWhile (isDig b eb)).head? = some c → ¬ dv b c < eb) := by
  constructor
  · intro c hc
    have := mem_tw _ _ hc
    simpa [isDig] using this
  · intro c hc
    cases hd : l.dropWhile (isDig b eb) with
    | nil => rw [hd] at hc; simp at hc
    | cons x t =>
      rw [hd] at hc
      simp only [List.head?_cons, Option.some.injEq] at hc
      subst hc
      have := @List.head_dropWhile_not _ (isDig b eb) l (by rw [hd]; simp)
      simp only [hd, List.head_cons] at this
      simpa [isDig] using this

theorem tw_run (b eb : Nat) (run tail : List Nat) (h1 : ∀ c ∈ run, dv b c < eb)
    (h2 : ∀ c, tail.head? = some c → ¬ dv b c < eb) : (run ++ tail).takeWhile (isDig b eb) = run := by
  induction run with
  | nil =>
    cases tail with
    | nil => simp
    | cons x t =>
      have := h2 x (by simp)
      simp [List.takeWhile_cons, isDig, this]
  | cons a r ih =>
    have ha := h1 a (List.mem_cons_self ..)
    have := ih (fun x hx => h1 x (List.mem_cons_of_mem _ hx))
    simp [List.takeWhile_cons, isDig, ha, this]

theorem exponent_iff (b eb : Nat) (he : eb ≤ 62) (e : List Nat) (x : Int) :
    exponent b eb e = some x ↔ Expo b eb e x := by
  constructor
  · intro h
    unfold exponent at h
    cases e with
    | nil => simp at h
    | cons c r =>
      by_cases h43 : c = 43
      · subst h43
        simp only [List.head?_cons, beq_self_eq_true, Bool.true_or, if_true, List.tail_cons] at h
        obtain ⟨f1, f2⟩ := run_facts b eb r
        by_cases hl : (r.takeWhile (isDig b eb)).length = 0
        · simp [hl] at h
        · have hne : r.takeWhile (isDig b eb) ≠ [] := fun h0 => hl (by rw [h0]; rfl)
          simp [hl] at h
          have := Expo.plus (b := b) (eb := eb) hne f1 f2
          rw [List.takeWhile_append_dropWhile] at this
          rw [← h]; exact this
      · by_cases h45 : c = 45
        · subst h45
          simp only [List.head?_cons, beq_self_eq_true, Bool.or_true, if_true, List.tail_cons] at h
          obtain ⟨f1, f2⟩ := run_facts b eb r
          by_cases hl : (r.takeWhile (isDig b eb)).length = 0
          · simp [hl] at h
          · have hne : r.takeWhile (isDig b eb) ≠ [] := fun h0 => hl (by rw [h0]; rfl)
            simp [hl] at h
            have := Expo.minus (b := b) (eb := eb) hne f1 f2
            rw [List.takeWhile_append_dropWhile] at this
            rw [← h]; exact this
        · have g1 : (some c == some 43) = false := by simpa using h43
          have g2 : (some c == some 45) = false := by simpa using h45
          simp only [List.head?_cons, g1, g2, Bool.or_self, Bool.false_eq_true, if_false] at h
          obtain ⟨f1, f2⟩ := run_facts b eb (c :: r)
          by_cases hl : ((c :: r).takeWhile (isDig b eb)).length = 0
          · simp [hl] at h
          · have hne : (c :: r).takeWhile (isDig b eb) ≠ [] := fun h0 => hl (by rw [h0]; rfl)
            simp [hl] at h
            have := Expo.unsigned (b := b) (eb := eb) hne f1 f2
            rw [List.takeWhile_append_dropWhile] at this
            rw [← h]; exact this
  · intro h
    cases h with
    | @unsigned run tail hne h1 h2 =>
      cases run with
      | nil => exact absurd rfl hne
      | cons a r =>
        have ha := h1 a (List.mem_cons_self ..)
        have g1 : a ≠ 43 := fun h => not_dig b eb 43 he (by simp) (h ▸ ha)
        have g2 : a ≠ 45 := fun h => not_dig b eb 45 he (by simp) (h ▸ ha)
        have g1' : (some a == some 43) = false := by simpa using g1
        have g2' : (some a == some 45) = false := by simpa using g2
        have t := tw_run b eb (a :: r) tail h1 h2
        unfold exponent
        simp only [List.cons_append, List.head?_cons, g1', g2', Bool.or_self, Bool.false_eq_true, if_false] at t ⊢
        rw [t]; simp
    | @plus run tail hne h1 h2 =>
      have t := tw_run b eb run tail h1 h2
      have hl : run.length ≠ 0 := fun h => hne (List.length_eq_zero_iff.1 h)
      unfold exponent
      simp only [List.head?_cons, beq_self_eq_true, Bool.true_or, if_true, List.tail_cons, t]
      simp [hl]
    | @minus run tail hne h1 h2 =>
      have t := tw_run b eb run tail h1 h2
      have hl : run.length ≠ 0 := fun h => hne (List.length_eq_zero_iff.1 h)
      unfold exponent
      simp only [List.head?_cons, beq_self_eq_true, Bool.or_true, if_true, List.tail_cons, t]
      simp [hl]

/-! ### body -/

theorem start_iff (b : Nat) (hb : b ≤ 62) (c : Nat) (rest : List Nat) :
    (!(isDig b b c || (c == 46 && isDig b b (rest.headD 0)))) = false ↔
      First b (c :: rest.takeWhile (fun x => !isMarker b x)) := by
  have e1 : (!(isDig b b c || (c == 46 && isDig b b (rest.headD 0)))) = false ↔
      (dv b c < b ∨ (c = 46 ∧ dv b (rest.headD 0) < b)) := by
    by_cases ha : dv b c < b
    · simp [isDig, ha]
    · by_cases hc : c = 46
      · subst hc; simp [isDig, ha]
      · simp [isDig, ha, hc]
  rw [e1]
  constructor
  · rintro (h | ⟨rfl, h⟩)
    · exact Or.inl ⟨c, _, rfl, h⟩
    · cases rest with
      | nil => exact absurd h (not_dig b b 0 hb (by simp))
      | cons d t =>
        simp only [List.headD_cons] at h
        have hm := dig_not_marker b d hb h
        exact Or.inr ⟨d, t.takeWhile (fun x => !isMarker b x), by simp [List.takeWhile_cons, hm], h⟩
  · rintro (⟨c', t, heq, h⟩ | ⟨d, t, heq, h⟩)
    · simp only [List.cons.injEq] at heq
      obtain ⟨rfl, _⟩ := heq
      exact Or.inl h
    · simp only [List.cons.injEq] at heq
      obtain ⟨rfl, heq⟩ := heq
      right
      refine ⟨rfl, ?_⟩
      cases rest with
      | nil => simp at heq
      | cons d' t' =>
        by_cases hp : (!isMarker b d') = true
        · simp only [List.takeWhile_cons, hp, if_true, List.cons.injEq] at heq
          obtain ⟨rfl, _⟩ := heq
          simpa using h
        · simp [List.takeWhile_cons, hp] at heq

theorem first_cons (b : Nat) {m : List Nat} (h : First b m) : ∃ c m0, m = c :: m0 := by
  rcases h with ⟨c, t, rfl, _⟩ | ⟨d, t, rfl, _⟩
  · exact ⟨_, _, rfl⟩
  · exact ⟨_, _, rfl⟩

theorem body_sound (neg : Bool) (b eb : Nat) (hb : b ≤ 62) (he : eb ≤ 62) (s : List Nat) (p : Parsed)
    (h : body neg b eb s = some p) : Body neg b eb s p := by
  cases s with
  | nil => simp [body] at h
  | cons c rest =>
    simp only [body] at h
    by_cases h0 : (!(isDig b b c || (c == 46 && isDig b b (rest.headD 0)))) = true
    · rw [if_pos h0] at h; cases h
    · have h0' : (!(isDig b b c || (c == 46 && isDig b b (rest.headD 0)))) = false := by simpa using h0
      have hF := (start_iff b hb c rest).1 h0'
      simp only [h0', Bool.false_eq_true, if_false] at h
      have hsplit := List.takeWhile_append_dropWhile (p := fun x => !isMarker b x) (l := rest)
      cases hm : mantissa b (c :: rest.takeWhile (fun x => !isMarker b x)) with
      | none => simp [hm] at h
      | some q =>
        obtain ⟨ds, pt⟩ := q
        have hM := (mantissa_iff b hb _ ds pt).1 hm
        simp only [hm] at h
        cases hd : rest.dropWhile (fun x => !isMarker b x) with
        | nil =>
          simp only [hd, Option.some.injEq] at h
          rw [hd, List.append_nil] at hsplit
          rw [hsplit] at hF hM
          rw [← h]
          exact Body.plain hF hM
        | cons k e =>
          have hk : isMarker b k = true := by
            have := @List.head_dropWhile_not _ (fun x => !isMarker b x) rest (by rw [hd]; simp)
            simpa [hd] using this
          rw [hd] at hsplit
          have hs : c :: rest = (c :: rest.takeWhile (fun x => !isMarker b x)) ++ k :: e := by
            rw [List.cons_append, hsplit]
          simp only [hd] at h
          by_cases hany : e.any (isMarker b) = true
          · simp [hany] at h
          · have hN : NoMarker b e := by
              intro x hx
              cases hx' : isMarker b x with
              | false => rfl
              | true => exact absurd (List.any_eq_true.2 ⟨x, hx, hx'⟩) hany
            simp only [hany, Bool.false_eq_true, if_false] at h
            by_cases hz : Radix.ofDigits b ds = 0
            · simp only [hz, if_true, Option.some.injEq] at h
              rw [← h, hs]
              exact Body.zero hF hM hz hk hN
            · simp only [hz, if_false] at h
              cases hx : exponent b eb e with
              | none => simp [hx] at h
              | some x =>
                simp only [hx, Option.some.injEq] at h
                rw [← h, hs]
                exact Body.expo hF hM hz hk hN ((exponent_iff b eb he e x).1 hx)

theorem body_complete (neg : Bool) (b eb : Nat) (hb : b ≤ 62) (he : eb ≤ 62) (s : List Nat) (p : Parsed)
    (h : Body neg b eb s p) : body neg b eb s = some p := by
  cases h with
  | @plain m ds pt hF hM =>
    obtain ⟨c, m0, rfl⟩ := first_cons b hF
    have hN := mant_noMarker b hb hM
    have ht := tw_all (p := fun x => !isMarker b x) m0
      (fun x hx => by simp [hN x (List.mem_cons_of_mem _ hx)])
    have hF' := hF
    rw [← ht.1] at hF' hM
    have h0 := (start_iff b hb c m0).2 hF'
    have hm := (mantissa_iff b hb _ ds pt).2 hM
    simp only [body, h0, Bool.false_eq_true, if_false, hm, ht.2]
  | @zero m ds pt k junk hF hM hz hk hJ =>
    obtain ⟨c, m0, rfl⟩ := first_cons b hF
    have hN := mant_noMarker b hb hM
    have ht := tw_append (p := fun x => !isMarker b x) m0 k junk
      (fun x hx => by simp [hN x (List.mem_cons_of_mem _ hx)]) (by simp [hk])
    have hF' := hF
    rw [← ht.1] at hF' hM
    have h0 := (start_iff b hb c (m0 ++ k :: junk)).2 hF'
    have hm := (mantissa_iff b hb _ ds pt).2 hM
    have hany : junk.any (isMarker b) = false := by
      cases ha : junk.any (isMarker b) with
      | false => rfl
      | true =>
        obtain ⟨x, hx, hx'⟩ := List.any_eq_true.1 ha
        rw [hJ x hx] at hx'; cases hx'
    simp only [List.cons_append, body, h0, Bool.false_eq_true, if_false, hm, ht.2, hany, hz, if_true]
  | @expo m ds pt k e x hF hM hz hk hJ hE =>
    obtain ⟨c, m0, rfl⟩ := first_cons b hF
    have hN := mant_noMarker b hb hM
    have ht := tw_append (p := fun x => !isMarker b x) m0 k e
      (fun x hx => by simp [hN x (List.mem_cons_of_mem _ hx)]) (by simp [hk])
    have hF' := hF
    rw [← ht.1] at hF' hM
    have h0 := (start_iff b hb c (m0 ++ k :: e)).2 hF'
    have hm := (mantissa_iff b hb _ ds pt).2 hM
    have hany : e.any (isMarker b) = false := by
      cases ha : e.any (isMarker b) with
      | false => rfl
      | true =>
        obtain ⟨y, hy, hy'⟩ := List.any_eq_true.1 ha
        rw [hJ y hy] at hy'; cases hy'
    have hx := (exponent_iff b eb he e x).2 hE
    simp only [List.cons_append, body, h0, Bool.false_eq_true, if_false, hm, ht.2, hany, hz, hx]

/-! ### the whole string -/

theorem body_head (neg : Bool) (b eb : Nat) {r : List Nat} {p : Parsed} (h : Body neg b eb r p) :
    ∃ c t, r = c :: t ∧ (dv b c < b ∨ c = 46) := by
  have key : ∀ m, First b m → ∀ tl : List Nat, ∃ c t, m ++ tl = c :: t ∧ (dv b c < b ∨ c = 46) := by
    intro m hF tl
    rcases hF with ⟨c, t, rfl, hc⟩ | ⟨d, t, rfl, _⟩
    · exact ⟨c, t ++ tl, rfl, Or.inl hc⟩
    · exact ⟨46, d :: t ++ tl, rfl, Or.inr rfl⟩
  cases h with
  | plain hF _ => simpa using key _ hF []
  | zero hF _ _ _ _ => exact key _ hF _
  | expo hF _ _ _ _ _ => exact key _ hF _

/-- the recogniser after the NUL cut -/
def recogS (base : Int) (s : List Nat) : Option Parsed :=
  if decide (digitBase base < 2) || decide (62 < digitBase base) then none else
  match s.dropWhile Radix.isSpace with
  | 45 :: r => body true (digitBase base) (expoBase base) r
  | r => body false (digitBase base) (expoBase base) r

theorem recog_eq_recogS (base : Int) (s0 : List Nat) : recog base s0 = recogS base (cstr s0) := rfl

theorem expoBase_le (base : Int) (h : digitBase base ≤ 62) : expoBase base ≤ 62 := by
  unfold expoBase; split <;> omega

theorem recogS_iff (base : Int) (s : List Nat) (p : Parsed) : recogS base s = some p ↔ Lang base s p := by
  constructor
  · intro h
    unfold recogS at h
    by_cases hr : (decide (digitBase base < 2) || decide (62 < digitBase base)) = true
    · rw [if_pos hr] at h; cases h
    · rw [if_neg hr] at h
      have hr' : ¬ (digitBase base < 2 ∨ 62 < digitBase base) := by simpa using hr
      have hb2 : 2 ≤ digitBase base := by omega
      have hb : digitBase base ≤ 62 := by omega
      have he := expoBase_le base hb
      have hsplit := List.takeWhile_append_dropWhile (p := Radix.isSpace) (l := s)
      have hws : ∀ x ∈ s.takeWhile Radix.isSpace, Radix.isSpace x = true := fun x hx => mem_tw _ _ hx
      split at h
      · rename_i r heq
        rw [heq] at hsplit
        rw [← hsplit]
        exact Lang.neg hb2 hb hws (body_sound _ _ _ hb he _ _ h)
      · rw [← hsplit]
        exact Lang.pos hb2 hb hws (body_sound _ _ _ hb he _ _ h)
  · intro h
    cases h with
    | @pos ws r p hb2 hb hws hB =>
      have he := expoBase_le base hb
      obtain ⟨c, t, rfl, hc⟩ := body_head _ _ _ hB
      have hsp : Radix.isSpace c = false := by
        rcases hc with hc | rfl
        · exact dig_not_space _ c hb hc
        · decide
      have h45 : c ≠ 45 := by
        rcases hc with hc | rfl
        · exact fun h => not_dig _ _ 45 hb (by simp) (h ▸ hc)
        · decide
      have hd := (tw_append (p := Radix.isSpace) ws c t hws hsp).2
      have hr : (decide (digitBase base < 2) || decide (62 < digitBase base)) = false := by
        simp; omega
      unfold recogS
      rw [hr, hd]
      simp only [Bool.false_eq_true, if_false]
      split
      · rename_i r heq
        simp only [List.cons.injEq] at heq
        exact absurd heq.1 h45
      · exact body_complete _ _ _ hb he _ _ hB
    | @neg ws r p hb2 hb hws hB =>
      have he := expoBase_le base hb
      have hd := (tw_append (p := Radix.isSpace) ws 45 r hws (by decide)).2
      have hr : (decide (digitBase base < 2) || decide (62 < digitBase base)) = false := by
        simp; omega
      unfold recogS
      rw [hr, hd]
      simp only [Bool.false_eq_true, if_false]
      exact body_complete _ _ _ hb he _ _ hB

end Mpir.MpfParse
