/- mpn_mulmod_bnm1_next_size of the pinned build adds less than ⌈k/2⌉ limbs (what mpn_binvert needs of it); the value
   mpn_binvert returns is the one of the value-level model Powm.binvert (uniqueness of the inverse). -/
import MpirProofs.Lemmas.NextSize
import MpirProofs.Lemmas.BinvertMain
namespace Mpir.Binvert
open Mpir Mpir.Hgcd Mpir.Mm1 Mpir.Powm

local macro "clogE " x:term:max : term => `(if $x ≤ 2 then 1 else ($x - 1).log2 + 1)

/-- both roundings of mpir_fft_adjust_limbs stay within half of `L` when the granules are small -/
theorem adjust_core_crude (L D P : Nat) (hLD : 2 * (2 ^ (D + 1) + P) ≤ L) (hP : 2 ^ (D * 2) ≤ 64 * P) :
    2 * (2 ^ (D * 2) * ((2 ^ (D + 1) * ((L + 2 ^ (D + 1) - 1) / 2 ^ (D + 1)) * 64 + 2 ^ (D * 2) - 1) / 2 ^ (D * 2)) / 64) + 2
      ≤ 3 * L := by
  have hA := Nat.two_pow_pos (D + 1)
  have hT := Nat.two_pow_pos (D * 2)
  generalize 2 ^ (D + 1) = A at *
  generalize 2 ^ (D * 2) = T at *
  obtain ⟨a1, a2⟩ := ceil_bounds L A hA
  generalize A * ((L + A - 1) / A) = l2 at *
  obtain ⟨b1, b2⟩ := ceil_bounds (l2 * 64) T hT
  generalize T * ((l2 * 64 + T - 1) / T) = b at *
  omega

/-- when the first granule divides the second (depth ≥ 7) the two roundings are ONE rounding to `2^(2D−6)` limbs -/
theorem adjust_core_nested (L D : Nat) (hD : 7 ≤ D) :
    2 ^ (D * 2) * ((2 ^ (D + 1) * ((L + 2 ^ (D + 1) - 1) / 2 ^ (D + 1)) * 64 + 2 ^ (D * 2) - 1) / 2 ^ (D * 2)) / 64
      ≤ L + 2 ^ (D * 2 - 6) - 1 := by
  have hA := Nat.two_pow_pos (D + 1)
  have hP := Nat.two_pow_pos (D * 2 - 6)
  have hTP : 2 ^ (D * 2) = 64 * 2 ^ (D * 2 - 6) := by
    rw [show D * 2 = (D * 2 - 6) + 6 by omega, pow_add]; norm_num; ring
  have hPA : 2 ^ (D * 2 - 6) = 2 ^ (D + 1) * 2 ^ (D - 7) := by rw [← pow_add]; congr 1; omega
  generalize 2 ^ (D - 7) = t at *
  generalize 2 ^ (D + 1) = A at *
  generalize 2 ^ (D * 2 - 6) = P at *
  generalize 2 ^ (D * 2) = T at *
  obtain ⟨c1, c2⟩ := ceil_bounds L P hP
  generalize hc : (L + P - 1) / P = c at *
  -- the first rounding stays below the common multiple
  have h1 : (L + A - 1) / A ≤ t * c := by
    apply Nat.le_of_lt_succ
    rw [Nat.div_lt_iff_lt_mul hA]
    have : (t * c).succ * A = P * c + A := by rw [hPA]; simp [Nat.succ_mul]; ring
    rw [this]; omega
  have h2 : A * ((L + A - 1) / A) ≤ P * c := by
    calc A * ((L + A - 1) / A) ≤ A * (t * c) := Nat.mul_le_mul_left _ h1
      _ = P * c := by rw [hPA]; ring
  generalize A * ((L + A - 1) / A) = l2 at *
  have hT : 0 < T := by omega
  have h3 : (l2 * 64 + T - 1) / T ≤ c := by
    apply Nat.le_of_lt_succ
    rw [Nat.div_lt_iff_lt_mul hT]
    have : c.succ * T = 64 * (P * c) + T := by rw [hTP]; simp [Nat.succ_mul]; ring
    rw [this]; omega
  have h4 : T * ((l2 * 64 + T - 1) / T) ≤ 64 * (P * c) := by
    calc T * ((l2 * 64 + T - 1) / T) ≤ T * c := Nat.mul_le_mul_left _ h3
      _ = 64 * (P * c) := by rw [hTP]; ring
  generalize T * ((l2 * 64 + T - 1) / T) = b at *
  omega

/-- mpir_fft_adjust_limbs above the cutoff, pinned constants: the rounding adds less than half: `2·adjust L + 2 ≤ 3L` -/
theorem adjust_tight (L : Nat) (hL : 128 < L) : 2 * fftAdjustLimbs 128 19 tab19 L + 2 ≤ 3 * L := by
  obtain ⟨c1, c2, c3⟩ := clog_bounds L (by omega)
  unfold fftAdjustLimbs
  rw [if_neg (by omega)]
  simp only []
  generalize hj : (clogE L) = j at *
  have hj8 : 8 ≤ j := by
    by_contra h
    have : 2 ^ j ≤ 2 ^ 7 := Nat.pow_le_pow_right (by norm_num) (by omega)
    omega
  have p5 : 2 ^ (j + 6 - 1) = 2 ^ (j - 1) * 64 := by
    rw [show j + 6 - 1 = (j - 1) + 6 by omega, pow_add]; norm_num
  have p6 : 2 ^ (j + 6) = 2 ^ j * 64 := by rw [pow_add]; norm_num
  have hpos : 0 < 2 ^ (j - 1) := Nat.two_pow_pos _
  have hjj : 2 ^ j = 2 * 2 ^ (j - 1) := by rw [← pow_succ']; congr 1; omega
  have e1 : (clogE (L * 64)) = j + 6 := clog_unique _ _ (by omega) (by omega) (by rw [p5]; omega) (by rw [p6]; omega)
  have e2 : (clogE (2 ^ j * 64)) = j + 6 := clog_unique _ _ (by omega) (by omega) (by rw [p5]; omega) (by rw [p6])
  rw [e1, e2, Nat.max_self, if_neg (by omega)]
  have hidx : min (j + 6) (19 + 11) - 12 ≤ 18 := by omega
  rcases Nat.lt_or_ge j 10 with hlt | hge
  · rcases (show j = 8 ∨ j = 9 by omega) with rfl | rfl
    · have : (8 + 6) / 2 - tab19.getD (min (8 + 6) (19 + 11) - 12) 0 = 4 := by decide
      rw [this]
      exact adjust_core_crude L 4 4 (by norm_num; omega) (by norm_num)
    · have : (9 + 6) / 2 - tab19.getD (min (9 + 6) (19 + 11) - 12) 0 = 3 := by decide
      rw [this]
      exact adjust_core_crude L 3 1 (by norm_num; omega) (by norm_num)
  · have hoff := tab19_pos _ hidx
    generalize tab19.getD (min (j + 6) (19 + 11) - 12) 0 = off at *
    generalize hD : (j + 6) / 2 - off = D
    have q4 : 2 ^ (j - 1) = 2 * 2 ^ (j - 2) := by rw [← pow_succ']; congr 1; omega
    rcases Nat.lt_or_ge off 2 with ho | ho
    · -- off = 1: depth ≥ 7, one rounding to 2^(2D-6) ≤ 2^(j-2) limbs
      have hD7 : 7 ≤ D := by omega
      have hn := adjust_core_nested L D hD7
      have q1 : 2 ^ (D * 2 - 6) ≤ 2 ^ (j - 2) := Nat.pow_le_pow_right (by norm_num) (by omega)
      omega
    · -- off ≥ 2: both granules at most 2^(j-3), 2^(j-4) limbs
      have q1 : 2 ^ (D + 1) ≤ 2 ^ (j - 3) := Nat.pow_le_pow_right (by norm_num) (by omega)
      have q2 : 2 ^ (D * 2) ≤ 2 ^ ((j - 4) + 6) := Nat.pow_le_pow_right (by norm_num) (by omega)
      have q3 : 2 ^ ((j - 4) + 6) = 64 * 2 ^ (j - 4) := by rw [pow_add]; ring
      have q5 : 2 ^ (j - 2) = 2 * 2 ^ (j - 3) := by rw [← pow_succ']; congr 1; omega
      have q6 : 2 ^ (j - 3) = 2 * 2 ^ (j - 4) := by rw [← pow_succ']; congr 1; omega
      exact adjust_core_crude L D (2 ^ (j - 4)) (by omega) (by omega)

/-- mpn_mulmod_bnm1_next_size of the pinned build never adds as much as `⌈k/2⌉` limbs: the `mpn_sub_1` of mpn_binvert
    always has a positive size and `newrn + rn > m` -/
theorem bnm1NextSize_gap (k : Nat) (hk : 1 ≤ k) :
    k ≤ bnm1NextSize 128 19 tab19 k ∧ bnm1NextSize 128 19 tab19 k - k < (k + 1) / 2 := by
  refine ⟨(bnm1NextSize_bounds k hk).1, ?_⟩
  unfold bnm1NextSize
  by_cases h : k ≤ 2 * 128
  · rw [if_pos h]; omega
  · rw [if_neg h]
    have := adjust_tight ((k + 1) / 2) (by omega)
    omega


/-! ### uniqueness of the inverse -/

theorem binvertLoop_lt (u n : Nat) : ∀ (f x prec : Nat), binvertLoop u n f x prec < B ^ n
  | 0, x, prec => by unfold binvertLoop; exact Nat.mod_lt _ (Nat.pow_pos B_pos)
  | f + 1, x, prec => by
    unfold binvertLoop
    split
    · exact Nat.mod_lt _ (Nat.pow_pos B_pos)
    · exact binvertLoop_lt u n f _ _

theorem inverse_unique (M r b U : Nat) (hr : r < M) (hb : b < M) (h1 : (r * U) % M = 1) (h2 : (b * U) % M = 1) : r = b := by
  have hM : 1 < M := by
    rcases Nat.lt_or_ge 1 M with h | h
    · exact h
    · interval_cases M
      · omega
      · rw [Nat.mod_one] at h1; omega
  have e1 : r * U ≡ 1 [MOD M] := by unfold Nat.ModEq; rw [h1, Nat.mod_eq_of_lt hM]
  have e2 : b * U ≡ 1 [MOD M] := by unfold Nat.ModEq; rw [h2, Nat.mod_eq_of_lt hM]
  have e3 : r * (b * U) ≡ r * 1 [MOD M] := Nat.ModEq.mul_left r e2
  have e4 : b * (r * U) ≡ b * 1 [MOD M] := Nat.ModEq.mul_left b e1
  have e5 : r * (b * U) = b * (r * U) := by ring
  rw [e5] at e3
  have e6 : r ≡ b [MOD M] := by
    have := e3.symm.trans e4
    simpa using this
  unfold Nat.ModEq at e6
  rwa [Nat.mod_eq_of_lt hr, Nat.mod_eq_of_lt hb] at e6

end Mpir.Binvert
