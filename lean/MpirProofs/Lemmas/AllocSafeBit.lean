/- Refinement proofs for the size-aware models of mpz/setbit.c, clrbit.c, combit.c (Mpir/Model/AllocSafeMpz3.lean): every
   branch refines the C10 sign-magnitude model (Mpir/Model/Bits.lean) with `ok = true`, in the block the C leaves.
   First part: the kit for functions working IN PLACE on one variable through a pointer taken on entry
   (`Wrote s s2 d R`: the bottom of d's block holds R; loads, stores, appends, a reallocation in the middle). -/
import MpirProofs.Lemmas.AllocSafeIor2
import Mpir.Model.AllocSafeMpz3
namespace Mpir.AllocSafe
open Mpir
open Mpir.Mpz (sgn natAbs_sgn)

/-! ## MPZ_REALLOC in the middle of a function: only the block invariant and |SIZ| ≤ ALLOC are needed -/

theorem MPZ_REALLOC_grown' (s : St) (w n : Nat) (hfit : (s.h w).size.natAbs ≤ (s.h w).buf.alloc) :
    Grown s (MPZ_REALLOC s w n) w n := by
  unfold MPZ_REALLOC St.ALLOC
  by_cases hn : n > (s.h w).buf.alloc
  · rw [if_pos hn]
    have hsz : ¬ (s.h w).size.natAbs > max n 1 := by omega
    refine ⟨rfl, ?_, ?_, ?_, ?_, ?_, ?_, ?_⟩
    · intro x; by_cases h : x = w
      · subst h; simp [_mpz_realloc, hsz]
      · simp [_mpz_realloc, upd, h]
    · intro x; by_cases h : x = w
      · subst h; simp [_mpz_realloc]; omega
      · simp [_mpz_realloc, upd, h]
    · simp [_mpz_realloc]
    · simp [_mpz_realloc, Mpz.grow, Mpz.realloc, view, hn]
      split <;> rfl
    · intro x k hb hk; by_cases h : x = w
      · subst h
        simp only [_mpz_realloc, upd_same]
        rw [List.take_take, List.take_append_of_le_length (by rw [hb.1]; omega)]
        congr 1; omega
      · simp [_mpz_realloc, upd, h]
    · intro x hb; by_cases h : x = w
      · subst h
        simp only [_mpz_realloc, upd_same]
        refine ⟨?_, ?_⟩
        · simp only [List.length_take, List.length_append, List.length_replicate, hb.1]; omega
        · exact Limbs_take (Limbs_append.mpr ⟨hb.2, Limbs_replicate _ _ junk_lt⟩) _
      · simpa [_mpz_realloc, upd, h] using hb
    · intro x h; simp [_mpz_realloc, upd, h]
  · rw [if_neg hn]
    refine ⟨rfl, fun _ => rfl, fun _ => Nat.le_refl _, by omega, ?_, fun _ _ _ _ => rfl, fun _ h => h, fun _ _ => rfl⟩
    simp [Mpz.grow, view, hn]

theorem MPZ_REALLOC_alloc (s : St) (w n : Nat) (h1 : 1 ≤ (s.h w).buf.alloc) :
    ((MPZ_REALLOC s w n).h w).buf.alloc = max (s.h w).buf.alloc n := by
  unfold MPZ_REALLOC St.ALLOC
  by_cases hn : n > (s.h w).buf.alloc
  · rw [if_pos hn]; simp [_mpz_realloc]; omega
  · rw [if_neg hn]; omega

/-- a reallocation after R has been written: a fresh base state, R still there -/
theorem Wrote.realloc {s1 s2 : St} {w : Nat} {R : List Nat} (W : Wrote s1 s2 w R) (n : Nat)
    (hsz : (s2.h w).size.natAbs ≤ (s2.h w).buf.alloc) (h1 : 1 ≤ (s1.h w).buf.alloc) :
    Wrote (MPZ_REALLOC s2 w n) (MPZ_REALLOC s2 w n) w R ∧
    ((MPZ_REALLOC s2 w n).h w).buf.alloc = max (s1.h w).buf.alloc n ∧
    ((MPZ_REALLOC s2 w n).h w).size = (s2.h w).size ∧
    (∀ x, x ≠ w → (MPZ_REALLOC s2 w n).h x = s1.h x) ∧
    reallocDp true s2 w (s1.PTR w) n = (MPZ_REALLOC s2 w n, (MPZ_REALLOC s2 w n).PTR w) := by
  have G := MPZ_REALLOC_grown' s2 w n hsz
  refine ⟨⟨by rw [G.ok]; exact W.ok, G.bwf w W.bwf, ?_, rfl, rfl, fun _ _ => rfl⟩, ?_, G.size w, ?_, ?_⟩
  · rw [G.take w R.length W.bwf W.fit]; exact W.lim
  · rw [MPZ_REALLOC_alloc s2 w n (by rw [W.alloc]; exact h1), W.alloc]
  · intro x hx; rw [G.other x hx]; exact W.frame x hx
  · have hp : s1.PTR w = s2.PTR w := by simp [St.PTR, W.gen]
    unfold reallocDp MPZ_REALLOC St.ALLOC
    by_cases hn : n > (s2.h w).buf.alloc
    · have hn' : (s2.h w).buf.alloc < n := hn
      simp [hn]
    · have hn' : ¬ (s2.h w).buf.alloc < n := hn
      simp [hn, hp]

theorem Refines.rebase {s s3 s4 : St} {w : Nat} {m : Mpz.Mpz} (R : Refines s3 s4 w m)
    (hf : ∀ x, x ≠ w → s3.h x = s.h x) : Refines s s4 w m :=
  ⟨R.ok, R.view, R.bwf, fun x hx => (R.frame x hx).trans (hf x hx)⟩

/-! ## loads and stores through `dp = PTR (d)` -/

theorem Wrote.rd_off {s1 s2 : St} {w : Nat} {R : List Nat} (W : Wrote s1 s2 w R) (k m : Nat) (h : k + m ≤ R.length) :
    s2.rd ((s1.PTR w).add k) m = (R.drop k).take m ∧ s2.rdOk ((s1.PTR w).add k) m = true := by
  have hf := W.fit
  refine ⟨?_, ?_⟩
  · simp only [St.rd, Buf.read, add_id, PTR_id, add_off, PTR_off, Nat.zero_add]
    exact drop_take_of_prefix W.lim k m h
  · simp [St.rdOk, St.live, St.PTR, Ptr.add, Buf.read, W.gen]; omega

theorem headD_drop_take (R : List Nat) (i : Nat) (hi : i < R.length) : ((R.drop i).take 1).headD junk = R.getD i 0 := by
  have h1 : R.drop i = R[i] :: R.drop (i + 1) := List.drop_eq_getElem_cons hi
  have h2 : R.getD i 0 = R[i] := List.getD_eq_getElem _ _ hi
  rw [h1, h2]; rfl

theorem Wrote.load {s1 s2 : St} {w : Nat} {R : List Nat} (W : Wrote s1 s2 w R) (i : Nat) (hi : i < R.length) :
    s2.load (s1.PTR w) i = (R.getD i 0, s2.chk true) := by
  obtain ⟨e, ok⟩ := W.rd_off i 1 (by omega)
  simp only [St.load, e, ok, headD_drop_take R i hi]

theorem limb_singleton {v : Nat} (hv : v < B) : Limbs [v] := by
  intro x hx; simp at hx; rw [hx]; exact hv

theorem Wrote.store_set {s1 s2 : St} {w : Nat} {R : List Nat} (W : Wrote s1 s2 w R) (i v : Nat) (hi : i < R.length)
    (hv : v < B) : Wrote s1 (s2.store (s1.PTR w) i v) w (R.set i v) := by
  have hf := W.fit
  have W1 := W.wr i [v] (limb_singleton hv) (by omega) (by rw [← W.alloc]; simp; omega)
  rw [Bits.set_eq_split R i v hi]
  simpa [St.store] using W1

/-- a store of `l` right above R -/
theorem Wrote.append {s1 s2 : St} {w : Nat} {R : List Nat} (W : Wrote s1 s2 w R) (l : List Nat) (hl : Limbs l)
    (hfit : R.length + l.length ≤ (s1.h w).buf.alloc) :
    Wrote s1 (s2.wr ((s1.PTR w).add R.length) l) w (R ++ l) := by
  have W1 := W.wr R.length l hl (Nat.le_refl _) hfit
  rw [List.take_length, List.drop_of_length_le (by omega), List.append_nil] at W1
  exact W1

/-- a store of `l` over the top part of R, from index k to the end -/
theorem Wrote.wr_tail {s1 s2 : St} {w : Nat} {R : List Nat} (W : Wrote s1 s2 w R) (k : Nat) (l : List Nat) (hl : Limbs l)
    (hk : k + l.length = R.length) :
    Wrote s1 (s2.wr ((s1.PTR w).add k) l) w (R.take k ++ l) := by
  have hf := W.fit
  have W1 := W.wr k l hl (by omega) (by rw [← W.alloc]; omega)
  rw [hk, List.drop_length, List.append_nil] at W1
  exact W1

theorem zeroBoundScan_spec {s1 s2 : St} {w : Nat} {R : List Nat} (W : Wrote s1 s2 w R) (h : Bits.zeroBound R < R.length) :
    zeroBoundScan s2 (s1.PTR w) R.length = (Bits.zeroBound R, s2.chk true) := by
  obtain ⟨e, _⟩ := W.rd R.length (Nat.le_refl _)
  rw [List.take_length] at e
  obtain ⟨_, ok⟩ := W.rd (Bits.zeroBound R + 1) (by omega)
  simp only [zeroBoundScan, e, ok]

theorem grow_alloc_max (w : Mpz.Mpz) (n : Nat) (h1 : 1 ≤ w.alloc) : (Mpz.grow w n).alloc = max w.alloc n := by
  unfold Mpz.grow Mpz.realloc
  by_cases h : n > w.alloc
  · simp only [h, if_true]; split <;> simp <;> omega
  · simp only [h, if_false]; omega

/-! ## endings -/

theorem Wrote.finZ {s1 s2 : St} {w : Nat} {R : List Nat} (W : Wrote s1 s2 w R) (neg : Bool) (M : List Nat)
    (hz : (s2.h w).size = sgn neg M.length) (hM : R.take M.length = M) :
    Refines s1 s2 w (ofZ (s1.h w).buf.alloc ⟨neg, M⟩) := by
  have R1 := W.refines (sgn neg M.length) hz (by rw [natAbs_sgn]; exact take_len_le hM)
  rw [natAbs_sgn, hM] at R1
  exact R1

theorem Wrote.finZ_full {s1 s2 : St} {w : Nat} {R : List Nat} (W : Wrote s1 s2 w R) (neg : Bool)
    (hz : (s2.h w).size = sgn neg R.length) :
    Refines s1 s2 w (ofZ (s1.h w).buf.alloc ⟨neg, R⟩) :=
  W.finZ neg R hz (List.take_length)

theorem bit_lt (i : Nat) : 2 ^ (i % 64) < B := Bits.bit_lt_B i

theorem Limbs_rep0 (k : Nat) : Limbs (List.replicate k 0) := Limbs_replicate k 0 B_pos

/-! ## the shared tails of setbit.c / clrbit.c -/

/-- setbit.c:41-50 / clrbit.c:75-85 -/
theorem extendTail_spec {s s2 : St} {d : Nat} {D : List Nat} (W : Wrote s s2 d D) (neg : Bool) (li bit : Nat)
    (hli : D.length ≤ li) (hbit : bit < B) (hsz : (s2.h d).size.natAbs ≤ (s2.h d).buf.alloc)
    (h1a : 1 ≤ (s.h d).buf.alloc) :
    Refines s (extendTail true 1 neg s2 d (s.PTR d) li D.length bit) d
      (ofZ (max (s.h d).buf.alloc (li + 1)) ⟨neg, D ++ List.replicate (li - D.length) 0 ++ [bit]⟩) := by
  obtain ⟨W3, ha, _, hfr, hdp⟩ := W.realloc (li + 1) hsz h1a
  unfold extendTail
  rw [hdp]
  dsimp only
  generalize MPZ_REALLOC s2 d (li + 1) = s3 at *
  have W4 := W3.append (List.replicate (li - D.length) 0) (Limbs_rep0 _) (by simp; omega)
  have hlen : (D ++ List.replicate (li - D.length) 0).length = li := by simp; omega
  have W5 := W4.append [bit] (limb_singleton hbit) (by simp; omega)
  rw [hlen] at W5
  have hl2 : (D ++ List.replicate (li - D.length) 0 ++ [bit]).length = li + 1 := by simp; omega
  have R := (W5.setSize (sgn neg (li + 1))).finZ_full neg (by rw [hl2]; simp)
  rw [ha] at R
  exact R.rebase hfr

/-- setbit.c:74-85 / clrbit.c:38-49 -/
theorem clearTail_spec {s s2 : St} {d : Nat} {D : List Nat} (W : Wrote s s2 d D) (neg : Bool) (li bit : Nat)
    (hli : li < D.length) (hL : Limbs D) (hz : (s2.h d).size = sgn neg D.length) :
    Refines s (clearTail neg s2 d (s.PTR d) li D.length bit) d
      (ofZ (s.h d).buf.alloc
        (if D.getD li 0 &&& Bits.lnotL bit = 0 ∧ li = D.length - 1 then
          ⟨neg, Bits.stripTop (D.set li (D.getD li 0 &&& Bits.lnotL bit))⟩
         else ⟨neg, D.set li (D.getD li 0 &&& Bits.lnotL bit)⟩)) := by
  unfold clearTail
  rw [W.load li hli]
  dsimp only
  have hv : D.getD li 0 &&& Bits.lnotL bit < B := and_lt (Bits.getD_lt hL li)
  have W1 := (W.chk true rfl).store_set li (D.getD li 0 &&& Bits.lnotL bit) hli hv
  have hlen : (D.set li (D.getD li 0 &&& Bits.lnotL bit)).length = D.length := List.length_set
  by_cases hc : D.getD li 0 &&& Bits.lnotL bit = 0 ∧ li = D.length - 1
  · have hc' : ((D.getD li 0 &&& Bits.lnotL bit == 0) && (li == D.length - 1)) = true := by
      rw [Bool.and_eq_true]
      exact ⟨by rw [hc.1]; rfl, by rw [← hc.2]; exact beq_self_eq_true _⟩
    rw [if_pos hc', if_pos hc]
    unfold stripLoop Bits.stripTop
    have E := W1.norm_end neg
    rw [hlen] at E
    exact E
  · have hc' : ((D.getD li 0 &&& Bits.lnotL bit == 0) && (li == D.length - 1)) = false := by
      rw [Bool.and_eq_false_iff]
      by_cases h1 : D.getD li 0 &&& Bits.lnotL bit = 0
      · right; simp; intro h2; exact hc ⟨h1, h2⟩
      · left; simpa using h1
    rw [hc', if_neg hc]
    simp only [Bool.false_eq_true, if_false]
    exact W1.finZ_full neg (by rw [hlen]; simpa [St.store] using hz)

/-- setbit.c:94-107 / clrbit.c:94-108 -/
theorem carryTail_spec {s s2 : St} {d : Nat} {M : List Nat} (W : Wrote s s2 d M) (li : Nat)
    (hli : li < M.length) (hL : Limbs M) (hz : (s2.h d).size = sgn true M.length)
    (hsz : M.length ≤ (s.h d).buf.alloc) (h1a : 1 ≤ (s.h d).buf.alloc) :
    Refines s (carryTail true 1 s2 d (s.PTR d) li M.length) d
      (ofZ (max (s.h d).buf.alloc (Bits.carryAbove M li).length) ⟨true, Bits.carryAbove M li⟩) := by
  obtain ⟨e, ok⟩ := W.rd_off (li + 1) (M.length - (li + 1)) (by omega)
  rw [List.take_of_length_le (by simp)] at e
  unfold carryTail Bits.carryAbove
  simp only [e, ok]
  have hrl := bincr_len (M.drop (li + 1))
  have hrL := bincr_limbs (M.drop (li + 1)) (Limbs_drop hL _)
  have hrc := bincr_cy (M.drop (li + 1))
  have W1 := (W.chk true rfl).wr_tail (li + 1) (Bits.incr (M.drop (li + 1))).1 hrL (by rw [hrl]; simp; omega)
  rw [show Bits.incr (M.drop (li + 1)) = ((Bits.incr (M.drop (li + 1))).1, (Bits.incr (M.drop (li + 1))).2) from rfl]
  dsimp only
  generalize (Bits.incr (M.drop (li + 1))).1 = r at *
  generalize (Bits.incr (M.drop (li + 1))).2 = c at *
  have hl1 : (M.take (li + 1) ++ r).length = M.length := by simp [hrl]; omega
  by_cases hc : c = 0
  · subst hc
    simp only [bne_self_eq_false, Bool.false_eq_true, if_false, ne_eq, not_true_eq_false]
    have R := W1.finZ_full true (by rw [hl1]; simpa using hz)
    rw [Nat.max_eq_left (by rw [hl1]; exact hsz)]
    exact R
  · have hc' : (c != 0) = true := by simpa using hc
    simp only [hc', if_true, ne_eq, hc, not_false_eq_true]
    have hsz2 : ((((s2.chk true).wr ((s.PTR d).add (li + 1)) r).h d).size).natAbs ≤
        (((s2.chk true).wr ((s.PTR d).add (li + 1)) r).h d).buf.alloc := by
      simp only [wr_size, wr_alloc, chk_h, hz, natAbs_sgn, W.alloc]; exact hsz
    obtain ⟨W3, ha, _, hfr, hdp⟩ := W1.realloc (M.length + 1) hsz2 h1a
    rw [hdp]
    dsimp only
    generalize MPZ_REALLOC ((s2.chk true).wr ((s.PTR d).add (li + 1)) r) d (M.length + 1) = s3 at *
    have W4 := W3.append [1] (limb_singleton (by unfold B; omega)) (by rw [ha, hl1]; simp)
    rw [hl1] at W4
    have hl2 : (M.take (li + 1) ++ r ++ [1]).length = M.length + 1 := by simp [hrl]; omega
    have R := (W4.setSize (sgn true (M.length + 1))).finZ_full true (by rw [hl2]; simp)
    rw [ha] at R
    have e3 : M.take (li + 1) ++ (r ++ [1]) = M.take (li + 1) ++ r ++ [1] := by simp
    rw [e3, hl2]
    exact (by simpa [St.store] using R.rebase hfr)

/-! ## value-level results with the allocation the C leaves -/

/-- mpz_setbit / mpz_clrbit reallocate exactly when the result has more limbs than the block -/
def Spec.setbit (w : Mpz.Mpz) (i : Nat) : Mpz.Mpz :=
  ofZ (max w.alloc (Bits.mpz_setbit (zOf w) i).mag.length) (Bits.mpz_setbit (zOf w) i)

def Spec.clrbit (w : Mpz.Mpz) (i : Nat) : Mpz.Mpz :=
  ofZ (max w.alloc (Bits.mpz_clrbit (zOf w) i).mag.length) (Bits.mpz_clrbit (zOf w) i)

theorem size_neg_eq {z : Int} {n : Nat} (h : ¬ z ≥ 0) (hn : z.natAbs = n) : z = sgn true n := by
  unfold sgn; simp only [if_true]; omega

theorem size_pos_eq {z : Int} {n : Nat} (h : z ≥ 0) (hn : z.natAbs = n) : z = sgn false n := by
  unfold sgn; simp only [Bool.false_eq_true, if_false]; omega

theorem setbit_refines (s : St) (d i : Nat) (hs : s.ok = true) (hd : OWF (s.h d)) :
    Refines s (setbit true 1 s d i) d (Spec.setbit (view (s.h d)) i) := by
  have hD := view_d_length hd
  have LD := view_limbs hd
  have ND := owf_norm hd
  have hfit := view_fit hd
  have h1a : 1 ≤ (s.h d).buf.alloc := hd.2.1
  have W0 : Wrote s s d (view (s.h d)).d := Wrote.refl s d _ hs hd.1 hfit
  have e2 : (view (s.h d)).alloc = (s.h d).buf.alloc := rfl
  have hzof : zOf (view (s.h d)) = ⟨decide ((s.h d).size < 0), (view (s.h d)).d⟩ := rfl
  unfold Spec.setbit
  rw [hzof, e2]
  generalize (view (s.h d)).d = D at *
  have hbit := bit_lt i
  unfold setbit
  simp only [St.SIZ]
  by_cases hpos : (s.h d).size ≥ 0
  · have hneg : decide ((s.h d).size < 0) = false := by simp; omega
    have hsize := size_pos_eq hpos hD.symm
    rw [hneg]; simp only [hpos, if_true]
    by_cases hli : i / 64 < (s.h d).size.natAbs
    · have hZ : Bits.mpz_setbit ⟨false, D⟩ i = ⟨false, D.set (i / 64) (D.getD (i / 64) 0 ||| 2 ^ (i % 64))⟩ := by
        unfold Bits.mpz_setbit; simp [hD, hli]
      rw [hZ]; simp only [hli, if_true]
      rw [W0.load (i / 64) (by omega)]
      dsimp only
      have W1 := (W0.chk true rfl).store_set (i / 64) (D.getD (i / 64) 0 ||| 2 ^ (i % 64)) (by omega)
        (or_lt (Bits.getD_lt LD _) hbit)
      have hlen : (D.set (i / 64) (D.getD (i / 64) 0 ||| 2 ^ (i % 64))).length = D.length := List.length_set
      have R := (W1.setSize ((s.h d).size.natAbs : Int)).finZ_full false (by rw [hlen, hD]; simp [sgn])
      rw [hlen, Nat.max_eq_left (by omega)]
      exact R
    · have hZ : Bits.mpz_setbit ⟨false, D⟩ i = ⟨false, D ++ List.replicate (i / 64 - D.length) 0 ++ [2 ^ (i % 64)]⟩ := by
        unfold Bits.mpz_setbit; simp [hD, hli]
      rw [hZ]; simp only [hli, if_false]
      have hli' : ¬ i / 64 < D.length := by omega
      have E := extendTail_spec W0 false (i / 64) (2 ^ (i % 64)) (by omega) hbit hfit h1a
      rw [← hD]
      have hl : (D ++ List.replicate (i / 64 - D.length) 0 ++ [2 ^ (i % 64)]).length = i / 64 + 1 := by simp; omega
      rw [hl]; exact E
  · have hneg : decide ((s.h d).size < 0) = true := by simp; omega
    have hsize := size_neg_eq hpos hD.symm
    have hn0 : D ≠ [] := by intro h; rw [h] at hD; simp at hD; omega
    have hv1 : 1 ≤ val D := Bits.val_pos_of_norm LD hn0 ND
    obtain ⟨zb1, zb2, _, _⟩ := Bits.zeroBound_spec D hv1
    have hzs := zeroBoundScan_spec W0 zb1
    rw [hD] at hzs
    rw [hneg]; simp only [hpos, if_false, hzs]
    have W1 := W0.chk true rfl
    have hz1 : ((s.chk true).h d).size = sgn true D.length := hsize
    by_cases hgt : i / 64 > Bits.zeroBound D
    · simp only [hgt, if_true]
      by_cases hli : i / 64 < (s.h d).size.natAbs
      · simp only [hli, if_true]
        have E := clearTail_spec W1 true (i / 64) (2 ^ (i % 64)) (by omega) LD hz1
        rw [← hD]
        have hZ : Bits.mpz_setbit ⟨true, D⟩ i =
            (if D.getD (i / 64) 0 &&& Bits.lnotL (2 ^ (i % 64)) = 0 ∧ i / 64 = D.length - 1 then
              ⟨true, Bits.stripTop (D.set (i / 64) (D.getD (i / 64) 0 &&& Bits.lnotL (2 ^ (i % 64))))⟩
             else ⟨true, D.set (i / 64) (D.getD (i / 64) 0 &&& Bits.lnotL (2 ^ (i % 64)))⟩) := by
          unfold Bits.mpz_setbit; simp [hD, hli, hgt]
        rw [hZ]
        have hlen : (if D.getD (i / 64) 0 &&& Bits.lnotL (2 ^ (i % 64)) = 0 ∧ i / 64 = D.length - 1 then
              (⟨true, Bits.stripTop (D.set (i / 64) (D.getD (i / 64) 0 &&& Bits.lnotL (2 ^ (i % 64))))⟩ : Bits.Z)
             else ⟨true, D.set (i / 64) (D.getD (i / 64) 0 &&& Bits.lnotL (2 ^ (i % 64)))⟩).mag.length ≤ D.length := by
          split
          · exact Nat.le_trans (Mpz.normalize_length_le _) (by simp)
          · simp
        rw [Nat.max_eq_left (by omega)]
        exact E
      · simp only [hli, if_false]
        have hZ : Bits.mpz_setbit ⟨true, D⟩ i = ⟨true, D⟩ := by
          unfold Bits.mpz_setbit; simp [hD, hli, hgt]
        rw [hZ, Nat.max_eq_left (by simp; omega)]
        exact W1.finZ_full true hz1
    · simp only [hgt, if_false]
      by_cases heq : i / 64 = Bits.zeroBound D
      · have heq' : (i / 64 == Bits.zeroBound D) = true := by simp [heq]
        simp only [heq', if_true]
        rw [W1.load (i / 64) (by omega)]
        dsimp only
        obtain ⟨x0, _, _, _⟩ := Bits.setbit_neg_at D i LD ND hv1 heq
        have x0' : ((((D.getD (i / 64) 0 + B - 1) % B &&& Bits.lnotL (2 ^ (i % 64))) + 1) % B == 0) = false := by
          simpa using x0
        simp only [x0', Bool.false_eq_true, if_false]
        have hZ : Bits.mpz_setbit ⟨true, D⟩ i =
            ⟨true, D.set (i / 64) ((((D.getD (i / 64) 0 + B - 1) % B &&& Bits.lnotL (2 ^ (i % 64))) + 1) % B)⟩ := by
          unfold Bits.mpz_setbit
          simp only [Bool.not_true, Bool.false_eq_true, if_false]
          rw [if_neg hgt, if_pos heq, if_neg x0]
        rw [hZ]
        have W2 := (W1.chk true rfl).store_set (i / 64)
          ((((D.getD (i / 64) 0 + B - 1) % B &&& Bits.lnotL (2 ^ (i % 64))) + 1) % B) (by omega) (Nat.mod_lt _ B_pos)
        have hlen : (D.set (i / 64) ((((D.getD (i / 64) 0 + B - 1) % B &&& Bits.lnotL (2 ^ (i % 64))) + 1) % B)).length
            = D.length := List.length_set
        rw [hlen, Nat.max_eq_left (by omega)]
        exact W2.finZ_full true (by rw [hlen]; simpa [St.store] using hz1)
      · have heq' : (i / 64 == Bits.zeroBound D) = false := by simp [heq]
        simp only [heq', Bool.false_eq_true, if_false]
        have hlt : i / 64 < Bits.zeroBound D := by omega
        have hZ : Bits.mpz_setbit ⟨true, D⟩ i =
            ⟨true, Bits.dropTopZero (D.take (i / 64) ++ (Bits.subLimb (D.drop (i / 64)) (2 ^ (i % 64))).1)⟩ := by
          unfold Bits.mpz_setbit; simp [hgt, heq]
        rw [hZ]
        obtain ⟨e, ok⟩ := W1.rd_off (i / 64) ((s.h d).size.natAbs - i / 64) (by omega)
        rw [List.take_of_length_le (by simp; omega)] at e
        simp only [e, ok]
        have hsl := subLimb_len (D.drop (i / 64)) (2 ^ (i % 64))
        have hsL := subLimb_limbs (D.drop (i / 64)) (2 ^ (i % 64)) (Limbs_drop LD _)
        have W2 := (W1.chk true rfl).wr_tail (i / 64) (Bits.subLimb (D.drop (i / 64)) (2 ^ (i % 64))).1 hsL
          (by rw [hsl]; simp; omega)
        generalize hMd : D.take (i / 64) ++ (Bits.subLimb (D.drop (i / 64)) (2 ^ (i % 64))).1 = M at *
        have hMl : M.length = D.length := by rw [← hMd]; simp [hsl]; omega
        have hMne : M ≠ [] := by intro h; rw [h] at hMl; simp at hMl; omega
        rw [← hD, ← hMl, W2.load (M.length - 1) (by omega)]
        dsimp only
        have hdt := dropTopZero_take M hMne
        have hh : ((M.drop (M.length - 1)).take 1).headD junk = M.getD (M.length - 1) 0 :=
          headD_drop_take M _ (by omega)
        rw [hh] at hdt
        rw [hdt]
        generalize hk : M.length - (if (M.getD (M.length - 1) 0 == 0) = true then 1 else 0) = k at *
        have hkl : (M.take k).length = k := by simp; omega
        rw [hkl, Nat.max_eq_left (by omega)]
        exact ((W2.chk true rfl).setSize (sgn true k)).finZ true (M.take k) (by rw [hkl]; simp) (by rw [hkl])

theorem clrbit_refines (s : St) (d i : Nat) (hs : s.ok = true) (hd : OWF (s.h d)) :
    Refines s (clrbit true 1 s d i) d (Spec.clrbit (view (s.h d)) i) := by
  have hD := view_d_length hd
  have LD := view_limbs hd
  have ND := owf_norm hd
  have hfit := view_fit hd
  have h1a : 1 ≤ (s.h d).buf.alloc := hd.2.1
  have W0 : Wrote s s d (view (s.h d)).d := Wrote.refl s d _ hs hd.1 hfit
  have e2 : (view (s.h d)).alloc = (s.h d).buf.alloc := rfl
  have hzof : zOf (view (s.h d)) = ⟨decide ((s.h d).size < 0), (view (s.h d)).d⟩ := rfl
  unfold Spec.clrbit
  rw [hzof, e2]
  generalize (view (s.h d)).d = D at *
  have hbit := bit_lt i
  unfold clrbit
  simp only [St.SIZ]
  by_cases hpos : (s.h d).size ≥ 0
  · have hneg : decide ((s.h d).size < 0) = false := by simp; omega
    have hsize := size_pos_eq hpos hD.symm
    rw [hneg]; simp only [hpos, if_true]
    by_cases hli : i / 64 < (s.h d).size.natAbs
    · simp only [hli, if_true]
      have E := clearTail_spec W0 false (i / 64) (2 ^ (i % 64)) (by omega) LD hsize
      rw [← hD]
      have hZ : Bits.mpz_clrbit ⟨false, D⟩ i =
          (if D.getD (i / 64) 0 &&& Bits.lnotL (2 ^ (i % 64)) = 0 ∧ i / 64 = D.length - 1 then
            ⟨false, Bits.stripTop (D.set (i / 64) (D.getD (i / 64) 0 &&& Bits.lnotL (2 ^ (i % 64))))⟩
           else ⟨false, D.set (i / 64) (D.getD (i / 64) 0 &&& Bits.lnotL (2 ^ (i % 64)))⟩) := by
        unfold Bits.mpz_clrbit; simp [hD, hli]
      rw [hZ]
      have hlen : (if D.getD (i / 64) 0 &&& Bits.lnotL (2 ^ (i % 64)) = 0 ∧ i / 64 = D.length - 1 then
            (⟨false, Bits.stripTop (D.set (i / 64) (D.getD (i / 64) 0 &&& Bits.lnotL (2 ^ (i % 64))))⟩ : Bits.Z)
           else ⟨false, D.set (i / 64) (D.getD (i / 64) 0 &&& Bits.lnotL (2 ^ (i % 64)))⟩).mag.length ≤ D.length := by
        split
        · exact Nat.le_trans (Mpz.normalize_length_le _) (by simp)
        · simp
      rw [Nat.max_eq_left (by omega)]
      exact E
    · simp only [hli, if_false]
      have hZ : Bits.mpz_clrbit ⟨false, D⟩ i = ⟨false, D⟩ := by
        unfold Bits.mpz_clrbit; simp [hD, hli]
      rw [hZ, Nat.max_eq_left (by simp; omega)]
      exact W0.finZ_full false hsize
  · have hneg : decide ((s.h d).size < 0) = true := by simp; omega
    have hsize := size_neg_eq hpos hD.symm
    have hn0 : D ≠ [] := by intro h; rw [h] at hD; simp at hD; omega
    have hv1 : 1 ≤ val D := Bits.val_pos_of_norm LD hn0 ND
    obtain ⟨zb1, zb2, _, _⟩ := Bits.zeroBound_spec D hv1
    have hzs := zeroBoundScan_spec W0 zb1
    rw [hD] at hzs
    rw [hneg]; simp only [hpos, if_false, hzs]
    have W1 := W0.chk true rfl
    have hz1 : ((s.chk true).h d).size = sgn true D.length := hsize
    by_cases hgt : i / 64 > Bits.zeroBound D
    · simp only [hgt, if_true]
      by_cases hli : i / 64 < (s.h d).size.natAbs
      · simp only [hli, if_true]
        have hZ : Bits.mpz_clrbit ⟨true, D⟩ i = ⟨true, D.set (i / 64) (D.getD (i / 64) 0 ||| 2 ^ (i % 64))⟩ := by
          unfold Bits.mpz_clrbit; simp [hD, hli, hgt]
        rw [hZ, W1.load (i / 64) (by omega)]
        dsimp only
        have W2 := (W1.chk true rfl).store_set (i / 64) (D.getD (i / 64) 0 ||| 2 ^ (i % 64)) (by omega)
          (or_lt (Bits.getD_lt LD _) hbit)
        have hlen : (D.set (i / 64) (D.getD (i / 64) 0 ||| 2 ^ (i % 64))).length = D.length := List.length_set
        rw [hlen, Nat.max_eq_left (by omega)]
        exact W2.finZ_full true (by rw [hlen]; simpa [St.store] using hz1)
      · simp only [hli, if_false]
        have hZ : Bits.mpz_clrbit ⟨true, D⟩ i = ⟨true, D ++ List.replicate (i / 64 - D.length) 0 ++ [2 ^ (i % 64)]⟩ := by
          unfold Bits.mpz_clrbit; simp [hD, hli, hgt]
        rw [hZ]
        have E := extendTail_spec W1 true (i / 64) (2 ^ (i % 64)) (by omega) hbit (by simpa using hfit) h1a
        rw [← hD]
        have hl : (D ++ List.replicate (i / 64 - D.length) 0 ++ [2 ^ (i % 64)]).length = i / 64 + 1 := by simp; omega
        rw [hl]; exact E
    · simp only [hgt, if_false]
      by_cases heq : i / 64 = Bits.zeroBound D
      · have heq' : (i / 64 == Bits.zeroBound D) = true := by simp [heq]
        simp only [heq', if_true]
        rw [W1.load (i / 64) (by omega)]
        dsimp only
        generalize hx : ((((D.getD (i / 64) 0 + B - 1) % B) ||| 2 ^ (i % 64)) + 1) % B = x
        have hxB : x < B := by rw [← hx]; exact Nat.mod_lt _ B_pos
        have W2 := (W1.chk true rfl).store_set (i / 64) x (by omega) hxB
        have hlen : (D.set (i / 64) x).length = D.length := List.length_set
        have hz2 : ((((s.chk true).chk true).store (s.PTR d) (i / 64) x).h d).size = sgn true (D.set (i / 64) x).length := by
          rw [hlen]; simpa [St.store] using hz1
        by_cases hx0 : x = 0
        · have hx0' : (x == 0) = true := by simp [hx0]
          simp only [hx0', if_true]
          have hZ : Bits.mpz_clrbit ⟨true, D⟩ i = ⟨true, Bits.carryAbove (D.set (i / 64) x) (i / 64)⟩ := by
            unfold Bits.mpz_clrbit
            simp only [Bool.not_true, Bool.false_eq_true, if_false]
            rw [if_neg hgt, if_pos heq, hx, if_pos hx0]
          rw [hZ]
          have E := carryTail_spec W2 (i / 64) (by rw [hlen]; omega) (Bits.Limbs_set LD _ _ hxB) hz2
            (by rw [hlen]; omega) h1a
          rw [hlen, hD] at E
          exact E
        · have hx0' : (x == 0) = false := by simp [hx0]
          simp only [hx0', Bool.false_eq_true, if_false]
          have hZ : Bits.mpz_clrbit ⟨true, D⟩ i = ⟨true, D.set (i / 64) x⟩ := by
            unfold Bits.mpz_clrbit
            simp only [Bool.not_true, Bool.false_eq_true, if_false]
            rw [if_neg hgt, if_pos heq, hx, if_neg hx0]
          rw [hZ, hlen, Nat.max_eq_left (by omega)]
          exact W2.finZ_full true hz2
      · have heq' : (i / 64 == Bits.zeroBound D) = false := by simp [heq]
        simp only [heq', Bool.false_eq_true, if_false]
        have hZ : Bits.mpz_clrbit ⟨true, D⟩ i = ⟨true, D⟩ := by
          unfold Bits.mpz_clrbit
          simp only [Bool.not_true, Bool.false_eq_true, if_false]
          rw [if_neg hgt, if_neg heq]
        rw [hZ, Nat.max_eq_left (by simp; omega)]
        exact W1.finZ_full true hz1

end Mpir.AllocSafe
