/- FFT ring layer: mpir_fft_split_limbs / mpir_fft_split_bits — the coefficients are the base-2^bits digits. -/
import MpirProofs.Lemmas.FftRing
import Mathlib.Data.Nat.ModEq
namespace Mpir.Fft
open Mpir

/-- Σ val(c_j)·2^(j·bits) -/
def polyEval (bits : Nat) : List (List Nat) → Nat
  | [] => 0
  | c :: cs => val c + 2 ^ bits * polyEval bits cs

theorem B_pow_two' (x : Nat) : B ^ x = 2 ^ (64 * x) := by
  rw [pow_mul]; rfl

theorem val_replicate_zero (k : Nat) : val (List.replicate k 0) = 0 := by
  induction k with
  | zero => rfl
  | succ k ih => simp [List.replicate_succ, ih]

theorem Limbs_replicate_zero (k : Nat) : Limbs (List.replicate k 0) := by
  intro x hx; rw [List.mem_replicate] at hx; rw [hx.2]; exact B_pos

theorem val_padTo (m : Nat) (l : List Nat) : val (padTo m l) = val l := by
  unfold padTo; rw [val_append, val_replicate_zero]; simp

theorem Limbs_padTo (m : Nat) (l : List Nat) (h : Limbs l) : Limbs (padTo m l) :=
  Limbs_append.mpr ⟨h, Limbs_replicate_zero _⟩

theorem length_padTo (m : Nat) (l : List Nat) (h : l.length ≤ m) : (padTo m l).length = m := by
  unfold padTo; simp; omega

/-- all coefficients are well-formed buffers of `ol + 1` limbs holding a value below 2^bits -/
def CoeffsOK (bits ol : Nat) (cs : List (List Nat)) : Prop :=
  ∀ c ∈ cs, c.length = ol + 1 ∧ Limbs c ∧ val c < 2 ^ bits

/-! ### split_limbs -/

theorem splitLimbsGo_spec (coeff ol : Nat) (hc : 1 ≤ coeff) (hol : coeff ≤ ol + 1) :
    ∀ (fuel : Nat) (rest : List Nat), Limbs rest → rest.length < fuel →
      polyEval (64 * coeff) (splitLimbsGo coeff ol fuel rest) = val rest ∧
      CoeffsOK (64 * coeff) ol (splitLimbsGo coeff ol fuel rest) ∧
      (splitLimbsGo coeff ol fuel rest).length = (rest.length + coeff - 1) / coeff
  | 0, rest, _, h => by omega
  | fuel + 1, rest, hr, hf => by
    unfold splitLimbsGo
    by_cases h1 : coeff ≤ rest.length
    · simp only [h1, ↓reduceIte]
      have hd : (rest.drop coeff).length < fuel := by simp; omega
      obtain ⟨ih1, ih2, ih3⟩ := splitLimbsGo_spec coeff ol hc hol fuel (rest.drop coeff) (Limbs_drop hr _) hd
      have htl : (rest.take coeff).length = coeff := by simp [h1]
      refine ⟨?_, ?_, ?_⟩
      · simp only [polyEval, val_padTo, ih1, ← B_pow_two']
        exact (val_take_drop rest coeff h1).symm
      · intro c hcm
        rcases List.mem_cons.mp hcm with rfl | hcm
        · refine ⟨length_padTo _ _ (by rw [htl]; exact hol), Limbs_padTo _ _ (Limbs_take hr _), ?_⟩
          rw [val_padTo, ← B_pow_two']
          have := val_lt _ (Limbs_take hr coeff); rwa [htl] at this
        · exact ih2 c hcm
      · simp only [List.length_cons, ih3, List.length_drop]
        have : rest.length + coeff - 1 = (rest.length - coeff + coeff - 1) + coeff := by omega
        rw [this, Nat.add_div_right _ (by omega)]
    · simp only [h1, ↓reduceIte]
      by_cases h2 : rest.length > 0
      · simp only [h2, ↓reduceIte]
        refine ⟨by simp [polyEval, val_padTo], ?_, ?_⟩
        · intro c hcm
          rw [List.mem_singleton] at hcm; subst hcm
          refine ⟨length_padTo _ _ (by omega), Limbs_padTo _ _ hr, ?_⟩
          rw [val_padTo, ← B_pow_two']
          exact lt_of_lt_of_le (val_lt _ hr) (Nat.pow_le_pow_right B_pos (by omega))
        · simp only [List.length_cons, List.length_nil]
          have : (rest.length + coeff - 1) / coeff = 1 := by
            apply Nat.div_eq_of_lt_le <;> omega
          omega
      · simp only [h2, ↓reduceIte]
        have : rest = [] := List.eq_nil_of_length_eq_zero (by omega)
        subst this
        refine ⟨by simp [polyEval], by intro c hc; simp at hc, ?_⟩
        simp only [List.length_nil]
        exact (Nat.div_eq_of_lt (by omega)).symm

/-! ### bit-field arithmetic -/

/-- bits above position W do not influence the field [s, s+b) when s + b ≤ W -/
theorem field_mod (a s b W : Nat) (h : s + b ≤ W) :
    (a / 2 ^ s) % 2 ^ b = ((a % 2 ^ W) / 2 ^ s) % 2 ^ b := by
  rw [← Nat.mod_mul_right_div_self, ← Nat.mod_mul_right_div_self (a % 2 ^ W)]
  congr 1
  rw [← pow_add]
  exact (Nat.mod_mod_of_dvd a (pow_dvd_pow 2 h)).symm

theorem add_mul_mod_mul (a M b t : Nat) (ha : a < M) : (a + M * b) % (M * t) = a + M * (b % t) := by
  have hM : 0 < M := by omega
  rw [Nat.mod_mul, Nat.add_mul_mod_self_left, Nat.mod_eq_of_lt ha, Nat.add_mul_div_left _ _ hM,
    Nat.div_eq_of_lt ha, Nat.zero_add]

theorem val_take_mod (l : List Nat) (hl : Limbs l) (n : Nat) : val (l.take n) = val l % B ^ n := by
  by_cases h : n ≤ l.length
  · have e := val_take_drop l n h
    have lt := val_lt _ (Limbs_take hl n)
    rw [List.length_take, Nat.min_eq_left h] at lt
    rw [e, Nat.add_mul_mod_self_left, Nat.mod_eq_of_lt lt]
  · rw [List.take_of_length_le (by omega)]
    have lt := val_lt _ hl
    exact (Nat.mod_eq_of_lt (lt_of_lt_of_le lt (Nat.pow_le_pow_right B_pos (by omega)))).symm

theorem val_drop_div (l : List Nat) (hl : Limbs l) (n : Nat) : val (l.drop n) = val l / B ^ n := by
  by_cases h : n ≤ l.length
  · have e := val_take_drop l n h
    have lt := val_lt _ (Limbs_take hl n)
    rw [List.length_take, Nat.min_eq_left h] at lt
    rw [e, Nat.add_mul_div_left _ _ (Bpow_pos n), Nat.div_eq_of_lt lt, Nat.zero_add]
  · rw [List.drop_of_length_le (by omega)]
    have lt := val_lt _ hl
    exact (Nat.div_eq_of_lt (lt_of_lt_of_le lt (Nat.pow_le_pow_right B_pos (by omega)))).symm

/-- `poly[i][coeff_limbs - 1] &= mask` keeps the low 64·(len−1) + t bits -/
theorem val_maskTop (c : List Nat) (t : Nat) (hc : Limbs c) (hn : 1 ≤ c.length) :
    val (maskTop c (2 ^ t - 1)) = val c % (B ^ (c.length - 1) * 2 ^ t) ∧
    (maskTop c (2 ^ t - 1)).length = c.length ∧ Limbs (maskTop c (2 ^ t - 1)) := by
  obtain ⟨init, last, rfl, hl⟩ := exists_snoc c (c.length - 1) (by omega)
  have ⟨hi, hlast⟩ := Limbs_snoc.mp hc
  have e : maskTop (init ++ [last]) (2 ^ t - 1) = init ++ [last % 2 ^ t] := by
    unfold maskTop
    simp [List.getD_eq_getElem?_getD, Nat.and_two_pow_sub_one_eq_mod]
  rw [e, val_snoc, val_snoc]
  have hlen : (init ++ [last]).length - 1 = init.length := by simp
  rw [hlen, add_mul_mod_mul _ _ _ _ (val_lt _ hi)]
  refine ⟨rfl, by simp, Limbs_snoc.mpr ⟨hi, lt_of_le_of_lt (Nat.mod_le _ _) hlast⟩⟩

theorem two_pow_bits (k0 t : Nat) : 2 ^ (64 * k0 + t) = B ^ k0 * 2 ^ t := by
  rw [pow_add, B_pow_two']

/-- the coefficient when the field starts on a limb boundary (split_bits.c:75-76) -/
theorem coeff_noshift (rest : List Nat) (k0 t : Nat) (hr : Limbs rest) (hlen : k0 + 1 ≤ rest.length) (ht : t < 64) :
    val (maskTop (rest.take (k0 + 1)) (2 ^ t - 1)) = val rest % 2 ^ (64 * k0 + t) ∧
    (maskTop (rest.take (k0 + 1)) (2 ^ t - 1)).length = k0 + 1 ∧
    Limbs (maskTop (rest.take (k0 + 1)) (2 ^ t - 1)) := by
  have htl : (rest.take (k0 + 1)).length = k0 + 1 := by simp [hlen]
  obtain ⟨v, l, lim⟩ := val_maskTop (rest.take (k0 + 1)) t (Limbs_take hr _) (by omega)
  rw [htl] at v l
  refine ⟨?_, l, lim⟩
  rw [v, val_take_mod _ hr, Nat.add_sub_cancel, two_pow_bits]
  apply Nat.mod_mod_of_dvd
  rw [pow_succ]; exact Nat.mul_dvd_mul_left _ ⟨2 ^ (64 - t), by rw [← pow_add, show t + (64 - t) = 64 by omega]; rfl⟩

theorem rshift_spec (u : List Nat) (c : Nat) (hu : Limbs u) (hne : 0 < u.length) (hc1 : 1 ≤ c) (hc : c ≤ 63) :
    val (rshift u c).1 = val u / 2 ^ c ∧ Limbs (rshift u c).1 ∧ (rshift u c).1.length = u.length := by
  obtain ⟨x, xs, rfl⟩ := List.exists_cons_of_length_pos hne
  obtain ⟨_, _, h3, h4, h5, _⟩ := rshift_val' x xs c hu hc1 hc
  exact ⟨h5, h3, h4⟩

/-- the coefficient when the field starts inside a limb and ends inside the same `coeff` limbs (:81, :91) -/
theorem coeff_shift_in (rest : List Nat) (k0 t s : Nat) (hr : Limbs rest) (hlen : k0 + 1 ≤ rest.length)
    (hs1 : 1 ≤ s) (hst : s + t < 64) :
    val (maskTop (rshift (rest.take (k0 + 1)) s).1 (2 ^ t - 1)) = (val rest / 2 ^ s) % 2 ^ (64 * k0 + t) ∧
    (maskTop (rshift (rest.take (k0 + 1)) s).1 (2 ^ t - 1)).length = k0 + 1 ∧
    Limbs (maskTop (rshift (rest.take (k0 + 1)) s).1 (2 ^ t - 1)) := by
  have htl : (rest.take (k0 + 1)).length = k0 + 1 := by simp [hlen]
  obtain ⟨rv, rl, rn⟩ := rshift_spec (rest.take (k0 + 1)) s (Limbs_take hr _) (by omega) hs1 (by omega)
  rw [htl] at rn
  obtain ⟨v, l, lim⟩ := val_maskTop _ t rl (by omega)
  rw [rn] at v l
  refine ⟨?_, l, lim⟩
  rw [v, rv, val_take_mod _ hr, Nat.add_sub_cancel, ← two_pow_bits, B_pow_two']
  exact (field_mod _ _ _ _ (by omega)).symm

theorem val_take_one (l : List Nat) : val (l.take 1) = l.getD 0 0 := by
  cases l with
  | nil => simp
  | cons a as => simp

theorem two_pow_dvd_B (t : Nat) (ht : t ≤ 64) : 2 ^ t ∣ B :=
  ⟨2 ^ (64 - t), by rw [← pow_add, show t + (64 - t) = 64 by omega]; rfl⟩

/-- the coefficient when the field runs over into the next limb (split_bits.c:81-88, :91) -/
theorem coeff_shift_out (rest : List Nat) (k0 t s : Nat) (hr : Limbs rest) (hlen : k0 + 1 ≤ rest.length)
    (hs1 : 1 ≤ s) (hs : s < 64) (ht : t < 64) :
    let c0 := (rshift (rest.take (k0 + 1)) s).1
    let hi := (((rest.drop k0).drop 1).getD 0 0 <<< (64 - s)) % B
    let c1 := c0.take k0 ++ [ladd (c0.getD k0 0) hi]
    val (maskTop c1 (2 ^ t - 1)) = (val rest / 2 ^ s) % 2 ^ (64 * k0 + t) ∧
    (maskTop c1 (2 ^ t - 1)).length = k0 + 1 ∧ Limbs (maskTop c1 (2 ^ t - 1)) := by
  intro c0 hi c1
  have htl : (rest.take (k0 + 1)).length = k0 + 1 := by simp [hlen]
  obtain ⟨rv, rl, rn⟩ := rshift_spec (rest.take (k0 + 1)) s (Limbs_take hr _) (by omega) hs1 (by omega)
  rw [htl] at rn
  obtain ⟨init0, c0top, hc0, hil⟩ := exists_snoc c0 k0 rn
  have rl' : Limbs (init0 ++ [c0top]) := by rw [← hc0]; exact rl
  have ⟨hinit, hc0t⟩ := Limbs_snoc.mp rl'
  have e1 : c0.take k0 = init0 := by rw [hc0]; simp [hil]
  have e2 : c0.getD k0 0 = c0top := by rw [hc0]; simp [List.getD_eq_getElem?_getD, hil]
  have hc1 : c1 = init0 ++ [ladd c0top hi] := by simp only [c1, e1, e2]
  have hL1 : Limbs c1 := by rw [hc1]; exact Limbs_snoc.mpr ⟨hinit, ladd_lt _ _⟩
  have hn1 : c1.length = k0 + 1 := by rw [hc1]; simp [hil]
  obtain ⟨v, l, lim⟩ := val_maskTop c1 t hL1 (by omega)
  rw [hn1] at v l
  refine ⟨?_, l, lim⟩
  rw [v, Nat.add_sub_cancel]
  -- the field only depends on the low k0 + 2 limbs
  set r0 := ((rest.drop k0).drop 1).getD 0 0 with hr0
  have hdd : (rest.drop k0).drop 1 = rest.drop (k0 + 1) := by rw [List.drop_drop]
  have hT : val rest % B ^ (k0 + 2) = val (rest.take (k0 + 1)) + B ^ (k0 + 1) * r0 := by
    rw [← val_take_mod _ hr, show k0 + 2 = (k0 + 1) + 1 by rfl, List.take_add, val_append, htl, val_take_one, hr0, hdd]
  have hfield := field_mod (val rest) s (64 * k0 + t) (64 * (k0 + 2)) (by omega)
  rw [← B_pow_two', hT] at hfield
  have hBs : B ^ (k0 + 1) = 2 ^ s * (B ^ k0 * 2 ^ (64 - s)) := by
    rw [pow_succ, B_split s (by omega)]; ring
  have hdiv : (val (rest.take (k0 + 1)) + B ^ (k0 + 1) * r0) / 2 ^ s = val c0 + B ^ k0 * (2 ^ (64 - s) * r0) := by
    rw [hBs, Nat.mul_assoc, Nat.add_mul_div_left _ _ (by positivity), rv]; ring
  rw [hfield, hdiv, two_pow_bits]
  have hvc0 : val c0 = val init0 + B ^ k0 * c0top := by rw [hc0, val_snoc, hil]
  have hvc1 : val c1 = val init0 + B ^ k0 * ladd c0top hi := by rw [hc1, val_snoc, hil]
  have hil' := val_lt _ hinit; rw [hil] at hil'
  rw [hvc0, hvc1, Nat.add_assoc, ← Nat.mul_add, add_mul_mod_mul _ _ _ _ hil', add_mul_mod_mul _ _ _ _ hil']
  congr 2
  -- the top limbs agree modulo 2^t
  have hd := two_pow_dvd_B t (by omega)
  have m1 : ladd c0top hi % 2 ^ t = (c0top + hi) % 2 ^ t := by
    unfold ladd; exact Nat.mod_mod_of_dvd _ hd
  have m2 : hi % 2 ^ t = (2 ^ (64 - s) * r0) % 2 ^ t := by
    simp only [hi, Nat.shiftLeft_eq]
    rw [Nat.mod_mod_of_dvd _ hd, Nat.mul_comm]
  rw [m1, Nat.add_mod, m2, ← Nat.add_mod]

/-- advancing the read position by exactly `bits` bits -/
theorem next_state (rest : List Nat) (hr : Limbs rest) (a e s bits : Nat) (h : 64 * a + e = s + bits) :
    val (rest.drop a) / 2 ^ e = (val rest / 2 ^ s) / 2 ^ bits := by
  rw [val_drop_div _ hr, B_pow_two', Nat.div_div_eq_div_mul, Nat.div_div_eq_div_mul, ← pow_add, ← pow_add, h]

theorem coeffsOK_cons {bits ol : Nat} {c : List Nat} {cs : List (List Nat)}
    (hc : c.length = ol + 1 ∧ Limbs c ∧ val c < 2 ^ bits) (hcs : CoeffsOK bits ol cs) : CoeffsOK bits ol (c :: cs) := by
  intro d hd
  rcases List.mem_cons.mp hd with rfl | hd
  · exact hc
  · exact hcs d hd

theorem splitBitsGo_spec (k0 t ol : Nat) (ht1 : 1 ≤ t) (ht : t < 64) (hol : k0 ≤ ol) :
    ∀ (k : Nat) (rest : List Nat) (shift : Nat), Limbs rest → shift < 64 →
      shift + k * (64 * k0 + t) < 64 * rest.length →
      64 * rest.length ≤ shift + (k + 1) * (64 * k0 + t) →
      polyEval (64 * k0 + t) (splitBitsGo (k0 + 1) t ol (2 ^ t - 1) k rest shift) = val rest / 2 ^ shift ∧
      CoeffsOK (64 * k0 + t) ol (splitBitsGo (k0 + 1) t ol (2 ^ t - 1) k rest shift) ∧
      (splitBitsGo (k0 + 1) t ol (2 ^ t - 1) k rest shift).length = k + 1
  | 0, rest, shift, hr, hs, h1, h2 => by
    simp only [Nat.zero_mul, Nat.add_zero, Nat.zero_add, Nat.one_mul] at h1 h2
    unfold splitBitsGo
    have hlen : rest.length ≤ k0 + 1 := by omega
    have hpos : 0 < rest.length := by omega
    have hlt : val rest / 2 ^ shift < 2 ^ (64 * k0 + t) := by
      rw [Nat.div_lt_iff_lt_mul (by positivity), ← pow_add]
      have := val_lt _ hr; rw [B_pow_two'] at this
      exact lt_of_lt_of_le this (Nat.pow_le_pow_right (by norm_num) (by omega))
    by_cases hs0 : shift = 0
    · subst hs0
      simp only [↓reduceIte, pow_zero, Nat.div_one] at hlt ⊢
      refine ⟨by simp [polyEval, val_padTo], ?_, by simp⟩
      exact coeffsOK_cons ⟨length_padTo _ _ (by omega), Limbs_padTo _ _ hr, by rw [val_padTo]; exact hlt⟩
        (fun _ h => by simp at h)
    · simp only [hs0, ↓reduceIte]
      obtain ⟨rv, rl, rn⟩ := rshift_spec rest shift hr hpos (by omega) (by omega)
      refine ⟨by simp [polyEval, val_padTo, rv], ?_, by simp⟩
      exact coeffsOK_cons ⟨length_padTo _ _ (by omega), Limbs_padTo _ _ rl, by rw [val_padTo, rv]; exact hlt⟩
        (fun _ h => by simp at h)
  | k + 1, rest, shift, hr, hs, h1, h2 => by
    have e1 : (k + 1) * (64 * k0 + t) = k * (64 * k0 + t) + (64 * k0 + t) := by ring
    have e2 : (k + 1 + 1) * (64 * k0 + t) = k * (64 * k0 + t) + (64 * k0 + t) + (64 * k0 + t) := by ring
    rw [e1] at h1; rw [e2] at h2
    generalize hkb : k * (64 * k0 + t) = kb at h1 h2
    have hlen : k0 + 1 ≤ rest.length := by omega
    have hmod : ∀ V : Nat, V % 2 ^ (64 * k0 + t) + 2 ^ (64 * k0 + t) * (V / 2 ^ (64 * k0 + t)) = V :=
      fun V => Nat.mod_add_div V _
    have hmlt : ∀ V : Nat, V % 2 ^ (64 * k0 + t) < 2 ^ (64 * k0 + t) := fun V => Nat.mod_lt _ (by positivity)
    unfold splitBitsGo
    simp only [Nat.add_sub_cancel]
    by_cases hs0 : shift = 0
    · subst hs0
      simp only [↓reduceIte, Nat.zero_add]
      obtain ⟨cv, cl, clim⟩ := coeff_noshift rest k0 t hr hlen ht
      have hd := Limbs_drop hr k0
      obtain ⟨ih1, ih2, ih3⟩ := splitBitsGo_spec k0 t ol ht1 ht hol k (rest.drop k0) t hd ht
        (by rw [List.length_drop, hkb]; omega) (by rw [List.length_drop, e1, hkb]; omega)
      have hns := next_state rest hr k0 t 0 (64 * k0 + t) (by omega)
      simp only [pow_zero, Nat.div_one] at hns
      refine ⟨?_, coeffsOK_cons ⟨length_padTo _ _ (by rw [cl]; omega), Limbs_padTo _ _ clim, ?_⟩ ih2, by simp [ih3]⟩
      · simp only [polyEval, val_padTo, cv, ih1, hns, pow_zero, Nat.div_one]; exact hmod _
      · rw [val_padTo, cv]; exact hmlt _
    · simp only [hs0, ↓reduceIte]
      by_cases hov : shift + t ≥ 64
      · simp only [hov, ↓reduceIte]
        obtain ⟨cv, cl, clim⟩ := coeff_shift_out rest k0 t shift hr hlen (by omega) hs ht
        have hdd : (rest.drop k0).drop 1 = rest.drop (k0 + 1) := by rw [List.drop_drop]
        have hd := Limbs_drop (Limbs_drop hr k0) 1
        obtain ⟨ih1, ih2, ih3⟩ := splitBitsGo_spec k0 t ol ht1 ht hol k ((rest.drop k0).drop 1) (shift + t - 64) hd (by omega)
          (by rw [List.length_drop, List.length_drop, hkb]; omega) (by rw [List.length_drop, List.length_drop, e1, hkb]; omega)
        have hns := next_state rest hr (k0 + 1) (shift + t - 64) shift (64 * k0 + t) (by omega)
        rw [← hdd] at hns
        refine ⟨?_, coeffsOK_cons ⟨length_padTo _ _ (by rw [cl]; omega), Limbs_padTo _ _ clim, ?_⟩ ih2,
          by rw [List.length_cons, ih3]⟩
        · simp only [polyEval, val_padTo]; rw [cv, ih1, hns]; exact hmod _
        · rw [val_padTo, cv]; exact hmlt _
      · simp only [hov, ↓reduceIte]
        obtain ⟨cv, cl, clim⟩ := coeff_shift_in rest k0 t shift hr hlen (by omega) (by omega)
        have hd := Limbs_drop hr k0
        obtain ⟨ih1, ih2, ih3⟩ := splitBitsGo_spec k0 t ol ht1 ht hol k (rest.drop k0) (shift + t) hd (by omega)
          (by rw [List.length_drop, hkb]; omega) (by rw [List.length_drop, e1, hkb]; omega)
        have hns := next_state rest hr k0 (shift + t) shift (64 * k0 + t) (by omega)
        refine ⟨?_, coeffsOK_cons ⟨length_padTo _ _ (by rw [cl]; omega), Limbs_padTo _ _ clim, ?_⟩ ih2, by simp [ih3]⟩
        · simp only [polyEval, val_padTo, cv, ih1, hns]; exact hmod _
        · rw [val_padTo, cv]; exact hmlt _

/-- mpir_fft_split_bits: the coefficients are the base-2^bits digits of the operand, each in a zero-padded
    buffer of ol+1 limbs; their number is ⌈64·total/bits⌉ -/
theorem split_bits_spec (x : List Nat) (bits ol : Nat) (hx : Limbs x) (hn : 1 ≤ x.length) (hb : 1 ≤ bits)
    (hol : (bits + 63) / 64 ≤ ol + 1) :
    polyEval bits (split_bits x bits ol) = val x ∧ CoeffsOK bits ol (split_bits x bits ol) ∧
    (split_bits x bits ol).length = (64 * x.length - 1) / bits + 1 := by
  unfold split_bits
  have hdm := Nat.div_add_mod bits 64
  by_cases ht : bits % 64 = 0
  · simp only [ht, ↓reduceIte]
    have hc : 1 ≤ bits / 64 := by omega
    have hbits : bits = 64 * (bits / 64) := by omega
    obtain ⟨h1, h2, h3⟩ := splitLimbsGo_spec (bits / 64) ol hc (by omega) (x.length + 1) x hx (by omega)
    unfold split_limbs
    rw [← hbits] at h1 h2
    refine ⟨h1, h2, ?_⟩
    rw [h3]
    have e1 : (64 * x.length - 1) / bits = (x.length - 1) / (bits / 64) := by
      conv_lhs => rw [hbits]
      rw [← Nat.div_div_eq_div_mul]; congr 1; omega
    rw [e1, ← Nat.add_div_right _ (by omega)]; congr 1; omega
  · simp only [ht, ↓reduceIte]
    have hbits : bits = 64 * (bits / 64) + bits % 64 := by omega
    have hlt : bits % 64 < 64 := Nat.mod_lt _ (by norm_num)
    have k1 : (64 * x.length - 1) / bits * bits ≤ 64 * x.length - 1 := Nat.div_mul_le_self _ _
    have k2 : 64 * x.length - 1 < bits * ((64 * x.length - 1) / bits + 1) := Nat.lt_mul_div_succ _ (by omega)
    rw [Nat.mul_comm bits, Nat.add_mul, Nat.one_mul] at k2
    have e64 : 64 * (bits / 64) + bits % 64 = bits := by omega
    generalize hk : (64 * x.length - 1) / bits = k at k1 k2 ⊢
    generalize hkb : k * bits = kb at k1 k2
    obtain ⟨h1, h2, h3⟩ := splitBitsGo_spec (bits / 64) (bits % 64) ol (by omega) hlt (by omega)
      k x 0 hx (by norm_num) (by rw [e64, hkb]; omega) (by rw [e64, Nat.add_mul, Nat.one_mul, hkb]; omega)
    rw [← hbits] at h1 h2
    simp only [Nat.add_sub_cancel, pow_zero, Nat.div_one] at h1 h2 h3 ⊢
    exact ⟨h1, h2, h3⟩

end Mpir.Fft
