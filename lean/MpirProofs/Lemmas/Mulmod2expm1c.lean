/- mpn_mulmod_2expm1: the split of an operand into its residues modulo 2^h − 1 and 2^h + 1 (mulmod_2expm1.c:164-224). -/
import MpirProofs.Lemmas.Mulmod2expm1b
namespace Mpir.Mm1
open Mpir Mpir.Fft

/-- the −1 half: `x = yl − yh` with borrow `bw` in `H·K` (K = 2^k), then `+ bw`: the fully reduced residue of
    `yl + H·yh` modulo `H + 1`, the value `H` signalled by the carry `f` -/
theorem diff_flag_val (H K yl yh xv bw bv f : Nat) (hH : 2 ≤ H) (hK : 1 ≤ K) (hyl : yl < H) (hyh : yh < H) (hbw : bw ≤ 1)
    (hx : xv + yh = yl + H * K * bw) (hxv : xv < H * K) (hb : bv + H * K * f = xv + bw) (hbv : bv < H * K)
    (hf : f ≤ 1) :
    ((if f = 1 then (H : Int) else ((bv % H : Nat) : Int)) ≡ (yl : Int) + H * yh [ZMOD (H : Int) + 1]) ∧
    (yl = 0 → yh = 0 → bv % H = 0 ∧ f = 0) := by
  obtain ⟨K', rfl⟩ : ∃ K', K = K' + 1 := ⟨K - 1, by omega⟩
  have hHK : H * (K' + 1) = H * K' + H := by ring
  rw [hHK] at hx hxv hb hbv
  have hbw' : bw = 0 ∨ bw = 1 := by omega
  have hf' : f = 0 ∨ f = 1 := by omega
  rcases hbw' with rfl | rfl
  · -- no borrow: x = yl − yh < H
    simp only [Nat.mul_zero, Nat.add_zero] at hx hb
    have hf0 : f = 0 := by
      rcases hf' with h | h
      · exact h
      · subst h; simp only [Nat.mul_one] at hb; omega
    subst hf0
    simp only [Nat.mul_zero, Nat.add_zero] at hb
    have hbm : bv % H = bv := Nat.mod_eq_of_lt (by omega)
    refine ⟨?_, fun h1 h2 => ⟨by rw [hbm]; omega, rfl⟩⟩
    simp only [Nat.zero_ne_one, ↓reduceIte, hbm]
    apply Int.ModEq.symm; apply Int.modEq_of_dvd
    refine ⟨-(yh : Int), ?_⟩
    have e := congrArg (fun z : Nat => (z : Int)) hx
    have e2 := congrArg (fun z : Nat => (z : Int)) hb
    push_cast at e e2
    linear_combination e2 + e
  · simp only [Nat.mul_one] at hx hb
    refine ⟨?_, fun h1 h2 => by omega⟩
    rcases hf' with rfl | rfl
    · simp only [Nat.mul_zero, Nat.add_zero] at hb
      -- bv = H·K' + H − e with e = yh − yl − 1 ≥ 1
      have hbe : bv = (H + yl + 1 - yh) + H * K' := by omega
      have hlt : H + yl + 1 - yh < H := by omega
      have hbm : bv % H = H + yl + 1 - yh := by rw [hbe, Nat.add_mul_mod_self_left, Nat.mod_eq_of_lt hlt]
      simp only [Nat.zero_ne_one, ↓reduceIte, hbm]
      apply Int.ModEq.symm; apply Int.modEq_of_dvd
      refine ⟨1 - (yh : Int), ?_⟩
      have : ((H + yl + 1 - yh : Nat) : Int) = H + yl + 1 - yh := by omega
      rw [this]; ring
    · simp only [Nat.mul_one] at hb
      have : yl + 1 = yh := by omega
      simp only [↓reduceIte]
      apply Int.ModEq.symm; apply Int.modEq_of_dvd
      refine ⟨-(yl : Int), ?_⟩
      have e : (yh : Int) = yl + 1 := by omega
      rw [e]; ring

/-- the +1 half: `sv = yl + yh` with carry `cy` in `H·K`, then `+ (yl + yh) / H`: after the mask the folded sum -/
theorem sum_fold_val (H K yl yh sv cy av af : Nat) (hH : 2 ≤ H) (hK : 1 ≤ K) (hyl : yl < H) (hyh : yh < H) (hcy : cy ≤ 1)
    (hs : sv + H * K * cy = yl + yh) (hsv : sv < H * K) (ha : av + H * K * af = sv + (yl + yh) / H)
    (hav : av < H * K) (haf : af ≤ 1) :
    af = 0 ∧ av % H = (yl + yh) % H + (yl + yh) / H := by
  obtain ⟨f1, _, _⟩ := fold_val H yl yh hH hyl hyh
  have hdm := Nat.mod_add_div (yl + yh) H
  have hd : (yl + yh) / H < 2 := (Nat.div_lt_iff_lt_mul (by omega)).mpr (by omega)
  generalize (yl + yh) / H = d at *
  generalize (yl + yh) % H = r at *
  have hd' : d = 0 ∨ d = 1 := by omega
  have hcy' : cy = 0 ∨ cy = 1 := by omega
  have haf' : af = 0 ∨ af = 1 := by omega
  rcases Nat.lt_or_ge K 2 with hK1 | hK2
  · have : K = 1 := by omega
    subst this
    simp only [Nat.mul_one] at hs hsv ha hav
    have haf0 : af = 0 := by
      rcases hd' with rfl | rfl <;> rcases hcy' with rfl | rfl <;> rcases haf' with rfl | rfl <;>
        simp only [Nat.mul_zero, Nat.mul_one, Nat.add_zero] at hs ha hdm <;> omega
    subst haf0
    refine ⟨rfl, ?_⟩
    simp only [Nat.mul_zero, Nat.add_zero] at ha
    have hav2 : av = r + d := by
      rcases hd' with rfl | rfl <;> rcases hcy' with rfl | rfl <;>
        simp only [Nat.mul_zero, Nat.mul_one, Nat.add_zero] at hs ha hdm <;> omega
    rw [hav2, Nat.mod_eq_of_lt f1]
  · have hT : H * 2 ≤ H * K := Nat.mul_le_mul_left _ hK2
    generalize H * K = T at *
    have hcy0 : cy = 0 := by
      rcases hcy' with h | h
      · exact h
      · subst h; simp only [Nat.mul_one] at hs; rcases hd' with rfl | rfl <;> simp only [Nat.mul_zero, Nat.mul_one] at hdm <;> omega
    subst hcy0
    simp only [Nat.mul_zero, Nat.add_zero] at hs
    have haf0 : af = 0 := by
      rcases haf' with h | h
      · exact h
      · subst h; simp only [Nat.mul_one] at ha; rcases hd' with rfl | rfl <;> simp only [Nat.mul_zero, Nat.mul_one] at hdm <;> omega
    subst haf0
    simp only [Nat.mul_zero, Nat.add_zero] at ha
    refine ⟨rfl, ?_⟩
    have e : av = (r + d) + H * d := by omega
    rw [e, Nat.add_mul_mod_self_left, Nat.mod_eq_of_lt f1]

theorem val_take_mod (l : List Nat) (hl : Limbs l) (j : Nat) (hj : j ≤ l.length) :
    val (l.take j) = val l % B ^ j ∧ val (l.drop j) = val l / B ^ j := by
  have h := val_take_drop l j hj
  have hlt := val_lt _ (Limbs_take hl j)
  rw [List.length_take, Nat.min_eq_left hj] at hlt
  obtain ⟨d1, d2⟩ := divmod_of (val l) _ _ _ h.symm hlt
  exact ⟨d2.symm, d1.symm⟩

/-- mulmod_2expm1.c:180-181: the low `h = 64m − k` bits -/
theorem split_lo_k (yp : List Nat) (m k : Nat) (hm : 1 ≤ m) (hk : k ≤ 63) (hL : Limbs yp) (hl : m ≤ yp.length) :
    val (maskK (yp.take m) m k) = val yp % 2 ^ (64 * m - k) ∧ (maskK (yp.take m) m k).length = m ∧
    Limbs (maskK (yp.take m) m k) := by
  have htl : (yp.take m).length = m := by rw [List.length_take, Nat.min_eq_left hl]
  obtain ⟨m1, m2, m3⟩ := maskK_spec (yp.take m) m k (Limbs_take hL m) htl hm (by omega)
  refine ⟨?_, m2, m3⟩
  rw [m1, (val_take_mod yp hL m hl).1]
  apply Nat.mod_mod_of_dvd
  rw [Bn_eq m k hm hk]; exact Dvd.intro _ rfl

/-- mulmod_2expm1.c:172-177: the bits from `h = 64m − k` up, as m limbs -/
theorem split_hi_k (yp : List Nat) (n m k : Nat) (hm : 1 ≤ m) (hk1 : 1 ≤ k) (hk : k ≤ 63)
    (hn : n = (2 * (64 * m - k) + 63) / 64) (hL : Limbs yp) (hl : yp.length = n)
    (hv : val yp < 2 ^ (64 * m - k) * 2 ^ (64 * m - k)) :
    let t0 := (rshift ((yp.drop (m - 1)).take m) (64 - k)).1
    let tpp := if n = 2 * m then setAt t0 (m - 1) (t0.getD (m - 1) 0 ||| ((yp.getD (2 * m - 1) 0 <<< k) % B)) else t0
    val tpp = val yp / 2 ^ (64 * m - k) ∧ tpp.length = m ∧ Limbs tpp := by
  intro t0 tpp
  have ht0 : t0 = (rshift ((yp.drop (m - 1)).take m) (64 - k)).1 := rfl
  have htpp : tpp = if n = 2 * m then setAt t0 (m - 1) (t0.getD (m - 1) 0 ||| ((yp.getD (2 * m - 1) 0 <<< k) % B)) else t0 := rfl
  clear_value tpp t0
  have hQb := two_pow_b m k hm hk
  have hBm := Bn_eq m k hm hk
  obtain ⟨_, hdrop⟩ := val_take_mod yp hL (m - 1) (by omega)
  have hdl : (yp.drop (m - 1)).length = n - (m - 1) := by rw [List.length_drop, hl]
  have hwl : ((yp.drop (m - 1)).take m).length = m := by rw [List.length_take, hdl]; omega
  have hwL : Limbs ((yp.drop (m - 1)).take m) := Limbs_take (Limbs_drop hL _) _
  obtain ⟨r1, r2, r3⟩ := rshift_spec ((yp.drop (m - 1)).take m) (64 - k) hwL (by omega) (by omega) (by omega)
  rw [← ht0] at r1 r2 r3
  rw [hwl] at r3
  have hyH : val yp / 2 ^ (64 * m - k) = val (yp.drop (m - 1)) / 2 ^ (64 - k) := by
    rw [hdrop, hQb, Nat.div_div_eq_div_mul]
  by_cases hn2 : n = 2 * m
  · have hk31 : k ≤ 31 := by omega
    rw [if_pos hn2] at htpp
    -- the limb above the m limbs read by mpn_rshift
    have hdd : (yp.drop (m - 1)).drop m = yp.drop (2 * m - 1) := by
      rw [List.drop_drop]; congr 1; omega
    obtain ⟨t, htl⟩ : ∃ t, yp.drop (2 * m - 1) = [t] := by
      have : (yp.drop (2 * m - 1)).length = 1 := by rw [List.length_drop, hl]; omega
      match h : yp.drop (2 * m - 1), this with
      | [t], _ => exact ⟨t, rfl⟩
    have hgt : yp.getD (2 * m - 1) 0 = t := by
      have h1 : (yp.drop (2 * m - 1))[0]? = yp[2 * m - 1]? := by rw [List.getElem?_drop]; simp
      rw [htl] at h1
      rw [List.getD_eq_getElem?_getD, ← h1]; simp
    have htB : t < B := by
      have : Limbs (yp.drop (2 * m - 1)) := Limbs_drop hL _
      rw [htl] at this; exact (Limbs_cons.mp this).1
    have hsplit : yp.drop (m - 1) = (yp.drop (m - 1)).take m ++ [t] := by
      conv_lhs => rw [← List.take_append_drop m (yp.drop (m - 1)), hdd, htl]
    have hvd : val (yp.drop (m - 1)) = val ((yp.drop (m - 1)).take m) + B ^ m * t := by
      conv_lhs => rw [hsplit]
      rw [val_append, hwl]; simp [val]
    -- t has at most 64 − 2k bits
    have htlt : t < 2 ^ (64 - 2 * k) := by
      have h1 : B ^ m * t ≤ val (yp.drop (m - 1)) := by rw [hvd]; exact Nat.le_add_left _ _
      have h2 : val (yp.drop (m - 1)) * B ^ (m - 1) ≤ val yp := by
        rw [hdrop]; exact Nat.div_mul_le_self _ _
      have h3 : 2 ^ (64 * m - k) * 2 ^ (64 * m - k) = B ^ m * B ^ (m - 1) * 2 ^ (64 - 2 * k) := by
        rw [B_pow_two', B_pow_two', ← pow_add, ← pow_add, ← pow_add]; congr 1; omega
      rw [h3] at hv
      by_contra hge
      have hge' : 2 ^ (64 - 2 * k) ≤ t := by omega
      have : B ^ m * B ^ (m - 1) * 2 ^ (64 - 2 * k) ≤ B ^ m * B ^ (m - 1) * t := Nat.mul_le_mul_left _ hge'
      have h4 : B ^ m * t * B ^ (m - 1) ≤ val yp := le_trans (Nat.mul_le_mul_right _ h1) h2
      have h5 : B ^ m * t * B ^ (m - 1) = B ^ m * B ^ (m - 1) * t := by ring
      omega
    have ht2k : t * 2 ^ k < 2 ^ (64 - k) := by
      have : 2 ^ (64 - k) = 2 ^ (64 - 2 * k) * 2 ^ k := by rw [← pow_add]; congr 1; omega
      rw [this]; exact Nat.mul_lt_mul_of_pos_right htlt (Nat.two_pow_pos _)
    have h64k : 2 ^ (64 - k) ≤ B := by
      unfold B; exact Nat.pow_le_pow_right (by norm_num) (by omega)
    have hshl : (t <<< k) % B = t * 2 ^ k := by
      rw [Nat.shiftLeft_eq, Nat.mod_eq_of_lt (by omega)]
    -- the top limb of the shifted m limbs is below 2^k
    obtain ⟨rs, rt, hrs, hrsl⟩ := exists_snoc t0 (m - 1) (by omega)
    have hrsL := Limbs_snoc.mp (hrs ▸ r2)
    have hvr : val t0 = val rs + B ^ (m - 1) * rt := by rw [hrs, val_snoc, hrsl]
    have hwlt := val_lt _ hwL; rw [hwl] at hwlt
    have hrlt : val t0 < B ^ (m - 1) * 2 ^ k := by
      rw [r1, Nat.div_lt_iff_lt_mul (Nat.two_pow_pos _)]
      have : B ^ (m - 1) * 2 ^ k * 2 ^ (64 - k) = B ^ m := by
        rw [B_pow_two', B_pow_two', ← pow_add, ← pow_add]; congr 1; omega
      rw [this]; exact hwlt
    have hrt : rt < 2 ^ k := by
      by_contra hge
      have hge' : 2 ^ k ≤ rt := by omega
      have : B ^ (m - 1) * 2 ^ k ≤ B ^ (m - 1) * rt := Nat.mul_le_mul_left _ hge'
      omega
    have hget : t0.getD (m - 1) 0 = rt := by
      rw [hrs, List.getD_eq_getElem?_getD, List.getElem?_append_right (by omega), hrsl]; simp
    have hset : ∀ v, setAt t0 (m - 1) v = rs ++ [v] := by
      intro v
      obtain ⟨p1, p2, p3⟩ := setAt_parts t0 (m - 1) v (by omega)
      have hm1 : m - 1 + 1 = m := by omega
      rw [hm1] at p1
      have : (setAt t0 (m - 1) v).length = m := by rw [p3, r3]
      rw [← List.take_of_length_le (le_of_eq this), p1, hrs]
      congr 1
      rw [List.take_append_of_le_length (by omega), List.take_of_length_le (by omega)]
    have hor : rt ||| t * 2 ^ k = t * 2 ^ k + rt := by
      rw [Nat.or_comm]; exact or_low _ _ k (Dvd.intro_left _ rfl) hrt
    rw [hget, hgt, hshl, hor, hset] at htpp
    rw [htpp]
    have hnew : t * 2 ^ k + rt < B := by
      have h1 : (t + 1) * 2 ^ k ≤ 2 ^ (64 - 2 * k) * 2 ^ k := Nat.mul_le_mul_right _ (by omega)
      have h2 : 2 ^ (64 - 2 * k) * 2 ^ k = 2 ^ (64 - k) := by rw [← pow_add]; congr 1; omega
      have h3 : (t + 1) * 2 ^ k = t * 2 ^ k + 2 ^ k := by ring
      omega
    refine ⟨?_, by simp [hrsl]; omega, Limbs_snoc.mpr ⟨hrsL.1, hnew⟩⟩
    rw [val_snoc, hrsl, hyH, hvd]
    have e : B ^ m = 2 ^ (64 - k) * (2 ^ k * B ^ (m - 1)) := by
      rw [B_pow_two', B_pow_two', ← pow_add, ← pow_add]; congr 1; omega
    rw [e, Nat.mul_assoc, Nat.add_mul_div_left _ _ (Nat.two_pow_pos _), ← r1, hvr]
    ring
  · have hn1 : n = 2 * m - 1 := by omega
    rw [if_neg hn2] at htpp
    rw [htpp]
    have : (yp.drop (m - 1)).take m = yp.drop (m - 1) := List.take_of_length_le (by rw [hdl]; omega)
    rw [this] at r1
    exact ⟨by rw [r1, hyH], r3, r2⟩
end Mpir.Mm1
