/- The size field M->n of an hgcd matrix: the normalisation invariant "some entry uses limb M->n − 1" (the C's
   `ASSERT ((M->p[0][0][M->n-1] | M->p[0][1][M->n-1] | M->p[1][0][M->n-1] | M->p[1][1][M->n-1]) > 0)` in
   mpn_hgcd_matrix_mul) is preserved by mpn_hgcd_matrix_update_q (both branches), mpn_hgcd_matrix_mul_1, hence by
   mpn_hgcd_step and by the loops of steps; with the contract of mpn_hgcd (entries < B^(n−s) because det = 1 and
   (a; b) = M·(a'; b') with a', b' ≥ B^s) it gives `M->n ≤ (n − 1)/2`, the C's ASSERT at gcdext.c:296/:347.
   What is NOT covered here: mpn_hgcd_matrix_mul keeps the invariant only by the argument of its comment (the product
   of the two matrices has normalised size ≥ M->n + M1->n − 2), see `HgNorm`. -/
import MpirProofs.Lemmas.HgcdRec2
namespace Mpir.Hgcd
open Mpir Mpir.Gcd
set_option linter.unusedSimpArgs false

/-- some entry of M uses limb M->n − 1 -/
def HM.NormD (M : HM) : Prop :=
  B ^ (M.n - 1) ≤ M.e00 ∨ B ^ (M.n - 1) ≤ M.e01 ∨ B ^ (M.n - 1) ≤ M.e10 ∨ B ^ (M.n - 1) ≤ M.e11

theorem matInit_norm (n : Nat) : (matInit n).NormD := by
  left; show B ^ (1 - 1) ≤ 1; simp

/-- mpn_hgcd_matrix_update_q keeps the size field tight (diagonal entries ≥ 1: det M = 1) -/
theorem updateQ_norm (M : HM) (q col : Nat) (hq : 0 < q) (hcol : col ≤ 1) (hf : M.Fits) (hn : 1 ≤ M.n)
    (hd0 : 1 ≤ M.e00) (hd1 : 1 ≤ M.e11) (hN : M.NormD) : (updateQ M q col).NormD := by
  obtain ⟨f00, f01, f10, f11⟩ := hf
  have hqn : 1 ≤ nlimbs q := nlimbs_pos hq
  have hqB : q < B ^ nlimbs q := lt_pow_nlimbs q
  have hqlo : B ^ (nlimbs q - 1) ≤ q := pow_le_of_nlimbs hq
  have hBn : 0 < B ^ M.n := pow_pos B_pos _
  have hK : B ^ (M.n - 1) ≤ B ^ M.n := Nat.pow_le_pow_right B_pos (by omega)
  unfold HM.NormD at hN ⊢
  rcases (by omega : col = 0 ∨ col = 1) with rfl | rfl
  · unfold updateQ
    simp only [HM.col, Nat.sub_zero, ↓reduceIte, one_ne_zero]
    by_cases h1 : nlimbs q = 1
    · simp only [h1, ↓reduceIte, HM.setCol]
      have g0 : M.e00 ≤ M.e00 + q * M.e01 := Nat.le_add_right _ _
      have g1 : M.e10 ≤ M.e10 + q * M.e11 := Nat.le_add_right _ _
      split
      · rename_i hc
        simp only [Nat.add_sub_cancel]
        rcases hc with h | h
        · left; exact div_pow_ne_zero.mp h
        · right; right; left; exact div_pow_ne_zero.mp h
      · try simp only
        omega
    · simp only [h1, ↓reduceIte, HM.setCol]
      have hq2 : 2 ≤ nlimbs q := by omega
      set n0 := max (max (nlimbs M.e01) (nlimbs M.e11)) (M.n - nlimbs q) with hn0
      have hl11 : 1 ≤ nlimbs M.e11 := nlimbs_pos hd1
      have hn01 : 1 ≤ n0 := by omega
      have g0 : M.e01 * q ≤ M.e00 + M.e01 * q := Nat.le_add_left _ _
      have g1 : M.e11 * q ≤ M.e10 + M.e11 * q := Nat.le_add_left _ _
      have g0' : M.e00 ≤ M.e00 + M.e01 * q := Nat.le_add_right _ _
      have g1' : M.e10 ≤ M.e10 + M.e11 * q := Nat.le_add_right _ _
      have hPp : 0 < B ^ (n0 + nlimbs q) := pow_pos B_pos _
      split
      · rename_i hc
        simp only [Nat.add_sub_cancel]
        rcases hc with h | h
        · left; exact div_pow_ne_zero.mp h
        · right; right; left; exact div_pow_ne_zero.mp h
      · rename_i hc
        rw [not_or, not_not, not_not, Nat.div_eq_zero_iff_lt hPp, Nat.div_eq_zero_iff_lt hPp] at hc
        split
        · -- both top limbs zero: size n0 + qn − 1; some entry still has n0 + qn − 2 limbs
          try simp only
          have key : B ^ (n0 + nlimbs q - 1 - 1) ≤ M.e00 + M.e01 * q ∨ B ^ (n0 + nlimbs q - 1 - 1) ≤ M.e10 + M.e11 * q ∨
              B ^ (n0 + nlimbs q - 1 - 1) ≤ B ^ (M.n - 1) := by
            have hsplit : B ^ (n0 + nlimbs q - 1 - 1) = B ^ (n0 - 1) * B ^ (nlimbs q - 1) := by
              rw [← pow_add]; congr 1; omega
            rcases (by omega : n0 = nlimbs M.e01 ∨ n0 = nlimbs M.e11 ∨ n0 = M.n - nlimbs q) with h | h | h
            · left
              have hpos : 0 < M.e01 := by
                rcases Nat.eq_zero_or_pos M.e01 with hz | hz
                · rw [hz, nlimbs_zero] at h; omega
                · exact hz
              have := pow_le_of_nlimbs hpos
              rw [← h] at this
              rw [hsplit]
              exact le_trans (Nat.mul_le_mul this hqlo) g0
            · right; left
              have := pow_le_of_nlimbs (show 0 < M.e11 by omega)
              rw [← h] at this
              rw [hsplit]
              exact le_trans (Nat.mul_le_mul this hqlo) g1
            · right; right
              exact Nat.pow_le_pow_right B_pos (by omega)
          rcases key with k | k | k
          · left; exact k
          · right; right; left; exact k
          · rcases hN with h | h | h | h
            · left; exact le_trans k (le_trans h g0')
            · right; left; exact le_trans k h
            · right; right; left; exact le_trans k (le_trans h g1')
            · right; right; right; exact le_trans k h
        · rename_i hz
          try simp only
          rcases top_or_nonzero (by omega) hc.1 hc.2 hz with h | h
          · left; exact h
          · right; right; left; exact h
  · unfold updateQ
    simp only [HM.col, Nat.sub_self, ↓reduceIte, one_ne_zero]
    by_cases h1 : nlimbs q = 1
    · simp only [h1, ↓reduceIte, HM.setCol, one_ne_zero]
      have g0 : M.e01 ≤ M.e01 + q * M.e00 := Nat.le_add_right _ _
      have g1 : M.e11 ≤ M.e11 + q * M.e10 := Nat.le_add_right _ _
      split
      · rename_i hc
        simp only [Nat.add_sub_cancel]
        rcases hc with h | h
        · right; left; exact div_pow_ne_zero.mp h
        · right; right; right; exact div_pow_ne_zero.mp h
      · try simp only
        omega
    · simp only [h1, ↓reduceIte, HM.setCol, one_ne_zero]
      have hq2 : 2 ≤ nlimbs q := by omega
      set n0 := max (max (nlimbs M.e00) (nlimbs M.e10)) (M.n - nlimbs q) with hn0
      have hl00 : 1 ≤ nlimbs M.e00 := nlimbs_pos hd0
      have hn01 : 1 ≤ n0 := by omega
      have g0 : M.e00 * q ≤ M.e01 + M.e00 * q := Nat.le_add_left _ _
      have g1 : M.e10 * q ≤ M.e11 + M.e10 * q := Nat.le_add_left _ _
      have g0' : M.e01 ≤ M.e01 + M.e00 * q := Nat.le_add_right _ _
      have g1' : M.e11 ≤ M.e11 + M.e10 * q := Nat.le_add_right _ _
      have hPp : 0 < B ^ (n0 + nlimbs q) := pow_pos B_pos _
      split
      · rename_i hc
        simp only [Nat.add_sub_cancel]
        rcases hc with h | h
        · right; left; exact div_pow_ne_zero.mp h
        · right; right; right; exact div_pow_ne_zero.mp h
      · rename_i hc
        rw [not_or, not_not, not_not, Nat.div_eq_zero_iff_lt hPp, Nat.div_eq_zero_iff_lt hPp] at hc
        split
        · try simp only
          have key : B ^ (n0 + nlimbs q - 1 - 1) ≤ M.e01 + M.e00 * q ∨ B ^ (n0 + nlimbs q - 1 - 1) ≤ M.e11 + M.e10 * q ∨
              B ^ (n0 + nlimbs q - 1 - 1) ≤ B ^ (M.n - 1) := by
            have hsplit : B ^ (n0 + nlimbs q - 1 - 1) = B ^ (n0 - 1) * B ^ (nlimbs q - 1) := by
              rw [← pow_add]; congr 1; omega
            rcases (by omega : n0 = nlimbs M.e00 ∨ n0 = nlimbs M.e10 ∨ n0 = M.n - nlimbs q) with h | h | h
            · left
              have := pow_le_of_nlimbs (show 0 < M.e00 by omega)
              rw [← h] at this
              rw [hsplit]
              exact le_trans (Nat.mul_le_mul this hqlo) g0
            · right; left
              have hpos : 0 < M.e10 := by
                rcases Nat.eq_zero_or_pos M.e10 with hz | hz
                · rw [hz, nlimbs_zero] at h; omega
                · exact hz
              have := pow_le_of_nlimbs hpos
              rw [← h] at this
              rw [hsplit]
              exact le_trans (Nat.mul_le_mul this hqlo) g1
            · right; right
              exact Nat.pow_le_pow_right B_pos (by omega)
          rcases key with k | k | k
          · right; left; exact k
          · right; right; right; exact k
          · rcases hN with h | h | h | h
            · left; exact le_trans k h
            · right; left; exact le_trans k (le_trans h g0')
            · right; right; left; exact le_trans k h
            · right; right; right; exact le_trans k (le_trans h g1')
        · rename_i hz
          try simp only
          rcases top_or_nonzero (by omega) hc.1 hc.2 hz with h | h
          · right; left; exact h
          · right; right; right; exact h

/-- hgcd_hook keeps the size field tight -/
theorem hgcdHook_norm (M : HM) (q : Nat) (d : Bool) (hM : MOk M) (hd : det1 M.toM1) (hN : M.NormD) :
    (hgcdHook M q d).NormD := by
  unfold hgcdHook
  split
  · exact hN
  · rename_i h
    obtain ⟨p0, p1⟩ := det1_pos hd
    exact updateQ_norm M q _ (Nat.pos_of_ne_zero h) (by split <;> omega) hM.1 hM.2 p0 p1 hN

/-- mpn_hgcd_matrix_mul_1 keeps the size field tight -/
theorem matMul1_norm (M : HM) (m : M1) (hf : M.Fits) (hm : Msb0 m) (hdm : det1 m) (hn : 1 ≤ M.n) (hN : M.NormD) :
    (matMul1 M m).NormD := by
  obtain ⟨f00, f01, f10, f11⟩ := hf
  obtain ⟨a1, a2, a3, a4, a5, a6⟩ := mulMatrix1Vector_spec m M.e00 M.e01 M.n hm f00 f01
  obtain ⟨c1, c2, c3, c4, c5, c6⟩ := mulMatrix1Vector_spec m M.e10 M.e11 M.n hm f10 f11
  obtain ⟨p0, p1⟩ := det1_pos hdm
  have hp : 0 < B ^ M.n := pow_pos B_pos _
  -- the size of a row is n + 1 only if one of its entries reaches B^n
  have r0 : (mulMatrix1Vector m M.e00 M.e01 M.n).2.2 = M.n + 1 →
      B ^ M.n ≤ m.u00 * M.e00 + m.u10 * M.e01 ∨ B ^ M.n ≤ m.u11 * M.e01 + m.u01 * M.e00 := by
    intro h
    unfold mulMatrix1Vector at h a1 a2
    simp only at h a1 a2
    split at h
    · rename_i hc
      rw [a1, a2] at hc
      rcases hc with k | k
      · left; exact div_pow_ne_zero.mp k
      · right; exact div_pow_ne_zero.mp k
    · omega
  have r1 : (mulMatrix1Vector m M.e10 M.e11 M.n).2.2 = M.n + 1 →
      B ^ M.n ≤ m.u00 * M.e10 + m.u10 * M.e11 ∨ B ^ M.n ≤ m.u11 * M.e11 + m.u01 * M.e10 := by
    intro h
    unfold mulMatrix1Vector at h c1 c2
    simp only at h c1 c2
    split at h
    · rename_i hc
      rw [c1, c2] at hc
      rcases hc with k | k
      · left; exact div_pow_ne_zero.mp k
      · right; exact div_pow_ne_zero.mp k
    · omega
  unfold HM.NormD at hN ⊢
  unfold matMul1
  try simp only
  rw [a1, a2, c1, c2]
  generalize (mulMatrix1Vector m M.e00 M.e01 M.n).2.2 = k0 at *
  generalize (mulMatrix1Vector m M.e10 M.e11 M.n).2.2 = k1 at *
  have g00 : M.e00 ≤ m.u00 * M.e00 + m.u10 * M.e01 := le_trans (Nat.le_mul_of_pos_left _ p0) (Nat.le_add_right _ _)
  have g01 : M.e01 ≤ m.u11 * M.e01 + m.u01 * M.e00 := le_trans (Nat.le_mul_of_pos_left _ p1) (Nat.le_add_right _ _)
  have g10 : M.e10 ≤ m.u00 * M.e10 + m.u10 * M.e11 := le_trans (Nat.le_mul_of_pos_left _ p0) (Nat.le_add_right _ _)
  have g11 : M.e11 ≤ m.u11 * M.e11 + m.u01 * M.e10 := le_trans (Nat.le_mul_of_pos_left _ p1) (Nat.le_add_right _ _)
  by_cases hk : max k0 k1 = M.n + 1
  · rw [hk, Nat.add_sub_cancel]
    rcases (by omega : k0 = M.n + 1 ∨ k1 = M.n + 1) with h | h
    · rcases r0 h with k | k
      · left; exact k
      · right; left; exact k
    · rcases r1 h with k | k
      · right; right; left; exact k
      · right; right; right; exact k
  · have : max k0 k1 = M.n := by omega
    rw [this]
    omega

/-- every branch of mpn_gcd_subdiv_step (s > 0, hgcd_hook) keeps the size field tight -/
theorem subdivStepS_norm (a b s : Nat) (M : HM) (hM : MOk M) (hd : det1 M.toM1) (hN : M.NormD) :
    (subdivStepS a b s M).M.NormD := by
  have hook1 : ∀ sw, (hgcdHook M 1 sw).NormD := fun sw => hgcdHook_norm M 1 sw hM hd hN
  have hook2 : ∀ sw q sw', (hgcdHook (hgcdHook M 1 sw) q sw').NormD := by
    intro sw q sw'
    obtain ⟨e, ok, _⟩ := hgcdHook_spec M 1 sw hM
    exact hgcdHook_norm _ q sw' ok (by rw [e]; exact det1_mmul hd (det1_elemQ _ _)) (hook1 sw)
  unfold subdivStepS
  extract_lets an bn sw la lb lb1 M1 sw2 la2 lb2 sw' q r r2 M2 M3
  have h1 : M1.NormD := hook1 sw
  have h2 : M2.NormD := hook2 sw (q - 1) sw'
  have h3 : M3.NormD := hook2 sw q sw'
  split
  · exact hN
  split
  · exact hN
  split
  · exact hN
  split
  · exact h1
  split
  · exact h2
  · exact h3

/-- mpn_hgcd_step keeps the size field tight -/
theorem hgcdStep_norm (n a b s : Nat) (M : HM) (hM : MOk M) (hd : det1 M.toM1) (hn : 2 ≤ n) (hs : s < n) (hs0 : 1 ≤ s)
    (ha : a < B ^ n) (hb : b < B ^ n) (hN : M.NormD) : (hgcdStep n a b s M).M.NormD := by
  unfold hgcdStep
  cases hbind : (stepTop n a b s).bind (fun t => hgcd2 t.1 t.2.1 t.2.2.1 t.2.2.2) with
  | none => exact subdivStepS_norm a b s M hM hd hN
  | some m1 =>
    obtain ⟨t, ht, h2⟩ := Option.bind_eq_some_iff.mp hbind
    obtain ⟨hmsb, _, x, y, hr, _⟩ := hgcd2_step_spec n a b s t m1 hn hs hs0 ha hb ht h2
    exact matMul1_norm M m1 hM.1 hmsb hr.1 hM.2 hN

/-- the loops of steps keep the size field tight -/
theorem stepLoop_norm (s a0 b0 al lim : Nat) (hs0 : 1 ≤ s) :
    ∀ (f n a b : Nat) (M : HM) (success : Bool), Acc s a0 b0 al n a b M success → M.NormD →
      match stepLoop f lim n a b s M success with
      | .inl r => r.M.NormD
      | .inr (r, _) => r.M.NormD := by
  intro f
  induction f with
  | zero => intro n a b M success _ hN; exact hN
  | succ f ih =>
    intro n a b M success hacc hN
    obtain ⟨hrel, hM, hal, ha, hb, htight, hsn, hsucc⟩ := hacc
    unfold stepLoop
    by_cases hlim : n > lim
    · rw [if_pos hlim]
      have hNs := hgcdStep_norm n a b s M hM hrel.1 (by omega) hsn hs0 ha hb hN
      obtain ⟨E, e1, e2, e3, e4, e5, e6⟩ := hgcdStep_spec n a b s M hM (by omega) hsn hs0 ha hb
      generalize hgcdStep n a b s M = r at *
      try simp only
      by_cases hret : r.ret = 0
      · rw [if_pos hret]; exact hNs
      · rw [if_neg hret]
        obtain ⟨d1, d2, d3, d4, d5, d6, d7⟩ := e5 hret
        have hrel' : MRel r.M.toM1 r.a r.b a0 b0 := by rw [e1]; exact mrel_comp hrel e2
        have hnid : NonId r.M.toM1 := by rw [e1]; exact nonId_mmul_right hrel.1 d1
        have hacc' : Acc s a0 b0 al r.ret r.a r.b r.M true :=
          ⟨hrel', e3, by rw [e4, hal], d4, d5, d6, pow_lt_of d2 d4, fun _ => ⟨hnid, d2, d3⟩⟩
        exact ih r.ret r.a r.b r.M true hacc' hNs
    · rw [if_neg hlim]; exact hN

theorem hgcdFin_norm (s a0 b0 al n a b : Nat) (M : HM) (success : Bool) (hs0 : 1 ≤ s)
    (hacc : Acc s a0 b0 al n a b M success) (hN : M.NormD) : (hgcdFin n a b s M success).M.NormD := by
  have := stepLoop_norm s a0 b0 al 0 hs0 (a + b + 1) n a b M success hacc hN
  unfold hgcdFin
  cases hloop : stepLoop (a + b + 1) 0 n a b s M success with
  | inl r => rw [hloop] at this; exact this
  | inr q => rw [hloop] at this; obtain ⟨r, su⟩ := q; exact this

/-- **M->n ≤ (n − 1)/2**: a matrix with det 1 that reconstructs (a; b) < B^n from (a'; b') ≥ B^(n/2+1) has entries below
    B^(n − n/2 − 1); if its size field is tight, M->n ≤ n − n/2 − 1 = (n − 1)/2 — `ASSERT (M.n <= (n - p - 1)/2)`
    (gcdext.c:296, :347) and "Constructs matrix M with elements of size at most (n+1)/2 − 1" (hgcd.c). -/
theorem mn_le_of_norm (n a b : Nat) (r : StepRes) (ha : a < B ^ n) (hb : b < B ^ n) (hn : 3 ≤ n)
    (hrel : MRel r.M.toM1 r.a r.b a b) (hx : B ^ (n / 2 + 1) ≤ r.a) (hy : B ^ (n / 2 + 1) ≤ r.b) (hN : r.M.NormD) :
    r.M.n ≤ (n - 1) / 2 := by
  have hS : a < B ^ (n - (n / 2 + 1)) * B ^ (n / 2 + 1) := by
    rw [← pow_add]; have : n - (n / 2 + 1) + (n / 2 + 1) = n := by omega
    rw [this]; exact ha
  have hT : b < B ^ (n - (n / 2 + 1)) * B ^ (n / 2 + 1) := by
    rw [← pow_add]; have : n - (n / 2 + 1) + (n / 2 + 1) = n := by omega
    rw [this]; exact hb
  obtain ⟨e1, e2⟩ := mrel_entries_lt hrel hx hy hS hT
  simp only [HM.toM1] at e1 e2
  have hlt : B ^ (r.M.n - 1) < B ^ (n - (n / 2 + 1)) := by
    rcases hN with h | h | h | h <;> omega
  have hB : 1 < B := by rw [B_eq]; norm_num
  have := (Nat.pow_lt_pow_iff_right hB).mp hlt
  omega

/-- the size field of the matrix on success is tight (the C's ASSERT in mpn_hgcd_matrix_mul) -/
def HgNorm (hg : Nat → Nat → Nat → HM → StepRes) (R : Nat) : Prop :=
  ∀ n a b, n < R → HPre n a b (matInit n) → (hg n a b (matInit n)).ret ≠ 0 → (hg n a b (matInit n)).M.NormD

/-- mpn_hgcd at or below HGCD_THRESHOLD limbs (no recursion, no mpn_hgcd_matrix_mul): the size field is tight -/
theorem hgcd_norm_base (thr : Thr) (ns : Nat → Nat) (n a b : Nat) (hle : n ≤ thr.hgcd) (hpre : HPre n a b (matInit n)) :
    (hgcd thr ns n a b (matInit n)).M.NormD := by
  show (hgcdBody thr (fns thr ns (2 * n + 1)) n a b (matInit n)).M.NormD
  unfold hgcdBody
  try simp only
  by_cases h2 : n ≤ n / 2 + 1
  · rw [if_pos h2]; exact matInit_norm n
  · rw [if_neg h2, if_neg (by omega)]
    obtain ⟨hid, hMok, ha, hb, ht⟩ := hpre
    have hacc0 : Acc (n / 2 + 1) a b (matInit n).alloc n a b (matInit n) false :=
      acc_mk _ _ _ _ _ _ _ _ _ (by rw [hid]; exact mrel_id a b) hMok rfl ha hb ht (by omega) (fun hc => absurd hc (by simp))
    exact hgcdFin_norm (n / 2 + 1) a b _ n a b (matInit n) false (by omega) hacc0 (matInit_norm n)

end Mpir.Hgcd
