/- mpn_mullow_n (Mpir/Model/MulLow.lean): the split point is in range and the divide-and-conquer step gives the low
   half of the product. -/
import Mpir.Model.MulLow
import Mathlib.Tactic.Ring
import Mathlib.Tactic.Linarith
namespace Mpir.MulLow
open Mpir

/-- mullow_n.c:61-69: for n ≥ 2 the split point satisfies the C's ASSERT (n / 2 <= m), ASSERT (m <= n) and, more
    precisely, n ≤ 2m and 1 ≤ n − m < n (both recursive calls get a positive, smaller size) -/
theorem splitAt_spec (n : Nat) (hn : 2 ≤ n) : n ≤ 2 * splitAt n ∧ splitAt n < n ∧ 1 ≤ splitAt n := by
  unfold splitAt
  simp only []
  split_ifs <;> omega

/-- (a + t·b) mod (t·s) = a mod t + t·((a / t + b) mod s) -/
theorem mod_mul_split (a b t s : Nat) (ht : 0 < t) : (a + t * b) % (t * s) = a % t + t * ((a / t + b) % s) := by
  rw [Nat.mod_mul, Nat.add_mul_mod_self_left, Nat.add_mul_div_left _ _ ht]

/-- the divide-and-conquer step on values: t = B^m, s = B^(n−m), s ∣ t -/
theorem mullow_step (x y t s q : Nat) (ht : 0 < t) (hts : t = s * q) :
    (x % t * (y % t)) % t +
        t * ((((x % t * (y % t)) / t % s + (x % s * (y / t)) % s) % s + (x / t * (y % s)) % s) % s)
      = x * y % (t * s) := by
  have hsd : s ∣ t := ⟨q, hts⟩
  set r0 := x % t * (y % t) with hr0
  -- the middle window modulo s
  have hP : (x % s * (y / t)) % s = (x % t * (y / t)) % s := by
    rw [Nat.mul_mod (x % s), Nat.mul_mod (x % t), Nat.mod_mod, Nat.mod_mod_of_dvd _ hsd]
  have hQ : (x / t * (y % s)) % s = (x / t * (y % t)) % s := by
    rw [Nat.mul_mod _ (y % s), Nat.mul_mod _ (y % t), Nat.mod_mod, Nat.mod_mod_of_dvd _ hsd]
  have hmid : ((r0 / t % s + (x % s * (y / t)) % s) % s + (x / t * (y % s)) % s) % s =
      (r0 / t + (x % t * (y / t) + x / t * (y % t))) % s := by
    rw [hP, hQ, ← Nat.add_mod (r0 / t) (x % t * (y / t)), ← Nat.add_mod (r0 / t + x % t * (y / t)) (x / t * (y % t)),
      Nat.add_assoc]
  rw [hmid, ← mod_mul_split _ _ t s ht]
  -- the product
  have hx : x = x % t + t * (x / t) := (Nat.mod_add_div x t).symm
  have hy : y = y % t + t * (y / t) := (Nat.mod_add_div y t).symm
  have hxy : x * y = r0 + t * (x % t * (y / t) + x / t * (y % t)) + t * s * (q * (x / t * (y / t))) := by
    conv_lhs => rw [hx, hy]
    rw [hr0]
    have : t * t = t * s * q := by rw [Nat.mul_assoc, ← hts]
    generalize x % t = xl; generalize x / t = xh; generalize y % t = yl; generalize y / t = yh
    calc (xl + t * xh) * (yl + t * yh) = xl * yl + t * (xl * yh + xh * yl) + t * t * (xh * yh) := by ring
      _ = xl * yl + t * (xl * yh + xh * yl) + t * s * q * (xh * yh) := by rw [this]
      _ = xl * yl + t * (xl * yh + xh * yl) + t * s * (q * (xh * yh)) := by ring
  rw [hxy, Nat.add_mul_mod_self_left]

theorem B_pow_pos (k : Nat) : 0 < B ^ k := Nat.pow_pos (by unfold B; norm_num)

/-- mpn_mullow_n returns the low n limbs of the product, for every n ≥ 1 (strong induction; both recursive calls
    modelled), provided the divide-and-conquer branch is never entered with n = 1 -/
theorem mullow_n_eq (T0 T1 T2 : Nat) (hT : 2 ≤ T0 ∨ 2 ≤ T1) : ∀ (n : Nat), 1 ≤ n → ∀ x y,
    mullow_n T0 T1 T2 x y n = some (x * y % B ^ n) := by
  intro n
  induction n using Nat.strong_induction_on with
  | _ n ih =>
    intro hn x y
    rw [mullow_n]
    have hn0 : ¬ n = 0 := by omega
    simp only [hn0, dite_false]
    by_cases h0 : n < T0
    · simp only [h0, if_true]
    · by_cases h1 : n < T1
      · simp only [h0, h1, if_false, if_true]
      · by_cases h2 : n > T2
        · simp only [h0, h1, h2, if_false, if_true]
        · have hn2 : 2 ≤ n := by omega
          obtain ⟨s1, s2, s3⟩ := splitAt_spec n hn2
          have hlt : n - splitAt n < n := by omega
          have hpos : 1 ≤ n - splitAt n := by omega
          simp only [h0, h1, h2, if_false, hlt, dite_true, ih _ hlt hpos]
          generalize splitAt n = m at *
          have hts : B ^ m = B ^ (n - m) * B ^ (2 * m - n) := by rw [← pow_add]; congr 1; omega
          have hn' : B ^ n = B ^ m * B ^ (n - m) := by rw [← pow_add]; congr 1; omega
          -- the recursive results are reduced modulo s: drop the inner reductions of the operands
          rw [hn']
          exact congrArg some (mullow_step x y (B ^ m) (B ^ (n - m)) (B ^ (2 * m - n)) (B_pow_pos m) hts)

end Mpir.MulLow
