/- Refinement proofs for the size-aware models of mpz/and.c (Mpir/Model/AllocSafeMpz2.lean): every sign case
   refines the C10 sign-magnitude model (Mpir/Model/Bits.lean) with `ok = true`. -/
import MpirProofs.Lemmas.AllocSafeCore2
import MpirProofs.Lemmas.Bits
namespace Mpir.AllocSafe
open Mpir
open Mpir.Mpz (sgn Norm natAbs_sgn)

theorem reptr_eq' (s : St) (res n x : Nat) (old : Ptr) (h : old = s.PTR x) :
    reptr true (decide (s.ALLOC res < n)) (MPZ_REALLOC s res n) x old = (MPZ_REALLOC s res n).PTR x := by
  subst h; exact reptr_eq s res n x

theorem scanTop_le (l : List Nat) : Bits.scanTop l ≤ l.length := by
  rw [Bits.scanTop_eq]; exact Mpz.normalize_length_le l

/-- the object a sign-magnitude result stands for, in a block of `a` limbs -/
def ofZ (a : Nat) (z : Bits.Z) : Mpz.Mpz := ⟨a, sgn z.neg z.mag.length, z.mag⟩

/-- the sign-magnitude value of an object -/
def zOf (m : Mpz.Mpz) : Bits.Z := ⟨decide (m.size < 0), m.d⟩

/-! ## mpz_and -/

theorem and_pp_refines (s : St) (res op1 op2 : Nat) (hs : s.ok = true)
    (hw : OWF (s.h res)) (hu : OWF (s.h op1)) (hv : OWF (s.h op2)) :
    Refines s (and_pp true s res op1 op2 (s.h op1).size.natAbs (s.h op2).size.natAbs) res
      (ofZ (Mpz.grow (view (s.h res)) (Bits.andPP (view (s.h op1)).d (view (s.h op2)).d).mag.length).alloc
        (Bits.andPP (view (s.h op1)).d (view (s.h op2)).d)) := by
  have hA := view_d_length hu
  have hB := view_d_length hv
  have LA := view_limbs hu
  have LB := view_limbs hv
  generalize hAd : (view (s.h op1)).d = A at *
  generalize hBd : (view (s.h op2)).d = Bv at *
  have Da : Den s (.ptr (s.PTR op1)) A := hAd ▸ Den.of_owf hu
  have Db : Den s (.ptr (s.PTR op2)) Bv := hBd ▸ Den.of_owf hv
  have hz : List.zipWith (· &&& ·) (A.take (min (s.h op1).size.natAbs (s.h op2).size.natAbs))
      (Bv.take (min (s.h op1).size.natAbs (s.h op2).size.natAbs)) = Bits.and_n A Bv :=
    zipWith_take_full _ _ _ _ (by omega)
  have hscan := logop_scan_spec (· &&& ·) s _ _ A Bv (min (s.h op1).size.natAbs (s.h op2).size.natAbs) Da Db
    (by omega) (by omega)
  rw [hz] at hscan
  have hrsle : Bits.scanTop (Bits.and_n A Bv) ≤ min A.length Bv.length := by
    have := scanTop_le (Bits.and_n A Bv); simpa [Bits.and_n] using this
  unfold and_pp Bits.andPP ofZ
  simp only [hscan, realloc_if]
  generalize hrs : Bits.scanTop (Bits.and_n A Bv) = rs at *
  rw [reptr_eq' (s.chk true) res rs op1 (s.PTR op1) rfl, reptr_eq' (s.chk true) res rs op2 (s.PTR op2) rfl,
    reptr_eq' (s.chk true) res rs res (s.PTR res) rfl]
  have G := MPZ_REALLOC_grown (s.chk true) res rs hw
  generalize hs1 : MPZ_REALLOC (s.chk true) res rs = s1 at *
  have hok1 : s1.ok = true := by rw [G.ok]; simpa using hs
  have hlen : (Bits.and_n (A.take rs) (Bv.take rs)).length = rs := by simp [Bits.and_n]; omega
  have halloc : (Mpz.grow (view (s.h res)) rs).alloc = (s1.h res).buf.alloc := G.alloc.symm
  rw [hlen, halloc]
  refine Refines.of_chk (Refines.of_grown G ?_)
  have W0 := (Wrote.refl s1 res 0 hok1 (G.bwf res hw.1) (Nat.zero_le _)).setSize (rs : Int)
  by_cases h0 : rs = 0
  · subst h0
    have R := W0.refines 0 (by simp) (by simp)
    simpa [Bits.and_n, sgn] using R
  · have h0' : (rs != 0) = true := by simpa using h0
    simp only [h0', if_true]
    have Da1 : Den (s1.setSize res rs) (.ptr (s1.PTR op1)) A := (hAd ▸ Den.of_grown G hu).setSize _ _
    have Db1 : Den (s1.setSize res rs) (.ptr (s1.PTR op2)) Bv := (hBd ▸ Den.of_grown G hv).setSize _ _
    have W1 := W0.logop (· &&& ·) (fun a b ha _ => and_lt ha) _ _ A Bv rs Da1 Db1 (by omega) (by omega) LA LB G.room
    have R := W1.refines rs (by simp [logop_n]) (by simp; omega)
    simp only [List.take_zero, List.drop_nil, List.append_nil, Int.natAbs_natCast] at R
    rw [List.take_of_length_le (by simp)] at R
    simpa [Bits.and_n, sgn] using R

theorem and_nn_refines (s : St) (res op1 op2 : Nat) (hs : s.ok = true)
    (hw : OWF (s.h res)) (hu : OWF (s.h op1)) (hv : OWF (s.h op2))
    (h1 : (s.h op1).size ≠ 0) (h2 : (s.h op2).size ≠ 0) :
    Refines s (and_nn 1 s res op1 op2 (s.h op1).size.natAbs (s.h op2).size.natAbs) res
      (ofZ (Mpz.grow (view (s.h res)) (1 + max (s.h op1).size.natAbs (s.h op2).size.natAbs)).alloc
        (Bits.andNN (view (s.h op1)).d (view (s.h op2)).d)) := by
  have hA := view_d_length hu
  have hB := view_d_length hv
  have LA := view_limbs hu
  have LB := view_limbs hv
  generalize hAd : (view (s.h op1)).d = A at *
  generalize hBd : (view (s.h op2)).d = Bv at *
  generalize hn1 : (s.h op1).size.natAbs = n1 at *
  generalize hn2 : (s.h op2).size.natAbs = n2 at *
  have hn1p : 1 ≤ n1 := by omega
  have hn2p : 1 ≤ n2 := by omega
  have Da : Den s (.ptr (s.PTR op1)) A := hAd ▸ Den.of_owf hu
  have Db : Den s (.ptr (s.PTR op2)) Bv := hBd ▸ Den.of_owf hv
  obtain ⟨t1s, _, t1D⟩ := tmp_sub_1_spec s (s.PTR op1) A n1 Da (by omega) LA
  obtain ⟨t2s, _, t2D⟩ := tmp_sub_1_spec (s.chk true) (s.PTR op2) Bv n2 (Db.chk _) (by omega) LB
  rw [List.take_of_length_le (by omega)] at t1D t2D
  have hO1 : (Bits.subLimb A 1).1.length = n1 := by rw [subLimb_len]; exact hA
  have hO2 : (Bits.subLimb Bv 1).1.length = n2 := by rw [subLimb_len]; exact hB
  have LO1 := subLimb_limbs A 1 LA
  have LO2 := subLimb_limbs Bv 1 LB
  unfold and_nn Bits.andNN ofZ
  dsimp only
  rw [show tmp_sub_1 s (s.PTR op1) n1 = ((tmp_sub_1 s (s.PTR op1) n1).1, (tmp_sub_1 s (s.PTR op1) n1).2) from rfl]
  simp only [t1s]
  rw [show tmp_sub_1 (s.chk true) (s.PTR op2) n2 = ((tmp_sub_1 (s.chk true) (s.PTR op2) n2).1, (tmp_sub_1 (s.chk true) (s.PTR op2) n2).2) from rfl]
  simp only [t2s, realloc_if]
  generalize (tmp_sub_1 s (s.PTR op1) n1).1 = opx1 at *
  generalize (tmp_sub_1 (s.chk true) (s.PTR op2) n2).1 = opx2 at *
  generalize hO1d : (Bits.subLimb A 1).1 = O1 at *
  generalize hO2d : (Bits.subLimb Bv 1).1 = O2 at *
  rw [reptr_eq' ((s.chk true).chk true) res (1 + max n1 n2) res (s.PTR res) rfl]
  have G := MPZ_REALLOC_grown ((s.chk true).chk true) res (1 + max n1 n2) hw
  generalize hs1 : MPZ_REALLOC ((s.chk true).chk true) res (1 + max n1 n2) = s1 at *
  have hok1 : s1.ok = true := by rw [G.ok]; simpa using hs
  have hbw := G.bwf res hw.1
  have hroom := G.room
  have halloc : (Mpz.grow (view (s.h res)) (1 + max n1 n2)).alloc = (s1.h res).buf.alloc := G.alloc.symm
  rw [halloc]
  refine Refines.of_chk (Refines.of_chk (Refines.of_grown G ?_))
  -- the two symmetric branches
  have key : ∀ (R : List Nat) (s2 : St), Wrote s1 s2 res R → R ≠ [] → R.length ≤ max n1 n2 →
      Refines s1 ((addOneTail s2 (s1.PTR res) R.length).2.setSize res (sgn true (addOneTail s2 (s1.PTR res) R.length).1)) res
        ⟨(s1.h res).buf.alloc, sgn true (Bits.addOneGrow R).length, Bits.addOneGrow R⟩ := by
    intro R s2 W hne hlen
    obtain ⟨e1, W3⟩ := W.addOne hne (by omega)
    have R4 := (W3.setSize (sgn true (Bits.addOneGrow R).length)).refines (sgn true (Bits.addOneGrow R).length) (by simp) (by rw [natAbs_sgn])
    rw [natAbs_sgn, List.take_length] at R4
    rw [e1]; exact R4
  by_cases hge : n1 ≥ n2
  · simp only [hge, if_true, ge_iff_le]
    have hge' : A.length ≥ Bv.length := by omega
    simp only [hge', if_true, ge_iff_le]
    have W2 := Wrote.cat hok1 hbw (· ||| ·) (fun a b ha hb => or_lt ha hb) (.tmp opx1 0) (.tmp opx2 0) (.tmp opx1 0)
      O1 O2 O1 n2 (t1D s1) (t2D s1) (t1D s1) (by omega) (by omega) (by omega) LO1 LO2 LO1 (by omega)
    rw [hO1, zipWith_take_full _ _ _ _ (by omega)] at W2
    have hl : (List.zipWith (fun x1 x2 => x1 ||| x2) O1 O2 ++ List.drop n2 O1).length = n1 := by simp; omega
    have K := key _ _ W2 (by intro h; rw [h] at hl; simp at hl; omega) (by rw [hl]; omega)
    rw [hl] at K
    rw [hB]
    exact K
  · simp only [hge, if_false, ge_iff_le]
    have hge' : ¬ A.length ≥ Bv.length := by omega
    simp only [hge', if_false, ge_iff_le]
    have W2 := Wrote.cat hok1 hbw (· ||| ·) (fun a b ha hb => or_lt ha hb) (.tmp opx1 0) (.tmp opx2 0) (.tmp opx2 0)
      O1 O2 O2 n1 (t1D s1) (t2D s1) (t2D s1) (by omega) (by omega) (by omega) LO1 LO2 LO2 (by omega)
    rw [hO2, zipWith_take_full _ _ _ _ (by omega)] at W2
    have hl : (List.zipWith (fun x1 x2 => x1 ||| x2) O1 O2 ++ List.drop n1 O2).length = n2 := by simp; omega
    have K := key _ _ W2 (by intro h; rw [h] at hl; simp at hl; omega) (by rw [hl]; omega)
    rw [hl] at K
    rw [hA]
    exact K

theorem andn_n_eq (u v : List Nat) : Bits.andn_n u v = List.zipWith andn u v := rfl

theorem and_pn_refines (s : St) (res op1 op2 : Nat) (hs : s.ok = true)
    (hw : OWF (s.h res)) (hu : OWF (s.h op1)) (hv : OWF (s.h op2)) :
    Refines s (and_pn true s res op1 op2 (s.h op1).size.natAbs (s.h op2).size.natAbs) res
      (ofZ (Mpz.grow (view (s.h res)) (Bits.andPN (view (s.h op1)).d (view (s.h op2)).d).mag.length).alloc
        (Bits.andPN (view (s.h op1)).d (view (s.h op2)).d)) := by
  have hA := view_d_length hu
  have hB := view_d_length hv
  have LA := view_limbs hu
  have LB := view_limbs hv
  generalize hAd : (view (s.h op1)).d = A at *
  generalize hBd : (view (s.h op2)).d = Bv at *
  generalize hn1 : (s.h op1).size.natAbs = n1 at *
  generalize hn2 : (s.h op2).size.natAbs = n2 at *
  have Da : Den s (.ptr (s.PTR op1)) A := hAd ▸ Den.of_owf hu
  have Db : Den s (.ptr (s.PTR op2)) Bv := hBd ▸ Den.of_owf hv
  obtain ⟨t2s, _, t2D⟩ := tmp_sub_1_spec s (s.PTR op2) Bv n2 Db (by omega) LB
  rw [List.take_of_length_le (by omega)] at t2D
  have hO2 : (Bits.subLimb Bv 1).1.length = n2 := by rw [subLimb_len]; exact hB
  have LO2 := subLimb_limbs Bv 1 LB
  unfold and_pn Bits.andPN ofZ
  dsimp only
  rw [show tmp_sub_1 s (s.PTR op2) n2 = ((tmp_sub_1 s (s.PTR op2) n2).1, (tmp_sub_1 s (s.PTR op2) n2).2) from rfl]
  simp only [t2s]
  generalize (tmp_sub_1 s (s.PTR op2) n2).1 = opx at *
  generalize hO2d : (Bits.subLimb Bv 1).1 = O2 at *
  by_cases hgt : n1 > n2
  · have hgt' : A.length > Bv.length := by omega
    simp only [hgt, hgt', if_true, realloc_if]
    rw [reptr_eq' (s.chk true) res n1 res (s.PTR res) rfl, reptr_eq' (s.chk true) res n1 op1 (s.PTR op1) rfl]
    have hmag : (Bits.andn_n A O2 ++ List.drop Bv.length A).length = n1 := by simp [Bits.andn_n]; omega
    rw [hmag]
    have G := MPZ_REALLOC_grown (s.chk true) res n1 hw
    generalize hs1 : MPZ_REALLOC (s.chk true) res n1 = s1 at *
    have hok1 : s1.ok = true := by rw [G.ok]; simpa using hs
    have halloc : (Mpz.grow (view (s.h res)) n1).alloc = (s1.h res).buf.alloc := G.alloc.symm
    rw [halloc]
    refine Refines.of_chk (Refines.of_grown G ?_)
    have Da1 : Den s1 (.ptr (s1.PTR op1)) A := hAd ▸ Den.of_grown G hu
    have W2 := Wrote.cat hok1 (G.bwf res hw.1) andn (fun a b ha _ => andn_lt ha) (.ptr (s1.PTR op1)) (.tmp opx 0)
      (.ptr (s1.PTR op1)) A O2 A n2 Da1 (t2D s1) Da1 (by omega) (by omega) (by omega) LA LO2 LA (by rw [hA]; exact G.room)
    rw [hA, zipWith_take_full _ _ _ _ (by omega)] at W2
    have R := (W2.setSize (n1 : Int)).refines (n1 : Int) (by simp) (by simp; omega)
    rw [Int.natAbs_natCast, List.take_of_length_le (by simp; omega)] at R
    rw [andn_n_eq, hB]
    simpa [Src.add, sgn] using R
  · have hgt' : ¬ A.length > Bv.length := by omega
    simp only [hgt, hgt', if_false]
    have hz : List.zipWith andn (A.take n1) (O2.take n1) = Bits.andn_n A O2 := zipWith_take_full _ _ _ _ (by omega)
    have hscan := logop_scan_spec andn (s.chk true) _ _ A O2 n1 (Da.chk _) (t2D _) (by omega) (by omega)
    rw [hz] at hscan
    have hrsle : Bits.scanTop (Bits.andn_n A O2) ≤ min A.length O2.length := by
      have := scanTop_le (Bits.andn_n A O2); simpa [Bits.andn_n] using this
    simp only [hscan, realloc_if]
    generalize hrs : Bits.scanTop (Bits.andn_n A O2) = rs at *
    rw [reptr_eq' ((s.chk true).chk true) res rs res (s.PTR res) rfl,
      reptr_eq' ((s.chk true).chk true) res rs op1 (s.PTR op1) rfl]
    have G := MPZ_REALLOC_grown ((s.chk true).chk true) res rs hw
    generalize hs1 : MPZ_REALLOC ((s.chk true).chk true) res rs = s1 at *
    have hok1 : s1.ok = true := by rw [G.ok]; simpa using hs
    have hlen : (Bits.andn_n (A.take rs) (O2.take rs)).length = rs := by simp [Bits.andn_n]; omega
    have halloc : (Mpz.grow (view (s.h res)) rs).alloc = (s1.h res).buf.alloc := G.alloc.symm
    rw [hlen, halloc]
    refine Refines.of_chk (Refines.of_chk (Refines.of_grown G ?_))
    have W0 := Wrote.refl s1 res 0 hok1 (G.bwf res hw.1) (Nat.zero_le _)
    have Da1 : Den s1 (.ptr (s1.PTR op1)) A := hAd ▸ Den.of_grown G hu
    have W1 := W0.logop andn (fun a b ha _ => andn_lt ha) _ _ A O2 rs Da1 (t2D s1) (by omega) (by omega) LA LO2 G.room
    have R := (W1.setSize (rs : Int)).refines (rs : Int) (by simp) (by simp; omega)
    simp only [List.take_zero, List.drop_nil, List.append_nil, Int.natAbs_natCast] at R
    rw [List.take_of_length_le (by simp)] at R
    rw [andn_n_eq]
    simpa [sgn] using R

/-- value-level result of mpz_and with the allocation: the C10 sign-magnitude result in the block the C leaves -/
def Spec.and (w u v : Mpz.Mpz) : Mpz.Mpz :=
  ofZ (Mpz.grow w (if u.size < 0 ∧ v.size < 0 then 1 + max u.size.natAbs v.size.natAbs
    else (Bits.mpz_and (zOf u) (zOf v)).mag.length)).alloc (Bits.mpz_and (zOf u) (zOf v))

theorem and_refines (s : St) (w u v : Nat) (hs : s.ok = true)
    (hw : OWF (s.h w)) (hu : OWF (s.h u)) (hv : OWF (s.h v)) :
    Refines s (mpz_and s w u v) w (Spec.and (view (s.h w)) (view (s.h u)) (view (s.h v))) := by
  unfold mpz_and and_ Spec.and Bits.mpz_and zOf
  have e1 : (view (s.h u)).size = (s.h u).size := rfl
  have e2 : (view (s.h v)).size = (s.h v).size := rfl
  simp only [St.SIZ, e1, e2]
  by_cases h1 : (s.h u).size ≥ 0 <;> by_cases h2 : (s.h v).size ≥ 0
  · have h1' : ¬ (s.h u).size < 0 := by omega
    have h2' : ¬ (s.h v).size < 0 := by omega
    simp only [h1, h2, h1', h2', if_true, false_and, if_false, decide_false, Bool.not_false]
    exact and_pp_refines s w u v hs hw hu hv
  · have h1' : ¬ (s.h u).size < 0 := by omega
    have h2' : (s.h v).size < 0 := by omega
    simp only [h1, h2, h1', h2', if_true, false_and, if_false, decide_false, decide_true, Bool.not_false, Bool.not_true,
      Bool.false_eq_true]
    exact and_pn_refines s w u v hs hw hu hv
  · have h1' : (s.h u).size < 0 := by omega
    have h2' : ¬ (s.h v).size < 0 := by omega
    simp only [h1, h2, h1', h2', if_true, and_false, if_false, decide_false, decide_true, Bool.not_false, Bool.not_true,
      Bool.false_eq_true]
    exact and_pn_refines s w v u hs hw hv hu
  · have h1' : (s.h u).size < 0 := by omega
    have h2' : (s.h v).size < 0 := by omega
    simp only [h1, h2, h1', h2', if_true, and_self, if_false, decide_true, Bool.not_true, Bool.false_eq_true]
    exact and_nn_refines s w u v hs hw hu hv (by omega) (by omega)

theorem zOf_WF {u : Mpz.Mpz} (hu : Mpz.WF u) : (zOf u).WF := by
  obtain ⟨_, _, hl, hn⟩ := (Mpz.WF_iff u).mp hu
  refine ⟨hn.1, hn.2, ?_⟩
  intro hneg h0
  simp only [zOf, decide_eq_true_eq] at hneg h0
  rw [h0] at hl; simp at hl; omega

theorem zOf_toInt (u : Mpz.Mpz) : (zOf u).toInt = Mpz.toInt u := by
  unfold zOf Bits.Z.toInt Mpz.toInt
  by_cases h : u.size < 0 <;> simp [h]

theorem ofZ_spec (a : Nat) (z : Bits.Z) (hz : z.WF) (ha : z.mag.length ≤ a) (ha1 : 1 ≤ a) :
    Mpz.WF (ofZ a z) ∧ Mpz.toInt (ofZ a z) = z.toInt := by
  obtain ⟨wf, ti⟩ := Mpz.mk_spec a z.mag.length z.neg z.mag rfl ⟨hz.1, hz.2.1⟩ ha ha1
  refine ⟨wf, ?_⟩
  unfold ofZ; rw [ti]; unfold Bits.Z.toInt
  cases z.neg <;> simp

theorem and_need_le (u v : Mpz.Mpz) (hu : Mpz.WF u) (hv : Mpz.WF v) (h1 : u.size < 0) (h2 : v.size < 0) :
    (Bits.mpz_and (zOf u) (zOf v)).mag.length ≤ 1 + max u.size.natAbs v.size.natAbs := by
  obtain ⟨_, _, hl1, _⟩ := (Mpz.WF_iff u).mp hu
  obtain ⟨_, _, hl2, _⟩ := (Mpz.WF_iff v).mp hv
  unfold Bits.mpz_and zOf Bits.andNN
  simp only [h1, h2, decide_true, Bool.not_true, Bool.false_eq_true, if_false, if_true]
  refine Nat.le_trans (addOneGrow_len_le _) ?_
  split <;> simp [Bits.ior_n, subLimb_len] <;> omega

end Mpir.AllocSafe

