/- Helper lemmas for the mpq model (C12 / C11 mpq part). -/
import Mpir.Model.Mpq
import MpirProofs.Lemmas.Base
import Mathlib.Data.Int.GCD
import Mathlib.RingTheory.Coprime.Lemmas
import Mathlib.Data.Rat.Defs
import Mathlib.Algebra.Order.Field.Rat
import Mathlib.Tactic.FieldSimp
import Mathlib.Tactic.Ring
import Mathlib.Tactic.Linarith
import Mathlib.Tactic.LinearCombination
import Mathlib.Tactic.Positivity
namespace Mpir.Mpq

/-- the rational number an mpq variable stands for -/
def Q.toRat (q : Q) : ℚ := (q.num : ℚ) / (q.den : ℚ)

/-- canonical form: positive denominator, numerator and denominator coprime (so zero is 0/1) -/
def Canonical (q : Q) : Prop := 0 < q.den ∧ Int.gcd q.num q.den = 1

instance : DecidablePred Canonical := fun q => by unfold Canonical; infer_instance

/-- store of a whole variable -/
def upd (h : Heap) (i : Nat) (q : Q) : Heap := fun j => if j = i then q else h j

@[simp] theorem upd_self (h : Heap) (i : Nat) (q : Q) : upd h i q i = q := by simp [upd]
@[simp] theorem upd_upd (h : Heap) (i : Nat) (p q : Q) : upd (upd h i p) i q = upd h i q := by
  funext j; unfold upd; split <;> rfl
theorem upd_other (h : Heap) (i j : Nat) (q : Q) (hj : j ≠ i) : upd h i q j = h j := by simp [upd, hj]

@[simp] theorem setNum_den (h : Heap) (i j : Nat) (v : Int) : (setNum h i v j).den = (h j).den := by
  unfold setNum; split <;> rfl
@[simp] theorem setDen_num (h : Heap) (i j : Nat) (v : Int) : (setDen h i v j).num = (h j).num := by
  unfold setDen; split <;> rfl
@[simp] theorem setNum_num_self (h : Heap) (i : Nat) (v : Int) : (setNum h i v i).num = v := by
  simp [setNum]
@[simp] theorem setDen_den_self (h : Heap) (i : Nat) (v : Int) : (setDen h i v i).den = v := by
  simp [setDen]
theorem setNum_num (h : Heap) (i j : Nat) (v : Int) :
    (setNum h i v j).num = if j = i then v else (h j).num := by
  unfold setNum; split <;> rfl
theorem setDen_den (h : Heap) (i j : Nat) (v : Int) :
    (setDen h i v j).den = if j = i then v else (h j).den := by
  unfold setDen; split <;> rfl

theorem setDen_setNum (h : Heap) (i : Nat) (x y : Int) : setDen (setNum h i x) i y = upd h i ⟨x, y⟩ := by
  funext j; unfold setDen setNum upd; split <;> simp_all
theorem setNum_setDen (h : Heap) (i : Nat) (x y : Int) : setNum (setDen h i y) i x = upd h i ⟨x, y⟩ := by
  funext j; unfold setDen setNum upd; split <;> simp_all
theorem setNum_upd (h : Heap) (i : Nat) (q : Q) (x : Int) : setNum (upd h i q) i x = upd h i ⟨x, q.den⟩ := by
  funext j; unfold setNum upd; split <;> simp_all
theorem setDen_upd (h : Heap) (i : Nat) (q : Q) (y : Int) : setDen (upd h i q) i y = upd h i ⟨q.num, y⟩ := by
  funext j; unfold setDen upd; split <;> simp_all


/-! ### integer gcd / coprimality toolbox -/

theorem canonical_iff (q : Q) : Canonical q ↔ 0 < q.den ∧ IsCoprime q.num q.den := by
  unfold Canonical; rw [Int.isCoprime_iff_gcd_eq_one]

theorem zgcd_nonneg (a b : ℤ) : 0 ≤ zgcd a b := by unfold zgcd; positivity

theorem zgcd_pos_of_right {a b : ℤ} (hb : b ≠ 0) : 0 < zgcd a b := by
  unfold zgcd; exact_mod_cast Int.gcd_pos_of_ne_zero_right a hb

theorem zgcd_pos_of_left {a b : ℤ} (ha : a ≠ 0) : 0 < zgcd a b := by
  unfold zgcd; exact_mod_cast Int.gcd_pos_of_ne_zero_left b ha

/-- decomposition along a positive gcd: the two cofactors are coprime and are what `divexact` returns -/
theorem zgcd_decomp {a b : ℤ} (h : 0 < zgcd a b) :
    ∃ x y, a = x * zgcd a b ∧ b = y * zgcd a b ∧ IsCoprime x y ∧
      divexact a (zgcd a b) = x ∧ divexact b (zgcd a b) = y := by
  unfold zgcd divexact at *
  have hp : 0 < Int.gcd a b := by exact_mod_cast h
  refine ⟨a / (Int.gcd a b : ℤ), b / (Int.gcd a b : ℤ), ?_, ?_, ?_, rfl, rfl⟩
  · exact (Int.ediv_mul_cancel (Int.gcd_dvd_left a b)).symm
  · exact (Int.ediv_mul_cancel (Int.gcd_dvd_right a b)).symm
  · exact Int.isCoprime_iff_gcd_eq_one.mpr (Int.gcd_div_gcd_div_gcd hp)

theorem divexact_mul_cancel {x g : ℤ} (hg : g ≠ 0) : divexact (x * g) g = x := by
  unfold divexact; exact Int.mul_ediv_cancel x hg

theorem isCoprime_of_odd {r : ℤ} (h : r % 2 = 1) : IsCoprime (2 : ℤ) r :=
  ⟨-(r / 2), 1, by omega⟩

/-- Henrici / Knuth 4.5.1 addition with the two gcds of mpq/aors.c -/
theorem henrici {n1 d1 n2 d2 : ℤ} (hd1 : 0 < d1) (hd2 : 0 < d2)
    (c1 : IsCoprime n1 d1) (c2 : IsCoprime n2 d2) :
    0 < divexact d2 (zgcd (n1 * divexact d2 (zgcd d1 d2) + n2 * divexact d1 (zgcd d1 d2)) (zgcd d1 d2))
          * divexact d1 (zgcd d1 d2) ∧
    IsCoprime
      (divexact (n1 * divexact d2 (zgcd d1 d2) + n2 * divexact d1 (zgcd d1 d2))
        (zgcd (n1 * divexact d2 (zgcd d1 d2) + n2 * divexact d1 (zgcd d1 d2)) (zgcd d1 d2)))
      (divexact d2 (zgcd (n1 * divexact d2 (zgcd d1 d2) + n2 * divexact d1 (zgcd d1 d2)) (zgcd d1 d2))
          * divexact d1 (zgcd d1 d2)) ∧
    divexact (n1 * divexact d2 (zgcd d1 d2) + n2 * divexact d1 (zgcd d1 d2))
        (zgcd (n1 * divexact d2 (zgcd d1 d2) + n2 * divexact d1 (zgcd d1 d2)) (zgcd d1 d2)) * (d1 * d2)
      = (n1 * d2 + n2 * d1) *
        (divexact d2 (zgcd (n1 * divexact d2 (zgcd d1 d2) + n2 * divexact d1 (zgcd d1 d2)) (zgcd d1 d2))
          * divexact d1 (zgcd d1 d2)) := by
  have hg : 0 < zgcd d1 d2 := zgcd_pos_of_right hd2.ne'
  obtain ⟨a1, a2, e1, e2, ca, q1, q2⟩ := zgcd_decomp hg
  rw [q1, q2]
  generalize zgcd d1 d2 = g at *
  have ha1 : 0 < a1 := by
    rcases lt_trichotomy a1 0 with h | h | h
    · nlinarith
    · subst h; simp at e1; omega
    · exact h
  have ha2 : 0 < a2 := by
    rcases lt_trichotomy a2 0 with h | h | h
    · nlinarith
    · subst h; simp at e2; omega
    · exact h
  have cn1 : IsCoprime n1 a1 := by rw [e1] at c1; exact c1.of_mul_right_left
  have cn2 : IsCoprime n2 a2 := by rw [e2] at c2; exact c2.of_mul_right_left
  have ct1 : IsCoprime (n1 * a2 + n2 * a1) a1 :=
    IsCoprime.add_mul_right_left (IsCoprime.mul_left cn1 ca.symm) n2
  have ct2 : IsCoprime (n1 * a2 + n2 * a1) a2 := by
    rw [add_comm]; exact IsCoprime.add_mul_right_left (IsCoprime.mul_left cn2 ca) n1
  have hv : (n1 * a2 + n2 * a1) * g = n1 * d2 + n2 * d1 := by rw [e1, e2]; ring
  have hg' : 0 < zgcd (n1 * a2 + n2 * a1) g := zgcd_pos_of_right hg.ne'
  obtain ⟨t', g'', et, eg, ct, qt, _⟩ := zgcd_decomp hg'
  rw [qt]
  generalize n1 * a2 + n2 * a1 = t at *
  generalize zgcd t g = g' at *
  have hg'' : 0 < g'' := by
    rcases lt_trichotomy g'' 0 with h | h | h
    · nlinarith
    · subst h; simp at eg; omega
    · exact h
  have hd2' : divexact d2 g' = a2 * g'' := by
    rw [e2, eg, show a2 * (g'' * g') = (a2 * g'') * g' by ring]
    exact divexact_mul_cancel hg'.ne'
  rw [hd2']
  refine ⟨by positivity, ?_, ?_⟩
  · have dt : t' ∣ t := ⟨g', et⟩
    exact IsCoprime.mul_right (IsCoprime.mul_right (ct2.of_isCoprime_of_dvd_left dt) ct)
      (ct1.of_isCoprime_of_dvd_left dt)
  · rw [← hv, et, e1, e2, eg]; ring

/-! ### value of a canonical pair -/

theorem toRat_eq_iff {a b : Q} (ha : a.den ≠ 0) (hb : b.den ≠ 0) :
    a.toRat = b.toRat ↔ a.num * b.den = b.num * a.den := by
  unfold Q.toRat
  have ha' : (a.den : ℚ) ≠ 0 := by exact_mod_cast ha
  have hb' : (b.den : ℚ) ≠ 0 := by exact_mod_cast hb
  rw [div_eq_div_iff ha' hb']
  exact_mod_cast Iff.rfl

/-! ### mpq_aors -/

/-- closed form of `aors` on the values of the two operands (same branches as aors.c) -/
def aorsVal (sub : Bool) (a b : Q) : Q :=
  let f : Int → Int → Int := fun x y => if sub then x - y else x + y
  let gcd := zgcd a.den b.den
  if gcd ≠ 1 then
    let t := f (a.num * divexact b.den gcd) (b.num * divexact a.den gcd)
    let tmp2 := divexact a.den gcd
    let gcd' := zgcd t gcd
    if gcd' = 1 then ⟨t, b.den * tmp2⟩ else ⟨divexact t gcd', divexact b.den gcd' * tmp2⟩
  else ⟨f (a.num * b.den) (b.num * a.den), a.den * b.den⟩

/-- for EVERY choice of ids (every alias pattern) `aors` stores `aorsVal` of the operands' original
    values into `rop` and touches nothing else -/
theorem aors_eq (sub : Bool) (rop op1 op2 : Nat) (h : Heap) :
    aors sub rop op1 op2 h = upd h rop (aorsVal sub (h op1) (h op2)) := by
  unfold aors aorsVal
  simp only [setNum_den, setDen_setNum]
  split_ifs <;> rfl

theorem zgcd_one_right (a : ℤ) : zgcd a 1 = 1 := by unfold zgcd; simp

theorem divexact_one (a : ℤ) : divexact a 1 = a := by unfold divexact; simp

theorem toRat_of_cross {r : Q} {S D : ℤ} (hD : D ≠ 0) (hr : r.den ≠ 0) (h : r.num * D = S * r.den) :
    r.toRat = (S : ℚ) / D := by
  unfold Q.toRat
  have x1 : (D : ℚ) ≠ 0 := by exact_mod_cast hD
  have x2 : (r.den : ℚ) ≠ 0 := by exact_mod_cast hr
  rw [div_eq_div_iff x2 x1]
  exact_mod_cast h

theorem aorsVal_add_spec {a b : Q} (ha : Canonical a) (hb : Canonical b) :
    (aorsVal false a b).toRat = a.toRat + b.toRat ∧ Canonical (aorsVal false a b) := by
  rw [canonical_iff] at ha hb ⊢
  obtain ⟨hd1, c1⟩ := ha; obtain ⟨hd2, c2⟩ := hb
  obtain ⟨hD, hC, hV⟩ := henrici hd1 hd2 c1 c2
  have key : ∀ r : Q, 0 < r.den → IsCoprime r.num r.den →
      r.num * (a.den * b.den) = (a.num * b.den + b.num * a.den) * r.den →
      r.toRat = a.toRat + b.toRat ∧ 0 < r.den ∧ IsCoprime r.num r.den := by
    intro r h1 h2 h3
    refine ⟨?_, h1, h2⟩
    rw [toRat_of_cross (mul_pos hd1 hd2).ne' h1.ne' h3]
    unfold Q.toRat
    have x1 : (a.den : ℚ) ≠ 0 := by exact_mod_cast hd1.ne'
    have x2 : (b.den : ℚ) ≠ 0 := by exact_mod_cast hd2.ne'
    push_cast
    field_simp
  unfold aorsVal
  simp only [Bool.false_eq_true, if_false]
  split_ifs with h1 h2
  · apply key
    · simpa [h2, divexact_one] using hD
    · simpa [h2, divexact_one] using hC
    · simpa [h2, divexact_one] using hV
  · exact key _ hD hC hV
  · have h1 := not_not.mp h1
    apply key
    · simpa [h1, divexact_one, zgcd_one_right, mul_comm] using hD
    · simpa [h1, divexact_one, zgcd_one_right, mul_comm] using hC
    · simp

theorem aorsVal_sub_eq (a b : Q) : aorsVal true a b = aorsVal false a ⟨-b.num, b.den⟩ := by
  unfold aorsVal
  simp only [Bool.false_eq_true, if_false, if_true, neg_mul, sub_eq_add_neg]

theorem aorsVal_sub_spec {a b : Q} (ha : Canonical a) (hb : Canonical b) :
    (aorsVal true a b).toRat = a.toRat - b.toRat ∧ Canonical (aorsVal true a b) := by
  have hb' : Canonical ⟨-b.num, b.den⟩ := by
    rw [canonical_iff] at hb ⊢; exact ⟨hb.1, hb.2.neg_left⟩
  have := aorsVal_add_spec ha hb'
  rw [aorsVal_sub_eq]
  refine ⟨?_, this.2⟩
  rw [this.1]; unfold Q.toRat; push_cast; ring

/-! ### mpq_mul -/

def mulVal (same : Bool) (a b : Q) : Q :=
  if same then ⟨a.num * a.num, a.den * a.den⟩
  else
    let gcd1 := zgcd a.num b.den
    let gcd2 := zgcd b.num a.den
    ⟨divexact a.num gcd1 * divexact b.num gcd2, divexact b.den gcd1 * divexact a.den gcd2⟩

theorem mul_eq (prod op1 op2 : Nat) (h : Heap) :
    mul prod op1 op2 h = upd h prod (mulVal (op1 = op2) (h op1) (h op2)) := by
  unfold mul mulVal
  simp only [setNum_den, setDen_setNum]
  split_ifs <;> simp_all

theorem pos_of_mul_pos_right' {x g : ℤ} (h : 0 < x * g) (hg : 0 < g) : 0 < x := by
  rcases lt_trichotomy x 0 with hx | hx | hx
  · nlinarith
  · subst hx; simp at h
  · exact hx

/-- cross-cancellation of mpq/mul.c: the general path (any two canonical values, also equal ones) -/
theorem mulVal_general_spec {a b : Q} (ha : Canonical a) (hb : Canonical b) :
    (mulVal false a b).toRat = a.toRat * b.toRat ∧ Canonical (mulVal false a b) := by
  rw [canonical_iff] at ha hb ⊢
  obtain ⟨hd1, c1⟩ := ha; obtain ⟨hd2, c2⟩ := hb
  unfold mulVal
  simp only [Bool.false_eq_true, if_false]
  have hg1 : 0 < zgcd a.num b.den := zgcd_pos_of_right hd2.ne'
  have hg2 : 0 < zgcd b.num a.den := zgcd_pos_of_right hd1.ne'
  obtain ⟨x, y, ex, ey, cxy, qx, qy⟩ := zgcd_decomp hg1
  obtain ⟨u, w, eu, ew, cuw, qu, qw⟩ := zgcd_decomp hg2
  rw [qx, qy, qu, qw]
  generalize zgcd a.num b.den = g1 at *
  generalize zgcd b.num a.den = g2 at *
  have hy : 0 < y := pos_of_mul_pos_right' (ey ▸ hd2) hg1
  have hw : 0 < w := pos_of_mul_pos_right' (ew ▸ hd1) hg2
  have cxw : IsCoprime x w :=
    (c1.of_isCoprime_of_dvd_left ⟨g1, ex⟩).of_isCoprime_of_dvd_right ⟨g2, ew⟩
  have cuy : IsCoprime u y :=
    (c2.of_isCoprime_of_dvd_left ⟨g2, eu⟩).of_isCoprime_of_dvd_right ⟨g1, ey⟩
  refine ⟨?_, by positivity, ?_⟩
  · have : (⟨x * u, y * w⟩ : Q).toRat = ((a.num * b.num : ℤ) : ℚ) / ((a.den * b.den : ℤ) : ℚ) := by
      apply toRat_of_cross (mul_pos hd1 hd2).ne' (mul_pos hy hw).ne'
      show x * u * (a.den * b.den) = a.num * b.num * (y * w)
      rw [ex, ey, eu, ew]; ring
    rw [this]; unfold Q.toRat; push_cast
    have x1 : (a.den : ℚ) ≠ 0 := by exact_mod_cast hd1.ne'
    have x2 : (b.den : ℚ) ≠ 0 := by exact_mod_cast hd2.ne'
    field_simp
  · exact IsCoprime.mul_left (IsCoprime.mul_right cxy cxw) (IsCoprime.mul_right cuy cuw)

/-- the squaring shortcut mul.c:33-39 -/
theorem mulVal_same_spec {a : Q} (ha : Canonical a) :
    (mulVal true a a).toRat = a.toRat * a.toRat ∧ Canonical (mulVal true a a) := by
  rw [canonical_iff] at ha ⊢
  obtain ⟨hd1, c1⟩ := ha
  unfold mulVal; simp only [if_true]
  refine ⟨?_, by positivity, IsCoprime.mul_left (IsCoprime.mul_right c1 c1) (IsCoprime.mul_right c1 c1)⟩
  unfold Q.toRat; push_cast
  have x1 : (a.den : ℚ) ≠ 0 := by exact_mod_cast hd1.ne'
  field_simp

/-! ### mpq_div -/

def divVal (a b : Q) : Q :=
  let gcd1 := zgcd a.num b.num
  let gcd2 := zgcd b.den a.den
  let numtmp := divexact a.num gcd1 * divexact b.den gcd2
  let den := divexact b.num gcd1 * divexact a.den gcd2
  if den < 0 then ⟨-numtmp, -den⟩ else ⟨numtmp, den⟩

theorem div_eq (quot op1 op2 : Nat) (h : Heap) :
    div quot op1 op2 h = if (h op2).num = 0 then none else some (upd h quot (divVal (h op1) (h op2))) := by
  unfold div divVal
  simp only [setNum_setDen, upd_self, setDen_upd, setNum_upd]
  split_ifs <;> rfl

theorem divVal_spec {a b : Q} (ha : Canonical a) (hb : Canonical b) (hb0 : b.num ≠ 0) :
    (divVal a b).toRat = a.toRat / b.toRat ∧ Canonical (divVal a b) := by
  rw [canonical_iff] at ha hb ⊢
  obtain ⟨hd1, c1⟩ := ha; obtain ⟨hd2, c2⟩ := hb
  have hg1 : 0 < zgcd a.num b.num := zgcd_pos_of_right hb0
  have hg2 : 0 < zgcd b.den a.den := zgcd_pos_of_right hd1.ne'
  obtain ⟨x, u, ex, eu, cxu, qx, qu⟩ := zgcd_decomp hg1
  obtain ⟨y, w, ey, ew, cyw, qy, qw⟩ := zgcd_decomp hg2
  unfold divVal
  simp only []
  rw [qx, qy, qu, qw]
  generalize zgcd a.num b.num = g1 at *
  generalize zgcd b.den a.den = g2 at *
  have hy : 0 < y := pos_of_mul_pos_right' (ey ▸ hd2) hg2
  have hw : 0 < w := pos_of_mul_pos_right' (ew ▸ hd1) hg2
  have hu : u ≠ 0 := by rintro rfl; simp at eu; exact hb0 eu
  have cxw : IsCoprime x w :=
    (c1.of_isCoprime_of_dvd_left ⟨g1, ex⟩).of_isCoprime_of_dvd_right ⟨g2, ew⟩
  have cuy : IsCoprime u y :=
    (c2.of_isCoprime_of_dvd_left ⟨g1, eu⟩).of_isCoprime_of_dvd_right ⟨g2, ey⟩
  have cop : IsCoprime (x * y) (u * w) :=
    IsCoprime.mul_left (IsCoprime.mul_right cxu cxw) (IsCoprime.mul_right cuy.symm cyw)
  have val : ∀ r : Q, r.den ≠ 0 → r.num * (a.den * b.num) = a.num * b.den * r.den →
      r.toRat = a.toRat / b.toRat := by
    intro r hr hc
    have hD : a.den * b.num ≠ 0 := mul_ne_zero hd1.ne' hb0
    rw [toRat_of_cross hD hr hc]; unfold Q.toRat; push_cast
    have x1 : (a.den : ℚ) ≠ 0 := by exact_mod_cast hd1.ne'
    have x2 : (b.den : ℚ) ≠ 0 := by exact_mod_cast hd2.ne'
    have x3 : (b.num : ℚ) ≠ 0 := by exact_mod_cast hb0
    field_simp
  split_ifs with hneg
  · refine ⟨?_, by simpa using hneg, cop.neg_neg⟩
    apply val
    · simpa using hneg.ne
    · show -(x * y) * (a.den * b.num) = a.num * b.den * -(u * w)
      rw [ex, ey, eu, ew]; ring
  · have hpos : 0 < u * w := by
      rcases lt_trichotomy (u * w) 0 with h | h | h
      · exact absurd h hneg
      · exact absurd h (mul_ne_zero hu hw.ne')
      · exact h
    refine ⟨?_, hpos, cop⟩
    apply val
    · exact hpos.ne'
    · show x * y * (a.den * b.num) = a.num * b.den * (u * w)
      rw [ex, ey, eu, ew]; ring

/-! ### mpq_inv -/

def invVal (a : Q) : Q := if a.num < 0 then ⟨-a.den, -a.num⟩ else ⟨a.den, a.num⟩

theorem inv_eq (dest src : Nat) (h : Heap) :
    inv dest src h = if (h src).num = 0 then none else some (upd h dest (invVal (h src))) := by
  unfold inv invVal
  by_cases h0 : (h src).num = 0
  · simp [h0]
  · rcases lt_or_gt_of_ne h0 with hn | hn
    · have s1 : (h src).num.sign = -1 := Int.sign_eq_neg_one_of_neg hn
      have e1 : |(h src).num| = -(h src).num := abs_of_neg hn
      have e2 : (h src).den.sign * |(h src).den| = (h src).den := Int.sign_mul_abs _
      by_cases hd : dest = src
      · subst hd; simp [h0, hn, s1, e1, e2, setDen_setNum]
      · have hd' : ¬ src = dest := fun e => hd e.symm
        simp [h0, hn, s1, hd, hd', e1, e2, setDen_setNum, setNum_num]
    · have s1 : (h src).num.sign = 1 := Int.sign_eq_one_of_pos hn
      have e1 : |(h src).num| = (h src).num := abs_of_pos hn
      have e2 : (h src).den.sign * |(h src).den| = (h src).den := Int.sign_mul_abs _
      have hn' : ¬ (h src).num < 0 := by omega
      by_cases hd : dest = src
      · subst hd; simp [h0, hn', s1, e1, e2, setDen_setNum]
      · have hd' : ¬ src = dest := fun e => hd e.symm
        simp [h0, hn', s1, hd, hd', e1, e2, setDen_setNum, setNum_num]

theorem invVal_spec {a : Q} (ha : Canonical a) (h0 : a.num ≠ 0) :
    (invVal a).toRat = (a.toRat)⁻¹ ∧ Canonical (invVal a) := by
  rw [canonical_iff] at ha ⊢
  obtain ⟨hd, c⟩ := ha
  unfold invVal
  split_ifs with hn
  · refine ⟨?_, by simpa using hn, c.symm.neg_neg⟩
    unfold Q.toRat; push_cast; rw [inv_div, neg_div_neg_eq]
  · have : 0 < a.num := by omega
    refine ⟨?_, this, c.symm⟩
    unfold Q.toRat; rw [inv_div]

/-! ### mpq_neg, mpq_abs, mpq_set, setters, swap -/

theorem neg_eq (dst src : Nat) (h : Heap) :
    neg dst src h = upd h dst ⟨-(h src).num, (h src).den⟩ := by
  unfold neg
  by_cases hd : src = dst
  · subst hd; funext j; simp only [setNum, upd, ne_eq, not_true_eq_false, if_false]
    split <;> simp_all
  · simp [hd, setNum_setDen]

theorem abs_eq (dst src : Nat) (h : Heap) :
    Mpq.abs dst src h = upd h dst ⟨|(h src).num|, (h src).den⟩ := by
  unfold Mpq.abs
  simp only [Int.natCast_natAbs]
  by_cases hd : dst = src
  · subst hd; funext j; simp only [setNum, upd, ne_eq, not_true_eq_false, if_false]
    split <;> simp_all
  · simp [hd, setNum_setDen]

theorem set_eq (dest src : Nat) (h : Heap) : set dest src h = upd h dest (h src) := by
  unfold set; simp [setDen_setNum]

theorem set_z_eq (dest : Nat) (z : Int) (h : Heap) : set_z dest z h = upd h dest ⟨z, 1⟩ := by
  unfold set_z; simp [setDen_setNum]

theorem set_si_eq (dest : Nat) (n : Int) (d : Nat) (h : Heap) :
    set_si dest n d h = upd h dest (if n = 0 then ⟨0, 1⟩ else ⟨n, d⟩) := by
  unfold set_si; split_ifs <;> simp [setDen_setNum]

theorem set_ui_eq (dest : Nat) (n d : Nat) (h : Heap) :
    set_ui dest n d h = upd h dest (if n = 0 then ⟨0, 1⟩ else ⟨n, d⟩) := by
  unfold set_ui; split_ifs <;> simp [setDen_setNum]

theorem swap_eq (u v : Nat) (h : Heap) :
    swap u v h = fun j => if j = u then h v else if j = v then h u else h j := by
  unfold swap
  funext j
  rcases eq_or_ne u v with rfl | h3
  · by_cases h1 : j = u <;> simp_all [setNum, setDen]
  · have h3' : v ≠ u := h3.symm
    by_cases h1 : j = u <;> by_cases h2 : j = v <;> simp_all [setNum, setDen]

/-! ### mpq_canonicalize -/

def canonVal (a : Q) : Q :=
  let gcd := zgcd a.num a.den
  let b : Q := if gcd ≠ 1 then ⟨divexact a.num gcd, divexact a.den gcd⟩ else a
  if b.den < 0 then ⟨-b.num, -b.den⟩ else b

theorem canonicalize_eq (op : Nat) (h : Heap) :
    canonicalize op h = if (h op).den = 0 then none else some (upd h op (canonVal (h op))) := by
  unfold canonicalize canonVal
  have hid : upd h op (h op) = h := by funext j; unfold upd; split <;> simp_all
  by_cases h0 : (h op).den = 0
  · simp [h0]
  · simp only [h0, if_false, setNum_den, setDen_setNum]
    by_cases hg : zgcd (h op).num (h op).den = 1
    · simp only [hg, ne_eq, not_true_eq_false, if_false]
      split_ifs
      · rfl
      · rw [hid]
    · simp only [hg, ne_eq, not_false_eq_true, if_true, upd_self, upd_upd]
      split_ifs <;> rfl

theorem canonVal_spec {a : Q} (h0 : a.den ≠ 0) :
    (canonVal a).toRat = a.toRat ∧ Canonical (canonVal a) := by
  have hg : 0 < zgcd a.num a.den := zgcd_pos_of_right h0
  obtain ⟨x, y, ex, ey, cxy, qx, qy⟩ := zgcd_decomp hg
  have hy : y ≠ 0 := by rintro rfl; simp at ey; exact h0 ey
  -- after the gcd step the pair is (x, y) in both branches
  have hb : (if zgcd a.num a.den ≠ 1 then (⟨divexact a.num (zgcd a.num a.den),
      divexact a.den (zgcd a.num a.den)⟩ : Q) else a) = ⟨x, y⟩ := by
    split_ifs with h1
    · rw [qx, qy]
    · have h1 := not_not.mp h1
      rw [h1] at ex ey; cases a; simp_all
  unfold canonVal
  simp only [hb]
  have val : ∀ r : Q, r.den ≠ 0 → r.num * a.den = a.num * r.den → r.toRat = a.toRat := by
    intro r hr hc; rw [toRat_eq_iff hr h0]; exact hc
  rw [canonical_iff]
  clear hb qx qy
  generalize zgcd a.num a.den = g at *
  split_ifs with hneg
  · refine ⟨val _ (by simpa using hy) ?_, by simpa using hneg, cxy.neg_neg⟩
    show -x * a.den = a.num * -y
    rw [ex, ey]; ring
  · have : 0 < y := by
      rcases lt_trichotomy y 0 with h | h | h
      · exact absurd h hneg
      · exact absurd h hy
      · exact h
    refine ⟨val _ hy ?_, this, cxy⟩
    show x * a.den = a.num * y
    rw [ex, ey]; ring

/-! ### uniqueness of the canonical form (mpq_equal) -/

theorem canonical_unique {a b : Q} (ha : Canonical a) (hb : Canonical b)
    (h : a.num * b.den = b.num * a.den) : a = b := by
  rw [canonical_iff] at ha hb
  obtain ⟨hd1, c1⟩ := ha; obtain ⟨hd2, c2⟩ := hb
  have d12 : a.den ∣ b.den := by
    have : a.den ∣ a.num * b.den := ⟨b.num, by rw [h]; ring⟩
    exact c1.symm.dvd_of_dvd_mul_left this
  have d21 : b.den ∣ a.den := by
    have : b.den ∣ b.num * a.den := ⟨a.num, by rw [← h]; ring⟩
    exact c2.symm.dvd_of_dvd_mul_left this
  have hden : a.den = b.den := Int.dvd_antisymm hd1.le hd2.le d12 d21
  have hnum : a.num = b.num := by
    rw [hden] at h; exact mul_right_cancel₀ hd2.ne' h
  cases a; cases b; simp_all

theorem equal_eq (op1 op2 : Nat) (h : Heap) :
    equal op1 op2 h = if h op1 = h op2 then 1 else 0 := by
  unfold equal
  by_cases h1 : (h op1).num = (h op2).num <;> by_cases h2 : (h op1).den = (h op2).den
  · have : h op1 = h op2 := by cases hx : h op1; cases hy : h op2; simp_all
    simp [this]
  · have : h op1 ≠ h op2 := fun e => h2 (by rw [e])
    simp [h1, h2, this]
  · have : h op1 ≠ h op2 := fun e => h1 (by rw [e])
    simp [h1, this]
  · have : h op1 ≠ h op2 := fun e => h1 (by rw [e])
    simp [h1, this]

/-! ### mpq_mul_2exp / mpq_div_2exp -/

theorem ctz_spec (x : Nat) (hx : x ≠ 0) : ∃ k, x = 2 ^ ctz x * (2 * k + 1) := by
  induction x using Nat.strong_induction_on with
  | _ x ih =>
    rw [ctz]
    simp only [hx, dite_false]
    split_ifs with hodd
    · exact ⟨x / 2, by omega⟩
    · have h2 : x / 2 ≠ 0 := by omega
      obtain ⟨k, hk⟩ := ih (x / 2) (by omega) h2
      refine ⟨k, ?_⟩
      generalize ctz (x / 2) = c at hk ⊢
      calc x = 2 * (x / 2) := by omega
        _ = 2 * (2 ^ c * (2 * k + 1)) := by rw [← hk]
        _ = 2 ^ (c + 1) * (2 * k + 1) := by ring

theorem B_eq_pow : B = 2 ^ 64 := rfl

theorem skipLimbs_spec (m n : Nat) :
    (skipLimbs m n).2 ≤ n ∧ (skipLimbs m n).1 * 2 ^ (n - (skipLimbs m n).2) = m ∧
    ¬ ((skipLimbs m n).2 ≥ 64 ∧ (skipLimbs m n).1 % B = 0) := by
  induction n using Nat.strong_induction_on generalizing m with
  | _ n ih =>
    rw [skipLimbs]
    split_ifs with hc
    · obtain ⟨i1, i2, i3⟩ := ih (n - 64) (by omega) (m / B)
      refine ⟨by omega, ?_, i3⟩
      generalize (skipLimbs (m / B) (n - 64)).1 = m' at *
      generalize (skipLimbs (m / B) (n - 64)).2 = n' at *
      have hm : m = m / B * B := (Nat.div_mul_cancel (Nat.dvd_of_mod_eq_zero hc.2)).symm
      have : n - n' = (n - 64 - n') + 64 := by omega
      rw [this, pow_add, ← mul_assoc, i2, ← B_eq_pow, ← hm]
    · exact ⟨le_refl _, by simp, hc⟩

/-- `mordR` on magnitudes -/
def mordStep (m1 n1 : Nat) : Nat × Nat :=
  if m1 % B % 2 = 1 ∨ n1 = 0 then (m1, n1)
  else (m1 / 2 ^ (if m1 % B = 0 then n1 else min (ctz (m1 % B)) n1),
        n1 - (if m1 % B = 0 then n1 else min (ctz (m1 % B)) n1))

def mordMag (m n : Nat) : Nat × Nat := mordStep (skipLimbs m n).1 (skipLimbs m n).2

theorem mordR_eq (r : Int) (n : Nat) :
    mordR r n = (if r ≥ 0 then ((mordMag r.natAbs n).1 : ℤ) else -((mordMag r.natAbs n).1 : ℤ),
                 (mordMag r.natAbs n).2) := by
  unfold mordR mordMag mordStep
  rcases skipLimbs r.natAbs n with ⟨m1, n1⟩
  simp only []
  split_ifs <;> rfl

theorem mordMag_spec (m n : Nat) :
    (mordMag m n).2 ≤ n ∧ (mordMag m n).1 * 2 ^ (n - (mordMag m n).2) = m ∧
    ((mordMag m n).2 = 0 ∨ (mordMag m n).1 % 2 = 1) := by
  obtain ⟨s1, s2, s3⟩ := skipLimbs_spec m n
  unfold mordMag
  generalize (skipLimbs m n).1 = m1 at *
  generalize (skipLimbs m n).2 = n1 at *
  unfold mordStep
  have hmod : m1 % B % 2 = m1 % 2 := Nat.mod_mod_of_dvd m1 ⟨2 ^ 63, by rw [B_eq_pow]; norm_num⟩
  split_ifs with hA hz
  · exact ⟨s1, s2, by omega⟩
  · -- low limb zero: fewer than 64 bits left to shift
    have hn1 : n1 < 64 := by
      by_contra hge; exact s3 ⟨by omega, hz⟩
    have hdvd : 2 ^ n1 ∣ m1 := by
      have h1 : B ∣ m1 := Nat.dvd_of_mod_eq_zero hz
      have h2 : 2 ^ n1 ∣ B := by rw [B_eq_pow]; exact Nat.pow_dvd_pow 2 (by omega)
      exact h2.trans h1
    refine ⟨by omega, ?_, Or.inl (by omega)⟩
    obtain ⟨q, rfl⟩ := hdvd
    rw [Nat.mul_div_cancel_left q (by positivity), Nat.sub_self, Nat.sub_zero, ← s2]
    have : n = n1 + (n - n1) := by omega
    conv_lhs => rw [this]
    rw [pow_add]; ring
  · -- low limb non-zero
    obtain ⟨k, hk⟩ := ctz_spec (m1 % B) hz
    generalize ctz (m1 % B) = c at *
    have hc : c < 64 := by
      have h1 : 2 ^ c ≤ m1 % B := by rw [hk]; nlinarith [Nat.two_pow_pos c]
      have h2 : m1 % B < 2 ^ 64 := by rw [← B_eq_pow]; exact Nat.mod_lt _ B_pos
      exact (Nat.pow_lt_pow_iff_right (by norm_num : 1 < 2)).mp (lt_of_le_of_lt h1 h2)
    -- m1 = 2^c * odd
    have hm1 : m1 = 2 ^ c * (2 ^ (64 - c) * (m1 / B) + (2 * k + 1)) := by
      have e : m1 = B * (m1 / B) + m1 % B := (Nat.div_add_mod m1 B).symm
      have eB : B = 2 ^ c * 2 ^ (64 - c) := by rw [← pow_add, B_eq_pow]; congr 1; omega
      rw [hk] at e
      calc m1 = B * (m1 / B) + 2 ^ c * (2 * k + 1) := e
        _ = 2 ^ c * 2 ^ (64 - c) * (m1 / B) + 2 ^ c * (2 * k + 1) := by rw [← eB]
        _ = _ := by ring
    have hodd : (2 ^ (64 - c) * (m1 / B) + (2 * k + 1)) % 2 = 1 := by
      have : 2 ^ (64 - c) = 2 * 2 ^ (63 - c) := by rw [← pow_succ']; congr 1; omega
      rw [this, mul_assoc]; omega
    generalize 2 ^ (64 - c) * (m1 / B) + (2 * k + 1) = o at *
    rcases Nat.le_total c n1 with hcn | hcn
    · rw [min_eq_left hcn]
      refine ⟨by omega, ?_, Or.inr ?_⟩
      · rw [hm1, Nat.mul_div_cancel_left o (by positivity), ← s2, hm1]
        have : n - (n1 - c) = c + (n - n1) := by omega
        rw [this, pow_add]; ring
      · rw [hm1, Nat.mul_div_cancel_left o (by positivity)]; exact hodd
    · rw [min_eq_right hcn]
      refine ⟨by omega, ?_, Or.inl (by omega)⟩
      have e2 : 2 ^ c = 2 ^ n1 * 2 ^ (c - n1) := by rw [← pow_add]; congr 1; omega
      have hm1' : m1 = 2 ^ n1 * (2 ^ (c - n1) * o) := by rw [hm1, e2]; ring
      rw [hm1', Nat.mul_div_cancel_left _ (by positivity), Nat.sub_self, Nat.sub_zero, ← s2, hm1']
      have : n = n1 + (n - n1) := by omega
      conv_lhs => rw [this]
      rw [pow_add]; ring

/-- what `mordR` guarantees: `rsrc = r * 2^(n - n')`, and either nothing is left to
    shift (`n' = 0`) or `r` is odd -/
theorem mordR_spec (r : Int) (n : Nat) :
    (mordR r n).2 ≤ n ∧ (mordR r n).1 * 2 ^ (n - (mordR r n).2) = r ∧
    ((mordR r n).2 = 0 ∨ (mordR r n).1 % 2 = 1) := by
  rw [mordR_eq]
  obtain ⟨s1, s2, s3⟩ := mordMag_spec r.natAbs n
  generalize (mordMag r.natAbs n).1 = m' at *
  generalize (mordMag r.natAbs n).2 = n' at *
  refine ⟨s1, ?_, ?_⟩
  · have s2' : (m' : ℤ) * 2 ^ (n - n') = (r.natAbs : ℤ) := by exact_mod_cast s2
    simp only []
    split_ifs with h
    · rw [s2']; omega
    · rw [neg_mul, s2']; omega
  · rcases s3 with h | h
    · exact Or.inl h
    · right; simp only []; split_ifs <;> omega

def mul2expVal (a : Q) (n : Nat) : Q := ⟨a.num * 2 ^ (mordR a.den n).2, (mordR a.den n).1⟩

def div2expVal (a : Q) (n : Nat) : Q :=
  if a.num = 0 then ⟨0, 1⟩ else ⟨(mordR a.num n).1, a.den * 2 ^ (mordR a.num n).2⟩

theorem mul_2exp_eq (dst src n : Nat) (h : Heap) :
    mul_2exp dst src n h = upd h dst (mul2expVal (h src) n) := by
  unfold mul_2exp mord_2exp mul2expVal
  rcases mordR (h src).den n with ⟨r, n'⟩
  simp only [setDen_num, setNum_setDen]
  split_ifs with h0
  · rfl
  · have : n' = 0 := by omega
    subst this; simp

theorem div_2exp_eq (dst src n : Nat) (h : Heap) :
    div_2exp dst src n h = upd h dst (div2expVal (h src) n) := by
  unfold div_2exp mord_2exp div2expVal
  split_ifs with hz
  · rw [setDen_setNum]
  · rcases mordR (h src).num n with ⟨r, n'⟩
    simp only [setNum_den, setDen_setNum]
    split_ifs with h0
    · rfl
    · have : n' = 0 := by omega
      subst this; simp

theorem mul2expVal_spec {a : Q} (ha : Canonical a) (n : Nat) :
    (mul2expVal a n).toRat = a.toRat * 2 ^ n ∧ Canonical (mul2expVal a n) := by
  rw [canonical_iff] at ha ⊢
  obtain ⟨hd, c⟩ := ha
  obtain ⟨s1, s2, s3⟩ := mordR_spec a.den n
  unfold mul2expVal
  generalize (mordR a.den n).1 = r at *
  generalize (mordR a.den n).2 = n' at *
  have hr : 0 < r := by
    have : 0 < r * 2 ^ (n - n') := by rw [s2]; exact hd
    exact pos_of_mul_pos_right' this (by positivity)
  refine ⟨?_, hr, ?_⟩
  · have hx : (⟨a.num * 2 ^ n', r⟩ : Q).toRat = ((a.num * 2 ^ n : ℤ) : ℚ) / ((a.den : ℤ) : ℚ) := by
      apply toRat_of_cross hd.ne' hr.ne'
      show a.num * 2 ^ n' * a.den = a.num * 2 ^ n * r
      rw [← s2]
      have : n = n' + (n - n') := by omega
      conv_rhs => rw [this]
      rw [pow_add]; ring
    rw [hx]; unfold Q.toRat; push_cast; ring
  · have c1 : IsCoprime a.num r := c.of_isCoprime_of_dvd_right ⟨2 ^ (n - n'), s2.symm⟩
    refine IsCoprime.mul_left c1 ?_
    rcases s3 with h | h
    · subst h; simpa using isCoprime_one_left
    · exact (isCoprime_of_odd h).pow_left

theorem div2expVal_spec {a : Q} (ha : Canonical a) (n : Nat) :
    (div2expVal a n).toRat = a.toRat / 2 ^ n ∧ Canonical (div2expVal a n) := by
  have ha0 := ha
  rw [canonical_iff] at ha ⊢
  obtain ⟨hd, c⟩ := ha
  unfold div2expVal
  split_ifs with hz
  · refine ⟨?_, by norm_num, isCoprime_one_right⟩
    simp [Q.toRat, hz]
  · obtain ⟨s1, s2, s3⟩ := mordR_spec a.num n
    generalize (mordR a.num n).1 = r at *
    generalize (mordR a.num n).2 = n' at *
    have hD : 0 < a.den * 2 ^ n' := by positivity
    refine ⟨?_, hD, ?_⟩
    · have hx : (⟨r, a.den * 2 ^ n'⟩ : Q).toRat = ((a.num : ℤ) : ℚ) / ((a.den * 2 ^ n : ℤ) : ℚ) := by
        apply toRat_of_cross (by positivity) hD.ne'
        show r * (a.den * 2 ^ n) = a.num * (a.den * 2 ^ n')
        rw [← s2]
        have : n = n' + (n - n') := by omega
        conv_lhs => rw [this]
        rw [pow_add]; ring
      rw [hx]; unfold Q.toRat; push_cast
      have x1 : (a.den : ℚ) ≠ 0 := by exact_mod_cast hd.ne'
      field_simp
    · have c1 : IsCoprime r a.den := c.of_isCoprime_of_dvd_left ⟨2 ^ (n - n'), s2.symm⟩
      refine IsCoprime.mul_right c1 ?_
      rcases s3 with h | h
      · subst h; simpa using isCoprime_one_right
      · exact (isCoprime_of_odd h).symm.pow_right

/-! ### limb and bit counts (mpq_cmp pre-checks) -/

theorem bits_zero : bits 0 = 0 := by simp [bits]
theorem limbs_zero : limbs 0 = 0 := by simp [limbs, bits]

theorem bits_pos {x : Nat} (hx : x ≠ 0) : 1 ≤ bits x := by simp [bits, hx]

theorem bits_lb {x : Nat} (hx : x ≠ 0) : 2 ^ (bits x - 1) ≤ x := by
  simp only [bits, hx, if_false, Nat.add_sub_cancel]; exact Nat.log2_self_le hx

theorem bits_ub (x : Nat) : x < 2 ^ bits x := by
  by_cases hx : x = 0
  · subst hx; simp [bits]
  · simp only [bits, hx, if_false]; exact Nat.lt_log2_self

theorem limbs_pos {x : Nat} (hx : x ≠ 0) : 1 ≤ limbs x := by
  have := bits_pos hx; unfold limbs; omega

theorem bits_le_limbs (x : Nat) : bits x ≤ 64 * limbs x := by unfold limbs; omega

theorem limbs_lb {x : Nat} (hx : x ≠ 0) : B ^ (limbs x - 1) ≤ x := by
  have h1 := bits_lb hx
  have h2 := bits_pos hx
  have h3 : 64 * (limbs x - 1) ≤ bits x - 1 := by unfold limbs; omega
  calc B ^ (limbs x - 1) = 2 ^ (64 * (limbs x - 1)) := by rw [B_eq_pow, ← pow_mul]
    _ ≤ 2 ^ (bits x - 1) := Nat.pow_le_pow_right (by norm_num) h3
    _ ≤ x := h1

theorem limbs_ub (x : Nat) : x < B ^ limbs x := by
  calc x < 2 ^ bits x := bits_ub x
    _ ≤ 2 ^ (64 * limbs x) := Nat.pow_le_pow_right (by norm_num) (bits_le_limbs x)
    _ = B ^ limbs x := by rw [B_eq_pow, ← pow_mul]

theorem limbs_eq_zero {x : Nat} : limbs x = 0 ↔ x = 0 := by
  constructor
  · intro h; by_contra hx; have := limbs_pos hx; omega
  · rintro rfl; exact limbs_zero

theorem limbs_lt_imp_lt {x y : Nat} (h : limbs x < limbs y) : x < y := by
  have hy : y ≠ 0 := by rintro rfl; rw [limbs_zero] at h; omega
  calc x < B ^ limbs x := limbs_ub x
    _ ≤ B ^ (limbs y - 1) := Nat.pow_le_pow_right B_pos (by omega)
    _ ≤ y := limbs_lb hy

/-- count comparison => product comparison, for base `b` (2 for bit counts, B for limb counts):
    `U < b^r`, `V ≤ b^s`, `b^(p-1) ≤ X`, `b^(q-1) ≤ Y`, `r + s + 2 ≤ p + q` give `U*V < X*Y`. -/
theorem prod_lt_of_counts {b U V X Y r s p q : Nat} (hb : 0 < b)
    (hU : U < b ^ r) (hV : V ≤ b ^ s) (hX : b ^ (p - 1) ≤ X) (hY : b ^ (q - 1) ≤ Y)
    (hp : 1 ≤ p) (hq : 1 ≤ q) (h : r + s + 2 ≤ p + q) : U * V < X * Y := by
  have h1 : U * V < b ^ r * b ^ s := by
    have hs : 0 < b ^ s := Nat.pow_pos hb
    calc U * V ≤ U * b ^ s := Nat.mul_le_mul_left U hV
      _ < b ^ r * b ^ s := Nat.mul_lt_mul_of_pos_right hU hs
  have h2 : b ^ r * b ^ s ≤ b ^ (p - 1) * b ^ (q - 1) := by
    rw [← pow_add, ← pow_add]; exact Nat.pow_le_pow_right hb (by omega)
  calc U * V < b ^ r * b ^ s := h1
    _ ≤ b ^ (p - 1) * b ^ (q - 1) := h2
    _ ≤ X * Y := Nat.mul_le_mul hX hY

theorem size_eq_zero {z : ℤ} : size z = 0 ↔ z = 0 := by
  unfold size
  split_ifs with h
  · have : limbs z.natAbs ≠ 0 := by rw [Ne, limbs_eq_zero]; omega
    constructor <;> intro h' <;> omega
  · rw [show ((limbs z.natAbs : ℕ) : ℤ) = 0 ↔ limbs z.natAbs = 0 by omega, limbs_eq_zero]; omega

theorem size_neg_iff {z : ℤ} : size z < 0 ↔ z < 0 := by
  unfold size
  split_ifs with h
  · have : limbs z.natAbs ≠ 0 := by rw [Ne, limbs_eq_zero]; omega
    constructor <;> intro _ <;> omega
  · constructor <;> intro h' <;> omega

theorem size_natAbs (z : ℤ) : (size z).natAbs = limbs z.natAbs := by
  unfold size; split_ifs <;> omega

theorem size_of_pos {z : ℤ} (h : 0 < z) : size z = (limbs z.natAbs : ℕ) := by
  unfold size; rw [if_neg (by omega)]

theorem size_of_neg {z : ℤ} (h : z < 0) : size z = -((limbs z.natAbs : ℕ) : ℤ) := by
  unfold size; rw [if_pos h]

theorem sign_size (z : ℤ) : Int.sign (size z) = Int.sign z := by
  rcases lt_trichotomy z 0 with h | h | h
  · have h1 : size z < 0 := size_neg_iff.mpr h
    rw [Int.sign_eq_neg_one_of_neg h1, Int.sign_eq_neg_one_of_neg h]
  · subst h; rw [size_eq_zero.mpr rfl]
  · have h1 : 0 < size z := by
      have h2 : ¬ size z < 0 := fun hh => by have := size_neg_iff.mp hh; omega
      have h3 : size z ≠ 0 := fun hh => by have := size_eq_zero.mp hh; omega
      omega
    rw [Int.sign_eq_one_of_pos h1, Int.sign_eq_one_of_pos h]

theorem clzTop_eq (x : Nat) : (clzTop x : ℤ) = 64 * (limbs x : ℤ) - (bits x : ℤ) := by
  unfold clzTop; have := bits_le_limbs x; omega

theorem sign_cmpNat (a b : Nat) : Int.sign (cmpNat a b) = Int.sign ((a : ℤ) - (b : ℤ)) := by
  unfold cmpNat
  split_ifs with h1 h2
  · rw [Int.sign_eq_neg_one_of_neg (by omega : (a : ℤ) - b < 0)]; rfl
  · rw [Int.sign_eq_one_of_pos (by omega : 0 < (a : ℤ) - b)]; rfl
  · have : a = b := by omega
    subst this; simp

/-! ### mpq_cmp, mpq_cmp_ui, mpq_cmp_si -/

/-- sign factor carried by `num1_sign` -/
def sgnOf (s : ℤ) : ℤ := if s < 0 then -1 else 1

theorem sign_limb_diff {x y : Nat} (h : (limbs x : ℤ) - (limbs y : ℤ) ≠ 0) :
    Int.sign ((limbs x : ℤ) - (limbs y : ℤ)) = Int.sign ((x : ℤ) - (y : ℤ)) := by
  rcases lt_trichotomy (limbs x) (limbs y) with h1 | h1 | h1
  · have := limbs_lt_imp_lt h1
    rw [Int.sign_eq_neg_one_of_neg (by omega), Int.sign_eq_neg_one_of_neg (by omega)]
  · omega
  · have := limbs_lt_imp_lt h1
    rw [Int.sign_eq_one_of_pos (by omega), Int.sign_eq_one_of_pos (by omega)]

theorem cmpCross_sign (s : ℤ) (n1 d1 n2 d2 : Nat) :
    Int.sign (cmpCross s n1 d1 n2 d2) = sgnOf s * Int.sign (((n1 * d2 : ℕ) : ℤ) - ((n2 * d1 : ℕ) : ℤ)) := by
  unfold cmpCross sgnOf
  simp only []
  have hcc : Int.sign (if ((limbs (n1 * d2) : ℕ) : ℤ) - ((limbs (n2 * d1) : ℕ) : ℤ) ≠ 0
      then ((limbs (n1 * d2) : ℕ) : ℤ) - ((limbs (n2 * d1) : ℕ) : ℤ) else cmpNat (n1 * d2) (n2 * d1))
      = Int.sign (((n1 * d2 : ℕ) : ℤ) - ((n2 * d1 : ℕ) : ℤ)) := by
    split_ifs with h
    · exact sign_limb_diff h
    · exact sign_cmpNat _ _
  by_cases hs : s < 0
  · rw [if_pos hs, if_pos hs, Int.sign_neg, hcc]; ring
  · rw [if_neg hs, if_neg hs, hcc]; ring

theorem sgnOf_mul_sign (s : ℤ) (hs : s ≠ 0) : Int.sign s = sgnOf s := by
  unfold sgnOf
  split_ifs with h
  · exact Int.sign_eq_neg_one_of_neg h
  · exact Int.sign_eq_one_of_pos (by omega)

theorem cmpPre_sign (s : ℤ) (hs : s ≠ 0) (n1 d1 n2 d2 : Nat) (i : ℤ)
    (hn1 : n1 ≠ 0) (hd1 : d1 ≠ 0) (hn2 : n2 ≠ 0) (hd2 : d2 ≠ 0)
    (hi : (i = 0) ∨ (i = 1 ∧ d2 = 1)) :
    Int.sign (cmpPre s n1 d1 n2 d2 i) = sgnOf s * Int.sign (((n1 * d2 : ℕ) : ℤ) - ((n2 * d1 : ℕ) : ℤ)) := by
  unfold cmpPre
  simp only [clzTop_eq]
  have gt_case : n2 * d1 < n1 * d2 → sgnOf s = sgnOf s * Int.sign (((n1 * d2 : ℕ) : ℤ) - ((n2 * d1 : ℕ) : ℤ)) := by
    intro h; rw [Int.sign_eq_one_of_pos (by omega)]; ring
  have lt_case : n1 * d2 < n2 * d1 → -sgnOf s = sgnOf s * Int.sign (((n1 * d2 : ℕ) : ℤ) - ((n2 * d1 : ℕ) : ℤ)) := by
    intro h; rw [Int.sign_eq_neg_one_of_neg (by omega)]; ring
  have ln1 := limbs_pos hn1; have ld1 := limbs_pos hd1; have ln2 := limbs_pos hn2; have ld2 := limbs_pos hd2
  have bn1 := bits_pos hn1; have bd1 := bits_pos hd1; have bn2 := bits_pos hn2; have bd2 := bits_pos hd2
  split_ifs with c1 c2 c3 c4
  · rw [sgnOf_mul_sign s hs]
    apply gt_case
    exact prod_lt_of_counts B_pos (limbs_ub n2) (limbs_ub d1).le (limbs_lb hn1) (limbs_lb hd2) ln1 ld2 (by omega)
  · rw [Int.sign_neg, sgnOf_mul_sign s hs]
    apply lt_case
    rcases hi with rfl | ⟨rfl, rfl⟩
    · exact prod_lt_of_counts B_pos (limbs_ub n1) (limbs_ub d2).le (limbs_lb hn2) (limbs_lb hd1) ln2 ld1 (by omega)
    · have : limbs 1 = 1 := by decide
      exact prod_lt_of_counts (s := 0) B_pos (limbs_ub n1) (by simp) (limbs_lb hn2) (limbs_lb hd1) ln2 ld1 (by omega)
  · rw [sgnOf_mul_sign s hs]
    apply gt_case
    exact prod_lt_of_counts (by norm_num : 0 < 2) (bits_ub n2) (bits_ub d1).le (bits_lb hn1) (bits_lb hd2) bn1 bd2 (by omega)
  · rw [Int.sign_neg, sgnOf_mul_sign s hs]
    apply lt_case
    rcases hi with rfl | ⟨rfl, rfl⟩
    · exact prod_lt_of_counts (by norm_num : 0 < 2) (bits_ub n1) (bits_ub d2).le (bits_lb hn2) (bits_lb hd1) bn2 bd1 (by omega)
    · have : bits 1 = 1 := by decide
      have : limbs 1 = 1 := by decide
      exact prod_lt_of_counts (s := 0) (by norm_num : 0 < 2) (bits_ub n1) (by simp) (bits_lb hn2) (bits_lb hd1) bn2 bd1 (by omega)
  · exact cmpCross_sign s n1 d1 n2 d2


/-- same sign, non-zero numerators: the exact difference factors through the magnitudes -/
theorem cross_same_sign {n1 d1 n2 d2 : ℤ} (hd1 : 0 < d1) (hd2 : 0 < d2)
    (h : (n1 < 0 ∧ n2 < 0) ∨ (0 < n1 ∧ 0 < n2)) :
    n1 * d2 - n2 * d1 =
      Int.sign n1 * (((n1.natAbs * d2.natAbs : ℕ) : ℤ) - ((n2.natAbs * d1.natAbs : ℕ) : ℤ)) := by
  have e1 : (d1.natAbs : ℤ) = d1 := by omega
  have e2 : (d2.natAbs : ℤ) = d2 := by omega
  rw [Nat.cast_mul, Nat.cast_mul, e1, e2]
  rcases h with ⟨a, b⟩ | ⟨a, b⟩
  · rw [Int.sign_eq_neg_one_of_neg a]
    have x1 : (n1.natAbs : ℤ) = -n1 := by omega
    have x2 : (n2.natAbs : ℤ) = -n2 := by omega
    rw [x1, x2]; ring
  · rw [Int.sign_eq_one_of_pos a]
    have x1 : (n1.natAbs : ℤ) = n1 := by omega
    have x2 : (n2.natAbs : ℤ) = n2 := by omega
    rw [x1, x2]; ring

theorem cmpNumDen_sign {n1 d1 n2 d2 : ℤ} (hd1 : 0 < d1) (hd2 : 0 < d2) :
    Int.sign (cmpNumDen n1 d1 n2 d2) = Int.sign (n1 * d2 - n2 * d1) := by
  unfold cmpNumDen
  simp only [size_eq_zero]
  by_cases z1 : n1 = 0
  · rw [if_pos z1]; subst z1
    rw [Int.sign_neg, sign_size]; simp [Int.sign_mul, Int.sign_eq_one_of_pos hd1]
  rw [if_neg z1]
  by_cases z2 : n2 = 0
  · rw [if_pos z2]; subst z2
    rw [sign_size]; simp [Int.sign_mul, Int.sign_eq_one_of_pos hd2]
  rw [if_neg z2]
  by_cases sd : decide (size n1 < 0) ≠ decide (size n2 < 0)
  · rw [if_pos sd, sign_size]
    simp only [size_neg_iff, ne_eq, decide_eq_decide] at sd
    rcases lt_or_gt_of_ne z1 with a | a
    · have b : 0 < n2 := by
        rcases lt_or_gt_of_ne z2 with b | b
        · exact absurd (iff_of_true a b) sd
        · exact b
      rw [Int.sign_eq_neg_one_of_neg a, Int.sign_eq_neg_one_of_neg (by nlinarith)]
    · have b : n2 < 0 := by
        rcases lt_or_gt_of_ne z2 with b | b
        · exact b
        · exact absurd (iff_of_false (by omega) (by omega)) sd
      rw [Int.sign_eq_one_of_pos a, Int.sign_eq_one_of_pos (by nlinarith)]
  rw [if_neg sd]
  have same : (n1 < 0 ∧ n2 < 0) ∨ (0 < n1 ∧ 0 < n2) := by
    simp only [size_neg_iff, ne_eq, decide_eq_decide, not_not] at sd
    rcases lt_or_gt_of_ne z1 with a | a
    · exact Or.inl ⟨a, sd.mp a⟩
    · right; refine ⟨a, ?_⟩
      rcases lt_or_gt_of_ne z2 with b | b
      · have := sd.mpr b; omega
      · exact b
  have hR := cross_same_sign hd1 hd2 same
  have hs0 : size n1 ≠ 0 := fun h => z1 (size_eq_zero.mp h)
  have hsg : Int.sign n1 = sgnOf (size n1) := by rw [← sign_size, sgnOf_mul_sign _ hs0]
  have pre : ∀ i : ℤ, (i = 0 ∨ (i = 1 ∧ d2.natAbs = 1)) →
      Int.sign (cmpPre (size n1) n1.natAbs d1.natAbs n2.natAbs d2.natAbs i) = Int.sign (n1 * d2 - n2 * d1) := by
    intro i hi
    rw [cmpPre_sign (size n1) hs0 _ _ _ _ i (by omega) (by omega) (by omega) (by omega) hi, hR, Int.sign_mul,
      Int.sign_sign, hsg]
  by_cases hi : d2 = 1
  · subst hi
    simp only [if_true, true_and]
    by_cases hd : d1 = 1
    · rw [if_pos hd]; subst hd
      simp only [mul_one]
      by_cases hsz : size n1 ≠ size n2
      · rw [if_pos hsz]
        rcases same with ⟨a, b⟩ | ⟨a, b⟩
        · rw [size_of_neg a, size_of_neg b] at hsz ⊢
          have e : -((limbs n1.natAbs : ℕ) : ℤ) - -((limbs n2.natAbs : ℕ) : ℤ)
              = ((limbs n2.natAbs : ℕ) : ℤ) - ((limbs n1.natAbs : ℕ) : ℤ) := by ring
          rw [e, sign_limb_diff (by omega)]
          congr 1; omega
        · rw [size_of_pos a, size_of_pos b] at hsz ⊢
          rw [sign_limb_diff (by omega)]
          congr 1; omega
      · rw [if_neg hsz]
        rcases same with ⟨a, b⟩ | ⟨a, b⟩
        · have : ¬ size n1 > 0 := by have := size_neg_iff.mpr a; omega
          rw [if_neg this, Int.sign_neg, sign_cmpNat, ← Int.sign_neg]
          congr 1; omega
        · have : size n1 > 0 := by rw [size_of_pos a]; have := limbs_pos (x := n1.natAbs) (by omega); omega
          rw [if_pos this, sign_cmpNat]
          congr 1; omega
    · rw [if_neg hd]
      exact pre 1 (Or.inr ⟨rfl, rfl⟩)
  · simp only [hi, if_false]
    rw [if_neg (by omega)]
    exact pre 0 (Or.inl rfl)


theorem cmpUiVal_sign {n1 d1 : ℤ} {num2 den2 : Nat} (hd1 : 0 < d1) (hden2 : den2 ≠ 0)
    (hb1 : num2 < B) (hb2 : den2 < B) :
    ∃ c, cmpUiVal n1 d1 num2 den2 = some c ∧
      Int.sign c = Int.sign (n1 * (den2 : ℤ) - (num2 : ℤ) * d1) := by
  unfold cmpUiVal
  simp only [size_eq_zero, size_neg_iff]
  rw [if_neg hden2]
  have hden2' : (0 : ℤ) < (den2 : ℤ) := by omega
  by_cases z1 : n1 = 0
  · rw [if_pos z1]; subst z1
    refine ⟨_, rfl, ?_⟩
    by_cases hz : num2 = 0
    · subst hz; simp
    · have : (0 : ℤ) * (den2 : ℤ) - (num2 : ℤ) * d1 < 0 := by
        have : 0 < (num2 : ℤ) * d1 := mul_pos (by omega) hd1
        omega
      rw [if_pos hz, Int.sign_eq_neg_one_of_neg this]; rfl
  rw [if_neg z1]
  by_cases neg1 : n1 < 0
  · rw [if_pos neg1]
    refine ⟨_, rfl, ?_⟩
    have : n1 * (den2 : ℤ) - (num2 : ℤ) * d1 < 0 := by
      have h1 : n1 * (den2 : ℤ) < 0 := mul_neg_of_neg_of_pos neg1 hden2'
      have h2 : 0 ≤ (num2 : ℤ) * d1 := mul_nonneg (by omega) hd1.le
      omega
    rw [sign_size, Int.sign_eq_neg_one_of_neg neg1, Int.sign_eq_neg_one_of_neg this]
  rw [if_neg neg1]
  have pos1 : 0 < n1 := by omega
  by_cases z2 : num2 = 0
  · rw [if_pos z2]; subst z2
    refine ⟨_, rfl, ?_⟩
    have : 0 < n1 * (den2 : ℤ) - ((0 : ℕ) : ℤ) * d1 := by
      have := mul_pos pos1 hden2'; simpa using this
    rw [sign_size, Int.sign_eq_one_of_pos pos1, Int.sign_eq_one_of_pos this]
  rw [if_neg z2]
  -- magnitudes
  have e1 : (n1.natAbs : ℤ) = n1 := by omega
  have ed : (d1.natAbs : ℤ) = d1 := by omega
  have hn : n1.natAbs ≠ 0 := by omega
  have hdn : d1.natAbs ≠ 0 := by omega
  have hgoal : n1 * (den2 : ℤ) - (num2 : ℤ) * d1
      = ((n1.natAbs * den2 : ℕ) : ℤ) - ((d1.natAbs * num2 : ℕ) : ℤ) := by
    rw [Nat.cast_mul, Nat.cast_mul, e1, ed]; ring
  rw [size_of_pos pos1, size_of_pos hd1]
  have ln := limbs_pos hn
  have ld := limbs_pos hdn
  have one_le : ∀ x : ℕ, x ≠ 0 → B ^ (1 - 1) ≤ x := by intro x hx; simp; omega
  by_cases c1 : ((limbs n1.natAbs : ℕ) : ℤ) > ((limbs d1.natAbs : ℕ) : ℤ) + 1
  · rw [if_pos c1]
    refine ⟨_, rfl, ?_⟩
    have h : num2 * d1.natAbs < n1.natAbs * den2 :=
      prod_lt_of_counts (r := 1) B_pos (by simpa using hb1) (limbs_ub _).le (limbs_lb hn) (one_le _ hden2)
        ln (le_refl 1) (by omega)
    have : 0 < ((n1.natAbs * den2 : ℕ) : ℤ) - ((d1.natAbs * num2 : ℕ) : ℤ) := by
      rw [Nat.mul_comm d1.natAbs]; omega
    rw [hgoal, Int.sign_eq_one_of_pos this, Int.sign_eq_one_of_pos (by omega)]
  rw [if_neg c1]
  by_cases c2 : ((limbs d1.natAbs : ℕ) : ℤ) > ((limbs n1.natAbs : ℕ) : ℤ) + 1
  · rw [if_pos c2]
    refine ⟨_, rfl, ?_⟩
    have h : n1.natAbs * den2 < d1.natAbs * num2 :=
      prod_lt_of_counts (s := 1) B_pos (limbs_ub _) (by simpa using hb2.le) (limbs_lb hdn) (one_le _ z2)
        ld (le_refl 1) (by omega)
    have : ((n1.natAbs * den2 : ℕ) : ℤ) - ((d1.natAbs * num2 : ℕ) : ℤ) < 0 := by omega
    rw [hgoal, Int.sign_eq_neg_one_of_neg this, Int.sign_eq_neg_one_of_neg (by omega)]
  rw [if_neg c2]
  refine ⟨_, rfl, ?_⟩
  rw [hgoal]
  split_ifs with h
  · exact sign_limb_diff h
  · exact sign_cmpNat _ _


/-- equal `Int.sign` means the same trichotomy class -/
theorem tri_of_sign_eq {c S : ℤ} (h : Int.sign c = Int.sign S) :
    (c < 0 ↔ S < 0) ∧ (c = 0 ↔ S = 0) ∧ (0 < c ↔ 0 < S) := by
  rcases lt_trichotomy c 0 with hc | hc | hc <;> rcases lt_trichotomy S 0 with hS | hS | hS
  all_goals
    first
      | (rw [Int.sign_eq_neg_one_of_neg hc] at h)
      | (subst hc; rw [Int.sign_zero] at h)
      | (rw [Int.sign_eq_one_of_pos hc] at h)
  all_goals
    first
      | (rw [Int.sign_eq_neg_one_of_neg hS] at h)
      | (subst hS; rw [Int.sign_zero] at h)
      | (rw [Int.sign_eq_one_of_pos hS] at h)
  all_goals omega

/-- order of two fractions with positive denominators through the cross products -/
theorem toRat_tri {a : Q} {n d : ℤ} (ha : 0 < a.den) (hd : 0 < d) :
    (a.toRat < (n : ℚ) / d ↔ a.num * d - n * a.den < 0) ∧
    (a.toRat = (n : ℚ) / d ↔ a.num * d - n * a.den = 0) ∧
    ((n : ℚ) / d < a.toRat ↔ 0 < a.num * d - n * a.den) := by
  unfold Q.toRat
  have x1 : (0 : ℚ) < a.den := by exact_mod_cast ha
  have x2 : (0 : ℚ) < d := by exact_mod_cast hd
  refine ⟨?_, ?_, ?_⟩
  · rw [div_lt_div_iff₀ x1 x2]
    constructor
    · intro h; have : a.num * d < n * a.den := by exact_mod_cast h
      omega
    · intro h; have : a.num * d < n * a.den := by omega
      exact_mod_cast this
  · rw [div_eq_div_iff x1.ne' x2.ne']
    constructor
    · intro h; have : a.num * d = n * a.den := by exact_mod_cast h
      omega
    · intro h; have : a.num * d = n * a.den := by omega
      exact_mod_cast this
  · rw [div_lt_div_iff₀ x2 x1]
    constructor
    · intro h; have : n * a.den < a.num * d := by exact_mod_cast h
      omega
    · intro h; have : n * a.den < a.num * d := by omega
      exact_mod_cast this

theorem cmp_si_sign {n1 d1 n : ℤ} {d : Nat} (h : Heap) (q : Nat) (hq : h q = ⟨n1, d1⟩)
    (hd1 : 0 < d1) (hd : d ≠ 0) (hb : d < B) (hn : n.natAbs < B) :
    ∃ c, cmp_si q n d h = some c ∧ Int.sign c = Int.sign (n1 * (d : ℤ) - n * d1) := by
  unfold cmp_si
  rw [hq]
  simp only []
  have hd' : (0 : ℤ) < (d : ℤ) := by omega
  by_cases p1 : n1 ≥ 0
  · rw [if_pos p1]
    by_cases p2 : n ≥ 0
    · rw [if_pos p2]
      obtain ⟨c, hc, hs⟩ := cmpUiVal_sign (n1 := n1) hd1 hd hn hb
      refine ⟨c, hc, ?_⟩
      have e2 : (n.natAbs : ℤ) = n := by omega
      rw [hs, e2]
    · rw [if_neg p2]
      refine ⟨1, rfl, ?_⟩
      have : 0 < n1 * (d : ℤ) - n * d1 := by
        have h1 : 0 ≤ n1 * (d : ℤ) := mul_nonneg p1 hd'.le
        have h2 : n * d1 < 0 := mul_neg_of_neg_of_pos (by omega) hd1
        omega
      rw [Int.sign_eq_one_of_pos this]; rfl
  · rw [if_neg p1]
    by_cases p2 : n ≥ 0
    · rw [if_pos p2]
      refine ⟨-1, rfl, ?_⟩
      have : n1 * (d : ℤ) - n * d1 < 0 := by
        have h1 : n1 * (d : ℤ) < 0 := mul_neg_of_neg_of_pos (by omega) hd'
        have h2 : 0 ≤ n * d1 := mul_nonneg p2 hd1.le
        omega
      rw [Int.sign_eq_neg_one_of_neg this]; rfl
    · rw [if_neg p2]
      obtain ⟨c, hc, hs⟩ := cmpUiVal_sign (n1 := (n1.natAbs : ℤ)) hd1 hd hn hb
      refine ⟨-c, by rw [hc]; rfl, ?_⟩
      rw [Int.sign_neg, hs, ← Int.sign_neg]
      congr 1
      have e1 : (n1.natAbs : ℤ) = -n1 := by omega
      have e2 : (n.natAbs : ℤ) = -n := by omega
      rw [e1, e2]; ring

end Mpir.Mpq
