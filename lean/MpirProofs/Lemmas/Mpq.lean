/- Helper lemmas for the mpq model (C12 / C11). -/
import Mpir.Model.Mpq
import MpirProofs.Lemmas.Base
namespace Mpir.Mpq
end Mpir.Mpq
