/- mpn_gcdext_1 (Euclid variant): the signed-word cofactors never wrap, and the result is
   (gcd, Bezout cofactors) with both cofactors in the mp_limb_signed_t range.
   Also: the executable SPEC helper `xgcd` is a correct extended Euclid. -/
import MpirProofs.Lemmas.Gcd
import Mathlib.Tactic.LinearCombination
import Mathlib.Tactic.NormNum
namespace Mpir.Gcd
open Mpir

/-! ### wrapS is the identity on the signed-word range -/

theorem wrapS_id (x : Int) (h1 : -(2:Int) ^ 63 ≤ x) (h2 : x < 2 ^ 63) : wrapS x = x := by
  unfold wrapS toSigned
  rw [B_eq]
  push_cast
  have h3 : (0:Int) ≤ x % 18446744073709551616 := Int.emod_nonneg _ (by norm_num)
  have h4 : x % 18446744073709551616 < 18446744073709551616 :=
    Int.emod_lt_of_pos _ (by norm_num)
  split <;> omega

example : wrapS (-9223372036854775808) = -9223372036854775808 := by decide
example : wrapS 9223372036854775807 = 9223372036854775807 := by decide
example : wrapS 9223372036854775808 = -9223372036854775808 := by decide

/-! ### one Euclid step on the cofactor invariants (pure integer arithmetic)

State (a, b, u0, v0, u1, v1) for inputs A, C:
  a = u0 A + v0 C,  b = u1 A + v1 C,  u0 ≥ 0 ≥ v0,  u1 ≤ 0 ≤ v1,
  u0 b - u1 a = C,  v1 a - v0 b = A.
Replacing a by r = a - q b (0 < r < b) and (u0, v0) by (u0 - q u1, v0 - q v1) keeps all of
this, and since b ≥ 2 the new cofactors are bounded by C/2 and A/2. -/

theorem gcdext1_step (A C a b q u0 v0 u1 v1 : Int) (hq : 0 ≤ q)
    (hr0 : 0 < a - q * b) (hrb : a - q * b < b)
    (ha : a = u0 * A + v0 * C) (hb : b = u1 * A + v1 * C)
    (_s1 : 0 ≤ u0) (_s2 : v0 ≤ 0) (s3 : u1 ≤ 0) (s4 : 0 ≤ v1)
    (d1 : u0 * b - u1 * a = C) (d2 : v1 * a - v0 * b = A)
    (hA : A < 2 ^ 64) (hC : C < 2 ^ 64) :
    a - q * b = (u0 - q * u1) * A + (v0 - q * v1) * C ∧
    0 ≤ u0 - q * u1 ∧ v0 - q * v1 ≤ 0 ∧
    (u0 - q * u1) * b - u1 * (a - q * b) = C ∧
    v1 * (a - q * b) - (v0 - q * v1) * b = A ∧
    u0 - q * u1 < 2 ^ 63 ∧ -(2:Int) ^ 63 ≤ v0 - q * v1 := by
  have e1 : (u0 - q * u1) * b - u1 * (a - q * b) = C := by linear_combination d1
  have e2 : v1 * (a - q * b) - (v0 - q * v1) * b = A := by linear_combination d2
  have hb2 : 2 ≤ b := by omega
  have p1 : q * u1 ≤ 0 := mul_nonpos_of_nonneg_of_nonpos hq s3
  have p2 : 0 ≤ q * v1 := mul_nonneg hq s4
  have n1 : 0 ≤ u0 - q * u1 := by linarith
  have n2 : v0 - q * v1 ≤ 0 := by linarith
  have p3 : u1 * (a - q * b) ≤ 0 := mul_nonpos_of_nonpos_of_nonneg s3 (le_of_lt hr0)
  have p4 : 0 ≤ v1 * (a - q * b) := mul_nonneg s4 (le_of_lt hr0)
  have p5 : (u0 - q * u1) * 2 ≤ (u0 - q * u1) * b := mul_le_mul_of_nonneg_left hb2 n1
  have p6 : (v0 - q * v1) * b ≤ (v0 - q * v1) * 2 := mul_le_mul_of_nonpos_left hb2 n2
  refine ⟨by linear_combination ha - q * hb, n1, n2, e1, e2, ?_, ?_⟩
  · norm_num at hC ⊢; linarith
  · norm_num at hA ⊢; linarith

/-! ### the loop -/

theorem natCast_sub_div_mul (a b : Nat) : ((a - a / b * b : Nat) : Int) = (a : Int) - ((a / b : Nat) : Int) * b := by
  have h : a / b * b ≤ a := Nat.div_mul_le_self a b
  rw [Nat.cast_sub h]; push_cast; rfl

theorem sub_div_mul_eq_mod (a b : Nat) : a - a / b * b = a % b := by
  have h1 : a / b * b ≤ a := Nat.div_mul_le_self a b
  have h2 := Nat.div_add_mod a b
  rw [Nat.mul_comm] at h2
  omega

theorem gcdext1Loop_spec (A C : Nat) (hA : A < 2 ^ 64) (hC : C < 2 ^ 64) :
    ∀ (f : Nat) (atB : Bool) (a b : Nat) (u0 v0 u1 v1 : Int),
      0 < a → 0 < b → a + b ≤ f →
      (atB = true → a < b) → (atB = false → b ≤ a) →
      Nat.gcd a b = Nat.gcd A C →
      (a : Int) = u0 * A + v0 * C → (b : Int) = u1 * A + v1 * C →
      0 ≤ u0 → v0 ≤ 0 → u1 ≤ 0 → 0 ≤ v1 →
      u0 * b - u1 * a = C → v1 * a - v0 * b = A →
      u0 < 2 ^ 63 → -(2:Int) ^ 63 ≤ v0 → -(2:Int) ^ 63 ≤ u1 → v1 < 2 ^ 63 →
      (gcdext1Loop f atB a b u0 v0 u1 v1).1 = Nat.gcd A C ∧
      (A : Int) * (gcdext1Loop f atB a b u0 v0 u1 v1).2.1
        + (C : Int) * (gcdext1Loop f atB a b u0 v0 u1 v1).2.2 = Nat.gcd A C ∧
      -(2:Int) ^ 63 ≤ (gcdext1Loop f atB a b u0 v0 u1 v1).2.1 ∧
      (gcdext1Loop f atB a b u0 v0 u1 v1).2.1 < 2 ^ 63 ∧
      -(2:Int) ^ 63 ≤ (gcdext1Loop f atB a b u0 v0 u1 v1).2.2 ∧
      (gcdext1Loop f atB a b u0 v0 u1 v1).2.2 < 2 ^ 63
  | 0, atB, a, b, u0, v0, u1, v1 => by intro h1 h2 h3; omega
  | f + 1, false, a, b, u0, v0, u1, v1 => by
    intro ha0 hb0 hf _ hle hg ea eb s1 s2 s3 s4 d1 d2 r1 r2 r3 r4
    have hle : b ≤ a := hle rfl
    have hAi : (A : Int) < 2 ^ 64 := by exact_mod_cast hA
    have hCi : (C : Int) < 2 ^ 64 := by exact_mod_cast hC
    unfold gcdext1Loop
    simp only
    have hmod := sub_div_mul_eq_mod a b
    have hcast := natCast_sub_div_mul a b
    by_cases hz : a - a / b * b = 0
    · rw [if_pos hz]
      have hdvd : a % b = 0 := by omega
      have hgb : Nat.gcd a b = b := by
        rw [Nat.gcd_comm]; exact Nat.gcd_eq_left (Nat.dvd_of_mod_eq_zero hdvd)
      refine ⟨by rw [← hg, hgb], ?_, r3, by linarith, by linarith, r4⟩
      show (A : Int) * u1 + (C : Int) * v1 = Nat.gcd A C
      rw [← hg, hgb, eb]; ring
    · rw [if_neg hz]
      have hrpos : 0 < a - a / b * b := Nat.pos_of_ne_zero hz
      have hrlt : a - a / b * b < b := by rw [hmod]; exact Nat.mod_lt _ hb0
      have hq : (0:Int) ≤ ((a / b : Nat) : Int) := Int.natCast_nonneg _
      obtain ⟨k1, k2, k3, k4, k5, k6, k7⟩ :=
        gcdext1_step A C a b ((a / b : Nat) : Int) u0 v0 u1 v1 hq
          (by rw [← hcast]; exact_mod_cast hrpos) (by rw [← hcast]; exact_mod_cast hrlt)
          ea eb s1 s2 s3 s4 d1 d2 hAi hCi
      have w1 : wrapS (u0 - ((a / b : Nat) : Int) * u1) = u0 - ((a / b : Nat) : Int) * u1 :=
        wrapS_id _ (by linarith) k6
      have w2 : wrapS (v0 - ((a / b : Nat) : Int) * v1) = v0 - ((a / b : Nat) : Int) * v1 :=
        wrapS_id _ k7 (by linarith)
      rw [w1, w2]
      refine gcdext1Loop_spec A C hA hC f true (a - a / b * b) b _ _ u1 v1 hrpos hb0
        (by omega) (fun _ => hrlt) (by intro h; cases h) ?_ (by rw [hcast]; exact k1) eb
        k2 k3 s3 s4 (by rw [hcast]; exact k4) (by rw [hcast]; exact k5) k6 k7 r3 r4
      rw [hmod, ← hg, Nat.gcd_comm (a % b) b, Nat.gcd_comm a b, Nat.gcd_rec b a]
      exact Nat.gcd_comm _ _
  | f + 1, true, a, b, u0, v0, u1, v1 => by
    intro ha0 hb0 hf hlt _ hg ea eb s1 s2 s3 s4 d1 d2 r1 r2 r3 r4
    have hlt : a < b := hlt rfl
    have hAi : (A : Int) < 2 ^ 64 := by exact_mod_cast hA
    have hCi : (C : Int) < 2 ^ 64 := by exact_mod_cast hC
    unfold gcdext1Loop
    simp only
    have hmod := sub_div_mul_eq_mod b a
    have hcast := natCast_sub_div_mul b a
    by_cases hz : b - b / a * a = 0
    · rw [if_pos hz]
      have hdvd : b % a = 0 := by omega
      have hga : Nat.gcd a b = a := Nat.gcd_eq_left (Nat.dvd_of_mod_eq_zero hdvd)
      refine ⟨by rw [← hg, hga], ?_, by linarith, r1, r2, by linarith⟩
      show (A : Int) * u0 + (C : Int) * v0 = Nat.gcd A C
      rw [← hg, hga, ea]; ring
    · rw [if_neg hz]
      have hrpos : 0 < b - b / a * a := Nat.pos_of_ne_zero hz
      have hrlt : b - b / a * a < a := by rw [hmod]; exact Nat.mod_lt _ ha0
      have hq : (0:Int) ≤ ((b / a : Nat) : Int) := Int.natCast_nonneg _
      -- the mirrored instance: (a,b,u0,v0,u1,v1,A,C) ↦ (b,a,v1,u1,v0,u0,C,A)
      obtain ⟨k1, k2, k3, k4, k5, k6, k7⟩ :=
        gcdext1_step C A b a ((b / a : Nat) : Int) v1 u1 v0 u0 hq
          (by rw [← hcast]; exact_mod_cast hrpos) (by rw [← hcast]; exact_mod_cast hrlt)
          (by rw [eb]; ring) (by rw [ea]; ring) s4 s3 s2 s1 d2 d1 hCi hAi
      have w1 : wrapS (u1 - ((b / a : Nat) : Int) * u0) = u1 - ((b / a : Nat) : Int) * u0 :=
        wrapS_id _ k7 (by linarith)
      have w2 : wrapS (v1 - ((b / a : Nat) : Int) * v0) = v1 - ((b / a : Nat) : Int) * v0 :=
        wrapS_id _ (by linarith) k6
      rw [w1, w2]
      refine gcdext1Loop_spec A C hA hC f false a (b - b / a * a) u0 v0 _ _ ha0 hrpos
        (by omega) (by intro h; cases h) (fun _ => le_of_lt hrlt) ?_ ea
        (by rw [hcast, k1]; ring)
        s1 s2 k3 k2 (by rw [hcast]; exact k5) (by rw [hcast]; exact k4) r1 r2 k7 k6
      rw [hmod, ← hg, Nat.gcd_comm a (b % a), Nat.gcd_rec a b]

/-- mpn_gcdext_1 on two non-zero limbs: g = gcd(a, b), a·u + b·v = g, and both cofactors fit
    in mp_limb_signed_t (so no intermediate store in the C loop wraps). -/
theorem gcdext_1_spec (a b : Nat) (ha : 0 < a) (hb : 0 < b) (haB : a < B) (hbB : b < B) :
    (gcdext_1 a b).1 = Nat.gcd a b ∧
    (a : Int) * (gcdext_1 a b).2.1 + (b : Int) * (gcdext_1 a b).2.2 = Nat.gcd a b ∧
    -(2:Int)^63 ≤ (gcdext_1 a b).2.1 ∧ (gcdext_1 a b).2.1 < 2^63 ∧
    -(2:Int)^63 ≤ (gcdext_1 a b).2.2 ∧ (gcdext_1 a b).2.2 < 2^63 := by
  rw [B_eq] at haB hbB
  unfold gcdext_1
  exact gcdext1Loop_spec a b (by norm_num; exact haB) (by norm_num; exact hbB)
    (a + b) (decide (a < b)) a b 1 0 0 1 ha hb (le_refl _)
    (by simp) (by simp) rfl (by ring) (by ring)
    (by norm_num) (le_refl _) (le_refl _) (by norm_num) (by ring) (by ring)
    (by norm_num) (by norm_num) (by norm_num) (by norm_num)

example : gcdext_1 240 46 = (2, -9, 47) := by decide
example : gcdext_1 46 240 = (2, 47, -9) := by decide

/-! ### the SPEC helper xgcd -/

theorem xgcdAux_spec (a b : Nat) :
    ∀ (f n0 n1 : Nat) (s0 t0 s1 t1 : Int), n1 < f →
      Nat.gcd n0 n1 = Nat.gcd a b →
      (n0 : Int) = (a : Int) * s0 + (b : Int) * t0 →
      (n1 : Int) = (a : Int) * s1 + (b : Int) * t1 →
      (xgcdAux f n0 s0 t0 n1 s1 t1).1 = (Nat.gcd a b : Int) ∧
      (a : Int) * (xgcdAux f n0 s0 t0 n1 s1 t1).2.1
        + (b : Int) * (xgcdAux f n0 s0 t0 n1 s1 t1).2.2 = (Nat.gcd a b : Int)
  | 0, n0, n1, s0, t0, s1, t1 => by intro h; omega
  | f + 1, n0, n1, s0, t0, s1, t1 => by
    intro hf hg e0 e1
    unfold xgcdAux
    by_cases hz : (n1 : Int) = 0
    · rw [if_pos hz]
      have hn : n1 = 0 := by exact_mod_cast hz
      rw [hn, Nat.gcd_zero_right] at hg
      refine ⟨by show (n0 : Int) = _; rw [hg], ?_⟩
      show (a : Int) * s0 + (b : Int) * t0 = _
      rw [← e0, hg]
    · rw [if_neg hz]
      have hn : 0 < n1 := Nat.pos_of_ne_zero (fun h => hz (by rw [h]; rfl))
      have hr : (n0 : Int) - (n0 : Int) / (n1 : Int) * (n1 : Int) = ((n0 % n1 : Nat) : Int) := by
        rw [Int.natCast_mod, Int.emod_def]; ring
      simp only
      rw [hr]
      refine xgcdAux_spec a b f n1 (n0 % n1) s1 t1 _ _ ?_ ?_ e1 ?_
      · have := Nat.mod_lt n0 hn; omega
      · rw [← hg, Nat.gcd_comm n0 n1, Nat.gcd_rec n1 n0, Nat.gcd_comm]
      · rw [← hr, e0, e1]; ring

/-- `xgcd` (the executable extended-Euclid SPEC helper) returns (gcd, Bezout cofactors). -/
theorem xgcd_spec (a b : Nat) :
    let r := xgcd a b
    r.1 = Nat.gcd a b ∧ (a : Int) * r.2.1 + (b : Int) * r.2.2 = Nat.gcd a b := by
  intro r
  exact xgcdAux_spec a b (b + 1) a b 1 0 0 1 (Nat.lt_succ_self b) rfl (by ring) (by ring)

example : xgcd 240 46 = (2, -9, 47) := by decide
example : xgcd 0 5 = (5, 0, 1) := by decide

end Mpir.Gcd
