/- mpn_rootrem_internal: the bit-size schedule `sizes[]` (rootrem.c:215-238) — chain property, length — and the
   induction of the Newton loop over it. -/
import MpirProofs.Lemmas.RootremInt
import Mathlib.Data.List.Chain
namespace Mpir.Rootrem
open Mpir Mpir.Root

/-! ### the schedule -/

/-- relation between consecutive entries `a = sizes[i-1]`, `c = sizes[i]` (rootrem.c:235-236 "sizes[i] <= 2 * sizes[i+1]"
    in the precise form the round needs): strictly decreasing, and either `c ≥ ⌈(a + logk)/2⌉` or one bit at a time. -/
def SchedOK (logk a c : Nat) : Prop := c < a ∧ (a + logk ≤ 2 * c ∨ a = c + 1)

theorem rrSizes_head (logk : Nat) : ∀ (fuel b y : Nat), (rrSizes logk fuel b).head? = some y → y = b
  | 0, b, y, h => by simp [rrSizes] at h
  | fuel + 1, b, y, h => by
    unfold rrSizes at h
    by_cases hb : b = 0
    · rw [if_pos hb] at h; simp at h; omega
    · rw [if_neg hb] at h; simp at h; omega

theorem rrSizes_chain (logk : Nat) : ∀ (fuel b : Nat), List.IsChain (SchedOK logk) (rrSizes logk fuel b)
  | 0, b => by simp [rrSizes]
  | fuel + 1, b => by
    unfold rrSizes
    by_cases hb : b = 0
    · rw [if_pos hb]; exact List.isChain_singleton _
    · rw [if_neg hb]
      dsimp only
      rw [List.isChain_cons]
      refine ⟨?_, rrSizes_chain logk fuel _⟩
      intro y hy
      have := rrSizes_head logk fuel _ y hy
      subst this
      unfold SchedOK
      split <;> omega

theorem rrSizes_le (logk : Nat) : ∀ (fuel b x : Nat), x ∈ rrSizes logk fuel b → x ≤ b
  | 0, b, x, h => by simp [rrSizes] at h
  | fuel + 1, b, x, h => by
    unfold rrSizes at h
    by_cases hb : b = 0
    · rw [if_pos hb] at h; simp at h; omega
    · rw [if_neg hb] at h
      dsimp only at h
      rcases List.mem_cons.mp h with h | h
      · omega
      · have := rrSizes_le logk fuel _ x h
        split at this <;> omega

/-- the one-bit-at-a-time tail: from `b ≤ logk + 1` the schedule is `b, b-1, …, 0`. -/
theorem rrSizes_tail (logk : Nat) : ∀ (b fuel : Nat), b ≤ logk + 1 → b + 1 ≤ fuel →
    (rrSizes logk fuel b).length = b + 1 ∧ (rrSizes logk fuel b).getLast? = some 0
  | 0, fuel, _, hf => by
    obtain ⟨f, rfl⟩ : ∃ f, fuel = f + 1 := ⟨fuel - 1, by omega⟩
    simp [rrSizes]
  | b + 1, fuel, hb, hf => by
    obtain ⟨f, rfl⟩ : ∃ f, fuel = f + 1 := ⟨fuel - 1, by omega⟩
    unfold rrSizes
    rw [if_neg (by omega)]
    dsimp only
    have hc : (b + 1 + logk + 1) / 2 ≥ b + 1 := by omega
    rw [if_pos hc]
    obtain ⟨i1, i2⟩ := rrSizes_tail logk b f (by omega) (by omega)
    have e : b + 1 - 1 = b := by omega
    rw [e]
    refine ⟨by simp [i1], ?_⟩
    have hne : rrSizes logk f b ≠ [] := by
      intro h0; rw [h0] at i1; simp at i1
    rw [List.getLast?_cons_of_ne_nil hne] <;> exact i2

/-- length of the schedule: `b − (logk+1)` halves at every step of the first phase, then `logk + 1` single bits. -/
theorem rrSizes_len (logk : Nat) : ∀ (j b fuel : Nat), b < logk + 1 + 2 ^ j → j + logk + 2 ≤ fuel →
    (rrSizes logk fuel b).length ≤ j + logk + 2 ∧ (rrSizes logk fuel b).getLast? = some 0
  | 0, b, fuel, hb, hf => by
    obtain ⟨i1, i2⟩ := rrSizes_tail logk b fuel (by simp at hb; omega) (by simp at hb; omega)
    simp at hb
    exact ⟨by omega, i2⟩
  | j + 1, b, fuel, hb, hf => by
    by_cases hs : b ≤ logk + 1
    · obtain ⟨i1, i2⟩ := rrSizes_tail logk b fuel hs (by omega)
      exact ⟨by omega, i2⟩
    · obtain ⟨f, rfl⟩ : ∃ f, fuel = f + 1 := ⟨fuel - 1, by omega⟩
      unfold rrSizes
      rw [if_neg (by omega)]
      dsimp only
      have hc : ¬ (b + logk + 1) / 2 ≥ b := by omega
      rw [if_neg hc]
      have h2 : 2 ^ (j + 1) = 2 * 2 ^ j := by rw [pow_succ]; ring
      obtain ⟨i1, i2⟩ := rrSizes_len logk j ((b + logk + 1) / 2) f (by omega) (by omega)
      refine ⟨by simp; omega, ?_⟩
      have hne : rrSizes logk f ((b + logk + 1) / 2) ≠ [] := by
        intro h0; rw [h0] at i2; simp at i2
      rw [List.getLast?_cons_of_ne_nil hne]; exact i2

/-- `logk` of rootrem.c:211-213 for `k ≥ 2`: `2^(logk−1) < k ≤ 2^logk`. -/
theorem logk_spec (k : Nat) (hk : 2 ≤ k) :
    (if bitLen (k - 1) = 0 then 1 else bitLen (k - 1)) = bitLen (k - 1) ∧
    2 ^ (bitLen (k - 1) - 1) < k ∧ k ≤ 2 ^ bitLen (k - 1) ∧ 1 ≤ bitLen (k - 1) := by
  obtain ⟨b1, b2, b3⟩ := bitLen_spec (k - 1) (by omega)
  refine ⟨by rw [if_neg (by omega)], by omega, by omega, b3⟩

/-- `ASSERT_ALWAYS (ni < GMP_NUMB_BITS + 1)` (rootrem.c:234) holds for every operand of at most 2^62 bits: the
    schedule built from `b = xnb − 1` ends in 0 and has at most 65 entries (`ni ≤ 64`). -/
theorem rrSizes_fits (k T : Nat) (hk : 2 ≤ k) (hT : 1 ≤ T) (hsz : T * k < 2 ^ 62) :
    (rrSizes (bitLen (k - 1)) 66 T).length ≤ 65 ∧ (rrSizes (bitLen (k - 1)) 66 T).getLast? = some 0 := by
  obtain ⟨-, l1, l2, l3⟩ := logk_spec k hk
  generalize bitLen (k - 1) = logk at *
  have h1 : T * 2 ^ (logk - 1) < 2 ^ 62 :=
    Nat.lt_of_le_of_lt (Nat.mul_le_mul_left _ (Nat.le_of_lt l1)) hsz
  have hlk : logk - 1 < 62 := by
    have : 2 ^ (logk - 1) < 2 ^ 62 := Nat.lt_of_le_of_lt (Nat.le_mul_of_pos_left _ hT) h1
    exact (Nat.pow_lt_pow_iff_right (by norm_num)).mp this
  have hTlt : T < 2 ^ (63 - logk) := by
    have e : (2 : Nat) ^ 62 = 2 ^ (63 - logk) * 2 ^ (logk - 1) := by
      rw [← pow_add]; congr 1; omega
    rw [e] at h1
    exact Nat.lt_of_mul_lt_mul_right h1
  obtain ⟨i1, i2⟩ := rrSizes_len logk (63 - logk) T 66 (by omega) (by omega)
  exact ⟨by omega, i2⟩

/-! ### one round, any `approx` -/

/-- the candidate of one round (`S·2^b + Q`, clamp included) is the floor root of `⌊U/2^kk'⌋` or one above, keeps its
    limb count when decremented, and the round continues with the correction loop / the approx exit on it. -/
theorem rrStep_gen (U k b S kk' next : Nat) (last approx : Bool) (hk : 2 ≤ k) (hb : 1 ≤ b) (hSpos : 0 < S)
    (hS1 : S ^ k ≤ U / 2 ^ (kk' + k * b)) (hS2 : U / 2 ^ (kk' + k * b) < (S + 1) ^ k)
    (hSlt : (S + 1) * 2 ^ b ≤ 2 ^ (next + 1)) (hnext : 2 ^ next ≤ S * 2 ^ b)
    (hc : k * 2 ^ b ≤ S ∨ b = 1) :
    ∃ C W0, iroot k (U / 2 ^ kk') ≤ C ∧ C ≤ iroot k (U / 2 ^ kk') + 1 ∧
      B ^ (limbLen C - 1) ≤ iroot k (U / 2 ^ kk') ∧
      rrStep U k b last approx (S, U / 2 ^ (kk' + k * b) - S ^ k, S ^ (k - 1), kk' + k * b) =
        (if last then
          (if (approx && decide (C % B > 1)) = true then some (C, U / 2 ^ kk', W0, kk', true)
           else (rrCorrect k (U / 2 ^ kk') (limbLen C) C W0 false).map fun (S, R, W) => (S, R, W, kk', false))
         else (rrCorrect k (U / 2 ^ kk') (limbLen C) C W0 true).map fun (S, R, W) => (S, R, W, kk', approx)) := by
  have hk1 : k - 1 + 1 = k := by omega
  have hkb : k * b = (k - 1) * b + b := by
    conv_lhs => rw [← hk1]
    ring
  have e1 : kk' + k * b - b = kk' + (k - 1) * b := by omega
  have e2 : kk' + (k - 1) * b - (k - 1) * b = kk' := by omega
  obtain ⟨β, hβ⟩ : ∃ β, β = 2 ^ b := ⟨_, rfl⟩
  have hβ1 : 1 ≤ β := by rw [hβ]; exact Nat.one_le_two_pow
  obtain ⟨U', hU'⟩ : ∃ U', U' = U / 2 ^ kk' := ⟨_, rfl⟩
  have d1 : U / 2 ^ (kk' + (k - 1) * b) = U' / β ^ (k - 1) := by
    rw [hU', hβ, Nat.div_div_eq_div_mul, ← pow_mul, ← pow_add, Nat.mul_comm b]
  have d2 : U / 2 ^ (kk' + k * b) = U' / β ^ k := by
    rw [hU', hβ, Nat.div_div_eq_div_mul, ← pow_mul, ← pow_add, Nat.mul_comm b]
  have d3 : U' / β ^ k = U' / β ^ (k - 1) / β := by
    rw [Nat.div_div_eq_div_mul, ← pow_succ, hk1]
  rw [d2] at hS1 hS2
  have hβk : 0 < β ^ k := pow_pos (by omega) _
  have h1 : S ^ k * β ^ k ≤ U' := Nat.le_trans (Nat.mul_le_mul_right _ hS1) (Nat.div_mul_le_self _ _)
  have h2 : U' < (S + 1) ^ k * β ^ k := by
    have := Nat.lt_mul_div_succ U' hβk
    calc U' < β ^ k * (U' / β ^ k + 1) := this
      _ ≤ β ^ k * (S + 1) ^ k := Nat.mul_le_mul_left _ hS2
      _ = (S + 1) ^ k * β ^ k := Nat.mul_comm _ _
  have hc' : k * β ≤ S ∨ β = 2 := by
    rcases hc with h | h
    · left; rw [hβ]; exact h
    · right; rw [hβ, h]; rfl
  obtain ⟨n1, n2, n3, n4, n5⟩ := newton_round k S β U' hk hSpos hβ1 h1 h2 hc'
  unfold rrStep
  dsimp only
  simp only [Nat.shiftRight_eq_div_pow]
  rw [e1, e2, d1, d2, ← hβ, ← hU']
  have hR1 : (U' / β ^ k - S ^ k) * β + U' / β ^ (k - 1) % β = U' / β ^ (k - 1) - S ^ k * β := by
    rw [d3] at hS1 ⊢
    have := Nat.div_add_mod (U' / β ^ (k - 1)) β
    rw [Nat.sub_mul]
    have : S ^ k * β ≤ U' / β ^ (k - 1) / β * β := Nat.mul_le_mul_right _ hS1
    have e : β * (U' / β ^ (k - 1) / β) = U' / β ^ (k - 1) / β * β := Nat.mul_comm _ _
    omega
  rw [hR1, Nat.mul_comm (S ^ (k - 1)) k]
  generalize hQ : (if (U' / β ^ (k - 1) - S ^ k * β) / (k * S ^ (k - 1)) ≥ β then β - 1
      else (U' / β ^ (k - 1) - S ^ k * β) / (k * S ^ (k - 1))) = Q at n1 n2 n5
  have hS1lt : S * β + Q < 2 ^ (next + 1) := by
    have : (S + 1) * β = S * β + β := by ring
    rw [← hβ] at hSlt; omega
  have hlo : B ^ (limbLen (S * β + Q) - 1) ≤ iroot k U' := by
    have hl : limbLen (S * β + Q) ≤ next / 64 + 1 := by
      rw [limbLen_le_iff]
      refine Nat.lt_of_lt_of_le hS1lt ?_
      unfold B; rw [← pow_mul]
      exact Nat.pow_le_pow_right (by norm_num) (by omega)
    calc B ^ (limbLen (S * β + Q) - 1) ≤ B ^ (next / 64) := Nat.pow_le_pow_right B_pos (by omega)
      _ = 2 ^ (64 * (next / 64)) := by unfold B; rw [← pow_mul]
      _ ≤ 2 ^ next := Nat.pow_le_pow_right (by norm_num) (by omega)
      _ ≤ S * β := by rw [hβ]; exact hnext
      _ ≤ iroot k U' := n3
  refine ⟨S * β + Q, k * S ^ (k - 1), n1, n2, hlo, ?_⟩
  cases last <;> simp

/-- a round that is not the last: the invariant is re-established, the `approx` flag is passed on. -/
theorem rrStep_spec_mid (U k b S kk' next : Nat) (approx : Bool) (hk : 2 ≤ k) (hb : 1 ≤ b) (hSpos : 0 < S)
    (hS1 : S ^ k ≤ U / 2 ^ (kk' + k * b)) (hS2 : U / 2 ^ (kk' + k * b) < (S + 1) ^ k)
    (hSlt : (S + 1) * 2 ^ b ≤ 2 ^ (next + 1)) (hnext : 2 ^ next ≤ S * 2 ^ b)
    (hc : k * 2 ^ b ≤ S ∨ b = 1) :
    rrStep U k b false approx (S, U / 2 ^ (kk' + k * b) - S ^ k, S ^ (k - 1), kk' + k * b) =
      some (iroot k (U / 2 ^ kk'), U / 2 ^ kk' - iroot k (U / 2 ^ kk') ^ k, iroot k (U / 2 ^ kk') ^ (k - 1), kk', approx) := by
  obtain ⟨C, W0, c1, c2, c3, e⟩ := rrStep_gen U k b S kk' next false approx hk hb hSpos hS1 hS2 hSlt hnext hc
  rw [e, rrCorrect_spec k _ _ _ _ true (by omega) c3 c1 c2]
  simp

/-- the last round: exact result, or — `approx` on and low limb of the candidate above 1 — the candidate itself
    (root or root + 1) with `R = U`. -/
theorem rrStep_spec_last (U k b S kk' next : Nat) (approx : Bool) (hk : 2 ≤ k) (hb : 1 ≤ b) (hSpos : 0 < S)
    (hS1 : S ^ k ≤ U / 2 ^ (kk' + k * b)) (hS2 : U / 2 ^ (kk' + k * b) < (S + 1) ^ k)
    (hSlt : (S + 1) * 2 ^ b ≤ 2 ^ (next + 1)) (hnext : 2 ^ next ≤ S * 2 ^ b)
    (hc : k * 2 ^ b ≤ S ∨ b = 1) :
    ∃ S' R' W' ap, rrStep U k b true approx (S, U / 2 ^ (kk' + k * b) - S ^ k, S ^ (k - 1), kk' + k * b) =
        some (S', R', W', kk', ap) ∧
      (ap = false → S' = iroot k (U / 2 ^ kk') ∧ R' = U / 2 ^ kk' - iroot k (U / 2 ^ kk') ^ k) ∧
      (ap = true → approx = true ∧ iroot k (U / 2 ^ kk') ≤ S' ∧ S' ≤ iroot k (U / 2 ^ kk') + 1 ∧ 1 < S' % B ∧
        R' = U / 2 ^ kk') := by
  obtain ⟨C, W0, c1, c2, c3, e⟩ := rrStep_gen U k b S kk' next true approx hk hb hSpos hS1 hS2 hSlt hnext hc
  rw [e]
  simp only [if_true]
  by_cases ha : (approx && decide (C % B > 1)) = true
  · rw [if_pos ha]
    simp only [Bool.and_eq_true, decide_eq_true_eq] at ha
    exact ⟨C, _, W0, true, rfl, by simp, fun _ => ⟨ha.1, c1, c2, ha.2, rfl⟩⟩
  · rw [if_neg ha, rrCorrect_spec k _ _ _ _ false (by omega) c3 c1 c2]
    exact ⟨_, _, _, false, rfl, fun _ => ⟨rfl, rfl⟩, by simp⟩

/-! ### the loop over the schedule -/

/-- bit count of the intermediate roots: with `2^(kT) ≤ U < 2^(k(T+1))` the root of `⌊U / 2^(k(T−h))⌋` has `h + 1` bits. -/
theorem iroot_trunc_bits (U k T h : Nat) (hk : 0 < k) (hh : h ≤ T) (hU1 : 2 ^ (k * T) ≤ U) (hU2 : U < 2 ^ (k * (T + 1))) :
    2 ^ h ≤ iroot k (U / 2 ^ (k * (T - h))) ∧ iroot k (U / 2 ^ (k * (T - h))) < 2 ^ (h + 1) := by
  have hpos : 0 < 2 ^ (k * (T - h)) := Nat.two_pow_pos _
  constructor
  · apply le_iroot hk
    rw [← pow_mul, Nat.le_div_iff_mul_le hpos, ← pow_add]
    refine Nat.le_trans (Nat.pow_le_pow_right (by norm_num) ?_) hU1
    rw [Nat.mul_comm h k, ← Nat.mul_add]; exact Nat.mul_le_mul_left _ (by omega)
  · apply iroot_lt hk
    rw [← pow_mul, Nat.div_lt_iff_lt_mul hpos, ← pow_add]
    refine Nat.lt_of_lt_of_le hU2 (Nat.pow_le_pow_right (by norm_num) ?_)
    rw [Nat.mul_comm (h + 1) k, ← Nat.mul_add]; exact Nat.mul_le_mul_left _ (by omega)

/-- the loop invariant of rootrem.c:244-250 at schedule entry `h` (`T = sizes[0]`). -/
def rrInv (U k T h : Nat) : Nat × Nat × Nat × Nat :=
  (iroot k (U / 2 ^ (k * (T - h))), U / 2 ^ (k * (T - h)) - iroot k (U / 2 ^ (k * (T - h))) ^ k,
    iroot k (U / 2 ^ (k * (T - h))) ^ (k - 1), k * (T - h))

/-- INDUCTION OVER THE SCHEDULE: from the invariant at the first entry of an ascending chain that ends in `T`, the
    loop returns the exact root and remainder (or, `approx` on, the last candidate). -/
theorem rrLoop_spec (U k T logk : Nat) (approx : Bool) (hk : 2 ≤ k) (hlk : k ≤ 2 ^ logk)
    (hU1 : 2 ^ (k * T) ≤ U) (hU2 : U < 2 ^ (k * (T + 1))) :
    ∀ (rest : List Nat) (hi lo : Nat),
      List.IsChain (fun c a => SchedOK logk a c) (hi :: lo :: rest) →
      (∀ x ∈ hi :: lo :: rest, x ≤ T) → (hi :: lo :: rest).getLast? = some T →
      ∃ S R ap, rrLoop U k approx (hi :: lo :: rest) (rrInv U k T hi) = some (S, R, ap) ∧
        (ap = false → S = iroot k U ∧ R = U - iroot k U ^ k) ∧
        (ap = true → approx = true ∧ iroot k U ≤ S ∧ S ≤ iroot k U + 1 ∧ 1 < S % B ∧ R = U) := by
  intro rest
  induction rest with
  | nil =>
    intro hi lo hch hle hlast
    have hloT : lo = T := by simpa using hlast
    subst hloT
    rw [List.isChain_cons_cons] at hch
    obtain ⟨⟨hlt, hcond⟩, -⟩ := hch
    obtain ⟨s1, s2⟩ := iroot_trunc_bits U k lo hi (by omega) (by omega) hU1 hU2
    obtain ⟨r1, r2⟩ := iroot_spec k (U / 2 ^ (k * (lo - hi))) (by omega)
    have ekk : k * (lo - hi) = 0 + k * (lo - hi) := by omega
    unfold rrInv
    generalize hS : iroot k (U / 2 ^ (k * (lo - hi))) = S at *
    rw [ekk] at r1 r2
    have hbpow : 2 ^ (hi + 1) * 2 ^ (lo - hi) = 2 ^ (lo + 1) := by rw [← pow_add]; congr 1; omega
    have hbpow2 : 2 ^ hi * 2 ^ (lo - hi) = 2 ^ lo := by rw [← pow_add]; congr 1; omega
    have hc : k * 2 ^ (lo - hi) ≤ S ∨ lo - hi = 1 := by
      rcases hcond with h | h
      · left
        calc k * 2 ^ (lo - hi) ≤ 2 ^ logk * 2 ^ (lo - hi) := Nat.mul_le_mul_right _ hlk
          _ = 2 ^ (logk + (lo - hi)) := by rw [← pow_add]
          _ ≤ 2 ^ hi := Nat.pow_le_pow_right (by norm_num) (by omega)
          _ ≤ S := s1
      · right; omega
    obtain ⟨S', R', W', ap, e, p1, p2⟩ := rrStep_spec_last U k (lo - hi) S 0 lo approx hk (by omega) (by omega) r1 r2
      (by rw [← hbpow]; exact Nat.mul_le_mul_right _ (by omega))
      (by rw [← hbpow2]; exact Nat.mul_le_mul_right _ s1) hc
    simp only [pow_zero, Nat.div_one] at e p1 p2
    rw [← ekk] at e
    refine ⟨S', R', ap, ?_, p1, p2⟩
    unfold rrLoop
    simp only [List.isEmpty_nil]
    rw [e]
    simp
  | cons nx rest' ih =>
    intro hi lo hch hle hlast
    rw [List.isChain_cons_cons] at hch
    obtain ⟨⟨hlt, hcond⟩, hch'⟩ := hch
    have hloT : lo ≤ T := hle lo (by simp)
    obtain ⟨s1, s2⟩ := iroot_trunc_bits U k T hi (by omega) (by omega) hU1 hU2
    obtain ⟨r1, r2⟩ := iroot_spec k (U / 2 ^ (k * (T - hi))) (by omega)
    have ekk : k * (T - hi) = k * (T - lo) + k * (lo - hi) := by rw [← Nat.mul_add]; congr 1; omega
    have hbpow : 2 ^ (hi + 1) * 2 ^ (lo - hi) = 2 ^ (lo + 1) := by rw [← pow_add]; congr 1; omega
    have hbpow2 : 2 ^ hi * 2 ^ (lo - hi) = 2 ^ lo := by rw [← pow_add]; congr 1; omega
    have step : rrStep U k (lo - hi) false approx (rrInv U k T hi) =
        some ((rrInv U k T lo).1, (rrInv U k T lo).2.1, (rrInv U k T lo).2.2.1, (rrInv U k T lo).2.2.2, approx) := by
      unfold rrInv
      dsimp only
      generalize hS : iroot k (U / 2 ^ (k * (T - hi))) = S at *
      rw [ekk] at r1 r2 ⊢
      have hc : k * 2 ^ (lo - hi) ≤ S ∨ lo - hi = 1 := by
        rcases hcond with h | h
        · left
          calc k * 2 ^ (lo - hi) ≤ 2 ^ logk * 2 ^ (lo - hi) := Nat.mul_le_mul_right _ hlk
            _ = 2 ^ (logk + (lo - hi)) := by rw [← pow_add]
            _ ≤ 2 ^ hi := Nat.pow_le_pow_right (by norm_num) (by omega)
            _ ≤ S := s1
        · right; omega
      exact rrStep_spec_mid U k (lo - hi) S (k * (T - lo)) lo approx hk (by omega) (by omega) r1 r2
        (by rw [← hbpow]; exact Nat.mul_le_mul_right _ (by omega))
        (by rw [← hbpow2]; exact Nat.mul_le_mul_right _ s1) hc
    obtain ⟨S', R', ap, e, p1, p2⟩ := ih lo nx hch' (fun x hx => hle x (List.mem_cons_of_mem _ hx))
      (by rw [List.getLast?_cons_cons] at hlast; exact hlast)
    refine ⟨S', R', ap, ?_, p1, p2⟩
    rw [rrLoop]
    simp only [List.isEmpty_cons]
    rw [step]
    simpa using e

end Mpir.Rootrem
