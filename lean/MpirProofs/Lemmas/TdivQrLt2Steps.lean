/- Helper lemmas for the model of mpn_tdiv_qr, part 5: the limb-level steps of the "numerator less than twice the
   denominator" branch after the extraction: approximate quotient (tdiv_qr.c:250-274), the test against the first ignored
   divisor limb (:276-313), the partially used limb (:316-339). -/
import MpirProofs.Lemmas.TdivQrLt2Extract
namespace Mpir.TdivQr
open Mpir Mpir.DivWord Mpir.SbDiv

/-! ### tdiv_qr.c:250-274, the approximate quotient -/

theorem lt2Estimate_spec (T : Thresholds) (n2 d2 : List Nat) (qn : Nat) (hqn : 1 ≤ qn) (hn2 : Limbs n2) (hd2 : Limbs d2)
    (hln : n2.length = 2 * qn) (hld : d2.length = qn) (hnorm : B ^ qn ≤ 2 * val d2) (hfit : val n2 < val d2 * B ^ qn) :
    val (lt2Estimate T n2 d2 qn).1 = val n2 / val d2 ∧ val (lt2Estimate T n2 d2 qn).2.1 = val n2 % val d2 ∧
    Limbs (lt2Estimate T n2 d2 qn).1 ∧ (lt2Estimate T n2 d2 qn).1.length = qn ∧
    Limbs (lt2Estimate T n2 d2 qn).2.1 ∧ (lt2Estimate T n2 d2 qn).2.1.length = qn ∧
    (lt2Estimate T n2 d2 qn).2.2 = true := by
  have hd0 : 0 < val d2 := by have := Bpow_pos qn; omega
  have hfit' : val n2 < val d2 * B ^ (n2.length - d2.length) := by
    rw [hln, hld]; have : 2 * qn - qn = qn := by omega
    rw [this]; exact hfit
  have hgen : ∀ res : List Nat × List Nat × Nat, res = divQrSpec n2 d2 →
      val res.1 = val n2 / val d2 ∧ val res.2.1 = val n2 % val d2 ∧ Limbs res.1 ∧ res.1.length = qn ∧
      Limbs res.2.1 ∧ res.2.1.length = qn ∧ (res.2.2 == 0) = true := by
    intro res hres
    obtain ⟨_, hr, _, hq3, hq4, hr3, hr4⟩ := divQrSpec_spec n2 d2 hd2 hd0
    obtain ⟨h0, hq⟩ := divQrSpec_fit n2 d2 hd2 hd0 hfit'
    rw [hres]
    exact ⟨hq, hr, hq3, by rw [hq4, hln, hld]; omega, hr3, by rw [hr4, hld], by rw [h0]; rfl⟩
  unfold lt2Estimate
  by_cases h1 : qn = 1
  · rw [if_pos h1]
    subst h1
    have e2 := list_len2 n2 hln
    have e1 := list_len1 d2 hld
    have hv2 : val n2 = n2.getD 1 0 * B + n2.getD 0 0 := by
      conv_lhs => rw [e2]
      simp [val_cons]; ring
    have hv1 : val d2 = d2.getD 0 0 := by
      conv_lhs => rw [e1]
      simp [val_cons]
    have hlt : n2.getD 1 0 < d2.getD 0 0 := by
      rw [hv2, hv1, pow_one] at hfit
      by_contra hc
      have : d2.getD 0 0 * B ≤ n2.getD 1 0 * B := Nat.mul_le_mul_right _ (by omega)
      omega
    have hn0 : n2.getD 0 0 < B := limb_getD hn2 0
    rw [udiv_qrnnd_eq _ _ _ hlt hn0]
    have hqB : (n2.getD 1 0 * B + n2.getD 0 0) / d2.getD 0 0 < B := udiv_qrnnd_lt _ _ _ hlt hn0
    have hrB : (n2.getD 1 0 * B + n2.getD 0 0) % d2.getD 0 0 < B :=
      Nat.lt_trans (Nat.mod_lt _ (by omega)) (limb_getD hd2 0)
    refine ⟨?_, ?_, Limbs_cons.mpr ⟨hqB, Limbs_nil⟩, rfl, Limbs_cons.mpr ⟨hrB, Limbs_nil⟩, rfl, rfl⟩
    · show val [(n2.getD 1 0 * B + n2.getD 0 0) / d2.getD 0 0] = _
      rw [hv2, hv1]; simp [val_cons]
    · show val [(n2.getD 1 0 * B + n2.getD 0 0) % d2.getD 0 0] = _
      rw [hv2, hv1]; simp [val_cons]
  · rw [if_neg h1]
    by_cases h2 : qn = 2
    · rw [if_pos h2, divrem_2_zero n2 d2 (by rw [hld, h2])]
      obtain ⟨a, b, c, d, e, f, _⟩ := hgen _ rfl
      exact ⟨a, b, c, d, e, f, rfl⟩
    · rw [if_neg h2]
      obtain ⟨k, hk⟩ : ∃ k, qn = k + 1 := ⟨qn - 1, by omega⟩
      rw [callDivQr_eq _ n2 d2 hn2 hd2 (by omega) (by omega)
        (by rw [hld, hk, Nat.add_sub_cancel]; exact top_of_norm d2 k hd2 (by rw [hld, hk]) (by rw [← hk]; exact hnorm))]
      exact hgen _ rfl

/-! ### the first ignored divisor limb, tdiv_qr.c:286-292 -/

theorem mask_eq_mod (x c : Nat) (hc : c ≤ 64) : x &&& ((B - 1) >>> c) = x % 2 ^ (64 - c) := by
  have hB := Mpir.B_split c hc
  have hp : 0 < 2 ^ c := by positivity
  have hq : 0 < 2 ^ (64 - c) := by positivity
  obtain ⟨p, hp'⟩ : ∃ p, 2 ^ (64 - c) = p + 1 := ⟨2 ^ (64 - c) - 1, by omega⟩
  have : (B - 1) >>> c = 2 ^ (64 - c) - 1 := by
    rw [shr_eq_div, hp', Nat.add_sub_cancel]
    rw [hp'] at hB
    generalize 2 ^ c = Q at *
    have e : Q * (p + 1) = p * Q + Q := by ring
    apply Nat.div_eq_of_lt_le
    · rw [hB, e]; omega
    · rw [hB, e, Nat.add_mul, Nat.one_mul]; omega
  rw [this, Nat.and_two_pow_sub_one_eq_mod]

/-- x is the top limb of the ignored part of the normalised divisor:
    x·B^i ≤ dl·2^c < (x+1)·B^i for dl = (d[i] mod 2^(64-c))·B^i + (the i limbs below) -/
theorem lt2X_spec (d : List Nat) (i c : Nat) (hd : Limbs d) (hi : i < d.length) (hc : c ≤ 63) :
    lt2X d (i + 1) c < B ∧
    lt2X d (i + 1) c * B ^ i ≤ (d.getD i 0 % 2 ^ (64 - c) * B ^ i + val (d.take i)) * 2 ^ c ∧
    (d.getD i 0 % 2 ^ (64 - c) * B ^ i + val (d.take i)) * 2 ^ c < (lt2X d (i + 1) c + 1) * B ^ i := by
  have hc64 : c ≤ 64 := by omega
  have hBs := Mpir.B_split c hc64
  have hp : 0 < 2 ^ c := by positivity
  -- the limb below, as far as it is shifted in
  obtain ⟨lo, hlo, hlolt, hlow⟩ : ∃ lo, (((if i + 1 < 2 then 0 else d.getD (i + 1 - 2) 0) >>> 1) >>> (63 - c)) = lo ∧
      lo < 2 ^ c ∧ lo * B ^ i ≤ val (d.take i) * 2 ^ c ∧ val (d.take i) * 2 ^ c < (lo + 1) * B ^ i := by
    refine ⟨_, rfl, ?_, ?_⟩
    · rw [← Nat.shiftRight_add, show 1 + (63 - c) = 64 - c by omega]
      apply shr_lt _ c hc64
      split
      · exact B_pos
      · exact limb_getD hd _
    · rw [← Nat.shiftRight_add, show 1 + (63 - c) = 64 - c by omega]
      rcases Nat.eq_zero_or_pos i with h0 | hpos
      · subst h0
        simp
      · obtain ⟨j, hj⟩ : ∃ j, i = j + 1 := ⟨i - 1, by omega⟩
        subst hj
        rw [if_neg (by omega), show j + 1 + 1 - 2 = j by omega]
        have hlt : j < (d.take (j + 1)).length := by rw [List.length_take]; omega
        obtain ⟨hW, hWlt⟩ := split_W (d.take (j + 1)) j c hlt (Limbs_take hd _) hc64
        have hdr : (d.take (j + 1)).drop (j + 1) = [] := by
          apply List.drop_eq_nil_of_le; rw [List.length_take]; omega
        have hg : (d.take (j + 1)).getD j 0 = d.getD j 0 := by
          simp [List.getD_eq_getElem?_getD]
        rw [hdr, hg] at hW
        rw [hg] at hWlt
        simp only [val_nil, Nat.zero_mul, Nat.zero_add] at hW
        generalize d.getD j 0 % 2 ^ (64 - c) * B ^ j + val ((d.take (j + 1)).take j) = low at *
        generalize d.getD j 0 >>> (64 - c) = lo at *
        rw [hW, pow_succ]
        have e1 : (lo * (2 ^ (64 - c) * B ^ j) + low) * 2 ^ c = lo * (B ^ j * B) + low * 2 ^ c := by
          rw [hBs]; ring
        have e2 : low * 2 ^ c < B ^ j * B := by
          calc low * 2 ^ c < 2 ^ (64 - c) * B ^ j * 2 ^ c := Nat.mul_lt_mul_of_pos_right hWlt hp
            _ = B ^ j * B := by rw [hBs]; ring
        rw [e1]
        constructor
        · omega
        · have : (lo + 1) * (B ^ j * B) = lo * (B ^ j * B) + B ^ j * B := by ring
          omega
  have hx : lt2X d (i + 1) c = ((d.getD i 0 <<< c) % B) ||| lo := by
    unfold lt2X
    simp only [Nat.add_sub_cancel]
    rw [hlo]
  obtain ⟨e, hxB⟩ := lshift_limb (d.getD i 0) lo c hc64 hlolt
  rw [← hx] at e hxB
  have hdm := Nat.div_add_mod (d.getD i 0) (2 ^ (64 - c))
  rw [shr_eq_div] at e
  -- x = m·2^c + lo
  have hxv : lt2X d (i + 1) c = d.getD i 0 % 2 ^ (64 - c) * 2 ^ c + lo := by
    have : d.getD i 0 * 2 ^ c = B * (d.getD i 0 / 2 ^ (64 - c)) + d.getD i 0 % 2 ^ (64 - c) * 2 ^ c := by
      conv_lhs => rw [← hdm]
      rw [hBs]; ring
    omega
  refine ⟨hxB, ?_, ?_⟩
  · rw [hxv]
    have : (d.getD i 0 % 2 ^ (64 - c) * B ^ i + val (d.take i)) * 2 ^ c =
        d.getD i 0 % 2 ^ (64 - c) * 2 ^ c * B ^ i + val (d.take i) * 2 ^ c := by ring
    rw [this, Nat.add_mul]; omega
  · rw [hxv]
    have : (d.getD i 0 % 2 ^ (64 - c) * B ^ i + val (d.take i)) * 2 ^ c =
        d.getD i 0 % 2 ^ (64 - c) * 2 ^ c * B ^ i + val (d.take i) * 2 ^ c := by ring
    have e3 : (d.getD i 0 % 2 ^ (64 - c) * 2 ^ c + lo + 1) * B ^ i =
        d.getD i 0 % 2 ^ (64 - c) * 2 ^ c * B ^ i + (lo + 1) * B ^ i := by ring
    rw [this, e3]; omega

/-! ### tdiv_qr.c:276-313 -/

/-- either the test fires: the quotient is decremented, the divisor added back (a carry becomes a further limb), or
    nothing changes -/
theorem lt2Step2_spec (d : List Nat) (in_ c qn : Nat) (qp rem d2 : List Nat) (hqp : Limbs qp)
    (hrem : Limbs rem) (hd2 : Limbs d2) (hlr : rem.length = qn) (hld : d2.length = qn)
    (hqlo : qp.getD (qn - 1) 0 * B ^ (qn - 1) ≤ val qp) :
    (rem.getD (qn - 1) 0 < (umul_ppmm (lt2X d in_ c) (qp.getD (qn - 1) 0)).1 ∧
      val (lt2Step2 d in_ c qn qp rem d2).1 + 1 = val qp ∧ Limbs (lt2Step2 d in_ c qn qp rem d2).1 ∧
      (lt2Step2 d in_ c qn qp rem d2).1.length = qp.length ∧
      val (lt2Step2 d in_ c qn qp rem d2).2 = val rem + val d2 ∧ Limbs (lt2Step2 d in_ c qn qp rem d2).2 ∧
      ((lt2Step2 d in_ c qn qp rem d2).2.length = qn ∨
       ((lt2Step2 d in_ c qn qp rem d2).2.length = qn + 1 ∧ B ^ qn ≤ val (lt2Step2 d in_ c qn qp rem d2).2))) ∨
    ((umul_ppmm (lt2X d in_ c) (qp.getD (qn - 1) 0)).1 ≤ rem.getD (qn - 1) 0 ∧
      lt2Step2 d in_ c qn qp rem d2 = (qp, rem)) := by
  unfold lt2Step2
  simp only []
  by_cases hf : rem.getD (qn - 1) 0 < (umul_ppmm (lt2X d in_ c) (qp.getD (qn - 1) 0)).1
  · left
    rw [if_pos hf]
    refine ⟨hf, ?_⟩
    -- the quotient is at least 1
    have hq1 : 1 ≤ val qp := by
      have h1 : 1 ≤ lt2X d in_ c * qp.getD (qn - 1) 0 / B := by
        have : (umul_ppmm (lt2X d in_ c) (qp.getD (qn - 1) 0)).1 = lt2X d in_ c * qp.getD (qn - 1) 0 / B := rfl
        omega
      have h2 : 0 < lt2X d in_ c * qp.getD (qn - 1) 0 := by
        rcases Nat.eq_zero_or_pos (lt2X d in_ c * qp.getD (qn - 1) 0) with h0 | h0
        · rw [h0] at h1; simp at h1
        · exact h0
      have h3 : 0 < qp.getD (qn - 1) 0 := Nat.pos_of_mul_pos_left h2
      have : 1 * B ^ (qn - 1) ≤ qp.getD (qn - 1) 0 * B ^ (qn - 1) := Nat.mul_le_mul_right _ h3
      have := Bpow_pos (qn - 1)
      omega
    obtain ⟨dv, dc, dl, dn⟩ := decr_val qp hqp
    have hdlt := val_lt _ dl
    rw [dn] at hdlt
    have hdc0 : (decr qp).2 = 0 := by
      by_contra hne
      have : B ^ qp.length * 1 ≤ B ^ qp.length * (decr qp).2 := Nat.mul_le_mul_left _ (Nat.pos_of_ne_zero hne)
      omega
    rw [hdc0, Nat.mul_zero, Nat.add_zero] at dv
    obtain ⟨av, ac, al, an⟩ := addNC_val rem d2 0 hrem hd2 (by rw [hlr, hld]) (by omega)
    rw [Nat.add_zero, hlr] at av
    rw [hlr] at an
    by_cases hcy : (add_n rem d2).2 ≠ 0
    · rw [if_pos hcy]
      have hc1 : (addNC rem d2 0).2 = 1 := by
        have : (add_n rem d2).2 = (addNC rem d2 0).2 := rfl
        omega
      refine ⟨dv, dl, dn, ?_, Limbs_snoc al (by show (addNC rem d2 0).2 < B; rw [hc1]; decide), Or.inr ⟨?_, ?_⟩⟩
      · show val ((addNC rem d2 0).1 ++ [(addNC rem d2 0).2]) = _
        rw [val_top1, an]; exact av
      · show ((addNC rem d2 0).1 ++ [(addNC rem d2 0).2]).length = _
        simp [an]
      · show B ^ qn ≤ val ((addNC rem d2 0).1 ++ [(addNC rem d2 0).2])
        rw [val_top1, an, hc1]; omega
    · rw [if_neg hcy]
      have hc0 : (addNC rem d2 0).2 = 0 := by
        have : (add_n rem d2).2 = (addNC rem d2 0).2 := rfl
        omega
      rw [hc0, Nat.mul_zero, Nat.add_zero] at av
      exact ⟨dv, dl, dn, av, al, Or.inl an⟩
  · right
    rw [if_neg hf]
    exact ⟨by omega, rfl⟩

end Mpir.TdivQr
