/- The refinement proof for the size-aware model of mpz/cfdiv_q_2exp.c (Mpir/Model/AllocSafeMpz3.lean): composition of the
   `tdiv_q_2exp` pattern (MPZ_REALLOC, read of `up + limb_cnt`, shift/copy to `wp`, strip) with `roundTail_spec`
   (MpirProofs/Lemmas/AllocSafeCfdiv.lean); and the value identity of the list-level result `Spec.cfdiv_q_2exp`:
   well formed, equal to ⌈u / 2^cnt⌉ (dir = 1) resp. ⌊u / 2^cnt⌋ (dir = -1). -/
import MpirProofs.Lemmas.AllocSafeCfdiv
import MpirProofs.Lemmas.AllocSafeSpec
import MpirProofs.Lemmas.DivZ
import MpirProofs.Lemmas.Bits
namespace Mpir.AllocSafe
open Mpir
open Mpir.Mpz (sgn natAbs_sgn Norm WF toInt mk_spec grow_alloc WF_iff)

theorem chk_true (s : St) : s.chk true = s := by cases s; simp [St.chk]

/-- the first store of a function: `r` at `PTR (w)[0, |r|)` of a block with room for it -/
theorem Wrote.fresh (s : St) (w : Nat) (r : List Nat) (c : Bool) (hs : s.ok = true) (hc : c = true)
    (hb : BWF (s.h w).buf) (hl : Limbs r) (hr : r.length ≤ (s.h w).buf.alloc) :
    Wrote s ((s.chk c).wr (s.PTR w) r) w r := by
  have W0 := (Wrote.refl s w 0 hs hb (by omega)).chk c hc
  have W1 := W0.wr 0 r hl (by simp) (by simpa using hr)
  simpa using W1

/-- cfdiv_q_2exp.c:74-90 after `T` has been written: the rounding tail and the size store -/
theorem roundTail_refines {s1 s2 : St} {w : Nat} {T : List Nat} (W : Wrote s1 s2 w T) (round neg : Bool)
    (hfit : T.length + 1 ≤ (s1.h w).buf.alloc) :
    Refines s1 ((roundTail s2 (s1.PTR w) T.length round).1.setSize w
        (sgn neg (roundTail s2 (s1.PTR w) T.length round).2)) w
      ⟨(s1.h w).buf.alloc, sgn neg (Spec.roundZ T round).length, Spec.roundZ T round⟩ := by
  obtain ⟨e2, W2⟩ := roundTail_spec W round hfit
  rw [e2]
  have R := (W2.setSize (sgn neg (Spec.roundZ T round).length)).refines (sgn neg (Spec.roundZ T round).length)
    (by simp) (by rw [natAbs_sgn])
  rw [natAbs_sgn, List.take_length] at R
  exact R

theorem cfdiv_q_2exp_refines (s : St) (w u : Nat) (cnt : Nat) (dir : Int) (hdir : dir.natAbs ≤ 1) (hs : s.ok = true)
    (hw : OWF (s.h w)) (hu : OWF (s.h u)) :
    Refines s (cfdiv_q_2exp 1 s w u cnt dir) w (Spec.cfdiv_q_2exp (view (s.h w)) (view (s.h u)) cnt dir) := by
  unfold cfdiv_q_2exp Spec.cfdiv_q_2exp
  rw [show s.SIZ u = (s.h u).size from rfl]
  have e1 : (view (s.h u)).size = (s.h u).size := rfl
  rw [e1]
  have hul := view_d_length hu
  have hLu := view_limbs hu
  by_cases hle : (s.h u).size.natAbs ≤ cnt / 64
  · simp only [hle, ↓reduceIte]
    have key : ∀ z : Int, z.natAbs ≤ 1 →
        Refines s ((s.store (s.PTR w) 0 1).setSize w z) w ⟨(view (s.h w)).alloc, z, [1].take z.natAbs⟩ := by
      intro z hz
      have T := tail_take s w [1] z true hs rfl hw.1 (limb_singleton (by unfold B; omega))
        (by have := hw.2.1; simpa [view] using this) (by simpa using hz)
      have ea2 : (view (s.h w)).alloc = (s.h w).buf.alloc := rfl
      rw [ea2]
      simpa [St.store, St.chk] using T
    apply key
    split
    · simp
    · exact hdir
  · simp only [hle, ↓reduceIte]
    have G := MPZ_REALLOC_grown s w ((s.h u).size.natAbs - cnt / 64 + 1) hw
    obtain ⟨elow, oklow⟩ := grown_rd G u (cnt / 64) hu (by omega)
    obtain ⟨ea, oka⟩ := grown_rd_off G u (cnt / 64) ((s.h u).size.natAbs - cnt / 64) hu (by omega)
    rw [List.take_of_length_le (by simp; omega)] at ea
    have hok1 : (MPZ_REALLOC s w ((s.h u).size.natAbs - cnt / 64 + 1)).ok = true := by rw [G.ok]; exact hs
    have hbw := G.bwf w hw.1
    have hroom := G.room
    have halloc : (Mpz.grow (view (s.h w)) ((s.h u).size.natAbs - cnt / 64 + 1)).alloc =
      ((MPZ_REALLOC s w ((s.h u).size.natAbs - cnt / 64 + 1)).h w).buf.alloc := G.alloc.symm
    rw [halloc]
    refine Refines.of_grown G ?_
    set s1 := MPZ_REALLOC s w ((s.h u).size.natAbs - cnt / 64 + 1) with hs1
    have hLd : Limbs ((view (s.h u)).d.drop (cnt / 64)) := Limbs_drop hLu _
    have hdl : ((view (s.h u)).d.drop (cnt / 64)).length = (s.h u).size.natAbs - cnt / 64 := by simp; omega
    simp only [elow, oklow, chk_true, ite_self]
    by_cases h0 : cnt % 64 = 0
    · simp only [h0, bne_self_eq_false, Bool.false_eq_true, if_false, MPN_COPY, ea, oka]
      have W := Wrote.fresh s1 w ((view (s.h u)).d.drop (cnt / 64)) true hok1 rfl hbw hLd (by omega)
      have R := roundTail_refines W
        ((decide ((s.h u).size < 0) == decide (dir < 0)) && ((view (s.h u)).d.take (cnt / 64)).any (· != 0))
        (decide ((s.h u).size < 0)) (by omega)
      rw [hdl] at R
      exact R
    · have h0' : (cnt % 64 != 0) = true := by simpa using h0
      simp only [h0', if_true, mpn_rshift, ea, oka]
      have hc : cnt % 64 < 64 := Nat.mod_lt _ (by omega)
      obtain ⟨x, xs, hxs⟩ : ∃ x xs, (view (s.h u)).d.drop (cnt / 64) = x :: xs := by
        cases h : (view (s.h u)).d.drop (cnt / 64) with
        | nil => rw [h] at hdl; simp at hdl; omega
        | cons x xs => exact ⟨x, xs, rfl⟩
      obtain ⟨_, _, rl, rn, _, _⟩ := Mpir.rshift_val' x xs (cnt % 64) (by rw [← hxs]; exact hLd) (by omega) (by omega)
      rw [← hxs] at rl rn
      rw [hdl] at rn
      generalize Mpir.rshift ((view (s.h u)).d.drop (cnt / 64)) (cnt % 64) = r at *
      have W := Wrote.fresh s1 w r.1 true hok1 rfl hbw rl (by omega)
      rw [chk_true] at W
      have hld := W.load ((s.h u).size.natAbs - cnt / 64 - 1) (by omega)
      simp only [hld, chk_true]
      have W2 := W.take ((s.h u).size.natAbs - cnt / 64 -
        (if r.1.getD ((s.h u).size.natAbs - cnt / 64 - 1) 0 == 0 then 1 else 0))
      have hTl : (r.1.take ((s.h u).size.natAbs - cnt / 64 -
          (if r.1.getD ((s.h u).size.natAbs - cnt / 64 - 1) 0 == 0 then 1 else 0))).length =
          (s.h u).size.natAbs - cnt / 64 - (if r.1.getD ((s.h u).size.natAbs - cnt / 64 - 1) 0 == 0 then 1 else 0) := by
        rw [List.length_take, rn]; split <;> omega
      have R := roundTail_refines W2
        ((decide ((s.h u).size < 0) == decide (dir < 0)) && ((view (s.h u)).d.take (cnt / 64)).any (· != 0) ||
          ((decide ((s.h u).size < 0) == decide (dir < 0)) && r.2 != 0))
        (decide ((s.h u).size < 0)) (by rw [hTl]; split <;> omega)
      rw [hTl] at R
      exact R

/-! ## the value of `Spec.cfdiv_q_2exp` -/

theorem Norm_one : Norm [1] := ⟨limb_singleton (by unfold B; omega), by simp⟩

/-- the rounding tail on a normalised magnitude: `+ 1` with the carry limb kept exactly when it is non-zero -/
theorem Spec.roundZ_spec (T : List Nat) (hT : Norm T) (round : Bool) :
    Norm (Spec.roundZ T round) ∧ val (Spec.roundZ T round) = val T + (if round then 1 else 0) ∧
    (Spec.roundZ T round).length ≤ T.length + 1 := by
  unfold Spec.roundZ
  cases round
  · simp only [Bool.false_eq_true, if_false]; exact ⟨hT, by omega, by omega⟩
  · simp only [if_true]
    by_cases h0 : T.length = 0
    · have hT0 : T = [] := List.length_eq_zero_iff.mp h0
      subst hT0
      simp only [List.length_nil, bne_self_eq_false, Bool.false_eq_true, if_false]
      exact ⟨Norm_one, by simp, by simp⟩
    · have h0' : (T.length != 0) = true := by simpa using h0
      simp only [h0', if_true]
      have hne : T ≠ [] := by intro h; rw [h] at h0; simp at h0
      obtain ⟨av, ac, al, an⟩ := Mpz.K.add_1_val T 1 hT.1 (by unfold B; omega) hne
      have hlow := hT.lower hne
      by_cases hcy : (Mpir.add_1 T 1).2 = 0
      · rw [hcy] at av ⊢
        rw [Nat.add_zero, List.take_append_of_le_length (by omega), List.take_of_length_le (by omega)]
        refine ⟨Norm.of_lower al (Or.inr (by rw [an]; omega)), by omega, by omega⟩
      · have h1 : (Mpir.add_1 T 1).2 = 1 := by omega
        rw [h1] at av ⊢
        rw [List.take_of_length_le (by simp [an])]
        refine ⟨⟨Limbs_append.mpr ⟨al, limb_singleton (by unfold B; omega)⟩, by simp⟩, ?_, by simp [an]⟩
        rw [val_append, an]; simp only [val_cons, val_nil]; omega

theorem topLimb_eq_getD (r : List Nat) (n : Nat) (hn : r.length = n) (hpos : 0 < n) :
    Mpz.topLimb r = r.getD (n - 1) 0 := by
  rcases List.eq_nil_or_concat r with h0 | ⟨l, b, rfl⟩
  · subst h0; simp at hn; omega
  · subst hn
    simp [Mpz.topLimb_concat]

theorem mod_mul_ne_zero (m P Q : Nat) (hP : 0 < P) : m % (P * Q) ≠ 0 ↔ (m % P ≠ 0 ∨ m / P % Q ≠ 0) := by
  rw [Nat.mod_mul]
  constructor
  · intro h
    by_contra hc
    simp only [not_or, not_not] at hc
    rw [hc.1, hc.2] at h; simp at h
  · intro h hc
    have h1 : m % P = 0 := by omega
    have h2 : P * (m / P % Q) = 0 := by omega
    rcases Nat.mul_eq_zero.mp h2 with h3 | h3
    · omega
    · exact h.elim (fun h => h h1) (fun h => h h3)

/-- the C's rule "magnitude quotient, plus one when the signs of u and dir agree and a one bit was shifted out" is the
    floor (dir = -1) resp. ceiling (dir = 1) quotient -/
theorem specQ_signmag (dir : Int) (hdir : dir = -1 ∨ dir = 1) (neg : Prop) [Decidable neg] (m cnt : Nat) (hm : neg → 0 < m) :
    DivZ.specQ dir (if neg then -(m : Int) else (m : Int)) ((2 ^ cnt : Nat) : Int) =
      (if neg then -((m / 2 ^ cnt + (if (neg ↔ dir < 0) ∧ m % 2 ^ cnt ≠ 0 then 1 else 0) : Nat) : Int)
       else ((m / 2 ^ cnt + (if (neg ↔ dir < 0) ∧ m % 2 ^ cnt ≠ 0 then 1 else 0) : Nat) : Int)) := by
  obtain ⟨h, _⟩ := DivZ.spec_ui dir (Or.inr hdir) (if neg then -(m : Int) else (m : Int)) (2 ^ cnt) (by positivity)
  rw [h]
  unfold DivZ.uiAdjust
  by_cases hn : neg
  · have hm' := hm hn
    simp only [hn, if_true, Int.natAbs_neg, Int.natAbs_natCast, true_iff]
    have hx : ¬ (0 : Int) ≤ -(m : Int) := by omega
    have hs : DivZ.siz (-(m : Int)) < 0 := DivZ.siz_neg_iff.mpr (by omega)
    have hs' : ¬ DivZ.siz (-(m : Int)) ≥ 0 := by omega
    simp only [hx, if_false, hs, hs', and_true, and_false, or_false]
    rcases hdir with e | e <;> subst e <;> simp
    · by_cases hr : m % 2 ^ cnt = 0 <;> simp [hr]
  · simp only [hn, if_false, Int.natAbs_natCast, false_iff]
    have hx : (0 : Int) ≤ (m : Int) := by omega
    have hs : ¬ DivZ.siz (m : Int) < 0 := by rw [DivZ.siz_neg_iff]; omega
    have hs' : DivZ.siz (m : Int) ≥ 0 := by omega
    simp only [hx, if_true, hs, hs', and_true, and_false, false_or]
    rcases hdir with e | e <;> subst e <;> simp
    · by_cases hr : m % 2 ^ cnt = 0 <;> simp [hr]

theorem Spec.cfdiv_q_2exp_spec (w u : Mpz.Mpz) (cnt : Nat) (dir : Int) (hdir : dir = -1 ∨ dir = 1) (hw : 1 ≤ w.alloc)
    (hu : WF u) :
    WF (Spec.cfdiv_q_2exp w u cnt dir) ∧
    toInt (Spec.cfdiv_q_2exp w u cnt dir) = DivZ.specQ dir (toInt u) ((2 ^ cnt : Nat) : Int) := by
  obtain ⟨_, _, hul, hun⟩ := (WF_iff u).mp hu
  have hcnt : (2 : Nat) ^ cnt = B ^ (cnt / 64) * 2 ^ (cnt % 64) := by
    rw [Mpz.B_pow, ← pow_add]; congr 1; omega
  have hmpos : u.size < 0 → 0 < val u.d := by
    intro h
    exact hun.pos (by intro h0; rw [h0] at hul; simp at hul; omega)
  have hdneg : dir < 0 ↔ dir = -1 := by rcases hdir with e | e <;> subst e <;> simp
  rw [Mpz.toInt_eq u]
  unfold Mpz.sval
  rw [specQ_signmag dir hdir (u.size < 0) (val u.d) cnt hmpos]
  unfold Spec.cfdiv_q_2exp
  dsimp only
  by_cases hle : u.size.natAbs ≤ cnt / 64
  · rw [if_pos hle]
    have hlt : val u.d < 2 ^ cnt := by
      have h1 := hun.upper
      rw [hul] at h1
      have h2 : B ^ u.size.natAbs ≤ B ^ (cnt / 64) := Nat.pow_le_pow_right B_pos hle
      have h3 : 1 ≤ 2 ^ (cnt % 64) := Nat.one_le_two_pow
      calc val u.d < B ^ (cnt / 64) := by omega
        _ = B ^ (cnt / 64) * 1 := by ring
        _ ≤ B ^ (cnt / 64) * 2 ^ (cnt % 64) := Nat.mul_le_mul_left _ h3
        _ = 2 ^ cnt := hcnt.symm
    rw [Nat.div_eq_of_lt hlt, Nat.mod_eq_of_lt hlt]
    by_cases h0 : u.size = 0
    · have hd : u.d = [] := List.length_eq_zero_iff.mp (by rw [hul, h0]; rfl)
      simp only [h0, beq_self_eq_true, Bool.true_or, if_true, hd]
      exact ⟨(WF_iff _).mpr ⟨hw, by simp, by simp, Mpz.Norm_nil⟩, by simp [toInt]⟩
    · have hne : u.d ≠ [] := by intro h; rw [h] at hul; simp at hul; omega
      have hpos := hun.pos hne
      have h0' : (u.size == 0) = false := by simpa using h0
      simp only [h0', Bool.false_or]
      by_cases hsg : (u.size < 0 ↔ dir < 0)
      · have hb : (decide (u.size < 0) != decide (dir < 0)) = false := by simp [hsg]
        simp only [hb, Bool.false_eq_true, if_false]
        have hda : dir.natAbs = 1 := by rcases hdir with e | e <;> subst e <;> rfl
        rw [hda, List.take_of_length_le (by simp)]
        refine ⟨(WF_iff _).mpr ⟨hw, by simp [hda]; omega, by simp [hda], Norm_one⟩, ?_⟩
        have hc : (u.size < 0 ↔ dir < 0) ∧ val u.d ≠ 0 := ⟨hsg, by omega⟩
        simp only [hc, and_self, if_true, toInt]
        by_cases hn : u.size < 0
        · have : dir = -1 := hdneg.mp (hsg.mp hn)
          simp [this]; omega
        · have : dir = 1 := by
            rcases hdir with e | e
            · exact absurd (hsg.mpr (by omega)) hn
            · exact e
          simp [this]; omega
      · have hb : (decide (u.size < 0) != decide (dir < 0)) = true := by simp [hsg]
        simp only [hb, if_true]
        refine ⟨(WF_iff _).mpr ⟨hw, by simp, by simp, Mpz.Norm_nil⟩, ?_⟩
        simp [toInt, hsg]
  · rw [if_neg hle]
    obtain ⟨ga1, ga2⟩ := grow_alloc w (u.size.natAbs - cnt / 64 + 1)
    have hk : cnt / 64 < u.d.length := by omega
    have hND := Norm_drop hun (cnt / 64) hk
    have hdl : (u.d.drop (cnt / 64)).length = u.size.natAbs - cnt / 64 := by simp; omega
    have hvd := val_drop_div u.d (cnt / 64) hun.1 (by omega)
    have hne : u.d.drop (cnt / 64) ≠ [] := by intro h; rw [h] at hdl; simp at hdl; omega
    have hvt : val (u.d.take (cnt / 64)) = val u.d % B ^ (cnt / 64) := by
      have h := val_take_drop u.d (cnt / 64) (by omega)
      have hlt : val (u.d.take (cnt / 64)) < B ^ (cnt / 64) := by
        have := val_lt (u.d.take (cnt / 64)) (Limbs_take hun.1 _)
        rwa [List.length_take, Nat.min_eq_left (by omega)] at this
      rw [h, Nat.add_mul_mod_self_left, Nat.mod_eq_of_lt hlt]
    have hany : ((u.d.take (cnt / 64)).any (· != 0) = true) ↔ val u.d % B ^ (cnt / 64) ≠ 0 := by
      rw [← hvt]
      have := Bits.val_eq_zero_iff (u.d.take (cnt / 64))
      constructor
      · intro h hz; rw [this.mp hz] at h; cases h
      · intro h
        by_contra hc
        exact h (this.mpr (by simpa using hc))
    have hrm : ((decide (u.size < 0) == decide (dir < 0)) = true) ↔ (u.size < 0 ↔ dir < 0) := by simp
    -- the common ending
    have fin : ∀ (T : List Nat) (rnd : Bool), Norm T → T.length ≤ u.size.natAbs - cnt / 64 →
        val T = val u.d / 2 ^ cnt → (rnd = true ↔ ((u.size < 0 ↔ dir < 0) ∧ val u.d % 2 ^ cnt ≠ 0)) →
        WF ⟨(Mpz.grow w (u.size.natAbs - cnt / 64 + 1)).alloc, sgn (u.size < 0) (Spec.roundZ T rnd).length, Spec.roundZ T rnd⟩ ∧
        toInt ⟨(Mpz.grow w (u.size.natAbs - cnt / 64 + 1)).alloc, sgn (u.size < 0) (Spec.roundZ T rnd).length, Spec.roundZ T rnd⟩ =
          (if u.size < 0 then
            -((val u.d / 2 ^ cnt + (if (u.size < 0 ↔ dir < 0) ∧ val u.d % 2 ^ cnt ≠ 0 then 1 else 0) : Nat) : Int)
           else ((val u.d / 2 ^ cnt + (if (u.size < 0 ↔ dir < 0) ∧ val u.d % 2 ^ cnt ≠ 0 then 1 else 0) : Nat) : Int)) := by
      intro T rnd hT hTl hTv hr
      obtain ⟨rN, rv, rl⟩ := Spec.roundZ_spec T hT rnd
      obtain ⟨wf, ti⟩ := mk_spec (Mpz.grow w (u.size.natAbs - cnt / 64 + 1)).alloc _ (decide (u.size < 0)) _ rfl rN
        (by omega) (by omega)
      refine ⟨wf, ?_⟩
      rw [ti, rv, hTv]
      have e : (if rnd = true then 1 else 0) = (if (u.size < 0 ↔ dir < 0) ∧ val u.d % 2 ^ cnt ≠ 0 then 1 else 0) := by
        by_cases h : rnd = true
        · rw [if_pos h, if_pos (hr.mp h)]
        · rw [if_neg h, if_neg (fun hc => h (hr.mpr hc))]
      rw [e]; simp
    by_cases h0 : cnt % 64 = 0
    · have h0' : (cnt % 64 != 0) = false := by simp [h0]
      rw [h0']; simp only [Bool.false_eq_true, if_false]
      have h2 : (2 : Nat) ^ cnt = B ^ (cnt / 64) := by rw [hcnt, h0]; simp
      refine fin _ _ hND (by omega) (by rw [hvd, h2]) ?_
      rw [Bool.and_eq_true, hrm, hany, h2]
    · have h0' : (cnt % 64 != 0) = true := by simp [h0]
      rw [h0']; simp only [if_true]
      have hc : cnt % 64 < 64 := Nat.mod_lt _ (by omega)
      obtain ⟨x, xs, hxs⟩ : ∃ x xs, u.d.drop (cnt / 64) = x :: xs := by
        cases h : u.d.drop (cnt / 64) with
        | nil => exact absurd h hne
        | cons x xs => exact ⟨x, xs, rfl⟩
      obtain ⟨_, _, rl, rn, rv, rout⟩ := Mpir.rshift_val' x xs (cnt % 64) (by rw [← hxs]; exact hND.1) (by omega) (by omega)
      rw [← hxs] at rl rn rv rout
      rw [hdl] at rn
      have hlow := hND.lower hne
      rw [hdl] at hlow
      obtain ⟨tv, tl, tn⟩ := Mpz.strip_top _ (u.size.natAbs - cnt / 64) rn rl (by
        by_cases h2 : u.size.natAbs - cnt / 64 ≤ 1
        · left; exact h2
        · right
          rw [rv, Nat.le_div_iff_mul_le (by positivity)]
          have e : B ^ (u.size.natAbs - cnt / 64 - 1) = B ^ (u.size.natAbs - cnt / 64 - 2) * B := by
            rw [← pow_succ]; congr 1; omega
          have h2c : 2 ^ (cnt % 64) ≤ B := by
            unfold B; exact Nat.pow_le_pow_right (by omega) (by omega)
          calc B ^ (u.size.natAbs - cnt / 64 - 2) * 2 ^ (cnt % 64)
              ≤ B ^ (u.size.natAbs - cnt / 64 - 2) * B := Nat.mul_le_mul_left _ h2c
            _ = B ^ (u.size.natAbs - cnt / 64 - 1) := e.symm
            _ ≤ _ := hlow)
      rw [topLimb_eq_getD _ _ rn (by omega)] at tv tl tn
      refine fin _ _ tn (by rw [tl]; omega) (by rw [tv, rv, hvd, hcnt, Nat.div_div_eq_div_mul]) ?_
      have hout : ((Mpir.rshift (u.d.drop (cnt / 64)) (cnt % 64)).2 != 0) = true ↔
          val u.d / B ^ (cnt / 64) % 2 ^ (cnt % 64) ≠ 0 := by
        rw [rout, hvd]
        have hp : 0 < 2 ^ (64 - cnt % 64) := by positivity
        simp only [bne_iff_ne, ne_eq, Nat.mul_eq_zero]
        constructor
        · intro h hc; exact h (Or.inl hc)
        · intro h hc; rcases hc with hc | hc
          · exact h hc
          · omega
      rw [hcnt, mod_mul_ne_zero _ _ _ (pow_pos B_pos _)]
      rw [Bool.or_eq_true, Bool.and_eq_true, Bool.and_eq_true, hrm, hany, hout]
      generalize (u.size < 0 ↔ dir < 0) = A
      generalize (val u.d % B ^ (cnt / 64) ≠ 0) = P
      generalize (val u.d / B ^ (cnt / 64) % 2 ^ (cnt % 64) ≠ 0) = Q
      constructor
      · rintro (⟨a, p⟩ | ⟨a, q⟩)
        · exact ⟨a, Or.inl p⟩
        · exact ⟨a, Or.inr q⟩
      · rintro ⟨a, p | q⟩
        · exact Or.inl ⟨a, p⟩
        · exact Or.inr ⟨a, q⟩

end Mpir.AllocSafe
