/- Word-level division lemmas, part 2: modlimb_invert, exact (2-adic) division by a limb: mpn_divexact_1,
   mpn_divexact_by3c, mpn_modexact_1c_odd. -/
import MpirProofs.Lemmas.DivWord
namespace Mpir.DivWord
open Mpir

/-! ### modlimb_invert -/

/-- every entry of modlimb_invert_table is the inverse of 2i+1 modulo 2^8 (kernel-checked over all 128 entries) -/
theorem minv_tab_ok : ∀ i, i < 128 → (Gen.modlimbInvertTab.getD i 0 * (2 * i + 1)) % 256 = 1 := by
  decide

theorem minvStep_modEq (inv n : Nat) :
    ((minvStep inv n : ℕ) : ℤ) ≡ 2 * inv - inv * inv * n [ZMOD (B : ℤ)] := by
  unfold minvStep
  have hB := B_pos
  have hb : ((inv * inv) % B * n) % B < B := Nat.mod_lt _ hB
  have hle : ((inv * inv) % B * n) % B ≤ (2 * inv) % B + B := by omega
  rw [Int.natCast_mod, Nat.cast_sub hle]
  push_cast
  have h1 : ((2 * (inv:ℤ)) % B + B - ((inv:ℤ) * inv % B * n) % B) % B ≡
      (2 * (inv:ℤ)) % B + B - ((inv:ℤ) * inv % B * n) % B [ZMOD (B:ℤ)] := Int.mod_modEq _ _
  refine h1.trans ?_
  have h2 : (2 * (inv:ℤ)) % B ≡ 2 * inv [ZMOD (B:ℤ)] := Int.mod_modEq _ _
  have h3 : ((inv:ℤ) * inv % B * n) % B ≡ inv * inv * n [ZMOD (B:ℤ)] :=
    (Int.mod_modEq _ _).trans ((Int.mod_modEq _ _).mul_right _)
  have h4 : (2 * (inv:ℤ)) % B + B ≡ 2 * inv [ZMOD (B:ℤ)] := by
    have : (2 * (inv:ℤ)) % B + B ≡ 2 * inv + 0 [ZMOD (B:ℤ)] :=
      h2.add (Int.modEq_iff_dvd.mpr ⟨-1, by ring⟩)
    simpa using this
  exact h4.sub h3

/-- one Newton step doubles the number of correct low bits -/
theorem minvStep_lift (inv n : Nat) (m : ℤ) (hm : m * m ∣ (B : ℤ)) (h : (inv : ℤ) * n ≡ 1 [ZMOD m]) :
    ((minvStep inv n : ℕ) : ℤ) * n ≡ 1 [ZMOD (m * m)] := by
  have h1 := ((minvStep_modEq inv n).of_dvd hm).mul_right (n : ℤ)
  refine h1.trans ?_
  obtain ⟨j, hj⟩ := Int.modEq_iff_dvd.mp h
  rw [Int.modEq_iff_dvd]
  refine ⟨j * j, ?_⟩
  have : (1:ℤ) - (2 * inv - inv * inv * n) * n = (1 - inv * n) * (1 - inv * n) := by ring
  rw [this, hj]; ring

theorem modlimb_invert_mul (n : Nat) (hodd : n % 2 = 1) : (n * modlimb_invert n) % B = 1 := by
  unfold modlimb_invert
  simp only
  have hidx : (n / 2) &&& 0x7F = (n / 2) % 128 := by
    have : (0x7F : Nat) = 2 ^ 7 - 1 := by norm_num
    rw [this, Nat.and_two_pow_sub_one_eq_mod]
  rw [hidx]
  have hi : (n / 2) % 128 < 128 := Nat.mod_lt _ (by norm_num)
  have ht := minv_tab_ok _ hi
  have hn256 : n % 256 = 2 * ((n / 2) % 128) + 1 := by omega
  generalize Gen.modlimbInvertTab.getD ((n / 2) % 128) 0 = inv0 at *
  have h0 : (inv0 : ℤ) * n ≡ 1 [ZMOD (2 ^ 8 : ℤ)] := by
    have : (inv0 * n) % 256 = 1 := by rw [Nat.mul_mod, hn256, Nat.mod_mul_mod]; exact ht
    have h := congrArg (Nat.cast : ℕ → ℤ) this
    rw [Int.natCast_mod] at h
    push_cast at h
    show ((inv0 : ℤ) * n) % (2 ^ 8) = 1 % (2 ^ 8)
    norm_num at h ⊢; exact h
  have hB : (B : ℤ) = 2 ^ 64 := by rw [B_eq_pow]; norm_num
  have h1 := minvStep_lift inv0 n (2 ^ 8) (by rw [hB]; exact ⟨2 ^ 48, by norm_num⟩) h0
  have e1 : (2 ^ 8 * 2 ^ 8 : ℤ) = 2 ^ 16 := by norm_num
  rw [e1] at h1
  have h2 := minvStep_lift _ n (2 ^ 16) (by rw [hB]; exact ⟨2 ^ 32, by norm_num⟩) h1
  have e2 : (2 ^ 16 * 2 ^ 16 : ℤ) = 2 ^ 32 := by norm_num
  rw [e2] at h2
  have h3 := minvStep_lift _ n (2 ^ 32) (by rw [hB]; exact ⟨1, by norm_num⟩) h2
  have e3 : (2 ^ 32 * 2 ^ 32 : ℤ) = B := by rw [hB]; norm_num
  rw [e3] at h3
  generalize minvStep (minvStep (minvStep inv0 n) n) n = inv3 at *
  rw [Nat.mul_mod, Nat.mod_mod, ← Nat.mul_mod, Nat.mul_comm]
  have : ((inv3 * n : ℕ) : ℤ) % (B : ℤ) = 1 % (B : ℤ) := by push_cast; exact h3
  have h1B : (1 : ℤ) % (B : ℤ) = 1 := by rw [hB]; norm_num
  rw [h1B, ← Int.natCast_mod] at this
  exact_mod_cast this


/-! ### Hensel (exact) division by an odd limb -/

/-- the quotient-limb step: l = x·inv mod B satisfies l·d = hi·B + x -/
theorem hensel_limb (x d inv : Nat) (hx : x < B) (hinv : (d * inv) % B = 1) :
    ((x * inv) % B) * d = (((x * inv) % B) * d / B) * B + x := by
  have h := Nat.div_add_mod (((x * inv) % B) * d) B
  have : (((x * inv) % B) * d) % B = x := by
    rw [Nat.mul_mod, Nat.mod_mod, ← Nat.mul_mod, Nat.mul_assoc, Nat.mul_comm inv d, Nat.mul_mod, hinv,
      Nat.mul_one, Nat.mod_mod, Nat.mod_eq_of_lt hx]
  rw [this] at h
  rw [Nat.mul_comm (_ / B) B]; exact h.symm

theorem hi_lt (l d : Nat) (hl : l < B) : l * d / B < d ∨ d = 0 := by
  rcases Nat.eq_zero_or_pos d with h | h
  · right; exact h
  · left; rw [Nat.div_lt_iff_lt_mul B_pos, Nat.mul_comm d B]; exact Nat.mul_lt_mul_of_pos_right hl h

theorem divexactOddGo_cons (d inv l s : Nat) (rest : List Nat) (c : Nat) :
    divexactOddGo d inv l (s :: rest) c =
      (((s + B - (c + (umul_ppmm l d).1) % B) % B * inv) % B) ::
        divexactOddGo d inv (((s + B - (c + (umul_ppmm l d).1) % B) % B * inv) % B) rest
          (if (s + B - (c + (umul_ppmm l d).1) % B) % B > s then 1 else 0) := rfl

/-- invariant of the shift == 0 loop of divexact_1.c: `rest + cout·B^len = d·out + (c + hi(l·d))` -/
theorem divexactOddGo_spec (d inv : Nat) (hd0 : 0 < d) (hdB : d < B) (hinv : (d * inv) % B = 1) (rest : List Nat) :
    ∀ l c, l < B → c ≤ 1 → Limbs rest →
    ∃ cout, val rest + cout * B ^ rest.length = d * val (divexactOddGo d inv l rest c) + (c + l * d / B) ∧
      Limbs (divexactOddGo d inv l rest c) ∧ (divexactOddGo d inv l rest c).length = rest.length := by
  induction rest with
  | nil =>
    intro l c _ _ _
    exact ⟨c + l * d / B, by simp [divexactOddGo], Limbs_nil, rfl⟩
  | cons s rest ih =>
    intro l c hl hc hlimbs
    have ⟨hs, hrest⟩ := Limbs_cons.mp hlimbs
    have hh : l * d / B < d := (hi_lt l d hl).resolve_right (by omega)
    rw [divexactOddGo_cons, umul_ppmm_eq]
    simp only
    have hc1 : (c + l * d / B) % B = c + l * d / B := Nat.mod_eq_of_lt (by omega)
    rw [hc1]
    generalize hc1' : c + l * d / B = c1 at *
    have hc1B : c1 < B := by omega
    have hl'B : (s + B - c1) % B < B := Nat.mod_lt _ B_pos
    have hstep : s + (if (s + B - c1) % B > s then 1 else 0) * B = (s + B - c1) % B + c1 := by
      simp only [B_eq] at *; split <;> omega
    generalize (s + B - c1) % B = l' at *
    have hb : (if l' > s then 1 else 0) ≤ 1 := by split <;> omega
    have hq := hensel_limb l' d inv hl'B hinv
    have hlqB : (l' * inv) % B < B := Nat.mod_lt _ B_pos
    obtain ⟨cout, e, hL, hlen⟩ := ih ((l' * inv) % B) (if l' > s then 1 else 0) hlqB hb hrest
    refine ⟨cout, ?_, Limbs_cons.mpr ⟨hlqB, hL⟩, by rw [List.length_cons, hlen, List.length_cons]⟩
    rw [val_cons, val_cons, List.length_cons, pow_succ]
    generalize (l' * inv) % B = lq at *
    generalize lq * d / B = hq' at *
    generalize (if l' > s then 1 else 0) = b at *
    generalize val (divexactOddGo d inv lq rest b) = Vo at *
    generalize val rest = Vr at *
    generalize B ^ rest.length = P at *
    have : s + B * Vr + cout * (P * B) = s + B * (Vr + cout * P) := by ring
    rw [this, e]
    have : d * (lq + B * Vo) + c1 = lq * d + B * (d * Vo) + c1 := by ring
    rw [this, hq]
    have : s + B * (d * Vo + (b + hq')) = (s + b * B) + B * (d * Vo) + hq' * B := by ring
    rw [this, hstep]; ring


theorem exact_finish (d N Q cout n : Nat) (hodd : d % 2 = 1) (h : N + cout * B ^ n = d * Q) (hQ : Q < B ^ n)
    (hdvd : d ∣ N) : N = d * Q := by
  have hd0 : 0 < d := by omega
  have h1 : d ∣ cout * B ^ n := by
    have : d ∣ N + cout * B ^ n := by rw [h]; exact Dvd.intro _ rfl
    exact (Nat.dvd_add_right hdvd).mp this
  have hcop : Nat.Coprime d (B ^ n) := by
    apply Nat.Coprime.pow_right
    rw [B_eq_pow]
    apply Nat.Coprime.pow_right
    rw [Nat.coprime_comm]
    show Nat.gcd 2 d = 1
    rw [Nat.gcd_rec, hodd]; rfl
  have h2 : d ∣ cout := hcop.dvd_of_dvd_mul_right h1
  have hlt : cout < d := by
    have hP : 0 < B ^ n := by have := B_pos; positivity
    have : cout * B ^ n < d * B ^ n := by
      have : d * Q < d * B ^ n := Nat.mul_lt_mul_of_pos_left hQ hd0
      omega
    exact Nat.lt_of_mul_lt_mul_right this
  have : cout = 0 := Nat.eq_zero_of_dvd_of_lt h2 hlt
  rw [this] at h; simpa using h

theorem ctzGo_spec : ∀ f x, 0 < x → x < 2 ^ f →
    2 ^ ctzGo f x ∣ x ∧ (x / 2 ^ ctzGo f x) % 2 = 1 ∧ ctzGo f x < f := by
  intro f
  induction f with
  | zero => intro x h0 hx; simp at hx; omega
  | succ f ih =>
    intro x h0 hx
    unfold ctzGo
    split
    · rename_i h; simp [h]
    · rename_i h
      have hx2 : x / 2 < 2 ^ f := by rw [Nat.div_lt_iff_lt_mul (by norm_num), ← pow_succ]; exact hx
      obtain ⟨a, b, c⟩ := ih (x / 2) (by omega) hx2
      refine ⟨?_, ?_, by omega⟩
      · rw [Nat.add_comm, pow_succ]
        have : x = x / 2 * 2 := by omega
        rw [this, Nat.mul_div_cancel _ (by norm_num : 0 < 2)]; exact Nat.mul_dvd_mul_right a 2
      · rw [Nat.add_comm, pow_succ, Nat.mul_comm, ← Nat.div_div_eq_div_mul]; exact b

theorem ctz_spec (x : Nat) (h0 : 0 < x) (hx : x < B) :
    2 ^ count_trailing_zeros x ∣ x ∧ (x / 2 ^ count_trailing_zeros x) % 2 = 1 ∧ count_trailing_zeros x ≤ 63 := by
  obtain ⟨a, b, c⟩ := ctzGo_spec 64 x h0 hx
  exact ⟨a, b, by unfold count_trailing_zeros; omega⟩


theorem divexactEvenGo_nil (d inv sh s c : Nat) :
    divexactEvenGo d inv sh s [] c = [(((s >>> sh) + B - c) % B * inv) % B] := rfl

theorem divexactEvenGo_cons (d inv sh s sn : Nat) (rest : List Nat) (c : Nat) :
    divexactEvenGo d inv sh s (sn :: rest) c =
      (((((s >>> sh) ||| ((sn <<< (64 - sh)) % B)) + B - c) % B * inv) % B) ::
        divexactEvenGo d inv sh sn rest
          (((if ((((s >>> sh) ||| ((sn <<< (64 - sh)) % B)) + B - c) % B) > ((s >>> sh) ||| ((sn <<< (64 - sh)) % B))
              then 1 else 0) +
            (((((s >>> sh) ||| ((sn <<< (64 - sh)) % B)) + B - c) % B * inv) % B) * d / B) % B) := rfl

/-- the limb fed by the even loop is the next limb of the right-shifted dividend -/
theorem shr_limb (s sn sh : Nat) (rest : List Nat) (hs : s < B) (hsh1 : 1 ≤ sh) (hsh : sh ≤ 63) :
    ((s >>> sh) ||| ((sn <<< (64 - sh)) % B)) < B ∧
    val (s :: sn :: rest) / 2 ^ sh = ((s >>> sh) ||| ((sn <<< (64 - sh)) % B)) + B * (val (sn :: rest) / 2 ^ sh) := by
  have e2 := (limb_split sn (64 - sh) (by omega)).2
  have e64 : 64 - (64 - sh) = sh := by omega
  rw [e64] at e2
  have hb : s / 2 ^ sh < 2 ^ (64 - sh) := by
    have := limb_hi_lt s (64 - sh) hs (by omega)
    rw [e64] at this; exact this
  have hor : (s >>> sh) ||| ((sn <<< (64 - sh)) % B) = (sn % 2 ^ sh) * 2 ^ (64 - sh) + s / 2 ^ sh := by
    rw [e2, Nat.shiftRight_eq_div_pow, Nat.or_comm, ← Nat.shiftLeft_eq]
    exact (Nat.shiftLeft_add_eq_or_of_lt hb _).symm
  rw [hor]
  have hp : 0 < 2 ^ sh := by positivity
  have hBs : B = 2 ^ sh * 2 ^ (64 - sh) := by rw [← pow_add, B_eq_pow]; congr 1; omega
  have hm := Nat.mod_lt sn hp
  constructor
  · rw [hBs]
    have : (sn % 2 ^ sh + 1) * 2 ^ (64 - sh) ≤ 2 ^ sh * 2 ^ (64 - sh) := Nat.mul_le_mul_right _ hm
    have : (sn % 2 ^ sh + 1) * 2 ^ (64 - sh) = sn % 2 ^ sh * 2 ^ (64 - sh) + 2 ^ (64 - sh) := by ring
    omega
  · have hdm := Nat.div_add_mod sn (2 ^ sh)
    simp only [val_cons]
    have : s + B * (sn + B * val rest) = s + 2 ^ sh * (2 ^ (64 - sh) * (sn + B * val rest)) := by
      rw [hBs]; ring
    rw [this, Nat.add_mul_div_left _ _ hp]
    have h2 : sn + B * val rest = sn % 2 ^ sh + 2 ^ sh * (sn / 2 ^ sh + 2 ^ (64 - sh) * val rest) := by
      rw [hBs]
      generalize sn / 2 ^ sh = a at *
      generalize sn % 2 ^ sh = b at *
      rw [← hdm]; ring
    have h3 : (sn + B * val rest) / 2 ^ sh = sn / 2 ^ sh + 2 ^ (64 - sh) * val rest := by
      rw [h2, Nat.add_mul_div_left _ _ hp, Nat.div_eq_of_lt hm, Nat.zero_add]
    rw [h3]
    generalize sn / 2 ^ sh = a at *
    generalize sn % 2 ^ sh = b at *
    generalize s / 2 ^ sh = e at *
    generalize val rest = V at *
    rw [← hdm, hBs]; ring


/-- algebra of one quotient limb of the exact division: subtract the carry, multiply by the inverse -/
theorem hensel_step_alg (ls c d inv : Nat) (hls : ls < B) (hc : c < B) (hd0 : 0 < d) (hdB : d < B)
    (hinv : (d * inv) % B = 1) :
    ((ls + B - c) % B * inv) % B < B ∧
    ((if (ls + B - c) % B > ls then 1 else 0) + ((ls + B - c) % B * inv) % B * d / B) % B =
      (if (ls + B - c) % B > ls then 1 else 0) + ((ls + B - c) % B * inv) % B * d / B ∧
    (if (ls + B - c) % B > ls then 1 else 0) + ((ls + B - c) % B * inv) % B * d / B < B ∧
    ls + ((if (ls + B - c) % B > ls then 1 else 0) + ((ls + B - c) % B * inv) % B * d / B) * B =
      d * (((ls + B - c) % B * inv) % B) + c := by
  have hl'B : (ls + B - c) % B < B := Nat.mod_lt _ B_pos
  have hstep : ls + (if (ls + B - c) % B > ls then 1 else 0) * B = (ls + B - c) % B + c := by
    simp only [B_eq] at *; split <;> omega
  generalize (ls + B - c) % B = l' at *
  have hb : (if l' > ls then 1 else 0) ≤ 1 := by split <;> omega
  have hq := hensel_limb l' d inv hl'B hinv
  have hlqB : (l' * inv) % B < B := Nat.mod_lt _ B_pos
  have hh : (l' * inv) % B * d / B < d := (hi_lt _ d hlqB).resolve_right (by omega)
  generalize (l' * inv) % B = lq at *
  generalize lq * d / B = hq' at *
  generalize (if l' > ls then 1 else 0) = b at *
  refine ⟨hlqB, Nat.mod_eq_of_lt (by omega), by omega, ?_⟩
  have : ls + (b + hq') * B = (ls + b * B) + hq' * B := by ring
  rw [this, hstep, Nat.mul_comm d lq, hq]; ring

theorem even_nil (d inv sh : Nat) (hd0 : 0 < d) (hdB : d < B) (hinv : (d * inv) % B = 1) (s c : Nat) (hs : s < B) (hc : c < B) :
    ∃ cout, val [s] / 2 ^ sh + cout * B ^ (0 + 1) = d * val (divexactEvenGo d inv sh s [] c) + c ∧
      Limbs (divexactEvenGo d inv sh s [] c) ∧ (divexactEvenGo d inv sh s [] c).length = 0 + 1 := by
    rw [divexactEvenGo_nil, Nat.shiftRight_eq_div_pow]
    have hlsB : s / 2 ^ sh < B := Nat.lt_of_le_of_lt (Nat.div_le_self _ _) hs
    have hv : val [s] / 2 ^ sh = s / 2 ^ sh := by rw [val_cons, val_nil, Nat.mul_zero, Nat.add_zero]
    rw [hv]
    obtain ⟨a1, _, _, a4⟩ := hensel_step_alg (s / 2 ^ sh) c d inv hlsB hc hd0 hdB hinv
    refine ⟨(if (s / 2 ^ sh + B - c) % B > s / 2 ^ sh then 1 else 0) + (s / 2 ^ sh + B - c) % B * inv % B * d / B,
      ?_, Limbs_cons.mpr ⟨a1, Limbs_nil⟩, rfl⟩
    rw [Nat.zero_add, pow_one, a4, val_cons, val_nil, Nat.mul_zero, Nat.add_zero]

/-- invariant of the shift != 0 loop of divexact_1.c -/
theorem divexactEvenGo_spec (d inv sh : Nat) (hd0 : 0 < d) (hdB : d < B) (hinv : (d * inv) % B = 1)
    (hsh1 : 1 ≤ sh) (hsh : sh ≤ 63) (rest : List Nat) :
    ∀ s c, s < B → c < B → Limbs rest →
    ∃ cout, val (s :: rest) / 2 ^ sh + cout * B ^ (rest.length + 1) = d * val (divexactEvenGo d inv sh s rest c) + c ∧
      Limbs (divexactEvenGo d inv sh s rest c) ∧ (divexactEvenGo d inv sh s rest c).length = rest.length + 1 := by
  induction rest with
  | nil =>
    intro s c hs hc _
    rw [List.length_nil]
    exact even_nil d inv sh hd0 hdB hinv s c hs hc
  | cons sn rest ih =>
    intro s c hs hc hlimbs
    have ⟨hsn, hrest⟩ := Limbs_cons.mp hlimbs
    obtain ⟨hlsB, hsv⟩ := shr_limb s sn sh rest hs hsh1 hsh
    rw [divexactEvenGo_cons, hsv]
    generalize (s >>> sh) ||| ((sn <<< (64 - sh)) % B) = ls at *
    obtain ⟨a1, a2, a3, a4⟩ := hensel_step_alg ls c d inv hlsB hc hd0 hdB hinv
    rw [a2]
    obtain ⟨cout, e, hL, hlen⟩ := ih sn _ hsn a3 hrest
    refine ⟨cout, ?_, Limbs_cons.mpr ⟨a1, hL⟩, by rw [List.length_cons, hlen, List.length_cons]⟩
    generalize val (sn :: rest) / 2 ^ sh = SV at *
    rw [val_cons, List.length_cons, pow_succ]
    generalize ((ls + B - c) % B * inv) % B = lq at *
    generalize (if (ls + B - c) % B > ls then 1 else 0) + lq * d / B = c' at *
    generalize val (divexactEvenGo d inv sh sn rest c') = Vo at *
    generalize B ^ (rest.length + 1) = P at *
    have : ls + B * SV + cout * (P * B) = ls + B * (SV + cout * P) := by ring
    rw [this, e]
    have : d * (lq + B * Vo) + c = (d * lq + c) + B * (d * Vo) := by ring
    rw [this, ← a4]; ring

theorem val_lt_pow (l : List Nat) (n : Nat) (h : Limbs l) (hn : l.length = n) : val l < B ^ n := by
  rw [← hn]; exact val_lt l h

theorem divexact_even_branch (s s1 : Nat) (rest : List Nat) (d d' sh inv : Nat) (hs : s < B) (hrest : Limbs (s1 :: rest))
    (hd' : d = 2 ^ sh * d') (hodd : d' % 2 = 1) (hd'B : d' < B) (hinv : (d' * inv) % B = 1)
    (hsh1 : 1 ≤ sh) (hsh63 : sh ≤ 63) (hdvd : d ∣ val (s :: s1 :: rest)) :
    val (divexactEvenGo d' inv sh s (s1 :: rest) 0) * d = val (s :: s1 :: rest) ∧
      Limbs (divexactEvenGo d' inv sh s (s1 :: rest) 0) ∧
      (divexactEvenGo d' inv sh s (s1 :: rest) 0).length = rest.length + 1 + 1 := by
  have hp : 0 < 2 ^ sh := by positivity
  have hd'0 : 0 < d' := by omega
  obtain ⟨cout, e, hL, hlen⟩ := divexactEvenGo_spec d' inv sh hd'0 hd'B hinv hsh1 hsh63 (s1 :: rest) s 0 hs B_pos hrest
  have e := e.trans (Nat.add_zero _)
  rw [List.length_cons] at e
  rw [List.length_cons] at hlen
  have h2 : 2 ^ sh ∣ val (s :: s1 :: rest) := Dvd.dvd.trans ⟨d', hd'⟩ hdvd
  obtain ⟨SV, hSV⟩ := h2
  have hsv : val (s :: s1 :: rest) / 2 ^ sh = SV := by rw [hSV, Nat.mul_div_cancel_left _ hp]
  rw [hsv] at e
  have hd'SV : d' ∣ SV := by
    rw [hSV, hd'] at hdvd
    exact Nat.dvd_of_mul_dvd_mul_left hp hdvd
  have hQ := val_lt_pow _ _ hL hlen
  generalize divexactEvenGo d' inv sh s (s1 :: rest) 0 = out at *
  have := exact_finish d' SV (val out) cout (rest.length + 1 + 1) hodd e hQ hd'SV
  refine ⟨?_, hL, hlen⟩
  rw [hSV, this, hd']; ring

theorem divexact_odd_branch (s s1 : Nat) (rest : List Nat) (d inv : Nat) (hs : s < B) (hrest : Limbs (s1 :: rest))
    (hodd : d % 2 = 1) (hdB : d < B) (hinv : (d * inv) % B = 1) (hdvd : d ∣ val (s :: s1 :: rest)) :
    val (((s * inv) % B) :: divexactOddGo d inv ((s * inv) % B) (s1 :: rest) 0) * d = val (s :: s1 :: rest) ∧
      Limbs (((s * inv) % B) :: divexactOddGo d inv ((s * inv) % B) (s1 :: rest) 0) ∧
      (((s * inv) % B) :: divexactOddGo d inv ((s * inv) % B) (s1 :: rest) 0).length = rest.length + 1 + 1 := by
  have hd0 : 0 < d := by omega
  have hl0B : (s * inv) % B < B := Nat.mod_lt _ B_pos
  obtain ⟨cout, e, hL, hlen⟩ := divexactOddGo_spec d inv hd0 hdB hinv (s1 :: rest) ((s * inv) % B) 0 hl0B (by omega) hrest
  have hq := hensel_limb s d inv hs hinv
  rw [List.length_cons, Nat.zero_add] at e
  rw [List.length_cons] at hlen
  generalize (s * inv) % B = l0 at *
  generalize divexactOddGo d inv l0 (s1 :: rest) 0 = out at *
  have hLq : Limbs (l0 :: out) := Limbs_cons.mpr ⟨hl0B, hL⟩
  have hlenq : (l0 :: out).length = rest.length + 1 + 1 := by rw [List.length_cons, hlen]
  have hQ := val_lt_pow _ _ hLq hlenq
  have e' : val (s :: s1 :: rest) + cout * B ^ (rest.length + 1 + 1) = d * val (l0 :: out) := by
    rw [val_cons, val_cons l0]
    generalize val out = Vo at *
    generalize val (s1 :: rest) = Vr at *
    generalize l0 * d / B = h0 at *
    have : s + B * Vr + cout * B ^ (rest.length + 1 + 1) = s + B * (Vr + cout * B ^ (rest.length + 1)) := by
      rw [pow_succ _ (rest.length + 1)]; ring
    rw [this, e]
    have : d * (l0 + B * Vo) = l0 * d + B * (d * Vo) := by ring
    rw [this, hq]; ring
  have := exact_finish d _ _ cout _ hodd e' hQ hdvd
  exact ⟨by rw [this]; ring, hLq, hlenq⟩

/-- mpn_divexact_1: exact quotient whenever the divisor divides the dividend -/
theorem divexact_1_spec (src : List Nat) (d : Nat) (hsrc : Limbs src) (hne : src ≠ []) (hd0 : 0 < d) (hdB : d < B)
    (hdvd : d ∣ val src) :
    val (divexact_1 src d) * d = val src ∧ Limbs (divexact_1 src d) ∧ (divexact_1 src d).length = src.length := by
  cases src with
  | nil => exact absurd rfl hne
  | cons s rest =>
  have ⟨hs, hrest⟩ := Limbs_cons.mp hsrc
  cases rest with
  | nil =>
    show val [s / d] * d = val [s] ∧ Limbs [s / d] ∧ _
    have hv : ∀ x, val [x] = x := fun x => by rw [val_cons, val_nil, Nat.mul_zero, Nat.add_zero]
    rw [hv, hv] at *
    exact ⟨Nat.div_mul_cancel hdvd, Limbs_cons.mpr ⟨Nat.lt_of_le_of_lt (Nat.div_le_self _ _) hs, Limbs_nil⟩, rfl⟩
  | cons s1 rest =>
  -- the odd part of the divisor and its inverse
  obtain ⟨sh, hsh_def, hshdvd, hodd, hsh63⟩ : ∃ sh, (if d &&& 1 = 0 then count_trailing_zeros d else 0) = sh ∧
      2 ^ sh ∣ d ∧ (d / 2 ^ sh) % 2 = 1 ∧ sh ≤ 63 := by
    have h1 : d &&& 1 = d % 2 := by
      have : (1 : Nat) = 2 ^ 1 - 1 := by norm_num
      rw [this, Nat.and_two_pow_sub_one_eq_mod]
    rw [h1]
    by_cases he : d % 2 = 0
    · obtain ⟨a, b, c⟩ := ctz_spec d hd0 hdB
      exact ⟨_, if_pos he, a, b, c⟩
    · refine ⟨0, if_neg he, ?_, ?_, by omega⟩
      · rw [pow_zero]; exact one_dvd d
      · rw [pow_zero, Nat.div_one]; omega
  have hp : 0 < 2 ^ sh := by positivity
  obtain ⟨d', hd'⟩ := hshdvd
  have hdd : d / 2 ^ sh = d' := by rw [hd', Nat.mul_div_cancel_left _ hp]
  rw [hdd] at hodd
  have hd'B : d' < B := by
    have : d' ≤ d := by rw [hd']; exact Nat.le_mul_of_pos_left _ hp
    omega
  have hinv := modlimb_invert_mul d' hodd
  have hn : (s :: s1 :: rest).length = rest.length + 1 + 1 := rfl
  rw [hn]
  have hunf : divexact_1 (s :: s1 :: rest) d =
      if sh != 0 then divexactEvenGo d' (modlimb_invert d') sh s (s1 :: rest) 0
      else ((s * modlimb_invert d') % B) :: divexactOddGo d' (modlimb_invert d') ((s * modlimb_invert d') % B) (s1 :: rest) 0 := by
    unfold divexact_1
    simp only
    rw [hsh_def, Nat.shiftRight_eq_div_pow, hdd]
  rw [hunf]
  by_cases h0 : sh = 0
  · subst h0
    have hdd' : d = d' := by rw [hd', pow_zero, Nat.one_mul]
    subst hdd'
    simp only [bne_self_eq_false, Bool.false_eq_true, if_false]
    exact divexact_odd_branch s s1 rest d _ hs hrest hodd hdB hinv hdvd
  · have hne0 : (sh != 0) = true := by simpa using h0
    simp only [hne0, if_true]
    exact divexact_even_branch s s1 rest d d' sh _ hs hrest hd' hodd hd'B hinv (by omega) hsh63 hdvd


/-! ### mpn_divexact_by3c -/

theorem by3_core (dx ax δ r x : Nat) (hδ : δ ≤ 3) (hx : x = 3 * dx + δ)
    (hax : ax + dx = δ * 6148914691236517205) (hxB : x < 18446744073709551616) (hr : r ≤ 2) :
    ∃ r', r' ≤ 2 ∧
      (((6148914691236517205 * r + 18446744073709551616 - ax) % 18446744073709551616 + 18446744073709551616 -
        (dx + (if (6148914691236517205 * r + 18446744073709551616 - ax) % 18446744073709551616 > 6148914691236517205 * r then 1 else 0)) % 18446744073709551616) % 18446744073709551616)
        = 6148914691236517205 * r' ∧
      x + r' * 18446744073709551616 = 3 * ((6148914691236517205 * r + 18446744073709551616 - ax) % 18446744073709551616) + r := by
  have hδ4 : δ = 0 ∨ δ = 1 ∨ δ = 2 ∨ δ = 3 := by omega
  have hr3 : r = 0 ∨ r = 1 ∨ r = 2 := by omega
  rcases hδ4 with rfl | rfl | rfl | rfl <;> rcases hr3 with rfl | rfl | rfl
  · exact ⟨0, by omega, by split <;> omega, by omega⟩
  · exact ⟨1, by omega, by split <;> omega, by omega⟩
  · exact ⟨2, by omega, by split <;> omega, by omega⟩
  · exact ⟨2, by omega, by split <;> omega, by omega⟩
  · exact ⟨0, by omega, by split <;> omega, by omega⟩
  · exact ⟨1, by omega, by split <;> omega, by omega⟩
  · exact ⟨1, by omega, by split <;> omega, by omega⟩
  · exact ⟨2, by omega, by split <;> omega, by omega⟩
  · exact ⟨0, by omega, by split <;> omega, by omega⟩
  · exact ⟨0, by omega, by split <;> omega, by omega⟩
  · exact ⟨1, by omega, by split <;> omega, by omega⟩
  · exact ⟨2, by omega, by split <;> omega, by omega⟩

/-- one limb of the division by 3: with accumulator m·r (r = borrow 0..2) the limb produced is the
    exact-division limb and the new accumulator is m·r' -/
theorem by3_step (x r : Nat) (hx : x < B) (hr : r ≤ 2) :
    ∃ r', r' ≤ 2 ∧
      ((((B - 1) / 3 * r + B - (x * ((B - 1) / 3)) % B) % B + B -
        ((x * ((B - 1) / 3)) / B + (if ((B - 1) / 3 * r + B - (x * ((B - 1) / 3)) % B) % B > (B - 1) / 3 * r then 1 else 0)) % B) % B)
        = (B - 1) / 3 * r' ∧
      x + r' * B = 3 * (((B - 1) / 3 * r + B - (x * ((B - 1) / 3)) % B) % B) + r ∧
      ((B - 1) / 3 * r + B - (x * ((B - 1) / 3)) % B) % B < B := by
  have hm : (B - 1) / 3 = 6148914691236517205 := by rw [B_eq]
  rw [hm]
  simp only [B_eq] at *
  have hdm := Nat.div_add_mod (x * 6148914691236517205) 18446744073709551616
  have hml := Nat.mod_lt (x * 6148914691236517205) (by norm_num : 0 < 18446744073709551616)
  generalize (x * 6148914691236517205) / 18446744073709551616 = dx at *
  generalize (x * 6148914691236517205) % 18446744073709551616 = ax at *
  have hdxlt : dx + (if (6148914691236517205 * r + 18446744073709551616 - ax) % 18446744073709551616 >
      6148914691236517205 * r then 1 else 0) < 18446744073709551616 := by split <;> omega
  obtain ⟨r', h1, h2, h3⟩ := by3_core dx ax (x - 3 * dx) r x (by omega) (by omega) (by omega) hx hr
  exact ⟨r', h1, h2, h3, by omega⟩

theorem divexactBy3Go_cons (m x : Nat) (xs : List Nat) (acc : Nat) :
    divexactBy3Go m (x :: xs) acc =
      (((acc + B - (x * m) % B) % B) ::
        (divexactBy3Go m xs
          (((acc + B - (x * m) % B) % B + B -
            ((x * m) / B + (if (acc + B - (x * m) % B) % B > acc then 1 else 0)) % B) % B)).1,
       (divexactBy3Go m xs
          (((acc + B - (x * m) % B) % B + B -
            ((x * m) / B + (if (acc + B - (x * m) % B) % B > acc then 1 else 0)) % B) % B)).2) := rfl

theorem divexactBy3Go_spec (xs : List Nat) : ∀ r, r ≤ 2 → Limbs xs →
    ∃ r', r' ≤ 2 ∧ (divexactBy3Go ((B - 1) / 3) xs ((B - 1) / 3 * r)).2 = (B - 1) / 3 * r' ∧
      val xs + r' * B ^ xs.length = 3 * val (divexactBy3Go ((B - 1) / 3) xs ((B - 1) / 3 * r)).1 + r ∧
      Limbs (divexactBy3Go ((B - 1) / 3) xs ((B - 1) / 3 * r)).1 ∧
      (divexactBy3Go ((B - 1) / 3) xs ((B - 1) / 3 * r)).1.length = xs.length := by
  induction xs with
  | nil => intro r hr _; exact ⟨r, hr, rfl, by simp [divexactBy3Go], Limbs_nil, rfl⟩
  | cons x xs ih =>
    intro r hr hl
    have ⟨hx, hxs⟩ := Limbs_cons.mp hl
    obtain ⟨r1, hr1, hacc, hval, hq⟩ := by3_step x r hx hr
    rw [divexactBy3Go_cons, hacc]
    obtain ⟨r', hr', e1, e2, e3, e4⟩ := ih r1 hr1 hxs
    refine ⟨r', hr', e1, ?_, Limbs_cons.mpr ⟨hq, e3⟩, by rw [List.length_cons, e4, List.length_cons]⟩
    rw [val_cons, val_cons, List.length_cons, pow_succ]
    generalize val (divexactBy3Go ((B - 1) / 3) xs ((B - 1) / 3 * r1)).1 = Vo at *
    generalize ((B - 1) / 3 * r + B - (x * ((B - 1) / 3)) % B) % B = q at *
    generalize val xs = Vx at *
    generalize B ^ xs.length = P at *
    have : x + B * Vx + r' * (P * B) = x + B * (Vx + r' * P) := by ring
    rw [this, e2]
    have : x + B * (3 * Vo + r1) = (x + r1 * B) + B * (3 * Vo) := by ring
    rw [this, hval]; ring

/-- mpn_divexact_by3c: x + ret·B^n = 3·q + c with ret ∈ {0,1,2}, for every length and carry-in c ∈ {0,1,2} -/
theorem divexact_by3c_spec (x : List Nat) (c : Nat) (hx : Limbs x) (hc : c ≤ 2) :
    val x + (divexact_by3c x c).2 * B ^ x.length = 3 * val (divexact_by3c x c).1 + c ∧
    (divexact_by3c x c).2 ≤ 2 ∧ Limbs (divexact_by3c x c).1 ∧ (divexact_by3c x c).1.length = x.length := by
  have hm : (B - 1) / 3 = 6148914691236517205 := by rw [B_eq]
  have hc0 : (c * ((B - 1) / 3)) % B = (B - 1) / 3 * c := by
    rw [hm]; simp only [B_eq]; omega
  obtain ⟨r', hr', e1, e2, e3, e4⟩ := divexactBy3Go_spec x c hc hx
  have hunf : divexact_by3c x c = ((divexactBy3Go ((B - 1) / 3) x ((c * ((B - 1) / 3)) % B)).1,
      ((divexactBy3Go ((B - 1) / 3) x ((c * ((B - 1) / 3)) % B)).2 * (B - 3)) % B) := rfl
  rw [hunf, hc0, e1]
  have hret : ((B - 1) / 3 * r' * (B - 3)) % B = r' := by
    rw [hm]; simp only [B_eq]
    have : r' = 0 ∨ r' = 1 ∨ r' = 2 := by omega
    rcases this with rfl | rfl | rfl <;> norm_num
  simp only
  rw [hret]
  exact ⟨e2, hr', e3, e4⟩


/-! ### mpn_modexact_1c_odd (assembly dataflow) -/

theorem modexactGo_nil (d inv x cb h : Nat) :
    modexactGo d inv [] x cb h = ((modexactStep d inv x cb h).1 + (modexactStep d inv x cb h).2) % B := rfl

theorem modexactGo_cons (d inv s : Nat) (ss : List Nat) (x cb h : Nat) :
    modexactGo d inv (s :: ss) x cb h =
      modexactGo d inv ss ((s + B - (modexactStep d inv x cb h).1) % B)
        (if s < (modexactStep d inv x cb h).1 then 1 else 0) (modexactStep d inv x cb h).2 := by
  unfold modexactGo
  rw [List.foldl_cons]
  rfl

theorem modexactStep_fst (d inv x cb h : Nat) :
    (modexactStep d inv x cb h).1 = cb + (if x < h then 1 else 0) := rfl
theorem modexactStep_snd (d inv x cb h : Nat) :
    (modexactStep d inv x cb h).2 = (((x + B - h) % B * inv) % B * d) / B := rfl

/-- one limb: y = x − h (mod B) with borrow, q = y·inv, new high part -/
theorem modexact_step (x cb h d inv : Nat) (hx : x < B) (hh : h < B) (hcb : cb = 0 ∨ (cb = 1 ∧ x = B - 1))
    (hd0 : 0 < d) (_hdB : d < B) (hinv : (d * inv) % B = 1) :
    ∃ q, q < B ∧ (modexactStep d inv x cb h).1 ≤ 1 ∧ (modexactStep d inv x cb h).2 < d ∧
      x + (modexactStep d inv x cb h).1 * B + (modexactStep d inv x cb h).2 * B = q * d + h + cb * B := by
  rw [modexactStep_fst, modexactStep_snd]
  have hyB : (x + B - h) % B < B := Nat.mod_lt _ B_pos
  have hy : x + (if x < h then 1 else 0) * B = (x + B - h) % B + h := by
    simp only [B_eq] at *; split <;> omega
  have hcb' : cb + (if x < h then 1 else 0) ≤ 1 := by
    rcases hcb with rfl | ⟨rfl, rfl⟩
    · split <;> omega
    · have : ¬ (B - 1 < h) := by omega
      rw [if_neg this]
  generalize (x + B - h) % B = y at *
  have hq := hensel_limb y d inv hyB hinv
  have hqB : (y * inv) % B < B := Nat.mod_lt _ B_pos
  have hh' := (hi_lt ((y * inv) % B) d hqB).resolve_right (by omega)
  refine ⟨(y * inv) % B, hqB, hcb', hh', ?_⟩
  generalize (y * inv) % B = q at *
  generalize q * d / B = h' at *
  generalize (if x < h then 1 else 0) = b at *
  rw [hq]
  have : x + (cb + b) * B + h' * B = (x + b * B) + cb * B + h' * B := by ring
  rw [this, hy]; ring

/-- invariant of the assembly loop: x + B·rest + ret·B^(len+1) = Q·d + h + B·cb -/
theorem modexactGo_spec (d inv : Nat) (hd0 : 0 < d) (hdB : d < B) (hinv : (d * inv) % B = 1) (rest : List Nat) :
    ∀ x cb h, x < B → h < B → (cb = 0 ∨ (cb = 1 ∧ x = B - 1)) → Limbs rest →
    ∃ Q, x + B * val rest + modexactGo d inv rest x cb h * B ^ (rest.length + 1) = Q * d + h + cb * B ∧
      Q < B ^ (rest.length + 1) ∧ modexactGo d inv rest x cb h ≤ d := by
  induction rest with
  | nil =>
    intro x cb h hx hh hcb _
    obtain ⟨q, a1, a2, a3, a4⟩ := modexact_step x cb h d inv hx hh hcb hd0 hdB hinv
    rw [modexactGo_nil]
    have hlt : (modexactStep d inv x cb h).1 + (modexactStep d inv x cb h).2 < B := by omega
    rw [Nat.mod_eq_of_lt hlt]
    refine ⟨q, ?_, by rw [List.length_nil, Nat.zero_add, pow_one]; exact a1, by omega⟩
    rw [val_nil, Nat.mul_zero, Nat.add_zero, List.length_nil, Nat.zero_add, pow_one, ← a4]; ring
  | cons s ss ih =>
    intro x cb h hx hh hcb hl
    have ⟨hs, hss⟩ := Limbs_cons.mp hl
    obtain ⟨q, a1, a2, a3, a4⟩ := modexact_step x cb h d inv hx hh hcb hd0 hdB hinv
    rw [modexactGo_cons]
    generalize (modexactStep d inv x cb h).1 = cb' at *
    generalize (modexactStep d inv x cb h).2 = h' at *
    have hx' : (s + B - cb') % B < B := Nat.mod_lt _ B_pos
    have hxs : s + (if s < cb' then 1 else 0) * B = (s + B - cb') % B + cb' := by
      simp only [B_eq] at *; split <;> omega
    have hcb'' : (if s < cb' then 1 else 0) = 0 ∨ ((if s < cb' then 1 else 0) = 1 ∧ (s + B - cb') % B = B - 1) := by
      simp only [B_eq] at *; split <;> omega
    obtain ⟨Q', e, hQ', hle⟩ := ih ((s + B - cb') % B) (if s < cb' then 1 else 0) h' hx' (by omega) hcb'' hss
    refine ⟨q + B * Q', ?_, ?_, hle⟩
    · rw [val_cons, List.length_cons, pow_succ]
      generalize modexactGo d inv ss ((s + B - cb') % B) (if s < cb' then 1 else 0) h' = ret at *
      generalize (s + B - cb') % B = x' at *
      generalize (if s < cb' then 1 else 0) = cb2 at *
      generalize val ss = Vs at *
      generalize B ^ (ss.length + 1) = P at *
      have g1 : ret * (P * B) = (ret * P) * B := by ring
      have g2 : (q + B * Q') * d = q * d + B * (Q' * d) := by ring
      rw [g1, g2]
      generalize ret * P = RP at *
      generalize Q' * d = Qd at *
      generalize q * d = qd at *
      clear g1 g2 hQ' hle ih hinv
      simp only [B_eq] at *
      omega
    · rw [List.length_cons, pow_succ]
      have : B * Q' + B ≤ B ^ (ss.length + 1) * B := by
        have h1 : (Q' + 1) * B ≤ B ^ (ss.length + 1) * B := Nat.mul_le_mul_right _ hQ'
        have h2 : (Q' + 1) * B = B * Q' + B := by ring
        omega
      omega

/-- mpn_modexact_1c_odd as documented in mpn/generic/modexact_1c_odd.c: r·B^n + a − c = q·d with k = n,
    0 ≤ r ≤ d, and r < d when c < d. -/
theorem modexact_1c_odd_spec (src : List Nat) (d c : Nat) (hsrc : Limbs src) (hne : src ≠ []) (hodd : d % 2 = 1)
    (hdB : d < B) (hc : c < B) :
    ∃ q, val src + modexact_1c_odd src d c * B ^ src.length = q * d + c ∧
      modexact_1c_odd src d c ≤ d ∧ (c < d → modexact_1c_odd src d c < d) := by
  cases src with
  | nil => exact absurd rfl hne
  | cons s ss =>
    have ⟨hs, hss⟩ := Limbs_cons.mp hsrc
    have hd0 : 0 < d := by omega
    have hinv := modlimb_invert_mul d hodd
    obtain ⟨Q, e, hQ, hle⟩ := modexactGo_spec d (modlimb_invert d) hd0 hdB hinv ss s 0 c hs hc (Or.inl rfl) hss
    have hunf : modexact_1c_odd (s :: ss) d c = modexactGo d (modlimb_invert d) ss s 0 c := rfl
    rw [hunf, List.length_cons]
    generalize modexactGo d (modlimb_invert d) ss s 0 c = ret at *
    rw [Nat.zero_mul, Nat.add_zero] at e
    refine ⟨Q, by rw [val_cons]; exact e, hle, ?_⟩
    intro hcd
    have hP : 0 < B ^ (ss.length + 1) := by have := B_pos; positivity
    have h1 : Q * d + c < B ^ (ss.length + 1) * d := by
      have : (Q + 1) * d ≤ B ^ (ss.length + 1) * d := Nat.mul_le_mul_right _ hQ
      have : (Q + 1) * d = Q * d + d := by ring
      omega
    have h2 : ret * B ^ (ss.length + 1) < d * B ^ (ss.length + 1) := by
      rw [Nat.mul_comm d]; omega
    exact Nat.lt_of_mul_lt_mul_right h2

end Mpir.DivWord
