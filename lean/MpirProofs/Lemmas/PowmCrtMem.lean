/- the index ranges of the CRT path of mpz_powm -/
import MpirProofs.Lemmas.Powm
import Mpir.Model.PowmCrtMem
namespace Mpir.PowmCrt
open Mpir Mpir.Powm

theorem crtOk_true (n nodd ncnt : Nat) (bi : Nat → Nat) (hmono : ∀ a b, a ≤ b → bi a ≤ bi b)
    (h1 : 1 ≤ nodd) (h2 : 1 ≤ ncnt) (h3 : nodd ≤ n) (h4 : ncnt ≤ n) (h5 : n ≤ nodd + ncnt) :
    crtOk n nodd ncnt (2 * n + max (bi (max ncnt nodd)) (2 * n)) bi = true := by
  have hb : bi ncnt ≤ bi (max ncnt nodd) := hmono _ _ (le_max_left _ _)
  have m1 := le_max_left (bi (max ncnt nodd)) (2 * n)
  have m2 := le_max_right (bi (max ncnt nodd)) (2 * n)
  generalize max (bi (max ncnt nodd)) (2 * n) = M at *
  unfold crtOk inside disjoint
  simp only [Bool.and_eq_true, Bool.or_eq_true, decide_eq_true_eq]
  refine ⟨?_, ?_⟩ <;> repeat (first | omega | (refine ⟨?_, ?_⟩))
end Mpir.PowmCrt
