/- the index ranges of the CRT path of mpz_powm -/
import MpirProofs.Lemmas.Powm
import Mpir.Model.PowmCrtMem
import MpirProofs.Lemmas.FftRingMulmodK
namespace Mpir.PowmCrt
open Mpir Mpir.Powm

theorem crtOk_true (n nodd ncnt : Nat) (bi : Nat → Nat) (hmono : ∀ a b, a ≤ b → bi a ≤ bi b)
    (h1 : 1 ≤ nodd) (h2 : 1 ≤ ncnt) (h3 : nodd ≤ n) (h4 : ncnt ≤ n) (h5 : n ≤ nodd + ncnt) :
    crtOk n nodd ncnt (2 * n + max (bi (max ncnt nodd)) (2 * n)) bi = true := by
  have hb : bi ncnt ≤ bi (max ncnt nodd) := hmono _ _ (le_max_left _ _)
  have m1 := le_max_left (bi (max ncnt nodd)) (2 * n)
  have m2 := le_max_right (bi (max ncnt nodd)) (2 * n)
  generalize max (bi (max ncnt nodd)) (2 * n) = M at *
  unfold crtOk inside disjoint
  simp only [Bool.and_eq_true, Bool.or_eq_true, decide_eq_true_eq]
  refine ⟨?_, ?_⟩ <;> repeat (first | omega | (refine ⟨?_, ?_⟩))

/-! ### values through the block -/

theorem loadF_length (mem : Mem) (off len : Nat) : (loadF mem off len).length = len := by simp [loadF]

theorem loadF_storeF_prefix (mem : Mem) (off : Nat) (d : List Nat) (len : Nat) (h : len ≤ d.length) :
    loadF (storeF mem off d) off len = d.take len := by
  apply List.ext_getElem
  · simp [loadF, h]
  · intro i h1 h2
    simp only [loadF, List.length_map, List.length_range] at h1
    simp only [loadF, storeF, List.getElem_map, List.getElem_range, List.getElem_take]
    rw [if_pos (by omega), Nat.add_sub_cancel_left, List.getD_eq_getElem?_getD, List.getElem?_eq_getElem (by omega)]
    rfl

theorem loadF_storeF_same (mem : Mem) (off : Nat) (d : List Nat) : loadF (storeF mem off d) off d.length = d := by
  rw [loadF_storeF_prefix mem off d d.length (le_refl _), List.take_length]

theorem loadF_storeF_disj (mem : Mem) (off : Nat) (d : List Nat) (off2 len2 : Nat)
    (h : off2 + len2 ≤ off ∨ off + d.length ≤ off2) : loadF (storeF mem off d) off2 len2 = loadF mem off2 len2 := by
  unfold loadF
  apply List.map_congr_left
  intro j hj
  simp only [List.mem_range] at hj
  unfold storeF
  rw [if_neg (by omega)]

theorem toLimbs_take' : ∀ (n k v : Nat), k ≤ n → (toLimbs n v).take k = toLimbs k v
  | _, 0, _, _ => by simp [toLimbs]
  | 0, k + 1, _, h => by omega
  | n + 1, k + 1, v, h => by
    simp only [toLimbs, List.take_succ_cons]
    rw [toLimbs_take' n k (v / B) (by omega)]

theorem maskCnt_spec (xp : List Nat) (ncnt cnt : Nat) (hx : Limbs xp) (hl : xp.length = ncnt) (hn : 1 ≤ ncnt) (hc : cnt < 64) :
    val (maskCnt xp ncnt cnt) = val xp % 2 ^ ((ncnt - 1) * 64 + cnt) ∧ (maskCnt xp ncnt cnt).length = ncnt := by
  obtain ⟨m1, m2, _⟩ := Fft.mask_top_mod xp ncnt (64 - cnt) hx hl hn (by omega)
  have e : 64 - (64 - cnt) = cnt := by omega
  rw [e] at m1 m2
  have e2 : 64 * ncnt - (64 - cnt) = (ncnt - 1) * 64 + cnt := by omega
  rw [e2] at m1
  exact ⟨m1, m2⟩

/-- the CRT path with every operand going through the single scratch block computes exactly the limbs of the
    value-level `powmEven`, whatever the callees leave in their scratch areas -/
theorem powmEvenMemF_eq (n : Nat) (bp ep modd : List Nat) (nodd ncnt cnt : Nat) (rodd : List Nat) (bi : Nat)
    (junkP junkB : List Nat) (mem0 : Mem) (hrodd : Limbs rodd)
    (h1 : 1 ≤ ncnt) (h2 : ncnt ≤ n) (h4 : n ≤ ncnt + nodd) (h5 : ncnt + nodd ≤ 2 * n) (hcnt : cnt < 64) :
    powmEvenMemF n bp ep modd nodd ncnt cnt rodd bi junkP junkB mem0 = powmEven n bp ep modd nodd ncnt cnt rodd := by
  unfold powmEvenMemF powmEven
  simp only []
  generalize hbpl : (if bp.length < ncnt then bp ++ zeros (ncnt - bp.length) else bp) = bpl
  generalize (ncnt - (if (cnt != 0) = true then 1 else 0)) * 64 + cnt = tt
  generalize (0x1213 >>> ((bpl.headD 0 &&& 7) <<< 1)) &&& 3 = bcnt
  -- stage 1: r2
  generalize hr2 : (if bpl.headD 0 % 2 = 0 then
      if ep.length > 1 then zeros ncnt
      else if (ep.headD 0 * bcnt) % B ≥ tt then zeros ncnt else mpn_powlo bpl ep ncnt
    else mpn_powlo bpl ep ncnt) = r2v
  have hpl : (mpn_powlo bpl ep ncnt).length = ncnt ∧ Limbs (mpn_powlo bpl ep ncnt) := by
    unfold mpn_powlo; exact ⟨toLimbs_length _ _, Limbs_toLimbs _ _⟩
  have hr2l : r2v.length = ncnt ∧ Limbs r2v := by
    rw [← hr2]
    split
    · split
      · exact ⟨zeros_length _, Limbs_zeros _⟩
      · split
        · exact ⟨zeros_length _, Limbs_zeros _⟩
        · exact hpl
    · exact hpl
  have hm1 : ∃ mem1, (if bpl.headD 0 % 2 = 0 ∧ (ep.length > 1 ∨ (ep.headD 0 * bcnt) % B ≥ tt) then storeF mem0 0 (zeros ncnt)
        else storeF (storeF mem0 ncnt (junkP.take (3 * ncnt))) 0 (mpn_powlo bpl ep ncnt)) = mem1 ∧
      loadF mem1 0 ncnt = r2v := by
    by_cases hb0 : bpl.headD 0 % 2 = 0
    · by_cases hen : ep.length > 1
      · refine ⟨_, rfl, ?_⟩
        rw [if_pos ⟨hb0, Or.inl hen⟩, ← hr2, if_pos hb0, if_pos hen]
        have := loadF_storeF_same mem0 0 (zeros ncnt)
        rwa [zeros_length] at this
      · by_cases hbig : (ep.headD 0 * bcnt) % B ≥ tt
        · refine ⟨_, rfl, ?_⟩
          rw [if_pos ⟨hb0, Or.inr hbig⟩, ← hr2, if_pos hb0, if_neg hen, if_pos hbig]
          have := loadF_storeF_same mem0 0 (zeros ncnt)
          rwa [zeros_length] at this
        · refine ⟨_, rfl, ?_⟩
          rw [if_neg (by rintro ⟨_, h | h⟩ <;> contradiction), ← hr2, if_pos hb0, if_neg hen, if_neg hbig]
          have := loadF_storeF_same (storeF mem0 ncnt (junkP.take (3 * ncnt))) 0 (mpn_powlo bpl ep ncnt)
          rwa [hpl.1] at this
    · refine ⟨_, rfl, ?_⟩
      rw [if_neg (by rintro ⟨h, _⟩; contradiction), ← hr2, if_neg hb0]
      have := loadF_storeF_same (storeF mem0 ncnt (junkP.take (3 * ncnt))) 0 (mpn_powlo bpl ep ncnt)
      rwa [hpl.1] at this
  obtain ⟨mem1, hmem1, hl1⟩ := hm1
  rw [hmem1]
  clear hmem1 hr2
  -- stage 2: binvert
  generalize (if nodd < ncnt then modd ++ zeros (ncnt - nodd) else modd) = mpl
  generalize hinv : binvert (val (mpl.take ncnt)) ncnt = oinv
  have hil : (toLimbs ncnt oinv).length = ncnt := toLimbs_length _ _
  have hl2a : loadF (storeF (storeF mem1 (2 * n) (junkB.take bi)) n (toLimbs ncnt oinv)) 0 ncnt = r2v := by
    rw [loadF_storeF_disj _ _ _ _ _ (Or.inl (by omega)), loadF_storeF_disj _ _ _ _ _ (Or.inl (by omega)), hl1]
  have hl2b : loadF (storeF (storeF mem1 (2 * n) (junkB.take bi)) n (toLimbs ncnt oinv)) n ncnt = toLimbs ncnt oinv := by
    have := loadF_storeF_same (storeF mem1 (2 * n) (junkB.take bi)) n (toLimbs ncnt oinv)
    rwa [hil] at this
  generalize storeF (storeF mem1 (2 * n) (junkB.take bi)) n (toLimbs ncnt oinv) = mem2 at *
  rw [hl2a]
  -- stage 3: mpn_sub in place
  have hmin : (rodd.take (min nodd ncnt)).length ≤ r2v.length := by
    rw [List.length_take, hr2l.1]; omega
  obtain ⟨_, _, sL, sl⟩ := sub_val' r2v (rodd.take (min nodd ncnt)) hr2l.2 (Limbs_take hrodd _) hmin
  rw [hr2l.1] at sl
  generalize (sub r2v (rodd.take (min nodd ncnt))).1 = sres at *
  have hl3a : loadF (storeF mem2 0 sres) 0 ncnt = sres := by
    have := loadF_storeF_same mem2 0 sres; rwa [sl] at this
  have hl3b : loadF (storeF mem2 0 sres) n ncnt = toLimbs ncnt oinv := by
    rw [loadF_storeF_disj _ _ _ _ _ (Or.inr (by omega)), hl2b]
  generalize storeF mem2 0 sres = mem3 at *
  rw [hl3a, hl3b]
  -- stage 4: mullow
  have hP : val (toLimbs ncnt (val (toLimbs ncnt oinv) * val sres)) = (oinv * val sres) % B ^ ncnt := by
    rw [val_toLimbs, val_toLimbs, Nat.mod_mul_mod]
  have hl4 : loadF (storeF mem3 (2 * n) (toLimbs (2 * ncnt) (val (toLimbs ncnt oinv) * val sres))) (2 * n) ncnt =
      toLimbs ncnt (val (toLimbs ncnt oinv) * val sres) := by
    rw [loadF_storeF_prefix _ _ _ _ (by rw [toLimbs_length]; omega), toLimbs_take' _ _ _ (by omega)]
  generalize storeF mem3 (2 * n) (toLimbs (2 * ncnt) (val (toLimbs ncnt oinv) * val sres)) = mem4 at *
  -- stage 5: the mask
  have hx : ∃ mem5, (if (cnt != 0) = true then storeF mem4 (2 * n) (maskCnt (loadF mem4 (2 * n) ncnt) ncnt cnt) else mem4) = mem5 ∧
      val (loadF mem5 (2 * n) ncnt) =
        (if (cnt != 0) = true then (oinv * val sres) % B ^ ncnt % 2 ^ ((ncnt - 1) * 64 + cnt) else (oinv * val sres) % B ^ ncnt) := by
    by_cases hc0 : (cnt != 0) = true
    · refine ⟨_, rfl, ?_⟩
      rw [if_pos hc0, if_pos hc0, hl4]
      obtain ⟨mv, ml⟩ := maskCnt_spec (toLimbs ncnt (val (toLimbs ncnt oinv) * val sres)) ncnt cnt (Limbs_toLimbs _ _)
        (toLimbs_length _ _) h1 hcnt
      have := loadF_storeF_same mem4 (2 * n) (maskCnt (toLimbs ncnt (val (toLimbs ncnt oinv) * val sres)) ncnt cnt)
      rw [ml] at this
      rw [this, mv, hP]
    · refine ⟨_, rfl, ?_⟩
      rw [if_neg hc0, if_neg hc0, hl4, hP]
  obtain ⟨mem5, hmem5, hv5⟩ := hx
  rw [hmem5, hv5]
  -- stage 6: mpn_mul and the final read
  rw [loadF_storeF_prefix _ _ _ _ (by rw [toLimbs_length]; omega)]
end Mpir.PowmCrt
