/- mpn_binvert: the Newton loop over the reversed schedule, the Hensel loop of mpn_sb_bdiv_q, the base case. -/
import MpirProofs.Lemmas.BinvertStep
import Mathlib.Tactic.LinearCombination
import Mathlib.Tactic.IntervalCases
import Mathlib.Tactic.NormNum
namespace Mpir.Binvert
open Mpir Mpir.Powm Mpir.PowmL Mpir.Mm1

/-! ### the schedule read backwards -/

/-- `l` is the ascending chain of precisions from the base size `rn` up to `top`: each is `(next + 1) >> 1` -/
def Asc : Nat → List Nat → Nat → Prop
  | rn, [], top => rn = top
  | rn, x :: rest, top => rn = (x + 1) / 2 ∧ 2 ≤ x ∧ Asc x rest top

theorem Asc_snoc : ∀ (l : List Nat) (rn mid x : Nat), Asc rn l mid → mid = (x + 1) / 2 → 2 ≤ x → Asc rn (l ++ [x]) x
  | [], rn, mid, x, h, hm, hx => by
    simp only [Asc] at h; subst h
    exact ⟨hm, hx, rfl⟩
  | y :: l, rn, mid, x, h, hm, hx => by
    obtain ⟨a, b, c⟩ := h
    exact ⟨a, b, Asc_snoc l y mid x c hm hx⟩

theorem Asc_of_chain (thr : Nat) (hthr : 2 ≤ thr) : ∀ (sizes : List Nat) (cur rn : Nat), ChainOk thr cur sizes rn →
    Asc rn sizes.reverse cur
  | [], cur, rn, h => h.1
  | s :: rest, cur, rn, h => by
    obtain ⟨a, b, c⟩ := h
    subst a
    rw [List.reverse_cons]
    exact Asc_snoc _ rn _ s (Asc_of_chain thr hthr rest _ rn c) rfl (by omega)

theorem Asc_le : ∀ (l : List Nat) (rn top : Nat), Asc rn l top → rn ≤ top
  | [], rn, top, h => by simp only [Asc] at h; omega
  | x :: l, rn, top, h => by
    obtain ⟨a, b, c⟩ := h
    have := Asc_le l x top c
    omega

/-- the Newton loop (binvert.c:89-123) establishes the invariant at the full size `n` -/
theorem newton_inv (mthr : Nat) (pp1 : List Nat → List Nat → Nat → Nat → List Nat × Nat) (hpp1 : P1Spec pp1)
    (nextSize : Nat → Nat) (jk : Nat → Nat) (up : List Nat) (n itch : Nat) (hup : Limbs up) (hlen : up.length = n)
    (hns : ∀ k, 2 ≤ k → k ≤ n → k ≤ nextSize k ∧ nextSize k - k < (k + 1) / 2 ∧
      nextSize k + (5 * nextSize k + 220) ≤ itch) :
    ∀ (l : List Nat) (rn : Nat) (s : St), Asc rn l n → rn < n → 1 ≤ rn → Inv n itch (val up) s rn →
      Inv n itch (val up) (newton mthr pp1 nextSize jk up n l rn s) n
  | [], rn, s, h, hlt, _, _ => by simp only [Asc] at h; omega
  | x :: rest, rn, s, h, hlt, h1, hI => by
    obtain ⟨a, b, c⟩ := h
    have hxn := Asc_le rest x n c
    obtain ⟨n1, n2, n3⟩ := hns x b hxn
    unfold newton
    by_cases hx : x < n
    · rw [if_pos hx]
      have hl : 2 * x - rn ≤ n := by
        cases rest with
        | nil => simp only [Asc] at c; omega
        | cons y r' =>
          obtain ⟨a', b', c'⟩ := c
          have := Asc_le r' y n c'
          omega
      have hS := step_inv mthr pp1 hpp1 nextSize jk up false s rn x n itch hup hlen hI h1 (by omega) (by omega) hxn
        n1 (by omega) n3 (fun _ => hl)
      exact newton_inv mthr pp1 hpp1 nextSize jk up n itch hup hlen hns rest x _ c hx (by omega) hS
    · rw [if_neg hx]
      have hxe : x = n := by omega
      subst hxe
      exact step_inv mthr pp1 hpp1 nextSize jk up true s rn x x itch hup hlen hI h1 (by omega) (by omega) (le_refl _)
        n1 (by omega) n3 (fun h => absurd h (by decide))

/-! ### the base case -/

/-- mpn_sb_bdiv_q for nn = dn (the Hensel loop, sb_bdiv_q.c:74-88): `Q·D ≡ N (mod B^i)`, Q has i limbs. -/
theorem sbLoop_spec (dinv : Nat) (dp : List Nat) (hdp : Limbs dp) (hd : (dinv * dp.headD 0) % B = 1) :
    ∀ (i : Nat) (np : List Nat) (w0 w1 : Nat), Limbs np → np.length = i → i ≤ dp.length →
      Limbs (sbLoop dinv dp i np w0 w1).1 ∧ (sbLoop dinv dp i np w0 w1).1.length = i ∧
      (val (sbLoop dinv dp i np w0 w1).1 * val dp) % B ^ i = val np % B ^ i
  | 0, np, w0, w1, _, _, _ => by simp [sbLoop, Limbs_nil, Nat.mod_one]
  | i + 1, np, w0, w1, hnp, hl, hi => by
    have hq : (dinv * np.headD 0) % B < B := Nat.mod_lt _ B_pos
    have hNt : np.take (i + 1) = np := List.take_of_length_le (by omega)
    have hDL : Limbs (dp.take (i + 1)) := Limbs_take hdp _
    have hDlen : (dp.take (i + 1)).length = i + 1 := by simp; omega
    have hDv : val (dp.take (i + 1)) = val dp % B ^ (i + 1) := (Powm.val_take_mod _ hdp _).symm
    have hD0 : (dp.take (i + 1)).headD 0 = dp.headD 0 := by cases dp <;> simp
    have e : sbLoop dinv dp (i + 1) np w0 w1 =
        ((dinv * np.headD 0) % B ::
          (sbLoop dinv dp i (submul_1 (np.take (i + 1)) (dp.take (i + 1)) ((dinv * np.headD 0) % B)).1.tail
            ((w0 + (submul_1 (np.take (i + 1)) (dp.take (i + 1)) ((dinv * np.headD 0) % B)).2) % B)
            ((w1 + (w0 + (submul_1 (np.take (i + 1)) (dp.take (i + 1)) ((dinv * np.headD 0) % B)).2) / B) % B)).1,
          (sbLoop dinv dp i (submul_1 (np.take (i + 1)) (dp.take (i + 1)) ((dinv * np.headD 0) % B)).1.tail
            ((w0 + (submul_1 (np.take (i + 1)) (dp.take (i + 1)) ((dinv * np.headD 0) % B)).2) % B)
            ((w1 + (w0 + (submul_1 (np.take (i + 1)) (dp.take (i + 1)) ((dinv * np.headD 0) % B)).2) / B) % B)).2) := rfl
    rw [e, hNt]
    obtain ⟨s1, s2, s3, s4⟩ := submul1C_val _ hq np (dp.take (i + 1)) 0 hnp hDL (by omega) B_pos
    rw [hDlen] at s1 s4
    have hsm : submul_1 np (dp.take (i + 1)) ((dinv * np.headD 0) % B) =
      submul1C np (dp.take (i + 1)) ((dinv * np.headD 0) % B) 0 := rfl
    rw [hsm]
    generalize submul1C np (dp.take (i + 1)) ((dinv * np.headD 0) % B) 0 = sm at *
    generalize (w0 + sm.2) % B = w0' 
    generalize (w1 + (w0 + sm.2) / B) % B = w1'
    -- shapes
    obtain ⟨o0, ot, hsm1⟩ : ∃ o0 ot, sm.1 = o0 :: ot := by
      cases h : sm.1 with
      | nil => rw [h] at s4; simp at s4
      | cons a b => exact ⟨a, b, rfl⟩
    obtain ⟨n0, nt, hnp1⟩ : ∃ n0 nt, np = n0 :: nt := by
      cases np with
      | nil => simp at hl
      | cons a b => exact ⟨a, b, rfl⟩
    obtain ⟨d0, dt, hdp1⟩ : ∃ d0 dt, dp.take (i + 1) = d0 :: dt := by
      cases h : dp.take (i + 1) with
      | nil => rw [h] at hDlen; simp at hDlen
      | cons a b => exact ⟨a, b, rfl⟩
    rw [hsm1] at s1 s3 s4
    rw [hsm1]
    rw [hdp1] at s1 hD0 hDv
    subst hnp1
    simp only [List.headD_cons, List.tail_cons, val_cons] at *
    obtain ⟨ho0, hot⟩ := Limbs_cons.mp s3
    obtain ⟨ih1, ih2, ih3⟩ := sbLoop_spec dinv dp hdp hd i ot w0' w1' hot (by simpa using s4) (by omega)
    generalize (sbLoop dinv dp i ot w0' w1').1 = Q' at *
    rw [← hD0] at hd
    -- the cancelled limb is zero
    have hz : o0 = 0 := by
      have h1 : (o0 + d0 * ((dinv * n0) % B)) % B = n0 % B := by
        have : o0 + d0 * ((dinv * n0) % B) + B * (val ot + val dt * ((dinv * n0) % B)) = n0 + B * (val nt + B ^ i * sm.2) := by
          rw [pow_succ] at s1; nlinarith
        have h2 := congrArg (· % B) this
        simp only [Nat.add_mul_mod_self_left] at h2
        exact h2
      have h2 : (d0 * ((dinv * n0) % B)) % B = n0 % B := by
        rw [Nat.mul_mod, Nat.mod_mod, ← Nat.mul_mod, ← Nat.mul_assoc, Nat.mul_comm d0 dinv, Nat.mul_mod, hd, Nat.one_mul,
          Nat.mod_mod]
      have h3 : o0 % B = 0 := by
        have : (o0 + d0 * ((dinv * n0) % B)) % B = (0 + d0 * ((dinv * n0) % B)) % B := by rw [h1, Nat.zero_add, h2]
        have := Nat.ModEq.add_right_cancel' _ this
        simpa [Nat.ModEq] using this
      rw [Nat.mod_eq_of_lt ho0] at h3; exact h3
    subst hz
    refine ⟨Limbs_cons.mpr ⟨hq, ih1⟩, by simp [ih2], ?_⟩
    -- Q·D ≡ N (mod B^(i+1))
    have hdiv := Nat.mod_add_div (val dp) (B ^ (i + 1))
    rw [← hDv] at hdiv
    generalize val dp / B ^ (i + 1) = ed at hdiv
    have ihm : (val Q' * val dp) ≡ val ot [MOD B ^ i] := by
      unfold Nat.ModEq; rw [ih3]
    obtain ⟨z, hz⟩ := (Int.modEq_iff_dvd.mp (Int.natCast_modEq_iff.mpr ihm))
    have goal : (((dinv * n0) % B + B * val Q') * val dp) ≡ (n0 + B * val nt) [MOD B ^ (i + 1)] := by
      apply Int.natCast_modEq_iff.mp
      apply Int.modEq_iff_dvd.mpr
      refine ⟨-(sm.2 : ℤ) - ((dinv * n0) % B : ℕ) * ed + z, ?_⟩
      have s1z : ((0 : ℕ) : ℤ) + B * (val ot : ℤ) + ((d0 : ℤ) + B * val dt) * ((dinv * n0) % B : ℕ) + 0 =
          n0 + B * val nt + (B : ℤ) ^ (i + 1) * sm.2 := by exact_mod_cast s1
      have hdz : ((d0 : ℤ) + B * val dt) + (B : ℤ) ^ (i + 1) * ed = val dp := by exact_mod_cast hdiv
      push_cast at hz s1z ⊢
      rw [pow_succ]
      rw [pow_succ] at s1z hdz
      linear_combination (-1 : ℤ) * s1z + ((dinv : ℤ) * n0 % B) * hdz + (B : ℤ) * hz
    exact goal

theorem mul_mod_lift (R U M : Nat) (h : (R * (U % M)) % M = 1) : (R * U) % M = 1 := by
  rw [Nat.mul_mod, Nat.mod_mod] at h
  rw [Nat.mul_mod]; exact h

theorem val_mod_two (l : List Nat) : val l % 2 = l.headD 0 % 2 := by
  cases l with
  | nil => rfl
  | cons x xs => simp only [val_cons, List.headD_cons, B_eq]; omega

theorem val_one_zeros (k : Nat) : val (1 :: zeros k) = 1 ∧ Limbs (1 :: zeros k) := by
  have hz : val (zeros k) = 0 ∧ Limbs (zeros k) := by
    unfold zeros
    induction k with
    | zero => exact ⟨rfl, Limbs_nil⟩
    | succ j ih =>
      rw [List.replicate_succ]
      exact ⟨by rw [val_cons, ih.1]; simp, Limbs_cons.mpr ⟨B_pos, ih.2⟩⟩
  exact ⟨by rw [val_cons, hz.1]; simp, Limbs_cons.mpr ⟨by rw [B_eq]; norm_num, hz.2⟩⟩

/-- the base value (binvert.c:73-85) establishes the invariant at the base size -/
theorem base_inv (dcThr : Nat) (jk : Nat → Nat) (up : List Nat) (rn : Nat) (rp0 xp0 : List Nat) (n itch : Nat)
    (hup : Limbs up) (hlen : up.length = n) (hodd : up.headD 0 % 2 = 1) (hrn1 : 1 ≤ rn) (hrn : rn ≤ n)
    (hrp : rp0.length = n) (hxp : xp0.length = itch) (hit : rn + 2 ≤ itch) (hdc : 6 ≤ dcThr) :
    Inv n itch (val up) (base dcThr jk up rn rp0 xp0) rn := by
  have hdp : load up 0 rn = (up.take rn, true) := by rw [load_eq _ _ _ (by omega)]; simp
  have huL : Limbs (up.take rn) := Limbs_take hup _
  have hulen : (up.take rn).length = rn := by simp; omega
  have huv : val up % B ^ rn = val (up.take rn) := Powm.val_take_mod _ hup _
  have hu0 : (up.take rn).headD 0 = up.headD 0 := by
    cases up with
    | nil => simp
    | cons a b => cases rn with
      | zero => omega
      | succ j => simp
  have h1len : (1 :: zeros (rn - 1)).length = rn := by simp [zeros]; omega
  have x0ok : (store xp0 0 (1 :: zeros (rn - 1))).2 = true := by rw [store_eq _ _ _ (by omega)]
  have x0len := store_length xp0 0 (1 :: zeros (rn - 1))
  have x0rd := store_read xp0 0 (1 :: zeros (rn - 1)) (by omega) rn (by omega)
  have ht : (1 :: zeros (rn - 1)).take rn = 1 :: zeros (rn - 1) := List.take_of_length_le (le_of_eq h1len)
  rw [ht] at x0rd
  clear ht
  unfold base
  simp only [hdp]
  generalize store xp0 0 (1 :: zeros (rn - 1)) = x0 at *
  by_cases hb : aboveThr rn dcThr = true
  · -- mpn_dc_bdiv_q by its contract
    simp only [hb, Bool.not_true, Bool.false_eq_true, if_false]
    have hge := (aboveThr_iff rn dcThr (by omega)).mp hb
    have r1ok : (store rp0 0 (toLimbs rn (binvert (val (up.take rn)) rn))).2 = true := by
      rw [store_eq _ _ _ (by rw [toLimbs_length]; omega)]
    have r1len := store_length rp0 0 (toLimbs rn (binvert (val (up.take rn)) rn))
    have r1take := store_take_hi rp0 0 (toLimbs rn (binvert (val (up.take rn)) rn)) (by rw [toLimbs_length]; omega)
    rw [toLimbs_length] at r1take
    simp only [Nat.zero_add, List.take_zero, List.nil_append] at r1take
    generalize store rp0 0 (toLimbs rn (binvert (val (up.take rn)) rn)) = r1 at *
    have x1ok : (store x0.1 0 (toLimbs rn (jk 0))).2 = true := by rw [store_eq _ _ _ (by rw [toLimbs_length]; omega)]
    have x1len := store_length x0.1 0 (toLimbs rn (jk 0))
    generalize store x0.1 0 (toLimbs rn (jk 0)) = x1 at *
    refine ⟨by simp [x0ok, r1ok, x1ok]; omega, by rw [r1len, hrp], by rw [x1len, x0len, hxp], ?_, ?_⟩
    · rw [r1take]; exact Limbs_toLimbs _ _
    · rw [r1take, val_toLimbs]
      have hs := binvert_spec (val (up.take rn)) rn hrn1 (by rw [val_mod_two, hu0]; exact hodd)
      apply mul_mod_lift
      rw [huv, Nat.mul_mod, Nat.mod_mod, ← Nat.mul_mod]; exact hs
  · -- mpn_sb_bdiv_q, limb by limb
    have hb' : aboveThr rn dcThr = false := by simpa using hb
    simp only [hb', Bool.not_false, if_true]
    have npv : load x0.1 0 rn = (1 :: zeros (rn - 1), true) := by
      rw [load_eq _ _ _ (by omega), x0rd]
    simp only [npv]
    obtain ⟨v1, l1⟩ := val_one_zeros (rn - 1)
    have hd : (modlimb_invert (up.headD 0) * (up.take rn).headD 0) % B = 1 := by
      rw [hu0]; exact modlimb_invert_spec _ hodd
    obtain ⟨q1, q2, q3⟩ := sbLoop_spec (modlimb_invert (up.headD 0)) (up.take rn) huL hd rn (1 :: zeros (rn - 1)) 0 0
      l1 h1len (by omega)
    have h1lt : 1 < B ^ rn := by
      have : 2 ≤ B := by rw [B_eq]; norm_num
      exact lt_of_lt_of_le this (Nat.le_self_pow (by omega) B)
    rw [v1, Nat.mod_eq_of_lt h1lt] at q3
    generalize sbLoop (modlimb_invert (up.headD 0)) (up.take rn) rn (1 :: zeros (rn - 1)) 0 0 = q at *
    have r1ok : (store rp0 0 q.1).2 = true := by rw [store_eq _ _ _ (by omega)]
    have r1len := store_length rp0 0 q.1
    have r1take := store_take_hi rp0 0 q.1 (by omega)
    rw [q2] at r1take
    simp only [Nat.zero_add, List.take_zero, List.nil_append] at r1take
    generalize store rp0 0 q.1 = r1 at *
    have zl : (zeros rn).length = rn := by simp [zeros]
    have x1ok : (store x0.1 0 (zeros rn)).2 = true := by rw [store_eq _ _ _ (by omega)]
    have x1len := store_length x0.1 0 (zeros rn)
    generalize store x0.1 0 (zeros rn) = x1 at *
    have x2ok : (store x1.1 rn [q.2.1, q.2.2]).2 = true := by rw [store_eq _ _ _ (by simp; omega)]
    have x2len := store_length x1.1 rn [q.2.1, q.2.2]
    generalize store x1.1 rn [q.2.1, q.2.2] = x2 at *
    refine ⟨by simp [x0ok, r1ok, x1ok, x2ok]; omega, by rw [r1len, hrp], by rw [x2len, x1len, x0len, hxp], ?_, ?_⟩
    · rw [r1take]; exact q1
    · rw [r1take]
      apply mul_mod_lift
      rw [huv]; exact q3

/-! ### the size of `sizes[]` -/

theorem schedule_len (thr : Nat) : ∀ (f rn e : Nat), 1 ≤ rn → rn - 1 < 2 ^ e * (thr - 1) →
    (schedule thr f rn).1.length ≤ e
  | 0, rn, e, _, _ => by simp [schedule]
  | f + 1, rn, e, h1, h2 => by
    unfold schedule
    by_cases ha : aboveThr rn thr = true
    · rw [if_pos ha]
      have hthr : 1 ≤ thr := by
        rcases Nat.eq_zero_or_pos thr with h | h
        · subst h; simp at h2
        · exact h
      have hge := (aboveThr_iff rn thr hthr).mp ha
      cases e with
      | zero => simp at h2; omega
      | succ e' =>
        have h3 : (rn + 1) / 2 - 1 < 2 ^ e' * (thr - 1) := by
          rw [pow_succ] at h2
          have e2 : 2 ^ e' * 2 * (thr - 1) = 2 * (2 ^ e' * (thr - 1)) := by ring
          rw [e2] at h2
          generalize 2 ^ e' * (thr - 1) = w at *
          omega
        have := schedule_len thr f ((rn + 1) / 2) e' (by omega) h3
        simp only [List.length_cons]; omega
    · rw [if_neg ha]; simp

theorem log2c_count : ∀ j, j ≤ 15 → ((List.range 16).filter (fun i => decide (i ≤ j))).length = j + 1 := by decide

theorem npows_bound (thr : Nat) (hthr : 2 ≤ thr) : 2 ^ 46 ≤ 2 ^ (npows thr) * (thr - 1) := by
  have hne : thr ≠ 0 := by omega
  have l1 := Nat.log2_self_le hne
  have l2 := @Nat.lt_log2_self thr
  have l3 : 1 ≤ thr.log2 := (Nat.le_log2 hne).mpr (by omega)
  have hc : log2c thr = min thr.log2 15 + 1 := by
    rw [← log2c_count _ (Nat.min_le_right _ _)]
    unfold log2c
    congr 1
    apply List.filter_congr
    intro i hi
    have hi16 : i < 16 := List.mem_range.mp hi
    have : (thr ≥ 2 ^ i) ↔ (i ≤ min thr.log2 15) := by
      constructor
      · intro h
        have := (Nat.le_log2 hne).mpr h
        omega
      · intro h
        have : 2 ^ i ≤ 2 ^ thr.log2 := Nat.pow_le_pow_right (by norm_num) (by omega)
        omega
    simp only [this]
  unfold npows
  rw [hc]
  have hj : 2 ^ (min thr.log2 15) ≤ thr := le_trans (Nat.pow_le_pow_right (by norm_num) (Nat.min_le_left _ _)) l1
  have hj1 : 1 ≤ min thr.log2 15 := by omega
  have hj15 : min thr.log2 15 ≤ 15 := Nat.min_le_right _ _
  generalize min thr.log2 15 = j at *
  interval_cases j <;> norm_num at hj ⊢ <;> omega

end Mpir.Binvert
