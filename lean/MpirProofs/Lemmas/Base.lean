/- Helper lemmas about `val`, `Limbs`, `toLimbs`. -/
import Mpir.Base
import Mathlib.Tactic.Ring
import Mathlib.Tactic.Linarith
namespace Mpir

theorem B_pos : 0 < B := by unfold B; positivity
theorem B_eq : B = 18446744073709551616 := by unfold B; norm_num

@[simp] theorem val_nil : val [] = 0 := rfl
@[simp] theorem val_cons (x : Nat) (xs : List Nat) : val (x :: xs) = x + B * val xs := rfl

theorem Limbs_nil : Limbs [] := by intro x hx; cases hx
theorem Limbs_cons {x : Nat} {xs : List Nat} : Limbs (x :: xs) ↔ x < B ∧ Limbs xs := by
  unfold Limbs; simp

theorem val_lt (l : List Nat) (h : Limbs l) : val l < B ^ l.length := by
  induction l with
  | nil => simp
  | cons x xs ih =>
    have ⟨hx, hxs⟩ := Limbs_cons.mp h
    have := ih hxs
    simp only [val_cons, List.length_cons, pow_succ]
    nlinarith [B_pos]

theorem val_append (a b : List Nat) : val (a ++ b) = val a + B ^ a.length * val b := by
  induction a with
  | nil => simp
  | cons x xs ih => simp only [List.cons_append, val_cons, ih, List.length_cons, pow_succ]; ring

theorem Limbs_append {a b : List Nat} : Limbs (a ++ b) ↔ Limbs a ∧ Limbs b := by
  unfold Limbs; simp only [List.mem_append]
  constructor
  · intro h; exact ⟨fun x hx => h x (Or.inl hx), fun x hx => h x (Or.inr hx)⟩
  · rintro ⟨h1, h2⟩ x (hx | hx); exact h1 x hx; exact h2 x hx

theorem Limbs_take {l : List Nat} (h : Limbs l) (n : Nat) : Limbs (l.take n) :=
  fun x hx => h x (List.mem_of_mem_take hx)
theorem Limbs_drop {l : List Nat} (h : Limbs l) (n : Nat) : Limbs (l.drop n) :=
  fun x hx => h x (List.mem_of_mem_drop hx)

theorem val_take_drop (l : List Nat) (n : Nat) (hn : n ≤ l.length) :
    val l = val (l.take n) + B ^ n * val (l.drop n) := by
  conv_lhs => rw [← List.take_append_drop n l]
  rw [val_append, List.length_take, Nat.min_eq_left hn]

end Mpir
