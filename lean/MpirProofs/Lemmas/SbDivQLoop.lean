/-
  Lemmas for C02 part c02_sbq (mpn_sb_divappr_q): the truncating loop.  Value-level error accounting
  (`trunc_step`, `trunc_sat`, `trunc_base`), the saturation test, one step, the last limb and the loop invariant.

  Invariant of `daLoop2 k` (divisor V on k+2 limbs, window W on k+3 limbs, c = the divisor limb dropped just before,
  so that V⁺ = c + B·V is the previous divisor and W < V⁺): the k+1 quotient limbs Q it produces satisfy
      B^(k+1)·(W + 1) ≤ (Q + 1)·V⁺          (Q is not too small)
      Q·V⁺ ≤ B^(k+1)·W + (k+1)·B^(k+2)       (Q is too large by less than (k+1)·B^(k+2)/V⁺)
  whichever branches (ordinary, q = B-1, add-back, saturation to all ones) are taken.
-/
import MpirProofs.Lemmas.SbDivQ
namespace Mpir.SbDivQ
open Mpir Mpir.DivWord Mpir.SbDiv

theorem trunc_step (P W q V R Q' c E : Nat) (hW : W = q * V + R)
    (h1 : P * (R + 1) ≤ (Q' + 1) * V) (h2 : Q' * V ≤ P * R + E) (hc : c < B) (hQ' : Q' < P) (hq : q < B) :
    B * P * (W + 1) ≤ (Q' + P * q + 1) * (c + B * V) ∧
    (Q' + P * q) * (c + B * V) ≤ B * P * W + (B * E + B * P * B) := by
  subst hW
  have a : B * (P * (R + 1)) ≤ B * ((Q' + 1) * V) := Nat.mul_le_mul_left _ h1
  have b : B * (Q' * V) ≤ B * (P * R + E) := Nat.mul_le_mul_left _ h2
  have hle : Q' + P * q + 1 ≤ P * B := by
    have : P * (q + 1) ≤ P * B := Nat.mul_le_mul_left _ hq
    nlinarith
  have d : (Q' + P * q) * c ≤ (P * B) * B := Nat.mul_le_mul (by omega) hc.le
  constructor
  · nlinarith [Nat.zero_le (Q' * c), Nat.zero_le (P * q * c), Nat.zero_le c]
  · nlinarith

theorem trunc_sat (P W V c : Nat) (hP : 0 < P) (hW1 : W < c + B * V) (hW2 : B * V ≤ W) (hc : c < B) :
    P * (W + 1) ≤ (P - 1 + 1) * (c + B * V) ∧ (P - 1) * (c + B * V) ≤ P * W + P * B := by
  obtain ⟨p, rfl⟩ : ∃ p, P = p + 1 := ⟨P - 1, by omega⟩
  rw [Nat.add_sub_cancel]
  constructor
  · exact Nat.mul_le_mul_left _ hW1
  · have : p * c ≤ (p + 1) * B := Nat.mul_le_mul (by omega) hc.le
    have : p * (B * V) ≤ (p + 1) * W := Nat.mul_le_mul (by omega) hW2
    nlinarith

theorem trunc_base (W V q R c : Nat) (hW : W = q * V + R) (hR : R < V) (hq : q < B) (hc : c < B) :
    B * (W + 1) ≤ (q + 1) * (c + B * V) ∧ q * (c + B * V) ≤ B * W + B * B := by
  subst hW
  have : q * c ≤ B * B := Nat.mul_le_mul hq.le hc.le
  constructor
  · nlinarith [Nat.zero_le (q * c), Nat.zero_le c]
  · nlinarith

theorem val_replicate_max : ∀ n : Nat, val (List.replicate n (B - 1)) + 1 = B ^ n
  | 0 => by simp
  | n + 1 => by
    have ih := val_replicate_max n
    have hB := B_pos
    rw [List.replicate_succ, val_cons, pow_succ]
    have : B * (val (List.replicate n (B - 1)) + 1) = B * B ^ n := by rw [ih]
    have e : B - 1 + 1 = B := by omega
    nlinarith

theorem Limbs_replicate_max (n : Nat) : Limbs (List.replicate n (B - 1)) := by
  intro x hx
  have := List.eq_of_mem_replicate hx
  have := B_pos
  omega

/-- the test sb_divappr_q.c:133-138 "truncation ruins normalisation" fires exactly when the window is ≥ B·divisor -/
theorem daSat_iff (dlo m : List Nat) (d0 d1 n1 cy : Nat) (hm : m.length = dlo.length + 1)
    (hdlo : Limbs dlo) (hml : Limbs m) (hd0 : d0 < B) (hd1 : d1 < B) (hn1 : n1 < B) :
    (cy ≥ d1 ∧ (cy > d1 ∨ (cy = d1 ∧
        cmp ((m ++ [n1]).drop 1) ((dlo ++ [d0, d1]).take (dlo.length + 1)) ≥ 0))) ↔
      B * (val dlo + B ^ dlo.length * (d0 + B * d1)) ≤ val m + B ^ (dlo.length + 1) * (n1 + B * cy) := by
  have hB := B_pos
  match m, hm, hml with
  | ml :: mr, hm, hml =>
    have ⟨hml0, hmr⟩ := Limbs_cons.mp hml
    have hmrl : mr.length = dlo.length := by simpa using hm
    have e1 : ((ml :: mr) ++ [n1]).drop 1 = mr ++ [n1] := rfl
    have e2 : (dlo ++ [d0, d1]).take (dlo.length + 1) = dlo ++ [d0] := take_top1 dlo d0 d1
    have hc := cmp_ge_iff (mr ++ [n1]) (dlo ++ [d0]) (Limbs_snoc hmr hn1) (Limbs_snoc hdlo hd0) (by simp [hmrl])
    rw [e1, e2, hc, val_top1, val_top1, hmrl, val_cons, pow_succ]
    have hDlt := val_lt dlo hdlo
    have hMlt := val_lt mr hmr
    rw [hmrl] at hMlt
    generalize val dlo = Dl at *
    generalize val mr = Mr at *
    generalize B ^ dlo.length = P at *
    have hP : 0 < P := by omega
    have hA : B * (Dl + 1) ≤ B * P := Nat.mul_le_mul_left _ hDlt
    have hA2 : B * (Mr + 1) ≤ B * P := Nat.mul_le_mul_left _ hMlt
    have hD0 : P * B * (d0 + 1) ≤ P * B * B := Nat.mul_le_mul_left _ hd0
    have hN1 : P * B * (n1 + 1) ≤ P * B * B := Nat.mul_le_mul_left _ hn1
    have z1 := Nat.zero_le (P * B * n1)
    have z2 := Nat.zero_le (B * Mr)
    have z3 := Nat.zero_le (P * B * d0)
    have z4 := Nat.zero_le (B * Dl)
    constructor
    · rintro ⟨h1, h2 | ⟨rfl, h3⟩⟩
      · have : P * B * B * (d1 + 1) ≤ P * B * B * cy := Nat.mul_le_mul_left _ h2
        nlinarith
      · have : B * (Dl + P * d0) ≤ B * (Mr + P * n1) := Nat.mul_le_mul_left _ h3
        nlinarith
    · intro h
      have hcy : d1 ≤ cy := by
        by_contra hlt
        have : P * B * B * (cy + 1) ≤ P * B * B * d1 := Nat.mul_le_mul_left _ (by omega)
        nlinarith
      refine ⟨hcy, ?_⟩
      by_cases hgt : cy > d1
      · exact Or.inl hgt
      · have : cy = d1 := by omega
        subst this
        refine Or.inr ⟨rfl, ?_⟩
        by_contra hlt
        have : Mr + P * n1 + 1 ≤ Dl + P * d0 := by omega
        have : B * (Mr + P * n1 + 1) ≤ B * (Dl + P * d0) := Nat.mul_le_mul_left _ this
        nlinarith

theorem split_top1 (l : List Nat) (j : Nat) (h : l.length = j + 1) : l = l.take j ++ [l.getD j 0] := by
  have h1 : l = l.take j ++ l.drop j := (List.take_append_drop j l).symm
  have h2 : (l.drop j).length = 1 := by simp [h]
  match hd : l.drop j, h2 with
  | [a], _ =>
    have ha : l.getD j 0 = a := by
      have := congrArg (fun t => t.getD 0 0) hd; simpa [List.getD_eq_getElem?_getD] using this
    rw [ha, ← hd]; exact h1

/-- one step of the truncating loop below the saturation threshold: an exact division step of the window by the
    current (truncated) divisor, whichever of the three code paths is taken -/
theorem daStep2_spec (dlo m : List Nat) (d0 d1 dinv n1 cy : Nat) (hm : m.length = dlo.length + 1)
    (hdlo : Limbs dlo) (hml : Limbs m) (hd0 : d0 < B) (hd1 : d1 < B) (hn1 : n1 < B) (hcy : cy < B)
    (hnorm : B / 2 ≤ d1) (hdinv : dinv = invert_pi1 d1 d0)
    (hW : val m + B ^ (dlo.length + 1) * (n1 + B * cy) < B * (val dlo + B ^ dlo.length * (d0 + B * d1))) :
    ∃ q w cy' n1',
      daFix ((dlo ++ [d0, d1]).take dlo.length) d1 d0
        (if cy ≥ d1 ∧ n1 ≥ d0 then daSpecial (dlo ++ [d0, d1]) (m ++ [n1]) cy
         else daRegular ((dlo ++ [d0, d1]).take dlo.length) d1 d0 dinv (m.take dlo.length) (m.getD dlo.length 0) n1 cy)
        = (q, w, cy', n1') ∧
      val m + B ^ (dlo.length + 1) * (n1 + B * cy)
        = q * (val dlo + B ^ dlo.length * (d0 + B * d1)) + (val w + B ^ dlo.length * (n1' + B * cy')) ∧
      val w + B ^ dlo.length * (n1' + B * cy') < val dlo + B ^ dlo.length * (d0 + B * d1) ∧
      q < B ∧ Limbs w ∧ w.length = dlo.length ∧ n1' < B ∧ cy' < B := by
  have hB := B_pos
  have hsplit := split_top1 m dlo.length hm
  have halo : Limbs (m.take dlo.length) := Limbs_take hml _
  have hm0 := limb_getD hml dlo.length
  have hlen : (m.take dlo.length).length = dlo.length := by rw [List.length_take, hm]; omega
  have hvm := val_take_top m dlo.length hm
  rw [take_top]
  generalize m.take dlo.length = alo at *
  generalize m.getD dlo.length 0 = m0 at *
  subst hsplit
  rw [← hvm, pow_succ] at hW ⊢
  have hWe : val alo + B ^ dlo.length * m0 + B ^ dlo.length * B * (n1 + B * cy)
      = val alo + B ^ dlo.length * (m0 + B * n1 + B * B * cy) := by ring
  rw [hWe] at hW ⊢
  have htop : cy * B + n1 ≤ d0 + B * d1 := by
    have := top2_le (B ^ dlo.length) (val alo) (val dlo) (d0 + B * d1) m0 n1 cy (by positivity) (val_lt dlo hdlo)
      (by
        have e : val alo + B ^ dlo.length * (m0 + B * n1) + B ^ dlo.length * B * B * cy
            = val alo + B ^ dlo.length * (m0 + B * n1 + B * B * cy) := by ring
        rw [e]; exact hW)
    exact this
  by_cases hsp : cy ≥ d1 ∧ n1 ≥ d0
  · rw [if_pos hsp]
    have hc1 : cy = d1 := by simp only [B_eq] at *; omega
    have hn0 : n1 = d0 := by simp only [B_eq] at *; omega
    subst hc1 hn0
    rw [List.append_assoc]
    obtain ⟨w, cy', n1', e, h1, h2, h3, h4, h5, h6⟩ :=
      daSpecial_spec dlo alo n1 cy m0 hlen hdlo halo hd0 hd1 hm0 hnorm hW
    exact ⟨_, w, cy', n1', e, h1, h2, by omega, h3, h4, h5, h6⟩
  · rw [if_neg hsp]
    have hN : cy * B + n1 < d1 * B + d0 := by simp only [B_eq] at *; omega
    exact daRegFix_spec dlo alo d0 d1 m0 n1 cy dinv hlen hdlo halo hd0 hd1 hm0 hn1 hcy hnorm hdinv hN

/-- the last quotient limb (sb_divappr_q.c:194-243): whichever path is taken, the limb q satisfies the two bounds of
    the loop invariant for k = 0 -/
theorem daFinal_spec (d0 d1 dinv m0 n1 cy c : Nat) (hd0 : d0 < B) (hd1 : d1 < B) (hm0 : m0 < B) (hn1 : n1 < B)
    (hcy : cy < B) (hc : c < B) (hnorm : B / 2 ≤ d1) (hdinv : dinv = invert_pi1 d1 d0)
    (hW : m0 + B * n1 + B * B * cy < c + B * (d0 + B * d1)) :
    (daFinal d1 d0 dinv m0 n1 cy).1 < B ∧
    B * (m0 + B * n1 + B * B * cy + 1) ≤ ((daFinal d1 d0 dinv m0 n1 cy).1 + 1) * (c + B * (d0 + B * d1)) ∧
    (daFinal d1 d0 dinv m0 n1 cy).1 * (c + B * (d0 + B * d1)) ≤ B * (m0 + B * n1 + B * B * cy) + B * B := by
  have hB := B_pos
  have hreg : cy * B + n1 < d1 * B + d0 →
      (udiv_qr_3by2 cy n1 m0 d1 d0 dinv).1 < B ∧
      B * (m0 + B * n1 + B * B * cy + 1) ≤ ((udiv_qr_3by2 cy n1 m0 d1 d0 dinv).1 + 1) * (c + B * (d0 + B * d1)) ∧
      (udiv_qr_3by2 cy n1 m0 d1 d0 dinv).1 * (c + B * (d0 + B * d1)) ≤ B * (m0 + B * n1 + B * B * cy) + B * B := by
    intro hN
    rw [udiv_qr_3by2_eq cy n1 m0 d1 d0 dinv hcy hn1 hm0 hd1 hd0 hnorm hN
      (by rw [hdinv]; exact invert_pi1_eq d1 d0 hnorm hd1 hd0)]
    simp only []
    have hddpos : 0 < d1 * B + d0 := by omega
    have hdm := Nat.div_add_mod (cy * B * B + n1 * B + m0) (d1 * B + d0)
    have hrem := Nat.mod_lt (cy * B * B + n1 * B + m0) hddpos
    have hqB : (cy * B * B + n1 * B + m0) / (d1 * B + d0) < B := by
      rw [Nat.div_lt_iff_lt_mul hddpos]
      nlinarith
    generalize (cy * B * B + n1 * B + m0) / (d1 * B + d0) = q at *
    generalize (cy * B * B + n1 * B + m0) % (d1 * B + d0) = rem at *
    have hW' : m0 + B * n1 + B * B * cy = q * (d0 + B * d1) + rem := by linarith
    obtain ⟨k1, k2⟩ := trunc_base _ (d0 + B * d1) q rem c hW' (by linarith) hqB hc
    exact ⟨hqB, k1, k2⟩
  unfold daFinal
  by_cases h1 : cy ≥ d1
  · rw [if_pos h1]
    by_cases h2 : cy > d1 ∨ (cy = d1 ∧ n1 ≥ d0)
    · rw [if_pos h2]
      simp only []
      have hge : B * (d0 + B * d1) ≤ m0 + B * n1 + B * B * cy := by
        rcases h2 with h | ⟨rfl, h⟩
        · have : B * B * (d1 + 1) ≤ B * B * cy := Nat.mul_le_mul_left _ h
          have : B * (d0 + 1) ≤ B * B := Nat.mul_le_mul_left _ hd0
          nlinarith
        · have : B * d0 ≤ B * n1 := Nat.mul_le_mul_left _ h
          nlinarith
      obtain ⟨k1, k2⟩ := trunc_sat B _ (d0 + B * d1) c hB hW hge hc
      refine ⟨by omega, ?_, ?_⟩
      · rw [show B - 1 + 1 = B by omega] at k1 ⊢; exact k1
      · exact k2
    · rw [if_neg h2]
      have hlt : ¬ n1 ≥ d0 := by omega
      rw [if_neg hlt]
      exact hreg (by simp only [B_eq] at *; omega)
  · rw [if_neg h1]
    exact hreg (by
      have : (cy + 1) * B ≤ d1 * B := Nat.mul_le_mul_right _ (by omega)
      nlinarith)

theorem daLoop2_zero (d1 d0 dinv : Nat) (dp m : List Nat) (cy n1 : Nat) (qs : List Nat) :
    daLoop2 d1 d0 dinv 0 dp m cy n1 qs =
      ((daFinal d1 d0 dinv (m.getD 0 0) n1 cy).1 :: qs, (daFinal d1 d0 dinv (m.getD 0 0) n1 cy).2) := rfl

theorem daLoop2_succ (d1 d0 dinv k : Nat) (dp m : List Nat) (cy n1 : Nat) (qs : List Nat) :
    daLoop2 d1 d0 dinv (k + 1) dp m cy n1 qs =
      if cy ≥ d1 ∧ (cy > d1 ∨ (cy = d1 ∧ cmp ((m ++ [n1]).drop 1) (dp.take (k + 1 + 1)) ≥ 0)) then
        (List.replicate (k + 1 + 1) (B - 1) ++ qs, divapprHelper (m ++ [n1]) dp (k + 1 + 1))
      else
        daLoop2 d1 d0 dinv k (dp.drop 1)
          (daFix (dp.take (k + 1)) d1 d0
            (if cy ≥ d1 ∧ n1 ≥ d0 then daSpecial dp (m ++ [n1]) cy
             else daRegular (dp.take (k + 1)) d1 d0 dinv (m.take (k + 1)) (m.getD (k + 1) 0) n1 cy)).2.1
          (daFix (dp.take (k + 1)) d1 d0
            (if cy ≥ d1 ∧ n1 ≥ d0 then daSpecial dp (m ++ [n1]) cy
             else daRegular (dp.take (k + 1)) d1 d0 dinv (m.take (k + 1)) (m.getD (k + 1) 0) n1 cy)).2.2.1
          (daFix (dp.take (k + 1)) d1 d0
            (if cy ≥ d1 ∧ n1 ≥ d0 then daSpecial dp (m ++ [n1]) cy
             else daRegular (dp.take (k + 1)) d1 d0 dinv (m.take (k + 1)) (m.getD (k + 1) 0) n1 cy)).2.2.2
          ((daFix (dp.take (k + 1)) d1 d0
            (if cy ≥ d1 ∧ n1 ≥ d0 then daSpecial dp (m ++ [n1]) cy
             else daRegular (dp.take (k + 1)) d1 d0 dinv (m.take (k + 1)) (m.getD (k + 1) 0) n1 cy)).1 :: qs) := rfl

/-- loop invariant of the truncating loop and the last limb (see the header of this file) -/
theorem daLoop2_spec (d0 d1 dinv : Nat) (hd0 : d0 < B) (hd1 : d1 < B) (hnorm : B / 2 ≤ d1)
    (hdinv : dinv = invert_pi1 d1 d0) :
    ∀ (k : Nat) (dlo m : List Nat) (cy n1 c : Nat) (qs : List Nat), dlo.length = k → m.length = k + 1 →
      Limbs dlo → Limbs m → n1 < B → cy < B → c < B →
      val m + B ^ (k + 1) * (n1 + B * cy) < c + B * (val dlo + B ^ k * (d0 + B * d1)) →
      ∃ ql r3, daLoop2 d1 d0 dinv k (dlo ++ [d0, d1]) m cy n1 qs = (ql ++ qs, r3) ∧
        ql.length = k + 1 ∧ Limbs ql ∧
        B ^ (k + 1) * (val m + B ^ (k + 1) * (n1 + B * cy) + 1)
          ≤ (val ql + 1) * (c + B * (val dlo + B ^ k * (d0 + B * d1))) ∧
        val ql * (c + B * (val dlo + B ^ k * (d0 + B * d1)))
          ≤ B ^ (k + 1) * (val m + B ^ (k + 1) * (n1 + B * cy)) + (k + 1) * B ^ (k + 2)
  | 0, dlo, m, cy, n1, c, qs, hdl, hml, _, hm, hn1, hcy, hc, hW => by
    have hB := B_pos
    match dlo, hdl, m, hml, hm with
    | [], _, [m0], _, hm =>
      have hm0 : m0 < B := (Limbs_cons.mp hm).1
      simp only [val_nil, val_cons, pow_zero, Nat.zero_add, pow_one, Nat.mul_zero, Nat.add_zero,
        Nat.one_mul, List.nil_append] at hW ⊢
      obtain ⟨k0, k1, k2⟩ := daFinal_spec d0 d1 dinv m0 n1 cy c hd0 hd1 hm0 hn1 hcy hc hnorm hdinv
        (by linarith)
      rw [daLoop2_zero]
      refine ⟨[(daFinal d1 d0 dinv m0 n1 cy).1], _, rfl, rfl, ?_, ?_, ?_⟩
      · intro x hx; simp at hx; subst hx; exact k0
      · simp only [val_cons, val_nil, Nat.mul_zero, Nat.add_zero]
        have e : m0 + B * (n1 + B * cy) + 1 = m0 + B * n1 + B * B * cy + 1 := by ring
        rw [e]; exact k1
      · simp only [val_cons, val_nil, Nat.mul_zero, Nat.add_zero]
        have e : m0 + B * (n1 + B * cy) = m0 + B * n1 + B * B * cy := by ring
        rw [e, show (2 : Nat) = 1 + 1 from rfl, pow_succ, pow_one]; exact k2
  | k + 1, dlo, m, cy, n1, c, qs, hdl, hml, hdlo, hm, hn1, hcy, hc, hW => by
    have hB := B_pos
    have hPpos : 0 < B ^ (k + 1 + 1) := by positivity
    have hsat := daSat_iff dlo m d0 d1 n1 cy (by omega) hdlo hm hd0 hd1 hn1
    rw [hdl] at hsat
    rw [daLoop2_succ]
    by_cases hs : cy ≥ d1 ∧ (cy > d1 ∨ (cy = d1 ∧
        cmp ((m ++ [n1]).drop 1) ((dlo ++ [d0, d1]).take (k + 1 + 1)) ≥ 0))
    · rw [if_pos hs]
      have hge := hsat.mp hs
      obtain ⟨k1, k2⟩ := trunc_sat (B ^ (k + 1 + 1)) _ _ c hPpos hW hge hc
      have hv := val_replicate_max (k + 1 + 1)
      refine ⟨List.replicate (k + 1 + 1) (B - 1), _, rfl, by simp, Limbs_replicate_max _, ?_, ?_⟩
      · rw [hv]
        rw [show B ^ (k + 1 + 1) - 1 + 1 = B ^ (k + 1 + 1) by omega] at k1
        exact k1
      · have e : val (List.replicate (k + 1 + 1) (B - 1)) = B ^ (k + 1 + 1) - 1 := by omega
        rw [e]
        have : B ^ (k + 1 + 1) * B ≤ (k + 1 + 1) * B ^ (k + 1 + 2) := by
          rw [show k + 1 + 2 = (k + 1 + 1) + 1 from rfl, pow_succ (n := k + 1 + 1)]
          nlinarith [Nat.zero_le (k * (B ^ (k + 1 + 1) * B))]
        linarith
    · rw [if_neg hs]
      have hlt : val m + B ^ (k + 1 + 1) * (n1 + B * cy) < B * (val dlo + B ^ (k + 1) * (d0 + B * d1)) := by
        by_contra hge
        exact hs (hsat.mpr (by omega))
      have hstep := daStep2_spec dlo m d0 d1 dinv n1 cy (by omega) hdlo hm hd0 hd1 hn1 hcy hnorm hdinv
        (by rw [hdl]; exact hlt)
      rw [hdl] at hstep
      obtain ⟨q, w, cy', n1', es, e1, e2, hq, hw, hwl, hn1', hcy'⟩ := hstep
      rw [es]
      simp only []
      match dlo, hdl, hdlo with
      | c' :: dlo', hdl', hdlo' =>
        have ⟨hc', hdlo''⟩ := Limbs_cons.mp hdlo'
        have hdl'' : dlo'.length = k := by simpa using hdl'
        have edrop : ((c' :: dlo') ++ [d0, d1]).drop 1 = dlo' ++ [d0, d1] := rfl
        rw [edrop]
        have eV : val (c' :: dlo') + B ^ (k + 1) * (d0 + B * d1)
            = c' + B * (val dlo' + B ^ k * (d0 + B * d1)) := by rw [val_cons, pow_succ]; ring
        rw [eV] at e1 e2 hW hlt ⊢
        obtain ⟨ql', r3, el, hqll, hql, i1, i2⟩ :=
          daLoop2_spec d0 d1 dinv hd0 hd1 hnorm hdinv k dlo' w cy' n1' c' (q :: qs) hdl'' hwl hdlo'' hw hn1' hcy' hc' e2
        rw [el]
        have hQ' := val_lt ql' hql
        rw [hqll] at hQ'
        obtain ⟨t1, t2⟩ := trunc_step (B ^ (k + 1)) (val m + B ^ (k + 1 + 1) * (n1 + B * cy)) q
          (c' + B * (val dlo' + B ^ k * (d0 + B * d1))) (val w + B ^ (k + 1) * (n1' + B * cy')) (val ql') c
          ((k + 1) * B ^ (k + 2)) e1 i1 i2 hc hQ' hq
        refine ⟨ql' ++ [q], r3, by simp, by simp [hqll], Limbs_snoc hql hq, ?_, ?_⟩
        · generalize val m + B ^ (k + 1 + 1) * (n1 + B * cy) = Wv at t1 ⊢
          rw [val_top1, hqll, pow_succ (n := k + 1)]
          have e : B ^ (k + 1) * B = B * B ^ (k + 1) := Nat.mul_comm _ _
          rw [e]; exact t1
        · generalize val m + B ^ (k + 1 + 1) * (n1 + B * cy) = Wv at t2 ⊢
          rw [val_top1, hqll, pow_succ (n := k + 1)]
          have e : B ^ (k + 1) * B = B * B ^ (k + 1) := Nat.mul_comm _ _
          rw [e]
          have e3 : B * ((k + 1) * B ^ (k + 2)) + B * B ^ (k + 1) * B = (k + 1 + 1) * B ^ (k + 1 + 2) := by
            rw [show k + 1 + 2 = (k + 2) + 1 from rfl, pow_succ (n := k + 2), show k + 2 = (k + 1) + 1 from rfl,
              pow_succ (n := k + 1)]
            ring
          rw [← e3]; exact t2

end Mpir.SbDivQ
