/- mpz_primorial_ui (mpz/primorial_ui.c) for every argument. -/
import MpirProofs.Lemmas.SwingAsm
namespace Mpir.Numth
open Mpir Mpir.Gen.NumthTabs Mpir.Sieve
open Nat

theorem nprod_succ_right (g : ℕ → ℕ) (c lo : ℕ) :
    nprod g (c + 1) lo = nprod g c lo * (if (lo + c).Prime then g (lo + c) else 1) := by
  rw [nprod_add g c 1 lo]; simp [nprod]

/-- the recursive primorial spec extended over an interval -/
theorem primorial_nprod (m : ℕ) : ∀ c, primorial (m + c) = primorial m * nprod (fun x => x) c (m + 1) := by
  intro c
  induction c with
  | zero => simp [nprod]
  | succ c ih =>
    rw [nprod_succ_right, ← Nat.mul_assoc, ← ih, show m + (c + 1) = (m + c) + 1 by omega, show m + 1 + c = m + c + 1 by omega]
    simp only [primorial]
    by_cases hp : (m + c + 1).Prime
    · have : isPrimeTD (m + c + 1) = true := (isPrimeTD_iff _).2 hp
      simp only [this, hp, if_true]; ring
    · have : isPrimeTD (m + c + 1) = false := by
        cases e : isPrimeTD (m + c + 1)
        · rfl
        · exact absurd ((isPrimeTD_iff _).1 e) hp
      simp only [this, hp, if_false, Bool.false_eq_true, Nat.mul_one]

theorem mpz_primorial_ui_eq (n : ℕ) (hn : n < B) : mpz_primorial_ui n = primorial n := by
  have hlen : primorialTable.length = 5 := by decide
  unfold mpz_primorial_ui
  by_cases hsmall : n < primorialTable.length
  · simp only [hsmall, if_true]
    rw [hlen] at hsmall
    have : ∀ i < 5, primorialTable.getD i 0 = primorial i := by decide +kernel
    exact this n hsmall
  · simp only [hsmall, if_false]
    rw [hlen] at hsmall ⊢
    have hBv := B_eq
    have hMn : (B - 1) / n * n < B := by have := Nat.div_mul_le_self (B - 1) n; omega
    rw [n_to_bit_five, n_to_bit_eq_nb n (by omega) hn]
    obtain ⟨hw1, hw2⟩ := nb_le_succ n (by omega)
    generalize nb n = w at *
    generalize (B - 1) / n = M at *
    change flVal _ = _
    unfold loopOnSieve
    simp only [Nat.not_lt_zero, if_false, Nat.sub_zero]
    rw [sieveWalk_val _ (fun x => x) (w + 1) 0 _ (fun j st' _ h2 hp => by
      apply flStore_val'
      have hx : bit_to_n j ≤ n := Nat.le_trans (bit_to_n_le (by omega)) hw1
      exact Nat.lt_of_le_of_lt (Nat.mul_le_mul_left _ hx) hMn)]
    rw [wprod_eq_nprod, Nat.zero_add, show bit_to_n 0 = 5 by decide]
    have h6 : flVal (([] : List ℕ), primorialTable.getD (5 - 1) 0) = primorial 4 := by decide +kernel
    rw [h6]
    have hp := primorial_nprod 4 (bit_to_n (w + 1) - 5)
    rw [show 4 + 1 = 5 by rfl] at hp
    rw [← hp]
    -- no primes in (n, bit_to_n (w+1))
    have hp2 := primorial_nprod n (4 + (bit_to_n (w + 1) - 5) - n)
    rw [show n + (4 + (bit_to_n (w + 1) - 5) - n) = 4 + (bit_to_n (w + 1) - 5) by omega] at hp2
    rw [hp2, nprod_one_of_noprime, Nat.mul_one]
    intro x hx1 hx2 hpx
    rcases prime_lt_next hpx (by omega) (show x < bit_to_n (w + 1) by omega) with h | h <;> omega

end Mpir.Numth
