/- Helper lemmas for C19: `__gmp_randget_mt` delivers the concatenation of consecutive tempered 32-bit
   words of the Mersenne Twister, truncated to the requested number of bits. -/
import Mpir.Model.Rand
import MpirProofs.Lemmas.Base
set_option linter.unusedSimpArgs false
namespace Mpir.Rand
open Mpir

theorem temper_lt {y : Nat} (h : y < 2 ^ 32) : temper y < 2 ^ 32 := by
  unfold temper
  have m1 : Tabs.mask1 < 2 ^ 32 := by decide
  have m2 : Tabs.mask2 < 2 ^ 32 := by decide
  have sr : ∀ {x k : Nat}, x < 2 ^ 32 → x >>> k < 2 ^ 32 := fun {x k} hx =>
    Nat.lt_of_le_of_lt (Nat.shiftRight_le x k) hx
  have h1 := Nat.xor_lt_two_pow h (sr (k := 11) h)
  have h2 := Nat.xor_lt_two_pow h1 (Nat.and_lt_two_pow ((y ^^^ y >>> 11) <<< 7) m1)
  have h3 := Nat.xor_lt_two_pow h2 (Nat.and_lt_two_pow (((y ^^^ y >>> 11) ^^^ (y ^^^ y >>> 11) <<< 7 &&& Tabs.mask1) <<< 15) m2)
  exact Nat.xor_lt_two_pow h3 (sr (k := 18) h3)

theorem nextWord_lt (s : MtState) : (nextWord s).1 < 2 ^ 32 := by
  unfold nextWord
  exact temper_lt (Nat.mod_lt _ (by decide))

/-- the next `k` tempered words and the state after them. -/
def mtWords : Nat → MtState → List Nat × MtState
  | 0, s => ([], s)
  | k + 1, s => ((nextWord s).1 :: (mtWords k (nextWord s).2).1, (mtWords k (nextWord s).2).2)

/-- little-endian concatenation of 32-bit words. -/
def catWords : List Nat → Nat
  | [] => 0
  | w :: ws => w + 2 ^ 32 * catWords ws

theorem mtWords_length (k : Nat) (s : MtState) : (mtWords k s).1.length = k := by
  induction k generalizing s with
  | zero => rfl
  | succ k ih => simp [mtWords, ih]

theorem mtWords_lt (k : Nat) (s : MtState) : ∀ w ∈ (mtWords k s).1, w < 2 ^ 32 := by
  induction k generalizing s with
  | zero => intro w hw; simp [mtWords] at hw
  | succ k ih =>
    intro w hw
    simp only [mtWords, List.mem_cons] at hw
    rcases hw with rfl | hw
    · exact nextWord_lt s
    · exact ih _ w hw

theorem mtWords_add (a b : Nat) (s : MtState) :
    mtWords (a + b) s = ((mtWords a s).1 ++ (mtWords b (mtWords a s).2).1, (mtWords b (mtWords a s).2).2) := by
  induction a generalizing s with
  | zero => simp [mtWords]
  | succ a ih =>
    rw [show a + 1 + b = (a + b) + 1 by omega]
    simp only [mtWords, ih, List.cons_append]

theorem catWords_append (a b : List Nat) : catWords (a ++ b) = catWords a + 2 ^ (32 * a.length) * catWords b := by
  induction a with
  | nil => simp [catWords]
  | cons x xs ih =>
    simp only [List.cons_append, catWords, ih, List.length_cons]
    rw [show 32 * (xs.length + 1) = 32 + 32 * xs.length by ring, pow_add]; ring

theorem catWords_lt (ws : List Nat) (h : ∀ w ∈ ws, w < 2 ^ 32) : catWords ws < 2 ^ (32 * ws.length) := by
  induction ws with
  | nil => simp [catWords]
  | cons x xs ih =>
    have hx := h x (by simp)
    have := ih (fun w hw => h w (by simp [hw]))
    simp only [catWords, List.length_cons]
    rw [show 32 * (xs.length + 1) = 32 + 32 * xs.length by ring, pow_add]
    nlinarith

theorem or_shift32 {a : Nat} (b : Nat) (ha : a < 2 ^ 32) : a ||| (b <<< 32) = a + 2 ^ 32 * b := by
  rw [Nat.or_comm, ← Nat.shiftLeft_add_eq_or_of_lt ha, Nat.shiftLeft_eq]; ring

theorem mtLimb_eq (s : MtState) : mtLimb s = (catWords (mtWords 2 s).1, (mtWords 2 s).2) := by
  simp only [mtLimb, mtWords, catWords]
  rw [or_shift32 _ (nextWord_lt s)]; simp

theorem mtLimbs_eq (n : Nat) (s : MtState) :
    val (mtLimbs n s).1 = catWords (mtWords (2 * n) s).1 ∧ (mtLimbs n s).2 = (mtWords (2 * n) s).2 ∧
    (mtLimbs n s).1.length = n := by
  induction n generalizing s with
  | zero => simp [mtLimbs, mtWords, catWords]
  | succ n ih =>
    rw [show 2 * (n + 1) = 2 + 2 * n by ring, mtWords_add]
    simp only [mtLimbs, mtLimb_eq, val_cons, catWords_append, mtWords_length, List.length_cons]
    obtain ⟨h1, h2, h3⟩ := ih (mtWords 2 s).2
    refine ⟨?_, h2, by rw [h3]⟩
    rw [h1]; unfold B; norm_num

theorem mod_split {C P w Q : Nat} (hC : C < P) (hQ : 0 < Q) : (C + P * w) % (P * Q) = C + P * (w % Q) := by
  have hw := Nat.div_add_mod w Q
  have hr := Nat.mod_lt w hQ
  have e : C + P * w = (C + P * (w % Q)) + P * Q * (w / Q) := by
    conv_lhs => rw [← hw]
    ring
  rw [e, Nat.add_mul_mod_self_left]
  apply Nat.mod_eq_of_lt
  have : P * (w % Q) + P ≤ P * Q := by nlinarith
  omega

/-- `__gmp_randget_mt` returns the first `nbits` bits of the next `⌈nbits/32⌉` words. -/
theorem randgetMt_spec (s : MtState) (n : Nat) :
    randgetMt s n = (catWords (mtWords ((n + 31) / 32) s).1 % 2 ^ n, (mtWords ((n + 31) / 32) s).2) := by
  unfold randgetMt
  obtain ⟨h1, h2, h3⟩ := mtLimbs_eq (n / 64) s
  have hC : catWords (mtWords (2 * (n / 64)) s).1 < 2 ^ (64 * (n / 64)) := by
    have := catWords_lt _ (mtWords_lt (2 * (n / 64)) s)
    rw [mtWords_length] at this
    rw [show 64 * (n / 64) = 32 * (2 * (n / 64)) by ring]; exact this
  have hn := Nat.div_add_mod n 64
  by_cases h0 : n % 64 = 0
  · simp only [h0, if_true]
    have e : (n + 31) / 32 = 2 * (n / 64) := by omega
    rw [e, h1, h2]
    have e2 : 64 * (n / 64) = n := by omega
    rw [e2] at hC
    rw [Nat.mod_eq_of_lt hC]
  · simp only [h0, if_false]
    have hB : B ^ (n / 64) = 2 ^ (64 * (n / 64)) := by unfold B; rw [← pow_mul]
    have hpow : (2:Nat) ^ n = 2 ^ (64 * (n / 64)) * 2 ^ (n % 64) := by rw [← pow_add, hn]
    rw [val_append, h3, h1, h2, hB]
    simp only [val_cons, val_nil, Nat.mul_zero, Nat.add_zero]
    unfold mtTail
    by_cases hlt : n % 64 < 32
    · simp only [hlt, if_true]
      have e : (n + 31) / 32 = 2 * (n / 64) + 1 := by omega
      rw [e, mtWords_add]
      simp only [mtWords, catWords_append, mtWords_length, catWords, Nat.mul_zero, Nat.add_zero]
      rw [show 32 * (2 * (n / 64)) = 64 * (n / 64) by ring, hpow, mod_split hC (by positivity)]
    · simp only [hlt, if_false]
      by_cases hgt : n % 64 > 32
      · simp only [hgt, if_true]
        have e : (n + 31) / 32 = 2 * (n / 64) + 2 := by omega
        rw [e, mtWords_add]
        simp only [mtWords, catWords_append, mtWords_length, catWords, Nat.mul_zero, Nat.add_zero]
        rw [show 32 * (2 * (n / 64)) = 64 * (n / 64) by ring, hpow, mod_split hC (by positivity)]
        rw [or_shift32 _ (nextWord_lt _)]
        have h32 : (2:Nat) ^ (n % 64) = 2 ^ 32 * 2 ^ (n % 64 - 32) := by rw [← pow_add]; congr 1; omega
        rw [h32, mod_split (nextWord_lt _) (by positivity)]
      · simp only [hgt, if_false]
        have e : (n + 31) / 32 = 2 * (n / 64) + 1 := by omega
        have h32 : n % 64 = 32 := by omega
        rw [e, mtWords_add]
        simp only [mtWords, catWords_append, mtWords_length, catWords, Nat.mul_zero, Nat.add_zero]
        rw [show 32 * (2 * (n / 64)) = 64 * (n / 64) by ring, hpow, mod_split hC (by positivity), h32,
          Nat.mod_eq_of_lt (nextWord_lt _)]

theorem randgetMt_lt (s : MtState) (n : Nat) : (randgetMt s n).1 < 2 ^ n := by
  rw [randgetMt_spec]; exact Nat.mod_lt _ (by positivity)

end Mpir.Rand
