/- Helper lemmas for the C11 models (Mpir/Model/Conv.lean). -/
import MpirProofs.Lemmas.Base
import Mpir.Model.Conv
import Mathlib.Tactic.Ring
import Mathlib.Tactic.Linarith
import Mathlib.Tactic.NormNum
import Mathlib.Tactic.Positivity
namespace Mpir.Conv
open Mpir

/-! ### sign -/

theorem sgn_pos {x : Int} (h : 0 < x) : sgn x = 1 := by unfold sgn; rw [if_neg (by omega), if_pos h]
theorem sgn_neg {x : Int} (h : x < 0) : sgn x = -1 := by unfold sgn; rw [if_pos h]
theorem Bpow_pos (k : Nat) : 0 < B ^ k := Nat.pow_pos B_pos
theorem sgn_zero : sgn 0 = 0 := by decide
theorem sgn_eq_pos {c x : Int} (hc : 0 < c) (hx : 0 < x) : sgn c = sgn x := by rw [sgn_pos hc, sgn_pos hx]
theorem sgn_eq_neg {c x : Int} (hc : c < 0) (hx : x < 0) : sgn c = sgn x := by rw [sgn_neg hc, sgn_neg hx]
theorem sgn_eq_zero {c x : Int} (hc : c = 0) (hx : x = 0) : sgn c = sgn x := by rw [hc, hx]
theorem sgn_neg_eq (x : Int) : sgn (-x) = -sgn x := by
  rcases lt_trichotomy x 0 with h | h | h
  · rw [sgn_neg h, sgn_pos (by omega)]; rfl
  · subst h; decide
  · rw [sgn_pos h, sgn_neg (by omega)]
theorem sgn_eq_iff (x : Int) : (sgn x = 1 ↔ 0 < x) ∧ (sgn x = 0 ↔ x = 0) ∧ (sgn x = -1 ↔ x < 0) := by
  rcases lt_trichotomy x 0 with h | h | h
  · rw [sgn_neg h]; omega
  · subst h; simp [sgn_zero]
  · rw [sgn_pos h]; omega
theorem sgn_sgn (x : Int) : sgn (sgn x) = sgn x := by
  rcases lt_trichotomy x 0 with h | h | h
  · rw [sgn_neg h]; decide
  · subst h; decide
  · rw [sgn_pos h]; decide

/-! ### big-endian value and mpn_cmp -/

/-- value of a limb list written most significant first -/
def valR : List Nat → Nat
  | [] => 0
  | x :: xs => x * B ^ xs.length + valR xs

theorem valR_lt : ∀ (l : List Nat), Limbs l → valR l < B ^ l.length
  | [], _ => by simp [valR]
  | x :: xs, h => by
    have ⟨hx, hxs⟩ := Limbs_cons.mp h
    have ih := valR_lt xs hxs
    simp only [valR, List.length_cons, pow_succ]
    nlinarith [B_pos]

theorem valR_append_single (a : List Nat) (x : Nat) : valR (a ++ [x]) = valR a * B + x := by
  induction a with
  | nil => simp [valR]
  | cons y ys ih => simp only [List.cons_append, valR, ih, List.length_append, List.length_cons, List.length_nil, pow_succ]; ring

theorem valR_reverse (l : List Nat) : valR l.reverse = val l := by
  induction l with
  | nil => rfl
  | cons x xs ih => rw [List.reverse_cons, valR_append_single, ih, val_cons]; ring

theorem Limbs_reverse {l : List Nat} (h : Limbs l) : Limbs l.reverse := fun x hx => h x (List.mem_reverse.mp hx)

theorem cmpRev_spec : ∀ (a b : List Nat), Limbs a → Limbs b → a.length = b.length →
    cmpRev a b = sgn ((valR a : Int) - valR b)
  | [], [], _, _, _ => by simp [cmpRev, valR, sgn_zero]
  | [], _ :: _, _, _, h => by simp at h
  | _ :: _, [], _, _, h => by simp at h
  | x :: xs, y :: ys, ha, hb, hl => by
    have ⟨_, hxs⟩ := Limbs_cons.mp ha
    have ⟨_, hys⟩ := Limbs_cons.mp hb
    have hl' : xs.length = ys.length := by simpa using hl
    have l1 := valR_lt xs hxs
    have l2 := valR_lt ys hys
    rw [hl'] at l1
    simp only [cmpRev, valR, hl']
    generalize B ^ ys.length = P at *
    by_cases hxy : x = y
    · subst hxy
      simp only [ne_eq, not_true_eq_false, if_false]
      rw [cmpRev_spec xs ys hxs hys hl']
      congr 1; push_cast; ring
    · simp only [ne_eq, hxy, not_false_eq_true, if_true]
      by_cases hgt : x > y
      · simp only [hgt, if_true]
        rw [sgn_pos]; push_cast
        have : (y + 1) * P ≤ x * P := Nat.mul_le_mul_right _ hgt
        zify at this l1 l2; nlinarith
      · simp only [hgt, if_false]
        have hlt : x < y := by omega
        rw [sgn_neg]; push_cast
        have : (x + 1) * P ≤ y * P := Nat.mul_le_mul_right _ hlt
        zify at this l1 l2; nlinarith

/-- mpn_cmp / MPN_CMP on equally long operands is the sign of the difference of the values. -/
theorem cmp_spec (u v : List Nat) (hu : Limbs u) (hv : Limbs v) (hl : u.length = v.length) :
    Mpir.cmp u v = sgn ((val u : Int) - val v) := by
  unfold Mpir.cmp
  rw [cmpRev_spec _ _ (Limbs_reverse hu) (Limbs_reverse hv) (by simpa using hl), valR_reverse, valR_reverse]

/-! ### normalised limb vectors -/

/-- high limb non-zero -/
def TopNZ (l : List Nat) : Prop := l ≠ [] → l.getLast? ≠ some 0

theorem val_ge_of_top : ∀ (l : List Nat), l ≠ [] → TopNZ l → B ^ (l.length - 1) ≤ val l
  | [], h, _ => absurd rfl h
  | [x], _, ht => by
    have : x ≠ 0 := by intro h; subst h; exact ht (by simp) (by simp)
    simp only [List.length_singleton, Nat.sub_self, pow_zero, val_cons, val_nil]; omega
  | x :: y :: ys, _, ht => by
    have ih := val_ge_of_top (y :: ys) (by simp) (by
      intro _; have := ht (by simp); simpa [List.getLast?_cons_cons] using this)
    simp only [List.length_cons, val_cons] at ih ⊢
    have : B ^ (ys.length + 1 + 1 - 1) = B * B ^ (ys.length + 1 - 1) := by
      simp only [Nat.add_sub_cancel]; rw [pow_succ]; ring
    rw [this]; nlinarith [B_pos]

theorem val_eq_zero_of_nil {l : List Nat} (h : l.length = 0) : val l = 0 := by
  cases l with | nil => rfl | cons _ _ => simp at h

/-- facts about a well-formed mpz used everywhere -/
theorem Z.wf_bounds {z : Z} (h : z.wf) :
    (z.size = 0 → val z.d = 0) ∧ (z.size ≠ 0 → B ^ (z.size.natAbs - 1) ≤ val z.d) ∧ val z.d < B ^ z.size.natAbs := by
  obtain ⟨hl, hL, ht⟩ := h
  refine ⟨fun h0 => val_eq_zero_of_nil (by rw [hl, h0]; rfl), fun hn => ?_, by rw [← hl]; exact val_lt _ hL⟩
  have hne : z.d ≠ [] := by intro e; rw [e] at hl; simp at hl; omega
  rw [← hl]; exact val_ge_of_top _ hne ht

theorem pow_le_pow_B {a b : Nat} (h : a ≤ b) : B ^ a ≤ B ^ b := Nat.pow_le_pow_right B_pos h

theorem Z.toInt_lt_of_size_lt {a b : Z} (ha : a.wf) (hb : b.wf) (h : a.size < b.size) : a.toInt < b.toInt := by
  obtain ⟨a0, a1, a2⟩ := Z.wf_bounds ha
  obtain ⟨b0, b1, b2⟩ := Z.wf_bounds hb
  unfold Z.toInt
  by_cases han : a.size < 0
  · have a1' := a1 (by omega)
    have : 0 < val a.d := lt_of_lt_of_le (Bpow_pos _) a1'
    by_cases hbn : b.size < 0
    · -- both negative: |a| ≥ B^(na-1) ≥ B^nb > |b|
      simp only [han, hbn, if_true]
      have : B ^ b.size.natAbs ≤ B ^ (a.size.natAbs - 1) := pow_le_pow_B (by omega)
      have : val b.d < val a.d := by omega
      omega
    · simp only [han, hbn, if_true, if_false]; omega
  · have hbn : ¬ b.size < 0 := by omega
    simp only [han, hbn, if_false]
    have b1' := b1 (by omega)
    have : B ^ a.size.natAbs ≤ B ^ (b.size.natAbs - 1) := pow_le_pow_B (by omega)
    have : val a.d < val b.d := by omega
    omega

theorem Z.toInt_sign {z : Z} (h : z.wf) :
    (z.size < 0 → z.toInt < 0) ∧ (z.size = 0 → z.toInt = 0) ∧ (z.size > 0 → z.toInt > 0) := by
  obtain ⟨a0, a1, _⟩ := Z.wf_bounds h
  unfold Z.toInt
  refine ⟨fun hn => ?_, fun hz => ?_, fun hp => ?_⟩
  · have := a1 (by omega); have : 0 < val z.d := lt_of_lt_of_le (Bpow_pos _) this
    simp only [hn, if_true]; omega
  · have := a0 hz; simp only [hz]; simp [this]
  · have := a1 (by omega); have : 0 < val z.d := lt_of_lt_of_le (Bpow_pos _) this
    have : ¬ z.size < 0 := by omega
    simp only [this, if_false]; omega

theorem Z.natAbs_toInt (z : Z) : z.toInt.natAbs = val z.d := by
  unfold Z.toInt; split <;> simp

/-- a one-limb operand -/
theorem Z.one_limb {z : Z} (h : z.wf) (h1 : z.size.natAbs = 1) :
    ∃ x, z.d = [x] ∧ x < B ∧ x ≠ 0 ∧ val z.d = x := by
  obtain ⟨hl, hL, ht⟩ := h
  rw [h1] at hl
  match hd : z.d, hl with
  | [x], _ =>
    refine ⟨x, rfl, ?_, ?_, by simp⟩
    · exact hL x (by rw [hd]; simp)
    · intro e; subst e; rw [hd] at ht; exact ht (by simp) (by simp)

theorem Z.big_of_two_limbs {z : Z} (h : z.wf) (h2 : 2 ≤ z.size.natAbs) : B ≤ val z.d := by
  obtain ⟨_, a1, _⟩ := Z.wf_bounds h
  have := a1 (by omega)
  have : B ^ 1 ≤ B ^ (z.size.natAbs - 1) := pow_le_pow_B (by omega)
  simp only [pow_one] at this; omega

/-- low limb / rest decomposition -/
theorem val_split : ∀ (l : List Nat), Limbs l → ∃ r, val l = l.getD 0 0 + B * r ∧ l.getD 0 0 < B
  | [], _ => ⟨0, by simp, by simp [B_pos]⟩
  | x :: xs, h => ⟨val xs, by simp, by simpa using (Limbs_cons.mp h).1⟩

end Mpir.Conv
