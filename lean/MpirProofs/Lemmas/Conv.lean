/- Helper lemmas for the C11 models (Mpir/Model/Conv.lean). -/
import MpirProofs.Lemmas.Base
import Mpir.Model.Conv
import Mathlib.Tactic.Ring
import Mathlib.Tactic.Linarith
namespace Mpir.Conv
open Mpir

end Mpir.Conv
