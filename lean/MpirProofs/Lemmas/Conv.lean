/- Helper lemmas for the C11 models (Mpir/Model/Conv.lean). -/
import MpirProofs.Lemmas.Base
import Mpir.Model.Conv
import Mathlib.Tactic.Ring
import Mathlib.Tactic.Linarith
import Mathlib.Tactic.NormNum
import Mathlib.Tactic.Positivity
import Mathlib.Data.Nat.Bitwise
namespace Mpir.Conv
open Mpir

/-! ### sign -/

theorem sgn_pos {x : Int} (h : 0 < x) : sgn x = 1 := by unfold sgn; rw [if_neg (by omega), if_pos h]
theorem sgn_neg {x : Int} (h : x < 0) : sgn x = -1 := by unfold sgn; rw [if_pos h]
theorem Bpow_pos (k : Nat) : 0 < B ^ k := Nat.pow_pos B_pos
theorem sgn_zero : sgn 0 = 0 := by decide
theorem sgn_eq_pos {c x : Int} (hc : 0 < c) (hx : 0 < x) : sgn c = sgn x := by rw [sgn_pos hc, sgn_pos hx]
theorem sgn_eq_neg {c x : Int} (hc : c < 0) (hx : x < 0) : sgn c = sgn x := by rw [sgn_neg hc, sgn_neg hx]
theorem sgn_eq_zero {c x : Int} (hc : c = 0) (hx : x = 0) : sgn c = sgn x := by rw [hc, hx]
theorem sgn_neg_eq (x : Int) : sgn (-x) = -sgn x := by
  rcases lt_trichotomy x 0 with h | h | h
  · rw [sgn_neg h, sgn_pos (by omega)]; rfl
  · subst h; decide
  · rw [sgn_pos h, sgn_neg (by omega)]
theorem sgn_eq_iff (x : Int) : (sgn x = 1 ↔ 0 < x) ∧ (sgn x = 0 ↔ x = 0) ∧ (sgn x = -1 ↔ x < 0) := by
  rcases lt_trichotomy x 0 with h | h | h
  · rw [sgn_neg h]; omega
  · subst h; simp [sgn_zero]
  · rw [sgn_pos h]; omega
theorem sgn_sgn (x : Int) : sgn (sgn x) = sgn x := by
  rcases lt_trichotomy x 0 with h | h | h
  · rw [sgn_neg h]; decide
  · subst h; decide
  · rw [sgn_pos h]; decide

/-! ### big-endian value and mpn_cmp -/

/-- value of a limb list written most significant first -/
def valR : List Nat → Nat
  | [] => 0
  | x :: xs => x * B ^ xs.length + valR xs

theorem valR_lt : ∀ (l : List Nat), Limbs l → valR l < B ^ l.length
  | [], _ => by simp [valR]
  | x :: xs, h => by
    have ⟨hx, hxs⟩ := Limbs_cons.mp h
    have ih := valR_lt xs hxs
    simp only [valR, List.length_cons, pow_succ]
    nlinarith [B_pos]

theorem valR_append_single (a : List Nat) (x : Nat) : valR (a ++ [x]) = valR a * B + x := by
  induction a with
  | nil => simp [valR]
  | cons y ys ih => simp only [List.cons_append, valR, ih, List.length_append, List.length_cons, List.length_nil, pow_succ]; ring

theorem valR_reverse (l : List Nat) : valR l.reverse = val l := by
  induction l with
  | nil => rfl
  | cons x xs ih => rw [List.reverse_cons, valR_append_single, ih, val_cons]; ring

theorem Limbs_reverse {l : List Nat} (h : Limbs l) : Limbs l.reverse := fun x hx => h x (List.mem_reverse.mp hx)

theorem cmpRev_spec : ∀ (a b : List Nat), Limbs a → Limbs b → a.length = b.length →
    cmpRev a b = sgn ((valR a : Int) - valR b)
  | [], [], _, _, _ => by simp [cmpRev, valR, sgn_zero]
  | [], _ :: _, _, _, h => by simp at h
  | _ :: _, [], _, _, h => by simp at h
  | x :: xs, y :: ys, ha, hb, hl => by
    have ⟨_, hxs⟩ := Limbs_cons.mp ha
    have ⟨_, hys⟩ := Limbs_cons.mp hb
    have hl' : xs.length = ys.length := by simpa using hl
    have l1 := valR_lt xs hxs
    have l2 := valR_lt ys hys
    rw [hl'] at l1
    simp only [cmpRev, valR, hl']
    generalize B ^ ys.length = P at *
    by_cases hxy : x = y
    · subst hxy
      simp only [ne_eq, not_true_eq_false, if_false]
      rw [cmpRev_spec xs ys hxs hys hl']
      congr 1; push_cast; ring
    · simp only [ne_eq, hxy, not_false_eq_true, if_true]
      by_cases hgt : x > y
      · simp only [hgt, if_true]
        rw [sgn_pos]; push_cast
        have : (y + 1) * P ≤ x * P := Nat.mul_le_mul_right _ hgt
        zify at this l1 l2; nlinarith
      · simp only [hgt, if_false]
        have hlt : x < y := by omega
        rw [sgn_neg]; push_cast
        have : (x + 1) * P ≤ y * P := Nat.mul_le_mul_right _ hlt
        zify at this l1 l2; nlinarith

/-- mpn_cmp / MPN_CMP on equally long operands is the sign of the difference of the values. -/
theorem cmp_spec (u v : List Nat) (hu : Limbs u) (hv : Limbs v) (hl : u.length = v.length) :
    Mpir.cmp u v = sgn ((val u : Int) - val v) := by
  unfold Mpir.cmp
  rw [cmpRev_spec _ _ (Limbs_reverse hu) (Limbs_reverse hv) (by simpa using hl), valR_reverse, valR_reverse]

/-! ### normalised limb vectors -/

/-- high limb non-zero -/
def TopNZ (l : List Nat) : Prop := l ≠ [] → l.getLast? ≠ some 0

theorem val_ge_of_top : ∀ (l : List Nat), l ≠ [] → TopNZ l → B ^ (l.length - 1) ≤ val l
  | [], h, _ => absurd rfl h
  | [x], _, ht => by
    have : x ≠ 0 := by intro h; subst h; exact ht (by simp) (by simp)
    simp only [List.length_singleton, Nat.sub_self, pow_zero, val_cons, val_nil]; omega
  | x :: y :: ys, _, ht => by
    have ih := val_ge_of_top (y :: ys) (by simp) (by
      intro _; have := ht (by simp); simpa [List.getLast?_cons_cons] using this)
    simp only [List.length_cons, val_cons] at ih ⊢
    have : B ^ (ys.length + 1 + 1 - 1) = B * B ^ (ys.length + 1 - 1) := by
      simp only [Nat.add_sub_cancel]; rw [pow_succ]; ring
    rw [this]; nlinarith [B_pos]

theorem val_eq_zero_of_nil {l : List Nat} (h : l.length = 0) : val l = 0 := by
  cases l with | nil => rfl | cons _ _ => simp at h

/-- facts about a well-formed mpz used everywhere -/
theorem Z.wf_bounds {z : Z} (h : z.wf) :
    (z.size = 0 → val z.d = 0) ∧ (z.size ≠ 0 → B ^ (z.size.natAbs - 1) ≤ val z.d) ∧ val z.d < B ^ z.size.natAbs := by
  obtain ⟨hl, hL, ht⟩ := h
  refine ⟨fun h0 => val_eq_zero_of_nil (by rw [hl, h0]; rfl), fun hn => ?_, by rw [← hl]; exact val_lt _ hL⟩
  have hne : z.d ≠ [] := by intro e; rw [e] at hl; simp at hl; omega
  rw [← hl]; exact val_ge_of_top _ hne ht

theorem pow_le_pow_B {a b : Nat} (h : a ≤ b) : B ^ a ≤ B ^ b := Nat.pow_le_pow_right B_pos h

theorem Z.toInt_lt_of_size_lt {a b : Z} (ha : a.wf) (hb : b.wf) (h : a.size < b.size) : a.toInt < b.toInt := by
  obtain ⟨a0, a1, a2⟩ := Z.wf_bounds ha
  obtain ⟨b0, b1, b2⟩ := Z.wf_bounds hb
  unfold Z.toInt
  by_cases han : a.size < 0
  · have a1' := a1 (by omega)
    have : 0 < val a.d := lt_of_lt_of_le (Bpow_pos _) a1'
    by_cases hbn : b.size < 0
    · -- both negative: |a| ≥ B^(na-1) ≥ B^nb > |b|
      simp only [han, hbn, if_true]
      have : B ^ b.size.natAbs ≤ B ^ (a.size.natAbs - 1) := pow_le_pow_B (by omega)
      have : val b.d < val a.d := by omega
      omega
    · simp only [han, hbn, if_true, if_false]; omega
  · have hbn : ¬ b.size < 0 := by omega
    simp only [han, hbn, if_false]
    have b1' := b1 (by omega)
    have : B ^ a.size.natAbs ≤ B ^ (b.size.natAbs - 1) := pow_le_pow_B (by omega)
    have : val a.d < val b.d := by omega
    omega

theorem Z.toInt_sign {z : Z} (h : z.wf) :
    (z.size < 0 → z.toInt < 0) ∧ (z.size = 0 → z.toInt = 0) ∧ (z.size > 0 → z.toInt > 0) := by
  obtain ⟨a0, a1, _⟩ := Z.wf_bounds h
  unfold Z.toInt
  refine ⟨fun hn => ?_, fun hz => ?_, fun hp => ?_⟩
  · have := a1 (by omega); have : 0 < val z.d := lt_of_lt_of_le (Bpow_pos _) this
    simp only [hn, if_true]; omega
  · have := a0 hz; simp only [hz]; simp [this]
  · have := a1 (by omega); have : 0 < val z.d := lt_of_lt_of_le (Bpow_pos _) this
    have : ¬ z.size < 0 := by omega
    simp only [this, if_false]; omega

theorem Z.natAbs_toInt (z : Z) : z.toInt.natAbs = val z.d := by
  unfold Z.toInt; split <;> simp

/-- a one-limb operand -/
theorem Z.one_limb {z : Z} (h : z.wf) (h1 : z.size.natAbs = 1) :
    ∃ x, z.d = [x] ∧ x < B ∧ x ≠ 0 ∧ val z.d = x := by
  obtain ⟨hl, hL, ht⟩ := h
  rw [h1] at hl
  match hd : z.d, hl with
  | [x], _ =>
    refine ⟨x, rfl, ?_, ?_, by simp⟩
    · exact hL x (by rw [hd]; simp)
    · intro e; subst e; rw [hd] at ht; exact ht (by simp) (by simp)

theorem Z.big_of_two_limbs {z : Z} (h : z.wf) (h2 : 2 ≤ z.size.natAbs) : B ≤ val z.d := by
  obtain ⟨_, a1, _⟩ := Z.wf_bounds h
  have := a1 (by omega)
  have : B ^ 1 ≤ B ^ (z.size.natAbs - 1) := pow_le_pow_B (by omega)
  simp only [pow_one] at this; omega

/-- low limb / rest decomposition -/
theorem val_split : ∀ (l : List Nat), Limbs l → ∃ r, val l = l.getD 0 0 + B * r ∧ l.getD 0 0 < B
  | [], _ => ⟨0, by simp, by simp [B_pos]⟩
  | x :: xs, h => ⟨val xs, by simp, by simpa using (Limbs_cons.mp h).1⟩

/-! ### shifts and bit lengths -/

theorem two_pow_pos (k : Nat) : 0 < 2 ^ k := Nat.pow_pos (by decide)

theorem shiftZ_nonneg (v : Nat) {k : Int} (h : 0 ≤ k) : shiftZ v k = v * 2 ^ k.toNat := by
  unfold shiftZ; rw [if_pos h, Nat.shiftLeft_eq]
theorem shiftZ_neg (v : Nat) {k : Int} (h : k < 0) : shiftZ v k = v / 2 ^ (-k).toNat := by
  unfold shiftZ; rw [if_neg (by omega), Nat.shiftRight_eq_div_pow]

/-- floor (floor (v·2^a) / 2^b) = floor (v·2^(a-b)) -/
theorem shiftZ_shiftRight (v : Nat) (a : Int) (b : Nat) : (shiftZ v a) >>> b = shiftZ v (a - b) := by
  rw [Nat.shiftRight_eq_div_pow]
  by_cases ha : 0 ≤ a
  · rw [shiftZ_nonneg v ha]
    by_cases hb : (b : Int) ≤ a
    · rw [shiftZ_nonneg v (by omega)]
      have : a.toNat = (a - b).toNat + b := by omega
      rw [this, pow_add, ← Nat.mul_assoc, Nat.mul_div_cancel _ (two_pow_pos b)]
    · rw [shiftZ_neg v (by omega)]
      have : b = a.toNat + (-(a - b)).toNat := by omega
      rw [this, pow_add, Nat.mul_comm v, Nat.mul_div_mul_left _ _ (two_pow_pos _)]
      congr 2; omega
  · rw [shiftZ_neg v (by omega), shiftZ_neg v (by omega), Nat.div_div_eq_div_mul, ← pow_add]
    congr 2; omega

theorem bitlen_pos {v : Nat} (h : v ≠ 0) : bitlen v = Nat.log2 v + 1 := by unfold bitlen; rw [if_neg h]

theorem bitlen_bounds {v : Nat} (h : v ≠ 0) : 2 ^ (bitlen v - 1) ≤ v ∧ v < 2 ^ bitlen v := by
  rw [bitlen_pos h]; exact ⟨Nat.log2_self_le h, Nat.lt_log2_self⟩

theorem bitlen_eq {v k : Nat} (h1 : 2 ^ k ≤ v) (h2 : v < 2 ^ (k + 1)) : bitlen v = k + 1 := by
  have hv : v ≠ 0 := by have := two_pow_pos k; omega
  rw [bitlen_pos hv, (Nat.log2_eq_iff hv).mpr ⟨h1, h2⟩]

/-- the 53 leading bits of v (exact scaling up when v is shorter): in [2^52, 2^53) -/
theorem top53_bounds {v : Nat} (h : v ≠ 0) :
    2 ^ 52 ≤ shiftZ v (53 - (bitlen v : Int)) ∧ shiftZ v (53 - (bitlen v : Int)) < 2 ^ 53 := by
  obtain ⟨l, u⟩ := bitlen_bounds h
  have hL : 1 ≤ bitlen v := by rw [bitlen_pos h]; omega
  generalize bitlen v = L at *
  by_cases c : (L : Int) ≤ 53
  · rw [shiftZ_nonneg v (by omega)]
    have e : (53 - (L : Int)).toNat = 53 - L := by omega
    rw [e]
    have p1 : 2 ^ (L - 1) * 2 ^ (53 - L) = 2 ^ 52 := by rw [← pow_add]; congr 1; omega
    have p2 : 2 ^ L * 2 ^ (53 - L) = 2 ^ 53 := by rw [← pow_add]; congr 1; omega
    have := two_pow_pos (53 - L)
    constructor
    · rw [← p1]; exact Nat.mul_le_mul_right _ l
    · rw [← p2]; exact Nat.mul_lt_mul_of_pos_right u this
  · rw [shiftZ_neg v (by omega)]
    have e : (-(53 - (L : Int))).toNat = L - 53 := by omega
    rw [e]
    have p1 : 2 ^ 52 * 2 ^ (L - 53) = 2 ^ (L - 1) := by rw [← pow_add]; congr 1; omega
    have p2 : 2 ^ 53 * 2 ^ (L - 53) = 2 ^ L := by rw [← pow_add]; congr 1; omega
    constructor
    · rw [Nat.le_div_iff_mul_le (two_pow_pos _), p1]; exact l
    · rw [Nat.div_lt_iff_lt_mul (two_pow_pos _), p2]; exact u

/-! ### the two high limbs of a limb vector -/

theorem val_top_split : ∀ (l : List Nat), Limbs l → l ≠ [] →
    ∃ lo, val l = lo + B ^ (l.length - 1) * l.getD (l.length - 1) 0 ∧ lo < B ^ (l.length - 1)
  | [], _, h => absurd rfl h
  | [x], _, _ => ⟨0, by simp, by simp⟩
  | x :: y :: ys, h, _ => by
    have ⟨hx, hr⟩ := Limbs_cons.mp h
    obtain ⟨lo, e, b⟩ := val_top_split (y :: ys) hr (by simp)
    refine ⟨x + B * lo, ?_, ?_⟩
    · simp only [List.length_cons, Nat.add_sub_cancel] at e ⊢
      rw [val_cons, e, List.getD_cons_succ, pow_succ]; ring
    · simp only [List.length_cons, Nat.add_sub_cancel] at b ⊢
      rw [pow_succ]; nlinarith [B_pos]

theorem val_top2_split : ∀ (l : List Nat), Limbs l → 2 ≤ l.length →
    ∃ lo, val l = lo + B ^ (l.length - 2) * (l.getD (l.length - 2) 0 + B * l.getD (l.length - 1) 0) ∧ lo < B ^ (l.length - 2)
  | [], _, h => by simp at h
  | [_], _, h => by simp at h
  | [x, y], _, _ => ⟨0, by simp, by simp⟩
  | x :: y :: z :: zs, h, _ => by
    have ⟨hx, hr⟩ := Limbs_cons.mp h
    obtain ⟨lo, e, b⟩ := val_top2_split (y :: z :: zs) hr (by simp)
    refine ⟨x + B * lo, ?_, ?_⟩
    · simp only [List.length_cons] at e ⊢
      have i1 : zs.length + 1 + 1 + 1 - 2 = (zs.length + 1 + 1 - 2) + 1 := by omega
      have i2 : zs.length + 1 + 1 + 1 - 1 = (zs.length + 1 + 1 - 1) + 1 := by omega
      rw [val_cons, e, i1, i2, List.getD_cons_succ, List.getD_cons_succ, pow_succ]; ring
    · simp only [List.length_cons] at b ⊢
      have i1 : zs.length + 1 + 1 + 1 - 2 = (zs.length + 1 + 1 - 2) + 1 := by omega
      rw [i1, pow_succ]; nlinarith [B_pos]

theorem top_ne_zero {l : List Nat} (hne : l ≠ []) (ht : TopNZ l) : l.getD (l.length - 1) 0 ≠ 0 := by
  have := ht hne
  rw [List.getLast?_eq_getElem?] at this
  intro e
  apply this
  have hlt : l.length - 1 < l.length := by
    cases l with | nil => exact absurd rfl hne | cons _ _ => simp
  rw [List.getD_eq_getElem?_getD, List.getElem?_eq_getElem hlt] at e
  rw [List.getElem?_eq_getElem hlt]; simpa using e

theorem top_lt_B {l : List Nat} (h : Limbs l) (i : Nat) : l.getD i 0 < B := by
  rw [List.getD_eq_getElem?_getD]
  cases hi : l[i]? with
  | none => simpa using B_pos
  | some x => simp only [Option.getD_some]; exact h x (List.mem_of_getElem? hi)

theorem B_eq_two_pow : B = 2 ^ 64 := rfl
theorem Bpow_eq (k : Nat) : B ^ k = 2 ^ (64 * k) := by rw [B_eq_two_pow, ← pow_mul]

/-- bit length of a normalised limb vector: 64·size - count_leading_zeros (high limb) -/
theorem bitlen_val {l : List Nat} (hL : Limbs l) (hne : l ≠ []) (ht : TopNZ l) :
    bitlen (val l) = 64 * l.length - clz64 (l.getD (l.length - 1) 0) ∧ clz64 (l.getD (l.length - 1) 0) ≤ 63 := by
  obtain ⟨lo, e, b⟩ := val_top_split l hL hne
  have tnz := top_ne_zero hne ht
  have tlt := top_lt_B hL (l.length - 1)
  have hn : 1 ≤ l.length := by cases l with | nil => exact absurd rfl hne | cons _ _ => simp
  generalize l.getD (l.length - 1) 0 = top at *
  have k1 := Nat.log2_self_le tnz
  have k2 := @Nat.lt_log2_self top
  have k3 : top.log2 < 64 := (Nat.log2_lt tnz).mpr (by rw [← B_eq_two_pow]; exact tlt)
  unfold clz64
  refine ⟨?_, by omega⟩
  rw [Bpow_eq] at e b
  have : bitlen (val l) = (64 * (l.length - 1) + top.log2) + 1 := by
    apply bitlen_eq
    · rw [e, pow_add]
      have := Nat.mul_le_mul_left (2 ^ (64 * (l.length - 1))) k1
      omega
    · rw [e, pow_succ, pow_add]
      have h2 : top + 1 ≤ 2 ^ top.log2 * 2 := by rw [← pow_succ]; omega
      have := Nat.mul_le_mul_left (2 ^ (64 * (l.length - 1))) h2
      have e2 : 2 ^ (64 * (l.length - 1)) * (top + 1) = 2 ^ (64 * (l.length - 1)) * top + 2 ^ (64 * (l.length - 1)) := by ring
      rw [← Nat.mul_assoc] at this
      omega
  rw [this]; omega

/-! ### mpn_get_d: the shifted high limbs are the 53 leading bits (get_d.c:129-145) -/

theorem getd_m53 {l : List Nat} (hL : Limbs l) (hne : l ≠ []) (ht : TopNZ l) :
    ((((l.getD (l.length - 1) 0 <<< clz64 (l.getD (l.length - 1) 0)) % B) |||
        (((if l.length ≥ 2 then l.getD (l.length - 2) 0 else 0) >>> (64 - clz64 (l.getD (l.length - 1) 0))) &&&
          (if clz64 (l.getD (l.length - 1) 0) = 0 then 0 else B - 1))) >>> 11)
      = shiftZ (val l) (53 - (bitlen (val l) : Int)) := by
  obtain ⟨hbl, hls⟩ := bitlen_val hL hne ht
  have tnz := top_ne_zero hne ht
  have tlt := top_lt_B hL (l.length - 1)
  have m1lt : (if l.length ≥ 2 then l.getD (l.length - 2) 0 else 0) < B := by
    split
    · exact top_lt_B hL _
    · exact B_pos
  have hn : 1 ≤ l.length := by cases l with | nil => exact absurd rfl hne | cons _ _ => simp
  -- the window value t64 = shiftZ v (64 - L)
  have key : (l.getD (l.length - 1) 0) * 2 ^ clz64 (l.getD (l.length - 1) 0) +
      (if l.length ≥ 2 then l.getD (l.length - 2) 0 else 0) / 2 ^ (64 - clz64 (l.getD (l.length - 1) 0))
      = shiftZ (val l) (64 - (bitlen (val l) : Int)) := by
    rw [hbl]
    by_cases h2 : l.length ≥ 2
    · obtain ⟨lo, e, b⟩ := val_top2_split l hL h2
      rw [if_pos h2]
      generalize l.getD (l.length - 1) 0 = top at *
      generalize l.getD (l.length - 2) 0 = m1 at *
      generalize clz64 top = ls at *
      rw [shiftZ_neg _ (by omega)]
      have ex : (-(64 - ((64 * l.length - ls : Nat) : Int))).toNat = 64 * (l.length - 2) + (64 - ls) := by omega
      rw [ex, pow_add, ← Bpow_eq, ← Nat.div_div_eq_div_mul, e, Nat.add_mul_div_left _ _ (Bpow_pos _),
        Nat.div_eq_of_lt b, Nat.zero_add]
      have hB : B = 2 ^ (64 - ls) * 2 ^ ls := by rw [← pow_add, B_eq_two_pow]; congr 1; omega
      have : m1 + B * top = m1 + 2 ^ (64 - ls) * (2 ^ ls * top) := by rw [hB]; ring
      rw [this, Nat.add_mul_div_left _ _ (two_pow_pos _)]; ring
    · have h1 : l.length = 1 := by omega
      obtain ⟨lo, e, b⟩ := val_top_split l hL hne
      have b' : lo = 0 := by rw [h1] at b; simpa using b
      have e' : val l = l.getD (l.length - 1) 0 := by rw [e, b', h1]; simp
      rw [if_neg h2, e']
      generalize l.getD (l.length - 1) 0 = top at *
      generalize clz64 top = ls at *
      rw [shiftZ_nonneg _ (by omega)]
      simp only [Nat.zero_div, Nat.add_zero]
      congr 2; omega
  -- top·2^ls < B
  have f1 : (l.getD (l.length - 1) 0) * 2 ^ clz64 (l.getD (l.length - 1) 0) < B := by
    have k2 := @Nat.lt_log2_self (l.getD (l.length - 1) 0)
    have k3 : (l.getD (l.length - 1) 0).log2 < 64 := (Nat.log2_lt tnz).mpr (by rw [← B_eq_two_pow]; exact tlt)
    unfold clz64
    generalize l.getD (l.length - 1) 0 = top at *
    have : B = 2 ^ (top.log2 + 1) * 2 ^ (63 - top.log2) := by rw [← pow_add, B_eq_two_pow]; congr 1; omega
    rw [this]; exact Nat.mul_lt_mul_of_pos_right k2 (two_pow_pos _)
  generalize (if l.length ≥ 2 then l.getD (l.length - 2) 0 else 0) = m1 at *
  generalize l.getD (l.length - 1) 0 = top at *
  generalize clz64 top = ls at *
  -- the masked low part
  have f2 : ((m1 >>> (64 - ls)) &&& (if ls = 0 then 0 else B - 1)) = m1 / 2 ^ (64 - ls) ∧ m1 / 2 ^ (64 - ls) < 2 ^ ls := by
    have lt : m1 / 2 ^ (64 - ls) < 2 ^ ls := by
      rw [Nat.div_lt_iff_lt_mul (two_pow_pos _), ← pow_add]
      have : ls + (64 - ls) = 64 := by omega
      rw [this, ← B_eq_two_pow]; exact m1lt
    refine ⟨?_, lt⟩
    rw [Nat.shiftRight_eq_div_pow]
    by_cases z : ls = 0
    · subst z; rw [if_pos rfl, Nat.and_zero]; simp at lt; omega
    · rw [if_neg z, B_eq_two_pow, Nat.and_two_pow_sub_one_eq_mod, Nat.mod_eq_of_lt]
      have : 2 ^ ls ≤ 2 ^ 64 := Nat.pow_le_pow_right (by decide) (by omega)
      omega
  rw [f2.1, Nat.shiftLeft_eq, Nat.mod_eq_of_lt f1, ← Nat.shiftLeft_eq,
    ← Nat.shiftLeft_add_eq_or_of_lt f2.2, Nat.shiftLeft_eq, key, shiftZ_shiftRight]
  congr 1; omega

/-! ### the specification `truncToDouble` by cases, and the field assembly -/

theorem boolToNat_decide (p : Prop) [Decidable p] : boolToNat (decide p) = if p then 1 else 0 := by
  by_cases h : p <;> simp [boolToNat, h]

/-- `truncToDouble` spelled out: overflow, normal, denormal, underflow. -/
theorem trunc_cases (x e : Int) (hx : x ≠ 0) :
    (bitlen x.natAbs + e > 1024 → truncToDouble x e = mkBits (if x < 0 then 1 else 0) 2047 0) ∧
    (-1021 ≤ bitlen x.natAbs + e → bitlen x.natAbs + e ≤ 1024 →
      truncToDouble x e = mkBits (if x < 0 then 1 else 0) ((bitlen x.natAbs : Int) + e + 1022).toNat
        (shiftZ x.natAbs (53 - (bitlen x.natAbs : Int)) - 2 ^ 52)) ∧
    (-1073 ≤ bitlen x.natAbs + e → bitlen x.natAbs + e ≤ -1022 →
      truncToDouble x e = mkBits (if x < 0 then 1 else 0) 0
        (shiftZ x.natAbs (53 - (bitlen x.natAbs : Int)) >>> (-1021 - ((bitlen x.natAbs : Int) + e)).toNat)) ∧
    (bitlen x.natAbs + e ≤ -1074 → truncToDouble x e = 0) := by
  have hv : x.natAbs ≠ 0 := by omega
  obtain ⟨t1, t2⟩ := top53_bounds hv
  obtain ⟨_, bu⟩ := bitlen_bounds hv
  have hL1 : 1 ≤ bitlen x.natAbs := by rw [bitlen_pos hv]; omega
  unfold truncToDouble truncate53
  dsimp only
  rw [if_neg hv]
  generalize x.natAbs = v at *
  generalize hLdef : bitlen v = L at *
  refine ⟨fun h => ?_, fun h1 h2 => ?_, fun h1 h2 => ?_, fun h => ?_⟩
  · rw [if_pos h]; simp only [encode, boolToNat_decide]
  · have hq : (if (L : Int) + e - 53 ≥ -1074 then (L : Int) + e - 53 else -1074) = (L : Int) + e - 53 := if_pos (by omega)
    have : e - ((L : Int) + e - 53) = 53 - (L : Int) := by ring
    rw [if_neg (by omega), hq, this, if_neg (by omega)]
    simp only [encode, boolToNat_decide]
    rw [if_neg (by omega)]
    congr 2; omega
  · have hq : (if (L : Int) + e - 53 ≥ -1074 then (L : Int) + e - 53 else -1074) = -1074 := if_neg (by omega)
    rw [if_neg (by omega), hq]
    have r1 : 1 ≤ (-1021 - ((L : Int) + e)).toNat := by omega
    have r2 : (-1021 - ((L : Int) + e)).toNat ≤ 52 := by omega
    have : e - (-1074) = (53 - (L : Int)) - ((-1021 - ((L : Int) + e)).toNat : Nat) := by omega
    rw [this, ← shiftZ_shiftRight]
    generalize (-1021 - ((L : Int) + e)).toNat = r at *
    generalize shiftZ v (53 - (L : Int)) = m at *
    rw [Nat.shiftRight_eq_div_pow]
    have p1 : 2 ^ r ≤ 2 ^ 52 := Nat.pow_le_pow_right (by decide) r2
    have p2 : 2 ≤ 2 ^ r := by
      calc 2 = 2 ^ 1 := rfl
        _ ≤ 2 ^ r := Nat.pow_le_pow_right (by decide) r1
    have l1 : 1 ≤ m / 2 ^ r := by rw [Nat.le_div_iff_mul_le (two_pow_pos _)]; omega
    have l2 : m / 2 ^ r < 2 ^ 52 := by
      rw [Nat.div_lt_iff_lt_mul (two_pow_pos _)]
      calc m < 2 ^ 53 := t2
        _ = 2 ^ 52 * 2 := by norm_num
        _ ≤ 2 ^ 52 * 2 ^ r := Nat.mul_le_mul_left _ p2
    rw [if_neg (by omega)]
    simp only [encode, boolToNat_decide]
    rw [if_pos l2]
  · have hq : (if (L : Int) + e - 53 ≥ -1074 then (L : Int) + e - 53 else -1074) = -1074 := if_neg (by omega)
    rw [if_neg (by omega), hq]
    have : shiftZ v (e - (-1074)) = 0 := by
      rw [shiftZ_neg _ (by omega)]
      apply Nat.div_eq_of_lt
      calc v < 2 ^ L := bu
        _ ≤ 2 ^ (-(e - (-1074))).toNat := Nat.pow_le_pow_right (by decide) (by omega)
    rw [this, if_pos rfl]
    simp [encode, mkBits, boolToNat]

theorem assemble_inf (sign : Int) : assemble 0 1024 sign = mkBits (if sign < 0 then 1 else 0) 2047 0 := by
  unfold assemble mkBits; simp

theorem assemble_normal (m : Nat) (ex sign : Int) (h1 : 2 ^ 52 ≤ m) (h2 : m < 2 ^ 53) (e1 : -1022 ≤ ex) (e2 : ex ≤ 1023) :
    assemble m ex sign = mkBits (if sign < 0 then 1 else 0) (ex + 1023).toNat (m - 2 ^ 52) := by
  unfold assemble mkBits
  dsimp only
  rw [Nat.shiftRight_eq_div_pow]
  have : ((ex + 1023) % 2048).toNat = (ex + 1023).toNat := by omega
  rw [this]
  have : m % 2 ^ 32 + m / 2 ^ 32 % 2 ^ 20 * 2 ^ 32 = m - 2 ^ 52 := by omega
  rw [this]

theorem assemble_denorm (m : Nat) (sign : Int) (h2 : m < 2 ^ 52) :
    assemble m (-1023) sign = mkBits (if sign < 0 then 1 else 0) 0 m := by
  unfold assemble mkBits
  dsimp only
  rw [Nat.shiftRight_eq_div_pow]
  have : m % 2 ^ 32 + m / 2 ^ 32 % 2 ^ 20 * 2 ^ 32 = m := by omega
  rw [this]; simp

/-! ### mpn_get_d = truncation (all sizes, all exponents of a `long`) -/

theorem mpn_get_d_eq (ptr : List Nat) (sign exp : Int) (hL : Limbs ptr) (ht : TopNZ ptr)
    (hsz : ptr.length < 2 ^ 57) (he1 : LONG_MIN ≤ exp) (he2 : exp ≤ LONG_MAX) :
    mpn_get_d ptr sign exp = truncToDouble (if sign < 0 then -(val ptr : Int) else (val ptr : Int)) exp := by
  by_cases hne : ptr = []
  · subst hne
    simp [mpn_get_d, truncToDouble, truncate53, encode, mkBits, boolToNat]
  · have hn : 1 ≤ ptr.length := by cases ptr with | nil => exact absurd rfl hne | cons _ _ => simp
    have hv : 1 ≤ val ptr := le_trans (Bpow_pos _) (val_ge_of_top ptr hne ht)
    have hx : (if sign < 0 then -(val ptr : Int) else (val ptr : Int)) ≠ 0 := by split <;> omega
    have hxa : (if sign < 0 then -(val ptr : Int) else (val ptr : Int)).natAbs = val ptr := by split <;> omega
    have sgeq : (if (if sign < 0 then -(val ptr : Int) else (val ptr : Int)) < 0 then 1 else 0 : Nat) = (if sign < 0 then 1 else 0) := by
      by_cases h : sign < 0
      · rw [if_pos h, if_pos h, if_pos (by omega)]
      · rw [if_neg h, if_neg h, if_neg (by omega)]
    obtain ⟨c1, c2, c3, c4⟩ := trunc_cases _ exp hx
    rw [hxa] at c1 c2 c3 c4
    rw [sgeq] at c1 c2 c3
    obtain ⟨hbl, hls⟩ := bitlen_val hL hne ht
    have m53 := getd_m53 hL hne ht
    obtain ⟨t1, t2⟩ := top53_bounds (v := val ptr) (by omega)
    unfold mpn_get_d
    dsimp only
    rw [if_neg (by omega : ¬ ptr.length = 0), m53]
    have c0 : (64 * ptr.length) % 2 ^ 64 = 64 * ptr.length := Nat.mod_eq_of_lt (by omega)
    have c0' : toU64 (LONG_MAX - exp) = (LONG_MAX - exp).toNat := by unfold toU64 LONG_MAX LONG_MIN at *; omega
    rw [c0, c0']
    unfold LONG_MAX LONG_MIN at *
    generalize clz64 (ptr.getD (ptr.length - 1) 0) = ls at *
    generalize hm : shiftZ (val ptr) (53 - (bitlen (val ptr) : Int)) = m at *
    generalize val ptr = v at *
    generalize truncToDouble (if sign < 0 then -(v : Int) else (v : Int)) exp = R at *
    rw [hbl] at c1 c2 c3 c4
    by_cases hov : 64 * ptr.length > ((2 : Int) ^ 63 - 1 - exp).toNat
    · rw [if_pos hov, assemble_inf, c1 (by omega)]
    · rw [if_neg hov]
      by_cases h1 : exp + 64 * (ptr.length : Int) - ((ls : Int) + 1) ≥ 1024
      · rw [if_pos h1, assemble_inf, c1 (by omega)]
      · rw [if_neg h1]
        by_cases h2 : exp + 64 * (ptr.length : Int) - ((ls : Int) + 1) ≤ -1023
        · rw [if_pos h2]
          by_cases h3 : exp + 64 * (ptr.length : Int) - ((ls : Int) + 1) ≤ -1022 - 53
          · rw [if_pos h3, c4 (by omega)]
          · rw [if_neg h3, c3 (by omega) (by omega)]
            have : (-1022 - (exp + 64 * (ptr.length : Int) - ((ls : Int) + 1))).toNat =
                (-1021 - (((64 * ptr.length - ls : Nat) : Int) + exp)).toNat := by omega
            rw [this]
            generalize (-1021 - (((64 * ptr.length - ls : Nat) : Int) + exp)).toNat = r at *
            have r1 : 1 ≤ r := by omega
            apply assemble_denorm
            rw [Nat.shiftRight_eq_div_pow, Nat.div_lt_iff_lt_mul (two_pow_pos _)]
            have p2 : 2 ≤ 2 ^ r := by
              calc 2 = 2 ^ 1 := rfl
                _ ≤ 2 ^ r := Nat.pow_le_pow_right (by decide) r1
            calc m < 2 ^ 53 := t2
              _ = 2 ^ 52 * 2 := by norm_num
              _ ≤ 2 ^ 52 * 2 ^ r := Nat.mul_le_mul_left _ p2
        · rw [if_neg h2, c2 (by omega) (by omega), assemble_normal m _ sign t1 t2 (by omega) (by omega)]
          congr 2; omega

/-! ### decoding the specification -/

theorem mkBits_fields (sg e m : Nat) (hs : sg ≤ 1) (he : e < 2048) (hm : m < 2 ^ 52) :
    sigOf (mkBits sg e m) = sg ∧ expOf (mkBits sg e m) = e ∧ manOf (mkBits sg e m) = m := by
  unfold sigOf expOf manOf mkBits; omega

/-- `truncate53` spelled out: overflow, normal, denormal, underflow (same case split as `trunc_cases`). -/
theorem truncate53_cases (x e : Int) (hx : x ≠ 0) :
    (bitlen x.natAbs + e > 1024 → truncate53 x e = .inf (decide (x < 0))) ∧
    (-1021 ≤ bitlen x.natAbs + e → bitlen x.natAbs + e ≤ 1024 →
      truncate53 x e = .fin (decide (x < 0)) (shiftZ x.natAbs (53 - (bitlen x.natAbs : Int))) ((bitlen x.natAbs : Int) + e - 53)) ∧
    (-1073 ≤ bitlen x.natAbs + e → bitlen x.natAbs + e ≤ -1022 →
      truncate53 x e = .fin (decide (x < 0))
        (shiftZ x.natAbs (53 - (bitlen x.natAbs : Int)) >>> (-1021 - ((bitlen x.natAbs : Int) + e)).toNat) (-1074) ∧
      1 ≤ shiftZ x.natAbs (53 - (bitlen x.natAbs : Int)) >>> (-1021 - ((bitlen x.natAbs : Int) + e)).toNat ∧
      shiftZ x.natAbs (53 - (bitlen x.natAbs : Int)) >>> (-1021 - ((bitlen x.natAbs : Int) + e)).toNat < 2 ^ 52 ∧
      shiftZ x.natAbs (53 - (bitlen x.natAbs : Int)) >>> (-1021 - ((bitlen x.natAbs : Int) + e)).toNat = shiftZ x.natAbs (e + 1074)) ∧
    (bitlen x.natAbs + e ≤ -1074 → truncate53 x e = .fin false 0 (-1074)) := by
  have hv : x.natAbs ≠ 0 := by omega
  obtain ⟨t1, t2⟩ := top53_bounds hv
  obtain ⟨_, bu⟩ := bitlen_bounds hv
  have hL1 : 1 ≤ bitlen x.natAbs := by rw [bitlen_pos hv]; omega
  unfold truncate53
  dsimp only
  rw [if_neg hv]
  generalize x.natAbs = v at *
  generalize hLdef : bitlen v = L at *
  refine ⟨fun h => ?_, fun h1 h2 => ?_, fun h1 h2 => ?_, fun h => ?_⟩
  · rw [if_pos h]
  · have hq : (if (L : Int) + e - 53 ≥ -1074 then (L : Int) + e - 53 else -1074) = (L : Int) + e - 53 := if_pos (by omega)
    have : e - ((L : Int) + e - 53) = 53 - (L : Int) := by ring
    rw [if_neg (by omega), hq, this, if_neg (by omega)]
  · have hq : (if (L : Int) + e - 53 ≥ -1074 then (L : Int) + e - 53 else -1074) = -1074 := if_neg (by omega)
    rw [if_neg (by omega), hq]
    have r1 : 1 ≤ (-1021 - ((L : Int) + e)).toNat := by omega
    have r2 : (-1021 - ((L : Int) + e)).toNat ≤ 52 := by omega
    have this : e - (-1074) = (53 - (L : Int)) - ((-1021 - ((L : Int) + e)).toNat : Nat) := by omega
    have e2 : e + 1074 = (53 - (L : Int)) - ((-1021 - ((L : Int) + e)).toNat : Nat) := by omega
    rw [this, e2, ← shiftZ_shiftRight]
    generalize (-1021 - ((L : Int) + e)).toNat = r at *
    generalize shiftZ v (53 - (L : Int)) = m at *
    rw [Nat.shiftRight_eq_div_pow]
    have p1 : 2 ^ r ≤ 2 ^ 52 := Nat.pow_le_pow_right (by decide) r2
    have p2 : 2 ≤ 2 ^ r := by
      calc 2 = 2 ^ 1 := rfl
        _ ≤ 2 ^ r := Nat.pow_le_pow_right (by decide) r1
    have l1 : 1 ≤ m / 2 ^ r := by rw [Nat.le_div_iff_mul_le (two_pow_pos _)]; omega
    have l2 : m / 2 ^ r < 2 ^ 52 := by
      rw [Nat.div_lt_iff_lt_mul (two_pow_pos _)]
      calc m < 2 ^ 53 := t2
        _ = 2 ^ 52 * 2 := by norm_num
        _ ≤ 2 ^ 52 * 2 ^ r := Nat.mul_le_mul_left _ p2
    rw [if_neg (by omega)]
    exact ⟨rfl, l1, l2, rfl⟩
  · have hq : (if (L : Int) + e - 53 ≥ -1074 then (L : Int) + e - 53 else -1074) = -1074 := if_neg (by omega)
    rw [if_neg (by omega), hq]
    have : shiftZ v (e - (-1074)) = 0 := by
      rw [shiftZ_neg _ (by omega)]
      apply Nat.div_eq_of_lt
      calc v < 2 ^ L := bu
        _ ≤ 2 ^ (-(e - (-1074))).toNat := Nat.pow_le_pow_right (by decide) (by omega)
    rw [this, if_pos rfl]

/-- decoding the bit pattern of the specification gives back the specification -/
theorem decode_truncToDouble (x e : Int) : decode (truncToDouble x e) = truncate53 x e := by
  by_cases hx : x = 0
  · subst hx; simp [truncToDouble, truncate53, encode, mkBits, boolToNat]; decide
  · obtain ⟨c1, c2, c3, c4⟩ := trunc_cases x e hx
    obtain ⟨d1, d2, d3, d4⟩ := truncate53_cases x e hx
    obtain ⟨t1, t2⟩ := top53_bounds (v := x.natAbs) (by omega)
    have sg1 : (if x < 0 then 1 else 0 : Nat) ≤ 1 := by split <;> omega
    have sgd : decide ((if x < 0 then 1 else 0 : Nat) = 1) = decide (x < 0) := by
      by_cases h : x < 0 <;> simp [h]
    rcases lt_or_ge 1024 ((bitlen x.natAbs : Int) + e) with h | h
    · rw [c1 h, d1 h]
      obtain ⟨f1, f2, f3⟩ := mkBits_fields _ 2047 0 sg1 (by norm_num) (by norm_num)
      unfold decode; rw [f1, f2, f3, sgd]; simp
    · rcases le_or_gt (-1021) ((bitlen x.natAbs : Int) + e) with g | g
      · rw [c2 g h, d2 g h]
        generalize shiftZ x.natAbs (53 - (bitlen x.natAbs : Int)) = m at *
        generalize (bitlen x.natAbs : Int) + e = E at *
        obtain ⟨f1, f2, f3⟩ := mkBits_fields _ (E + 1022).toNat (m - 2 ^ 52) sg1 (by omega) (by omega)
        have hb : 2 ^ 52 + (m - 2 ^ 52) = m := by omega
        have hc : (((E + 1022).toNat : Nat) : Int) - 1075 = E - 53 := by omega
        unfold decode; rw [f1, f2, f3, sgd, if_neg (by omega), if_neg (by omega), hb, hc]
      · rcases le_or_gt (-1073) ((bitlen x.natAbs : Int) + e) with k | k
        · obtain ⟨dd, l1, l2, _⟩ := d3 k (by omega)
          rw [c3 k (by omega), dd]
          generalize shiftZ x.natAbs (53 - (bitlen x.natAbs : Int)) >>> (-1021 - ((bitlen x.natAbs : Int) + e)).toNat = m at *
          obtain ⟨f1, f2, f3⟩ := mkBits_fields _ 0 m sg1 (by norm_num) l2
          unfold decode; rw [f1, f2, f3, sgd]; simp
        · rw [c4 (by omega), d4 (by omega)]; decide

/-- `shiftZ` is the floor of the scaled value: exact for k ≥ 0, and for k < 0 the unique m with
    m·2^(-k) ≤ v < (m+1)·2^(-k). -/
theorem shiftZ_floor (v : Nat) (k : Int) :
    (0 ≤ k → shiftZ v k = v * 2 ^ k.toNat) ∧
    (k < 0 → shiftZ v k * 2 ^ (-k).toNat ≤ v ∧ v < (shiftZ v k + 1) * 2 ^ (-k).toNat) := by
  refine ⟨fun h => shiftZ_nonneg v h, fun h => ?_⟩
  rw [shiftZ_neg v h]
  have p := two_pow_pos (-k).toNat
  generalize 2 ^ (-k).toNat = P at *
  constructor
  · exact Nat.div_mul_le_self v P
  · have := Nat.lt_mul_div_succ v p; rw [Nat.mul_comm]; exact this

/-! ### __gmp_extract_double -/

theorem and_highbit (x : Nat) (h : x < 2 ^ 64) : (x &&& 2 ^ 63 = 0) ↔ x < 2 ^ 63 := by
  rw [Nat.and_two_pow, Nat.testBit_eq_decide_div_mod_eq]
  by_cases c : x / 2 ^ 63 % 2 = 1
  · simp only [c, decide_true, Bool.toNat_true]; omega
  · simp only [c, decide_false, Bool.toNat_false]; omega

theorem bitlen_mul_pow {x : Nat} (hx : x ≠ 0) (k : Nat) : bitlen (x * 2 ^ k) = bitlen x + k := by
  obtain ⟨l, u⟩ := bitlen_bounds hx
  have hb : 1 ≤ bitlen x := by rw [bitlen_pos hx]; omega
  have : bitlen (x * 2 ^ k) = (bitlen x - 1 + k) + 1 := by
    apply bitlen_eq
    · rw [pow_add]; exact Nat.mul_le_mul_right _ l
    · have : bitlen x - 1 + k + 1 = bitlen x + k := by omega
      rw [this, pow_add]; exact Nat.mul_lt_mul_of_pos_right u (two_pow_pos _)
  rw [this]; omega

theorem bitlen_le_of_lt {x k : Nat} (hx : x ≠ 0) (h : x < 2 ^ k) : bitlen x ≤ k := by
  rw [bitlen_pos hx]; exact (Nat.log2_lt hx).mpr h

theorem denormLoop_spec : ∀ (fuel x : Nat) (e : Int), 0 < x → x < 2 ^ 63 → 64 - bitlen x ≤ fuel →
    denormLoop fuel x e = (x * 2 ^ (64 - bitlen x), e - ((64 - bitlen x : Nat) : Int))
  | 0, x, e, hx, hlt, hf => by
    have := bitlen_le_of_lt (by omega) hlt; omega
  | fuel + 1, x, e, hx, hlt, hf => by
    have hb := bitlen_le_of_lt (by omega) hlt
    have hb1 : 1 ≤ bitlen x := by rw [bitlen_pos (by omega)]; omega
    have h2 : bitlen (x * 2 ^ 1) = bitlen x + 1 := bitlen_mul_pow (by omega) 1
    have e2 : (x <<< 1) % B = x * 2 ^ 1 := by
      rw [Nat.shiftLeft_eq, Nat.mod_eq_of_lt]; rw [B_eq_two_pow]; omega
    unfold denormLoop
    dsimp only
    rw [e2]
    by_cases c : x * 2 ^ 1 &&& 2 ^ 63 = 0
    · have c' := (and_highbit _ (by omega)).mp c
      rw [if_pos c, denormLoop_spec fuel (x * 2 ^ 1) (e - 1) (by omega) c' (by omega), h2]
      have hb2 := bitlen_le_of_lt (by omega) c'
      have : 64 - bitlen x = (64 - (bitlen x + 1)) + 1 := by omega
      rw [this, pow_succ]
      refine Prod.ext ?_ ?_
      · simp only; ring
      · simp only; omega
    · rw [if_neg c]
      have c' : ¬ x * 2 ^ 1 < 2 ^ 63 := fun h => c ((and_highbit _ (by omega)).mpr h)
      have : bitlen x = 63 := by
        have : bitlen x = 62 + 1 := bitlen_eq (by omega) (by omega)
        omega
      rw [this]; rfl

/-- the first half of `extract_double`: normalised 64-bit mantissa and exponent (before the bias is removed) -/
def normMant (b : Nat) : Nat × Int :=
  let manl := 2 ^ 63 ||| ((b / 2 ^ 32 % 2 ^ 20) <<< 43) ||| ((b % 2 ^ 32) <<< 11)
  if ((expOf b : Nat) : Int) = 0 then denormLoop 64 manl 1 else (manl, ((expOf b : Nat) : Int))

theorem manl_eq (b : Nat) :
    2 ^ 63 ||| ((b / 2 ^ 32 % 2 ^ 20) <<< 43) ||| ((b % 2 ^ 32) <<< 11) = 2 ^ 63 + manOf b * 2 ^ 11 := by
  have h1 : (b % 2 ^ 32) <<< 11 < 2 ^ 43 := by rw [Nat.shiftLeft_eq]; omega
  have h2 : (b / 2 ^ 32 % 2 ^ 20) <<< 43 + (b % 2 ^ 32) <<< 11 < 2 ^ 63 := by
    rw [Nat.shiftLeft_eq, Nat.shiftLeft_eq]; omega
  rw [Nat.or_assoc, ← Nat.shiftLeft_add_eq_or_of_lt h1]
  have := Nat.two_pow_add_eq_or_of_lt h2 1
  rw [Nat.mul_one] at this
  rw [← this, Nat.shiftLeft_eq, Nat.shiftLeft_eq]
  unfold manOf; omega

theorem normMant_spec (b : Nat) (hz : isZero b = false) :
    ∃ M ef, normMant b = (M, ef) ∧ 2 ^ 63 ≤ M ∧ M < 2 ^ 64 ∧ -51 ≤ ef ∧ ef ≤ 2047 ∧ (ef = expOf b ∨ (expOf b = 0 ∧ ef ≤ 0)) ∧
      M * 2 ^ (ef + 52).toNat = dblNum b * 2 ^ 64 := by
  have hm : manOf b < 2 ^ 52 := by unfold manOf; omega
  have he : expOf b < 2048 := by unfold expOf; omega
  unfold normMant
  dsimp only
  rw [manl_eq]
  by_cases e0 : ((expOf b : Nat) : Int) = 0
  · have e0' : expOf b = 0 := by omega
    have mnz : manOf b ≠ 0 := by
      unfold isZero at hz; simp at hz
      unfold expOf at e0'; unfold manOf; omega
    rw [if_pos e0]
    obtain ⟨l, u⟩ := bitlen_bounds mnz
    have hb := bitlen_le_of_lt mnz hm
    have hb1 : 1 ≤ bitlen (manOf b) := by rw [bitlen_pos mnz]; omega
    have hdn : dblNum b = manOf b := by unfold dblNum; rw [if_pos e0']
    have first : (((2 ^ 63 + manOf b * 2 ^ 11) <<< 1) % B) = manOf b * 2 ^ 12 := by
      rw [Nat.shiftLeft_eq, B_eq_two_pow]; omega
    have res : denormLoop 64 (2 ^ 63 + manOf b * 2 ^ 11) 1 =
        (manOf b * 2 ^ (64 - bitlen (manOf b)), (bitlen (manOf b) : Int) - 52) := by
      unfold denormLoop
      dsimp only
      rw [first]
      by_cases c : manOf b * 2 ^ 12 &&& 2 ^ 63 = 0
      · have c' := (and_highbit _ (by omega)).mp c
        have hbl : bitlen (manOf b * 2 ^ 12) = bitlen (manOf b) + 12 := bitlen_mul_pow mnz 12
        have hb2 := bitlen_le_of_lt (by omega) c'
        rw [if_pos c, denormLoop_spec 63 _ _ (by omega) c' (by omega), hbl]
        refine Prod.ext ?_ ?_
        · simp only
          have : 64 - bitlen (manOf b) = 12 + (64 - (bitlen (manOf b) + 12)) := by omega
          rw [this, pow_add]; ring
        · simp only; omega
      · rw [if_neg c]
        have c' : ¬ manOf b * 2 ^ 12 < 2 ^ 63 := fun h => c ((and_highbit _ (by omega)).mpr h)
        have : bitlen (manOf b) = 51 + 1 := bitlen_eq (by omega) (by omega)
        rw [this]
        refine Prod.ext ?_ ?_
        · simp only
        · simp only; omega
    rw [res]
    refine ⟨_, _, rfl, ?_, ?_, by omega, by omega, Or.inr ⟨e0', by omega⟩, ?_⟩
    · have p : 2 ^ (bitlen (manOf b) - 1) * 2 ^ (64 - bitlen (manOf b)) = 2 ^ 63 := by rw [← pow_add]; congr 1; omega
      rw [← p]; exact Nat.mul_le_mul_right _ l
    · have p : 2 ^ (bitlen (manOf b)) * 2 ^ (64 - bitlen (manOf b)) = 2 ^ 64 := by rw [← pow_add]; congr 1; omega
      rw [← p]; exact Nat.mul_lt_mul_of_pos_right u (two_pow_pos _)
    · rw [hdn]
      have : ((bitlen (manOf b) : Int) - 52 + 52).toNat = bitlen (manOf b) := by omega
      rw [this, Nat.mul_assoc, ← pow_add]; congr 2; omega
  · rw [if_neg e0]
    have e0' : expOf b ≠ 0 := by omega
    have hdn : dblNum b = (2 ^ 52 + manOf b) * 2 ^ (expOf b - 1) := by unfold dblNum; rw [if_neg e0']
    refine ⟨_, _, rfl, by omega, by omega, by omega, by omega, Or.inl rfl, ?_⟩
    rw [hdn]
    have : (((expOf b : Nat) : Int) + 52).toNat = 11 + (expOf b - 1) + 42 := by omega
    have t2 : (2 : Nat) ^ 64 = 2 ^ 11 * 2 ^ 11 * 2 ^ 42 := by norm_num
    rw [this, pow_add, pow_add, t2]
    have : 2 ^ 63 + manOf b * 2 ^ 11 = (2 ^ 52 + manOf b) * 2 ^ 11 := by ring
    rw [this]; ring

/-- __gmp_extract_double: for a finite non-zero d, {rp,2}·B^(exp-2) = d exactly (written without negative
    exponents through d·2^1074 = dblNum), high limb non-zero. -/
theorem extract_double_eq (b : Nat) (hz : isZero b = false) (hf : expOf b ≠ 2047) :
    ∃ r0 r1 ex, extract_double b = (r0, r1, ex) ∧ r0 < B ∧ 1 ≤ r1 ∧ r1 < B ∧ -16 ≤ ex ∧ ex ≤ 16 ∧
      (r1 * B + r0) * 2 ^ (64 * ex + 1074).toNat = dblNum b * 2 ^ 128 ∧ (1023 ≤ expOf b → 1 ≤ ex) ∧ (expOf b < 1023 → ex ≤ 0) := by
  obtain ⟨M, ef, hn, m1, m2, f1, f2, f3, hv⟩ := normMant_spec b hz
  have he : expOf b < 2048 := by unfold expOf; omega
  unfold normMant at hn
  dsimp only at hn
  unfold extract_double
  rw [hz]
  simp only [Bool.false_eq_true, if_false]
  rw [hn]
  dsimp only
  have hq : (ef - 1022 + 64 * 64) / 64 = (ef + 3074) / 64 := by congr 1; ring
  have hs : (ef - 1022 + 64 * 64) % 64 = (ef + 3074) % 64 := by congr 1; ring
  rw [hq, hs]
  by_cases c : ((ef + 3074) % 64).toNat ≠ 0
  · rw [if_pos c]
    refine ⟨_, _, _, rfl, Nat.mod_lt _ B_pos, ?_, ?_, by omega, by omega, ?_, by omega, by omega⟩
    · rw [Nat.shiftRight_eq_div_pow, Nat.le_div_iff_mul_le (two_pow_pos _)]
      have : 2 ^ (64 - ((ef + 3074) % 64).toNat) ≤ 2 ^ 63 := Nat.pow_le_pow_right (by decide) (by omega)
      omega
    · rw [Nat.shiftRight_eq_div_pow, Nat.div_lt_iff_lt_mul (two_pow_pos _)]
      have := two_pow_pos (64 - ((ef + 3074) % 64).toNat)
      calc M < 2 ^ 64 := m2
        _ = B * 1 := by rw [B_eq_two_pow, Nat.mul_one]
        _ ≤ B * 2 ^ (64 - ((ef + 3074) % 64).toNat) := Nat.mul_le_mul_left _ this
    · generalize hsc : ((ef + 3074) % 64).toNat = sc at *
      have hsc1 : sc < 64 := by omega
      have hB : B = 2 ^ (64 - sc) * 2 ^ sc := by rw [← pow_add, B_eq_two_pow]; congr 1; omega
      have split : M >>> (64 - sc) * B + (M <<< sc) % B = M * 2 ^ sc := by
        rw [Nat.shiftRight_eq_div_pow, Nat.shiftLeft_eq]
        conv_lhs => rw [hB, Nat.mul_mod_mul_right, ← Nat.mul_assoc, ← Nat.add_mul, Nat.mul_comm (M / _), Nat.div_add_mod]
      rw [split]
      have ex1 : (64 * ((ef + 3074) / 64 - 64 + 1) + 1074).toNat + sc = (ef + 52).toNat + 64 := by omega
      calc M * 2 ^ sc * 2 ^ (64 * ((ef + 3074) / 64 - 64 + 1) + 1074).toNat
          = M * 2 ^ ((64 * ((ef + 3074) / 64 - 64 + 1) + 1074).toNat + sc) := by rw [pow_add]; ring
        _ = M * 2 ^ (ef + 52).toNat * 2 ^ 64 := by rw [ex1, pow_add]; ring
        _ = dblNum b * 2 ^ 128 := by rw [hv]; ring
  · rw [if_neg c]
    refine ⟨_, _, _, rfl, B_pos, by omega, by rw [B_eq_two_pow]; exact m2, by omega, by omega, ?_, by omega, by omega⟩
    have ex1 : (64 * ((ef + 3074) / 64 - 64 + 1 - 1) + 1074).toNat = (ef + 52).toNat := by omega
    rw [ex1, Nat.add_zero, Nat.mul_right_comm, hv, B_eq_two_pow]; ring

/-! ### mpz_set_d -/

theorem absBits_fields (b : Nat) :
    expOf (absBits b) = expOf b ∧ manOf (absBits b) = manOf b ∧ isZero (absBits b) = isZero b ∧
    dblNum (absBits b) = dblNum b ∧ sigOf (absBits b) = 0 := by
  have e1 : expOf (absBits b) = expOf b := by unfold expOf absBits; omega
  have e2 : manOf (absBits b) = manOf b := by unfold manOf absBits; omega
  refine ⟨e1, e2, ?_, ?_, ?_⟩
  · unfold isZero absBits; simp
  · unfold dblNum; rw [e1, e2]
  · unfold sigOf absBits; omega

theorem val_replicate_zero (n : Nat) (l : List Nat) : val (List.replicate n 0 ++ l) = B ^ n * val l := by
  induction n with
  | zero => simp
  | succ k ih => rw [List.replicate_succ, List.cons_append, val_cons, ih, pow_succ]; ring

theorem Limbs_replicate_zero (n : Nat) : Limbs (List.replicate n 0) := by
  intro x hx; rw [List.mem_replicate] at hx; rw [hx.2]; exact B_pos

theorem dblNum_zero {b : Nat} (h : isZero b = true) : dblNum b = 0 := by
  unfold isZero at h; simp at h
  have e1 : expOf b = 0 := by unfold expOf; omega
  have e2 : manOf b = 0 := by unfold manOf; omega
  unfold dblNum; rw [if_pos e1, e2]

/-- floor (d) from the extracted double, by the number of integer limbs `ex` -/
theorem set_d_quot (r0 r1 : Nat) (ex : Int) (dn : Nat) (h0 : r0 < B) (h1' : r1 < B)
    (hrel : (r1 * B + r0) * 2 ^ (64 * ex + 1074).toNat = dn * 2 ^ 128) :
    (ex ≤ 0 → dn / 2 ^ 1074 = 0) ∧ (ex = 1 → dn / 2 ^ 1074 = r1) ∧
    (2 ≤ ex → dn / 2 ^ 1074 = (r1 * B + r0) * B ^ (ex.toNat - 2)) := by
  have hB : B = 2 ^ 64 := rfl
  refine ⟨fun c0 => ?_, fun c1 => ?_, fun c2 => ?_⟩
  · apply Nat.div_eq_of_lt
    have hlt : r1 * B + r0 < 2 ^ 128 := by
      have : r1 * B + r0 < B * B := by nlinarith
      calc r1 * B + r0 < B * B := this
        _ = 2 ^ 128 := by rw [hB]; norm_num
    have ht : 2 ^ (64 * ex + 1074).toNat ≤ 2 ^ 1074 := Nat.pow_le_pow_right (by decide) (by omega)
    have : dn * 2 ^ 128 < 2 ^ 1074 * 2 ^ 128 := by
      rw [← hrel]
      calc (r1 * B + r0) * 2 ^ (64 * ex + 1074).toNat ≤ (r1 * B + r0) * 2 ^ 1074 := Nat.mul_le_mul_left _ ht
        _ < 2 ^ 128 * 2 ^ 1074 := Nat.mul_lt_mul_of_pos_right hlt (two_pow_pos _)
        _ = 2 ^ 1074 * 2 ^ 128 := Nat.mul_comm _ _
    exact Nat.lt_of_mul_lt_mul_right this
  · subst c1
    have hd : dn = (r1 * B + r0) * 2 ^ 1010 := by
      have : (64 * (1 : Int) + 1074).toNat = 1010 + 128 := by decide
      rw [this, pow_add, ← Nat.mul_assoc] at hrel
      exact (Nat.eq_of_mul_eq_mul_right (two_pow_pos 128) hrel).symm
    have : (2 : Nat) ^ 1074 = B * 2 ^ 1010 := by rw [hB, ← pow_add]
    rw [hd, this, Nat.mul_div_mul_right _ _ (two_pow_pos _), Nat.mul_comm r1 B, Nat.add_comm,
      Nat.add_mul_div_left _ _ B_pos, Nat.div_eq_of_lt h0, Nat.zero_add]
  · have hd : dn = (r1 * B + r0) * B ^ (ex.toNat - 2) * 2 ^ 1074 := by
      have : (64 * ex + 1074).toNat = 64 * (ex.toNat - 2) + 1074 + 128 := by omega
      rw [this, pow_add, pow_add, ← Nat.mul_assoc, ← Nat.mul_assoc, ← Bpow_eq] at hrel
      exact (Nat.eq_of_mul_eq_mul_right (two_pow_pos 128) hrel).symm
    rw [hd, Nat.mul_div_cancel _ (two_pow_pos _)]

/-- well-formedness and value of the three shapes mpz_set_d stores -/
theorem set_d_shapes (r0 r1 : Nat) (h0 : r0 < B) (h1 : 1 ≤ r1) (h1' : r1 < B) (s : Bool) :
    (Z.wf ⟨0, []⟩ ∧ Z.toInt ⟨0, []⟩ = 0) ∧
    (Z.wf ⟨if s then -1 else 1, [r1]⟩ ∧ Z.toInt ⟨if s then -1 else 1, [r1]⟩ = (if s then -1 else 1) * (r1 : Int)) ∧
    (∀ k : Nat, Z.wf ⟨if s then -((k + 2 : Nat) : Int) else ((k + 2 : Nat) : Int), List.replicate k 0 ++ [r0, r1]⟩ ∧
      Z.toInt ⟨if s then -((k + 2 : Nat) : Int) else ((k + 2 : Nat) : Int), List.replicate k 0 ++ [r0, r1]⟩ =
        (if s then -1 else 1) * (((r1 * B + r0) * B ^ k : Nat) : Int)) := by
  refine ⟨⟨⟨rfl, Limbs_nil, fun h => absurd rfl h⟩, rfl⟩, ⟨⟨?_, Limbs_cons.mpr ⟨h1', Limbs_nil⟩, fun _ => ?_⟩, ?_⟩, fun k => ⟨⟨?_, ?_, fun _ => ?_⟩, ?_⟩⟩
  · cases s <;> rfl
  · simp; omega
  · cases s <;> simp [Z.toInt]
  · simp only [List.length_append, List.length_replicate, List.length_cons, List.length_nil]
    cases s
    · simp only [Bool.false_eq_true, if_false]; omega
    · simp only [if_true]; omega
  · exact Limbs_append.mpr ⟨Limbs_replicate_zero _, Limbs_cons.mpr ⟨h0, Limbs_cons.mpr ⟨h1', Limbs_nil⟩⟩⟩
  · rw [List.getLast?_append]; simp; omega
  · have hval : val (List.replicate k 0 ++ [r0, r1]) = (r1 * B + r0) * B ^ k := by
      rw [val_replicate_zero]; simp only [val_cons, val_nil]; ring
    unfold Z.toInt
    dsimp only
    rw [hval]
    cases s
    · simp only [Bool.false_eq_true, if_false]; rw [if_neg (by omega)]; simp
    · simp only [if_true]; rw [if_pos (by omega)]; simp

/-! ### mpz_cmp_d / mpz_cmpabs_d -/

theorem sgn_mul_pos {c : Int} (hc : 0 < c) (x : Int) : sgn (c * x) = sgn x := by
  rcases lt_trichotomy x 0 with h | h | h
  · rw [sgn_neg h, sgn_neg (by nlinarith)]
  · subst h; simp
  · rw [sgn_pos h, sgn_pos (by nlinarith)]

theorem val_take_top2 : ∀ (l : List Nat), 2 ≤ l.length →
    val l = val (l.take (l.length - 2)) + B ^ (l.length - 2) * (l.getD (l.length - 2) 0 + B * l.getD (l.length - 1) 0)
  | [], h => by simp at h
  | [_], h => by simp at h
  | [x, y], _ => by simp
  | x :: y :: z :: zs, _ => by
    have ih := val_take_top2 (y :: z :: zs) (by simp)
    simp only [List.length_cons] at ih ⊢
    have i1 : zs.length + 1 + 1 + 1 - 2 = (zs.length + 1 + 1 - 2) + 1 := by omega
    have i2 : zs.length + 1 + 1 + 1 - 1 = (zs.length + 1 + 1 - 1) + 1 := by omega
    rw [i1, i2, List.take_succ_cons, val_cons x (y :: z :: zs), val_cons x (List.take _ _), List.getD_cons_succ,
      List.getD_cons_succ, pow_succ, ih]
    ring

theorem val_eq_zero_iff : ∀ (l : List Nat), val l = 0 ↔ ∀ x ∈ l, x = 0
  | [] => by simp
  | x :: xs => by
    rw [val_cons]
    have ih := val_eq_zero_iff xs
    have hB := B_pos
    constructor
    · intro h
      have h1 : x = 0 := by omega
      have h2 : val xs = 0 := by
        rcases Nat.eq_zero_or_pos (val xs) with z | p
        · exact z
        · have : 0 < B * val xs := Nat.mul_pos hB p; omega
      intro y hy
      rcases List.mem_cons.mp hy with e | m
      · rw [e, h1]
      · exact ih.mp h2 y m
    · intro h
      have h1 : x = 0 := h x (by simp)
      have h2 : val xs = 0 := ih.mpr (fun y hy => h y (List.mem_cons_of_mem _ hy))
      rw [h1, h2]; simp

theorem any_ne_zero_iff (l : List Nat) : (l.any (· != 0)) = true ↔ val l ≠ 0 := by
  rw [Ne, val_eq_zero_iff, List.any_eq_true]
  constructor
  · rintro ⟨x, hx, hne⟩ h
    have := h x hx; subst this; simp at hne
  · intro h
    by_contra c
    apply h
    intro x hx
    by_contra ne
    exact c ⟨x, hx, by simpa using ne⟩

/-- cmp_d.c:102-109: lexicographic comparison of the `ex` limbs of z against the two extracted limbs
    placed at the top; stated on the common scale B·z versus (d1·B + d0)·B^(ex-1). -/
theorem cmpLimbsD_spec (zp : List Nat) (hL : Limbs zp) (hn : 1 ≤ zp.length) (r0 r1 : Nat) (ret : Int)
    (h0 : r0 < B) :
    cmpLimbsD zp r0 r1 ret =
      ret * sgn ((val zp : Int) * B - ((r1 : Int) * B + r0) * ((B ^ (zp.length - 1) : Nat) : Int)) := by
  have hne : zp ≠ [] := by intro e; rw [e] at hn; simp at hn
  obtain ⟨lo, e, b⟩ := val_top_split zp hL hne
  have hBp : (0 : Int) < B := by exact_mod_cast B_pos
  have hPp : (0 : Int) < ((B ^ (zp.length - 1) : Nat) : Int) := by exact_mod_cast Bpow_pos _
  unfold cmpLimbsD
  dsimp only
  by_cases c : zp.getD (zp.length - 1) 0 ≠ r1
  · rw [if_pos c]
    generalize zp.getD (zp.length - 1) 0 = top at *
    generalize B ^ (zp.length - 1) = P at *
    rw [e]
    push_cast
    have hlo : (lo : Int) < P := by exact_mod_cast b
    have hr0 : (r0 : Int) < B := by exact_mod_cast h0
    by_cases g : top ≥ r1
    · rw [if_pos g]
      have g' : (top : Int) ≥ r1 + 1 := by omega
      have k : (P : Int) * B * (top - r1) ≥ P * B * 1 := mul_le_mul_of_nonneg_left (by linarith) (by positivity)
      have a1 : (0 : Int) ≤ lo * B := by positivity
      have a2 : (r0 : Int) * P < B * P := mul_lt_mul_of_pos_right hr0 hPp
      have pos : 0 < ((lo : Int) + P * top) * B - (r1 * B + r0) * P := by nlinarith
      rw [sgn_pos pos]
      ring
    · rw [if_neg g]
      have g' : (top : Int) + 1 ≤ r1 := by omega
      have k : (P : Int) * B * (r1 - top) ≥ P * B * 1 := mul_le_mul_of_nonneg_left (by linarith) (by positivity)
      have a1 : (lo : Int) * B < P * B := mul_lt_mul_of_pos_right hlo hBp
      have a2 : (0 : Int) ≤ r0 * P := by positivity
      have neg : ((lo : Int) + P * top) * B - (r1 * B + r0) * P < 0 := by nlinarith
      rw [sgn_neg neg]
      ring
  · rw [if_neg c]
    have ceq : zp.getD (zp.length - 1) 0 = r1 := by simpa using c
    by_cases n1 : zp.length = 1
    · rw [if_pos n1]
      rw [n1] at e b ceq ⊢
      simp only [Nat.sub_self, pow_zero, Nat.lt_one_iff] at b
      subst b
      simp only [Nat.sub_self, pow_zero, Nat.zero_add, Nat.one_mul] at e
      rw [e, ceq]
      simp only [Nat.sub_self, pow_zero, Nat.cast_one, mul_one]
      have : (r1 : Int) * B - (r1 * B + r0) = -(r0 : Int) := by ring
      rw [this]
      by_cases z : r0 ≠ 0
      · rw [if_pos z, sgn_neg (by omega)]; ring
      · rw [if_neg z]
        have : r0 = 0 := by simpa using z
        subst this; simp [sgn_zero]
    · rw [if_neg n1]
      have h2 : 2 ≤ zp.length := by omega
      have e2 := val_take_top2 zp h2
      have blo : val (zp.take (zp.length - 2)) < B ^ (zp.length - 2) := by
        have := val_lt _ (Limbs_take hL (zp.length - 2))
        rwa [List.length_take, Nat.min_eq_left (by omega)] at this
      have hP : B ^ (zp.length - 1) = B ^ (zp.length - 2) * B := by
        rw [← pow_succ]; congr 1; omega
      have hany := any_ne_zero_iff (zp.take (zp.length - 2))
      rw [ceq] at e2
      rw [e2, hP]
      generalize zp.getD (zp.length - 2) 0 = z2 at *
      generalize val (zp.take (zp.length - 2)) = lo' at *
      generalize B ^ (zp.length - 2) = Q at *
      have hQp : (0 : Int) < Q := by
        have : 0 < Q := by omega
        exact_mod_cast this
      have hlo : (lo' : Int) < Q := by exact_mod_cast blo
      push_cast
      have T : ((lo' : Int) + Q * (z2 + B * r1)) * B - (r1 * B + r0) * (Q * B) = lo' * B + Q * B * (z2 - r0) := by ring
      rw [T]
      by_cases c2 : z2 ≠ r0
      · rw [if_pos c2]
        by_cases g : z2 ≥ r0
        · rw [if_pos g]
          have g' : (z2 : Int) ≥ r0 + 1 := by omega
          have k : (Q : Int) * B * (z2 - r0) ≥ Q * B * 1 := mul_le_mul_of_nonneg_left (by linarith) (by positivity)
          have a1 : (0 : Int) ≤ lo' * B := by positivity
          have pos : 0 < (lo' : Int) * B + Q * B * (z2 - r0) := by nlinarith [mul_pos hQp hBp]
          rw [sgn_pos pos]
          ring
        · rw [if_neg g]
          have g' : (z2 : Int) + 1 ≤ r0 := by omega
          have k : (Q : Int) * B * (r0 - z2) ≥ Q * B * 1 := mul_le_mul_of_nonneg_left (by linarith) (by positivity)
          have a1 : (lo' : Int) * B < Q * B := mul_lt_mul_of_pos_right hlo hBp
          have neg : (lo' : Int) * B + Q * B * (z2 - r0) < 0 := by nlinarith [mul_pos hQp hBp]
          rw [sgn_neg neg]
          ring
      · rw [if_neg c2]
        have : z2 = r0 := by simpa using c2
        subst this
        simp only [sub_self, mul_zero, add_zero]
        by_cases a : (zp.take (zp.length - 2)).any (· != 0) = true
        · rw [if_pos a]
          have : lo' ≠ 0 := hany.mp a
          have : (0 : Int) < lo' := by omega
          rw [sgn_pos (by nlinarith)]; ring
        · rw [if_neg a]
          have : lo' = 0 := by
            by_contra ne; exact a (hany.mpr ne)
          subst this; simp [sgn_zero]

theorem dblNum_pos {b : Nat} (hz : isZero b = false) : 0 < dblNum b := by
  unfold isZero at hz; simp at hz
  unfold dblNum
  by_cases e : expOf b = 0
  · rw [if_pos e]; unfold expOf at e; unfold manOf; omega
  · rw [if_neg e]; exact Nat.mul_pos (by omega) (two_pow_pos _)

theorem lt_one_iff (d : Nat) (hd : d < 2 ^ 63) : d < oneBits ↔ expOf d < 1023 := by
  unfold oneBits expOf; omega

theorem dblNum_lt_one {b : Nat} (h : expOf b < 1023) : dblNum b < 2 ^ 1074 := by
  have hm : manOf b < 2 ^ 52 := by unfold manOf; omega
  unfold dblNum
  by_cases e : expOf b = 0
  · rw [if_pos e]
    calc manOf b < 2 ^ 52 := hm
      _ ≤ 2 ^ 1074 := Nat.pow_le_pow_right (by decide) (by decide)
  · rw [if_neg e]
    have h1 : 2 ^ 52 + manOf b < 2 ^ 53 := by omega
    have h2 : 2 ^ (expOf b - 1) ≤ 2 ^ 1021 := Nat.pow_le_pow_right (by decide) (by omega)
    calc (2 ^ 52 + manOf b) * 2 ^ (expOf b - 1) < 2 ^ 53 * 2 ^ (expOf b - 1) := Nat.mul_lt_mul_of_pos_right h1 (two_pow_pos _)
      _ ≤ 2 ^ 53 * 2 ^ 1021 := Nat.mul_le_mul_left _ h2
      _ = 2 ^ 1074 := by rw [← pow_add]

/-- steps 3-5 of mpz_cmp_d / mpz_cmpabs_d: for a non-zero z and a finite non-zero |d| the result is
    `ret` times the sign of |z| - |d| (on the scale 2^1074). -/
theorem cmpTailD_spec (zp : List Nat) (hL : Limbs zp) (ht : TopNZ zp) (hne : zp ≠ []) (zsize : Int)
    (hzs : zsize = zp.length) (d : Nat) (hd : d < 2 ^ 63) (hz : isZero d = false) (hf : expOf d ≠ 2047) (ret : Int) :
    cmpTailD zp zsize d ret = ret * sgn ((val zp : Int) * 2 ^ 1074 - dblNum d) := by
  have hn : 1 ≤ zp.length := by cases zp with | nil => exact absurd rfl hne | cons _ _ => simp
  have vlo := val_ge_of_top zp hne ht
  have vhi := val_lt zp hL
  have hB : B = 2 ^ 64 := rfl
  unfold cmpTailD
  by_cases lt : d < oneBits
  · rw [if_pos lt]
    have := dblNum_lt_one ((lt_one_iff d hd).mp lt)
    have v1 : 1 ≤ val zp := le_trans (Bpow_pos _) vlo
    have : dblNum d < val zp * 2 ^ 1074 := by
      calc dblNum d < 1 * 2 ^ 1074 := by omega
        _ ≤ val zp * 2 ^ 1074 := Nat.mul_le_mul_right _ v1
    have pos : (0 : Int) < (val zp : Int) * 2 ^ 1074 - dblNum d := by
      have h' : ((dblNum d : Nat) : Int) < ((val zp * 2 ^ 1074 : Nat) : Int) := by exact_mod_cast this
      push_cast at h'; exact sub_pos.mpr h'
    rw [sgn_pos pos]
    ring
  · rw [if_neg lt]
    have he1023 : 1023 ≤ expOf d := by
      have := (lt_one_iff d hd).not.mp lt; omega
    obtain ⟨r0, r1, ex, he, h0, h1, h1', x1, x2, hrel, hex1, _⟩ := extract_double_eq d hz hf
    have ex1 := hex1 he1023
    rw [he]
    dsimp only
    -- dblNum = (r1·B + r0)·B^(ex-1)·2^1010
    have hdn : dblNum d = (r1 * B + r0) * B ^ (ex.toNat - 1) * 2 ^ 1010 := by
      have : (64 * ex + 1074).toNat = 64 * (ex.toNat - 1) + 1010 + 128 := by omega
      rw [this, pow_add, pow_add, ← Nat.mul_assoc, ← Nat.mul_assoc, ← Bpow_eq] at hrel
      exact (Nat.eq_of_mul_eq_mul_right (two_pow_pos 128) hrel).symm
    have h1074 : (2 : Nat) ^ 1074 = B * 2 ^ 1010 := by rw [hB, ← pow_add]
    have p1010 : (0 : Int) < ((2 ^ 1010 : Nat) : Int) := by exact_mod_cast two_pow_pos 1010
    have key : (val zp : Int) * 2 ^ 1074 - dblNum d =
        ((2 ^ 1010 : Nat) : Int) * ((val zp : Int) * B - ((r1 : Int) * B + r0) * ((B ^ (ex.toNat - 1) : Nat) : Int)) := by
      have : ((2 : Int) ^ 1074) = (((2 : Nat) ^ 1074 : Nat) : Int) := by push_cast; rfl
      rw [this, h1074, hdn]; push_cast; ring
    rw [key, sgn_mul_pos p1010]
    by_cases ne : zsize ≠ ex
    · rw [if_pos ne]
      generalize hP : B ^ (ex.toNat - 1) = P at *
      have hPp : 0 < P := by rw [← hP]; exact Bpow_pos _
      by_cases ge : zsize ≥ ex
      · rw [if_pos ge]
        -- more limbs than the double: v ≥ B^(n-1) ≥ B^ex = P·B
        have hle : P * B ≤ B ^ (zp.length - 1) := by
          rw [← hP, ← pow_succ]; exact pow_le_pow_B (by omega)
        have hv : P * B ≤ val zp := le_trans hle vlo
        have hlt : r1 * B + r0 < B * B := by nlinarith
        have : (r1 * B + r0) * P < val zp * B := by
          calc (r1 * B + r0) * P < B * B * P := Nat.mul_lt_mul_of_pos_right hlt hPp
            _ = P * B * B := by ring
            _ ≤ val zp * B := Nat.mul_le_mul_right _ hv
        have pos : (0 : Int) < (val zp : Int) * B - ((r1 : Int) * B + r0) * (P : Int) := by
          have h' : ((((r1 * B + r0) * P : Nat)) : Int) < ((val zp * B : Nat) : Int) := by exact_mod_cast this
          push_cast at h'; linarith
        rw [sgn_pos pos]
        ring
      · rw [if_neg ge]
        have hle : B ^ zp.length ≤ P := by rw [← hP]; exact pow_le_pow_B (by omega)
        have hv : val zp < P := lt_of_lt_of_le vhi hle
        have : val zp * B < (r1 * B + r0) * P := by
          calc val zp * B < P * B := Nat.mul_lt_mul_of_pos_right hv B_pos
            _ = 1 * B * P := by ring
            _ ≤ (r1 * B + r0) * P := Nat.mul_le_mul_right _ (by nlinarith)
        have neg : (val zp : Int) * B - ((r1 : Int) * B + r0) * (P : Int) < 0 := by
          have h' : ((val zp * B : Nat) : Int) < ((((r1 * B + r0) * P : Nat)) : Int) := by exact_mod_cast this
          push_cast at h'; linarith
        rw [sgn_neg neg]
        ring
    · rw [if_neg ne]
      have : ex.toNat = zp.length := by omega
      rw [this]
      exact cmpLimbsD_spec zp hL hn r0 r1 ret h0

/-- exact value of a finite double scaled by 2^1074, with its sign -/
def dblInt (b : Nat) : Int := if sigOf b = 1 then -(dblNum b : Int) else (dblNum b : Int)

/-! ### mpf -/

/-- signed mantissa of an mpf: value = F.mant · B^(exp - |size|) -/
def F.mant (f : F) : Int := if f.size < 0 then -(val f.d : Int) else (val f.d : Int)

theorem truncToDouble_zero (e : Int) : truncToDouble 0 e = 0 := by
  simp [truncToDouble, truncate53, encode, mkBits, boolToNat]

/-- limb exponent of the least significant limb: value = mant · B^lowExp -/
def F.lowExp (f : F) : Int := f.exp - f.size.natAbs

/-- low limb non-zero (or empty) -/
def HeadNZ (l : List Nat) : Prop := l.head? ≠ some 0

theorem stripLow_cons (x : Nat) (xs : List Nat) :
    stripLow (x :: xs) = if x = 0 then stripLow xs else x :: xs := by
  unfold stripLow
  by_cases h : x = 0
  · subst h; simp
  · simp [h]

theorem stripLow_headNZ : ∀ l : List Nat, HeadNZ (stripLow l)
  | [] => by simp [HeadNZ, stripLow]
  | x :: xs => by
    rw [stripLow_cons]
    by_cases h : x = 0
    · rw [if_pos h]; exact stripLow_headNZ xs
    · rw [if_neg h]; simp [HeadNZ, h]

theorem stripLow_val : ∀ l : List Nat, (stripLow l).length ≤ l.length ∧
    val l = B ^ (l.length - (stripLow l).length) * val (stripLow l)
  | [] => by simp [stripLow]
  | x :: xs => by
    rw [stripLow_cons]
    obtain ⟨h1, h2⟩ := stripLow_val xs
    by_cases h : x = 0
    · rw [if_pos h]
      refine ⟨by simp; omega, ?_⟩
      have : (x :: xs).length - (stripLow xs).length = (xs.length - (stripLow xs).length) + 1 := by simp; omega
      rw [this, pow_succ, val_cons, h, h2]; ring
    · rw [if_neg h]; simp

theorem Limbs_stripLow {l : List Nat} (h : Limbs l) : Limbs (stripLow l) :=
  fun x hx => h x ((List.dropWhile_sublist _).subset hx)

theorem val_take_pos {s : List Nat} (hh : HeadNZ s) {j : Nat} (h1 : 1 ≤ j) (h2 : j ≤ s.length) : 0 < val (s.take j) := by
  cases s with
  | nil => simp at h2; omega
  | cons h t =>
    have hne : h ≠ 0 := by intro e; subst e; exact hh (by simp)
    obtain ⟨j', rfl⟩ : ∃ j', j = j' + 1 := ⟨j - 1, by omega⟩
    rw [List.take_succ_cons, val_cons]; omega

/-- the mantissa comparison of mpf_cmp on stripped operands, on a common top-aligned scale K -/
theorem mpf_cmp_limbs_spec (up vp : List Nat) (hu : Limbs up) (hv : Limbs vp) (hhu : HeadNZ up) (hhv : HeadNZ vp)
    (usign : Int) (K : Nat) (hK1 : up.length ≤ K) (hK2 : vp.length ≤ K) :
    mpf_cmp_limbs up vp usign =
      usign * sgn ((val up : Int) * ((B ^ (K - up.length) : Nat) : Int) - (val vp : Int) * ((B ^ (K - vp.length) : Nat) : Int)) := by
  unfold mpf_cmp_limbs
  dsimp only
  by_cases g : up.length > vp.length
  · rw [if_pos g]
    have hk : 1 ≤ up.length - vp.length := by omega
    have e := val_take_drop up (up.length - vp.length) (by omega)
    have lo_pos := val_take_pos hhu hk (by omega)
    have lo_lt : val (up.take (up.length - vp.length)) < B ^ (up.length - vp.length) := by
      have := val_lt _ (Limbs_take hu (up.length - vp.length))
      rwa [List.length_take, Nat.min_eq_left (by omega)] at this
    rw [cmp_spec _ _ (Limbs_drop hu _) hv (by rw [List.length_drop]; omega)]
    have hP : B ^ (K - vp.length) = B ^ (K - up.length) * B ^ (up.length - vp.length) := by
      rw [← pow_add]; congr 1; omega
    rw [hP, e]
    generalize val (up.take (up.length - vp.length)) = lo at *
    generalize val (up.drop (up.length - vp.length)) = hi at *
    generalize B ^ (up.length - vp.length) = P at *
    push_cast
    have hS : (0 : Int) < (B : Int) ^ (K - up.length) := pow_pos (by exact_mod_cast B_pos) _
    generalize (B : Int) ^ (K - up.length) = S at *
    have T : ((lo : Int) + P * hi) * S - (val vp : Int) * (S * P) = S * (lo + P * (hi - val vp)) := by ring
    rw [T, sgn_mul_pos hS]
    have hlo : (0 : Int) < lo := by exact_mod_cast lo_pos
    have hlt : (lo : Int) < P := by exact_mod_cast lo_lt
    have hPp : (0 : Int) < P := by linarith
    rcases lt_trichotomy ((hi : Int) - val vp) 0 with h | h | h
    · rw [sgn_neg h, if_neg (by decide), if_neg (by decide)]
      have : (P : Int) * (hi - val vp) ≤ P * (-1) := mul_le_mul_of_nonneg_left (by omega) (le_of_lt hPp)
      rw [sgn_neg (by linarith)]; ring
    · rw [h, sgn_zero, if_pos rfl, mul_zero, add_zero, sgn_pos hlo]; ring
    · rw [sgn_pos h, if_neg (by decide), if_pos (by decide)]
      have : (0 : Int) < P * (hi - val vp) := mul_pos hPp h
      rw [sgn_pos (by linarith)]; ring
  · rw [if_neg g]
    by_cases g2 : vp.length > up.length
    · rw [if_pos g2]
      have hk : 1 ≤ vp.length - up.length := by omega
      have e := val_take_drop vp (vp.length - up.length) (by omega)
      have lo_pos := val_take_pos hhv hk (by omega)
      have lo_lt : val (vp.take (vp.length - up.length)) < B ^ (vp.length - up.length) := by
        have := val_lt _ (Limbs_take hv (vp.length - up.length))
        rwa [List.length_take, Nat.min_eq_left (by omega)] at this
      rw [cmp_spec _ _ hu (Limbs_drop hv _) (by rw [List.length_drop]; omega)]
      have hP : B ^ (K - up.length) = B ^ (K - vp.length) * B ^ (vp.length - up.length) := by
        rw [← pow_add]; congr 1; omega
      rw [hP, e]
      generalize val (vp.take (vp.length - up.length)) = lo at *
      generalize val (vp.drop (vp.length - up.length)) = hi at *
      generalize B ^ (vp.length - up.length) = P at *
      push_cast
      have hS : (0 : Int) < (B : Int) ^ (K - vp.length) := pow_pos (by exact_mod_cast B_pos) _
      generalize (B : Int) ^ (K - vp.length) = S at *
      have T : (val up : Int) * (S * P) - ((lo : Int) + P * hi) * S = S * (P * (val up - hi) - lo) := by ring
      rw [T, sgn_mul_pos hS]
      have hlo : (0 : Int) < lo := by exact_mod_cast lo_pos
      have hlt : (lo : Int) < P := by exact_mod_cast lo_lt
      have hPp : (0 : Int) < P := by linarith
      rcases lt_trichotomy ((val up : Int) - hi) 0 with h | h | h
      · rw [sgn_neg h, if_neg (by decide), if_neg (by decide)]
        have : (P : Int) * (val up - hi) ≤ P * (-1) := mul_le_mul_of_nonneg_left (by omega) (le_of_lt hPp)
        rw [sgn_neg (by linarith)]; ring
      · rw [h, sgn_zero, if_pos rfl, mul_zero, zero_sub, sgn_neg (by linarith)]; ring
      · rw [sgn_pos h, if_neg (by decide), if_pos (by decide)]
        have : (P : Int) * 1 ≤ P * (val up - hi) := mul_le_mul_of_nonneg_left (by omega) (le_of_lt hPp)
        rw [sgn_pos (by linarith)]; ring
    · rw [if_neg g2]
      have hl : up.length = vp.length := by omega
      rw [cmp_spec _ _ hu hv hl, hl]
      have hS : (0 : Int) < ((B ^ (K - vp.length) : Nat) : Int) := by exact_mod_cast Bpow_pos _
      generalize ((B ^ (K - vp.length) : Nat) : Int) = S at *
      have T : (val up : Int) * S - (val vp : Int) * S = S * (val up - val vp) := by ring
      rw [T, sgn_mul_pos hS]
      rcases lt_trichotomy ((val up : Int) - val vp) 0 with h | h | h
      · rw [sgn_neg h, if_neg (by decide), if_neg (by decide)]; ring
      · rw [h, sgn_zero, if_pos rfl]; ring
      · rw [sgn_pos h, if_neg (by decide), if_pos (by decide)]; ring

theorem F.wf_bounds {f : F} (h : f.wf) :
    (f.size = 0 → val f.d = 0) ∧ (f.size ≠ 0 → B ^ (f.size.natAbs - 1) ≤ val f.d) ∧ val f.d < B ^ f.size.natAbs := by
  obtain ⟨hl, hL, ht, _⟩ := h
  refine ⟨fun h0 => val_eq_zero_of_nil (by rw [hl, h0]; rfl), fun hn => ?_, by rw [← hl]; exact val_lt _ hL⟩
  have hne : f.d ≠ [] := by intro e; rw [e] at hl; simp at hl; omega
  rw [← hl]; exact val_ge_of_top _ hne ht

theorem sgn_usign_mul (s X : Int) (hs : s = 1 ∨ s = -1) : sgn (s * sgn X) = sgn (s * X) := by
  rcases hs with h | h
  · rw [h, one_mul, one_mul, sgn_sgn]
  · rw [h, neg_one_mul, neg_one_mul, sgn_neg_eq, sgn_sgn, sgn_neg_eq]

/-! ### mpf against one limb; truncation to an integer -/

theorem list_split_last : ∀ (l : List Nat), l ≠ [] → l = l.take (l.length - 1) ++ [l.getD (l.length - 1) 0]
  | [], h => absurd rfl h
  | [x], _ => by simp
  | x :: y :: ys, _ => by
    have ih := list_split_last (y :: ys) (by simp)
    simp only [List.length_cons, Nat.add_sub_cancel] at ih ⊢
    rw [List.take_succ_cons, List.getD_cons_succ, List.cons_append, ← ih]

theorem stripLow_len_gt_one : ∀ (init : List Nat) (top : Nat), top ≠ 0 →
    ((stripLow (init ++ [top])).length > 1 ↔ val init ≠ 0)
  | [], top, h => by simp [stripLow, h]
  | x :: xs, top, h => by
    rw [List.cons_append, stripLow_cons]
    by_cases hx : x = 0
    · rw [if_pos hx, stripLow_len_gt_one xs top h, val_cons, hx]
      have := B_pos
      constructor
      · intro h1 h2; apply h1
        rcases Nat.eq_zero_or_pos (val xs) with z | p
        · exact z
        · have : 0 < B * val xs := Nat.mul_pos B_pos p; omega
      · intro h1 h2; apply h1; rw [h2]; simp
    · rw [if_neg hx, val_cons]
      simp only [List.length_cons, List.length_append, List.length_nil]
      constructor
      · intro _; omega
      · intro _; omega

/-- steps 2-4 of mpf_cmp_ui / mpf_cmp_si: |u| against a non-zero one-limb value on a common integer scale -/
theorem mpf_cmp_limb1_spec (u : F) (hu : u.wf) (vv : Nat) (hv0 : 0 < vv) (hvB : vv < B) (usign : Int) :
    mpf_cmp_limb1 u vv usign =
      usign * sgn ((val u.d : Int) * ((B ^ (u.lowExp - min u.lowExp 0).toNat : Nat) : Int)
        - (vv : Int) * ((B ^ (0 - min u.lowExp 0).toNat : Nat) : Int)) := by
  obtain ⟨u0, u1, u2⟩ := F.wf_bounds hu
  have ul := hu.1
  have cast_lt : ∀ {a b : Nat}, a < b → (a : Int) - b < 0 := fun h => by omega
  have cast_gt : ∀ {a b : Nat}, b < a → (0 : Int) < (a : Int) - b := fun h => by omega
  unfold mpf_cmp_limb1
  dsimp only
  by_cases g : u.exp > 1
  · rw [if_pos g]
    have hs : u.size ≠ 0 := fun h => by have := hu.2.2.2 h; omega
    have hu1 := u1 hs
    have hexp : 1 + (0 - min u.lowExp 0).toNat ≤ (u.size.natAbs - 1) + (u.lowExp - min u.lowExp 0).toNat := by
      unfold F.lowExp; omega
    have h1 : vv * B ^ (0 - min u.lowExp 0).toNat < val u.d * B ^ (u.lowExp - min u.lowExp 0).toNat := by
      calc vv * B ^ (0 - min u.lowExp 0).toNat
          < B * B ^ (0 - min u.lowExp 0).toNat := Nat.mul_lt_mul_of_pos_right hvB (Bpow_pos _)
        _ = B ^ (1 + (0 - min u.lowExp 0).toNat) := by rw [pow_add, pow_one]
        _ ≤ B ^ ((u.size.natAbs - 1) + (u.lowExp - min u.lowExp 0).toNat) := pow_le_pow_B hexp
        _ = B ^ (u.size.natAbs - 1) * B ^ (u.lowExp - min u.lowExp 0).toNat := by rw [pow_add]
        _ ≤ val u.d * B ^ (u.lowExp - min u.lowExp 0).toNat := Nat.mul_le_mul_right _ hu1
    have := cast_gt h1
    push_cast at this ⊢
    rw [sgn_pos this, mul_one]
  · rw [if_neg g]
    by_cases g2 : u.exp < 1
    · rw [if_pos g2]
      have hexp : u.size.natAbs + (u.lowExp - min u.lowExp 0).toNat ≤ (0 - min u.lowExp 0).toNat := by
        unfold F.lowExp; omega
      have h1 : val u.d * B ^ (u.lowExp - min u.lowExp 0).toNat < vv * B ^ (0 - min u.lowExp 0).toNat := by
        calc val u.d * B ^ (u.lowExp - min u.lowExp 0).toNat
            < B ^ u.size.natAbs * B ^ (u.lowExp - min u.lowExp 0).toNat := Nat.mul_lt_mul_of_pos_right u2 (Bpow_pos _)
          _ = B ^ (u.size.natAbs + (u.lowExp - min u.lowExp 0).toNat) := by rw [pow_add]
          _ ≤ B ^ (0 - min u.lowExp 0).toNat := pow_le_pow_B hexp
          _ = 1 * B ^ (0 - min u.lowExp 0).toNat := by rw [Nat.one_mul]
          _ ≤ vv * B ^ (0 - min u.lowExp 0).toNat := Nat.mul_le_mul_right _ hv0
      have := cast_lt h1
      push_cast at this ⊢
      rw [sgn_neg this]; ring
    · rw [if_neg g2]
      have hE : u.exp = 1 := by omega
      have hs : u.size ≠ 0 := fun h => by have := hu.2.2.2 h; omega
      have hne : u.d ≠ [] := by intro e; rw [e] at ul; simp at ul; omega
      have ea : (u.lowExp - min u.lowExp 0).toNat = 0 := by unfold F.lowExp; omega
      have eb : (0 - min u.lowExp 0).toNat = u.d.length - 1 := by unfold F.lowExp; omega
      rw [ea, eb, pow_zero, Nat.cast_one, mul_one, ← ul]
      obtain ⟨lo, e, b⟩ := val_top_split u.d hu.2.1 hne
      have tnz := top_ne_zero hne hu.2.2.1
      have hsplit := list_split_last u.d hne
      have hlo : lo = val (u.d.take (u.d.length - 1)) := by
        have e2 : val u.d = val (u.d.take (u.d.length - 1)) + B ^ (u.d.length - 1) * u.d.getD (u.d.length - 1) 0 := by
          conv_lhs => rw [hsplit]
          rw [val_append, List.length_take, Nat.min_eq_left (by omega)]
          simp
        rw [e] at e2
        exact Nat.add_right_cancel e2
      have hstrip : (stripLow u.d).length > 1 ↔ lo ≠ 0 := by
        rw [hlo]; conv_lhs => rw [hsplit]
        exact stripLow_len_gt_one _ _ tnz
      rw [e]
      generalize u.d.getD (u.d.length - 1) 0 = top at *
      generalize hP : B ^ (u.d.length - 1) = P at *
      have hPp : (0 : Int) < P := by
        have : 0 < P := by rw [← hP]; exact Bpow_pos _
        exact_mod_cast this
      have hlt : (lo : Int) < P := by exact_mod_cast b
      have hlo0 : (0 : Int) ≤ lo := by positivity
      push_cast
      have T : ((lo : Int) + P * top) - vv * P = lo + P * (top - vv) := by ring
      rw [T]
      by_cases c1 : top > vv
      · rw [if_pos c1]
        have : (P : Int) * 1 ≤ P * (top - vv) := mul_le_mul_of_nonneg_left (by omega) (le_of_lt hPp)
        rw [sgn_pos (by linarith), mul_one]
      · rw [if_neg c1]
        by_cases c2 : top < vv
        · rw [if_pos c2]
          have : (P : Int) * (top - vv) ≤ P * (-1) := mul_le_mul_of_nonneg_left (by omega) (le_of_lt hPp)
          rw [sgn_neg (by linarith)]; ring
        · rw [if_neg c2]
          have : top = vv := by omega
          subst this
          simp only [sub_self, mul_zero, add_zero]
          by_cases c3 : (stripLow u.d).length > 1
          · rw [if_pos c3]
            have := hstrip.mp c3
            rw [sgn_pos (by omega), mul_one]
          · rw [if_neg c3]
            have : lo = 0 := by by_contra h; exact c3 (hstrip.mpr h)
            subst this; simp [sgn_zero]

/-- floor |f| -/
def F.truncNat (f : F) : Nat :=
  if f.lowExp ≥ 0 then val f.d * B ^ f.lowExp.toNat else val f.d / B ^ (-f.lowExp).toNat
/-- f truncated toward zero to an integer -/
def F.truncInt (f : F) : Int := if f.size < 0 then -(f.truncNat : Int) else (f.truncNat : Int)

theorem val_div_mod : ∀ (l : List Nat) (k : Nat), Limbs l → (val l / B ^ k) % B = l.getD k 0
  | [], k, _ => by simp
  | x :: xs, 0, h => by
    have hx := (Limbs_cons.mp h).1
    simp only [pow_zero, Nat.div_one, val_cons, List.getD_cons_zero]
    rw [Nat.add_mul_mod_self_left, Nat.mod_eq_of_lt hx]
  | x :: xs, k + 1, h => by
    have ⟨hx, hxs⟩ := Limbs_cons.mp h
    have : val (x :: xs) / B ^ (k + 1) = val xs / B ^ k := by
      rw [pow_succ, Nat.mul_comm, ← Nat.div_div_eq_div_mul, val_cons, Nat.add_mul_div_left _ _ B_pos,
        Nat.div_eq_of_lt hx, Nat.zero_add]
    rw [this, List.getD_cons_succ]; exact val_div_mod xs k hxs

theorem F.trunc_facts {f : F} (h : f.wf) :
    (f.exp ≤ 0 → f.truncNat = 0) ∧
    (f.exp = 1 → f.truncNat = f.d.getD (f.size.natAbs - 1) 0 ∧ 1 ≤ f.truncNat ∧ f.truncNat < B) ∧
    (2 ≤ f.exp → B ≤ f.truncNat) ∧
    (0 < f.exp → f.truncNat % B = mpf_intLimb f) := by
  obtain ⟨u0, u1, u2⟩ := F.wf_bounds h
  have ul := h.1
  have hz := h.2.2.2
  refine ⟨fun he => ?_, fun he => ?_, fun he => ?_, fun he => ?_⟩
  · unfold F.truncNat F.lowExp
    by_cases s0 : f.size = 0
    · rw [u0 s0]; simp
    · rw [if_neg (by omega)]
      apply Nat.div_eq_of_lt
      exact lt_of_lt_of_le u2 (pow_le_pow_B (by omega))
  · have s0 : f.size ≠ 0 := fun e => by have := hz e; omega
    have hne : f.d ≠ [] := by intro e; rw [e] at ul; simp at ul; omega
    obtain ⟨lo, e, b⟩ := val_top_split f.d h.2.1 hne
    have tnz := top_ne_zero hne h.2.2.1
    have tlt := top_lt_B h.2.1 (f.d.length - 1)
    rw [ul] at e b tnz tlt
    have key : f.truncNat = f.d.getD (f.size.natAbs - 1) 0 := by
      unfold F.truncNat F.lowExp
      by_cases n1 : f.size.natAbs = 1
      · rw [if_pos (by omega)]
        rw [n1] at e b ⊢
        simp only [Nat.sub_self, pow_zero, Nat.lt_one_iff] at b
        have : (f.exp - ((1 : Nat) : Int)).toNat = 0 := by omega
        rw [this, pow_zero, Nat.mul_one, e, b]; simp
      · rw [if_neg (by omega)]
        have : (-(f.exp - (f.size.natAbs : Int))).toNat = f.size.natAbs - 1 := by omega
        rw [this, e, Nat.add_mul_div_left _ _ (Bpow_pos _), Nat.div_eq_of_lt b, Nat.zero_add]
    rw [key]; exact ⟨rfl, by omega, tlt⟩
  · have s0 : f.size ≠ 0 := fun e => by have := hz e; omega
    have hu1 := u1 s0
    unfold F.truncNat F.lowExp
    by_cases c : f.exp - (f.size.natAbs : Int) ≥ 0
    · rw [if_pos c]
      calc B = B ^ 1 := (pow_one B).symm
        _ ≤ B ^ ((f.size.natAbs - 1) + (f.exp - (f.size.natAbs : Int)).toNat) := pow_le_pow_B (by omega)
        _ = B ^ (f.size.natAbs - 1) * B ^ (f.exp - (f.size.natAbs : Int)).toNat := by rw [pow_add]
        _ ≤ val f.d * B ^ (f.exp - (f.size.natAbs : Int)).toNat := Nat.mul_le_mul_right _ hu1
    · rw [if_neg c, Nat.le_div_iff_mul_le (Bpow_pos _)]
      calc B * B ^ (-(f.exp - (f.size.natAbs : Int))).toNat = B ^ (1 + (-(f.exp - (f.size.natAbs : Int))).toNat) := by
            rw [pow_add, pow_one]
        _ ≤ B ^ (f.size.natAbs - 1) := pow_le_pow_B (by omega)
        _ ≤ val f.d := hu1
  · unfold F.truncNat F.lowExp mpf_intLimb
    dsimp only
    by_cases c : (f.size.natAbs : Int) ≥ f.exp
    · rw [if_pos c]
      have : val f.d / B ^ ((f.size.natAbs : Int) - f.exp).toNat % B = f.d.getD ((f.size.natAbs : Int) - f.exp).toNat 0 :=
        val_div_mod f.d _ h.2.1
      by_cases c0 : f.exp - (f.size.natAbs : Int) ≥ 0
      · rw [if_pos c0]
        have e0 : (f.exp - (f.size.natAbs : Int)).toNat = 0 := by omega
        have e1 : ((f.size.natAbs : Int) - f.exp).toNat = 0 := by omega
        rw [e1] at this
        rw [e0, e1, pow_zero, Nat.mul_one]
        simpa using this
      · rw [if_neg c0]
        have e1 : (-(f.exp - (f.size.natAbs : Int))).toNat = ((f.size.natAbs : Int) - f.exp).toNat := by omega
        rw [e1]; exact this
    · rw [if_neg c, if_pos (by omega)]
      have : (f.exp - (f.size.natAbs : Int)).toNat = ((f.exp - (f.size.natAbs : Int)).toNat - 1) + 1 := by omega
      rw [this, pow_succ, ← Nat.mul_assoc]; exact Nat.mul_mod_left _ _

end Mpir.Conv
