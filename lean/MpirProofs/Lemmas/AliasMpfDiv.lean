/- mpf_div on the pointer-level mpf model (Mpir/Model/AliasMpf.lean): r = u needs the dividend copied even when it is
   chopped (raw precision), r = v needs the divisor copied, u = v is harmless. -/
import MpirProofs.Lemmas.AliasMpf
namespace Mpir.AliasMem
open Mpir
open Mpir.DivZ (sizeNat siz sameSign)

theorem topLimb_eq_getD {l : List Nat} {k : Nat} (hl : l.length = k + 1) : Mpf.topLimb l = l.getD k 0 := by
  unfold Mpf.topLimb
  rw [List.getLast?_eq_getElem?, hl, Nat.add_sub_cancel, List.getD_eq_getElem?_getD]

theorem setBlk_comm (s : St) {p q : Nat} (hpq : p ≠ q) (x y : Option (List Nat)) :
    (s.setBlk p x).setBlk q y = (s.setBlk q y).setBlk p x := by
  refine St.ext' rfl (fun _ => rfl) ?_ rfl
  intro k
  simp only [St.setBlk]
  by_cases e1 : k = q <;> by_cases e2 : k = p
  · exact absurd (e2.symm.trans e1) hpq
  · subst e1; simp [Ne.symm hpq]
  · subst e2; simp [hpq]
  · simp [e1, e2]

/-- what `quotFinish` builds, in the shape the pointer-level tail produces it -/
theorem quotFinish_eq (prec : Nat) (neg : Bool) (q : Nat) (rexp : Int) (rest : List Nat) (hq : q < B ^ (prec + 1)) :
    (⟨prec, if neg then -((prec + 1 - (if q / B ^ prec % B = 0 then 1 else 0) : Nat) : Int)
        else ((prec + 1 - (if q / B ^ prec % B = 0 then 1 else 0) : Nat) : Int),
      rexp - ((if q / B ^ prec % B = 0 then 1 else 0 : Nat) : Int),
      (toLimbs (prec + 1) q ++ rest).take (prec + 1 - (if q / B ^ prec % B = 0 then 1 else 0))⟩ : Mpf.F) =
      Mpf.quotFinish prec neg q rexp := by
  unfold Mpf.quotFinish
  simp only []
  rw [topLimb_eq_getD (toLimbs_length _ _), toLimbs_getD _ _ _ (by omega)]
  have hlen : ((toLimbs (prec + 1) q).take (prec + 1 - (if q / B ^ prec % B = 0 then 1 else 0))).length
      = prec + 1 - (if q / B ^ prec % B = 0 then 1 else 0) := by
    rw [List.length_take, toLimbs_length]; omega
  rw [hlen, List.take_append_of_le_length (by rw [toLimbs_length]; omega)]

/-- div.c:137-147 -/
theorem divFinish_ok {s : FSt} (h : FInv s) {st0 : St} (i0 : Inv st0) (x0 : Ext s.st st0) {r : Nat} (hr : r < s.st.nv)
    {remp up off tsize vp vn : Nat} {Nl Vl Rm0 : List Nat} (neg : Bool) (rexp : Int) (tmps : List Nat)
    (hN : st0.loadAt up off tsize = .ok Nl) (hV : st0.load vp vn = .ok Vl)
    (hN1 : B ^ (tsize - 1) ≤ val Nl) (hN2 : val Nl < B ^ tsize) (hV1 : B ^ (vn - 1) ≤ val Vl) (hV2 : val Vl < B ^ vn)
    (hVtop : Vl.getD (vn - 1) 0 ≠ 0) (hvn : 1 ≤ vn) (hts : tsize = s.prec r + vn)
    (hrem : st0.blk remp = some Rm0) (hreml : vn ≤ Rm0.length) (hremnv : ∀ i, i < s.st.nv → s.st.ptr i ≠ remp)
    (hremlt : remp < st0.next) (hremfresh : s.st.blk remp = none)
    (h1 : s.st.ptr r ≠ up) (h2 : s.st.ptr r ≠ vp) (h3 : remp ≠ up) (h4 : remp ≠ vp)
    (htmps : ∀ p, p ∈ tmps → ∀ i, i < s.st.nv → s.st.ptr i ≠ p) :
    ∃ s', divFinish s r (s.st.ptr r) remp up off tsize vp vn (s.prec r) neg rexp tmps st0 = .ok s' ∧
      FRes s s' r (Mpf.quotFinish (s.prec r) neg (val Nl / val Vl) rexp) := by
  subst hts
  have hr0 : r < st0.nv := by rw [x0.nv]; exact hr
  obtain ⟨bR, hbR, hbRl, hbRL⟩ := i0.live r hr0
  rw [x0.ptr] at hbR
  rw [x0.alloc] at hbRl
  have hroom := h.room r hr
  obtain ⟨hQlt, hQsz⟩ := quot_size hN1 hN2 hV1 hV2 hvn (by omega)
  simp only [Nat.add_sub_cancel] at hQlt hQsz
  generalize hq : val Nl / val Vl = q at *
  have hrp_rem : s.st.ptr r ≠ remp := hremnv r hr
  unfold divFinish mpn_tdiv_qr_off
  have hc : ¬ (s.st.ptr r = up ∨ s.st.ptr r = vp ∨ remp = up ∨ remp = vp ∨ s.st.ptr r = remp) := by tauto
  have hs : ¬ ¬ (1 ≤ vn ∧ vn ≤ s.prec r + vn) := by omega
  simp only [bind, Except.bind, hc, if_false, hN, hV, hs, hVtop, pure, Except.pure, Nat.add_sub_cancel, hq]
  rw [store_blk hbR (by rw [toLimbs_length]; omega)]
  simp only [toLimbs_length]
  have hb2 : (st0.setBlk (s.st.ptr r) (some (toLimbs (s.prec r + 1) q ++ List.drop (s.prec r + 1) bR))).blk remp = some Rm0 := by
    simp [St.setBlk, Ne.symm hrp_rem, hrem]
  rw [store_blk hb2 (by rw [toLimbs_length]; exact hreml)]
  simp only [toLimbs_length]
  have hb3 : ((st0.setBlk (s.st.ptr r) (some (toLimbs (s.prec r + 1) q ++ List.drop (s.prec r + 1) bR))).setBlk remp
      (some (toLimbs vn (val Nl % val Vl) ++ List.drop vn Rm0))).blk (s.st.ptr r)
      = some (toLimbs (s.prec r + 1) q ++ List.drop (s.prec r + 1) bR) := by
    simp [St.setBlk, hrp_rem]
  rw [limbAt_of_blk hb3 (by rw [List.length_append, toLimbs_length]; omega)]
  simp only []
  rw [getD_append_left (by rw [toLimbs_length]; omega), toLimbs_getD _ _ _ (by omega)]
  refine ⟨_, rfl, ?_⟩
  rw [← quotFinish_eq _ _ _ _ (List.drop (s.prec r + 1) bR) hQlt]
  -- the state in the shape of `fput_spec`
  have i1 : Inv (st0.setBlk remp (some (toLimbs vn (val Nl % val Vl) ++ List.drop vn Rm0))) :=
    (setBlk_nonvar i0 (fun i hi => by rw [x0.ptr]; exact hremnv i (by rw [x0.nv] at hi; exact hi)) hremlt _).1
  have x1 : Ext s.st (st0.setBlk remp (some (toLimbs vn (val Nl % val Vl) ++ List.drop vn Rm0))) := by
    refine ⟨x0.nv, x0.vars, fun p hp => ?_, x0.next⟩
    have hne : p ≠ remp := fun e => hp (by rw [e]; exact hremfresh)
    simp only [St.setBlk, hne, if_false]; exact x0.blk p hp
  have key := fput_spec h i1 x1 hr (toLimbs (s.prec r + 1) q ++ List.drop (s.prec r + 1) bR)
    (s.prec r + 1 - (if q / B ^ s.prec r % B = 0 then 1 else 0)) neg
    (rexp - ((if q / B ^ s.prec r % B = 0 then 1 else 0 : Nat) : Int)) tmps
    (by rw [length_wr' (by omega)]; exact hbRl) (Limbs_wr' (Limbs_toLimbs _ _) hbRL) (by omega)
    (by rw [hQsz, val_take_wr _ (by rw [← hQsz]; omega)]) htmps
  have hst : ((st0.setBlk (s.st.ptr r) (some (toLimbs (s.prec r + 1) q ++ List.drop (s.prec r + 1) bR))).setBlk remp
        (some (toLimbs vn (val Nl % val Vl) ++ List.drop vn Rm0))).setSize r
        (if neg then -((s.prec r + 1 - (if q / B ^ s.prec r % B = 0 then 1 else 0) : Nat) : Int)
          else ((s.prec r + 1 - (if q / B ^ s.prec r % B = 0 then 1 else 0) : Nat) : Int)) =
      (st0.setBlk remp (some (toLimbs vn (val Nl % val Vl) ++ List.drop vn Rm0))).put r
        (toLimbs (s.prec r + 1) q ++ List.drop (s.prec r + 1) bR)
        (if neg then -((s.prec r + 1 - (if q / B ^ s.prec r % B = 0 then 1 else 0) : Nat) : Int)
          else ((s.prec r + 1 - (if q / B ^ s.prec r % B = 0 then 1 else 0) : Nat) : Int)) := by
    rw [setBlk_comm _ hrp_rem]
    unfold St.put
    rw [show (st0.setBlk remp (some (toLimbs vn (val Nl % val Vl) ++ List.drop vn Rm0))).ptr r = s.st.ptr r from x0.ptr r]
  rw [← hst] at key
  exact key

/-- div.c:121-128 -/
theorem divPrepU_ok {st : St} (i : Inv st) {u : Nat} (hu : u < st.nv) (c : Bool) (chop zeros : Nat)
    (hchop : chop ≤ (st.size u).natAbs) (hz : c = false → zeros = 0) :
    ∃ up off tmps st', divPrepU c (st.ptr u) chop ((st.size u).natAbs - chop) zeros st =
        .ok (up, off, (st.size u).natAbs - chop + zeros, tmps, st') ∧ Inv st' ∧ Ext st st' ∧
      st'.loadAt up off ((st.size u).natAbs - chop + zeros) = .ok (List.replicate zeros 0 ++ (st.limbs u).drop chop) ∧
      (c = true → up = st.next ∧ tmps = [st.next] ∧ st'.next = st.next + 1) ∧
      (c = false → up = st.ptr u ∧ tmps = [] ∧ st' = st) := by
  have hl := loadAt_var_off i hu chop hchop
  have hlen : ((st.limbs u).drop chop).length = (st.size u).natAbs - chop := by
    rw [List.length_drop, (i.limbs_spec hu).1]
  cases c
  · have hz0 := hz rfl
    subst hz0
    refine ⟨st.ptr u, chop, [], st, by simp [divPrepU, pure, Except.pure], i, Ext.refl st, ?_, by simp, by simp⟩
    simpa using hl
  · refine ⟨st.next, 0, [st.next], (st.malloc (List.replicate zeros 0 ++ (st.limbs u).drop chop)).2, ?_, malloc_inv i _,
      malloc_ext i _, ?_, by simp [St.malloc], by simp⟩
    · simp [divPrepU, bind, Except.bind, hl, pure, Except.pure, St.malloc]
    · rw [loadAt_ok (malloc_blk_new st _) (by simp [hlen]; omega)]
      simp only [List.drop_zero]
      rw [List.take_of_length_le (by simp [hlen]; omega)]

/-- div.c:130-135 -/
theorem divPrepV_ok {st : St} (i : Inv st) (c : Bool) {p n : Nat} {l : List Nat} (hl : st.load p n = .ok l) :
    ∃ p' tmps st', divPrepV c p n st = .ok (p', tmps, st') ∧ Inv st' ∧ Ext st st' ∧ st'.load p' n = .ok l ∧
      (c = true → p' = st.next ∧ tmps = [st.next] ∧ st'.next = st.next + 1) ∧ (c = false → p' = p ∧ tmps = [] ∧ st' = st) := by
  cases c
  · exact ⟨p, [], st, by simp [divPrepV, pure, Except.pure], i, Ext.refl st, hl, by simp, by simp⟩
  · refine ⟨st.next, [st.next], (st.malloc l).2, ?_, malloc_inv i l, malloc_ext i l, ?_, by simp [St.malloc], by simp⟩
    · simp [divPrepV, St.tmpCopy, bind, Except.bind, hl, pure, Except.pure, St.malloc]
    · have := load_of_blk (malloc_blk_new st l)
      rwa [load_length hl] at this

theorem neg_eq (a b : Int) : (!decide (sameSign a b)) = ((decide (a < 0)) != (decide (b < 0))) := by
  unfold sameSign
  by_cases ha : a < 0 <;> by_cases hb : b < 0 <;> simp [ha, hb]

theorem Ext.loadAt {s s' : St} (h : Ext s s') {p off n : Nat} {l : List Nat} (hl : s.loadAt p off n = .ok l) :
    s'.loadAt p off n = .ok l := by
  unfold St.loadAt at *
  cases hb : s.blk p with
  | none => rw [hb] at hl; simp at hl
  | some b => rw [h.blk p (by rw [hb]; simp), hb]; rw [hb] at hl; exact hl

/-- the bit-exact model's answer, with the quantities named as in div.c -/
theorem mpf_div_value {s : FSt} (h : FInv s) {u v : Nat} (hu : u < s.st.nv) (hv : v < s.st.nv) (prec : Nat)
    (hv0 : s.st.size v ≠ 0) (hu0 : s.st.size u ≠ 0) :
    Mpf.div prec (s.F u) (s.F v) =
      .ok (Mpf.quotFinish prec (!decide (sameSign (s.st.size u) (s.st.size v)))
        (val ((s.st.limbs u).drop (max (-(((prec + 1 : Nat) : Int) - (((s.st.size u).natAbs : Int) - ((s.st.size v).natAbs : Int) + 1))) 0).toNat) *
          B ^ ((((prec + 1 : Nat) : Int) - (((s.st.size u).natAbs : Int) - ((s.st.size v).natAbs : Int) + 1)) +
            ((max (-(((prec + 1 : Nat) : Int) - (((s.st.size u).natAbs : Int) - ((s.st.size v).natAbs : Int) + 1))) 0).toNat : Int)).toNat
          / val (s.st.limbs v))
        (s.exp u - s.exp v + 1)) := by
  unfold Mpf.div
  have e1 : (s.F v).size ≠ 0 := hv0
  have e2 : (s.F u).size ≠ 0 := hu0
  rw [if_neg e1, if_neg e2]
  simp only [FSt.F, (h.inv.limbs_spec hu).1, (h.inv.limbs_spec hv).1, neg_eq]
  rfl

/-- mpf_div, every choice of r, u, v -/
theorem mpf_div_ok {s : FSt} (h : FInv s) {r u v : Nat} (hr : r < s.st.nv) (hu : u < s.st.nv) (hv : v < s.st.nv)
    (hv0 : s.st.size v ≠ 0) :
    ∃ s' f, mpf_div r u v s = .ok s' ∧ Mpf.div (s.prec r) (s.F u) (s.F v) = .ok f ∧ FRes s s' r f := by
  unfold mpf_div mpf_divV
  simp only [FVariant.c, bind, Except.bind, pure, Except.pure, true_and]
  have hvn : ¬ (s.st.size v).natAbs = 0 := by omega
  rw [if_neg hvn]
  by_cases hz : (s.st.size u).natAbs = 0
  · rw [if_pos hz]
    refine ⟨_, Mpf.zero (s.prec r), rfl, ?_, setSE_zero_spec h hr⟩
    unfold Mpf.div
    have e1 : (s.F v).size ≠ 0 := hv0
    have e2 : (s.F u).size = 0 := by show s.st.size u = 0; omega
    rw [if_neg e1, if_pos e2]
  · rw [if_neg hz]
    have hu0 : s.st.size u ≠ 0 := by omega
    have hdiv := mpf_div_value h hu hv (s.prec r) hv0 hu0
    have hun : 1 ≤ (s.st.size u).natAbs := by omega
    have hvn1 : 1 ≤ (s.st.size v).natAbs := by omega
    generalize hzI : (((s.prec r + 1 : Nat) : Int) - (((s.st.size u).natAbs : Int) - ((s.st.size v).natAbs : Int) + 1)) = zI at *
    generalize hchop : (max (-zI) 0).toNat = chop at *
    generalize hzeros : (zI + (chop : Int)).toNat = zeros at *
    obtain ⟨a1, a2, a3, a4⟩ : chop ≤ (s.st.size u).natAbs ∧ (s.st.size u).natAbs - chop + zeros = s.prec r + (s.st.size v).natAbs ∧
        (¬ zI > 0 → zeros = 0) ∧ 1 ≤ (s.st.size u).natAbs - chop := by omega
    -- remp
    have i1 : Inv (s.st.tmpAlloc (s.st.size v).natAbs).2 := malloc_inv h.inv _
    have x1 : Ext s.st (s.st.tmpAlloc (s.st.size v).natAbs).2 := malloc_ext h.inv _
    have hb1 : (s.st.tmpAlloc (s.st.size v).natAbs).2.blk s.st.next = some (List.replicate (s.st.size v).natAbs junk) := malloc_blk_new _ _
    have hremp : (s.st.tmpAlloc (s.st.size v).natAbs).1 = s.st.next := rfl
    have nx1 : (s.st.tmpAlloc (s.st.size v).natAbs).2.next = s.st.next + 1 := rfl
    rw [hremp]
    generalize (s.st.tmpAlloc (s.st.size v).natAbs).2 = st1 at *
    have hu1 : u < st1.nv := by rw [x1.nv]; exact hu
    -- u
    generalize hcu : decide (zI > 0 ∨ s.st.ptr r = s.st.ptr u) = cu
    obtain ⟨up, off, t1, st2, e2, i2, x2, hN, hct, hcf⟩ := divPrepU_ok i1 hu1 cu chop zeros (by rw [x1.size]; exact a1)
      (fun e => a3 (fun hp => by rw [e] at hcu; simp at hcu; omega))
    rw [x1.size, x1.ptr] at e2
    rw [e2]; simp only []
    -- v
    have hlv : st2.load (s.st.ptr v) (s.st.size v).natAbs = .ok (s.st.limbs v) := (x1.trans x2).load (h.inv.load_var hv)
    generalize hcv : decide (s.st.ptr r = s.st.ptr v) = cv
    obtain ⟨vp, t2, st3, e3, i3, x3, hV, hvt, hvf⟩ := divPrepV_ok i2 cv hlv
    rw [e3]; simp only []
    have x03 : Ext s.st st3 := (x1.trans x2).trans x3
    have hlu : st1.limbs u = s.st.limbs u := by
      obtain ⟨l, hl, _⟩ := h.inv.live u hu
      exact limbs_congr (x1.vars u) (x1.blk _ (by rw [hl]; simp))
    rw [x1.size, hlu] at hN
    have hUL := (h.inv.limbs_spec hu)
    have hVL := (h.inv.limbs_spec hv)
    have hvalU : val ((s.st.limbs u).drop chop) = s.st.mag u / B ^ chop := val_drop hUL.2 chop (by rw [hUL.1]; exact a1)
    have hUlt : val ((s.st.limbs u).drop chop) < B ^ ((s.st.size u).natAbs - chop) := by
      have := val_lt _ (Limbs_drop hUL.2 chop); rwa [List.length_drop, hUL.1] at this
    have hUge : B ^ ((s.st.size u).natAbs - chop - 1) ≤ val ((s.st.limbs u).drop chop) := by
      rw [hvalU, Nat.le_div_iff_mul_le (Nat.pow_pos B_pos), ← pow_add]
      have := h.inv.mag_ge hu hu0
      rwa [show (s.st.size u).natAbs - chop - 1 + chop = (s.st.size u).natAbs - 1 by omega]
    have hnext2 : st1.next ≤ st2.next := x2.next
    have hnext3 : st2.next ≤ st3.next := x3.next
    have hlt : ∀ i, i < s.st.nv → s.st.ptr i < s.st.next := h.inv.lt
    obtain ⟨s', hs', hres⟩ := divFinish_ok h i3 x03 hr (remp := s.st.next) (up := up) (off := off)
      (tsize := (s.st.size u).natAbs - chop + zeros) (vp := vp) (vn := (s.st.size v).natAbs)
      (!decide (sameSign (s.st.size u) (s.st.size v))) (s.exp u - s.exp v + 1) (s.st.next :: t1 ++ t2)
      (Ext.loadAt x3 hN) hV
      (by rw [val_zeros_append, show (s.st.size u).natAbs - chop + zeros - 1 = zeros + ((s.st.size u).natAbs - chop - 1) by omega, pow_add]
          exact Nat.mul_le_mul_left _ hUge)
      (by rw [val_zeros_append, Nat.add_comm, pow_add]; exact Nat.mul_lt_mul_of_pos_left hUlt (Nat.pow_pos B_pos))
      (h.inv.mag_ge hv hv0) (h.inv.mag_lt hv) (h.inv.top_ne_zero hv hv0) hvn1 a2
      (x3.blk _ (by rw [x2.blk _ (by rw [hb1]; simp), hb1]; simp) |>.trans (x2.blk _ (by rw [hb1]; simp) |>.trans hb1))
      (by simp) (fun i hi => Nat.ne_of_lt (hlt i hi)) (by omega) (h.inv.fresh _ (Nat.le_refl _))
      (by
        cases cu
        · rw [(hcf rfl).1, x1.ptr]; intro e; rw [← hcu] at *; simp_all
        · rw [(hct rfl).1]; have := hlt r hr; omega)
      (by
        cases cv
        · rw [(hvf rfl).1]; intro e; rw [← hcv] at *; simp_all
        · rw [(hvt rfl).1]; have := hlt r hr; omega)
      (by
        cases cu
        · rw [(hcf rfl).1, x1.ptr]; have := hlt u hu; omega
        · rw [(hct rfl).1]; omega)
      (by
        cases cv
        · rw [(hvf rfl).1]; have := hlt v hv; omega
        · rw [(hvt rfl).1]; omega)
      (fun p hp i hi => by
        have hge : s.st.next ≤ p := by
          simp only [List.cons_append, List.mem_cons, List.mem_append] at hp
          rcases hp with e | e | e
          · omega
          · cases cu
            · rw [(hcf rfl).2.1] at e; simp at e
            · rw [(hct rfl).2.1] at e; simp at e; omega
          · cases cv
            · rw [(hvf rfl).2.1] at e; simp at e
            · rw [(hvt rfl).2.1] at e; simp at e; omega
        have := hlt i hi; omega)
    refine ⟨s', _, hs', hdiv, ?_⟩
    rw [val_zeros_append, Nat.mul_comm] at hres
    exact hres

end Mpir.AliasMem
