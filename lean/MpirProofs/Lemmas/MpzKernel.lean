/-
  KERNEL FACTS TO BE REPLACED BY THE C03 / C01 KERNEL THEOREMS.

  The mpz object-layer proofs (Lemmas/Mpz.lean, Props/C03_mpz.lean, Props/C01_mpz.lean) need the value
  specification of every mpn kernel model they call.  Only `addNC_val` existed in Lemmas/Kernels.lean
  when this was written, so the others are proved here, in the namespace `Mpir.Mpz.K` (no clash with the
  kernel engineer's names).  Once `sub_n_val`, `add_val`, `sub_val`, `add_1_val`, `sub_1_val`, `cmp_iff`,
  `lshift_val`, `com_val`, `mul_1_val`, `addmul_1_val`, `submul_1_val`, `mul_basecase_val` exist in
  Props/C03.lean / C01.lean, each lemma below can be replaced by a one-line appeal to it.
-/
import MpirProofs.Lemmas.Kernels
import Mathlib.Tactic.NormNum
namespace Mpir.Mpz.K
open Mpir

/-! ### sub_n -/

theorem sub_limb (u v cy : Nat) (hu : u < B) (hv : v < B) (hc : cy ≤ 1) :
    ((u + B - v) % B + B - cy) % B + v + cy
      = u + B * (boolToNat (decide ((u + B - v) % B > u)) |||
                 boolToNat (decide (((u + B - v) % B + B - cy) % B > (u + B - v) % B))) ∧
    (boolToNat (decide ((u + B - v) % B > u)) |||
      boolToNat (decide (((u + B - v) % B + B - cy) % B > (u + B - v) % B))) ≤ 1 ∧
    ((u + B - v) % B + B - cy) % B < B := by
  rw [lor_bool]
  simp only [B_eq] at *
  split <;> omega

theorem subNC_cons (u v cy : Nat) (us vs : List Nat) :
    subNC (u :: us) (v :: vs) cy =
      (((u + B - v) % B + B - cy) % B ::
        (subNC us vs (boolToNat (decide ((u + B - v) % B > u)) |||
          boolToNat (decide (((u + B - v) % B + B - cy) % B > (u + B - v) % B)))).1,
       (subNC us vs (boolToNat (decide ((u + B - v) % B > u)) |||
          boolToNat (decide (((u + B - v) % B + B - cy) % B > (u + B - v) % B)))).2) := rfl

theorem subNC_val : ∀ (u v : List Nat) (cy : Nat), Limbs u → Limbs v → u.length = v.length → cy ≤ 1 →
    val (subNC u v cy).1 + val v + cy = val u + B ^ u.length * (subNC u v cy).2 ∧
    (subNC u v cy).2 ≤ 1 ∧ Limbs (subNC u v cy).1 ∧ (subNC u v cy).1.length = u.length
  | [], [], cy, _, _, _, hc => by simp [subNC, hc, Limbs_nil]
  | [], _ :: _, _, _, _, h, _ => by simp at h
  | _ :: _, [], _, _, _, h, _ => by simp at h
  | u :: us, v :: vs, cy, hu, hv, hl, hc => by
    have ⟨hu0, hus⟩ := Limbs_cons.mp hu
    have ⟨hv0, hvs⟩ := Limbs_cons.mp hv
    have ⟨e, c1, r1⟩ := sub_limb u v cy hu0 hv0 hc
    have ih := subNC_val us vs _ hus hvs (by simpa using hl) c1
    obtain ⟨ihv, ihc, ihl, ihn⟩ := ih
    rw [subNC_cons]
    simp only [val_cons, List.length_cons, pow_succ]
    refine ⟨?_, ihc, Limbs_cons.mpr ⟨r1, ihl⟩, by rw [ihn]⟩
    generalize (boolToNat (decide ((u + B - v) % B > u)) |||
      boolToNat (decide (((u + B - v) % B + B - cy) % B > (u + B - v) % B))) = c at *
    generalize ((u + B - v) % B + B - cy) % B = rl at *
    generalize (subNC us vs c) = res at *
    generalize B ^ us.length = P at *
    nlinarith [ihv, e]

/-- mpn_sub_n: `r + v = u + B^n·borrow`. -/
theorem sub_n_val (u v : List Nat) (hu : Limbs u) (hv : Limbs v) (hl : u.length = v.length) :
    val (sub_n u v).1 + val v = val u + B ^ u.length * (sub_n u v).2 ∧
    (sub_n u v).2 ≤ 1 ∧ Limbs (sub_n u v).1 ∧ (sub_n u v).1.length = u.length := by
  simpa [sub_n] using subNC_val u v 0 hu hv hl (by omega)

theorem add_n_val (u v : List Nat) (hu : Limbs u) (hv : Limbs v) (hl : u.length = v.length) :
    val (add_n u v).1 + B ^ u.length * (add_n u v).2 = val u + val v ∧
    (add_n u v).2 ≤ 1 ∧ Limbs (add_n u v).1 ∧ (add_n u v).1.length = u.length := by
  simpa [add_n] using addNC_val u v 0 hu hv hl (by omega)

/-! ### incr / decr / add_1 / sub_1 -/

theorem incr_val : ∀ (u : List Nat), Limbs u →
    val (incr u).1 + B ^ u.length * (incr u).2 = val u + 1 ∧ (incr u).2 ≤ 1 ∧
    Limbs (incr u).1 ∧ (incr u).1.length = u.length
  | [], _ => by simp [incr, Limbs_nil]
  | x :: xs, h => by
    have ⟨hx, hxs⟩ := Limbs_cons.mp h
    obtain ⟨iv, ic, il, in_⟩ := incr_val xs hxs
    have hr : (x + 1) % B < B := Nat.mod_lt _ B_pos
    unfold incr
    by_cases hc : (x + 1) % B < 1
    · simp only [hc, if_true, val_cons, List.length_cons, pow_succ]
      refine ⟨?_, ic, Limbs_cons.mpr ⟨hr, il⟩, by rw [in_]⟩
      have : x + 1 = B := by simp only [B_eq] at *; omega
      have h0 : (x + 1) % B = 0 := by omega
      generalize incr xs = res at *
      rw [h0]; nlinarith [iv]
    · simp only [hc, if_false, val_cons, List.length_cons, pow_succ]
      refine ⟨?_, by omega, Limbs_cons.mpr ⟨hr, hxs⟩, trivial⟩
      have : (x + 1) % B = x + 1 := by simp only [B_eq] at *; omega
      rw [this]; ring

theorem decr_val : ∀ (u : List Nat), Limbs u →
    val (decr u).1 + 1 = val u + B ^ u.length * (decr u).2 ∧ (decr u).2 ≤ 1 ∧
    Limbs (decr u).1 ∧ (decr u).1.length = u.length
  | [], _ => by simp [decr, Limbs_nil]
  | x :: xs, h => by
    have ⟨hx, hxs⟩ := Limbs_cons.mp h
    obtain ⟨iv, ic, il, in_⟩ := decr_val xs hxs
    have hr : (x + B - 1) % B < B := Nat.mod_lt _ B_pos
    unfold decr
    by_cases hc : x < 1
    · simp only [hc, if_true, val_cons, List.length_cons, pow_succ]
      refine ⟨?_, ic, Limbs_cons.mpr ⟨hr, il⟩, by rw [in_]⟩
      have hx0 : x = 0 := by omega
      have h0 : (x + B - 1) % B = B - 1 := by simp only [B_eq] at *; omega
      generalize decr xs = res at *
      rw [h0, hx0]
      have := B_pos
      have hB : B - 1 + 1 = B := by omega
      nlinarith [iv]
    · simp only [hc, if_false, val_cons, List.length_cons, pow_succ]
      refine ⟨?_, by omega, Limbs_cons.mpr ⟨hr, hxs⟩, trivial⟩
      have : (x + B - 1) % B = x - 1 := by simp only [B_eq] at *; omega
      rw [this]; omega

/-- mpn_add_1 (n ≥ 1). -/
theorem add_1_val (u : List Nat) (v : Nat) (hu : Limbs u) (hv : v < B) (hne : u ≠ []) :
    val (add_1 u v).1 + B ^ u.length * (add_1 u v).2 = val u + v ∧ (add_1 u v).2 ≤ 1 ∧
    Limbs (add_1 u v).1 ∧ (add_1 u v).1.length = u.length := by
  match u, hne with
  | x :: xs, _ =>
    have ⟨hx, hxs⟩ := Limbs_cons.mp hu
    obtain ⟨iv, ic, il, in_⟩ := incr_val xs hxs
    have hr : (x + v) % B < B := Nat.mod_lt _ B_pos
    unfold add_1
    by_cases hc : (x + v) % B < v
    · simp only [hc, if_true, val_cons, List.length_cons, pow_succ]
      refine ⟨?_, ic, Limbs_cons.mpr ⟨hr, il⟩, by rw [in_]⟩
      have : (x + v) % B + B = x + v := by simp only [B_eq] at *; omega
      generalize incr xs = res at *
      generalize (x + v) % B = r at *
      nlinarith [iv]
    · simp only [hc, if_false, val_cons, List.length_cons, pow_succ]
      refine ⟨?_, by omega, Limbs_cons.mpr ⟨hr, hxs⟩, trivial⟩
      have : (x + v) % B = x + v := by simp only [B_eq] at *; omega
      rw [this]; ring

/-- mpn_sub_1 (n ≥ 1): `r + v = u + B^n·borrow`. -/
theorem sub_1_val (u : List Nat) (v : Nat) (hu : Limbs u) (hv : v < B) (hne : u ≠ []) :
    val (sub_1 u v).1 + v = val u + B ^ u.length * (sub_1 u v).2 ∧ (sub_1 u v).2 ≤ 1 ∧
    Limbs (sub_1 u v).1 ∧ (sub_1 u v).1.length = u.length := by
  match u, hne with
  | x :: xs, _ =>
    have ⟨hx, hxs⟩ := Limbs_cons.mp hu
    obtain ⟨iv, ic, il, in_⟩ := decr_val xs hxs
    have hr : (x + B - v) % B < B := Nat.mod_lt _ B_pos
    unfold sub_1
    by_cases hc : x < v
    · simp only [hc, if_true, val_cons, List.length_cons, pow_succ]
      refine ⟨?_, ic, Limbs_cons.mpr ⟨hr, il⟩, by rw [in_]⟩
      have : (x + B - v) % B + v = x + B := by simp only [B_eq] at *; omega
      generalize decr xs = res at *
      generalize (x + B - v) % B = r at *
      nlinarith [iv]
    · simp only [hc, if_false, val_cons, List.length_cons, pow_succ]
      refine ⟨?_, by omega, Limbs_cons.mpr ⟨hr, hxs⟩, trivial⟩
      have : (x + B - v) % B + v = x := by simp only [B_eq] at *; omega
      omega

/-! ### add / sub (unequal lengths) -/

/-- mpn_add (xsize ≥ ysize). -/
theorem add_val (x y : List Nat) (hx : Limbs x) (hy : Limbs y) (hl : y.length ≤ x.length) :
    val (add x y).1 + B ^ x.length * (add x y).2 = val x + val y ∧ (add x y).2 ≤ 1 ∧
    Limbs (add x y).1 ∧ (add x y).1.length = x.length := by
  have htl : (x.take y.length).length = y.length := by simp [hl]
  obtain ⟨av, ac, al, an⟩ := add_n_val (x.take y.length) y (Limbs_take hx _) hy htl
  obtain ⟨iv, ic, il, in_⟩ := incr_val (x.drop y.length) (Limbs_drop hx _)
  have hsplit := val_take_drop x y.length hl
  have hdl : (x.drop y.length).length = x.length - y.length := by simp
  have hpow : B ^ x.length = B ^ y.length * B ^ (x.length - y.length) := by
    rw [← pow_add]; congr 1; omega
  rw [htl] at av an
  unfold add
  by_cases hc : (add_n (x.take y.length) y).2 = 0
  · simp only [hc, bne_self_eq_false, Bool.false_eq_true, if_false]
    refine ⟨?_, by omega, Limbs_append.mpr ⟨al, Limbs_drop hx _⟩, by simp [an, hl]⟩
    rw [val_append, an]; rw [hc] at av; nlinarith [av, hsplit]
  · have h1 : (add_n (x.take y.length) y).2 = 1 := by omega
    simp only [h1]
    simp only [show ((1 : Nat) != 0) = true from rfl, if_true]
    refine ⟨?_, ic, Limbs_append.mpr ⟨al, il⟩, by simp [an, in_, hl]⟩
    rw [val_append, an, hpow]; rw [h1] at av; rw [hdl] at iv
    generalize incr (List.drop y.length x) = res at *
    generalize B ^ (x.length - y.length) = P at *
    generalize B ^ y.length = Q at *
    nlinarith [av, iv, hsplit]

/-- mpn_sub (xsize ≥ ysize): `r + y = x + B^n·borrow`. -/
theorem sub_val (x y : List Nat) (hx : Limbs x) (hy : Limbs y) (hl : y.length ≤ x.length) :
    val (sub x y).1 + val y = val x + B ^ x.length * (sub x y).2 ∧ (sub x y).2 ≤ 1 ∧
    Limbs (sub x y).1 ∧ (sub x y).1.length = x.length := by
  have htl : (x.take y.length).length = y.length := by simp [hl]
  obtain ⟨av, ac, al, an⟩ := sub_n_val (x.take y.length) y (Limbs_take hx _) hy htl
  obtain ⟨iv, ic, il, in_⟩ := decr_val (x.drop y.length) (Limbs_drop hx _)
  have hsplit := val_take_drop x y.length hl
  have hdl : (x.drop y.length).length = x.length - y.length := by simp
  have hpow : B ^ x.length = B ^ y.length * B ^ (x.length - y.length) := by
    rw [← pow_add]; congr 1; omega
  rw [htl] at av an
  unfold sub
  by_cases hc : (sub_n (x.take y.length) y).2 = 0
  · simp only [hc, bne_self_eq_false, Bool.false_eq_true, if_false]
    refine ⟨?_, by omega, Limbs_append.mpr ⟨al, Limbs_drop hx _⟩, by simp [an, hl]⟩
    rw [val_append, an]; rw [hc] at av; nlinarith [av, hsplit]
  · have h1 : (sub_n (x.take y.length) y).2 = 1 := by omega
    simp only [h1]
    simp only [show ((1 : Nat) != 0) = true from rfl, if_true]
    refine ⟨?_, ic, Limbs_append.mpr ⟨al, il⟩, by simp [an, in_, hl]⟩
    rw [val_append, an, hpow]; rw [h1] at av; rw [hdl] at iv
    generalize decr (List.drop y.length x) = res at *
    generalize B ^ (x.length - y.length) = P at *
    generalize B ^ y.length = Q at *
    nlinarith [av, iv, hsplit]

/-! ### cmp -/

theorem cmpRev_spec : ∀ (xs ys : List Nat), Limbs xs → Limbs ys → xs.length = ys.length →
    (cmpRev xs ys < 0 ↔ val xs.reverse < val ys.reverse) ∧
    (cmpRev xs ys = 0 ↔ val xs.reverse = val ys.reverse)
  | [], [], _, _, _ => by simp [cmpRev]
  | [], _ :: _, _, _, h => by simp at h
  | _ :: _, [], _, _, h => by simp at h
  | x :: xs, y :: ys, hx, hy, hl => by
    have ⟨hx0, hxs⟩ := Limbs_cons.mp hx
    have ⟨hy0, hys⟩ := Limbs_cons.mp hy
    have hl' : xs.length = ys.length := by simpa using hl
    obtain ⟨ih1, ih2⟩ := cmpRev_spec xs ys hxs hys hl'
    have bx := val_lt xs.reverse (fun a ha => hxs a (List.mem_reverse.mp ha))
    have by_ := val_lt ys.reverse (fun a ha => hys a (List.mem_reverse.mp ha))
    simp only [List.length_reverse] at bx by_
    rw [← hl'] at by_
    simp only [List.reverse_cons, val_append, List.length_reverse, val_cons, val_nil, ← hl']
    generalize B ^ xs.length = P at *
    generalize val xs.reverse = a at *
    generalize val ys.reverse = b at *
    unfold cmpRev
    by_cases hne : x = y
    · subst hne
      simp only [ne_eq, not_true_eq_false, if_false]
      constructor
      · rw [ih1]; constructor <;> intro h <;> nlinarith
      · rw [ih2]; constructor <;> intro h <;> nlinarith
    · simp only [ne_eq, hne, not_false_eq_true, if_true]
      by_cases hgt : x > y
      · simp only [hgt, if_true]
        have : P * (y + 1) ≤ P * x := Nat.mul_le_mul_left _ hgt
        constructor
        · constructor
          · intro h; omega
          · intro h; nlinarith
        · constructor
          · intro h; omega
          · intro h; nlinarith
      · simp only [hgt, if_false]
        have hlt : x + 1 ≤ y := by omega
        have : P * (x + 1) ≤ P * y := Nat.mul_le_mul_left _ hlt
        constructor
        · constructor
          · intro _; nlinarith
          · intro _; omega
        · constructor
          · intro h; omega
          · intro h; nlinarith

/-- mpn_cmp on equal-length operands. -/
theorem cmp_lt_iff (u v : List Nat) (hu : Limbs u) (hv : Limbs v) (hl : u.length = v.length) :
    cmp u v < 0 ↔ val u < val v := by
  have := (cmpRev_spec u.reverse v.reverse (fun a ha => hu a (List.mem_reverse.mp ha))
    (fun a ha => hv a (List.mem_reverse.mp ha)) (by simpa using hl)).1
  simpa [cmp] using this

/-! ### com_n -/

/-- mpn_com_n / mpn_not: `~u + u = B^n - 1`. -/
theorem com_n_val : ∀ (u : List Nat), Limbs u →
    val (com_n u) + val u + 1 = B ^ u.length ∧ Limbs (com_n u) ∧ (com_n u).length = u.length
  | [], _ => by simp [com_n, Limbs_nil]
  | x :: xs, h => by
    have ⟨hx, hxs⟩ := Limbs_cons.mp h
    obtain ⟨iv, il, in_⟩ := com_n_val xs hxs
    have e : com_n (x :: xs) = (B - 1 - x) :: com_n xs := rfl
    rw [e]
    simp only [val_cons, List.length_cons, pow_succ]
    refine ⟨?_, Limbs_cons.mpr ⟨by omega, il⟩, by rw [in_]⟩
    have : B - 1 - x + x + 1 = B := by omega
    nlinarith [iv]

/-! ### lshift -/

theorem lshift_limb (x cnt lowIn : Nat) (hx : x < B) (h1 : 1 ≤ cnt) (h2 : cnt ≤ 63)
    (hl : lowIn < 2 ^ cnt) :
    ((x <<< cnt) % B ||| lowIn) + B * (x >>> (64 - cnt)) = x * 2 ^ cnt + lowIn ∧
    ((x <<< cnt) % B ||| lowIn) < B ∧ x >>> (64 - cnt) < 2 ^ cnt := by
  have hB : B = 2 ^ (64 - cnt) * 2 ^ cnt := by rw [← pow_add]; unfold B; congr 1; omega
  have e1 : (x <<< cnt) % B = (x % 2 ^ (64 - cnt)) <<< cnt := by
    rw [Nat.shiftLeft_eq, Nat.shiftLeft_eq, hB, Nat.mul_mod_mul_right]
  rw [e1, ← Nat.shiftLeft_add_eq_or_of_lt hl, Nat.shiftLeft_eq, Nat.shiftRight_eq_div_pow]
  rw [hB] at hx
  rw [hB]
  generalize 2 ^ (64 - cnt) = m at *
  generalize 2 ^ cnt = k at *
  have hm : 0 < m := by
    rcases Nat.eq_zero_or_pos m with h | h
    · subst h; simp at hx
    · exact h
  have hlt : x % m < m := Nat.mod_lt _ hm
  have hq : x / m < k := by
    rw [Nat.div_lt_iff_lt_mul hm]; rw [Nat.mul_comm] at hx; exact hx
  have hx' : x * k = (m * (x / m) + x % m) * k := by rw [Nat.div_add_mod]
  have h3 := Nat.mul_le_mul_right k (Nat.succ_le_of_lt hlt)
  refine ⟨?_, ?_, hq⟩
  · rw [hx']; ring
  · nlinarith

theorem lshiftGo_cons (cnt x lowIn : Nat) (xs : List Nat) :
    lshiftGo cnt (x :: xs) lowIn =
      (((x <<< cnt) % B ||| lowIn) :: (lshiftGo cnt xs (x >>> (64 - cnt))).1,
       (lshiftGo cnt xs (x >>> (64 - cnt))).2) := rfl

theorem lshiftGo_val (cnt : Nat) (h1 : 1 ≤ cnt) (h2 : cnt ≤ 63) :
    ∀ (u : List Nat) (lowIn : Nat), Limbs u → lowIn < 2 ^ cnt →
    val (lshiftGo cnt u lowIn).1 + B ^ u.length * (lshiftGo cnt u lowIn).2 = val u * 2 ^ cnt + lowIn ∧
    (lshiftGo cnt u lowIn).2 < 2 ^ cnt ∧ Limbs (lshiftGo cnt u lowIn).1 ∧
    (lshiftGo cnt u lowIn).1.length = u.length
  | [], lowIn, _, hl => by simp [lshiftGo, hl, Limbs_nil]
  | x :: xs, lowIn, hu, hl => by
    have ⟨hx, hxs⟩ := Limbs_cons.mp hu
    obtain ⟨e, r1, o1⟩ := lshift_limb x cnt lowIn hx h1 h2 hl
    obtain ⟨iv, ic, il, in_⟩ := lshiftGo_val cnt h1 h2 xs _ hxs o1
    rw [lshiftGo_cons]
    simp only [val_cons, List.length_cons, pow_succ]
    refine ⟨?_, ic, Limbs_cons.mpr ⟨r1, il⟩, by rw [in_]⟩
    generalize ((x <<< cnt) % B ||| lowIn) = cur at *
    generalize (x >>> (64 - cnt)) = out at *
    generalize lshiftGo cnt xs out = res at *
    generalize B ^ xs.length = P at *
    generalize 2 ^ cnt = k at *
    nlinarith [iv, e]

/-- mpn_lshift, 1 ≤ cnt ≤ 63: `r + B^n·ret = u·2^cnt`, the returned limb is `< 2^cnt`. -/
theorem lshift_val (u : List Nat) (cnt : Nat) (hu : Limbs u) (h1 : 1 ≤ cnt) (h2 : cnt ≤ 63) :
    val (lshift u cnt).1 + B ^ u.length * (lshift u cnt).2 = val u * 2 ^ cnt ∧
    (lshift u cnt).2 < 2 ^ cnt ∧ Limbs (lshift u cnt).1 ∧ (lshift u cnt).1.length = u.length := by
  simpa [lshift] using lshiftGo_val cnt h1 h2 u 0 hu (by positivity)

/-! ### mul_1 / addmul_1 / submul_1 -/

theorem boolToNat_decide (p : Prop) [Decidable p] : boolToNat (decide p) = if p then 1 else 0 := by
  by_cases h : p <;> simp [boolToNat, h]

theorem mul_le_limb {u v : Nat} (hu : u < B) (hv : v < B) :
    u * v ≤ 340282366920938463426481119284349108225 := by
  have h1 : u ≤ 18446744073709551615 := by simp only [B_eq] at hu; omega
  have h2 : v ≤ 18446744073709551615 := by simp only [B_eq] at hv; omega
  calc u * v ≤ 18446744073709551615 * 18446744073709551615 := Nat.mul_le_mul h1 h2
    _ = _ := by norm_num

theorem mul_limb (p cl : Nat) (hp : p ≤ 340282366920938463426481119284349108225) (hc : cl < B) :
    (p % B + cl) % B + B * ((boolToNat (decide ((p % B + cl) % B < cl)) + p / B) % B) = p + cl ∧
    (p % B + cl) % B < B ∧ (boolToNat (decide ((p % B + cl) % B < cl)) + p / B) % B < B := by
  rw [boolToNat_decide]
  simp only [B_eq] at *
  split <;> omega

theorem mul1C_cons (u vl cl : Nat) (us : List Nat) :
    mul1C (u :: us) vl cl =
      ((u * vl % B + cl) % B ::
        (mul1C us vl ((boolToNat (decide ((u * vl % B + cl) % B < cl)) + u * vl / B) % B)).1,
       (mul1C us vl ((boolToNat (decide ((u * vl % B + cl) % B < cl)) + u * vl / B) % B)).2) := rfl

theorem mul1C_val (vl : Nat) (hv : vl < B) : ∀ (u : List Nat) (cl : Nat), Limbs u → cl < B →
    val (mul1C u vl cl).1 + B ^ u.length * (mul1C u vl cl).2 = val u * vl + cl ∧
    (mul1C u vl cl).2 < B ∧ Limbs (mul1C u vl cl).1 ∧ (mul1C u vl cl).1.length = u.length
  | [], cl, _, hc => by simp [mul1C, hc, Limbs_nil]
  | u :: us, cl, hu, hc => by
    have ⟨hu0, hus⟩ := Limbs_cons.mp hu
    obtain ⟨e, r1, c1⟩ := mul_limb (u * vl) cl (mul_le_limb hu0 hv) hc
    obtain ⟨iv, ic, il, in_⟩ := mul1C_val vl hv us _ hus c1
    rw [mul1C_cons]
    simp only [val_cons, List.length_cons, pow_succ]
    refine ⟨?_, ic, Limbs_cons.mpr ⟨r1, il⟩, by rw [in_]⟩
    generalize (boolToNat (decide ((u * vl % B + cl) % B < cl)) + u * vl / B) % B = c' at *
    generalize (u * vl % B + cl) % B = lpl at *
    generalize mul1C us vl c' = res at *
    generalize B ^ us.length = P at *
    nlinarith [iv, e]

/-- mpn_mul_1: `r + B^n·ret = u·v`. -/
theorem mul_1_val (u : List Nat) (vl : Nat) (hu : Limbs u) (hv : vl < B) :
    val (mul_1 u vl).1 + B ^ u.length * (mul_1 u vl).2 = val u * vl ∧
    (mul_1 u vl).2 < B ∧ Limbs (mul_1 u vl).1 ∧ (mul_1 u vl).1.length = u.length := by
  simpa [mul_1] using mul1C_val vl hv u 0 hu B_pos

theorem addmul_limb (p cl r : Nat) (hp : p ≤ 340282366920938463426481119284349108225) (hc : cl < B)
    (hr : r < B) :
    (r + (p % B + cl) % B) % B +
      B * (((boolToNat (decide ((p % B + cl) % B < cl)) + p / B) % B +
            boolToNat (decide ((r + (p % B + cl) % B) % B < r))) % B) = r + p + cl ∧
    (r + (p % B + cl) % B) % B < B ∧
    ((boolToNat (decide ((p % B + cl) % B < cl)) + p / B) % B +
            boolToNat (decide ((r + (p % B + cl) % B) % B < r))) % B < B := by
  rw [boolToNat_decide, boolToNat_decide]
  simp only [B_eq] at *
  split <;> split <;> omega

theorem addmul1C_cons (r u vl cl : Nat) (rs us : List Nat) :
    addmul1C (r :: rs) (u :: us) vl cl =
      ((r + (u * vl % B + cl) % B) % B ::
        (addmul1C rs us vl (((boolToNat (decide ((u * vl % B + cl) % B < cl)) + u * vl / B) % B +
            boolToNat (decide ((r + (u * vl % B + cl) % B) % B < r))) % B)).1,
       (addmul1C rs us vl (((boolToNat (decide ((u * vl % B + cl) % B < cl)) + u * vl / B) % B +
            boolToNat (decide ((r + (u * vl % B + cl) % B) % B < r))) % B)).2) := rfl

theorem addmul1C_val (vl : Nat) (hv : vl < B) : ∀ (r u : List Nat) (cl : Nat), Limbs r → Limbs u →
    r.length = u.length → cl < B →
    val (addmul1C r u vl cl).1 + B ^ u.length * (addmul1C r u vl cl).2 = val r + val u * vl + cl ∧
    (addmul1C r u vl cl).2 < B ∧ Limbs (addmul1C r u vl cl).1 ∧
    (addmul1C r u vl cl).1.length = u.length
  | [], [], cl, _, _, _, hc => by simp [addmul1C, hc, Limbs_nil]
  | [], _ :: _, _, _, _, h, _ => by simp at h
  | _ :: _, [], _, _, _, h, _ => by simp at h
  | r :: rs, u :: us, cl, hr, hu, hl, hc => by
    have ⟨hr0, hrs⟩ := Limbs_cons.mp hr
    have ⟨hu0, hus⟩ := Limbs_cons.mp hu
    obtain ⟨e, r1, c1⟩ := addmul_limb (u * vl) cl r (mul_le_limb hu0 hv) hc hr0
    obtain ⟨iv, ic, il, in_⟩ := addmul1C_val vl hv rs us _ hrs hus (by simpa using hl) c1
    rw [addmul1C_cons]
    simp only [val_cons, List.length_cons, pow_succ]
    refine ⟨?_, ic, Limbs_cons.mpr ⟨r1, il⟩, by rw [in_]⟩
    generalize ((boolToNat (decide ((u * vl % B + cl) % B < cl)) + u * vl / B) % B +
            boolToNat (decide ((r + (u * vl % B + cl) % B) % B < r))) % B = c' at *
    generalize (r + (u * vl % B + cl) % B) % B = lpl at *
    generalize addmul1C rs us vl c' = res at *
    generalize B ^ us.length = P at *
    nlinarith [iv, e]

/-- mpn_addmul_1: `r' + B^n·ret = r + u·v`. -/
theorem addmul_1_val (r u : List Nat) (vl : Nat) (hr : Limbs r) (hu : Limbs u) (hv : vl < B)
    (hl : r.length = u.length) :
    val (addmul_1 r u vl).1 + B ^ u.length * (addmul_1 r u vl).2 = val r + val u * vl ∧
    (addmul_1 r u vl).2 < B ∧ Limbs (addmul_1 r u vl).1 ∧ (addmul_1 r u vl).1.length = u.length := by
  simpa [addmul_1] using addmul1C_val vl hv r u 0 hr hu hl B_pos

theorem submul_limb (p cl r : Nat) (hp : p ≤ 340282366920938463426481119284349108225) (hc : cl < B)
    (hr : r < B) :
    (r + B - (p % B + cl) % B) % B + p + cl =
      r + B * (((boolToNat (decide ((p % B + cl) % B < cl)) + p / B) % B +
            boolToNat (decide ((r + B - (p % B + cl) % B) % B > r))) % B) ∧
    (r + B - (p % B + cl) % B) % B < B ∧
    ((boolToNat (decide ((p % B + cl) % B < cl)) + p / B) % B +
            boolToNat (decide ((r + B - (p % B + cl) % B) % B > r))) % B < B := by
  rw [boolToNat_decide, boolToNat_decide]
  simp only [B_eq] at *
  split <;> split <;> omega

theorem submul1C_cons (r u vl cl : Nat) (rs us : List Nat) :
    submul1C (r :: rs) (u :: us) vl cl =
      ((r + B - (u * vl % B + cl) % B) % B ::
        (submul1C rs us vl (((boolToNat (decide ((u * vl % B + cl) % B < cl)) + u * vl / B) % B +
            boolToNat (decide ((r + B - (u * vl % B + cl) % B) % B > r))) % B)).1,
       (submul1C rs us vl (((boolToNat (decide ((u * vl % B + cl) % B < cl)) + u * vl / B) % B +
            boolToNat (decide ((r + B - (u * vl % B + cl) % B) % B > r))) % B)).2) := rfl

theorem submul1C_val (vl : Nat) (hv : vl < B) : ∀ (r u : List Nat) (cl : Nat), Limbs r → Limbs u →
    r.length = u.length → cl < B →
    val (submul1C r u vl cl).1 + val u * vl + cl = val r + B ^ u.length * (submul1C r u vl cl).2 ∧
    (submul1C r u vl cl).2 < B ∧ Limbs (submul1C r u vl cl).1 ∧
    (submul1C r u vl cl).1.length = u.length
  | [], [], cl, _, _, _, hc => by simp [submul1C, hc, Limbs_nil]
  | [], _ :: _, _, _, _, h, _ => by simp at h
  | _ :: _, [], _, _, _, h, _ => by simp at h
  | r :: rs, u :: us, cl, hr, hu, hl, hc => by
    have ⟨hr0, hrs⟩ := Limbs_cons.mp hr
    have ⟨hu0, hus⟩ := Limbs_cons.mp hu
    obtain ⟨e, r1, c1⟩ := submul_limb (u * vl) cl r (mul_le_limb hu0 hv) hc hr0
    obtain ⟨iv, ic, il, in_⟩ := submul1C_val vl hv rs us _ hrs hus (by simpa using hl) c1
    rw [submul1C_cons]
    simp only [val_cons, List.length_cons, pow_succ]
    refine ⟨?_, ic, Limbs_cons.mpr ⟨r1, il⟩, by rw [in_]⟩
    generalize ((boolToNat (decide ((u * vl % B + cl) % B < cl)) + u * vl / B) % B +
            boolToNat (decide ((r + B - (u * vl % B + cl) % B) % B > r))) % B = c' at *
    generalize (r + B - (u * vl % B + cl) % B) % B = lpl at *
    generalize submul1C rs us vl c' = res at *
    generalize B ^ us.length = P at *
    nlinarith [iv, e]

/-- mpn_submul_1: `r' + u·v = r + B^n·ret`. -/
theorem submul_1_val (r u : List Nat) (vl : Nat) (hr : Limbs r) (hu : Limbs u) (hv : vl < B)
    (hl : r.length = u.length) :
    val (submul_1 r u vl).1 + val u * vl = val r + B ^ u.length * (submul_1 r u vl).2 ∧
    (submul_1 r u vl).2 < B ∧ Limbs (submul_1 r u vl).1 ∧ (submul_1 r u vl).1.length = u.length := by
  simpa [submul_1] using submul1C_val vl hv r u 0 hr hu hl B_pos

/-! ### mul_basecase -/

theorem rows_cons (u : List Nat) (v : Nat) (vs acc : List Nat) (off : Nat) :
    mulBasecaseRows u (v :: vs) acc off =
      mulBasecaseRows u vs (acc.take off ++ (addmul_1 (acc.drop off) u v).1 ++
        [(addmul_1 (acc.drop off) u v).2]) (off + 1) := rfl

theorem rows_val (u : List Nat) (hu : Limbs u) : ∀ (vs acc : List Nat) (off : Nat), Limbs vs →
    Limbs acc → acc.length = u.length + off →
    val (mulBasecaseRows u vs acc off) = val acc + B ^ off * (val u * val vs) ∧
    Limbs (mulBasecaseRows u vs acc off) ∧
    (mulBasecaseRows u vs acc off).length = u.length + off + vs.length
  | [], acc, off, _, ha, hl => by simp [mulBasecaseRows, ha, hl]
  | v :: vs, acc, off, hv, ha, hl => by
    have ⟨hv0, hvs⟩ := Limbs_cons.mp hv
    have hdl : (acc.drop off).length = u.length := by simp [hl]
    obtain ⟨av, ac, al, an⟩ := addmul_1_val (acc.drop off) u v (Limbs_drop ha _) hu hv0 hdl
    have htl : (acc.take off).length = off := by simp [hl]
    have hsplit := val_take_drop acc off (by omega)
    have hc1 : Limbs [(addmul_1 (acc.drop off) u v).2] :=
      Limbs_cons.mpr ⟨ac, Limbs_nil⟩
    obtain ⟨iv, il, in_⟩ := rows_val u hu vs
      (acc.take off ++ (addmul_1 (acc.drop off) u v).1 ++ [(addmul_1 (acc.drop off) u v).2]) (off + 1)
      hvs (Limbs_append.mpr ⟨Limbs_append.mpr ⟨Limbs_take ha _, al⟩, hc1⟩)
      (by simp [htl, an]; omega)
    rw [rows_cons]
    refine ⟨?_, il, by rw [in_]; simp; omega⟩
    rw [iv, val_append, val_append, List.length_append, htl, an, val_cons, val_nil, val_cons, pow_succ,
      pow_add]
    generalize addmul_1 (acc.drop off) u v = res at *
    generalize B ^ off = P at *
    generalize B ^ u.length = Q at *
    generalize val (acc.take off) = a at *
    generalize val (acc.drop off) = b at *
    generalize val u = U at *
    generalize val vs = V at *
    nlinarith [av, hsplit]

/-- mpn_mul_basecase (vn ≥ 1): the product, exactly un+vn limbs. -/
theorem mul_basecase_val (u v : List Nat) (hu : Limbs u) (hv : Limbs v) (hne : v ≠ []) :
    val (mul_basecase u v) = val u * val v ∧ Limbs (mul_basecase u v) ∧
    (mul_basecase u v).length = u.length + v.length := by
  match v, hne with
  | v0 :: vs, _ =>
    have ⟨hv0, hvs⟩ := Limbs_cons.mp hv
    obtain ⟨mv, mc, ml, mn⟩ := mul_1_val u v0 hu hv0
    have e : mul_basecase u (v0 :: vs) =
        mulBasecaseRows u vs ((mul_1 u v0).1 ++ [(mul_1 u v0).2]) 1 := rfl
    obtain ⟨iv, il, in_⟩ := rows_val u hu vs ((mul_1 u v0).1 ++ [(mul_1 u v0).2]) 1 hvs
      (Limbs_append.mpr ⟨ml, Limbs_cons.mpr ⟨mc, Limbs_nil⟩⟩) (by simp [mn])
    rw [e]
    refine ⟨?_, il, by rw [in_]; simp; omega⟩
    rw [iv, val_append, mn, val_cons, val_nil, val_cons, pow_one]
    generalize mul_1 u v0 = res at *
    generalize B ^ u.length = Q at *
    nlinarith [mv]

end Mpir.Mpz.K
