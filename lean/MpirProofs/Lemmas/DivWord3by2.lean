/- Word-level division lemmas, part 3: udiv_qr_3by2 and mpir_invert_pi1 (Möller–Granlund). -/
import MpirProofs.Lemmas.DivWord
namespace Mpir.DivWord
open Mpir

/-! ### udiv_qr_3by2 (Möller–Granlund 3/2 division) -/

/-- The arithmetic core, over ℤ with abstract radix: with `(B+v)·d = B³ − k`, `1 ≤ k ≤ d`,
    `B²/2 ≤ d < B²`, `⟨n2,n1⟩ < d` and `n2·(v+B) + n1 = q1·B + q0`, the candidate remainder
    `r = n − (q1+1)·d` lies in `[−d, B²)`, is `≥ −(B−q0)·B`, and `r ≥ q0·B` forces `r < B² − d`. -/
theorem threeby2_core (B d v k n2 n1 n0 q1 q0 r : ℤ)
    (hB : 0 < B) (hd1 : B * B ≤ 2 * d) (hd2 : d < B * B)
    (hv : 0 ≤ v) (hk1 : 1 ≤ k) (hk2 : k ≤ d) (hm : (B + v) * d = B * B * B - k)
    (hn2 : 0 ≤ n2) (hn1 : 0 ≤ n1) (hn1' : n1 < B) (hn0 : 0 ≤ n0) (hn0' : n0 < B)
    (hN : n2 * B + n1 < d)
    (hq0 : 0 ≤ q0) (hq0' : q0 < B) (hX : n2 * (v + B) + n1 = q1 * B + q0)
    (hr : r = n2 * (B * B) + n1 * B + n0 - (q1 + 1) * d) :
    -d ≤ r ∧ r < B * B ∧ -(B - q0) * B ≤ r ∧ (q0 * B ≤ r → r < B * B - d) := by
  have hBB : 0 < B * B := mul_pos hB hB
  have hd0 : 0 < d := by linarith
  -- key identity
  have key : r * B = n1 * (B * B - d) + n0 * B + n2 * k - (B - q0) * d := by
    have h1 : q1 * B * d = (n2 * (v + B) + n1 - q0) * d := by rw [hX]; ring
    have h2 : n2 * ((B + v) * d) = n2 * (B * B * B - k) := by rw [hm]
    rw [hr]
    linear_combination (-1 : ℤ) * h1 - h2
  have he : 0 < B * B - d := by linarith
  have hn2k : 0 ≤ n2 * k := mul_nonneg hn2 (by linarith)
  have hn1e : 0 ≤ n1 * (B * B - d) := mul_nonneg hn1 (le_of_lt he)
  have hn0B : 0 ≤ n0 * B := mul_nonneg hn0 (le_of_lt hB)
  have ht1 : 1 ≤ B - q0 := by linarith
  have htB : B - q0 ≤ B := by linarith
  -- n2 ≤ B - 1
  have hn2lt : n2 ≤ B - 1 := by
    have : n2 * B < B * B := by linarith
    have : n2 < B := lt_of_mul_lt_mul_right this (le_of_lt hB)
    linarith
  have h1 : n1 * (B * B - d) ≤ (B - 1) * (B * B - d) := mul_le_mul_of_nonneg_right (by linarith) (le_of_lt he)
  have h2 : n0 * B ≤ (B - 1) * B := mul_le_mul_of_nonneg_right (by linarith) (le_of_lt hB)
  have h3 : n2 * k ≤ (B - 1) * d :=
    le_trans (mul_le_mul_of_nonneg_right hn2lt (by linarith)) (mul_le_mul_of_nonneg_left hk2 (by linarith))
  have h4 : 1 * d ≤ (B - q0) * d := mul_le_mul_of_nonneg_right ht1 (le_of_lt hd0)
  have h5 : (B - q0) * d ≤ B * d := mul_le_mul_of_nonneg_right htB (le_of_lt hd0)
  have h6 : (B - q0) * d ≤ (B - q0) * (B * B) := mul_le_mul_of_nonneg_left (le_of_lt hd2) (by linarith)
  refine ⟨?_, ?_, ?_, ?_⟩
  · -- r ≥ -d
    have : (-d) * B ≤ r * B := by rw [key]; linarith
    exact le_of_mul_le_mul_right this hB
  · -- r < B²
    have : r * B < (B * B) * B := by rw [key]; linarith
    exact lt_of_mul_lt_mul_right this (le_of_lt hB)
  · -- r ≥ -(B-q0) B
    have : (-(B - q0) * B) * B ≤ r * B := by rw [key]; linarith
    exact le_of_mul_le_mul_right this hB
  · intro hge
    -- (★★): B (n2 k + n1 e + B²) ≤ B² d + e²
    have hvd : v * d = B * (B * B - d) - k := by linear_combination hm
    have hvd0 : 0 ≤ v * d := mul_nonneg hv (le_of_lt hd0)
    have s1 : (B * n2) * k ≤ (d - 1 - n1) * k := mul_le_mul_of_nonneg_right (by linarith) (by linarith)
    have s2 : n1 * (v * d) ≤ (B - 1) * (v * d) := mul_le_mul_of_nonneg_right (by linarith) hvd0
    have hdB : 0 ≤ d - B := by nlinarith
    have s3 : (B * (B * B - d) - d) * (d - B) ≤ (v * d) * (d - B) :=
      mul_le_mul_of_nonneg_right (by linarith) hdB
    have star : B * (n2 * k + n1 * (B * B - d) + B * B) ≤ B * B * d + (B * B - d) * (B * B - d) := by
      have e1 : n1 * (v * d) = n1 * (B * (B * B - d)) - n1 * k := by rw [hvd]; ring
      have e2 : (B - 1) * (v * d) = (B - 1) * (B * (B * B - d) - k) := by rw [hvd]
      nlinarith [s1, s2, s3, e1, e2]
    by_contra hnot
    rw [not_lt] at hnot
    have g1 : (q0 * B) * B ≤ r * B := mul_le_mul_of_nonneg_right hge (le_of_lt hB)
    have g2 : (B * B - d) * B ≤ r * B := mul_le_mul_of_nonneg_right hnot (le_of_lt hB)
    rw [key] at g1 g2
    have a1 : B * B * B - n0 * B - n2 * k - n1 * (B * B - d) ≤ (B - q0) * (B * B - d) := by linarith
    have a2 : (B - q0) * d ≤ n2 * k + n0 * B - (B - n1) * (B * B - d) := by linarith
    have m1 := mul_le_mul_of_nonneg_right a1 (le_of_lt hd0)
    have m2 := mul_le_mul_of_nonneg_right a2 (le_of_lt he)
    have c1 : (B - q0) * (B * B - d) * d = (B - q0) * d * (B * B - d) := by ring
    have k1 : (B * B * B - n0 * B - n2 * k - n1 * (B * B - d)) * d ≤
        (n2 * k + n0 * B - (B - n1) * (B * B - d)) * (B * B - d) := by linarith
    have k2 := mul_le_mul_of_nonneg_left star (le_of_lt hB)
    have k3 : n0 * (B * B * B) ≤ (B - 1) * (B * B * B) :=
      mul_le_mul_of_nonneg_right (by linarith) (le_of_lt (mul_pos hBB hB))
    have k4 : 0 < B * B * B := mul_pos hBB hB
    linarith [k1, k2, k3, k4]

/-- two-limb results of add_ssaaaa / sub_ddmmss are the limbs of the value modulo B² -/
theorem pair2_mod (V : Nat) : (V / B % B, V % B) = ((V % (B * B)) / B, (V % (B * B)) % B) := by
  have hB := B_pos
  refine Prod.ext ?_ ?_
  · show V / B % B = V % (B * B) / B
    rw [Nat.mod_mul_right_div_self]
  · show V % B = V % (B * B) % B
    rw [Nat.mod_mul_left_mod]

theorem add2_eq (R d1 d0 : Nat) :
    add_ssaaaa (R / B) (R % B) d1 d0 = (((R + (d1 * B + d0)) % (B * B)) / B, ((R + (d1 * B + d0)) % (B * B)) % B) := by
  rw [add_ssaaaa_eq, Nat.div_add_mod', pair2_mod]

theorem sub2_eq (R d1 d0 : Nat) (hR : R < B * B) (h1 : d1 < B) (h0 : d0 < B) :
    sub_ddmmss (R / B) (R % B) d1 d0 =
      (((R + B * B - (d1 * B + d0)) % (B * B)) / B, ((R + B * B - (d1 * B + d0)) % (B * B)) % B) := by
  have hB := B_pos
  rw [sub_ddmmss_eq _ _ _ _ ((Nat.div_lt_iff_lt_mul hB).mpr hR) (Nat.mod_lt _ hB) h1 h0, Nat.div_add_mod', pair2_mod]

/-- lexicographic comparison of two-limb numbers as written in the C -/
theorem lex_ge (R d1 d0 : Nat) (h0 : d0 < B) :
    (decide (R / B ≥ d1) && (decide (R / B > d1) || decide (R % B ≥ d0))) = decide (R ≥ d1 * B + d0) := by
  have hB := B_pos
  have h := Nat.div_add_mod' R B
  have hm := Nat.mod_lt R hB
  generalize R / B = a at *
  generalize R % B = b at *
  rw [← h]
  by_cases c1 : a > d1
  · have : a * B + b ≥ d1 * B + d0 := by
      have : (d1 + 1) * B ≤ a * B := Nat.mul_le_mul_right _ c1
      have : (d1 + 1) * B = d1 * B + B := by ring
      omega
    simp [c1, this, Nat.le_of_lt c1]
  · by_cases c2 : a = d1
    · subst c2; simp
    · have c3 : a < d1 := by omega
      have : ¬ (a * B + b ≥ d1 * B + d0) := by
        have : (a + 1) * B ≤ d1 * B := Nat.mul_le_mul_right _ c3
        have : (a + 1) * B = a * B + B := by ring
        omega
      simp [c1, this, Nat.not_le.mpr c3]


theorem natCast_mod_modEq (a n : Nat) : ((a % n : ℕ) : ℤ) ≡ (a : ℤ) [ZMOD (n : ℤ)] := by
  rw [Int.natCast_mod]; exact Int.mod_modEq _ _

/-- the remainder limbs computed by udiv_qr_3by2 are n − (q+1)·d modulo B² -/
theorem tb2Rem_spec (q n1 n0 d1 d0 : Nat) (hq : q < B) (hn1 : n1 < B) (hn0 : n0 < B) (hd1 : d1 < B) (hd0 : d0 < B) :
    ∃ R, R < B * B ∧ tb2Rem q n1 n0 d1 d0 = (R / B, R % B) ∧
      (R : ℤ) ≡ (n1 : ℤ) * B + n0 - (q + 1) * (d1 * B + d0) [ZMOD ((B : ℤ) * B)] := by
  have hB := B_pos
  have hBB : 0 < B * B := Nat.mul_pos hB hB
  unfold tb2Rem
  simp only [umul_ppmm_eq]
  have ha1B : (n1 + B - (d1 * q) % B) % B < B := Nat.mod_lt _ hB
  have ha1 : (((n1 + B - (d1 * q) % B) % B : ℕ) : ℤ) ≡ (n1 : ℤ) - d1 * q [ZMOD (B : ℤ)] := by
    refine (natCast_mod_modEq _ _).trans ?_
    have hle : (d1 * q) % B ≤ n1 + B := by have := Nat.mod_lt (d1 * q) hB; omega
    rw [Nat.cast_sub hle]
    push_cast
    have h1 : ((d1 : ℤ) * q) % B ≡ d1 * q [ZMOD (B : ℤ)] := Int.mod_modEq _ _
    have h2 : (n1 : ℤ) + B ≡ n1 + 0 [ZMOD (B : ℤ)] := Int.ModEq.add_left _ (Int.modEq_iff_dvd.mpr ⟨-1, by ring⟩)
    rw [add_zero] at h2
    exact h2.sub h1
  generalize (n1 + B - (d1 * q) % B) % B = a1 at *
  rw [sub_ddmmss_eq a1 n0 d1 d0 ha1B hn0 hd1 hd0, pair2_mod]
  have hdlt : d1 * B + d0 < B * B := by
    have : (d1 + 1) * B ≤ B * B := Nat.mul_le_mul_right _ hd1
    have : (d1 + 1) * B = d1 * B + B := by ring
    omega
  have hR2 : (a1 * B + n0 + B * B - (d1 * B + d0)) % (B * B) < B * B := Nat.mod_lt _ hBB
  have hR2m : (((a1 * B + n0 + B * B - (d1 * B + d0)) % (B * B) : ℕ) : ℤ) ≡
      (a1 : ℤ) * B + n0 - (d1 * B + d0) [ZMOD ((B : ℤ) * B)] := by
    have := natCast_mod_modEq (a1 * B + n0 + B * B - (d1 * B + d0)) (B * B)
    rw [Nat.cast_sub (by omega)] at this
    push_cast at this
    refine this.trans ?_
    rw [Int.modEq_iff_dvd]; exact ⟨-1, by ring⟩
  generalize (a1 * B + n0 + B * B - (d1 * B + d0)) % (B * B) = R2 at *
  simp only
  have hT : d0 * q < B * B := by
    have h1 : d0 * q ≤ d0 * B := Nat.mul_le_mul_left _ (Nat.le_of_lt hq)
    have h2 : d0 * B < B * B := Nat.mul_lt_mul_of_pos_right hd0 hB
    omega
  rw [sub2_eq R2 _ _ hR2 ((Nat.div_lt_iff_lt_mul hB).mpr hT) (Nat.mod_lt _ hB), Nat.div_add_mod']
  refine ⟨(R2 + B * B - d0 * q) % (B * B), Nat.mod_lt _ hBB, rfl, ?_⟩
  have h3 := natCast_mod_modEq (R2 + B * B - d0 * q) (B * B)
  rw [Nat.cast_sub (by omega)] at h3
  push_cast at h3
  refine h3.trans ?_
  have h4 : (R2 : ℤ) + B * B - d0 * q ≡ R2 - d0 * q [ZMOD ((B : ℤ) * B)] := by
    rw [Int.modEq_iff_dvd]; exact ⟨-1, by ring⟩
  refine h4.trans ?_
  have h5 : (a1 : ℤ) * B ≡ ((n1 : ℤ) - d1 * q) * B [ZMOD ((B : ℤ) * B)] := Int.ModEq.mul_right' ha1
  have h6 : (R2 : ℤ) - d0 * q ≡ (((n1 : ℤ) - d1 * q) * B + n0 - (d1 * B + d0)) - d0 * q [ZMOD ((B : ℤ) * B)] := by
    refine Int.ModEq.sub_right _ (hR2m.trans ?_)
    exact (h5.add_right _).sub_right _
  refine h6.trans ?_
  have : (((n1 : ℤ) - d1 * q) * B + n0 - (d1 * B + d0)) - d0 * q = (n1 : ℤ) * B + n0 - (q + 1) * (d1 * B + d0) := by ring
  rw [this]


/-- the unlikely second correction, in terms of the two-limb value -/
theorem tb2Adj2_eq (q R d1 d0 : Nat) (hR : R < B * B) (hd1 : d1 < B) (hd0 : d0 < B) :
    tb2Adj2 q (R / B) (R % B) d1 d0 =
      if R ≥ d1 * B + d0 then ((q + 1) % B, (R - (d1 * B + d0)) / B, (R - (d1 * B + d0)) % B)
      else (q, R / B, R % B) := by
  have hBB : 0 < B * B := Nat.mul_pos B_pos B_pos
  have hlex := lex_ge R d1 d0 hd0
  unfold tb2Adj2
  by_cases h : R ≥ d1 * B + d0
  · rw [if_pos h]
    simp only [h, decide_true, Bool.and_eq_true, decide_eq_true_eq] at hlex
    rw [if_pos hlex.1]
    have h2 : (decide (R / B > d1) || decide (R % B ≥ d0)) = true := hlex.2
    rw [if_pos h2, sub2_eq R d1 d0 hR hd1 hd0]
    have : (R + B * B - (d1 * B + d0)) % (B * B) = R - (d1 * B + d0) := by
      have : R + B * B - (d1 * B + d0) = (R - (d1 * B + d0)) + B * B := by omega
      rw [this, Nat.add_mod_right, Nat.mod_eq_of_lt (by omega)]
    rw [this]
  · rw [if_neg h]
    simp only [h, decide_false] at hlex
    by_cases h1 : R / B ≥ d1
    · rw [if_pos h1]
      have h2 : (decide (R / B > d1) || decide (R % B ≥ d0)) = false := by
        simpa [h1] using hlex
      rw [h2]; rfl
    · rw [if_neg h1]

theorem divmod_of_eq (n d q r : Nat) (h : n = q * d + r) (hr : r < d) : n / d = q ∧ n % d = r := by
  have hd0 : 0 < d := by omega
  have hq : n / d = q := Nat.div_eq_of_lt_le (by omega) (by rw [Nat.add_mul, Nat.one_mul]; omega)
  have hm := Nat.div_add_mod n d
  rw [hq, Nat.mul_comm] at hm
  exact ⟨hq, by omega⟩

/-- the two conditional corrections of udiv_qr_3by2 deliver the Euclidean quotient and remainder -/
theorem tb2Adjust_spec (q1 q0 R d1 d0 n : Nat) (hd1 : d1 < B) (hd0 : d0 < B) (hnorm : B * B ≤ 2 * (d1 * B + d0))
    (hq0 : q0 < B) (hR : R < B * B) (hn : n < (d1 * B + d0) * B)
    (hmod : (R : ℤ) ≡ (n : ℤ) - ((q1 : ℤ) + 1) * ((d1 * B + d0 : ℕ) : ℤ) [ZMOD ((B : ℤ) * B)])
    (c1 : -((d1 * B + d0 : ℕ) : ℤ) ≤ (n : ℤ) - ((q1 : ℤ) + 1) * ((d1 * B + d0 : ℕ) : ℤ))
    (c2 : (n : ℤ) - ((q1 : ℤ) + 1) * ((d1 * B + d0 : ℕ) : ℤ) < (B : ℤ) * B)
    (c3 : -((B : ℤ) - q0) * B ≤ (n : ℤ) - ((q1 : ℤ) + 1) * ((d1 * B + d0 : ℕ) : ℤ))
    (c4 : (q0 : ℤ) * B ≤ (n : ℤ) - ((q1 : ℤ) + 1) * ((d1 * B + d0 : ℕ) : ℤ) →
      (n : ℤ) - ((q1 : ℤ) + 1) * ((d1 * B + d0 : ℕ) : ℤ) < (B : ℤ) * B - ((d1 * B + d0 : ℕ) : ℤ)) :
    tb2Adjust ((q1 + 1) % B) q0 (R / B) (R % B) d1 d0 =
      (n / (d1 * B + d0), (n % (d1 * B + d0)) / B, (n % (d1 * B + d0)) % B) := by
  have hB := B_pos
  have hBB : 0 < B * B := Nat.mul_pos hB hB
  have hdlt : d1 * B + d0 < B * B := by
    have : (d1 + 1) * B ≤ B * B := Nat.mul_le_mul_right _ hd1
    have : (d1 + 1) * B = d1 * B + B := by ring
    omega
  unfold tb2Adjust
  rw [add2_eq]
  -- abbreviate d, keeping the limb form where the C compares limbs
  have hA2 := fun q R hR => tb2Adj2_eq q R d1 d0 hR hd1 hd0
  generalize d1 * B + d0 = d at *
  have hd0' : 0 < d := by omega
  -- P = q1 * d as an atom
  have hP : ((q1 : ℤ) + 1) * (d : ℤ) = ((q1 * d : ℕ) : ℤ) + d := by push_cast; ring
  rw [hP] at hmod c1 c2 c3 c4
  have hPq : (q1 + 1) * d = q1 * d + d := by ring
  have hPq2 : (q1 + 2) * d = q1 * d + 2 * d := by ring
  have hq0B : (q0 : ℤ) * B = ((q0 * B : ℕ) : ℤ) := by push_cast; ring
  have hBBz : (B : ℤ) * B = ((B * B : ℕ) : ℤ) := by push_cast; ring
  rw [hBBz] at hmod c2 c4
  rw [hq0B] at c4
  have hc3 : -(((B * B : ℕ) : ℤ) - ((q0 * B : ℕ) : ℤ)) ≤ (n : ℤ) - (((q1 * d : ℕ) : ℤ) + d) := by
    have : -((B : ℤ) - q0) * B = -(((B * B : ℕ) : ℤ) - ((q0 * B : ℕ) : ℤ)) := by push_cast; ring
    rw [← this]; exact c3
  obtain ⟨j, hj⟩ := Int.modEq_iff_dvd.mp hmod
  have hq1B : q1 * d < B * d := by rw [Nat.mul_comm B d]; omega
  have hq1lt : q1 < B := Nat.lt_of_mul_lt_mul_right hq1B
  have hdiv_le : ∀ a, q0 ≤ a / B ↔ q0 * B ≤ a := fun a => Nat.le_div_iff_mul_le hB
  generalize hPdef : q1 * d = P at *
  generalize hQdef : q0 * B = Q0 at *
  by_cases hneg : (n : ℤ) - ((P : ℤ) + d) < 0
  · -- candidate remainder negative: R = r̃ + B²
    have hj1 : j = -1 := by
      have h1 : ((B * B : ℕ) : ℤ) * j < 0 := by omega
      have h2 : -2 * ((B * B : ℕ) : ℤ) < ((B * B : ℕ) : ℤ) * j := by omega
      have hpos : (0 : ℤ) < ((B * B : ℕ) : ℤ) := by exact_mod_cast hBB
      have : j < 0 := by
        by_contra hc; rw [not_lt] at hc
        have := mul_nonneg (le_of_lt hpos) hc; omega
      have : -2 < j := by
        by_contra hc; rw [not_lt] at hc
        have : ((B * B : ℕ) : ℤ) * j ≤ ((B * B : ℕ) : ℤ) * (-2) := mul_le_mul_of_nonneg_left hc (le_of_lt hpos)
        omega
      omega
    rw [hj1] at hj
    have hRn : R + P + d = n + B * B := by omega
    have hge : q0 ≤ R / B := by rw [hdiv_le]; omega
    rw [if_pos hge]
    have hR' : (R + d) % (B * B) = R + d - B * B := by
      have : R + d = (R + d - B * B) + B * B := by omega
      rw [this, Nat.add_mod_right, Nat.mod_eq_of_lt (by omega)]
      omega
    rw [hR']
    simp only
    rw [hA2 _ _ (by omega), if_neg (by omega)]
    obtain ⟨e1, e2⟩ := divmod_of_eq n d q1 (R + d - B * B) (by rw [hPdef]; omega) (by omega)
    rw [e1, e2]
    have : ((q1 + 1) % B + B - 1) % B = q1 := by simp only [B_eq] at *; omega
    rw [this]
  · -- candidate remainder nonnegative: R = r̃
    have hj0 : j = 0 := by
      have hpos : (0 : ℤ) < ((B * B : ℕ) : ℤ) := by exact_mod_cast hBB
      have h1 : -((B * B : ℕ) : ℤ) < ((B * B : ℕ) : ℤ) * j := by omega
      have h2 : ((B * B : ℕ) : ℤ) * j < ((B * B : ℕ) : ℤ) := by omega
      have : -1 < j := by
        by_contra hc; rw [not_lt] at hc
        have : ((B * B : ℕ) : ℤ) * j ≤ ((B * B : ℕ) : ℤ) * (-1) := mul_le_mul_of_nonneg_left hc (le_of_lt hpos)
        omega
      have : j < 1 := by
        by_contra hc; rw [not_lt] at hc
        have : ((B * B : ℕ) : ℤ) * 1 ≤ ((B * B : ℕ) : ℤ) * j := mul_le_mul_of_nonneg_left hc (le_of_lt hpos)
        omega
      omega
    rw [hj0] at hj
    have hRn : R + P + d = n := by omega
    have hq1B' : q1 + 1 < B := by
      have : (q1 + 1) * d < B * d := by rw [hPq, Nat.mul_comm B d]; omega
      exact Nat.lt_of_mul_lt_mul_right this
    have hq1' : (q1 + 1) % B = q1 + 1 := Nat.mod_eq_of_lt hq1B'
    by_cases hge : q0 ≤ R / B
    · rw [if_pos hge]
      rw [hdiv_le] at hge
      have hlt : R + d < B * B := by omega
      rw [Nat.mod_eq_of_lt hlt]
      simp only
      rw [hA2 _ _ hlt, if_pos (by omega)]
      obtain ⟨e1, e2⟩ := divmod_of_eq n d (q1 + 1) R (by rw [hPq]; omega) (by omega)
      rw [e1, e2, hq1', Nat.add_sub_cancel]
      have : ((q1 + 1 + B - 1) % B + 1) % B = q1 + 1 := by simp only [B_eq] at *; omega
      rw [this]
    · rw [if_neg hge, hA2 _ _ hR]
      by_cases hRd : R ≥ d
      · rw [if_pos hRd]
        have hq2B : q1 + 2 < B := by
          have : (q1 + 2) * d < B * d := by rw [hPq2, Nat.mul_comm B d]; omega
          exact Nat.lt_of_mul_lt_mul_right this
        obtain ⟨e1, e2⟩ := divmod_of_eq n d (q1 + 2) (R - d) (by rw [hPq2]; omega) (by omega)
        rw [e1, e2, hq1', Nat.mod_eq_of_lt hq2B]
      · rw [if_neg hRd]
        obtain ⟨e1, e2⟩ := divmod_of_eq n d (q1 + 1) R (by rw [hPq]; omega) (by omega)
        rw [e1, e2, hq1']

/-- bounds for a reciprocal `v = ⌊(M−1)/d⌋ − B` with `B·d < M ≤ 2·B·d` -/
theorem recip_bounds (M d : Nat) (hd0 : 0 < d) (h1 : B * d < M) (h2 : M ≤ 2 * B * d) :
    (M - 1) / d - B < B ∧ (B + ((M - 1) / d - B)) * d ≤ M - 1 ∧ M - 1 < (B + ((M - 1) / d - B) + 1) * d := by
  have hQ : B ≤ (M - 1) / d := by rw [Nat.le_div_iff_mul_le hd0]; omega
  have hlt : (M - 1) / d < B + B := by
    rw [Nat.div_lt_iff_lt_mul hd0]
    have : (B + B) * d = 2 * B * d := by ring
    omega
  have hm1 := Nat.div_mul_le_self (M - 1) d
  have hm2 : M - 1 < ((M - 1) / d + 1) * d := by
    have := Nat.lt_mul_div_succ (M - 1) hd0
    rwa [Nat.mul_comm d] at this
  generalize (M - 1) / d = Q at *
  have e : B + (Q - B) = Q := by omega
  rw [e]
  exact ⟨by omega, hm1, hm2⟩

/-- udiv_qr_3by2 with the exact 3/2 reciprocal returns the Euclidean quotient and two-limb remainder -/
theorem udiv_qr_3by2_eq (n2 n1 n0 d1 d0 dinv : Nat) (hn2 : n2 < B) (hn1 : n1 < B) (hn0 : n0 < B)
    (hd1 : d1 < B) (hd0 : d0 < B) (hnorm : B / 2 ≤ d1) (hN : n2 * B + n1 < d1 * B + d0)
    (hdinv : dinv = (B * B * B - 1) / (d1 * B + d0) - B) :
    udiv_qr_3by2 n2 n1 n0 d1 d0 dinv =
      ((n2 * B * B + n1 * B + n0) / (d1 * B + d0),
       ((n2 * B * B + n1 * B + n0) % (d1 * B + d0)) / B,
       ((n2 * B * B + n1 * B + n0) % (d1 * B + d0)) % B) := by
  have hB := B_pos
  have hBB : 0 < B * B := Nat.mul_pos hB hB
  have hdlt : d1 * B + d0 < B * B := by
    have : (d1 + 1) * B ≤ B * B := Nat.mul_le_mul_right _ hd1
    have : (d1 + 1) * B = d1 * B + B := by ring
    omega
  have hdge : B * B ≤ 2 * (d1 * B + d0) := by
    have h : B ≤ 2 * d1 := by simp only [B_eq] at *; omega
    have : B * B ≤ 2 * d1 * B := Nat.mul_le_mul_right _ h
    have : 2 * (d1 * B + d0) = 2 * d1 * B + 2 * d0 := by ring
    omega
  have hdpos : 0 < d1 * B + d0 := by omega
  obtain ⟨hvB, hv1, hv2⟩ := recip_bounds (B * B * B) (d1 * B + d0) hdpos
    (by rw [Nat.mul_assoc]; exact Nat.mul_lt_mul_of_pos_left hdlt hB)
    (by have : 2 * B * (d1 * B + d0) = B * (2 * (d1 * B + d0)) := by ring
        rw [this, Nat.mul_assoc]; exact Nat.mul_le_mul_left _ hdge)
  rw [← hdinv] at hvB hv1 hv2
  have hnlt : n2 * B * B + n1 * B + n0 < (d1 * B + d0) * B := by
    have : (n2 * B + n1 + 1) * B ≤ (d1 * B + d0) * B := Nat.mul_le_mul_right _ hN
    have : (n2 * B + n1 + 1) * B = n2 * B * B + n1 * B + B := by ring
    omega
  unfold udiv_qr_3by2
  rw [umul_ppmm_eq]
  simp only
  rw [add_ssaaaa_eq, Nat.div_add_mod']
  simp only
  have hq0B : (n2 * dinv + (n2 * B + n1)) % B < B := Nat.mod_lt _ hB
  have hXdm := Nat.div_add_mod (n2 * dinv + (n2 * B + n1)) B
  generalize hd : d1 * B + d0 = d at *
  generalize (n2 * dinv + (n2 * B + n1)) / B = q1 at *
  generalize (n2 * dinv + (n2 * B + n1)) % B = q0 at *
  -- the core estimate over ℤ
  have hBBB : 0 < B * B * B := Nat.mul_pos hBB hB
  have core := threeby2_core (B : ℤ) d dinv ((B : ℤ) * B * B - ((B : ℤ) + dinv) * d) n2 n1 n0 q1 q0
    ((n2 : ℤ) * (B * B) + n1 * B + n0 - ((q1 : ℤ) + 1) * d)
    (Int.natCast_pos.mpr hB) (by have := Int.ofNat_le.mpr hdge; push_cast at this; exact this)
    (by have := Int.ofNat_lt.mpr hdlt; push_cast at this; exact this) (Int.natCast_nonneg _)
    (by have : (B + dinv) * d + 1 ≤ B * B * B := by omega
        have := Int.ofNat_le.mpr this; push_cast at this; linarith)
    (by have : B * B * B ≤ (B + dinv) * d + d := by
          have : (B + dinv + 1) * d = (B + dinv) * d + d := by ring
          omega
        have := Int.ofNat_le.mpr this; push_cast at this; linarith)
    (by ring) (Int.natCast_nonneg _) (Int.natCast_nonneg _) (Int.ofNat_lt.mpr hn1) (Int.natCast_nonneg _)
    (Int.ofNat_lt.mpr hn0)
    (by have := Int.ofNat_lt.mpr hN; push_cast at this; exact this) (Int.natCast_nonneg _) (Int.ofNat_lt.mpr hq0B)
    (by have := congrArg (Nat.cast : ℕ → ℤ) hXdm; push_cast at this; linarith) rfl
  obtain ⟨c1, c2, c3, c4⟩ := core
  -- q1 < B
  have hq1B : q1 < B := by
    have h : (q1 : ℤ) * d ≤ (n2 : ℤ) * (B * B) + n1 * B + n0 := by linarith
    have h' : q1 * d ≤ n2 * B * B + n1 * B + n0 := by
      have : ((q1 * d : ℕ) : ℤ) ≤ ((n2 * B * B + n1 * B + n0 : ℕ) : ℤ) := by push_cast; linarith
      exact_mod_cast this
    have : q1 * d < B * d := by rw [Nat.mul_comm B d]; omega
    exact Nat.lt_of_mul_lt_mul_right this
  rw [Nat.mod_eq_of_lt hq1B]
  obtain ⟨R, hR, hRe, hRm⟩ := tb2Rem_spec q1 n1 n0 d1 d0 hq1B hn1 hn0 hd1 hd0
  rw [hRe]
  simp only
  have hcast : ((n2 * B * B + n1 * B + n0 : ℕ) : ℤ) = (n2 : ℤ) * (B * B) + n1 * B + n0 := by push_cast; ring
  have hdcast : ((d1 * B + d0 : ℕ) : ℤ) = (d : ℤ) := by rw [hd]
  have hdcast' : (d1 : ℤ) * B + d0 = (d : ℤ) := by rw [← hdcast]; push_cast; ring
  have hmod : (R : ℤ) ≡ ((n2 * B * B + n1 * B + n0 : ℕ) : ℤ) - ((q1 : ℤ) + 1) * ((d1 * B + d0 : ℕ) : ℤ)
      [ZMOD ((B : ℤ) * B)] := by
    rw [hcast, hdcast]
    rw [hdcast'] at hRm
    refine hRm.trans ?_
    rw [Int.modEq_iff_dvd]; exact ⟨n2, by ring⟩
  have := tb2Adjust_spec q1 q0 R d1 d0 (n2 * B * B + n1 * B + n0) hd1 hd0 (by rw [hd]; exact hdge) hq0B hR
    (by rw [hd]; exact hnlt) hmod
    (by rw [hcast, hdcast]; exact c1) (by rw [hcast, hdcast]; exact c2) (by rw [hcast, hdcast]; exact c3)
    (by rw [hcast, hdcast]; exact c4)
  rw [hd] at this
  exact this


/-! ### mpir_invert_pi1 -/

/-- phase A: after absorbing d0 into the high limb, p = B − G with G = B² − (B+v)·d1 − d0 ∈ [1, d1] -/
theorem pi1PhaseA_spec (v0 k1 d1 d0 : Nat) (hY : (B + v0) * d1 + k1 = B * B) (hk1 : 1 ≤ k1) (hk2 : k1 ≤ d1)
    (hnorm : B / 2 ≤ d1) (hd1 : d1 < B) (hd0 : d0 < B) (hv0 : v0 < B) :
    ∃ j G, (pi1PhaseA v0 (((d1 * v0) % B + d0) % B) d1 d0).1 + j = v0 ∧ j ≤ 2 ∧
      (pi1PhaseA v0 (((d1 * v0) % B + d0) % B) d1 d0).2 + G = B ∧ 1 ≤ G ∧ G ≤ d1 ∧ G + d0 = k1 + j * d1 := by
  have hYe : d1 * v0 + B * d1 + k1 = B * B := by rw [← hY]; ring
  clear hY
  -- v0 ≥ 1 unless k1 > d0 ; v0 ≥ 2 unless k1 + d1 > d0
  have hv1 : d0 ≥ k1 → 1 ≤ v0 := by
    intro h; by_contra h3
    have : v0 = 0 := by omega
    subst this; simp only [B_eq, Nat.mul_zero] at *; omega
  have hv2 : d0 ≥ k1 + d1 → 2 ≤ v0 := by
    intro h; by_contra h3
    have : v0 = 0 ∨ v0 = 1 := by omega
    rcases this with rfl | rfl
    · simp only [B_eq, Nat.mul_zero] at *; omega
    · simp only [B_eq, Nat.mul_one] at *; omega
  have hYm : (d1 * v0) % B = B - k1 := by
    generalize d1 * v0 = Y at *
    simp only [B_eq] at *; omega
  rw [hYm]
  clear hYm hYe
  unfold pi1PhaseA
  by_cases hc : d0 ≥ k1
  · have hp2 : (B - k1 + d0) % B = d0 - k1 := by simp only [B_eq] at *; omega
    rw [hp2, if_pos (by omega)]
    by_cases hm : d0 - k1 ≥ d1
    · simp only [hm, if_true, and_mask d1 hd1]
      have := hv2 (by omega)
      refine ⟨2, k1 + 2 * d1 - d0, ?_, by omega, ?_, ?_, ?_, ?_⟩ <;> simp only [B_eq] at * <;> omega
    · simp only [hm, if_false, Nat.zero_and]
      have := hv1 hc
      refine ⟨1, k1 + d1 - d0, ?_, by omega, ?_, ?_, ?_, ?_⟩ <;> simp only [B_eq] at * <;> omega
  · have hp2 : (B - k1 + d0) % B = B - k1 + d0 := by simp only [B_eq] at *; omega
    rw [hp2, if_neg (by omega)]
    refine ⟨0, k1 - d0, ?_, by omega, ?_, ?_, ?_, ?_⟩ <;> simp only [B_eq] at * <;> omega

/-- phase B: F(v') = B·G − d0·v + j'·d lands in [1, d] -/
theorem pi1PhaseB_spec (v p G d1 d0 : Nat) (hp : p + G = B) (hG1 : 1 ≤ G) (hG2 : G ≤ d1) (hv : v < B)
    (hnorm : B / 2 ≤ d1) (hd1 : d1 < B) (hd0 : d0 < B) :
    ∃ j, pi1PhaseB v p d1 d0 + j = v ∧ j ≤ 2 ∧ 1 + d0 * v ≤ B * G + j * (d1 * B + d0) ∧
      B * G + j * (d1 * B + d0) ≤ d0 * v + (d1 * B + d0) := by
  have hT : d0 * v < B * B := by
    have h1 : d0 * v ≤ d0 * B := Nat.mul_le_mul_left _ (Nat.le_of_lt hv)
    have h2 : d0 * B < B * B := Nat.mul_lt_mul_of_pos_right hd0 B_pos
    omega
  have hv1 : d0 * v ≥ B → 1 ≤ v := by
    intro h; by_contra h3
    have : v = 0 := by omega
    subst this; simp only [B_eq, Nat.mul_zero] at *; omega
  have hv2 : d0 * v ≥ B → 2 ≤ v := by
    intro h; by_contra h3
    have : v = 0 ∨ v = 1 := by omega
    rcases this with rfl | rfl
    · simp only [B_eq, Nat.mul_zero] at *; omega
    · simp only [B_eq, Nat.mul_one] at *; omega
  unfold pi1PhaseB
  rw [umul_ppmm_eq]
  simp only
  generalize d0 * v = T at *
  by_cases hc : T / B ≥ G
  · have hp' : (p + T / B) % B = T / B - G := by simp only [B_eq] at *; omega
    rw [hp', if_pos (by simp only [B_eq] at *; omega)]
    have := hv2 (by simp only [B_eq] at *; omega)
    by_cases h1 : T / B - G ≥ d1
    · rw [if_pos h1]
      by_cases h2 : (decide (T / B - G > d1) || decide (T % B ≥ d0)) = true
      · rw [if_pos h2]
        simp only [Bool.or_eq_true, decide_eq_true_eq] at h2
        refine ⟨2, ?_, by omega, ?_, ?_⟩ <;> simp only [B_eq] at * <;> omega
      · rw [if_neg h2]
        simp only [Bool.or_eq_true, decide_eq_true_eq, not_or, not_lt, not_le] at h2
        refine ⟨1, ?_, by omega, ?_, ?_⟩ <;> simp only [B_eq] at * <;> omega
    · rw [if_neg h1]
      refine ⟨1, ?_, by omega, ?_, ?_⟩ <;> simp only [B_eq] at * <;> omega
  · have hp' : (p + T / B) % B = p + T / B := by simp only [B_eq] at *; omega
    rw [hp', if_neg (by omega)]
    refine ⟨0, ?_, by omega, ?_, ?_⟩ <;> simp only [B_eq] at * <;> omega

theorem invert_pi1_unfold (d1 d0 : Nat) :
    invert_pi1 d1 d0 =
      pi1PhaseB (pi1PhaseA (invert_limb d1) (((d1 * invert_limb d1) % B + d0) % B) d1 d0).1
        (pi1PhaseA (invert_limb d1) (((d1 * invert_limb d1) % B + d0) % B) d1 d0).2 d1 d0 := rfl

/-- mpir_invert_pi1 returns the 3/2 reciprocal ⌊(B³−1)/(d1·B+d0)⌋ − B for every normalised d1 and every d0 -/
theorem invert_pi1_eq (d1 d0 : Nat) (hnorm : B / 2 ≤ d1) (hd1 : d1 < B) (hd0 : d0 < B) :
    invert_pi1 d1 d0 = (B * B * B - 1) / (d1 * B + d0) - B := by
  obtain ⟨hv, hv1, hv2⟩ := invert_limb_bounds d1 hnorm hd1
  have hBB : 0 < B * B := Nat.mul_pos B_pos B_pos
  rw [invert_pi1_unfold]
  generalize invert_limb d1 = v0 at *
  -- k1 = B² − (B+v0)·d1
  obtain ⟨k1, hY, hk1, hk2⟩ : ∃ k1, (B + v0) * d1 + k1 = B * B ∧ 1 ≤ k1 ∧ k1 ≤ d1 := by
    refine ⟨B * B - (B + v0) * d1, by omega, by omega, ?_⟩
    have : (B + v0 + 1) * d1 = (B + v0) * d1 + d1 := by ring
    omega
  obtain ⟨j, G, hvA, hj, hpA, hG1, hG2, hGe⟩ := pi1PhaseA_spec v0 k1 d1 d0 hY hk1 hk2 hnorm hd1 hd0 hv
  generalize pi1PhaseA v0 (((d1 * v0) % B + d0) % B) d1 d0 = resA at *
  obtain ⟨vA, pA⟩ := resA
  have hvA : vA + j = v0 := hvA
  have hpA : pA + G = B := hpA
  show pi1PhaseB vA pA d1 d0 = _
  obtain ⟨j', hvB, hj', hF1, hF2⟩ := pi1PhaseB_spec vA pA G d1 d0 hpA hG1 hG2 (by omega) hnorm hd1 hd0
  generalize pi1PhaseB vA pA d1 d0 = vB at *
  -- (B + vB)·d + F = B³
  have e1 : (B + vA) * d1 + j * d1 + k1 = B * B := by rw [← hY, ← hvA]; ring
  have e2 : (B + vB) * (d1 * B + d0) + j' * (d1 * B + d0) = ((B + vA) * d1) * B + B * d0 + d0 * vA := by
    rw [← hvB]; ring
  have hd0' : 0 < d1 * B + d0 := by simp only [B_eq] at *; omega
  generalize hd : d1 * B + d0 = d at *
  have hjd : j * d1 ≤ 2 * d1 := Nat.mul_le_mul_right _ hj
  have hj'd : j' * d ≤ 2 * d := Nat.mul_le_mul_right _ hj'
  generalize (B + vA) * d1 = P at *
  generalize d0 * vA = Q at *
  generalize j * d1 = J at *
  generalize j' * d = J' at *
  generalize hE : (B + vB) * d = E at *
  have hBBB : B * B * B = 6277101735386680763835789423207666416102355444464034512896 := by
    rw [B_eq]
  have key : E + (B * G + J') = B * B * B + Q := by
    rw [hBBB]; simp only [B_eq] at *; omega
  have lo : (B + vB) * d ≤ B * B * B - 1 := by rw [hE]; omega
  have hi : B * B * B - 1 < (B + vB + 1) * d := by
    have : (B + vB + 1) * d = (B + vB) * d + d := by ring
    rw [this, hE]; omega
  rw [Nat.div_eq_of_lt_le lo hi]; omega

end Mpir.DivWord
