/- One Newton iteration of mpn_binvert (Mpir.Binvert.step) keeps the invariant "rp[0..rn) inverts U modulo B^rn,
   every access was in range". -/
import MpirProofs.Lemmas.Binvert
import MpirProofs.Lemmas.KernelsMem
namespace Mpir.Binvert
open Mpir Mpir.Powm Mpir.PowmL Mpir.Mm1

/-- the invariant of the Newton loop: all accesses so far in range, `rp` has n limbs, `xp` has `itch` limbs,
    `rp[0..rn)` are limbs and invert `U` modulo `B^rn`. -/
def Inv (n itch U : Nat) (s : St) (rn : Nat) : Prop :=
  s.ok = true ∧ s.rp.length = n ∧ s.xp.length = itch ∧ Limbs (s.rp.take rn) ∧ (val (s.rp.take rn) * U) % B ^ rn = 1

/-- the value written by `mpn_neg (.., {t, k})` -/
theorem neg_n_val (t : List Nat) (ht : Limbs t) :
    Limbs (neg_n t).1 ∧ (neg_n t).1.length = t.length ∧ val (neg_n t).1 = (B ^ t.length - val t) % B ^ t.length := by
  obtain ⟨h1, h2, h3, h4⟩ := negNC_zero_val t ht
  have hlt := val_lt t ht
  have hpos : 0 < B ^ t.length := Nat.pow_pos B_pos
  refine ⟨h3, h4, ?_⟩
  unfold neg_n
  rcases h2 with ⟨c0, v0⟩ | ⟨c1, v1⟩
  · rw [c0] at h1; rw [v0] at h1 ⊢; simp at h1 ⊢; exact h1
  · rw [c1] at h1
    rw [Nat.mod_eq_of_lt (by omega)]; omega

/-- the arithmetic of the step on values: from the residue `Y` of `U'·R` modulo `B^m − 1` to the new inverse -/
theorem step_val (U R Y rn newrn m : Nat) (h1 : 1 ≤ rn) (h2 : rn < newrn) (h3 : newrn ≤ 2 * rn)
    (hm1 : newrn ≤ m) (hR : R < B ^ rn) (hRU : (R * U) % B ^ rn = 1)
    (hY : Y < B ^ m) (hmod : Y % (B ^ m - 1) = (U % B ^ newrn * R) % (B ^ m - 1))
    (h0 : Y = 0 ↔ U % B ^ newrn * R = 0) :
    ((R + B ^ rn * ((B ^ (newrn - rn) - (R % B ^ (newrn - rn) * (Y / B ^ rn % B ^ (newrn - rn))) % B ^ (newrn - rn))
      % B ^ (newrn - rn))) * U) % B ^ newrn = 1 := by
  have hB2 : 2 ≤ B := by rw [B_eq]; norm_num
  have ha : 2 ≤ B ^ rn := le_trans hB2 (Nat.le_self_pow (by omega) B)
  have hk : 2 ≤ B ^ (newrn - rn) := le_trans hB2 (Nat.le_self_pow (by omega) B)
  have hc : 1 ≤ B ^ (m - rn) := Nat.pow_pos B_pos
  have hac : B ^ rn * B ^ (m - rn) = B ^ m := by rw [← pow_add]; congr 1; omega
  have hab : B ^ rn * B ^ (newrn - rn) = B ^ newrn := by rw [← pow_add]; congr 1; omega
  have hbd : B ^ rn = B ^ (newrn - rn) * B ^ (rn - (newrn - rn)) := by rw [← pow_add]; congr 1; omega
  have hkc : B ^ (newrn - rn) ∣ B ^ (m - rn) := pow_dvd_pow B (by omega)
  set U' := U % B ^ newrn with hU'
  -- U'·R ≡ 1 modulo B^rn
  have hP1 : (U' * R) % B ^ rn = 1 := by
    have : U' % B ^ rn = U % B ^ rn := Nat.mod_mod_of_dvd U (pow_dvd_pow B (by omega))
    rw [Nat.mul_mod, this, ← Nat.mul_mod, Nat.mul_comm]; exact hRU
  have hPX : U' * R = 1 + (U' * R / B ^ rn) * B ^ rn := by
    have := Nat.mod_add_div (U' * R) (B ^ rn)
    rw [hP1] at this; rw [Nat.mul_comm (U' * R / B ^ rn)]; exact this.symm
  set X := U' * R / B ^ rn with hX
  have hU'lt : U' < B ^ newrn := Nat.mod_lt _ (Nat.pow_pos B_pos)
  have hPlt : 1 + X * B ^ rn < B ^ rn * B ^ (m - rn) * (B ^ rn - 1) := by
    rw [← hPX, hac]
    have h5 : B ^ newrn ≤ B ^ m := Nat.pow_le_pow_right B_pos hm1
    have h6 : U' * R ≤ U' * (B ^ rn - 1) := Nat.mul_le_mul_left _ (by omega)
    have h7 : U' * (B ^ rn - 1) < B ^ m * (B ^ rn - 1) := Nat.mul_lt_mul_of_pos_right (by omega) (by omega)
    omega
  have hYne : Y ≠ 0 := by
    intro h; have := h0.mp h; rw [hPX] at this; omega
  have hw := Mpir.Binvert.wrap_recover (B ^ rn) (B ^ (m - rn)) X Y ha hc hPlt (by rw [hac]; omega) hYne
    (by rw [hac, ← hPX]; exact hmod)
  have hx : Y / B ^ rn % B ^ (newrn - rn) = X % B ^ (newrn - rn) := by
    rw [hw, Nat.mod_mod_of_dvd _ hkc]
  rw [hx, ← hab]
  exact Mpir.Binvert.newton_update (B ^ rn) (B ^ (newrn - rn)) (B ^ (rn - (newrn - rn))) U U' R X _ hk hbd (Nat.pow_pos B_pos)
    hRU (by rw [hab]) hPX rfl

/-- **one Newton iteration keeps the invariant** (both the loop body and the last iteration). -/
theorem step_inv (mthr : Nat) (pp1 : List Nat → List Nat → Nat → Nat → List Nat × Nat) (hpp1 : P1Spec pp1)
    (nextSize : Nat → Nat) (jk : Nat → Nat) (up : List Nat) (last : Bool) (s : St) (rn newrn n itch : Nat)
    (hup : Limbs up) (hlen : up.length = n) (hI : Inv n itch (val up) s rn)
    (h1 : 1 ≤ rn) (h2 : rn < newrn) (h3 : newrn ≤ 2 * rn) (h4 : newrn ≤ n)
    (hm1 : newrn ≤ nextSize newrn) (hm2 : nextSize newrn - newrn < rn)
    (hm3 : nextSize newrn + (5 * nextSize newrn + 220) ≤ itch)
    (hl : last = false → 2 * newrn - rn ≤ n) :
    Inv n itch (val up) (step mthr pp1 nextSize jk up last s rn newrn) newrn := by
  obtain ⟨hok, hrl, hxl, hRL, hRU⟩ := hI
  have hRlen : (s.rp.take rn).length = rn := by simp; omega
  have hulen : (up.take newrn).length = newrn := by simp; omega
  have huL : Limbs (up.take newrn) := Limbs_take hup _
  -- the loads of the operands
  have hu : load up 0 newrn = (up.take newrn, true) := by rw [load_eq _ _ _ (by omega)]; simp
  have hr : load s.rp 0 rn = (s.rp.take rn, true) := by rw [load_eq _ _ _ (by omega)]; simp
  have hr2 : load s.rp 0 (newrn - rn) = (s.rp.take (newrn - rn), true) := by rw [load_eq _ _ _ (by omega)]; simp
  -- the wrap-around product
  obtain ⟨p2, pL, plen, pmod, p0, _⟩ := mpn_mulmod_bnm1_val mthr pp1 hpp1 (nextSize newrn) (up.take newrn) (s.rp.take rn)
    huL hRL (by omega) (by omega) (by omega)
  rw [hulen, hRlen, Nat.min_eq_left (by omega)] at plen
  have hstep : step mthr pp1 nextSize jk up last s rn newrn = step mthr pp1 nextSize jk up last s rn newrn := rfl
  unfold step at hstep ⊢
  simp only [hu, hr, hr2]
  generalize bnm1 mthr pp1 (nextSize newrn) (up.take newrn) (s.rp.take rn) = p at *
  clear hstep
  set m := nextSize newrn with hm
  -- xp after the product
  have x1ok : (store s.xp 0 p.1).2 = true := by rw [store_eq _ _ _ (by omega)]
  have x1len := store_length s.xp 0 p.1
  have x1take : (store s.xp 0 p.1).1.take m = p.1 := by
    have := store_take_hi s.xp 0 p.1 (by omega)
    rw [plen] at this; simpa using this
  generalize store s.xp 0 p.1 = x1 at *
  -- mpn_sub_1
  have s1ok : (load x1.1 0 (rn - (m - newrn))).2 = true := by rw [load_eq _ _ _ (by omega)]
  have s1len : (load x1.1 0 (rn - (m - newrn))).1.length = rn - (m - newrn) := by
    rw [load_eq _ _ _ (by omega)]; simp; omega
  generalize load x1.1 0 (rn - (m - newrn)) = s1 at *
  have sblen : (sub_1 s1.1 1).1.length = rn - (m - newrn) := by rw [Mpir.Mem.sub_1_length, s1len]
  have x2ok : (store x1.1 m (sub_1 s1.1 1).1).2 = true := by rw [store_eq _ _ _ (by omega)]
  have x2len := store_length x1.1 m (sub_1 s1.1 1).1
  have x2take : (store x1.1 m (sub_1 s1.1 1).1).1.take m = p.1 := by
    rw [store_take_lo _ _ _ (by omega) m (le_refl _), x1take]
  generalize store x1.1 m (sub_1 s1.1 1).1 = x2 at *
  -- the limbs X = xp[rn .. newrn)
  have xok : (load x2.1 rn (newrn - rn)).2 = true := by rw [load_eq _ _ _ (by omega)]
  have xval : (load x2.1 rn (newrn - rn)).1 = (p.1.drop rn).take (newrn - rn) := by
    rw [load_eq _ _ _ (by omega)]
    exact window_of_take m rn (newrn - rn) (by rw [x2take, List.take_of_length_le (by omega)]) (by omega)
  generalize load x2.1 rn (newrn - rn) = x at *
  have hk2 : 2 * (newrn - rn) ≤ newrn := by omega
  set k := newrn - rn with hk
  have T0len : (toLimbs k (val (s.rp.take k) * val x.1)).length = k := toLimbs_length _ _
  have T0L : Limbs (toLimbs k (val (s.rp.take k) * val x.1)) := Limbs_toLimbs _ _
  have T0v : val (toLimbs k (val (s.rp.take k) * val x.1)) = (val (s.rp.take k) * val x.1) % B ^ k := val_toLimbs _ _
  have prodlen : (toLimbs k (val (s.rp.take k) * val x.1) ++ toLimbs k (jk newrn)).length = 2 * k := by
    rw [List.length_append, toLimbs_length, toLimbs_length]; omega
  have prodtake : (toLimbs k (val (s.rp.take k) * val x.1) ++ toLimbs k (jk newrn)).take k =
      toLimbs k (val (s.rp.take k) * val x.1) := by
    rw [List.take_append_of_le_length (by omega), List.take_of_length_le (by omega)]
  -- the values of the two factors
  have hRk : val (s.rp.take k) = val (s.rp.take rn) % B ^ k := by
    rw [Powm.val_take_mod _ hRL, List.take_take, Nat.min_eq_left (by omega)]
  have hxv : val x.1 = val p.1 / B ^ rn % B ^ k := by
    rw [xval, Powm.val_drop_div _ pL, Powm.val_take_mod _ (Limbs_drop pL _)]
  have huv : val (up.take newrn) = val up % B ^ newrn := (Powm.val_take_mod _ hup _).symm
  obtain ⟨NL, Nlen, Nv⟩ := neg_n_val _ T0L
  rw [T0len] at Nlen Nv
  have Nv' : val (neg_n (toLimbs k (val (s.rp.take k) * val x.1))).1 =
      (B ^ k - (val (s.rp.take rn) % B ^ k * (val p.1 / B ^ rn % B ^ k)) % B ^ k) % B ^ k := by
    rw [Nv, T0v, hRk, hxv]
  have hRlt := val_lt _ hRL
  rw [hRlen] at hRlt
  have hYlt := val_lt _ pL
  rw [plen] at hYlt
  rw [huv] at pmod p0
  have hfinal := step_val (val up) (val (s.rp.take rn)) (val p.1) rn newrn m h1 h2 h3 hm1 hRlt hRU hYlt pmod p0
  rw [← hk, ← Nv'] at hfinal
  have fin : ∀ rp' : List Nat, rp'.take newrn = s.rp.take rn ++ (neg_n (toLimbs k (val (s.rp.take k) * val x.1))).1 →
      Limbs (rp'.take newrn) ∧ (val (rp'.take newrn) * val up) % B ^ newrn = 1 := by
    intro rp' h
    rw [h, val_append, hRlen]
    exact ⟨Limbs_append.mpr ⟨hRL, NL⟩, hfinal⟩
  generalize toLimbs k (val (s.rp.take k) * val x.1) = T0 at *
  generalize hN : (neg_n T0).1 = N at *
  rw [hxl] at x1len
  rw [x1len] at x2len
  cases last with
  | true =>
    simp only [if_true]
    have x3ok : (store x2.1 newrn (T0 ++ toLimbs k (jk newrn))).2 = true := by rw [store_eq _ _ _ (by omega)]
    have x3len := store_length x2.1 newrn (T0 ++ toLimbs k (jk newrn))
    have x3rd := store_read x2.1 newrn (T0 ++ toLimbs k (jk newrn)) (by omega) k (by omega)
    rw [prodtake] at x3rd
    generalize store x2.1 newrn (T0 ++ toLimbs k (jk newrn)) = x3 at *
    have tok : (load x3.1 newrn k).2 = true := by rw [load_eq _ _ _ (by omega)]
    have tval : (load x3.1 newrn k).1 = T0 := by rw [load_eq _ _ _ (by omega)]; exact x3rd
    generalize load x3.1 newrn k = t at *
    rw [tval, hN]
    have rok : (store s.rp rn N).2 = true := by rw [store_eq _ _ _ (by omega)]
    have rlen := store_length s.rp rn N
    have rtake := store_take_hi s.rp rn N (by omega)
    rw [Nlen, show rn + k = newrn by omega] at rtake
    generalize store s.rp rn N = r1 at *
    obtain ⟨f1, f2⟩ := fin r1.1 rtake
    refine ⟨?_, by rw [rlen, hrl], by rw [x3len, x2len], f1, f2⟩
    simp [hok, p2, x1ok, s1ok, x2ok, xok, x3ok, tok, rok, hm1, hm2, hm3, hxl]
    omega
  | false =>
    simp only [Bool.false_eq_true, if_false]
    have hl' := hl rfl
    have r1ok : (store s.rp rn (T0 ++ toLimbs k (jk newrn))).2 = true := by rw [store_eq _ _ _ (by omega)]
    have r1len := store_length s.rp rn (T0 ++ toLimbs k (jk newrn))
    have r1rd := store_read s.rp rn (T0 ++ toLimbs k (jk newrn)) (by omega) k (by omega)
    have r1lo := store_take_lo s.rp rn (T0 ++ toLimbs k (jk newrn)) (by omega) rn (le_refl _)
    rw [prodtake] at r1rd
    generalize store s.rp rn (T0 ++ toLimbs k (jk newrn)) = r1 at *
    have tok : (load r1.1 rn k).2 = true := by rw [load_eq _ _ _ (by omega)]
    have tval : (load r1.1 rn k).1 = T0 := by rw [load_eq _ _ _ (by omega)]; exact r1rd
    generalize load r1.1 rn k = t at *
    rw [tval, hN]
    have rok : (store r1.1 rn N).2 = true := by rw [store_eq _ _ _ (by omega)]
    have rlen := store_length r1.1 rn N
    have rtake := store_take_hi r1.1 rn N (by omega)
    rw [Nlen, show rn + k = newrn by omega, r1lo] at rtake
    generalize store r1.1 rn N = r2 at *
    obtain ⟨f1, f2⟩ := fin r2.1 rtake
    refine ⟨?_, by rw [rlen, r1len, hrl], x2len, f1, f2⟩
    simp [hok, p2, x1ok, s1ok, x2ok, xok, r1ok, tok, rok, hm1, hm2, hm3, hxl]
    omega

end Mpir.Binvert
