/- Helper lemmas for the model of mpn_tdiv_qr / mpn_divrem (Mpir/Model/TdivQr.lean), part 1:
   limb vectors and their values, the contracts of the inner divisions, shifts by count_leading_zeros. -/
import MpirProofs.Props.C02_sb
import MpirProofs.Lemmas.DivWordHensel
import Mpir.Model.TdivQr
namespace Mpir.TdivQr
open Mpir Mpir.DivWord Mpir.SbDiv

/-! ### limb vectors -/

theorem Bpow_pos (k : Nat) : 0 < B ^ k := Nat.pow_pos B_pos

theorem val_toLimbs : ∀ (k v : Nat), val (toLimbs k v) = v % B ^ k ∧ (toLimbs k v).length = k ∧ Limbs (toLimbs k v)
  | 0, v => by simp [toLimbs, Nat.mod_one, Limbs_nil]
  | k + 1, v => by
    obtain ⟨ih1, ih2, ih3⟩ := val_toLimbs k (v / B)
    refine ⟨?_, by simp [toLimbs, ih2], ?_⟩
    · simp only [toLimbs, val_cons, ih1]
      rw [Nat.pow_succ, Nat.mul_comm (B ^ k) B, Nat.mod_mul]
    · simp only [toLimbs]
      exact Limbs_cons.mpr ⟨Nat.mod_lt _ B_pos, ih3⟩

theorem toLimbs_of_val (l : List Nat) (h : Limbs l) : toLimbs l.length (val l) = l := by
  have := toLimbs_val_add l 0 h
  rwa [Nat.mul_zero, Nat.add_zero] at this

/-- a limb vector is determined by its length and its value -/
theorem eq_toLimbs (l : List Nat) (k v : Nat) (h : Limbs l) (hk : l.length = k) (hv : val l = v) : l = toLimbs k v := by
  rw [← hk, ← hv]; exact (toLimbs_of_val l h).symm

theorem val_toLimbs_lt (k v : Nat) (h : v < B ^ k) : val (toLimbs k v) = v := by
  rw [(val_toLimbs k v).1, Nat.mod_eq_of_lt h]

/-- a vector of k+1 limbs lies between top·B^k and (top+1)·B^k -/
theorem top_bounds (l : List Nat) (k : Nat) (hl : Limbs l) (h : l.length = k + 1) :
    l.getD k 0 * B ^ k ≤ val l ∧ val l < (l.getD k 0 + 1) * B ^ k := by
  have e := val_take_top l k h
  have hlt := val_lt (l.take k) (Limbs_take hl k)
  rw [List.length_take, h, Nat.min_eq_left (Nat.le_succ k)] at hlt
  constructor
  · rw [← e, Nat.mul_comm]; omega
  · rw [← e, Nat.add_mul, Nat.one_mul, Nat.mul_comm]; omega

theorem val_replicate_zero (k : Nat) : val (List.replicate k 0) = 0 := by
  induction k with
  | zero => rfl
  | succ k ih => simp [List.replicate_succ, val_cons, ih]

theorem Limbs_replicate_zero (k : Nat) : Limbs (List.replicate k 0) := by
  intro x hx; rw [List.eq_of_mem_replicate hx]; exact B_pos

theorem val_snoc_zero (l : List Nat) : val (l ++ [0]) = val l := by
  rw [val_top1]; simp

theorem getD_snoc (l : List Nat) (x : Nat) : (l ++ [x]).getD l.length 0 = x := by
  simp [List.getD_eq_getElem?_getD]

theorem take_snoc (l : List Nat) (x : Nat) : (l ++ [x]).take l.length = l := by
  simp

/-! ### the contract of the normalised divisions -/

/-- what `divQrSpec` returns: n = (qh·B^qn + q)·d + r with r < d, proper limb vectors of the documented lengths;
    only d ≠ 0 is needed -/
theorem divQrSpec_spec (n d : List Nat) (hd : Limbs d) (hd0 : 0 < val d) :
    val n = ((divQrSpec n d).2.2 * B ^ (n.length - d.length) + val (divQrSpec n d).1) * val d + val (divQrSpec n d).2.1 ∧
    val (divQrSpec n d).2.1 = val n % val d ∧
    (divQrSpec n d).2.2 * B ^ (n.length - d.length) + val (divQrSpec n d).1 = val n / val d ∧
    Limbs (divQrSpec n d).1 ∧ (divQrSpec n d).1.length = n.length - d.length ∧
    Limbs (divQrSpec n d).2.1 ∧ (divQrSpec n d).2.1.length = d.length := by
  unfold divQrSpec
  simp only []
  obtain ⟨q1, q2, q3⟩ := val_toLimbs (n.length - d.length) (val n / val d)
  obtain ⟨r1, r2, r3⟩ := val_toLimbs d.length (val n % val d)
  have hrlt : val n % val d < B ^ d.length := Nat.lt_trans (Nat.mod_lt _ hd0) (val_lt d hd)
  have hr : val (toLimbs d.length (val n % val d)) = val n % val d := by rw [r1, Nat.mod_eq_of_lt hrlt]
  have hq : val n / val d / B ^ (n.length - d.length) * B ^ (n.length - d.length) +
      val (toLimbs (n.length - d.length) (val n / val d)) = val n / val d := by
    rw [q1]; exact Nat.div_add_mod' _ _
  refine ⟨?_, hr, hq, q3, q2, r3, r2⟩
  rw [hq, hr, Nat.mul_comm]; exact (Nat.div_add_mod _ _).symm

/-- when the quotient fits into nn-dn limbs the returned high limb is 0 (the `ASSERT_NOCARRY`s of tdiv_qr.c) -/
theorem divQrSpec_fit (n d : List Nat) (hd : Limbs d) (hd0 : 0 < val d)
    (hfit : val n < val d * B ^ (n.length - d.length)) :
    (divQrSpec n d).2.2 = 0 ∧ val (divQrSpec n d).1 = val n / val d := by
  obtain ⟨_, _, hq, _⟩ := divQrSpec_spec n d hd hd0
  have hlt : val n / val d < B ^ (n.length - d.length) := by
    rw [Nat.div_lt_iff_lt_mul hd0, Nat.mul_comm]; exact hfit
  have h0 : (divQrSpec n d).2.2 = 0 := by
    show val n / val d / B ^ (n.length - d.length) = 0
    exact Nat.div_eq_of_lt hlt
  rw [h0, Nat.zero_mul, Nat.zero_add] at hq
  exact ⟨h0, hq⟩

/-- the top limb of a vector with B^len ≤ 2·value has its high bit set -/
theorem top_of_norm (d : List Nat) (k : Nat) (hd : Limbs d) (hk : d.length = k + 1) (h : B ^ (k + 1) ≤ 2 * val d) :
    B / 2 ≤ d.getD k 0 := by
  obtain ⟨_, hu⟩ := top_bounds d k hd hk
  have hP := Bpow_pos k
  rw [pow_succ] at h
  by_contra hc
  have hc' : d.getD k 0 + 1 ≤ B / 2 := by omega
  have h1 : (d.getD k 0 + 1) * B ^ k ≤ B / 2 * B ^ k := Nat.mul_le_mul_right _ hc'
  have h2 : 2 * (B / 2 * B ^ k) = B ^ k * B := by
    have : 2 * (B / 2) = B := by decide
    calc 2 * (B / 2 * B ^ k) = (2 * (B / 2)) * B ^ k := by ring
      _ = B ^ k * B := by rw [this]; ring
  omega

theorem norm_of_top (d : List Nat) (k : Nat) (hd : Limbs d) (hk : d.length = k + 1) (h : B / 2 ≤ d.getD k 0) :
    B ^ (k + 1) ≤ 2 * val d := by
  obtain ⟨hl, _⟩ := top_bounds d k hd hk
  have h1 : B / 2 * B ^ k ≤ d.getD k 0 * B ^ k := Nat.mul_le_mul_right _ h
  have h2 : 2 * (B / 2 * B ^ k) = B ^ (k + 1) := by
    have : 2 * (B / 2) = B := by decide
    rw [pow_succ]
    calc 2 * (B / 2 * B ^ k) = (2 * (B / 2)) * B ^ k := by ring
      _ = B ^ k * B := by rw [this]; ring
  omega

/-- every callee the dispatch can choose returns the contract: schoolbook by the theorem of C02_sb, the others by assumption -/
theorem callDivQr_eq (c : Callee) (n d : List Nat) (hn : Limbs n) (hd : Limbs d) (hdn : 3 ≤ d.length)
    (hnn : d.length ≤ n.length) (hnorm : B / 2 ≤ d.getD (d.length - 1) 0) :
    callDivQr c n d = divQrSpec n d := by
  cases c with
  | dc => rfl
  | inv => rfl
  | sb =>
    have h := sb_div_qr_contract n d _ hdn hnn hnorm hn hd rfl
    have hnd : DivZ.normalised d = true := by
      obtain ⟨k, hk⟩ : ∃ k, d.length = k + 2 := ⟨d.length - 2, by omega⟩
      have hsplit := split_top2 d k hk
      rw [hk, show k + 2 - 1 = k + 1 from rfl] at hnorm
      rw [hsplit]; exact normalised_of_top _ _ _ hnorm
    unfold DivZ.mpnDivQr at h
    rw [if_neg (by simp [hnd]; omega)] at h
    exact (Option.some.inj h).symm

/-- mpn_divrem_2 without fraction limbs is the same contract -/
theorem divrem_2_zero (n d : List Nat) (hd : d.length = 2) : divrem_2 0 n d = divQrSpec n d := by
  unfold divrem_2 divQrSpec
  simp [hd]

/-! ### shifts -/

theorem lshift_val (u : List Nat) (c : Nat) (hu : Limbs u) (hc : c ≤ 64) :
    val (lshift u c).1 + B ^ u.length * (lshift u c).2 = val u * 2 ^ c ∧
    (lshift u c).2 < 2 ^ c ∧ Limbs (lshift u c).1 ∧ (lshift u c).1.length = u.length := by
  have h := lshiftGo_val c hc u 0 hu (by positivity)
  rw [Nat.add_zero] at h
  exact h

theorem rshift_val_div (u : List Nat) (c : Nat) (hu : Limbs u) (hne : u ≠ []) (hc1 : 1 ≤ c) (hc : c ≤ 63) :
    val (rshift u c).1 = val u / 2 ^ c ∧ Limbs (rshift u c).1 ∧ (rshift u c).1.length = u.length := by
  match u, hne with
  | x :: xs, _ =>
    obtain ⟨_, _, hl, hlen, hv, _⟩ := rshift_val' x xs c hu hc1 hc
    exact ⟨hv, hl, hlen⟩

/-- the C test `(x & GMP_NUMB_HIGHBIT) == 0` -/
theorem highbit_zero (x : Nat) (hx : x < B) : (x &&& HIGHBIT = 0) ↔ x < B / 2 := by
  have h := highbit_test x hx
  by_cases hlt : x < B / 2
  · have : decide (B / 2 ≤ x) = false := by simp; omega
    rw [this] at h
    simp only [bne_eq_false_iff_eq] at h
    exact ⟨fun _ => hlt, fun _ => h⟩
  · have : decide (B / 2 ≤ x) = true := by simp; omega
    rw [this] at h
    simp only [bne_iff_ne, ne_eq] at h
    exact ⟨fun e => absurd e h, fun e => absurd e hlt⟩

theorem two_pow_le_half (c : Nat) (hc : c ≤ 63) : 2 ^ c ≤ B / 2 := by
  have : B / 2 = 2 ^ 63 := rfl
  rw [this]; exact Nat.pow_le_pow_right (by decide) hc

/-- `(N·c) / (D·c)` and `(N·c) % (D·c)` -/
theorem scaled_divmod (N D c : Nat) (hc : 0 < c) :
    (N * c) / (D * c) = N / D ∧ (N * c) % (D * c) = (N % D) * c := by
  constructor
  · exact Nat.mul_div_mul_right N D hc
  · rw [Nat.mul_comm N c, Nat.mul_comm D c, Nat.mul_mod_mul_left, Nat.mul_comm]

/-- `x·2^c < B` leaves room for one more: `(x+1)·2^c ≤ B` -/
theorem succ_mul_two_pow_le (x c : Nat) (hc : c ≤ 64) (h : x * 2 ^ c < B) : (x + 1) * 2 ^ c ≤ B := by
  have hB := Mpir.B_split c hc
  have hp : 0 < 2 ^ c := by positivity
  rw [hB, Nat.mul_comm (2 ^ c)] at h ⊢
  have : x < 2 ^ (64 - c) := Nat.lt_of_mul_lt_mul_right h
  exact Nat.mul_le_mul_right _ this

/-- shifting a vector left by the leading zeros of its non-zero top limb: nothing is shifted out, the result is
    normalised (tdiv_qr.c:118, :73-74) -/
theorem lshift_norm (d : List Nat) (k : Nat) (hd : Limbs d) (hk : d.length = k + 1) (htop : d.getD k 0 ≠ 0) :
    count_leading_zeros (d.getD k 0) ≤ 63 ∧
    val (lshift d (count_leading_zeros (d.getD k 0))).1 = val d * 2 ^ count_leading_zeros (d.getD k 0) ∧
    B ^ (k + 1) ≤ 2 * val (lshift d (count_leading_zeros (d.getD k 0))).1 ∧
    Limbs (lshift d (count_leading_zeros (d.getD k 0))).1 ∧
    (lshift d (count_leading_zeros (d.getD k 0))).1.length = k + 1 := by
  obtain ⟨hc, hlo, hhi⟩ := clz_spec (d.getD k 0) htop (limb_getD hd k)
  generalize count_leading_zeros (d.getD k 0) = c at *
  obtain ⟨hv, _, hl, hlen⟩ := lshift_val d c hd (by omega)
  obtain ⟨hb1, hb2⟩ := top_bounds d k hd hk
  have hP := Bpow_pos k
  have hp : 0 < 2 ^ c := by positivity
  have h1 := succ_mul_two_pow_le _ c (by omega) hhi
  have hlt : val d * 2 ^ c < B ^ (k + 1) := by
    calc val d * 2 ^ c < (d.getD k 0 + 1) * B ^ k * 2 ^ c := Nat.mul_lt_mul_of_pos_right hb2 hp
      _ = (d.getD k 0 + 1) * 2 ^ c * B ^ k := by ring
      _ ≤ B * B ^ k := Nat.mul_le_mul_right _ h1
      _ = B ^ (k + 1) := by rw [pow_succ]; ring
  rw [hk] at hv
  have hcy : (lshift d c).2 = 0 := by
    by_contra hne
    have : B ^ (k + 1) * 1 ≤ B ^ (k + 1) * (lshift d c).2 := Nat.mul_le_mul_left _ (Nat.pos_of_ne_zero hne)
    omega
  rw [hcy, Nat.mul_zero, Nat.add_zero] at hv
  refine ⟨hc, hv, ?_, hl, by rw [hlen, hk]⟩
  rw [hv]
  have h2 : B / 2 * B ^ k ≤ d.getD k 0 * 2 ^ c * B ^ k := Nat.mul_le_mul_right _ hlo
  have h3 : d.getD k 0 * 2 ^ c * B ^ k ≤ val d * 2 ^ c := by
    calc d.getD k 0 * 2 ^ c * B ^ k = d.getD k 0 * B ^ k * 2 ^ c := by ring
      _ ≤ val d * 2 ^ c := Nat.mul_le_mul_right _ hb1
  have h4 : 2 * (B / 2 * B ^ k) = B ^ (k + 1) := by
    have : 2 * (B / 2) = B := by decide
    rw [pow_succ]
    calc 2 * (B / 2 * B ^ k) = (2 * (B / 2)) * B ^ k := by ring
      _ = B ^ k * B := by rw [this]; ring
  omega

/-- the shifted dividend with its extra top limb (tdiv_qr.c:76-77, :120-121) -/
theorem shifted_dividend (n : List Nat) (c : Nat) (hn : Limbs n) (hc : c ≤ 63) :
    val ((lshift n c).1 ++ [(lshift n c).2]) = val n * 2 ^ c ∧ Limbs ((lshift n c).1 ++ [(lshift n c).2]) ∧
    ((lshift n c).1 ++ [(lshift n c).2]).length = n.length + 1 ∧ (lshift n c).2 < 2 ^ c := by
  obtain ⟨hv, hcy, hl, hlen⟩ := lshift_val n c hn (by omega)
  have h2 := two_pow_le_half c hc
  refine ⟨?_, Limbs_snoc hl (by have : B / 2 < B := by decide
                                omega), by simp [hlen], hcy⟩
  rw [val_top1, hlen]; exact hv

/-- what mpn_tdiv_qr has to deliver: ⌊N/D⌋ on nn-dn+1 limbs, N mod D on dn limbs, no failed assertion -/
def Spec (n d : List Nat) (res : List Nat × List Nat × Bool) : Prop :=
  val res.1 = val n / val d ∧ val res.2.1 = val n % val d ∧ Limbs res.1 ∧ res.1.length = n.length - d.length + 1 ∧
  Limbs res.2.1 ∧ res.2.1.length = d.length ∧ res.2.2 = true

/-- the divisor is at least B^(dn-1) and the dividend fits: `adjust` is a conservative test for the quotient size
    (tdiv_qr.c:105) -/
theorem fit_of_adjust (n d : List Nat) (hn : Limbs n) (hd : Limbs d) (hdn : 1 ≤ d.length) (hnn : d.length ≤ n.length)
    (htop : d.getD (d.length - 1) 0 ≠ 0) (adjust : Nat)
    (hadj : adjust = if n.getD (n.length - 1) 0 ≥ d.getD (d.length - 1) 0 then 1 else 0) :
    B ^ (d.length - 1) ≤ val d ∧ val n < val d * B ^ (n.length + adjust - d.length) := by
  obtain ⟨k, hk⟩ : ∃ k, d.length = k + 1 := ⟨d.length - 1, by omega⟩
  obtain ⟨j, hj⟩ : ∃ j, n.length = j + 1 := ⟨n.length - 1, by omega⟩
  rw [hk, hj] at hadj ⊢
  rw [hk] at htop
  simp only [Nat.add_sub_cancel] at hadj htop ⊢
  obtain ⟨hd1, _⟩ := top_bounds d k hd hk
  obtain ⟨_, hn2⟩ := top_bounds n j hn hj
  have hPk := Bpow_pos k
  have hdge : B ^ k ≤ val d := by
    have : 1 * B ^ k ≤ d.getD k 0 * B ^ k := Nat.mul_le_mul_right _ (Nat.pos_of_ne_zero htop)
    omega
  refine ⟨hdge, ?_⟩
  have hjk : k ≤ j := by omega
  by_cases hge : n.getD j 0 ≥ d.getD k 0
  · rw [if_pos hge] at hadj
    subst hadj
    have e : j + 1 + 1 - (k + 1) = (j - k) + 1 := by omega
    have hnlt := val_lt n hn
    rw [hj] at hnlt
    calc val n < B ^ (j + 1) := hnlt
      _ = B ^ k * B ^ (j - k + 1) := by rw [← pow_add]; congr 1; omega
      _ ≤ val d * B ^ (j - k + 1) := Nat.mul_le_mul_right _ hdge
      _ = val d * B ^ (j + 1 + 1 - (k + 1)) := by rw [e]
  · rw [if_neg hge] at hadj
    subst hadj
    have e : j + 1 + 0 - (k + 1) = j - k := by omega
    have h1 : (n.getD j 0 + 1) * B ^ j ≤ d.getD k 0 * B ^ j := Nat.mul_le_mul_right _ (by omega)
    calc val n < (n.getD j 0 + 1) * B ^ j := hn2
      _ ≤ d.getD k 0 * B ^ j := h1
      _ = d.getD k 0 * B ^ k * B ^ (j - k) := by rw [Nat.mul_assoc, ← pow_add]; congr 2; omega
      _ ≤ val d * B ^ (j - k) := Nat.mul_le_mul_right _ hd1
      _ = val d * B ^ (j + 1 + 0 - (k + 1)) := by rw [e]

/-- dividing the shifted operands (both multiplied by c): quotient unchanged, remainder scaled, high limb 0 -/
theorem divide_shifted (n2 d2 : List Nat) (N D c : Nat) (hd2 : Limbs d2) (hc : 0 < c) (hD : 0 < D)
    (hvn : val n2 = N * c) (hvd : val d2 = D * c) (hfit : N < D * B ^ (n2.length - d2.length)) :
    (divQrSpec n2 d2).2.2 = 0 ∧ val (divQrSpec n2 d2).1 = N / D ∧ val (divQrSpec n2 d2).2.1 = (N % D) * c ∧
    Limbs (divQrSpec n2 d2).1 ∧ (divQrSpec n2 d2).1.length = n2.length - d2.length ∧
    Limbs (divQrSpec n2 d2).2.1 ∧ (divQrSpec n2 d2).2.1.length = d2.length := by
  have hd0 : 0 < val d2 := by rw [hvd]; exact Nat.mul_pos hD hc
  obtain ⟨_, hr, _, hq3, hq4, hr3, hr4⟩ := divQrSpec_spec n2 d2 hd2 hd0
  have hf : val n2 < val d2 * B ^ (n2.length - d2.length) := by
    rw [hvn, hvd]
    calc N * c < D * B ^ (n2.length - d2.length) * c := Nat.mul_lt_mul_of_pos_right hfit hc
      _ = D * c * B ^ (n2.length - d2.length) := by ring
  obtain ⟨h0, hq⟩ := divQrSpec_fit n2 d2 hd2 hd0 hf
  obtain ⟨e1, e2⟩ := scaled_divmod N D c hc
  refine ⟨h0, ?_, ?_, hq3, hq4, hr3, hr4⟩
  · rw [hq, hvn, hvd, e1]
  · rw [hr, hvn, hvd, e2]

/-- the returned high limb of a normalised division is 0 or 1 -/
theorem divQrSpec_qh_le (n d : List Nat) (hn : Limbs n) (hl : d.length ≤ n.length)
    (hnorm : B ^ d.length ≤ 2 * val d) : (divQrSpec n d).2.2 ≤ 1 := by
  show val n / val d / B ^ (n.length - d.length) ≤ 1
  have hP := Bpow_pos d.length
  have hd0 : 0 < val d := by omega
  have hnlt := val_lt n hn
  have e : B ^ n.length = B ^ (n.length - d.length) * B ^ d.length := by rw [← pow_add]; congr 1; omega
  have h1 : val n / val d < 2 * B ^ (n.length - d.length) := by
    rw [Nat.div_lt_iff_lt_mul hd0]
    calc val n < B ^ (n.length - d.length) * B ^ d.length := by rw [← e]; exact hnlt
      _ ≤ B ^ (n.length - d.length) * (2 * val d) := Nat.mul_le_mul_left _ hnorm
      _ = 2 * B ^ (n.length - d.length) * val d := by ring
  have h2 : val n / val d / B ^ (n.length - d.length) < 2 := by
    rw [Nat.div_lt_iff_lt_mul (Bpow_pos _)]; exact h1
  omega

theorem list_len1 (l : List Nat) (h : l.length = 1) : l = [l.getD 0 0] := by
  match l, h with
  | [a], _ => rfl

theorem list_len2 (l : List Nat) (h : l.length = 2) : l = [l.getD 0 0, l.getD 1 0] := by
  match l, h with
  | [a, b], _ => rfl

end Mpir.TdivQr
