/- The matrix Fourier variants of Mpir/Model/FftX.lean: mpir_revbin, the twiddled column transforms. -/
import MpirProofs.Lemmas.FftXTrunc
set_option linter.unusedSimpArgs false
namespace Mpir.FftX
open Mpir Finset

/-! ### mpir_revbin is `rev` -/

theorem revLoop_eq (k x out : Nat) : revLoop k x out = out * 2 ^ k + rev k (x % 2 ^ k) := by
  induction k generalizing x out with
  | zero => simp [revLoop, rev]
  | succ k ih =>
    rw [revLoop, ih]
    have hx : x % 2 ^ (k + 1) = 2 * (x / 2 % 2 ^ k) + x % 2 := by
      rw [pow_succ, Nat.mod_mul_left_div_self_aux]
    rw [hx, rev_low k _ _ (Nat.mod_lt _ (two_pow_pos' k)) (Nat.mod_lt _ (by norm_num)), pow_succ]; ring
where
  Nat.mod_mul_left_div_self_aux {x k : Nat} : x % (2 ^ k * 2) = 2 * (x / 2 % 2 ^ k) + x % 2 := by
    rw [Nat.mul_comm, Nat.mod_mul]; omega

theorem revbin_rev (bits k : Nat) (hk : k < 2 ^ bits) : revbin k bits = rev bits k := by
  unfold revbin
  split_ifs with h
  · have tab : ∀ b, b ≤ 4 → ∀ x, x < 16 → x < 2 ^ b → (revtab.getD b []).getD x 0 = rev b x := by decide
    have hk16 : k < 16 := lt_of_lt_of_le hk (by
      calc 2 ^ bits ≤ 2 ^ 4 := Nat.pow_le_pow_right (by norm_num) h
        _ = 16 := by norm_num)
    exact tab bits h k hk16 hk
  · rw [revLoop_eq, Nat.mod_eq_of_lt hk]; simp

end Mpir.FftX
