/- The matrix Fourier variants of Mpir/Model/FftX.lean: mpir_revbin, the twiddled column transforms. -/
import MpirProofs.Lemmas.FftXTrunc
import Mathlib.Algebra.BigOperators.Ring.Finset
set_option linter.unusedSimpArgs false
namespace Mpir.FftX
open Mpir Finset

/-! ### mpir_revbin is `rev` -/

theorem revLoop_eq (k x out : Nat) : revLoop k x out = out * 2 ^ k + rev k (x % 2 ^ k) := by
  induction k generalizing x out with
  | zero => simp [revLoop, rev]
  | succ k ih =>
    rw [revLoop, ih]
    have hx : x % 2 ^ (k + 1) = 2 * (x / 2 % 2 ^ k) + x % 2 := by
      rw [pow_succ, Nat.mod_mul_left_div_self_aux]
    rw [hx, rev_low k _ _ (Nat.mod_lt _ (two_pow_pos' k)) (Nat.mod_lt _ (by norm_num)), pow_succ]; ring
where
  Nat.mod_mul_left_div_self_aux {x k : Nat} : x % (2 ^ k * 2) = 2 * (x / 2 % 2 ^ k) + x % 2 := by
    rw [Nat.mul_comm, Nat.mod_mul]; omega

theorem revbin_rev (bits k : Nat) (hk : k < 2 ^ bits) : revbin k bits = rev bits k := by
  unfold revbin
  split_ifs with h
  · have tab : ∀ b, b ≤ 4 → ∀ x, x < 16 → x < 2 ^ b → (revtab.getD b []).getD x 0 = rev b x := by decide
    have hk16 : k < 16 := lt_of_lt_of_le hk (by
      calc 2 ^ bits ≤ 2 ^ 4 := Nat.pow_le_pow_right (by norm_num) h
        _ = 16 := by norm_num)
    exact tab bits h k hk16 hk
  · rw [revLoop_eq, Nat.mod_eq_of_lt hk]; simp

/-! ### the twiddled column transform: the DFT, each output multiplied by z^(row·c) -/

theorem length_fft_radix2_twiddle (d w ws r c rs : Nat) (xs : List Int) :
    (fft_radix2_twiddle d w ws r c rs xs).length = 2 ^ (d + 1) := by
  induction d generalizing w r rs xs with
  | zero => simp [fft_radix2_twiddle]
  | succ d ih => simp only [fft_radix2_twiddle, List.length_append, ih]; ring

section ring
variable {S : Type} [CommRing S] (f : ℤ →+* S)

/-- mpir_fft_radix2_twiddle: position k holds the DFT value of frequency rev(k), multiplied by 2^((r + rs·rev k)·c·ws)
    — with r = 0, rs = 1 the twiddle z^(frequency·column) of the matrix Fourier algorithm (z = 2^ws) -/
theorem fft_radix2_twiddle_dft (d w ws r c rs : Nat) (xs : List Int) (hz : f 2 ^ (2 ^ d * w) = -1) (k : Nat)
    (hk : k < 2 ^ (d + 1)) :
    f (el (fft_radix2_twiddle d w ws r c rs xs) k) =
      (∑ j ∈ range (2 ^ (d + 1)), f (el xs j) * (f 2 ^ w) ^ (rev (d + 1) k * j)) *
        f 2 ^ ((r + rs * rev (d + 1) k) * c * ws) := by
  induction d generalizing w r rs xs k with
  | zero =>
    simp only [Nat.pow_zero, Nat.one_mul, Nat.zero_add, Nat.pow_one] at hz hk ⊢
    simp only [fft_radix2_twiddle, bflyTw]
    have r0 : rev 1 0 = 0 := by decide
    have r1 : rev 1 1 = 1 := by decide
    interval_cases k
    · rw [el_cons_zero, r0]
      simp only [sum_range_succ, sum_range_zero, map_mul, map_add, map_pow, Nat.zero_mul, Nat.mul_zero, pow_zero,
        mul_one, zero_add, Nat.add_zero]
    · rw [show ∀ a b : Int, el [a, b] 1 = b from fun _ _ => rfl, r1]
      simp only [sum_range_succ, sum_range_zero, map_mul, map_sub, map_pow, Nat.zero_mul, Nat.mul_zero, pow_zero,
        mul_one, zero_add, Nat.mul_one, Nat.one_mul, pow_one, hz]
      have e : (r * c + rs * c) * ws = (r + rs) * c * ws := by ring
      rw [e]; ring
  | succ d ih =>
    have hp : 2 ^ (d + 1 + 1) = 2 * 2 ^ (d + 1) := by rw [pow_succ]; ring
    have hz' : f 2 ^ (2 ^ d * (2 * w)) = -1 := by rw [← hz]; congr 1; rw [pow_succ]; ring
    have hzz : (f 2 ^ w) ^ 2 ^ (d + 1) = -1 := by rw [← pow_mul, mul_comm]; exact hz
    have e2 : f 2 ^ (2 * w) = (f 2 ^ w) ^ 2 := by rw [← pow_mul, mul_comm]
    have er : rev (d + 1 + 1) k = if k < 2 ^ (d + 1) then 2 * rev (d + 1) k else 2 * rev (d + 1) (k - 2 ^ (d + 1)) + 1 := by
      rw [rev]
    simp only [fft_radix2_twiddle]
    by_cases h : k < 2 ^ (d + 1)
    · rw [el_append_left _ _ _ (by rw [length_fft_radix2_twiddle]; exact h), ih _ _ _ _ hz' k h, er, if_pos h, e2, hp]
      rw [← dif_even (f 2 ^ w) (2 ^ (d + 1)) hzz (fun j => f (el xs j)) (rev (d + 1) k)]
      congr 1
      · apply sum_congr rfl; intro j hj
        rw [el_fsts _ _ _ (mem_range.mp hj)]; simp [bfly]
      · congr 1; ring
    · have hk' : k - 2 ^ (d + 1) < 2 ^ (d + 1) := by omega
      have ek : k = 2 ^ (d + 1) + (k - 2 ^ (d + 1)) := by omega
      rw [er, if_neg h]
      rw [ek, el_append_right' _ _ (2 ^ (d + 1)) _ (length_fft_radix2_twiddle _ _ _ _ _ _ _), ih _ _ _ _ hz' _ hk', e2, hp]
      have ek' : 2 ^ (d + 1) + (k - 2 ^ (d + 1)) - 2 ^ (d + 1) = k - 2 ^ (d + 1) := by omega
      rw [ek']
      rw [← dif_odd (f 2 ^ w) (2 ^ (d + 1)) hzz (fun j => f (el xs j)) (rev (d + 1) (k - 2 ^ (d + 1)))]
      congr 1
      · apply sum_congr rfl; intro j hj
        rw [el_snds _ _ _ (mem_range.mp hj)]
        simp only [bfly, map_mul, map_sub, map_pow]
        congr 2; rw [← pow_mul, mul_comm]
      · congr 1; ring

/-! ### the index arithmetic of the matrix Fourier algorithm -/

theorem sum_range_mul_eq (n1 n2 : Nat) (F : Nat → S) :
    ∑ k ∈ range (n1 * n2), F k = ∑ m ∈ range n2, ∑ i ∈ range n1, F (i + m * n1) := by
  induction n2 with
  | zero => simp
  | succ n2 ih =>
    rw [Nat.mul_succ, sum_range_add, ih, sum_range_succ]
    congr 1
    apply sum_congr rfl; intro i _; congr 1; ring

/-- n = n1·n2, ω of order dividing n: the length-n2 DFTs of the columns (root ω^n1), the twiddles ω^(j·i), then the
    length-n1 DFTs of the rows (root ω^n2) give the length-n DFT: entry (row j, column t) is the value of
    frequency j + n2·t -/
theorem mfa_index (ω : S) (n1 n2 : Nat) (hω : ω ^ (n1 * n2) = 1) (x : Nat → S) (j t : Nat) :
    ∑ i ∈ range n1, ((∑ m ∈ range n2, x (i + m * n1) * (ω ^ n1) ^ (j * m)) * ω ^ (j * i)) * (ω ^ n2) ^ (t * i) =
      ∑ k ∈ range (n1 * n2), x k * ω ^ ((j + n2 * t) * k) := by
  rw [sum_range_mul_eq, sum_comm]
  apply sum_congr rfl; intro i _
  rw [sum_mul, sum_mul]
  apply sum_congr rfl; intro m _
  have e : ω ^ ((j + n2 * t) * (i + m * n1)) =
      (ω ^ n1) ^ (j * m) * ω ^ (j * i) * (ω ^ n2) ^ (t * i) * (ω ^ (n1 * n2)) ^ (t * m) := by
    simp only [← pow_mul, ← pow_add]; congr 1; ring
  rw [e, hω]; simp; ring

end ring

end Mpir.FftX
