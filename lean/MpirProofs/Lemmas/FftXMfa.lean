/- The matrix Fourier variants of Mpir/Model/FftX.lean: mpir_revbin, the twiddled column transforms. -/
import MpirProofs.Lemmas.FftXTrunc
import Mathlib.Algebra.BigOperators.Ring.Finset
set_option linter.unusedSimpArgs false
namespace Mpir.FftX
open Mpir Finset

/-! ### mpir_revbin is `rev` -/

theorem revLoop_eq (k x out : Nat) : revLoop k x out = out * 2 ^ k + rev k (x % 2 ^ k) := by
  induction k generalizing x out with
  | zero => simp [revLoop, rev]
  | succ k ih =>
    rw [revLoop, ih]
    have hx : x % 2 ^ (k + 1) = 2 * (x / 2 % 2 ^ k) + x % 2 := by
      rw [pow_succ, Nat.mod_mul_left_div_self_aux]
    rw [hx, rev_low k _ _ (Nat.mod_lt _ (two_pow_pos' k)) (Nat.mod_lt _ (by norm_num)), pow_succ]; ring
where
  Nat.mod_mul_left_div_self_aux {x k : Nat} : x % (2 ^ k * 2) = 2 * (x / 2 % 2 ^ k) + x % 2 := by
    rw [Nat.mul_comm, Nat.mod_mul]; omega

theorem revbin_rev (bits k : Nat) (hk : k < 2 ^ bits) : revbin k bits = rev bits k := by
  unfold revbin
  split_ifs with h
  · have tab : ∀ b, b ≤ 4 → ∀ x, x < 16 → x < 2 ^ b → (revtab.getD b []).getD x 0 = rev b x := by decide
    have hk16 : k < 16 := lt_of_lt_of_le hk (by
      calc 2 ^ bits ≤ 2 ^ 4 := Nat.pow_le_pow_right (by norm_num) h
        _ = 16 := by norm_num)
    exact tab bits h k hk16 hk
  · rw [revLoop_eq, Nat.mod_eq_of_lt hk]; simp

/-! ### the twiddled column transform: the DFT, each output multiplied by z^(row·c) -/

theorem length_fft_radix2_twiddle (d w ws r c rs : Nat) (xs : List Int) :
    (fft_radix2_twiddle d w ws r c rs xs).length = 2 ^ (d + 1) := by
  induction d generalizing w r rs xs with
  | zero => simp [fft_radix2_twiddle]
  | succ d ih => simp only [fft_radix2_twiddle, List.length_append, ih]; ring

section ring
variable {S : Type} [CommRing S] (f : ℤ →+* S)

/-- mpir_fft_radix2_twiddle: position k holds the DFT value of frequency rev(k), multiplied by 2^((r + rs·rev k)·c·ws)
    — with r = 0, rs = 1 the twiddle z^(frequency·column) of the matrix Fourier algorithm (z = 2^ws) -/
theorem fft_radix2_twiddle_dft (d w ws r c rs : Nat) (xs : List Int) (hz : f 2 ^ (2 ^ d * w) = -1) (k : Nat)
    (hk : k < 2 ^ (d + 1)) :
    f (el (fft_radix2_twiddle d w ws r c rs xs) k) =
      (∑ j ∈ range (2 ^ (d + 1)), f (el xs j) * (f 2 ^ w) ^ (rev (d + 1) k * j)) *
        f 2 ^ ((r + rs * rev (d + 1) k) * c * ws) := by
  induction d generalizing w r rs xs k with
  | zero =>
    simp only [Nat.pow_zero, Nat.one_mul, Nat.zero_add, Nat.pow_one] at hz hk ⊢
    simp only [fft_radix2_twiddle, bflyTw]
    have r0 : rev 1 0 = 0 := by decide
    have r1 : rev 1 1 = 1 := by decide
    interval_cases k
    · rw [el_cons_zero, r0]
      simp only [sum_range_succ, sum_range_zero, map_mul, map_add, map_pow, Nat.zero_mul, Nat.mul_zero, pow_zero,
        mul_one, zero_add, Nat.add_zero]
    · rw [show ∀ a b : Int, el [a, b] 1 = b from fun _ _ => rfl, r1]
      simp only [sum_range_succ, sum_range_zero, map_mul, map_sub, map_pow, Nat.zero_mul, Nat.mul_zero, pow_zero,
        mul_one, zero_add, Nat.mul_one, Nat.one_mul, pow_one, hz]
      have e : (r * c + rs * c) * ws = (r + rs) * c * ws := by ring
      rw [e]; ring
  | succ d ih =>
    have hp : 2 ^ (d + 1 + 1) = 2 * 2 ^ (d + 1) := by rw [pow_succ]; ring
    have hz' : f 2 ^ (2 ^ d * (2 * w)) = -1 := by rw [← hz]; congr 1; rw [pow_succ]; ring
    have hzz : (f 2 ^ w) ^ 2 ^ (d + 1) = -1 := by rw [← pow_mul, mul_comm]; exact hz
    have e2 : f 2 ^ (2 * w) = (f 2 ^ w) ^ 2 := by rw [← pow_mul, mul_comm]
    have er : rev (d + 1 + 1) k = if k < 2 ^ (d + 1) then 2 * rev (d + 1) k else 2 * rev (d + 1) (k - 2 ^ (d + 1)) + 1 := by
      rw [rev]
    simp only [fft_radix2_twiddle]
    by_cases h : k < 2 ^ (d + 1)
    · rw [el_append_left _ _ _ (by rw [length_fft_radix2_twiddle]; exact h), ih _ _ _ _ hz' k h, er, if_pos h, e2, hp]
      rw [← dif_even (f 2 ^ w) (2 ^ (d + 1)) hzz (fun j => f (el xs j)) (rev (d + 1) k)]
      congr 1
      · apply sum_congr rfl; intro j hj
        rw [el_fsts _ _ _ (mem_range.mp hj)]; simp [bfly]
      · congr 1; ring
    · have hk' : k - 2 ^ (d + 1) < 2 ^ (d + 1) := by omega
      have ek : k = 2 ^ (d + 1) + (k - 2 ^ (d + 1)) := by omega
      rw [er, if_neg h]
      rw [ek, el_append_right' _ _ (2 ^ (d + 1)) _ (length_fft_radix2_twiddle _ _ _ _ _ _ _), ih _ _ _ _ hz' _ hk', e2, hp]
      have ek' : 2 ^ (d + 1) + (k - 2 ^ (d + 1)) - 2 ^ (d + 1) = k - 2 ^ (d + 1) := by omega
      rw [ek']
      rw [← dif_odd (f 2 ^ w) (2 ^ (d + 1)) hzz (fun j => f (el xs j)) (rev (d + 1) (k - 2 ^ (d + 1)))]
      congr 1
      · apply sum_congr rfl; intro j hj
        rw [el_snds _ _ _ (mem_range.mp hj)]
        simp only [bfly, map_mul, map_sub, map_pow]
        congr 2; rw [← pow_mul, mul_comm]
      · congr 1; ring

/-! ### the index arithmetic of the matrix Fourier algorithm -/

theorem sum_range_mul_eq (n1 n2 : Nat) (F : Nat → S) :
    ∑ k ∈ range (n1 * n2), F k = ∑ m ∈ range n2, ∑ i ∈ range n1, F (i + m * n1) := by
  induction n2 with
  | zero => simp
  | succ n2 ih =>
    rw [Nat.mul_succ, sum_range_add, ih, sum_range_succ]
    congr 1
    apply sum_congr rfl; intro i _; congr 1; ring

/-- n = n1·n2, ω of order dividing n: the length-n2 DFTs of the columns (root ω^n1), the twiddles ω^(j·i), then the
    length-n1 DFTs of the rows (root ω^n2) give the length-n DFT: entry (row j, column t) is the value of
    frequency j + n2·t -/
theorem mfa_index (ω : S) (n1 n2 : Nat) (hω : ω ^ (n1 * n2) = 1) (x : Nat → S) (j t : Nat) :
    ∑ i ∈ range n1, ((∑ m ∈ range n2, x (i + m * n1) * (ω ^ n1) ^ (j * m)) * ω ^ (j * i)) * (ω ^ n2) ^ (t * i) =
      ∑ k ∈ range (n1 * n2), x k * ω ^ ((j + n2 * t) * k) := by
  rw [sum_range_mul_eq, sum_comm]
  apply sum_congr rfl; intro i _
  rw [sum_mul, sum_mul]
  apply sum_congr rfl; intro m _
  have e : ω ^ ((j + n2 * t) * (i + m * n1)) =
      (ω ^ n1) ^ (j * m) * ω ^ (j * i) * (ω ^ n2) ^ (t * i) * (ω ^ (n1 * n2)) ^ (t * m) := by
    simp only [← pow_mul, ← pow_add]; congr 1; ring
  rw [e, hω]; simp; ring

end ring

/-! ### the truncated twiddled column transform -/

theorem fft_radix2_twiddle_succ (d w ws r c rs : Nat) (xs : List Int) : fft_radix2_twiddle (d + 1) w ws r c rs xs =
    fft_radix2_twiddle d (2 * w) ws r c (2 * rs) (fsts (2 ^ (d + 1)) fun i => bfly (el xs i) (el xs (2 ^ (d + 1) + i)) i w) ++
    fft_radix2_twiddle d (2 * w) ws (r + rs) c (2 * rs)
      (snds (2 ^ (d + 1)) fun i => bfly (el xs i) (el xs (2 ^ (d + 1) + i)) i w) := by
  simp only [fft_radix2_twiddle]

theorem le_length_fft_trunc1_twiddle (d w ws r c rs trunc : Nat) (xs : List Int) (ht : TruncOk d trunc) :
    trunc ≤ (fft_trunc1_twiddle d w ws r c rs trunc xs).length := by
  induction d generalizing w r rs trunc xs with
  | zero => rw [truncOk_zero ht]; simp [fft_trunc1_twiddle, length_fft_radix2_twiddle]
  | succ d ih =>
    simp only [fft_trunc1_twiddle]
    split_ifs with h1 h2
    · rw [length_fft_radix2_twiddle, h1]; rw [pow_succ]; omega
    · rw [List.length_append]
      have := ih (2 * w) r (2 * rs) trunc ((List.range (2 ^ (d + 1))).map fun i => el xs i + el xs (i + 2 ^ (d + 1)))
        (truncOk_low ht h2)
      omega
    · rw [List.length_append, length_fft_radix2_twiddle]
      have := ih (2 * w) (r + rs) (2 * rs) (trunc - 2 ^ (d + 1))
        (snds (2 ^ (d + 1)) fun i => bfly (el xs i) (el xs (2 ^ (d + 1) + i)) i w) (truncOk_high ht h2)
      omega

/-- mpir_fft_trunc1_twiddle: the first `trunc` outputs are exactly those of mpir_fft_radix2_twiddle -/
theorem fft_trunc1_twiddle_eq (d w ws r c rs trunc : Nat) (xs : List Int) (ht : TruncOk d trunc) (k : Nat)
    (hk : k < trunc) :
    el (fft_trunc1_twiddle d w ws r c rs trunc xs) k = el (fft_radix2_twiddle d w ws r c rs xs) k := by
  induction d generalizing w r rs trunc xs k with
  | zero => rw [truncOk_zero ht]; simp [fft_trunc1_twiddle]
  | succ d ih =>
    simp only [fft_trunc1_twiddle]
    split_ifs with h1 h2
    · rfl
    · have hl := le_length_fft_trunc1_twiddle d (2 * w) ws r c (2 * rs) trunc
        ((List.range (2 ^ (d + 1))).map fun i => el xs i + el xs (i + 2 ^ (d + 1))) (truncOk_low ht h2)
      rw [el_append_left _ _ _ (by omega), ih _ _ _ _ _ (truncOk_low ht h2) k hk, sums_eq_fsts _ w,
        fft_radix2_twiddle_succ, el_append_left _ _ _ (by rw [length_fft_radix2_twiddle]; omega)]
    · rw [fft_radix2_twiddle_succ]
      by_cases hkn : k < 2 ^ (d + 1)
      · rw [el_append_left _ _ _ (by rw [length_fft_radix2_twiddle]; exact hkn),
          el_append_left _ _ _ (by rw [length_fft_radix2_twiddle]; exact hkn)]
      · have ek : k = 2 ^ (d + 1) + (k - 2 ^ (d + 1)) := by omega
        rw [ek, el_append_right' _ _ _ _ (length_fft_radix2_twiddle _ _ _ _ _ _ _),
          el_append_right' _ _ _ _ (length_fft_radix2_twiddle _ _ _ _ _ _ _)]
        exact ih _ _ _ _ _ (truncOk_high ht h2) _ (by omega)

/-! ### the column pass and the row pass of the matrix Fourier transform, on the model's own pieces -/

theorem length_revPerm (D : Nat) (c : List Int) : (revPerm D c).length = c.length := by simp [revPerm]

theorem el_revPerm (D : Nat) (c : List Int) (hc : c.length = 2 ^ D) (j : Nat) (hj : j < 2 ^ D) :
    el (revPerm D c) j = el c (rev D j) := by
  unfold revPerm
  rw [el_range_map _ _ _ (by rw [hc]; exact hj), revbin_rev D j hj]

theorem el_getCol (xs : List Int) (off is cnt j : Nat) (hj : j < cnt) : el (getCol xs off is cnt) j = el xs (off + j * is) :=
  el_range_map _ _ _ hj

/-- column pass (fft_mfa_trunc_sqrt2.c:202-207): entry j of column i after mpir_fft_radix2_twiddle and the revbin swaps -/
def mfaCol (e2 w n1 : Nat) (xs : List Int) (i : Nat) : List Int :=
  revPerm (e2 + 1) (fft_radix2_twiddle e2 (w * n1) w 0 i 1 (getCol xs i n1 (2 ^ (e2 + 1))))

/-- row pass (fft_mfa_trunc_sqrt2.c:211-219): row j after mpir_fft_radix2 and the revbin swaps -/
def mfaRow (e1 e2 w : Nat) (xs : List Int) (j : Nat) : List Int :=
  revPerm (e1 + 1) (fft_radix2 e1 (w * 2 ^ (e2 + 1))
    ((List.range (2 ^ (e1 + 1))).map fun i => el (mfaCol e2 w (2 ^ (e1 + 1)) xs i) j))

section ring
variable {S : Type} [CommRing S] (f : ℤ →+* S)

theorem mfaCol_val (e1 e2 w : Nat) (xs : List Int) (hz : f 2 ^ (2 ^ (e1 + e2 + 1) * w) = -1) (i j : Nat)
    (hj : j < 2 ^ (e2 + 1)) :
    f (el (mfaCol e2 w (2 ^ (e1 + 1)) xs i) j) =
      (∑ m ∈ range (2 ^ (e2 + 1)), f (el xs (i + m * 2 ^ (e1 + 1))) * ((f 2 ^ w) ^ 2 ^ (e1 + 1)) ^ (j * m)) *
        (f 2 ^ w) ^ (j * i) := by
  have hz' : f 2 ^ (2 ^ e2 * (w * 2 ^ (e1 + 1))) = -1 := by
    rw [← hz]; congr 1; rw [pow_succ, pow_succ, pow_add]; ring
  unfold mfaCol
  rw [el_revPerm _ _ (length_fft_radix2_twiddle _ _ _ _ _ _ _) j hj,
    fft_radix2_twiddle_dft f e2 _ w 0 i 1 _ hz' _ (rev_lt _ _), rev_rev _ _ hj]
  congr 1
  · apply sum_congr rfl; intro m hm
    rw [el_getCol _ _ _ _ _ (mem_range.mp hm)]
    congr 1
    simp only [← pow_mul]
  · rw [← pow_mul]; congr 1; ring

/-- the two passes leave in row j, column t the DFT value of frequency j + n2·t — the value the plain radix-2
    transform of the same n1·n2 coefficients leaves in position rev(j + n2·t) -/
theorem mfa_passes (e1 e2 w : Nat) (xs : List Int) (hz : f 2 ^ (2 ^ (e1 + e2 + 1) * w) = -1) (j t : Nat)
    (hj : j < 2 ^ (e2 + 1)) (ht : t < 2 ^ (e1 + 1)) :
    f (el (mfaRow e1 e2 w xs j) t) =
      f (el (fft_radix2 (e1 + e2 + 1) w xs) (rev (e1 + e2 + 1 + 1) (j + 2 ^ (e2 + 1) * t))) := by
  have hN : 2 ^ (e1 + 1) * 2 ^ (e2 + 1) = 2 ^ (e1 + e2 + 1 + 1) := by rw [← pow_add]; congr 1; ring
  have hlt : j + 2 ^ (e2 + 1) * t < 2 ^ (e1 + e2 + 1 + 1) := by
    rw [← hN]
    calc j + 2 ^ (e2 + 1) * t < 2 ^ (e2 + 1) + 2 ^ (e2 + 1) * t := by omega
      _ = 2 ^ (e2 + 1) * (t + 1) := by ring
      _ ≤ 2 ^ (e2 + 1) * 2 ^ (e1 + 1) := Nat.mul_le_mul_left _ ht
      _ = 2 ^ (e1 + 1) * 2 ^ (e2 + 1) := by ring
  have hz1 : f 2 ^ (2 ^ e1 * (w * 2 ^ (e2 + 1))) = -1 := by
    rw [← hz]; congr 1; rw [pow_succ, pow_succ, pow_add]; ring
  have hω : (f 2 ^ w) ^ (2 ^ (e1 + 1) * 2 ^ (e2 + 1)) = 1 := by
    have : (f 2 ^ w) ^ (2 ^ (e1 + 1) * 2 ^ (e2 + 1)) = (f 2 ^ (2 ^ (e1 + e2 + 1) * w)) ^ 2 := by
      rw [← pow_mul, ← pow_mul]; congr 1; rw [hN, pow_succ]; ring
    rw [this, hz]; norm_num
  rw [fft_radix2_dft f _ w xs hz _ (rev_lt _ _), rev_rev _ _ hlt]
  unfold mfaRow
  rw [el_revPerm _ _ (length_fft_radix2 _ _ _) t ht, fft_radix2_dft f e1 _ _ hz1 _ (rev_lt _ _), rev_rev _ _ ht]
  rw [← hN, ← mfa_index (f 2 ^ w) (2 ^ (e1 + 1)) (2 ^ (e2 + 1)) hω (fun k => f (el xs k)) j t]
  apply sum_congr rfl; intro i hi
  rw [el_range_map _ _ _ (mem_range.mp hi), mfaCol_val f e1 e2 w xs hz i j hj]
  congr 1
  simp only [← pow_mul]

end ring

end Mpir.FftX
