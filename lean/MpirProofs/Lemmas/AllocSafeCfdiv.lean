/- Towards the refinement proof for the size-aware model of mpz/cfdiv_q_2exp.c (Mpir/Model/AllocSafeMpz3.lean): the list-level
   result `Spec.cfdiv_q_2exp` in the block the C leaves, and the rounding tail (`roundTail_spec`: with `wsize + 1` limbs of room
   the `mpn_add_1` + carry store of cfdiv_q_2exp.c:74-89 stays inside and leaves `Spec.roundZ`).  Missing: the composition
   `Refines s (cfdiv_q_2exp 1 s w u cnt dir) w (Spec.cfdiv_q_2exp ..)` (shape of tdiv_q_2exp_refines + roundTail_spec). -/
import MpirProofs.Lemmas.AllocSafeBit2
namespace Mpir.AllocSafe
open Mpir
open Mpir.Mpz (sgn natAbs_sgn)

/-- cfdiv_q_2exp.c:74-89 on the list -/
def Spec.roundZ (T : List Nat) (round : Bool) : List Nat :=
  if round then
    if T.length != 0 then ((Mpir.add_1 T 1).1 ++ [(Mpir.add_1 T 1).2]).take (T.length + (Mpir.add_1 T 1).2)
    else [1]
  else T

/-- value-level result of mpz_cdiv_q_2exp / mpz_fdiv_q_2exp with the allocation -/
def Spec.cfdiv_q_2exp (w u : Mpz.Mpz) (cnt : Nat) (dir : Int) : Mpz.Mpz :=
  let k := cnt / 64
  if u.size.natAbs ≤ k then
    ⟨w.alloc, (if u.size == 0 || (decide (u.size < 0) != decide (dir < 0)) then 0 else dir),
      [1].take (if u.size == 0 || (decide (u.size < 0) != decide (dir < 0)) then (0 : Int) else dir).natAbs⟩
  else
    let n := u.size.natAbs - k
    let a := (Mpz.grow w (n + 1)).alloc
    let rmask := decide (u.size < 0) == decide (dir < 0)
    let round0 := rmask && (u.d.take k).any (· != 0)
    if cnt % 64 != 0 then
      let r := Mpir.rshift (u.d.drop k) (cnt % 64)
      let T := r.1.take (n - (if r.1.getD (n - 1) 0 == 0 then 1 else 0))
      ⟨a, sgn (u.size < 0) (Spec.roundZ T (round0 || (rmask && r.2 != 0))).length, Spec.roundZ T (round0 || (rmask && r.2 != 0))⟩
    else
      ⟨a, sgn (u.size < 0) (Spec.roundZ (u.d.drop k) round0).length, Spec.roundZ (u.d.drop k) round0⟩

theorem roundTail_spec {s1 s2 : St} {w : Nat} {T : List Nat} (W : Wrote s1 s2 w T) (round : Bool)
    (hfit : T.length + 1 ≤ (s1.h w).buf.alloc) :
    (roundTail s2 (s1.PTR w) T.length round).2 = (Spec.roundZ T round).length ∧
    Wrote s1 (roundTail s2 (s1.PTR w) T.length round).1 w (Spec.roundZ T round) := by
  unfold roundTail Spec.roundZ
  cases round
  · simp only [Bool.false_eq_true, if_false]; exact ⟨trivial, W⟩
  · simp only [if_true]
    by_cases h0 : T.length = 0
    · have hT : T = [] := List.length_eq_zero_iff.mp h0
      subst hT
      simp only [List.length_nil, bne_self_eq_false, Bool.false_eq_true, if_false]
      have W1 := W.wr 0 [1] (limb_singleton (by unfold B; omega)) (by simp) (by simp; omega)
      exact ⟨rfl, by simpa [St.store] using W1⟩
    · have h0' : (T.length != 0) = true := by simpa using h0
      simp only [h0', if_true]
      have hne : T ≠ [] := by intro h; rw [h] at h0; simp at h0
      obtain ⟨e, ok⟩ := W.rd T.length (Nat.le_refl _)
      rw [List.take_length] at e
      obtain ⟨_, ac, al, an⟩ := Mpz.K.add_1_val T 1 W.limbs (by unfold B; omega) hne
      simp only [mpn_add_1, e, ok]
      have W1 := (W.chk true rfl).wr 0 (Mpir.add_1 T 1).1 al (by omega) (by omega)
      simp only [add_zero_ptr, List.take_zero, List.nil_append, Nat.zero_add, an, List.drop_length, List.append_nil] at W1
      have W2 := W1.append [(Mpir.add_1 T 1).2] (limb_singleton (by unfold B; omega)) (by rw [an]; simpa using hfit)
      rw [an] at W2
      have W3 := W2.take (T.length + (Mpir.add_1 T 1).2)
      refine ⟨?_, by simpa [St.store] using W3⟩
      simp [an]; omega

end Mpir.AllocSafe
