/- Helper lemmas for Mpir/Model/Toom8.lean: homogeneous evaluation of coefficient lists, existence of the product
   polynomial, the evaluation helpers (values and sign flags), toom_couple_handling. -/
import MpirProofs.Lemmas.Base
import Mpir.Model.Toom8
import Mathlib.Tactic.Ring
import Mathlib.Tactic.Linarith
namespace Mpir.Toom8

/-- homogeneous evaluation Σ c_i x^i y^(d−i), d = length − 1: the value at the projective point (x : y) -/
def evalH (x y : Int) : List Int → Int
  | [] => 0
  | c :: cs => c * y ^ cs.length + x * evalH x y cs

/-- the blocks as integers -/
def toZ (xs : List Nat) : List Int := xs.map (fun (x : Nat) => (x : Int))

@[simp] theorem toZ_nil : toZ [] = [] := rfl
@[simp] theorem toZ_cons (x : Nat) (xs : List Nat) : toZ (x :: xs) = (x : Int) :: toZ xs := rfl
@[simp] theorem toZ_length (xs : List Nat) : (toZ xs).length = xs.length := by simp [toZ]

theorem evalH_map_mul (a x y : Int) (l : List Int) : evalH x y (l.map (a * ·)) = a * evalH x y l := by
  induction l with
  | nil => simp [evalH]
  | cons c cs ih => simp only [List.map_cons, evalH, List.length_map, ih]; ring

theorem evalH_append_zeros (x y : Int) (l : List Int) (m : Nat) :
    evalH x y (l ++ List.replicate m 0) = y ^ m * evalH x y l := by
  induction l with
  | nil =>
    simp only [List.nil_append, evalH, mul_zero]
    induction m with
    | zero => simp [evalH]
    | succ m ih => simp only [List.replicate_succ, evalH, ih]; ring
  | cons c cs ih =>
    simp only [List.cons_append, evalH, ih, List.length_append, List.length_replicate, pow_add]; ring

theorem evalH_zipWith_add (x y : Int) : ∀ (l1 l2 : List Int), l1.length = l2.length →
    evalH x y (List.zipWith (· + ·) l1 l2) = evalH x y l1 + evalH x y l2
  | [], [], _ => by simp [evalH]
  | [], _ :: _, h => by simp at h
  | _ :: _, [], h => by simp at h
  | a :: l1, b :: l2, h => by
    have h' : l1.length = l2.length := by simpa using h
    simp only [List.zipWith_cons_cons, evalH, evalH_zipWith_add x y l1 l2 h', List.length_zipWith, h', Nat.min_self]
    ring

/-- the product of two forms is a form: coefficients of A·B exist, with the right length (degree p + q) -/
theorem exists_prod : ∀ (as bs : List Int), as ≠ [] → bs ≠ [] →
    ∃ cs : List Int, cs.length + 1 = as.length + bs.length ∧ ∀ x y, evalH x y cs = evalH x y as * evalH x y bs
  | [], _, h, _ => absurd rfl h
  | [a], bs, _, _ => by
    refine ⟨bs.map (a * ·), by simp; omega, fun x y => ?_⟩
    rw [evalH_map_mul]; simp [evalH]
  | a :: a' :: as, bs, _, hb => by
    obtain ⟨cs', hl, he⟩ := exists_prod (a' :: as) bs (by simp) hb
    refine ⟨List.zipWith (· + ·) (bs.map (a * ·) ++ List.replicate (a' :: as).length 0) (0 :: cs'), ?_, fun x y => ?_⟩
    · simp only [List.length_zipWith, List.length_append, List.length_map, List.length_replicate, List.length_cons] at hl ⊢
      omega
    · rw [evalH_zipWith_add _ _ _ _ (by
        simp only [List.length_append, List.length_map, List.length_replicate, List.length_cons] at hl ⊢; omega)]
      rw [evalH_append_zeros, evalH_map_mul]
      simp only [evalH, he, zero_mul, zero_add]
      simp only [List.length_cons]
      ring

theorem evalH_zero_one (c : Int) (cs : List Int) : evalH 0 1 (c :: cs) = c := by simp [evalH]

theorem evalH_one_zero : ∀ (l : List Int), evalH 1 0 l = l.getLastD 0
  | [] => by simp [evalH]
  | [c] => by simp [evalH]
  | c :: c' :: cs => by
    have := evalH_one_zero (c' :: cs)
    simp only [evalH, List.length_cons, one_mul] at this ⊢
    rw [this]; simp

theorem toZ_getLastD (xs : List Nat) : (toZ xs).getLastD 0 = ((xs.getLastD 0 : Nat) : Int) := by
  induction xs with
  | nil => simp
  | cons x xs ih =>
    cases xs with
    | nil => simp
    | cons y ys => simpa using ih

theorem toZ_head (xs : List Nat) (h : xs ≠ []) : evalH 0 1 (toZ xs) = ((xs.getD 0 0 : Nat) : Int) := by
  cases xs with
  | nil => exact absurd rfl h
  | cons x xs => simp [evalH]

/-- the value of the operand is its block polynomial at W -/
theorem blocks_eval (W : Nat) : ∀ (k x : Nat), evalH (W : Int) 1 (toZ (blocks x W k)) = x
  | 0, x => by simp [blocks, evalH]
  | k + 1, x => by
    have := blocks_eval W k (x / W)
    simp only [blocks, toZ_cons, evalH, this, one_pow, mul_one]
    have h := Nat.mod_add_div x W
    exact_mod_cast h

theorem blocks_length (W : Nat) : ∀ (k x : Nat), (blocks x W k).length = k + 1
  | 0, _ => rfl
  | k + 1, x => by simp [blocks, blocks_length W k]

/-! ### the accumulators of the evaluation helpers -/

/-- Σ_j σ^(i+j) x_j w(i+j) -/
def wsum (σ : Int) (w : Nat → Nat) : List Nat → Nat → Int
  | [], _ => 0
  | x :: xs, i => σ ^ i * ((x * w i : Nat) : Int) + wsum σ w xs (i + 1)

theorem neg_one_pow_nat (i : Nat) : (-1 : Int) ^ i = if i % 2 = 0 then 1 else -1 := by
  induction i with
  | zero => simp
  | succ i ih =>
    rw [pow_succ, ih]
    by_cases h : i % 2 = 0
    · have : ¬ (i + 1) % 2 = 0 := by omega
      simp [h, this]
    · have : (i + 1) % 2 = 0 := by omega
      simp [h, this]

theorem evenOdd_sum (w : Nat → Nat) : ∀ (xs : List Nat) (i : Nat),
    (((evenOdd w xs i).1 + (evenOdd w xs i).2 : Nat) : Int) = wsum 1 w xs i
  | [], _ => by simp [evenOdd, wsum]
  | x :: xs, i => by
    have ih := evenOdd_sum w xs (i + 1)
    simp only [evenOdd, wsum, one_pow, one_mul]
    split <;> (simp only []; rw [← ih]; push_cast; ring)

theorem evenOdd_diff (w : Nat → Nat) : ∀ (xs : List Nat) (i : Nat),
    ((evenOdd w xs i).1 : Int) - ((evenOdd w xs i).2 : Int) = wsum (-1) w xs i
  | [], _ => by simp [evenOdd, wsum]
  | x :: xs, i => by
    have ih := evenOdd_diff w xs (i + 1)
    simp only [evenOdd, wsum, neg_one_pow_nat]
    split <;> (simp only []; rw [← ih]; push_cast; ring)

/-- weights t^i: the accumulators hold the even and odd part of x(t) -/
theorem wsum_fwd (σ : Int) (t : Nat) (w : Nat → Nat) (hw : ∀ i, w i = t ^ i) : ∀ (xs : List Nat) (i : Nat),
    wsum σ w xs i = (σ * t) ^ i * evalH (σ * t) 1 (toZ xs)
  | [], _ => by simp [wsum, evalH]
  | x :: xs, i => by
    simp only [wsum, wsum_fwd σ t w hw xs (i + 1), toZ_cons, evalH, hw, one_pow, mul_one]
    push_cast; ring

/-- weights t^(q−i): the accumulators hold the even and odd part of t^q·x(1/t) -/
theorem wsum_rev (σ : Int) (t q : Nat) (w : Nat → Nat) (hw : ∀ i, w i = t ^ (q - i)) : ∀ (xs : List Nat) (i : Nat),
    i + xs.length = q + 1 → wsum σ w xs i = σ ^ i * evalH σ t (toZ xs)
  | [], _, _ => by simp [wsum, evalH]
  | x :: xs, i, h => by
    have hl : q - i = xs.length := by simp only [List.length_cons] at h; omega
    have := wsum_rev σ t q w hw xs (i + 1) (by simp only [List.length_cons] at h; omega)
    simp only [wsum, this, toZ_cons, evalH, hw, hl, toZ_length]
    push_cast; ring

/-- what an evaluation helper returns: the value at the positive point, and magnitude + flag of the value at the
    negative point -/
structure EvalSpec (e : Eval) (P M : Int) : Prop where
  plus : (e.plus : Int) = P
  minus : (if e.neg = true then -(e.minus : Int) else (e.minus : Int)) = M

theorem spec_of_evenOdd (e1 e2 : Nat) :
    EvalSpec ⟨e1 + e2, (if decide (e1 < e2) = true then e2 - e1 else e1 - e2), decide (e1 < e2)⟩
      ((e1 + e2 : Nat) : Int) ((e1 : Int) - e2) := by
  constructor
  · rfl
  · by_cases h : e1 < e2 <;> simp only [h, decide_true, decide_false, if_true, if_false, Bool.false_eq_true] <;> omega

theorem evalPm2exp_spec (xs : List Nat) (sh : Nat) :
    EvalSpec (evalPm2exp xs sh) (evalH (2 ^ sh) 1 (toZ xs)) (evalH (-(2 ^ sh)) 1 (toZ xs)) := by
  have hw : ∀ i, (fun i => 2 ^ (i * sh)) i = (2 ^ sh) ^ i := fun i => by simp only []; rw [← pow_mul, Nat.mul_comm]
  have hs := evenOdd_sum (fun i => 2 ^ (i * sh)) xs 0
  have hd := evenOdd_diff (fun i => 2 ^ (i * sh)) xs 0
  rw [wsum_fwd 1 (2 ^ sh) _ hw] at hs
  rw [wsum_fwd (-1) (2 ^ sh) _ hw] at hd
  simp only [pow_zero, one_mul] at hs hd
  have := spec_of_evenOdd (evenOdd (fun i => 2 ^ (i * sh)) xs 0).1 (evenOdd (fun i => 2 ^ (i * sh)) xs 0).2
  unfold evalPm2exp
  simp only []
  rw [hs, hd] at this
  push_cast at this
  simpa using this

theorem evalPm1_spec (xs : List Nat) :
    EvalSpec (evalPm1 xs) (evalH 1 1 (toZ xs)) (evalH (-1) 1 (toZ xs)) := by
  have hw : ∀ i, (fun _ : Nat => 1) i = 1 ^ i := fun i => by simp
  have hs := evenOdd_sum (fun _ => 1) xs 0
  have hd := evenOdd_diff (fun _ => 1) xs 0
  rw [wsum_fwd 1 1 _ hw] at hs
  rw [wsum_fwd (-1) 1 _ hw] at hd
  simp only [pow_zero, one_mul, Nat.cast_one, mul_one] at hs hd
  have := spec_of_evenOdd (evenOdd (fun _ => 1) xs 0).1 (evenOdd (fun _ => 1) xs 0).2
  rw [hs, hd] at this
  unfold evalPm1
  simpa [gt_iff_lt] using this

theorem evalDgr3Pm1_spec (xs : List Nat) (h : xs.length = 4) :
    EvalSpec (evalDgr3Pm1 xs) (evalH 1 1 (toZ xs)) (evalH (-1) 1 (toZ xs)) := by
  rcases xs with _ | ⟨x0, _ | ⟨x1, _ | ⟨x2, _ | ⟨x3, _ | ⟨x4, xs⟩⟩⟩⟩⟩ <;> simp at h
  have := spec_of_evenOdd (x0 + x2) (x1 + x3)
  unfold evalDgr3Pm1
  simp only [List.getD_cons_zero, List.getD_cons_succ, toZ_cons, toZ_nil, evalH, List.length_cons, List.length_nil]
  constructor
  · have := this.plus; simp only [] at this ⊢; push_cast at this ⊢; linarith
  · have := this.minus; simp only [] at this ⊢; rw [this]; push_cast; ring

theorem evalPm2rexp_spec (xs : List Nat) (s : Nat) (h : xs ≠ []) :
    EvalSpec (evalPm2rexp xs s) (evalH 1 (2 ^ s) (toZ xs)) (evalH (-1) (2 ^ s) (toZ xs)) := by
  have hl : 0 + xs.length = (xs.length - 1) + 1 := by
    cases xs with
    | nil => exact absurd rfl h
    | cons x xs => simp
  have hw : ∀ i, (fun i => 2 ^ (s * (xs.length - 1 - i))) i = (2 ^ s) ^ (xs.length - 1 - i) := fun i => by
    simp only []; rw [← pow_mul]
  have hs := evenOdd_sum (fun i => 2 ^ (s * (xs.length - 1 - i))) xs 0
  have hd := evenOdd_diff (fun i => 2 ^ (s * (xs.length - 1 - i))) xs 0
  rw [wsum_rev 1 (2 ^ s) (xs.length - 1) _ hw xs 0 hl] at hs
  rw [wsum_rev (-1) (2 ^ s) (xs.length - 1) _ hw xs 0 hl] at hd
  simp only [pow_zero, one_mul] at hs hd
  have := spec_of_evenOdd (evenOdd (fun i => 2 ^ (s * (xs.length - 1 - i))) xs 0).1
    (evenOdd (fun i => 2 ^ (s * (xs.length - 1 - i))) xs 0).2
  unfold evalPm2rexp
  simp only []
  rw [hs, hd] at this
  push_cast at this
  simpa using this

theorem evalPm2_spec (xs : List Nat) :
    EvalSpec (evalPm2 xs) (evalH 2 1 (toZ xs)) (evalH (-2) 1 (toZ xs)) := by
  have hw : ∀ i, (fun i => 2 ^ i) i = 2 ^ i := fun i => rfl
  have hs := evenOdd_sum (fun i => 2 ^ i) xs 0
  have hd := evenOdd_diff (fun i => 2 ^ i) xs 0
  rw [wsum_fwd 1 2 _ hw] at hs
  rw [wsum_fwd (-1) 2 _ hw] at hd
  simp only [pow_zero, one_mul, Nat.cast_ofNat] at hs hd
  rw [show (-1 : Int) * 2 = -2 by norm_num] at hd
  unfold evalPm2
  simp only []
  generalize (evenOdd (fun i => 2 ^ i) xs 0).1 = e1 at *
  generalize (evenOdd (fun i => 2 ^ i) xs 0).2 = e2 at *
  rw [← hs, ← hd]
  by_cases hk : (xs.length - 1 - 1) % 2 = 1
  · simp only [hk, if_true]
    exact spec_of_evenOdd e1 e2
  · simp only [hk, if_false]
    constructor
    · simp only []; push_cast; ring
    · by_cases h : e2 < e1 <;> simp only [h, decide_true, decide_false, if_true, if_false, Bool.false_eq_true,
        Bool.not_true, Bool.not_false] <;> omega

/-! ### couple handling -/

/-- what toom_couple_handling computes from f(x) and the signed f(−x) -/
def coupleVal (FP FM W : Int) (ps ns : Nat) : Int :=
  (FP - (FP + FM) / 2) / 2 ^ ps + W * ((FP + FM) / 2 / 2 ^ ns)

theorem coupleHandling_val (pp np : Int) (nsign : Bool) (W : Int) (ps ns : Nat) :
    (coupleHandling pp np nsign W ps ns).val = coupleVal pp (if nsign = true then -np else np) W ps ns := by
  unfold coupleHandling coupleVal
  cases nsign <;> simp [sub_eq_add_neg]

theorem xor_signed (na nb : Bool) (ma mb : Nat) :
    (if (na != nb) = true then -(((ma * mb : Nat)) : Int) else ((ma * mb : Nat) : Int))
      = (if na = true then -(ma : Int) else ma) * (if nb = true then -(mb : Int) else mb) := by
  cases na <;> cases nb <;> simp

theorem point_val (ea eb : Eval) (Pa Ma Pb Mb : Int) (ha : EvalSpec ea Pa Ma) (hb : EvalSpec eb Pb Mb)
    (W : Int) (ps ns : Nat) :
    (point (· * ·) ea eb W ps ns).val = coupleVal (Pa * Pb) (Ma * Mb) W ps ns := by
  unfold point
  simp only []
  rw [coupleHandling_val, xor_signed, ha.minus, hb.minus]
  push_cast
  rw [ha.plus, hb.plus]

theorem pointSqr_val (e : Eval) (P M : Int) (h : EvalSpec e P M) (W : Int) (ps ns : Nat) :
    (pointSqr (fun x => x * x) e W ps ns).val = coupleVal (P * P) (M * M) W ps ns := by
  unfold pointSqr
  simp only []
  rw [coupleHandling_val]
  have hm : ((e.minus : Int)) * e.minus = M * M := by
    rw [← h.minus]; split <;> ring
  simp only [Bool.false_eq_true, if_false]
  push_cast
  rw [h.plus, hm]

end Mpir.Toom8
