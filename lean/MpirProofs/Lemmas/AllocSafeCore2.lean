/- Helper lemmas for the continuation of the size-aware models (Mpir/Model/AllocSafeMpz2.lean): read operands
   (`Src`, `Den`), the "wrote R at the bottom of w" invariant (`Wrote`), the kernels on them. -/
import Mpir.Model.AllocSafeMpz2
import MpirProofs.Lemmas.AllocSafeMpz
namespace Mpir.AllocSafe
open Mpir
open Mpir.Mpz (sgn Norm natAbs_sgn)

/-! ## lists -/

theorem take_take_le (l : List Nat) {a b : Nat} (h : a ≤ b) : (l.take b).take a = l.take a := by
  rw [List.take_take, Nat.min_eq_left h]

theorem take_len_le {l L : List Nat} (h : l.take L.length = L) : L.length ≤ l.length := by
  have := congrArg List.length h
  simp at this; omega

theorem drop_take_of_prefix {l L : List Nat} (h : l.take L.length = L) (off m : Nat) (hm : off + m ≤ L.length) :
    (l.drop off).take m = (L.drop off).take m := by
  conv_rhs => rw [← h]
  rw [List.drop_take, List.take_take, Nat.min_eq_left (by omega)]

theorem zipWith_take_full (f : Nat → Nat → Nat) (a b : List Nat) (m : Nat) (hm : min a.length b.length ≤ m) :
    List.zipWith f (a.take m) (b.take m) = List.zipWith f a b := by
  rw [← List.take_zipWith]
  exact List.take_of_length_le (by simp; omega)

/-! ## `__GMPN_AORS_1` on lists: lengths, limbs -/

theorem bdecr_len : ∀ u : List Nat, (Bits.decr u).1.length = u.length
  | [] => rfl
  | x :: xs => by
    unfold Bits.decr; dsimp only
    split
    · simp [bdecr_len xs]
    · simp

theorem bdecr_limbs : ∀ u : List Nat, Limbs u → Limbs (Bits.decr u).1
  | [], _ => by simp [Bits.decr, Limbs]
  | x :: xs, h => by
    have ⟨hx, hxs⟩ := Limbs_cons.mp h
    unfold Bits.decr; dsimp only
    split
    · exact Limbs_cons.mpr ⟨Nat.mod_lt _ B_pos, bdecr_limbs xs hxs⟩
    · exact Limbs_cons.mpr ⟨Nat.mod_lt _ B_pos, hxs⟩

theorem subLimb_len (u : List Nat) (v : Nat) : (Bits.subLimb u v).1.length = u.length := by
  cases u with
  | nil => rfl
  | cons x xs =>
    unfold Bits.subLimb; dsimp only
    split
    · simp [bdecr_len xs]
    · simp

theorem subLimb_limbs (u : List Nat) (v : Nat) (h : Limbs u) : Limbs (Bits.subLimb u v).1 := by
  cases u with
  | nil => simp [Bits.subLimb, Limbs]
  | cons x xs =>
    have ⟨hx, hxs⟩ := Limbs_cons.mp h
    unfold Bits.subLimb; dsimp only
    split
    · exact Limbs_cons.mpr ⟨Nat.mod_lt _ B_pos, bdecr_limbs xs hxs⟩
    · exact Limbs_cons.mpr ⟨Nat.mod_lt _ B_pos, hxs⟩

theorem bincr_len : ∀ u : List Nat, (Bits.incr u).1.length = u.length
  | [] => rfl
  | x :: xs => by
    unfold Bits.incr; dsimp only
    split
    · simp [bincr_len xs]
    · simp

theorem bincr_limbs : ∀ u : List Nat, Limbs u → Limbs (Bits.incr u).1
  | [], _ => by simp [Bits.incr, Limbs]
  | x :: xs, h => by
    have ⟨hx, hxs⟩ := Limbs_cons.mp h
    unfold Bits.incr; dsimp only
    split
    · exact Limbs_cons.mpr ⟨Nat.mod_lt _ B_pos, bincr_limbs xs hxs⟩
    · exact Limbs_cons.mpr ⟨Nat.mod_lt _ B_pos, hxs⟩

theorem bincr_cy : ∀ u : List Nat, (Bits.incr u).2 ≤ 1
  | [] => by simp [Bits.incr]
  | x :: xs => by
    unfold Bits.incr; dsimp only
    split
    · exact bincr_cy xs
    · simp

theorem addLimb_len (u : List Nat) (v : Nat) : (Bits.addLimb u v).1.length = u.length := by
  cases u with
  | nil => rfl
  | cons x xs =>
    unfold Bits.addLimb; dsimp only
    split
    · simp [bincr_len xs]
    · simp

theorem addLimb_limbs (u : List Nat) (v : Nat) (h : Limbs u) : Limbs (Bits.addLimb u v).1 := by
  cases u with
  | nil => simp [Bits.addLimb, Limbs]
  | cons x xs =>
    have ⟨hx, hxs⟩ := Limbs_cons.mp h
    unfold Bits.addLimb; dsimp only
    split
    · exact Limbs_cons.mpr ⟨Nat.mod_lt _ B_pos, bincr_limbs xs hxs⟩
    · exact Limbs_cons.mpr ⟨Nat.mod_lt _ B_pos, hxs⟩

theorem addLimb_cy (u : List Nat) (v : Nat) (hne : u ≠ []) : (Bits.addLimb u v).2 ≤ 1 := by
  cases u with
  | nil => exact absurd rfl hne
  | cons x xs =>
    unfold Bits.addLimb; dsimp only
    split
    · exact bincr_cy xs
    · simp

theorem Limbs_zipWith (f : Nat → Nat → Nat) (hf : ∀ a b, a < B → b < B → f a b < B) :
    ∀ (u v : List Nat), Limbs u → Limbs v → Limbs (List.zipWith f u v)
  | [], _, _, _ => by simp [Limbs]
  | _ :: _, [], _, _ => by simp [Limbs]
  | x :: xs, y :: ys, hu, hv => by
    have ⟨hx, hxs⟩ := Limbs_cons.mp hu
    have ⟨hy, hys⟩ := Limbs_cons.mp hv
    simp only [List.zipWith_cons_cons]
    exact Limbs_cons.mpr ⟨hf x y hx hy, Limbs_zipWith f hf xs ys hxs hys⟩

theorem and_lt {a b : Nat} (ha : a < B) : a &&& b < B := Nat.lt_of_le_of_lt Nat.and_le_left ha
theorem or_lt {a b : Nat} (ha : a < B) (hb : b < B) : a ||| b < B := by unfold B at *; exact Nat.or_lt_two_pow ha hb
theorem xor_lt {a b : Nat} (ha : a < B) (hb : b < B) : a ^^^ b < B := by unfold B at *; exact Nat.xor_lt_two_pow ha hb
theorem andn_lt {a b : Nat} (ha : a < B) : andn a b < B := and_lt ha

/-! ## read operands -/

/-- the base operand `src` holds the limbs `L` at [0, |L|), all readable -/
def Den (s : St) : Src → List Nat → Prop
  | .ptr p, L => p.off = 0 ∧ s.live p = true ∧ L.length ≤ (s.h p.id).buf.alloc ∧ (s.h p.id).buf.limbs.take L.length = L
  | .tmp b off, L => off = 0 ∧ L.length ≤ b.alloc ∧ b.limbs.take L.length = L

theorem Den.rd_add {s : St} {src : Src} {L : List Nat} (D : Den s src L) (off m : Nat) (hm : off + m ≤ L.length) :
    s.rdS (src.add off) m = (L.drop off).take m ∧ s.rdOkS (src.add off) m = true := by
  cases src with
  | ptr p =>
    obtain ⟨h0, hl, hfit, ht⟩ := D
    refine ⟨?_, ?_⟩
    · simp only [Src.add, St.rdS, St.rd, Buf.read, add_id, add_off, h0, Nat.zero_add]
      exact drop_take_of_prefix ht off m hm
    · simp only [Src.add, St.rdOkS, St.rdOk, Buf.read, add_id, add_off, h0, Nat.zero_add]
      have : s.live (p.add off) = true := by simpa [St.live, Ptr.add] using hl
      rw [this]; simp; omega
  | tmp b o =>
    obtain ⟨h0, hfit, ht⟩ := D
    subst h0
    refine ⟨?_, ?_⟩
    · simp only [Src.add, St.rdS, Buf.read, Nat.zero_add]
      exact drop_take_of_prefix ht off m hm
    · simp only [Src.add, St.rdOkS, Buf.read, Nat.zero_add]; simp; omega

theorem Src.add_zero (src : Src) : src.add 0 = src := by
  cases src with
  | ptr p => simp [Src.add]
  | tmp b o => simp [Src.add]

theorem Den.rd {s : St} {src : Src} {L : List Nat} (D : Den s src L) (m : Nat) (hm : m ≤ L.length) :
    s.rdS src m = L.take m ∧ s.rdOkS src m = true := by
  have := D.rd_add 0 m (by omega)
  simpa [Src.add_zero] using this

theorem Den.take {s : St} {src : Src} {L : List Nat} (D : Den s src L) (k : Nat) : Den s src (L.take k) := by
  cases src with
  | ptr p =>
    obtain ⟨h0, hl, hfit, ht⟩ := D
    refine ⟨h0, hl, by simp; omega, ?_⟩
    conv_rhs => rw [← ht]
    rw [List.take_take, List.length_take]
  | tmp b o =>
    obtain ⟨h0, hfit, ht⟩ := D
    refine ⟨h0, by simp; omega, ?_⟩
    conv_rhs => rw [← ht]
    rw [List.take_take, List.length_take]

theorem Den.chk {s : St} {src : Src} {L : List Nat} (D : Den s src L) (c : Bool) : Den (s.chk c) src L := by
  cases src <;> exact D

theorem Den.setSize {s : St} {src : Src} {L : List Nat} (D : Den s src L) (x : Nat) (z : Int) :
    Den (s.setSize x z) src L := by
  cases src with
  | ptr p =>
    obtain ⟨h0, hl, hfit, ht⟩ := D
    exact ⟨h0, by simpa [St.live] using hl, by simpa using hfit, by simpa using ht⟩
  | tmp b o => exact D

/-- a store at or above |L| leaves the operand alone (also when it is the block stored to) -/
theorem Den.wr {s : St} {src : Src} {L : List Nat} (D : Den s src L) (q : Ptr) (l : List Nat) (hq : L.length ≤ q.off) :
    Den (s.wr q l) src L := by
  cases src with
  | tmp b o => exact D
  | ptr p =>
    obtain ⟨h0, hl, hfit, ht⟩ := D
    refine ⟨h0, by simpa using hl, by simpa using hfit, ?_⟩
    by_cases hid : p.id = q.id
    · have hlen := take_len_le ht
      rw [hid]
      simp only [St.wr, upd_same, Buf.write]
      rw [hid] at ht hlen
      split
      · simp only
        rw [List.append_assoc, List.take_append_of_le_length (by simp; omega), take_take_le _ hq]
        exact ht
      · exact ht
    · rw [wr_other _ _ _ hid]; exact ht

theorem Den.of_owf {s : St} {x : Nat} (hx : OWF (s.h x)) : Den s (.ptr (s.PTR x)) (view (s.h x)).d := by
  have hl := view_d_length hx
  refine ⟨rfl, by simp, by rw [hl]; exact view_fit hx, ?_⟩
  simp only [PTR_id, hl]; rfl

theorem Den.of_grown {s s' : St} {w n : Nat} (G : Grown s s' w n) {x : Nat} (hx : OWF (s.h x)) :
    Den s' (.ptr (s'.PTR x)) (view (s.h x)).d := by
  have hl := view_d_length hx
  have hfit := view_fit hx
  refine ⟨rfl, by simp, by rw [hl]; have := G.mono x; simp; omega, ?_⟩
  simp only [PTR_id, hl]
  rw [G.take x _ hx.1 hfit]; rfl

/-! ## `if (ALLOC (res) < n) { _mpz_realloc (res, n); p = PTR (x); }` -/

theorem realloc_if (s : St) (res n : Nat) :
    (if decide (s.ALLOC res < n) = true then _mpz_realloc s res n else s) = MPZ_REALLOC s res n := by
  unfold MPZ_REALLOC
  by_cases h : s.ALLOC res < n
  · simp [h]
  · simp [h]

theorem reptr_eq (s : St) (res n x : Nat) :
    reptr true (decide (s.ALLOC res < n)) (MPZ_REALLOC s res n) x (s.PTR x) = (MPZ_REALLOC s res n).PTR x := by
  unfold reptr MPZ_REALLOC
  by_cases h : s.ALLOC res < n
  · have h' : n > s.ALLOC res := h
    simp [h, h']
  · have h' : ¬ n > s.ALLOC res := h
    simp [h, h']

/-! ## "R has been written at the bottom of w" -/

structure Wrote (s1 s2 : St) (w : Nat) (R : List Nat) : Prop where
  ok : s2.ok = true
  bwf : BWF (s2.h w).buf
  lim : (s2.h w).buf.limbs.take R.length = R
  alloc : (s2.h w).buf.alloc = (s1.h w).buf.alloc
  gen : (s2.h w).gen = (s1.h w).gen
  frame : ∀ x, x ≠ w → s2.h x = s1.h x

theorem Wrote.fit {s1 s2 : St} {w : Nat} {R : List Nat} (W : Wrote s1 s2 w R) : R.length ≤ (s2.h w).buf.alloc := by
  rw [← W.bwf.1]; exact take_len_le W.lim

/-- nothing written yet: any prefix of the block -/
theorem Wrote.refl (s : St) (w k : Nat) (hs : s.ok = true) (hb : BWF (s.h w).buf) (hk : k ≤ (s.h w).buf.alloc) :
    Wrote s s w ((s.h w).buf.limbs.take k) :=
  ⟨hs, hb, by rw [List.length_take, hb.1, Nat.min_eq_left hk], rfl, rfl, fun _ _ => rfl⟩

theorem Wrote.limbs {s1 s2 : St} {w : Nat} {R : List Nat} (W : Wrote s1 s2 w R) : Limbs R := by
  rw [← W.lim]; exact Limbs_take W.bwf.2 _

theorem Wrote.setSize {s1 s2 : St} {w : Nat} {R : List Nat} (W : Wrote s1 s2 w R) (z : Int) :
    Wrote s1 (s2.setSize w z) w R :=
  ⟨W.ok, by simpa using W.bwf, by simpa using W.lim, by simpa using W.alloc, by simpa using W.gen,
   fun x hx => by rw [setSize_other _ _ _ hx]; exact W.frame x hx⟩

theorem Wrote.chk {s1 s2 : St} {w : Nat} {R : List Nat} (W : Wrote s1 s2 w R) (c : Bool) (hc : c = true) :
    Wrote s1 (s2.chk c) w R :=
  ⟨by simp [W.ok, hc], W.bwf, W.lim, W.alloc, W.gen, W.frame⟩

/-- a store of `l` at `PTR (w) + k`, `k ≤ |R|`, inside the block -/
theorem Wrote.wr {s1 s2 : St} {w : Nat} {R : List Nat} (W : Wrote s1 s2 w R) (k : Nat) (l : List Nat)
    (hl : Limbs l) (hk : k ≤ R.length) (hfit : k + l.length ≤ (s1.h w).buf.alloc) :
    Wrote s1 (s2.wr ((s1.PTR w).add k) l) w (R.take k ++ l ++ R.drop (k + l.length)) := by
  have hfit2 : ((s1.PTR w).add k).off + l.length ≤ (s2.h ((s1.PTR w).add k).id).buf.alloc := by
    simp [W.alloc]; omega
  have hL := wr_limbs s2 ((s1.PTR w).add k) l hfit2
  simp only [add_id, PTR_id, add_off, PTR_off, Nat.zero_add] at hL
  have hRlen := take_len_le W.lim
  obtain ⟨T, hT⟩ : ∃ T, (s2.h w).buf.limbs = R ++ T :=
    ⟨(s2.h w).buf.limbs.drop R.length, by conv_lhs => rw [← List.take_append_drop R.length (s2.h w).buf.limbs, W.lim]⟩
  refine ⟨?_, wr_BWF _ _ hl _ W.bwf, ?_, by simp [W.alloc], by simp [W.gen], ?_⟩
  · rw [wr_ok]; simp [W.ok, St.live, St.PTR, Ptr.add, W.gen, W.alloc]; omega
  · rw [hL, hT, List.take_append_of_le_length hk, List.drop_append]
    rw [← List.append_assoc]
    exact List.take_left' rfl
  · intro x hx
    rw [wr_other _ _ _ (by simpa using hx)]; exact W.frame x hx

theorem Wrote.rd {s1 s2 : St} {w : Nat} {R : List Nat} (W : Wrote s1 s2 w R) (n : Nat) (hn : n ≤ R.length) :
    s2.rd (s1.PTR w) n = R.take n ∧ s2.rdOk (s1.PTR w) n = true := by
  have hf := W.fit
  refine ⟨?_, ?_⟩
  · simp only [St.rd, Buf.read, PTR_id, PTR_off, List.drop_zero]
    conv_rhs => rw [← W.lim]
    rw [take_take_le _ hn]
  · simp [St.rdOk, St.live, St.PTR, Buf.read, W.gen]; omega

/-- the operand survives what `Wrote` allows, if everything was stored at or above |L| … which the caller shows
    step by step with `Den.wr`; here: the final `Refines` -/
theorem Wrote.refines {s1 s2 : St} {w : Nat} {R : List Nat} (W : Wrote s1 s2 w R) (z : Int)
    (hz : (s2.h w).size = z) (hzl : z.natAbs ≤ R.length) :
    Refines s1 s2 w ⟨(s1.h w).buf.alloc, z, R.take z.natAbs⟩ := by
  refine ⟨W.ok, ?_, W.bwf, W.frame⟩
  simp only [view, hz, W.alloc]
  congr 1
  conv_rhs => rw [← W.lim]
  rw [take_take_le _ hzl]

/-! ## kernels -/

/-- `tmp_sub_1` from an operand holding `L`: the block holds `subLimb (L.take n) 1` -/
theorem tmp_sub_1_spec (s : St) (up : Ptr) (L : List Nat) (n : Nat) (D : Den s (.ptr up) L) (hn : n ≤ L.length)
    (hL : Limbs L) :
    (tmp_sub_1 s up n).2 = s.chk true ∧
    Den s (.tmp (tmp_sub_1 s up n).1 0) (Bits.subLimb (L.take n) 1).1 ∧
    ∀ s', Den s' (.tmp (tmp_sub_1 s up n).1 0) (Bits.subLimb (L.take n) 1).1 := by
  obtain ⟨e, ok⟩ := D.rd n hn
  simp only [St.rdS, St.rdOkS] at e ok
  have hlen : (Bits.subLimb (L.take n) 1).1.length = n := by rw [subLimb_len]; simp; omega
  have hD : ∀ s' : St, Den s' (.tmp (tmp_sub_1 s up n).1 0) (Bits.subLimb (L.take n) 1).1 := by
    intro s'
    simp only [tmp_sub_1, e, Buf.write, Buf.new, hlen, Nat.zero_add, Nat.le_refl, if_true]
    refine ⟨rfl, by simp [hlen], ?_⟩
    simp only [List.take_zero, List.nil_append, hlen]
    rw [List.take_append_of_le_length (by omega)]
    exact List.take_of_length_le (by omega)
  refine ⟨?_, hD s, hD⟩
  simp only [tmp_sub_1, e, ok, Buf.write, Buf.new, hlen, Nat.zero_add, Nat.le_refl, if_true, Bool.and_self]

theorem logop_scan_spec (f : Nat → Nat → Nat) (s : St) (a b : Src) (A Bl : List Nat) (n : Nat)
    (Da : Den s a A) (Db : Den s b Bl) (ha : n ≤ A.length) (hb : n ≤ Bl.length) :
    logop_scan f s a b n = (Bits.scanTop (List.zipWith f (A.take n) (Bl.take n)), s.chk true) := by
  obtain ⟨ea, oka⟩ := Da.rd n ha
  obtain ⟨eb, okb⟩ := Db.rd n hb
  simp [logop_scan, ea, eb, oka, okb]

/-- the loop / `mpn_and_n` storing at `res_ptr`, after `R` -/
theorem Wrote.logop {s1 s2 : St} {w : Nat} {R : List Nat} (W : Wrote s1 s2 w R) (f : Nat → Nat → Nat)
    (hf : ∀ a b, a < B → b < B → f a b < B) (a b : Src) (A Bl : List Nat) (n : Nat)
    (Da : Den s2 a A) (Db : Den s2 b Bl) (ha : n ≤ A.length) (hb : n ≤ Bl.length) (hA : Limbs A) (hB : Limbs Bl)
    (hn : n ≤ (s1.h w).buf.alloc) :
    Wrote s1 (logop_n f s2 (s1.PTR w) a b n) w (List.zipWith f (A.take n) (Bl.take n) ++ R.drop n) := by
  obtain ⟨ea, oka⟩ := Da.rd n ha
  obtain ⟨eb, okb⟩ := Db.rd n hb
  have hlen : (List.zipWith f (A.take n) (Bl.take n)).length = n := by simp; omega
  have W' := (W.chk true rfl).wr 0 (List.zipWith f (A.take n) (Bl.take n))
    (Limbs_zipWith f hf _ _ (Limbs_take hA _) (Limbs_take hB _)) (by omega)
    (by rw [hlen]; omega)
  simp only [add_zero_ptr, List.take_zero, List.nil_append, Nat.zero_add, hlen] at W'
  simpa [logop_n, ea, eb, oka, okb] using W'

/-- MPN_COPY to `res_ptr + k` from `src + k` -/
theorem Wrote.copy {s1 s2 : St} {w : Nat} {R : List Nat} (W : Wrote s1 s2 w R) (a : Src) (A : List Nat) (k n : Nat)
    (Da : Den s2 a A) (ha : k + n ≤ A.length) (hA : Limbs A) (hk : k ≤ R.length)
    (hfit : k + n ≤ (s1.h w).buf.alloc) :
    Wrote s1 (copy_S s2 ((s1.PTR w).add k) (a.add k) n) w (R.take k ++ (A.drop k).take n ++ R.drop (k + n)) := by
  obtain ⟨ea, oka⟩ := Da.rd_add k n ha
  have hlen : ((A.drop k).take n).length = n := by simp; omega
  have W' := (W.chk true rfl).wr k ((A.drop k).take n) (Limbs_take (Limbs_drop hA _) _) hk (by rw [hlen]; exact hfit)
  rw [hlen] at W'
  simpa [copy_S, ea, oka] using W'


/-- `MPN_COPY (rp + k, xp + k, n - k); for (i = k - 1; i >= 0; i--) rp[i] = f (ap[i], bp[i]);` on a fresh state
    (`xp` may be `ap` or `bp`, and any of them may be the destination's own block) -/
theorem Wrote.cat {s1 : St} {w : Nat} (hs : s1.ok = true) (hb : BWF (s1.h w).buf) (f : Nat → Nat → Nat)
    (hf : ∀ a b, a < B → b < B → f a b < B) (a b x : Src) (A Bl X : List Nat) (k : Nat)
    (Da : Den s1 a A) (Db : Den s1 b Bl) (Dx : Den s1 x X) (ha : k ≤ A.length) (hbl : k ≤ Bl.length) (hx : k ≤ X.length)
    (hA : Limbs A) (hB : Limbs Bl) (hX : Limbs X) (hfit : X.length ≤ (s1.h w).buf.alloc) :
    Wrote s1 (logop_n f (copy_S s1 ((s1.PTR w).add k) (x.add k) (X.length - k)) (s1.PTR w) a b k) w
      (List.zipWith f (A.take k) (Bl.take k) ++ X.drop k) := by
  have W0 := Wrote.refl s1 w k hs hb (by omega)
  have hR0 : ((s1.h w).buf.limbs.take k).length = k := by rw [List.length_take, hb.1]; omega
  generalize (s1.h w).buf.limbs.take k = R0 at W0 hR0
  have W1 := W0.copy x X k (X.length - k) Dx (by omega) hX (by omega) (by omega)
  have Da' : Den (copy_S s1 ((s1.PTR w).add k) (x.add k) (X.length - k)) a (A.take k) :=
    ((Da.take k).chk _).wr _ _ (by simp)
  have Db' : Den (copy_S s1 ((s1.PTR w).add k) (x.add k) (X.length - k)) b (Bl.take k) :=
    ((Db.take k).chk _).wr _ _ (by simp)
  have W2 := W1.logop f hf a b (A.take k) (Bl.take k) k Da' Db' (by simp; omega) (by simp; omega)
    (Limbs_take hA _) (Limbs_take hB _) (by omega)
  have e : (List.take k R0 ++ List.take (X.length - k) (List.drop k X) ++ List.drop (k + (X.length - k)) R0).drop k
      = X.drop k := by
    have e1 : List.take k R0 = R0 := List.take_of_length_le (by omega)
    have e2 : List.take (X.length - k) (List.drop k X) = X.drop k := List.take_of_length_le (by simp)
    have e3 : List.drop (k + (X.length - k)) R0 = [] := List.drop_of_length_le (by omega)
    rw [e1, e2, e3, List.append_nil, List.drop_left' hR0]
  rw [e, List.take_take, List.take_take, Nat.min_self] at W2
  exact W2

/-- `cy = mpn_add_1 (rp, rp, n, 1); if (cy) { rp[n] = cy; n++; }` on what has been written -/
theorem Wrote.addOne {s1 s2 : St} {w : Nat} {R : List Nat} (W : Wrote s1 s2 w R) (hne : R ≠ [])
    (hfit : R.length + 1 ≤ (s1.h w).buf.alloc) :
    (addOneTail s2 (s1.PTR w) R.length).1 = (Bits.addOneGrow R).length ∧
    Wrote s1 (addOneTail s2 (s1.PTR w) R.length).2 w (Bits.addOneGrow R) := by
  obtain ⟨e, ok⟩ := W.rd R.length (Nat.le_refl _)
  rw [List.take_length] at e
  have hlen := addLimb_len R 1
  have hlim := addLimb_limbs R 1 W.limbs
  have hcy := addLimb_cy R 1 hne
  have W1 := (W.chk true rfl).wr 0 (Bits.addLimb R 1).1 hlim (by omega) (by omega)
  simp only [add_zero_ptr, List.take_zero, List.nil_append, Nat.zero_add, hlen, List.drop_length, List.append_nil] at W1
  unfold addOneTail Bits.addOneGrow
  simp only [e, ok]
  by_cases hc : (Bits.addLimb R 1).2 = 0
  · have hc' : ((Bits.addLimb R 1).2 != 0) = false := by simp [hc]
    simp only [hc', Bool.false_eq_true, if_false]
    have : ¬ (Bits.addLimb R 1).2 ≠ 0 := by simp [hc]
    rw [show Bits.addLimb R 1 = ((Bits.addLimb R 1).1, (Bits.addLimb R 1).2) from rfl]
    simp only [this, if_false]
    exact ⟨hlen.symm, W1⟩
  · have hc' : ((Bits.addLimb R 1).2 != 0) = true := by simp [hc]
    simp only [hc', if_true]
    rw [show Bits.addLimb R 1 = ((Bits.addLimb R 1).1, (Bits.addLimb R 1).2) from rfl]
    simp only [hc, ne_eq, not_false_eq_true, if_true]
    have W2 := W1.wr R.length [(Bits.addLimb R 1).2] (by intro x hx; simp at hx; have := B_eq; omega)
      (by omega) (by simpa using hfit)
    rw [← hlen] at W2
    simp only [List.take_length, List.drop_of_length_le (Nat.le_add_right _ _), List.append_nil] at W2
    rw [hlen] at W2
    exact ⟨by simp [hlen], by simpa [St.store] using W2⟩

theorem Wrote.normalize {s1 s2 : St} {w : Nat} {R : List Nat} (W : Wrote s1 s2 w R) :
    (MPN_NORMALIZE s2 (s1.PTR w) R.length).1 = (Mpir.normalize R).length ∧
    Wrote s1 (MPN_NORMALIZE s2 (s1.PTR w) R.length).2 w R := by
  obtain ⟨e, ok⟩ := W.rd R.length (Nat.le_refl _)
  rw [List.take_length] at e
  simp only [MPN_NORMALIZE, e, ok]
  exact ⟨trivial, W.chk true rfl⟩

theorem addOneGrow_len_le (r : List Nat) : (Bits.addOneGrow r).length ≤ r.length + 1 := by
  unfold Bits.addOneGrow
  rw [show Bits.addLimb r 1 = ((Bits.addLimb r 1).1, (Bits.addLimb r 1).2) from rfl]
  simp only
  split <;> simp [addLimb_len]

theorem addOneGrow_len_ge (r : List Nat) : r.length ≤ (Bits.addOneGrow r).length := by
  unfold Bits.addOneGrow
  rw [show Bits.addLimb r 1 = ((Bits.addLimb r 1).1, (Bits.addLimb r 1).2) from rfl]
  simp only
  split <;> simp [addLimb_len]

end Mpir.AllocSafe
