/- mpn_rootrem_basecase: the limb-count facts the Newton round relies on, the loop invariants, the contract. -/
import MpirProofs.Lemmas.Rootrem
namespace Mpir.Rootrem
open Mpir Mpir.Root

/-! ### limb-count facts of one round (rootrem_basecase.c:158-163) -/

/-- (S1) the divisor `x^(n-1)` does not exceed `U` (so `pn ≤ un`: mpn_tdiv_qr is called legally). -/
theorem bc_pow_le (U n s x d : Nat) (hn : 2 ≤ n) (hd : 1 ≤ d) (hnd : n * d ≤ s) (hs1 : s ^ n ≤ U)
    (hx : x ≤ s + d) : x ^ (n - 1) ≤ U := by
  have h1 := pow_add_mul_le s d (n - 1) d (by
    have : d + (n - 1) * d = n * d := by
      have : n = (n - 1) + 1 := by omega
      calc d + (n - 1) * d = ((n - 1) + 1) * d := by ring
        _ = n * d := by rw [← this]
    omega)
  have e : n - 1 + 1 = n := by omega
  rw [e] at h1
  calc x ^ (n - 1) ≤ (s + d) ^ (n - 1) := Nat.pow_le_pow_left hx _
    _ = (s + d) ^ (n - 1) * 1 := (Nat.mul_one _).symm
    _ ≤ (s + d) ^ (n - 1) * d := Nat.mul_le_mul_left _ hd
    _ ≤ s ^ n := h1
    _ ≤ U := hs1

/-- `x^(n-1) ≤ 4·s^(n-1)` for `x ≤ s + d`, `n·d ≤ s`. -/
theorem bc_pow_le_four (n s x d : Nat) (hn : 2 ≤ n) (hnd : n * d ≤ s) (hx : x ≤ s + d) :
    x ^ (n - 1) ≤ 4 * s ^ (n - 1) := by
  obtain ⟨j1, hj1⟩ : ∃ j1, j1 = (n - 1) / 2 := ⟨_, rfl⟩
  obtain ⟨j2, hj2⟩ : ∃ j2, j2 = (n - 1) - j1 := ⟨_, rfl⟩
  have hsum : n - 1 = j1 + j2 := by omega
  have hj1n : 2 * j1 ≤ n := by omega
  have hj2n : 2 * j2 ≤ n := by omega
  have a1 := pow_add_le_two s d j1 (by
    calc 2 * (j1 * d) = (2 * j1) * d := by ring
      _ ≤ n * d := Nat.mul_le_mul_right _ hj1n
      _ ≤ s := hnd)
  have a2 := pow_add_le_two s d j2 (by
    calc 2 * (j2 * d) = (2 * j2) * d := by ring
      _ ≤ n * d := Nat.mul_le_mul_right _ hj2n
      _ ≤ s := hnd)
  calc x ^ (n - 1) ≤ (s + d) ^ (n - 1) := Nat.pow_le_pow_left hx _
    _ = (s + d) ^ j1 * (s + d) ^ j2 := by rw [hsum, pow_add]
    _ ≤ (2 * s ^ j1) * (2 * s ^ j2) := Nat.mul_le_mul a1 a2
    _ = 4 * s ^ (n - 1) := by rw [hsum, pow_add]; ring

/-- (S2) the quotient has at least `xn − 1` limbs: no limb of `qp` below `xn` is read unwritten. -/
theorem bc_no_stale (U n s x d xnb xn : Nat) (hn : 2 ≤ n) (hnd : n * d ≤ s) (hs1 : s ^ n ≤ U)
    (hx : x ≤ s + d) (hxpos : 0 < x) (hslo : 2 ^ (xnb - 1) ≤ s) (hxn : xn = (xnb + 63) / 64)
    (hPU : x ^ (n - 1) ≤ U) :
    xn ≤ limbLen U - limbLen (x ^ (n - 1)) + 2 := by
  by_cases hsmall : xn ≤ 2
  · omega
  have hP : 0 < x ^ (n - 1) := pow_pos hxpos _
  have h4 := bc_pow_le_four n s x d hn hnd hx
  -- s / 4 ≤ U / P
  have hq : s / 4 ≤ U / x ^ (n - 1) := by
    rw [Nat.le_div_iff_mul_le hP]
    calc s / 4 * x ^ (n - 1) ≤ s / 4 * (4 * s ^ (n - 1)) := Nat.mul_le_mul_left _ h4
      _ = (s / 4 * 4) * s ^ (n - 1) := by ring
      _ ≤ s * s ^ (n - 1) := Nat.mul_le_mul_right _ (Nat.div_mul_le_self s 4)
      _ = s ^ (n - 1 + 1) := by ring
      _ = s ^ n := by rw [Nat.sub_add_cancel (by omega)]
      _ ≤ U := hs1
  -- B^(xn-2) ≤ s / 4
  have hb : B ^ (xn - 2) ≤ s / 4 := by
    rw [Nat.le_div_iff_mul_le (by norm_num)]
    have : B ^ (xn - 2) * 4 = 2 ^ (64 * (xn - 2) + 2) := by
      unfold B; rw [← pow_mul, pow_add]; norm_num
    rw [this]
    exact Nat.le_trans (Nat.pow_le_pow_right (by norm_num) (by omega)) hslo
  have hpl := pow_limbLen_le _ hP
  have hp1 : 1 ≤ limbLen (x ^ (n - 1)) := by
    have := lt_limbLen_of_pow_le (a := x ^ (n - 1)) (j := 0) (by rw [pow_zero]; exact hP); omega
  have hU : B ^ (xn - 2 + (limbLen (x ^ (n - 1)) - 1)) ≤ U := by
    rw [pow_add]
    calc B ^ (xn - 2) * B ^ (limbLen (x ^ (n - 1)) - 1) ≤ (U / x ^ (n - 1)) * x ^ (n - 1) :=
          Nat.mul_le_mul (Nat.le_trans hb hq) hpl
      _ ≤ U := Nat.div_mul_le_self _ _
  have := lt_limbLen_of_pow_le hU
  omega

/-- (S3) a quotient of `xn + 1` limbs is seen by the test `un - pn == xn` (rootrem_basecase.c:163), as long as
    `4·n² ≤ B^xn`. -/
theorem bc_big_quot (U n s x xn : Nat) (hn : 2 ≤ n) (hsx : s ≤ x) (hxW : x < B ^ xn) (hsW : s + 1 ≤ B ^ xn)
    (hs2 : U < (s + 1) ^ n) (h2n : 2 * n ≤ x) (hn2 : 4 * n * n ≤ B ^ xn) (hxn : 1 ≤ xn)
    (hPU : x ^ (n - 1) ≤ U) (hbig : B ^ xn ≤ U / x ^ (n - 1)) :
    limbLen U - limbLen (x ^ (n - 1)) = xn := by
  have hxpos : 0 < x := by omega
  have hP : 0 < x ^ (n - 1) := pow_pos hxpos _
  have hpl := pow_limbLen_le _ hP
  have hpu := lt_pow_limbLen (x ^ (n - 1))
  have hp1 : 1 ≤ limbLen (x ^ (n - 1)) := by
    have := lt_limbLen_of_pow_le (a := x ^ (n - 1)) (j := 0) (by rw [pow_zero]; exact hP); omega
  have hWP : B ^ xn * x ^ (n - 1) ≤ U :=
    Nat.le_trans (Nat.mul_le_mul_right _ hbig) (Nat.div_mul_le_self _ _)
  generalize hW : B ^ xn = W at *
  generalize hpn : limbLen (x ^ (n - 1)) = pn at *
  have hWpos : 0 < W := by omega
  -- (a) un ≥ pn + xn
  have ha : xn + (pn - 1) < limbLen U := by
    apply lt_limbLen_of_pow_le
    rw [pow_add, hW]
    exact Nat.le_trans (Nat.mul_le_mul_left _ hpl) hWP
  -- (b) U < B^(xn + pn)
  have hn1 : n - 1 + 1 = n := by omega
  have hUx : U < (x + 1) ^ n := Nat.lt_of_lt_of_le hs2 (Nat.pow_le_pow_left (by omega) _)
  have h2x := pow_add_le_two x 1 n (by omega)
  have hW2x : W < 2 * x := by
    have : W * x ^ (n - 1) < (2 * x) * x ^ (n - 1) := by
      calc W * x ^ (n - 1) ≤ U := hWP
        _ < (x + 1) ^ n := hUx
        _ ≤ 2 * x ^ n := h2x
        _ = 2 * x ^ (n - 1 + 1) := by rw [hn1]
        _ = (2 * x) * x ^ (n - 1) := by ring
    exact Nat.lt_of_mul_lt_mul_right this
  obtain ⟨t, ht⟩ : ∃ t, t + (n - 1) = x := ⟨x - (n - 1), by omega⟩
  have h3 := pow_add_mul_le x 1 (n - 1) t (by omega)
  rw [hn1] at h3
  have hWt : W * t < (x + 1) * x := by
    have : (W * t) * x ^ (n - 1) < ((x + 1) * x) * x ^ (n - 1) := by
      calc (W * t) * x ^ (n - 1) = (W * x ^ (n - 1)) * t := by ring
        _ ≤ U * t := Nat.mul_le_mul_right _ hWP
        _ < (x + 1) ^ n * t := Nat.mul_lt_mul_of_pos_right hUx (by omega)
        _ = (x + 1) * ((x + 1) ^ (n - 1) * t) := by
            rw [← hn1, pow_succ]; rw [hn1]; ring
        _ ≤ (x + 1) * x ^ n := Nat.mul_le_mul_left _ h3
        _ = ((x + 1) * x) * x ^ (n - 1) := by rw [← hn1, pow_succ]; rw [hn1]; ring
    exact Nat.lt_of_mul_lt_mul_right this
  obtain ⟨c, hc⟩ : ∃ c, x + c = W := ⟨W - x, by omega⟩
  have hc2n : c < 2 * n := by
    by_contra hcc
    have hcc' : 2 * n ≤ c := by omega
    obtain ⟨n', hn'⟩ : ∃ n', n = n' + 1 := ⟨n - 1, by omega⟩
    subst hn'
    simp only [Nat.add_sub_cancel] at ht
    rw [← hc, ← ht] at hWt
    have h5 : 2 * (n' + 1) * t ≤ c * t := Nat.mul_le_mul_right _ hcc'
    nlinarith
  -- Bernoulli: W^(n-1) ≤ 2 x^(n-1)
  have hbern := bernoulli_sub W c (by omega) (n - 1)
  have hWc : W - c = x := by omega
  rw [hWc] at hbern
  have hhalf : W ≤ 2 * (W - (n - 1) * c) := by
    have : (n - 1) * c ≤ n * (2 * n) := Nat.mul_le_mul (by omega) (by omega)
    have : n * (2 * n) * 2 = 4 * n * n := by ring
    omega
  have hWn : W ^ (n - 1) ≤ 2 * x ^ (n - 1) := by
    have : W ^ (n - 1) * W ≤ (2 * x ^ (n - 1)) * W := by
      calc W ^ (n - 1) * W ≤ W ^ (n - 1) * (2 * (W - (n - 1) * c)) := Nat.mul_le_mul_left _ hhalf
        _ = 2 * (W ^ (n - 1) * (W - (n - 1) * c)) := by ring
        _ ≤ 2 * (W * x ^ (n - 1)) := Nat.mul_le_mul_left _ hbern
        _ = (2 * x ^ (n - 1)) * W := by ring
    exact Nat.le_of_mul_le_mul_right this hWpos
  -- pn ≥ xn (n-1)
  have hpn_ge : xn * (n - 1) ≤ pn := by
    have hB2 : 2 ≤ B := by rw [B_eq]; norm_num
    have hpos : 1 ≤ xn * (n - 1) := Nat.mul_pos hxn (by omega)
    have h6 : B ^ (xn * (n - 1) - 1) ≤ x ^ (n - 1) := by
      have : B ^ (xn * (n - 1) - 1) * B ≤ x ^ (n - 1) * B := by
        calc B ^ (xn * (n - 1) - 1) * B = B ^ (xn * (n - 1) - 1 + 1) := (pow_succ _ _).symm
          _ = B ^ (xn * (n - 1)) := by rw [Nat.sub_add_cancel hpos]
          _ = W ^ (n - 1) := by rw [← hW, ← pow_mul]
          _ ≤ 2 * x ^ (n - 1) := hWn
          _ ≤ B * x ^ (n - 1) := Nat.mul_le_mul_right _ hB2
          _ = x ^ (n - 1) * B := Nat.mul_comm _ _
      exact Nat.le_of_mul_le_mul_right this B_pos
    have := lt_limbLen_of_pow_le h6
    rw [hpn] at this
    omega
  have hb : limbLen U ≤ xn + pn := by
    rw [limbLen_le_iff, pow_add, hW]
    calc U < (s + 1) ^ n := hs2
      _ ≤ W ^ n := Nat.pow_le_pow_left hsW _
      _ = W * W ^ (n - 1) := by rw [← hn1, pow_succ]; rw [hn1]; ring
      _ = W * B ^ (xn * (n - 1)) := by rw [← hW, ← pow_mul]
      _ ≤ W * B ^ pn := Nat.mul_le_mul_left _ (Nat.pow_le_pow_right B_pos hpn_ge)
  omega


/-! ### the loops -/

theorem pow1_some (bn b e : Nat) (h : B ^ (bn - 1) ≤ b) : pow1 bn b e = some (b ^ e) := by
  unfold pow1; rw [if_pos h]

theorem lt_of_pow_lt {a b n : Nat} (h : a ^ n < b ^ n) : a < b := by
  by_contra hc
  have := Nat.pow_le_pow_left (Nat.le_of_not_lt hc) n
  omega

/-- The bit-by-bit phase (rootrem_basecase.c:132-147).  Invariant with `r = bit + 1` untested low bits:
    `s ≤ x ≤ s + 2^r`, the low `r` bits of `x` are ones, the top bit `T = 2^(xnb-1)` is still set. -/
theorem bcBits_spec (U n s xn T : Nat) (hs1 : s ^ n ≤ U) (hs2 : U < (s + 1) ^ n) (hT : B ^ (xn - 1) ≤ T) :
    ∀ (iters x bit nv : Nat), s ≤ x → x ≤ s + 2 ^ (bit + 1) → x % 2 ^ (bit + 1) = 2 ^ (bit + 1) - 1 →
      T + 2 ^ (bit + 1) ≤ x + 1 →
      ∃ x' nv' dn, bcBits n U xn iters x bit nv = some (x', nv', dn) ∧ s ≤ x' ∧ x' ≤ x ∧
        (dn = true → x' ≤ s + 1) ∧
        (dn = false → nv' = nv + iters ∧ iters ≤ bit ∧ x' ≤ s + 2 ^ (bit + 1 - iters))
  | 0, x, bit, nv, h1, h2, _, _ => ⟨x, nv, false, rfl, h1, Nat.le_refl _, by simp, fun _ => ⟨rfl, Nat.zero_le _, h2⟩⟩
  | iters + 1, x, bit, nv, h1, h2, h3, h4 => by
    obtain ⟨f1, f2, f3, f4⟩ := xor_flip x bit h3
    have hpw : 2 ^ (bit + 1) = 2 * 2 ^ bit := by ring
    have hp : 0 < 2 ^ bit := by positivity
    unfold bcBits
    dsimp only
    rw [f1, pow1_some xn (x - 2 ^ bit) n (by omega)]
    simp only [Option.bind_eq_bind, Option.bind_some]
    -- the value kept
    obtain ⟨xk, hxk⟩ : ∃ xk, xk = if U < (x - 2 ^ bit) ^ n then x - 2 ^ bit else x := ⟨_, rfl⟩
    rw [← hxk]
    have k1 : s ≤ xk ∧ xk ≤ s + 2 ^ bit ∧ xk % 2 ^ bit = 2 ^ bit - 1 ∧ T + 2 ^ bit ≤ xk + 1 ∧ xk ≤ x := by
      by_cases hc : U < (x - 2 ^ bit) ^ n
      · rw [if_pos hc] at hxk
        have : s < x - 2 ^ bit := lt_of_pow_lt (Nat.lt_of_le_of_lt hs1 hc)
        subst hxk
        exact ⟨by omega, by omega, f4, by omega, by omega⟩
      · rw [if_neg hc] at hxk
        have : x - 2 ^ bit < s + 1 := lt_of_pow_lt (Nat.lt_of_le_of_lt (Nat.le_of_not_lt hc) hs2)
        subst hxk
        exact ⟨h1, by omega, f3, by omega, Nat.le_refl _⟩
    obtain ⟨k1a, k1b, k1c, k1d, k1e⟩ := k1
    by_cases hb : bit = 0
    · rw [if_pos hb]
      subst hb
      exact ⟨xk, nv + 1, true, rfl, k1a, k1e, fun _ => by simpa using k1b, by simp⟩
    · rw [if_neg hb]
      have hb1 : bit - 1 + 1 = bit := by omega
      obtain ⟨x', nv', dn, e1, e2, e3, e4, e5⟩ := bcBits_spec U n s xn T hs1 hs2 hT iters xk (bit - 1) (nv + 1) k1a
        (by rw [hb1]; exact k1b) (by rw [hb1]; exact k1c) (by rw [hb1]; exact k1d)
      refine ⟨x', nv', dn, e1, e2, Nat.le_trans e3 k1e, e4, fun hd => ?_⟩
      obtain ⟨g1, g2, g3⟩ := e5 hd
      refine ⟨by omega, by omega, ?_⟩
      have : bit + 1 - (iters + 1) = bit - 1 + 1 - iters := by omega
      rw [this]; exact g3

/-- label `done:` — from the root or the root plus one. -/
theorem bcDone_spec (U n s xn x : Nat) (hs1 : s ^ n ≤ U) (hs2 : U < (s + 1) ^ n)
    (hlo : B ^ (xn - 1) ≤ s) (h1 : s ≤ x) (h2 : x ≤ s + 1) :
    bcDone U n xn x = some (s, U - s ^ n) := by
  unfold bcDone
  rw [pow1_some xn x n (by omega)]
  simp only [Option.bind_eq_bind, Option.bind_some]
  by_cases hc : U < x ^ n
  · rw [if_pos hc]
    have : s < x := lt_of_pow_lt (Nat.lt_of_le_of_lt hs1 hc)
    have hx : x - 1 = s := by omega
    rw [hx, pow1_some xn s n hlo]
    simp only [Option.bind_some]
    rw [if_neg (by omega)]
  · rw [if_neg hc]
    have : x < s + 1 := lt_of_pow_lt (Nat.lt_of_le_of_lt (Nat.le_of_not_lt hc) hs2)
    have hx : x = s := by omega
    rw [hx]

/-- The Newton loop (rootrem_basecase.c:154-179): `n_valid_bits = v + (L − 1)` with `v` doubling; invariant
    `s ≤ x ≤ s + 2^m`, `(x − s − 1)·2^v ≤ 2^(m+1)`.  Variant `xnb + 1 − n_valid_bits`: the fuel never runs out. -/
theorem bcNewton_spec (U k s xnb xn m L : Nat) (hnB : k + 2 < B) (hnL : k + 2 < 2 ^ L) (hL : 1 ≤ L)
    (hs1 : s ^ (k + 2) ≤ U) (hs2 : U < (s + 1) ^ (k + 2)) (hxnb : xnb = m + L + 1) (hm : 1 ≤ m)
    (hslo : 2 ^ (xnb - 1) ≤ s) (hshi : s < 2 ^ xnb) (hxn : xn = (xnb + 63) / 64)
    (hn2 : 4 * (k + 2) * (k + 2) ≤ B ^ xn) :
    ∀ (fuel x nv v : Nat), nv = v + (L - 1) → 1 ≤ v → xnb + 1 ≤ fuel + nv →
      s ≤ x → x ≤ s + 2 ^ m → x < B ^ xn → (x - s - 1) * 2 ^ v ≤ 2 ^ (m + 1) →
      ∃ x', bcNewton U (limbLen U) (k + 2) xn xnb (L - 1) fuel x nv = some x' ∧ s ≤ x' ∧ x' ≤ s + 1 := by
  have hxn1 : 1 ≤ xn := by omega
  have hlow : 2 ^ (m + L) ≤ s := by
    have : xnb - 1 = m + L := by omega
    rw [this] at hslo; exact hslo
  have hBlo : B ^ (xn - 1) ≤ s := by
    refine Nat.le_trans ?_ hslo
    unfold B; rw [← pow_mul]
    exact Nat.pow_le_pow_right (by norm_num) (by omega)
  have hsW : s + 1 ≤ B ^ xn := by
    have : 2 ^ xnb ≤ B ^ xn := by
      unfold B; rw [← pow_mul]
      exact Nat.pow_le_pow_right (by norm_num) (by omega)
    omega
  have hnd : (k + 2) * 2 ^ m ≤ s := by
    calc (k + 2) * 2 ^ m ≤ 2 ^ L * 2 ^ m := Nat.mul_le_mul_right _ (Nat.le_of_lt hnL)
      _ = 2 ^ (m + L) := by rw [pow_add]; ring
      _ ≤ s := hlow
  have h2n : 2 * (k + 2) ≤ s := by
    have : 2 ^ 1 ≤ 2 ^ m := Nat.pow_le_pow_right (by norm_num) hm
    nlinarith
  have hexit : ∀ x v nv, nv = v + (L - 1) → ¬ nv ≤ xnb → s ≤ x → (x - s - 1) * 2 ^ v ≤ 2 ^ (m + 1) → x ≤ s + 1 := by
    intro x v nv hnv hgt _ hd
    by_contra hc
    have h1 : 1 ≤ x - s - 1 := by omega
    have h2 : 2 ^ (m + 2) ≤ 2 ^ v := Nat.pow_le_pow_right (by norm_num) (by omega)
    have h3 : 2 ^ (m + 2) = 2 * 2 ^ (m + 1) := by ring
    have h4 : 1 * 2 ^ v ≤ (x - s - 1) * 2 ^ v := Nat.mul_le_mul_right _ h1
    have : 0 < 2 ^ (m + 1) := by positivity
    omega
  intro fuel
  induction fuel with
  | zero =>
    intro x nv v hnv hv hfuel h1 h2 h3 h4
    unfold bcNewton
    rw [if_neg (by omega)]
    exact ⟨x, rfl, h1, hexit x v nv hnv (by omega) h1 h4⟩
  | succ fuel ih =>
    intro x nv v hnv hv hfuel h1 h2 h3 h4
    unfold bcNewton
    by_cases hle : nv ≤ xnb
    · rw [if_pos hle]
      obtain ⟨t1, t2, t3⟩ := newton_step_true U k s x m L v hnL hs1 hs2 h1 hlow hm h4
      have hPU := bc_pow_le U (k + 2) s x (2 ^ m) (by omega) Nat.one_le_two_pow hnd hs1 h2
      have hst := bc_no_stale U (k + 2) s x (2 ^ m) xnb xn (by omega) hnd hs1 h2 (by omega) hslo hxn hPU
      have hbg := bc_big_quot U (k + 2) s x xn (by omega) h1 h3 hsW hs2 (by omega) hn2 hxn1 hPU
      have hx' : newtonTrue U (k + 2) x ≤ B ^ xn := by rcases t3 with h | h <;> omega
      rw [bcNewtonStep_eq U (k + 2) xn x (by omega) hnB (by omega) h3 hxn1 hPU hst hbg hx']
      simp only [Option.bind_eq_bind, Option.bind_some]
      obtain ⟨y, hy⟩ : ∃ y, y = min (newtonTrue U (k + 2) x) (B ^ xn - 1) := ⟨_, rfl⟩
      rw [← hy]
      have y1 : s ≤ y := by rw [hy]; exact Nat.le_min.mpr ⟨t1, by omega⟩
      have y2 : y ≤ newtonTrue U (k + 2) x := by rw [hy]; exact Nat.min_le_left _ _
      have y3 : y < B ^ xn := by
        have : y ≤ B ^ xn - 1 := by rw [hy]; exact Nat.min_le_right _ _
        omega
      have y4 : y ≤ s + 2 ^ m := by
        have : 1 ≤ 2 ^ m := Nat.one_le_two_pow
        rcases t3 with h | h <;> omega
      have y5 : (y - s - 1) * 2 ^ (2 * v) ≤ 2 ^ (m + 1) :=
        Nat.le_trans (Nat.mul_le_mul_right _ (by omega)) t2
      exact ih y (nv * 2 - (L - 1)) (2 * v) (by omega) (by omega) (by omega) y1 y4 y3 y5
    · rw [if_neg hle]
      exact ⟨x, rfl, h1, hexit x v nv hnv hle h1 h4⟩


/-- operands below 2^32 bits: when the Newton loop is reached (`xnb ≥ bits(n) + 2`), `4·n² ≤ B`. -/
theorem bc_index_small (U n : Nat) (hn : 2 ≤ n) (hsz : bitLen U ≤ 2 ^ 32)
    (hreach : bitLen n + 2 ≤ (bitLen U - 1) / n + 1) : 4 * n * n ≤ B := by
  have h1 : bitLen n + 1 ≤ (bitLen U - 1) / n := by omega
  rw [Nat.le_div_iff_mul_le (by omega)] at h1
  obtain ⟨b1, b2, b3⟩ := bitLen_spec n (by omega)
  have hlt : n < 2 ^ 28 := by
    by_contra hc
    have hc' : 2 ^ 28 ≤ n := by omega
    have hL : 29 ≤ bitLen n := by
      by_contra hL
      have : 2 ^ bitLen n ≤ 2 ^ 28 := Nat.pow_le_pow_right (by norm_num) (by omega)
      omega
    have : 2 ^ 28 * 30 ≤ (bitLen n + 1) * n := by
      calc 2 ^ 28 * 30 = 30 * 2 ^ 28 := by ring
        _ ≤ (bitLen n + 1) * n := Nat.mul_le_mul (by omega) hc'
    omega
  rw [B_eq]
  have : n * n ≤ 2 ^ 28 * 2 ^ 28 := Nat.mul_le_mul (by omega) (by omega)
  have : 4 * n * n = 4 * (n * n) := by ring
  omega

/-- mpn_rootrem_basecase returns the floor root and the exact remainder, and never leaves the modelled domain. -/
theorem rootremBasecase_ok (U n : Nat) (hU : 0 < U) (hn : 2 ≤ n) (hnB : n < B) (hsz : bitLen U ≤ 2 ^ 32) :
    rootremBasecase U n = some (iroot n U, U - iroot n U ^ n) := by
  obtain ⟨hs1, hs2⟩ := iroot_spec n U (by omega)
  obtain ⟨hb1, hb2⟩ := iroot_bits U n hU (by omega)
  generalize hs : iroot n U = s at *
  unfold rootremBasecase
  dsimp only
  generalize hq : (bitLen U - 1) / n = q at *
  by_cases hx1 : q + 1 = 1
  · rw [if_pos hx1]
    have hq0 : q = 0 := by omega
    subst hq0
    have : s = 1 := by simp at hb1 hb2; omega
    subst this; simp
  rw [if_neg hx1]
  have hq1 : 1 ≤ q := by omega
  obtain ⟨T, hT⟩ : ∃ T, T = 2 ^ q := ⟨_, rfl⟩
  have hTpos : 0 < T := by rw [hT]; positivity
  have hpw : 2 ^ (q + 1) = 2 * T := by rw [hT]; ring
  have hbit : q + 1 - 2 + 1 = q := by omega
  obtain ⟨xn, hxn⟩ : ∃ xn, xn = (q + 1 + 63) / 64 := ⟨_, rfl⟩
  rw [← hxn]
  have hTB : B ^ (xn - 1) ≤ T := by
    rw [hT]; unfold B; rw [← pow_mul]
    exact Nat.pow_le_pow_right (by norm_num) (by omega)
  have hBs : B ^ (xn - 1) ≤ s := Nat.le_trans hTB (by rw [hT]; exact hb1)
  rw [← hT] at hb1
  rw [hpw] at hb2 ⊢
  obtain ⟨x', nv', dn, e1, e2, e3, e4, e5⟩ := bcBits_spec U n s xn T hs1 hs2 hTB (bitLen n) (2 * T - 1) (q + 1 - 2) 0
    (by omega) (by rw [hbit, ← hT]; omega)
    (by
      rw [hbit, ← hT]
      have : 2 * T - 1 = T + (T - 1) := by omega
      rw [this, Nat.add_mod_left, Nat.mod_eq_of_lt (by omega)])
    (by rw [hbit, ← hT]; omega)
  rw [e1]
  simp only [Option.bind_eq_bind, Option.bind_some]
  cases dn with
  | true =>
    simp only [if_true, Option.bind_some]
    exact bcDone_spec U n s xn x' hs1 hs2 hBs e2 (e4 rfl)
  | false =>
    obtain ⟨g1, g2, g3⟩ := e5 rfl
    simp only [Nat.zero_add] at g1
    obtain ⟨L, hL⟩ : ∃ L, L = bitLen n := ⟨_, rfl⟩
    rw [← hL] at g1 g2 g3
    obtain ⟨b1, b2, b3⟩ := bitLen_spec n (by omega)
    rw [← hL] at b1 b2 b3
    obtain ⟨m, hm⟩ : ∃ m, m = q - L := ⟨_, rfl⟩
    have hmq : q + 1 = m + L + 1 := by omega
    have hm1 : 1 ≤ m := by omega
    obtain ⟨k, hk⟩ : ∃ k, n = k + 2 := ⟨n - 2, by omega⟩
    have hreach : bitLen n + 2 ≤ (bitLen U - 1) / n + 1 := by rw [hq, ← hL]; omega
    have hn2 := bc_index_small U n hn hsz hreach
    have hxn1 : 1 ≤ xn := by omega
    have hBW : B ≤ B ^ xn := by
      calc B = B ^ 1 := (pow_one _).symm
        _ ≤ B ^ xn := Nat.pow_le_pow_right B_pos hxn1
    have hexp : q + 1 - 2 + 1 - L = m := by omega
    rw [hexp] at g3
    have hx'W : x' < B ^ xn := by
      have : 2 * T ≤ B ^ xn := by
        rw [← hpw]; unfold B; rw [← pow_mul]
        exact Nat.pow_le_pow_right (by norm_num) (by omega)
      omega
    subst hk
    have hmL : 2 ^ (q + 1 - 1) ≤ s := by
      have : q + 1 - 1 = q := by omega
      rw [this, ← hT]; exact hb1
    obtain ⟨y, y1, y2, y3⟩ := bcNewton_spec U k s (q + 1) xn m L hnB b2 (by omega) hs1 hs2 (by omega) hm1
      hmL (by rw [hpw]; exact hb2) hxn (Nat.le_trans hn2 hBW)
      (q + 1 + 1) x' nv' 1 (by omega) (Nat.le_refl _) (by omega) e2 g3 hx'W
      (by
        have : x' - s - 1 ≤ 2 ^ m := by omega
        calc (x' - s - 1) * 2 ^ 1 ≤ 2 ^ m * 2 ^ 1 := Nat.mul_le_mul_right _ this
          _ = 2 ^ (m + 1) := by ring)
    have hadj : nv' - 1 = L - 1 := by omega
    simp only [Bool.false_eq_true, if_false]
    rw [hadj, y1]
    simp only [Option.bind_some]
    exact bcDone_spec U (k + 2) s xn y hs1 hs2 hBs y2 y3

end Mpir.Rootrem
