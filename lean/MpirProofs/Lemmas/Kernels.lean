/- Helper lemmas for the limb-vector kernel models (Mpir/Model/Kernels.lean). -/
import MpirProofs.Lemmas.Base
import Mpir.Model.Kernels
import Mathlib.Tactic.Ring
import Mathlib.Tactic.Linarith
import Mathlib.Tactic.IntervalCases
namespace Mpir


theorem boolToNat_le (b : Bool) : boolToNat b ≤ 1 := by cases b <;> simp [boolToNat]

theorem lor_le_one {a b : Nat} (ha : a ≤ 1) (hb : b ≤ 1) : a ||| b ≤ 1 := by
  interval_cases a <;> interval_cases b <;> decide

theorem lor_bool (p q : Prop) [Decidable p] [Decidable q] :
    boolToNat (decide p) ||| boolToNat (decide q) = if p ∨ q then 1 else 0 := by
  by_cases hp : p <;> by_cases hq : q <;> simp [boolToNat, hp, hq]

/-- one limb of add_n: the C's carry tests compute the true carry -/
theorem add_limb (u v cy : Nat) (hu : u < B) (hv : v < B) (hc : cy ≤ 1) :
    ((u + v) % B + cy) % B + B * (boolToNat (decide ((u + v) % B < u)) ||| boolToNat (decide (((u + v) % B + cy) % B < (u + v) % B)))
      = u + v + cy ∧
    (boolToNat (decide ((u + v) % B < u)) ||| boolToNat (decide (((u + v) % B + cy) % B < (u + v) % B))) ≤ 1 ∧
    ((u + v) % B + cy) % B < B := by
  rw [lor_bool]
  simp only [B_eq] at *
  split <;> omega

theorem addNC_val : ∀ (u v : List Nat) (cy : Nat), Limbs u → Limbs v → u.length = v.length → cy ≤ 1 →
    val (addNC u v cy).1 + B ^ u.length * (addNC u v cy).2 = val u + val v + cy ∧
    (addNC u v cy).2 ≤ 1 ∧ Limbs (addNC u v cy).1 ∧ (addNC u v cy).1.length = u.length
  | [], [], cy, _, _, _, hc => by simp [addNC, hc, Limbs_nil]
  | [], _ :: _, _, _, _, h, _ => by simp at h
  | _ :: _, [], _, _, _, h, _ => by simp at h
  | u :: us, v :: vs, cy, hu, hv, hl, hc => by
    have ⟨hu0, hus⟩ := Limbs_cons.mp hu
    have ⟨hv0, hvs⟩ := Limbs_cons.mp hv
    have ⟨e, c1, r1⟩ := add_limb u v cy hu0 hv0 hc
    have ih := addNC_val us vs _ hus hvs (by simpa using hl) c1
    obtain ⟨ihv, ihc, ihl, ihn⟩ := ih
    simp only [addNC, val_cons, List.length_cons, pow_succ]
    refine ⟨?_, ihc, Limbs_cons.mpr ⟨r1, ihl⟩, by rw [ihn]⟩
    generalize (boolToNat (decide ((u + v) % B < u)) ||| boolToNat (decide (((u + v) % B + cy) % B < (u + v) % B))) = c at *
    generalize ((u + v) % B + cy) % B = rl at *
    generalize (addNC us vs c) = res at *
    nlinarith [ihv, e]
end Mpir
