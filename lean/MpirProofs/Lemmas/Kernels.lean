/- Helper lemmas for the limb-vector kernel models (Mpir/Model/Kernels.lean). -/
import MpirProofs.Lemmas.Base
import Mpir.Model.Kernels
import Mathlib.Tactic.Ring
import Mathlib.Tactic.Linarith
import Mathlib.Tactic.IntervalCases
import Mathlib.Tactic.LinearCombination
namespace Mpir


theorem boolToNat_le (b : Bool) : boolToNat b ≤ 1 := by cases b <;> simp [boolToNat]

theorem lor_le_one {a b : Nat} (ha : a ≤ 1) (hb : b ≤ 1) : a ||| b ≤ 1 := by
  interval_cases a <;> interval_cases b <;> decide

theorem lor_bool (p q : Prop) [Decidable p] [Decidable q] :
    boolToNat (decide p) ||| boolToNat (decide q) = if p ∨ q then 1 else 0 := by
  by_cases hp : p <;> by_cases hq : q <;> simp [boolToNat, hp, hq]

/-- one limb of add_n: the C's carry tests compute the true carry -/
theorem add_limb (u v cy : Nat) (hu : u < B) (hv : v < B) (hc : cy ≤ 1) :
    ((u + v) % B + cy) % B + B * (boolToNat (decide ((u + v) % B < u)) ||| boolToNat (decide (((u + v) % B + cy) % B < (u + v) % B)))
      = u + v + cy ∧
    (boolToNat (decide ((u + v) % B < u)) ||| boolToNat (decide (((u + v) % B + cy) % B < (u + v) % B))) ≤ 1 ∧
    ((u + v) % B + cy) % B < B := by
  rw [lor_bool]
  simp only [B_eq] at *
  split <;> omega

theorem addNC_val : ∀ (u v : List Nat) (cy : Nat), Limbs u → Limbs v → u.length = v.length → cy ≤ 1 →
    val (addNC u v cy).1 + B ^ u.length * (addNC u v cy).2 = val u + val v + cy ∧
    (addNC u v cy).2 ≤ 1 ∧ Limbs (addNC u v cy).1 ∧ (addNC u v cy).1.length = u.length
  | [], [], cy, _, _, _, hc => by simp [addNC, hc, Limbs_nil]
  | [], _ :: _, _, _, _, h, _ => by simp at h
  | _ :: _, [], _, _, _, h, _ => by simp at h
  | u :: us, v :: vs, cy, hu, hv, hl, hc => by
    have ⟨hu0, hus⟩ := Limbs_cons.mp hu
    have ⟨hv0, hvs⟩ := Limbs_cons.mp hv
    have ⟨e, c1, r1⟩ := add_limb u v cy hu0 hv0 hc
    have ih := addNC_val us vs _ hus hvs (by simpa using hl) c1
    obtain ⟨ihv, ihc, ihl, ihn⟩ := ih
    simp only [addNC, val_cons, List.length_cons, pow_succ]
    refine ⟨?_, ihc, Limbs_cons.mpr ⟨r1, ihl⟩, by rw [ihn]⟩
    generalize (boolToNat (decide ((u + v) % B < u)) ||| boolToNat (decide (((u + v) % B + cy) % B < (u + v) % B))) = c at *
    generalize ((u + v) % B + cy) % B = rl at *
    generalize (addNC us vs c) = res at *
    nlinarith [ihv, e]

/-! ### sub_n -/

/-- one limb of sub_n: the C's borrow tests compute the true borrow -/
theorem sub_limb (u v cy sl rl c : Nat) (hu : u < B) (hv : v < B) (hc : cy ≤ 1)
    (hsl : sl = (u + B - v) % B) (hrl : rl = (sl + B - cy) % B)
    (hcd : c = boolToNat (decide (sl > u)) ||| boolToNat (decide (rl > sl))) :
    rl + v + cy = u + B * c ∧ c ≤ 1 ∧ rl < B := by
  rw [lor_bool] at hcd
  simp only [B_eq] at *
  split at hcd <;> omega

theorem subNC_val : ∀ (u v : List Nat) (cy : Nat), Limbs u → Limbs v → u.length = v.length → cy ≤ 1 →
    val (subNC u v cy).1 + val v + cy = val u + B ^ u.length * (subNC u v cy).2 ∧
    (subNC u v cy).2 ≤ 1 ∧ Limbs (subNC u v cy).1 ∧ (subNC u v cy).1.length = u.length
  | [], [], cy, _, _, _, hc => by simp [subNC, hc, Limbs_nil]
  | [], _ :: _, _, _, _, h, _ => by simp at h
  | _ :: _, [], _, _, _, h, _ => by simp at h
  | u :: us, v :: vs, cy, hu, hv, hl, hc => by
    have ⟨hu0, hus⟩ := Limbs_cons.mp hu
    have ⟨hv0, hvs⟩ := Limbs_cons.mp hv
    obtain ⟨sl, hsl⟩ : ∃ sl, sl = (u + B - v) % B := ⟨_, rfl⟩
    obtain ⟨rl, hrl⟩ : ∃ rl, rl = (sl + B - cy) % B := ⟨_, rfl⟩
    obtain ⟨c, hcd⟩ : ∃ c, c = boolToNat (decide (sl > u)) ||| boolToNat (decide (rl > sl)) := ⟨_, rfl⟩
    have step : subNC (u :: us) (v :: vs) cy = (rl :: (subNC us vs c).1, (subNC us vs c).2) := by
      rw [hcd, hrl, hsl]; simp only [subNC]
    have ⟨e, c1, r1⟩ := sub_limb u v cy sl rl c hu0 hv0 hc hsl hrl hcd
    obtain ⟨ihv, ihc, ihl, ihn⟩ := subNC_val us vs c hus hvs (by simpa using hl) c1
    rw [step]
    simp only [val_cons, List.length_cons, pow_succ]
    refine ⟨?_, ihc, Limbs_cons.mpr ⟨r1, ihl⟩, by rw [ihn]⟩
    generalize (subNC us vs c) = res at *
    linear_combination e + B * ihv

/-! ### add_1 / sub_1 / add / sub : carry propagation with early exit -/

theorem incr_val : ∀ (u : List Nat), Limbs u →
    val (incr u).1 + B ^ u.length * (incr u).2 = val u + 1 ∧
    (incr u).2 ≤ 1 ∧ Limbs (incr u).1 ∧ (incr u).1.length = u.length
  | [], _ => by simp [incr, Limbs_nil]
  | x :: xs, h => by
    have ⟨hx, hxs⟩ := Limbs_cons.mp h
    obtain ⟨ihv, ihc, ihl, ihn⟩ := incr_val xs hxs
    obtain ⟨r, hr⟩ : ∃ r, r = (x + 1) % B := ⟨_, rfl⟩
    have step : incr (x :: xs) = if r < 1 then (r :: (incr xs).1, (incr xs).2) else (r :: xs, 0) := by
      rw [hr]; simp only [incr]
    rw [step]
    have hrB : r < B := hr ▸ Nat.mod_lt _ B_pos
    split
    · simp only [val_cons, List.length_cons, pow_succ]
      refine ⟨?_, ihc, Limbs_cons.mpr ⟨hrB, ihl⟩, by rw [ihn]⟩
      have e : r + B = x + 1 := by simp only [B_eq] at *; omega
      generalize incr xs = res at *
      linear_combination e + B * ihv
    · simp only [val_cons, List.length_cons, pow_succ]
      refine ⟨?_, by omega, Limbs_cons.mpr ⟨hrB, hxs⟩, trivial⟩
      have e : r = x + 1 := by simp only [B_eq] at *; omega
      linear_combination e

theorem decr_val : ∀ (u : List Nat), Limbs u →
    val (decr u).1 + 1 = val u + B ^ u.length * (decr u).2 ∧
    (decr u).2 ≤ 1 ∧ Limbs (decr u).1 ∧ (decr u).1.length = u.length
  | [], _ => by simp [decr, Limbs_nil]
  | x :: xs, h => by
    have ⟨hx, hxs⟩ := Limbs_cons.mp h
    obtain ⟨ihv, ihc, ihl, ihn⟩ := decr_val xs hxs
    obtain ⟨r, hr⟩ : ∃ r, r = (x + B - 1) % B := ⟨_, rfl⟩
    have step : decr (x :: xs) = if x < 1 then (r :: (decr xs).1, (decr xs).2) else (r :: xs, 0) := by
      rw [hr]; simp only [decr]
    rw [step]
    have hrB : r < B := hr ▸ Nat.mod_lt _ B_pos
    split
    · simp only [val_cons, List.length_cons, pow_succ]
      refine ⟨?_, ihc, Limbs_cons.mpr ⟨hrB, ihl⟩, by rw [ihn]⟩
      have e : r + 1 = x + B := by simp only [B_eq] at *; omega
      generalize decr xs = res at *
      linear_combination e + B * ihv
    · simp only [val_cons, List.length_cons, pow_succ]
      refine ⟨?_, by omega, Limbs_cons.mpr ⟨hrB, hxs⟩, trivial⟩
      have e : r + 1 = x := by simp only [B_eq] at *; omega
      linear_combination e

theorem add_1_val' (x : Nat) (xs : List Nat) (v : Nat) (h : Limbs (x :: xs)) (hv : v < B) :
    val (add_1 (x :: xs) v).1 + B ^ (xs.length + 1) * (add_1 (x :: xs) v).2 = val (x :: xs) + v ∧
    (add_1 (x :: xs) v).2 ≤ 1 ∧ Limbs (add_1 (x :: xs) v).1 ∧
    (add_1 (x :: xs) v).1.length = xs.length + 1 := by
  have ⟨hx, hxs⟩ := Limbs_cons.mp h
  obtain ⟨ihv, ihc, ihl, ihn⟩ := incr_val xs hxs
  obtain ⟨r, hr⟩ : ∃ r, r = (x + v) % B := ⟨_, rfl⟩
  have step : add_1 (x :: xs) v = if r < v then (r :: (incr xs).1, (incr xs).2) else (r :: xs, 0) := by
    rw [hr]; simp only [add_1]
  rw [step]
  have hrB : r < B := hr ▸ Nat.mod_lt _ B_pos
  split
  · simp only [val_cons, List.length_cons, pow_succ]
    refine ⟨?_, ihc, Limbs_cons.mpr ⟨hrB, ihl⟩, by rw [ihn]⟩
    have e : r + B = x + v := by simp only [B_eq] at *; omega
    generalize incr xs = res at *
    linear_combination e + B * ihv
  · simp only [val_cons, List.length_cons, pow_succ]
    refine ⟨?_, by omega, Limbs_cons.mpr ⟨hrB, hxs⟩, trivial⟩
    have e : r = x + v := by simp only [B_eq] at *; omega
    linear_combination e

theorem sub_1_val' (x : Nat) (xs : List Nat) (v : Nat) (h : Limbs (x :: xs)) (hv : v < B) :
    val (sub_1 (x :: xs) v).1 + v = val (x :: xs) + B ^ (xs.length + 1) * (sub_1 (x :: xs) v).2 ∧
    (sub_1 (x :: xs) v).2 ≤ 1 ∧ Limbs (sub_1 (x :: xs) v).1 ∧
    (sub_1 (x :: xs) v).1.length = xs.length + 1 := by
  have ⟨hx, hxs⟩ := Limbs_cons.mp h
  obtain ⟨ihv, ihc, ihl, ihn⟩ := decr_val xs hxs
  obtain ⟨r, hr⟩ : ∃ r, r = (x + B - v) % B := ⟨_, rfl⟩
  have step : sub_1 (x :: xs) v = if x < v then (r :: (decr xs).1, (decr xs).2) else (r :: xs, 0) := by
    rw [hr]; simp only [sub_1]
  rw [step]
  have hrB : r < B := hr ▸ Nat.mod_lt _ B_pos
  split
  · simp only [val_cons, List.length_cons, pow_succ]
    refine ⟨?_, ihc, Limbs_cons.mpr ⟨hrB, ihl⟩, by rw [ihn]⟩
    have e : r + v = x + B := by simp only [B_eq] at *; omega
    generalize decr xs = res at *
    linear_combination e + B * ihv
  · simp only [val_cons, List.length_cons, pow_succ]
    refine ⟨?_, by omega, Limbs_cons.mpr ⟨hrB, hxs⟩, trivial⟩
    have e : r + v = x := by simp only [B_eq] at *; omega
    linear_combination e

theorem add_val' (x y : List Nat) (hx : Limbs x) (hy : Limbs y) (hl : y.length ≤ x.length) :
    val (add x y).1 + B ^ x.length * (add x y).2 = val x + val y ∧
    (add x y).2 ≤ 1 ∧ Limbs (add x y).1 ∧ (add x y).1.length = x.length := by
  have htl : (x.take y.length).length = y.length := by simp [hl]
  have hdl : (x.drop y.length).length = x.length - y.length := by simp
  obtain ⟨av, ac, al, an⟩ := addNC_val (x.take y.length) y 0 (Limbs_take hx _) hy htl (by omega)
  obtain ⟨iv, ic, il, iN⟩ := incr_val (x.drop y.length) (Limbs_drop hx _)
  have hsplit := val_take_drop x y.length hl
  have hpow : B ^ x.length = B ^ y.length * B ^ (x.length - y.length) := by
    rw [← pow_add]; congr 1; omega
  rw [htl] at av an
  rw [hdl] at iv iN
  by_cases hc : (addNC (x.take y.length) y 0).2 = 0
  · have e : add x y = ((addNC (x.take y.length) y 0).1 ++ x.drop y.length, 0) := by
      simp [add, add_n, hc]
    rw [e]
    simp only [val_append, List.length_append, Limbs_append, an, hdl]
    refine ⟨?_, by omega, ⟨al, Limbs_drop hx _⟩, by omega⟩
    rw [hc] at av
    linear_combination av - hsplit
  · have e : add x y = ((addNC (x.take y.length) y 0).1 ++ (incr (x.drop y.length)).1,
        (incr (x.drop y.length)).2) := by
      simp [add, add_n, hc]
    have hc1 : (addNC (x.take y.length) y 0).2 = 1 := by omega
    rw [e]
    simp only [val_append, List.length_append, Limbs_append, an, iN]
    refine ⟨?_, ic, ⟨al, il⟩, by omega⟩
    rw [hc1] at av
    linear_combination av + B ^ y.length * iv - hsplit + (incr (x.drop y.length)).2 * hpow
theorem sub_val' (x y : List Nat) (hx : Limbs x) (hy : Limbs y) (hl : y.length ≤ x.length) :
    val (sub x y).1 + val y = val x + B ^ x.length * (sub x y).2 ∧
    (sub x y).2 ≤ 1 ∧ Limbs (sub x y).1 ∧ (sub x y).1.length = x.length := by
  have htl : (x.take y.length).length = y.length := by simp [hl]
  have hdl : (x.drop y.length).length = x.length - y.length := by simp
  obtain ⟨av, ac, al, an⟩ := subNC_val (x.take y.length) y 0 (Limbs_take hx _) hy htl (by omega)
  obtain ⟨iv, ic, il, iN⟩ := decr_val (x.drop y.length) (Limbs_drop hx _)
  have hsplit := val_take_drop x y.length hl
  have hpow : B ^ x.length = B ^ y.length * B ^ (x.length - y.length) := by
    rw [← pow_add]; congr 1; omega
  rw [htl] at av an
  rw [hdl] at iv iN
  by_cases hc : (subNC (x.take y.length) y 0).2 = 0
  · have e : sub x y = ((subNC (x.take y.length) y 0).1 ++ x.drop y.length, 0) := by
      simp [sub, sub_n, hc]
    rw [e]
    simp only [val_append, List.length_append, Limbs_append, an, hdl]
    refine ⟨?_, by omega, ⟨al, Limbs_drop hx _⟩, by omega⟩
    rw [hc] at av
    linear_combination av - hsplit
  · have e : sub x y = ((subNC (x.take y.length) y 0).1 ++ (decr (x.drop y.length)).1,
        (decr (x.drop y.length)).2) := by
      simp [sub, sub_n, hc]
    have hc1 : (subNC (x.take y.length) y 0).2 = 1 := by omega
    rw [e]
    simp only [val_append, List.length_append, Limbs_append, an, iN]
    refine ⟨?_, ic, ⟨al, il⟩, by omega⟩
    rw [hc1] at av
    linear_combination av + B ^ y.length * iv - hsplit - (decr (x.drop y.length)).2 * hpow

/-! ### com_n / neg_n -/

theorem com_n_val' : ∀ (u : List Nat), Limbs u →
    val (com_n u) + val u + 1 = B ^ u.length ∧ Limbs (com_n u) ∧ (com_n u).length = u.length
  | [], _ => by simp [com_n, Limbs_nil]
  | x :: xs, h => by
    have ⟨hx, hxs⟩ := Limbs_cons.mp h
    obtain ⟨ihv, ihl, ihn⟩ := com_n_val' xs hxs
    have step : com_n (x :: xs) = (B - 1 - x) :: com_n xs := rfl
    rw [step]
    simp only [val_cons, List.length_cons, pow_succ]
    refine ⟨?_, Limbs_cons.mpr ⟨by omega, ihl⟩, by rw [ihn]⟩
    have e : (B - 1 - x) + x + 1 = B := by omega
    linear_combination e + B * ihv

theorem negNC_one : ∀ (u : List Nat), negNC u 1 = (com_n u, 1)
  | [] => rfl
  | x :: xs => by
    have step : negNC (x :: xs) 1 = ((B - 1 - x) :: (negNC xs 1).1, (negNC xs 1).2) := by
      simp [negNC]
    rw [step, negNC_one xs]; rfl

theorem negNC_zero_val : ∀ (u : List Nat), Limbs u →
    val (negNC u 0).1 + val u = B ^ u.length * (negNC u 0).2 ∧
    (((negNC u 0).2 = 0 ∧ val u = 0) ∨ ((negNC u 0).2 = 1 ∧ val u ≠ 0)) ∧
    Limbs (negNC u 0).1 ∧ (negNC u 0).1.length = u.length
  | [], _ => by simp [negNC, Limbs_nil]
  | x :: xs, h => by
    have ⟨hx, hxs⟩ := Limbs_cons.mp h
    have hB := B_pos
    by_cases hx0 : x = 0
    · obtain ⟨ihv, ihc, ihl, ihn⟩ := negNC_zero_val xs hxs
      have step : negNC (x :: xs) 0 = (0 :: (negNC xs 0).1, (negNC xs 0).2) := by
        simp [negNC, hx0]
      rw [step]
      simp only [val_cons, List.length_cons, pow_succ]
      refine ⟨?_, ?_, Limbs_cons.mpr ⟨B_pos, ihl⟩, by rw [ihn]⟩
      · rw [hx0]; linear_combination B * ihv
      · rcases ihc with ⟨c0, v0⟩ | ⟨c1, v1⟩
        · left; exact ⟨c0, by rw [hx0, v0]; simp⟩
        · right; refine ⟨c1, ?_⟩
          have := Nat.mul_pos hB (Nat.pos_of_ne_zero v1); omega
    · obtain ⟨cv, cl, cn⟩ := com_n_val' xs hxs
      have step : negNC (x :: xs) 0 = (((B - x) % B) :: com_n xs, 1) := by
        simp [negNC, hx0, negNC_one]
      rw [step]
      simp only [val_cons, List.length_cons, pow_succ]
      have hr : (B - x) % B = B - x := Nat.mod_eq_of_lt (by omega)
      rw [hr]
      refine ⟨?_, Or.inr ⟨trivial, by omega⟩, Limbs_cons.mpr ⟨by omega, cl⟩, by rw [cn]⟩
      have e : (B - x) + x = B := by omega
      linear_combination e + B * cv
/-! ### lshift / rshift -/

theorem B_split (c : Nat) (hc : c ≤ 64) : B = 2 ^ c * 2 ^ (64 - c) := by
  rw [← pow_add]; unfold B; congr 1; omega

/-- one limb of lshift: the `|` of the shifted limb and the bits carried in is an addition -/
theorem lshift_limb (x lo c : Nat) (hc : c ≤ 64) (hlo : lo < 2 ^ c) :
    ((x <<< c) % B ||| lo) + B * (x >>> (64 - c)) = x * 2 ^ c + lo ∧
    ((x <<< c) % B ||| lo) < B := by
  have hB := B_split c hc
  have h1 : (x <<< c) % B = 2 ^ c * (x % 2 ^ (64 - c)) := by
    rw [Nat.shiftLeft_eq, hB, Nat.mul_comm x, Nat.mul_mod_mul_left]
  rw [h1, ← Nat.two_pow_add_eq_or_of_lt hlo, Nat.shiftRight_eq_div_pow]
  have hdm := Nat.div_add_mod x (2 ^ (64 - c))
  have hlt : x % 2 ^ (64 - c) < 2 ^ (64 - c) := Nat.mod_lt _ (by positivity)
  constructor
  · rw [hB]; linear_combination (2 ^ c) * hdm
  · rw [hB]
    have : 2 ^ c * (x % 2 ^ (64 - c) + 1) ≤ 2 ^ c * 2 ^ (64 - c) := Nat.mul_le_mul_left _ hlt
    linarith

theorem shr_lt (x c : Nat) (hc : c ≤ 64) (hx : x < B) : x >>> (64 - c) < 2 ^ c := by
  rw [Nat.shiftRight_eq_div_pow, Nat.div_lt_iff_lt_mul (by positivity), ← B_split c hc]; exact hx

theorem lshiftGo_val (c : Nat) (hc : c ≤ 64) : ∀ (u : List Nat) (lo : Nat), Limbs u → lo < 2 ^ c →
    val (lshiftGo c u lo).1 + B ^ u.length * (lshiftGo c u lo).2 = val u * 2 ^ c + lo ∧
    (lshiftGo c u lo).2 < 2 ^ c ∧ Limbs (lshiftGo c u lo).1 ∧ (lshiftGo c u lo).1.length = u.length
  | [], lo, _, hlo => by simp [lshiftGo, hlo, Limbs_nil]
  | x :: xs, lo, h, hlo => by
    have ⟨hx, hxs⟩ := Limbs_cons.mp h
    obtain ⟨e, hcur⟩ := lshift_limb x lo c hc hlo
    obtain ⟨ihv, ihc, ihl, ihn⟩ := lshiftGo_val c hc xs (x >>> (64 - c)) hxs (shr_lt x c hc hx)
    have step : lshiftGo c (x :: xs) lo = (((x <<< c) % B ||| lo) :: (lshiftGo c xs (x >>> (64 - c))).1,
        (lshiftGo c xs (x >>> (64 - c))).2) := by simp only [lshiftGo]
    rw [step]
    simp only [val_cons, List.length_cons, pow_succ]
    refine ⟨?_, ihc, Limbs_cons.mpr ⟨hcur, ihl⟩, by rw [ihn]⟩
    linear_combination e + B * ihv

/-- one limb of rshift -/
theorem rshift_limb (x c : Nat) (hc : c ≤ 64) :
    (x >>> c) * B + (x <<< (64 - c)) % B = x * 2 ^ (64 - c) := by
  have hB := B_split c hc
  have h1 : (x <<< (64 - c)) % B = 2 ^ (64 - c) * (x % 2 ^ c) := by
    rw [Nat.shiftLeft_eq, hB, Nat.mul_comm x, Nat.mul_comm (2 ^ c), Nat.mul_mod_mul_left]
  rw [h1, Nat.shiftRight_eq_div_pow, hB]
  have hdm := Nat.div_add_mod x (2 ^ c)
  linear_combination (2 ^ (64 - c)) * hdm

theorem rshift_or (x y c : Nat) (hc : c ≤ 64) (hx : x < B) :
    ((x >>> c) ||| ((y <<< (64 - c)) % B)) = x >>> c + (y <<< (64 - c)) % B ∧
    x >>> c + (y <<< (64 - c)) % B < B := by
  have hB := B_split c hc
  have h1 : (y <<< (64 - c)) % B = 2 ^ (64 - c) * (y % 2 ^ c) := by
    rw [Nat.shiftLeft_eq, hB, Nat.mul_comm y, Nat.mul_comm (2 ^ c), Nat.mul_mod_mul_left]
  have hxs : x >>> c < 2 ^ (64 - c) := by
    rw [Nat.shiftRight_eq_div_pow, Nat.div_lt_iff_lt_mul (by positivity), Nat.mul_comm, ← hB]; exact hx
  rw [h1]
  constructor
  · rw [Nat.or_comm, ← Nat.two_pow_add_eq_or_of_lt hxs, Nat.add_comm]
  · have hlt : y % 2 ^ c < 2 ^ c := Nat.mod_lt _ (by positivity)
    have : 2 ^ (64 - c) * (y % 2 ^ c + 1) ≤ 2 ^ (64 - c) * 2 ^ c := Nat.mul_le_mul_left _ hlt
    rw [hB]; linarith

theorem rshiftGo_val (c : Nat) (hc : c ≤ 64) : ∀ (xs : List Nat) (x : Nat), Limbs (x :: xs) →
    val (rshiftGo c (x :: xs)) * B + (x <<< (64 - c)) % B = val (x :: xs) * 2 ^ (64 - c) ∧
    Limbs (rshiftGo c (x :: xs)) ∧ (rshiftGo c (x :: xs)).length = xs.length + 1
  | [], x, h => by
    have ⟨hx, _⟩ := Limbs_cons.mp h
    have step : rshiftGo c [x] = [x >>> c] := rfl
    rw [step]
    simp only [val_cons, val_nil, List.length_cons, List.length_nil]
    refine ⟨?_, Limbs_cons.mpr ⟨?_, Limbs_nil⟩, trivial⟩
    · linear_combination rshift_limb x c hc
    · exact lt_of_le_of_lt (Nat.shiftRight_le _ _) hx
  | y :: ys, x, h => by
    have ⟨hx, hys⟩ := Limbs_cons.mp h
    obtain ⟨ihv, ihl, ihn⟩ := rshiftGo_val c hc ys y hys
    obtain ⟨eor, hcur⟩ := rshift_or x y c hc hx
    have step : rshiftGo c (x :: y :: ys) =
        ((x >>> c) ||| ((y <<< (64 - c)) % B)) :: rshiftGo c (y :: ys) := rfl
    rw [step, eor]
    simp only [val_cons, List.length_cons] at ihv ihn ⊢
    refine ⟨?_, Limbs_cons.mpr ⟨hcur, ihl⟩, by rw [ihn]⟩
    linear_combination rshift_limb x c hc + B * ihv
theorem rshift_val' (x : Nat) (xs : List Nat) (c : Nat) (hu : Limbs (x :: xs)) (hc1 : 1 ≤ c) (hc : c ≤ 63) :
    val (rshift (x :: xs) c).1 * B + (rshift (x :: xs) c).2 = val (x :: xs) * 2 ^ (64 - c) ∧
    (rshift (x :: xs) c).2 < B ∧ Limbs (rshift (x :: xs) c).1 ∧
    (rshift (x :: xs) c).1.length = (x :: xs).length ∧
    val (rshift (x :: xs) c).1 = val (x :: xs) / 2 ^ c ∧
    (rshift (x :: xs) c).2 = (val (x :: xs) % 2 ^ c) * 2 ^ (64 - c) := by
  obtain ⟨hv, hl, hlen⟩ := rshiftGo_val c (by omega) xs x hu
  have step : rshift (x :: xs) c = (rshiftGo c (x :: xs), (x <<< (64 - c)) % B) := rfl
  rw [step]
  have hB := B_split c (by omega)
  have hret : (x <<< (64 - c)) % B < B := Nat.mod_lt _ B_pos
  refine ⟨hv, hret, hl, hlen, ?_, ?_⟩
  · have h := congrArg (· / B) hv
    simp only [Nat.mul_comm _ B, Nat.mul_add_div B_pos, Nat.div_eq_of_lt hret, Nat.add_zero] at h
    rw [h, hB, Nat.mul_comm (2 ^ c), Nat.mul_comm (val _), Nat.mul_div_mul_left _ _ (by positivity)]
  · have h := congrArg (· % B) hv
    simp only [Nat.mul_comm _ B, Nat.mul_add_mod, Nat.mod_eq_of_lt hret] at h
    show (x <<< (64 - c)) % B = _
    rw [h, hB, Nat.mul_comm (2 ^ c), Nat.mul_comm (val _), Nat.mul_mod_mul_left, Nat.mul_comm]

/-! ### cmp / zero_p -/

theorem val_reverse_cons (x : Nat) (xs : List Nat) :
    val (x :: xs).reverse = val xs.reverse + B ^ xs.length * x := by
  rw [List.reverse_cons, val_append, List.length_reverse]; simp

theorem Limbs_reverse {l : List Nat} (h : Limbs l) : Limbs l.reverse :=
  fun x hx => h x (List.mem_reverse.mp hx)

/-- comparison from the most significant limb decides the order of the values
    (`a`, `b` most significant first) -/
theorem cmpRev_spec : ∀ (a b : List Nat), Limbs a → Limbs b → a.length = b.length →
    (cmpRev a b = -1 ∧ val a.reverse < val b.reverse) ∨
    (cmpRev a b = 0 ∧ val a.reverse = val b.reverse) ∨
    (cmpRev a b = 1 ∧ val b.reverse < val a.reverse)
  | [], [], _, _, _ => by simp [cmpRev]
  | [], _ :: _, _, _, h => by simp at h
  | _ :: _, [], _, _, h => by simp at h
  | x :: xs, y :: ys, ha, hb, hl => by
    have ⟨hx, hxs⟩ := Limbs_cons.mp ha
    have ⟨hy, hys⟩ := Limbs_cons.mp hb
    have hl' : xs.length = ys.length := by simpa using hl
    have ih := cmpRev_spec xs ys hxs hys hl'
    have bx := val_lt xs.reverse (Limbs_reverse hxs)
    have bY := val_lt ys.reverse (Limbs_reverse hys)
    rw [List.length_reverse] at bx bY
    rw [val_reverse_cons, val_reverse_cons, ← hl']
    rw [← hl'] at bY
    generalize val xs.reverse = p at *
    generalize val ys.reverse = q at *
    generalize B ^ xs.length = P at *
    have step : cmpRev (x :: xs) (y :: ys) =
        if x ≠ y then (if x > y then 1 else -1) else cmpRev xs ys := rfl
    rw [step]
    by_cases hxy : x = y
    · rw [if_neg (by simpa using hxy), hxy]
      generalize P * y = t
      omega
    · rw [if_pos hxy]
      by_cases hgt : x > y
      · have : P * (y + 1) ≤ P * x := Nat.mul_le_mul_left _ hgt
        rw [if_pos hgt]
        right; right; exact ⟨rfl, by linarith⟩
      · have : P * (x + 1) ≤ P * y := Nat.mul_le_mul_left _ (by omega)
        rw [if_neg hgt]
        left; exact ⟨rfl, by linarith⟩

theorem zero_p_iff' : ∀ (u : List Nat), zero_p u = true ↔ val u = 0
  | [] => by simp [zero_p]
  | x :: xs => by
    have ih := zero_p_iff' xs
    have step : zero_p (x :: xs) = ((x == 0) && zero_p xs) := rfl
    have hB := B_pos
    rw [step, val_cons, Bool.and_eq_true, ih, beq_iff_eq]
    constructor
    · rintro ⟨h1, h2⟩; rw [h1, h2]; simp
    · intro h
      have h1 : x = 0 := by omega
      have h2 : B * val xs = 0 := by omega
      exact ⟨h1, (Nat.mul_eq_zero.mp h2).resolve_left (by omega)⟩
/-! ### mul_1 / addmul_1 / submul_1 -/

theorem boolToNat_decide (p : Prop) [Decidable p] : boolToNat (decide p) = if p then 1 else 0 := by
  by_cases h : p <;> simp [boolToNat, h]

theorem limb_mul_le (u v : Nat) (hu : u < B) (hv : v < B) :
    u * v ≤ 340282366920938463426481119284349108225 := by
  have : u * v ≤ (B - 1) * (B - 1) := Nat.mul_le_mul (by omega) (by omega)
  simpa [B_eq] using this

/-- one limb of mul_1: `lpl += cl; cl = (lpl < cl) + hpl` is the exact two-limb sum u·v + cl -/
theorem mul1_limb (u v cl p lpl cl' : Nat) (hu : u < B) (hv : v < B) (hcl : cl < B)
    (hp : p = u * v)
    (hlpl : lpl = (p % B + cl) % B)
    (hcl' : cl' = (boolToNat (decide (lpl < cl)) + p / B) % B) :
    lpl + B * cl' = p + cl ∧ cl' < B ∧ lpl < B := by
  have hb := limb_mul_le u v hu hv
  rw [← hp] at hb
  rw [boolToNat_decide] at hcl'
  simp only [B_eq] at *
  split at hcl' <;> omega

theorem mul1C_val (v : Nat) (hv : v < B) : ∀ (u : List Nat) (cl : Nat), Limbs u → cl < B →
    val (mul1C u v cl).1 + B ^ u.length * (mul1C u v cl).2 = val u * v + cl ∧
    (mul1C u v cl).2 < B ∧ Limbs (mul1C u v cl).1 ∧ (mul1C u v cl).1.length = u.length
  | [], cl, _, hcl => by simp [mul1C, hcl, Limbs_nil]
  | u :: us, cl, h, hcl => by
    have ⟨hu, hus⟩ := Limbs_cons.mp h
    obtain ⟨lpl, hlpl⟩ : ∃ lpl, lpl = ((u * v) % B + cl) % B := ⟨_, rfl⟩
    obtain ⟨cl', hcl'⟩ : ∃ c, c = (boolToNat (decide (lpl < cl)) + (u * v) / B) % B := ⟨_, rfl⟩
    have step : mul1C (u :: us) v cl = (lpl :: (mul1C us v cl').1, (mul1C us v cl').2) := by
      rw [hcl', hlpl]; simp only [mul1C, umul_ppmm]; rfl
    obtain ⟨e, c1, r1⟩ := mul1_limb u v cl _ lpl cl' hu hv hcl rfl hlpl hcl'
    obtain ⟨ihv, ihc, ihl, ihn⟩ := mul1C_val v hv us cl' hus c1
    rw [step]
    simp only [val_cons, List.length_cons, pow_succ]
    refine ⟨?_, ihc, Limbs_cons.mpr ⟨r1, ihl⟩, by rw [ihn]⟩
    linear_combination e + B * ihv

/-- one limb of addmul_1 -/
theorem addmul1_limb (r u v cl p lpl1 cl1 lpl cl2 : Nat) (hr : r < B) (hu : u < B) (hv : v < B)
    (hcl : cl < B) (hp : p = u * v)
    (h1 : lpl1 = (p % B + cl) % B)
    (h2 : cl1 = (boolToNat (decide (lpl1 < cl)) + p / B) % B)
    (h3 : lpl = (r + lpl1) % B)
    (h4 : cl2 = (cl1 + boolToNat (decide (lpl < r))) % B) :
    lpl + B * cl2 = r + p + cl ∧ cl2 < B ∧ lpl < B := by
  have hb := limb_mul_le u v hu hv
  rw [← hp] at hb
  rw [boolToNat_decide] at h2 h4
  simp only [B_eq] at *
  split at h2 <;> split at h4 <;> omega

theorem addmul1C_val (v : Nat) (hv : v < B) : ∀ (r u : List Nat) (cl : Nat), Limbs r → Limbs u →
    r.length = u.length → cl < B →
    val (addmul1C r u v cl).1 + B ^ u.length * (addmul1C r u v cl).2 = val r + val u * v + cl ∧
    (addmul1C r u v cl).2 < B ∧ Limbs (addmul1C r u v cl).1 ∧ (addmul1C r u v cl).1.length = u.length
  | [], [], cl, _, _, _, hcl => by simp [addmul1C, hcl, Limbs_nil]
  | [], _ :: _, _, _, _, h, _ => by simp at h
  | _ :: _, [], _, _, _, h, _ => by simp at h
  | r :: rs, u :: us, cl, hr, hu, hl, hcl => by
    have ⟨hr0, hrs⟩ := Limbs_cons.mp hr
    have ⟨hu0, hus⟩ := Limbs_cons.mp hu
    obtain ⟨lpl1, h1⟩ : ∃ x, x = ((u * v) % B + cl) % B := ⟨_, rfl⟩
    obtain ⟨cl1, h2⟩ : ∃ x, x = (boolToNat (decide (lpl1 < cl)) + (u * v) / B) % B := ⟨_, rfl⟩
    obtain ⟨lpl, h3⟩ : ∃ x, x = (r + lpl1) % B := ⟨_, rfl⟩
    obtain ⟨cl2, h4⟩ : ∃ x, x = (cl1 + boolToNat (decide (lpl < r))) % B := ⟨_, rfl⟩
    have step : addmul1C (r :: rs) (u :: us) v cl =
        (lpl :: (addmul1C rs us v cl2).1, (addmul1C rs us v cl2).2) := by
      rw [h4, h3, h2, h1]; simp only [addmul1C, umul_ppmm]; rfl
    obtain ⟨e, c1, r1⟩ := addmul1_limb r u v cl _ lpl1 cl1 lpl cl2 hr0 hu0 hv hcl rfl h1 h2 h3 h4
    obtain ⟨ihv, ihc, ihl, ihn⟩ := addmul1C_val v hv rs us cl2 hrs hus (by simpa using hl) c1
    rw [step]
    simp only [val_cons, List.length_cons, pow_succ]
    refine ⟨?_, ihc, Limbs_cons.mpr ⟨r1, ihl⟩, by rw [ihn]⟩
    linear_combination e + B * ihv

/-- one limb of submul_1 -/
theorem submul1_limb (r u v cl p lpl1 cl1 lpl cl2 : Nat) (hr : r < B) (hu : u < B) (hv : v < B)
    (hcl : cl < B) (hp : p = u * v)
    (h1 : lpl1 = (p % B + cl) % B)
    (h2 : cl1 = (boolToNat (decide (lpl1 < cl)) + p / B) % B)
    (h3 : lpl = (r + B - lpl1) % B)
    (h4 : cl2 = (cl1 + boolToNat (decide (lpl > r))) % B) :
    lpl + p + cl = r + B * cl2 ∧ cl2 < B ∧ lpl < B := by
  have hb := limb_mul_le u v hu hv
  rw [← hp] at hb
  rw [boolToNat_decide] at h2 h4
  simp only [B_eq] at *
  split at h2 <;> split at h4 <;> omega

theorem submul1C_val (v : Nat) (hv : v < B) : ∀ (r u : List Nat) (cl : Nat), Limbs r → Limbs u →
    r.length = u.length → cl < B →
    val (submul1C r u v cl).1 + val u * v + cl = val r + B ^ u.length * (submul1C r u v cl).2 ∧
    (submul1C r u v cl).2 < B ∧ Limbs (submul1C r u v cl).1 ∧ (submul1C r u v cl).1.length = u.length
  | [], [], cl, _, _, _, hcl => by simp [submul1C, hcl, Limbs_nil]
  | [], _ :: _, _, _, _, h, _ => by simp at h
  | _ :: _, [], _, _, _, h, _ => by simp at h
  | r :: rs, u :: us, cl, hr, hu, hl, hcl => by
    have ⟨hr0, hrs⟩ := Limbs_cons.mp hr
    have ⟨hu0, hus⟩ := Limbs_cons.mp hu
    obtain ⟨lpl1, h1⟩ : ∃ x, x = ((u * v) % B + cl) % B := ⟨_, rfl⟩
    obtain ⟨cl1, h2⟩ : ∃ x, x = (boolToNat (decide (lpl1 < cl)) + (u * v) / B) % B := ⟨_, rfl⟩
    obtain ⟨lpl, h3⟩ : ∃ x, x = (r + B - lpl1) % B := ⟨_, rfl⟩
    obtain ⟨cl2, h4⟩ : ∃ x, x = (cl1 + boolToNat (decide (lpl > r))) % B := ⟨_, rfl⟩
    have step : submul1C (r :: rs) (u :: us) v cl =
        (lpl :: (submul1C rs us v cl2).1, (submul1C rs us v cl2).2) := by
      rw [h4, h3, h2, h1]; simp only [submul1C, umul_ppmm]; rfl
    obtain ⟨e, c1, r1⟩ := submul1_limb r u v cl _ lpl1 cl1 lpl cl2 hr0 hu0 hv hcl rfl h1 h2 h3 h4
    obtain ⟨ihv, ihc, ihl, ihn⟩ := submul1C_val v hv rs us cl2 hrs hus (by simpa using hl) c1
    rw [step]
    simp only [val_cons, List.length_cons, pow_succ]
    refine ⟨?_, ihc, Limbs_cons.mpr ⟨r1, ihl⟩, by rw [ihn]⟩
    linear_combination e + B * ihv

/-! ### mul_basecase -/

theorem mulBasecaseRows_val (u : List Nat) (hu : Limbs u) : ∀ (vs acc : List Nat) (off : Nat),
    Limbs vs → Limbs acc → acc.length = u.length + off →
    val (mulBasecaseRows u vs acc off) = val acc + B ^ off * val u * val vs ∧
    Limbs (mulBasecaseRows u vs acc off) ∧
    (mulBasecaseRows u vs acc off).length = u.length + off + vs.length
  | [], acc, off, _, hacc, hlen => by simp [mulBasecaseRows, hacc, hlen]
  | v :: vs, acc, off, hvs, hacc, hlen => by
    have ⟨hv, hvs'⟩ := Limbs_cons.mp hvs
    have hmid : (acc.drop off).length = u.length := by simp [hlen]
    have hlo : (acc.take off).length = off := by simp [hlen]
    obtain ⟨av, ac, al, an⟩ := addmul1C_val v hv (acc.drop off) u 0 (Limbs_drop hacc _) hu hmid
      B_pos
    have hsplit := val_take_drop acc off (by omega)
    have step : mulBasecaseRows u (v :: vs) acc off =
        mulBasecaseRows u vs (acc.take off ++ (addmul1C (acc.drop off) u v 0).1 ++
          [(addmul1C (acc.drop off) u v 0).2]) (off + 1) := by
      simp only [mulBasecaseRows, addmul_1]
    have hacc' : Limbs (acc.take off ++ (addmul1C (acc.drop off) u v 0).1 ++
          [(addmul1C (acc.drop off) u v 0).2]) :=
      Limbs_append.mpr ⟨Limbs_append.mpr ⟨Limbs_take hacc _, al⟩, Limbs_cons.mpr ⟨ac, Limbs_nil⟩⟩
    obtain ⟨ihv, ihl, ihn⟩ := mulBasecaseRows_val u hu vs _ (off + 1) hvs' hacc'
      (by simp only [List.length_append, hlo, an, List.length_cons, List.length_nil]; omega)
    rw [step]
    refine ⟨?_, ihl, by rw [ihn]; simp only [List.length_cons]; omega⟩
    rw [ihv]
    simp only [val_append, val_cons, val_nil, List.length_append, hlo, an, pow_succ, pow_add]
    linear_combination B ^ off * av - hsplit

theorem mul_basecase_val' (u : List Nat) (v0 : Nat) (vs : List Nat) (hu : Limbs u)
    (hv : Limbs (v0 :: vs)) :
    val (mul_basecase u (v0 :: vs)) = val u * val (v0 :: vs) ∧
    Limbs (mul_basecase u (v0 :: vs)) ∧
    (mul_basecase u (v0 :: vs)).length = u.length + (vs.length + 1) := by
  have ⟨hv0, hvs⟩ := Limbs_cons.mp hv
  obtain ⟨mv, mc, ml, mn⟩ := mul1C_val v0 hv0 u 0 hu B_pos
  have step : mul_basecase u (v0 :: vs) =
      mulBasecaseRows u vs ((mul1C u v0 0).1 ++ [(mul1C u v0 0).2]) 1 := by
    simp only [mul_basecase, mul_1]
  have hacc : Limbs ((mul1C u v0 0).1 ++ [(mul1C u v0 0).2]) :=
    Limbs_append.mpr ⟨ml, Limbs_cons.mpr ⟨mc, Limbs_nil⟩⟩
  obtain ⟨rv, rl, rn⟩ := mulBasecaseRows_val u hu vs _ 1 hvs hacc
    (by simp only [List.length_append, mn, List.length_cons, List.length_nil])
  rw [step]
  refine ⟨?_, rl, by rw [rn]; omega⟩
  rw [rv]
  simp only [val_append, val_cons, val_nil, mn, pow_one]
  linear_combination mv
end Mpir
