/- C20, mpf_class expressions: lemmas for Props/C20_mpf.lean (model: Mpir/Model/CxxF.lean). -/
import MpirProofs.Props.C13
import MpirProofs.Lemmas.CxxCmp
import Mpir.Model.CxxF
namespace Mpir.CxxF
open Mpir Mpir.Cxx Mpir.Mpf

/-- an operand that fits a destination of `P` limbs (what the `r == u` shortcuts of the C need) -/
def Fit (P : Nat) (x : F) : Prop := OpWF x ∧ x.d.length ≤ P + 1
/-- a well-formed object of precision `P` -/
def Good (P : Nat) (x : F) : Prop := WF x ∧ x.prec = P

theorem Good.fit {P : Nat} {x : F} (h : Good P x) : Fit P x :=
  ⟨h.1.toOpWF, by have := h.1.2.2.1; rw [h.2, ← h.1.2.1] at this; exact this⟩
theorem Good.op {P : Nat} {x : F} (h : Good P x) : OpWF x := h.1.toOpWF

theorem size_of_fit {x : F} (h : OpWF x) : (if x.size ≥ 0 then (x.d.length : Int) else -(x.d.length : Int)) = x.size := by
  have := h.2.1; split <;> omega

theorem set_fit {P : Nat} {u : F} (h : Fit P u) : Mpf.set P u = {u with prec := P} := by
  unfold Mpf.set
  rw [top_of_le h.2]
  simp only [size_of_fit h.1]

theorem neg_flag {P : Nat} {u : F} (h : Fit P u) : Mpf.neg P true u = Mpf.neg P false u := by
  unfold Mpf.neg
  simp only [if_true, Bool.false_eq_true, if_false, top_of_le h.2]
  have := h.1.2.1
  congr 1; split <;> omega

theorem abs_flag {P : Nat} {u : F} (h : Fit P u) : Mpf.abs P true u = Mpf.abs P false u := by
  unfold Mpf.abs
  simp only [if_true, Bool.false_eq_true, if_false, top_of_le h.2]
  have := h.1.2.1
  congr 1; omega

theorem neg_flag' {P : Nat} {u : F} (b : Bool) (h : b = true → Fit P u) : Mpf.neg P b u = Mpf.neg P false u := by
  cases b with
  | false => rfl
  | true => exact neg_flag (h rfl)

theorem add_flag {P : Nat} {u v : F} (a b : Bool) (ha : a = true → Fit P u) (hb : b = true → Fit P v) :
    Mpf.add P a b u v = Mpf.add P false false u v := by
  unfold Mpf.add
  by_cases hu : u.size = 0
  · simp only [hu, if_true]
    cases b with
    | false => rfl
    | true => simp only [if_true, Bool.false_eq_true, if_false]; exact (set_fit (hb rfl)).symm
  · simp only [hu, if_false]
    by_cases hv : v.size = 0
    · simp only [hv, if_true]
      cases a with
      | false => rfl
      | true => simp only [if_true, Bool.false_eq_true, if_false]; exact (set_fit (ha rfl)).symm
    · simp only [hv, if_false]

theorem sub_flag {P : Nat} {u v : F} (a b : Bool) (ha : a = true → Fit P u) (hb : b = true → Fit P v) :
    Mpf.sub P a b u v = Mpf.sub P false false u v := by
  unfold Mpf.sub
  by_cases hu : u.size = 0
  · simp only [hu, if_true]; exact neg_flag' b hb
  · simp only [hu, if_false]
    by_cases hv : v.size = 0
    · simp only [hv, if_true]
      cases a with
      | false => rfl
      | true => simp only [if_true, Bool.false_eq_true, if_false]; exact (set_fit (ha rfl)).symm
    · simp only [hv, if_false]

theorem sub_ui_flag {P : Nat} {u : F} (a : Bool) (l : Nat) (ha : a = true → Fit P u) :
    sub_ui P a u l = sub_ui P false u l := by
  unfold sub_ui
  split
  · rfl
  · exact sub_flag a false ha (by simp)

theorem ui_sub_flag {P : Nat} {v : F} (b : Bool) (l : Nat) (hb : b = true → Fit P v) :
    ui_sub P b l v = ui_sub P false l v := by
  unfold ui_sub
  split
  · exact neg_flag' b hb
  · exact sub_flag false b (by simp) hb

theorem add_ui_flag {P : Nat} {u : F} (a : Bool) (l : Nat) (ha : a = true → Fit P u) :
    add_ui P a u l = add_ui P false u l := by
  cases a with
  | false => rfl
  | true =>
    have h := ha rfl
    unfold add_ui
    by_cases h0 : u.size = 0
    · simp only [h0, if_true]
    · simp only [h0, if_false]
      by_cases h1 : u.size < 0
      · simp only [h1, if_true]
      · simp only [h1, if_false, if_true, Bool.false_eq_true, top_of_le h.2]
        have hs : ((u.d.length : Nat) : Int) = u.size := by have := h.1.2.1; omega
        have e : ({u with prec := P} : F) = ⟨P, (u.d.length : Int), u.exp, u.d⟩ := by rw [hs]
        rw [e]

/-! ### every operation returns an object of the destination's precision -/

theorem prec_set (P : Nat) (u : F) : (Mpf.set P u).prec = P := rfl
theorem prec_neg (P : Nat) (a : Bool) (u : F) : (Mpf.neg P a u).prec = P := by unfold Mpf.neg; split <;> rfl
theorem prec_abs (P : Nat) (a : Bool) (u : F) : (Mpf.abs P a u).prec = P := by unfold Mpf.abs; split <;> rfl
theorem prec_trunc (P : Nat) (u : F) : (Mpf.trunc P u).prec = P := by unfold Mpf.trunc; split <;> rfl
theorem prec_cf (P : Nat) (u : F) (d : Int) : (ceilOrFloor P u d).prec = P := by
  unfold ceilOrFloor; dsimp only; repeat' split
  all_goals rfl
theorem prec_mul_2exp (P : Nat) (u : F) (e : Nat) : (mul_2exp P u e).prec = P := by
  unfold mul_2exp; repeat' split
  all_goals rfl
theorem prec_div_2exp (P : Nat) (u : F) (e : Nat) : (div_2exp P u e).prec = P := by
  unfold div_2exp; repeat' split
  all_goals rfl
theorem prec_subMag (P : Nat) (n : Bool) (u v : F) : (subMag P n u v).prec = P := by
  unfold subMag; repeat' split
  all_goals rfl
theorem prec_addSame (P : Nat) (u v : F) : (addSame P u v).prec = P := by
  unfold addSame
  rcases (if u.exp < v.exp then addMag P v.d v.exp u.d u.exp else addMag P u.d u.exp v.d v.exp) with ⟨rd, e⟩
  rfl
theorem prec_add (P : Nat) (a b : Bool) (u v : F) : (Mpf.add P a b u v).prec = P := by
  unfold Mpf.add; repeat' split
  all_goals first | rfl | exact prec_subMag _ _ _ _ | exact prec_addSame _ _ _
theorem prec_sub (P : Nat) (a b : Bool) (u v : F) : (Mpf.sub P a b u v).prec = P := by
  unfold Mpf.sub; repeat' split
  all_goals first | rfl | exact prec_subMag _ _ _ _ | exact prec_addSame _ _ _ | exact prec_neg _ _ _
theorem prec_mul (P : Nat) (u v : F) : (Mpf.mul P u v).prec = P := by
  unfold Mpf.mul; dsimp only; split
  · rfl
  · rcases mulLimbs P (top P u.d) (top P v.d) with ⟨rp, adj⟩; rfl
theorem prec_mul_ui (P : Nat) (u : F) (l : Nat) : (mul_ui P u l).prec = P := by
  unfold mul_ui; repeat' split
  all_goals rfl
theorem prec_sub_ui (P : Nat) (a : Bool) (u : F) (l : Nat) : (sub_ui P a u l).prec = P := by
  unfold sub_ui; split
  · rfl
  · exact prec_sub _ _ _ _ _
theorem prec_ui_sub (P : Nat) (a : Bool) (u : F) (l : Nat) : (ui_sub P a l u).prec = P := by
  unfold ui_sub; split
  · exact prec_neg _ _ _
  · exact prec_sub _ _ _ _ _
theorem prec_set_ui (P l : Nat) : (set_ui P l).prec = P := by unfold set_ui; split <;> rfl
theorem prec_set_si (P : Nat) (l : Int) : (set_si P l).prec = P := by unfold set_si; split <;> rfl
theorem prec_add_ui (P : Nat) (a : Bool) (u : F) (l : Nat) : (add_ui P a u l).prec = P := by
  unfold add_ui; dsimp only; repeat' split
  all_goals first | rfl | exact prec_sub_ui _ _ _ _ | exact prec_set_ui _ _
theorem prec_quot (P : Nat) (n : Bool) (q : Nat) (e : Int) : (quotFinish P n q e).prec = P := rfl
theorem prec_div (P : Nat) (u v r : F) (h : Mpf.div P u v = .ok r) : r.prec = P := by
  unfold Mpf.div at h; repeat' split at h
  all_goals first | (injection h with h; subst h; rfl) | cases h
theorem prec_div_ui (P : Nat) (u r : F) (l : Nat) (h : div_ui P u l = .ok r) : r.prec = P := by
  unfold div_ui at h; repeat' split at h
  all_goals first | (injection h with h; subst h; rfl) | cases h
theorem prec_ui_div (P : Nat) (u r : F) (l : Nat) (h : ui_div P l u = .ok r) : r.prec = P := by
  unfold ui_div at h; repeat' split at h
  all_goals first | (injection h with h; subst h; rfl) | cases h
theorem prec_sqrt (P : Nat) (u r : F) (h : Mpf.sqrt P u = .ok r) : r.prec = P := by
  unfold Mpf.sqrt at h; repeat' split at h
  all_goals first | (injection h with h; subst h; rfl) | cases h
theorem prec_set_z (P : Nat) (l : Int) : (set_z P l).prec = P := rfl
theorem prec_set_q (P : Nat) (n : Int) (d : Nat) : (set_q P n d).prec = P := by unfold set_q; split <;> rfl
theorem prec_set_d (P : Nat) (b : Nat) (r : F) (h : set_d P b = .ok r) : r.prec = P := by
  unfold set_d at h; dsimp only at h
  split at h
  · cases h
  · split at h
    · injection h with h; subst h; rfl
    · injection h with h; subst h; rfl

/-! ### mpf_set_d returns a proper operand for every finite double (denormals included) -/

theorem denorm_top : ∀ (fuel m : Nat) (e : Int), 0 < m → m < 2 ^ 63 → 2 ^ 63 ≤ m * 2 ^ fuel →
    2 ^ 63 ≤ (denorm fuel m e).1 ∧ (denorm fuel m e).1 < B := by
  intro fuel
  induction fuel with
  | zero => intro m e h0 h1 h2; simp at h2; omega
  | succ n ih =>
    intro m e h0 h1 h2
    have hm1 : (m * 2) % B = m * 2 := by rw [B_eq]; omega
    have h2' : m * 2 ^ (n + 1) = m * 2 * 2 ^ n := by ring
    rw [h2'] at h2
    simp only [denorm, hm1]
    by_cases ht : m * 2 / 2 ^ 63 % 2 = 0
    · rw [if_pos ht]
      have h3 : m * 2 < 2 ^ 63 := by omega
      exact ih (m * 2) (e - 1) (by omega) h3 h2
    · rw [if_neg ht]
      simp only
      rw [B_eq]; omega

theorem opwf2 (P : Nat) (s e : Int) (a b : Nat) (hs : s = 2 ∨ s = -2) (ha : a < B) (hb : b < B) (hb0 : b ≠ 0) :
    OpWF ⟨P, s, e, [a, b]⟩ := by
  refine ⟨?_, ?_, ?_, ?_⟩
  · intro x hx
    simp only [List.mem_cons, List.mem_nil_iff, or_false] at hx
    rcases hx with hx | hx <;> rw [hx] <;> assumption
  · simp only [List.length_cons, List.length_nil]; rcases hs with h | h <;> rw [h] <;> rfl
  · simp only [List.getLast?_cons_cons, List.getLast?_singleton, ne_eq, Option.some.injEq]; exact hb0
  · intro h; simp only at h; omega

theorem set_d_opwf (P bits : Nat) (r : F) (h : set_d P bits = .ok r) : OpWF r := by
  unfold set_d at h; dsimp only at h
  split at h
  · cases h
  · split at h
    · injection h with h; subst h; exact (WF_zero P).toOpWF
    · rename_i hinf hz
      have hman : bits % 2 ^ 52 < 2 ^ 52 := Nat.mod_lt _ (by norm_num)
      have key : ∀ (ml : Nat × Int), ml = (if bits / 2 ^ 52 % 2 ^ 11 = 0 then denorm 64 (2 ^ 63 + bits % 2 ^ 52 * 2 ^ 11) 1
            else (2 ^ 63 + bits % 2 ^ 52 * 2 ^ 11, ((bits / 2 ^ 52 % 2 ^ 11 : Nat) : Int))) → 2 ^ 63 ≤ ml.1 ∧ ml.1 < B := by
        intro ml hml
        by_cases hb : bits / 2 ^ 52 % 2 ^ 11 = 0
        · rw [if_pos hb] at hml
          have hm0 : bits % 2 ^ 52 ≠ 0 := fun h0 => hz ⟨hb, h0⟩
          have e1 : ((2 ^ 63 + bits % 2 ^ 52 * 2 ^ 11) * 2) % B = bits % 2 ^ 52 * 2 ^ 12 := by rw [B_eq]; omega
          subst hml
          simp only [denorm, e1]
          by_cases ht : bits % 2 ^ 52 * 2 ^ 12 / 2 ^ 63 % 2 = 0
          · rw [if_pos ht]
            exact denorm_top 63 _ _ (by omega) (by omega) (by
              have : 1 ≤ bits % 2 ^ 52 * 2 ^ 12 := by omega
              nlinarith)
          · rw [if_neg ht]; simp only; rw [B_eq]; omega
        · rw [if_neg hb] at hml; subst hml; simp only; rw [B_eq]; omega
      generalize hml : (if bits / 2 ^ 52 % 2 ^ 11 = 0 then denorm 64 (2 ^ 63 + bits % 2 ^ 52 * 2 ^ 11) 1
            else (2 ^ 63 + bits % 2 ^ 52 * 2 ^ 11, ((bits / 2 ^ 52 % 2 ^ 11 : Nat) : Int))) = ml at h
      obtain ⟨k1, k2⟩ := key ml hml.symm
      rcases ml with ⟨manl, exp0⟩
      simp only at h k1 k2
      injection h with h; subst h
      have hs : (if bits / 2 ^ 63 % 2 = 1 then (-2 : Int) else 2) = 2 ∨ (if bits / 2 ^ 63 % 2 = 1 then (-2 : Int) else 2) = -2 := by
        split <;> simp
      generalize ((exp0 - 1022 + 64 * 64) % 64).toNat = sc
      by_cases hsc : sc ≠ 0
      · simp only [if_pos hsc]
        refine opwf2 _ _ _ _ _ hs (Nat.mod_lt _ B_pos) (lt_of_le_of_lt (Nat.div_le_self _ _) k2) ?_
        intro h0
        rcases Nat.div_eq_zero_iff.mp h0 with h1 | h1
        · have : 0 < 2 ^ (64 - sc) := by positivity
          omega
        · have : (2:ℕ) ^ (64 - sc) ≤ 2 ^ 63 := Nat.pow_le_pow_right (by norm_num) (by omega)
          omega
      · simp only [if_neg hsc]
        refine opwf2 _ _ _ _ _ hs (by rw [B_eq]; norm_num) k2 (by omega)

/-! ### every C function returns a well-formed object of precision `P` (from the C13 theorems) -/

theorem ui_lt_B {l : Nat} (h : UiRange l) : l < B := by unfold UiRange two64 at h; rw [B_eq]; omega

theorem good_zero (P : Nat) : Good P (Mpf.zero P) := ⟨WF_zero P, rfl⟩
theorem good_set {P : Nat} (hp : 2 ≤ P) {u : F} (hu : OpWF u) : Good P (Mpf.set P u) :=
  ⟨(set_spec P (by omega) u hu).1, rfl⟩
theorem good_neg {P : Nat} (hp : 2 ≤ P) {u : F} (hu : OpWF u) : Good P (Mpf.neg P false u) :=
  ⟨(wf_preserved P (by omega) u hu false (by simp) 0).1, prec_neg _ _ _⟩
theorem good_neg_self {P : Nat} (hp : 2 ≤ P) {u : F} (hu : Good P u) : Good P (Mpf.neg P true u) := by
  rw [neg_flag hu.fit]; exact good_neg hp hu.op
theorem good_abs {P : Nat} (hp : 2 ≤ P) {u : F} (hu : OpWF u) : Good P (Mpf.abs P false u) :=
  ⟨(wf_preserved P (by omega) u hu false (by simp) 0).2.1, prec_abs _ _ _⟩
theorem good_floor {P : Nat} (hp : 2 ≤ P) {u : F} (hu : OpWF u) : Good P (Mpf.floor P u) :=
  ⟨(wf_preserved P (by omega) u hu false (by simp) 0).2.2.1, prec_cf _ _ _⟩
theorem good_ceil {P : Nat} (hp : 2 ≤ P) {u : F} (hu : OpWF u) : Good P (Mpf.ceil P u) :=
  ⟨(wf_preserved P (by omega) u hu false (by simp) 0).2.2.2.1, prec_cf _ _ _⟩
theorem good_trunc {P : Nat} (hp : 2 ≤ P) {u : F} (hu : OpWF u) : Good P (Mpf.trunc P u) :=
  ⟨(wf_preserved P (by omega) u hu false (by simp) 0).2.2.2.2.1, prec_trunc _ _⟩
theorem good_mul_2exp {P : Nat} (hp : 2 ≤ P) {u : F} (hu : OpWF u) (e : Nat) : Good P (mul_2exp P u e) :=
  ⟨(wf_preserved P (by omega) u hu false (by simp) e).2.2.2.2.2.1, prec_mul_2exp _ _ _⟩
theorem good_div_2exp {P : Nat} (hp : 2 ≤ P) {u : F} (hu : OpWF u) (e : Nat) : Good P (div_2exp P u e) :=
  ⟨(wf_preserved P (by omega) u hu false (by simp) e).2.2.2.2.2.2, prec_div_2exp _ _ _⟩
theorem good_sqrt {P : Nat} (hp : 2 ≤ P) {u r : F} (hu : OpWF u) (h : Mpf.sqrt P u = .ok r) : Good P r := by
  refine ⟨?_, prec_sqrt P u r h⟩
  by_cases h0 : u.size < 0
  · rw [(mpf_sqrt_neg_zero P u).1 h0] at h; cases h
  by_cases h1 : u.size = 0
  · rw [(mpf_sqrt_neg_zero P u).2 h1] at h; injection h with h; subst h; exact WF_zero P
  obtain ⟨r', e1, w, _⟩ := mpf_sqrt_err P (by omega) u hu (by omega)
  rw [e1] at h; injection h with h; subst h; exact w
theorem good_add {P : Nat} (hp : 2 ≤ P) {u v : F} (hu : OpWF u) (hv : OpWF v) : Good P (Mpf.add P false false u v) :=
  ⟨(mpf_add_err P hp u v hu hv false false (by simp) (by simp)).1, prec_add _ _ _ _ _⟩
theorem good_sub {P : Nat} (hp : 2 ≤ P) {u v : F} (hu : OpWF u) (hv : OpWF v) : Good P (Mpf.sub P false false u v) :=
  ⟨(mpf_sub_err P hp u v hu hv false false (by simp) (by simp)).1, prec_sub _ _ _ _ _⟩
theorem good_mul {P : Nat} (hp : 2 ≤ P) {u v : F} (hu : OpWF u) (hv : OpWF v) : Good P (Mpf.mul P u v) :=
  ⟨mpf_mul_wf P u v hu hv hp, prec_mul _ _ _⟩
theorem good_div {P : Nat} (hp : 2 ≤ P) {u v r : F} (hu : OpWF u) (hv : OpWF v) (h : Mpf.div P u v = .ok r) : Good P r := by
  refine ⟨?_, prec_div P u v r h⟩
  by_cases h0 : v.size = 0
  · rw [(mpf_div_zero P u v).1 h0] at h; cases h
  by_cases h1 : u.size = 0
  · rw [(mpf_div_zero P u v).2 h0 h1] at h; injection h with h; subst h; exact WF_zero P
  obtain ⟨r', e1, w, _⟩ := mpf_div_err P (by omega) u v hu hv h1 h0
  rw [e1] at h; injection h with h; subst h; exact w
theorem good_div_ui {P : Nat} (hp : 2 ≤ P) {u r : F} {l : Nat} (hu : OpWF u) (hl : l < B) (h : div_ui P u l = .ok r) : Good P r := by
  refine ⟨?_, prec_div_ui P u r l h⟩
  by_cases h0 : l = 0
  · unfold div_ui at h; rw [if_pos h0] at h; cases h
  by_cases h1 : u.size = 0
  · unfold div_ui at h; rw [if_neg h0, if_pos h1] at h; injection h with h; subst h; exact WF_zero P
  obtain ⟨r', e1, w, _⟩ := mpf_div_ui_err P (by omega) u l hu h1 h0 hl
  rw [e1] at h; injection h with h; subst h; exact w
theorem good_ui_div {P : Nat} (hp : 2 ≤ P) {u r : F} {l : Nat} (hu : OpWF u) (hl : l < B) (h : ui_div P l u = .ok r) : Good P r := by
  refine ⟨?_, prec_ui_div P u r l h⟩
  by_cases h0 : u.size = 0
  · unfold ui_div at h; rw [if_pos h0] at h; cases h
  by_cases h1 : l = 0
  · unfold ui_div at h; rw [if_neg h0, if_pos h1] at h; injection h with h; subst h; exact WF_zero P
  obtain ⟨r', e1, w, _⟩ := mpf_ui_div_err P (by omega) l u hu h0 h1 hl
  rw [e1] at h; injection h with h; subst h; exact w
theorem good_add_ui {P : Nat} (hp : 2 ≤ P) {u : F} {l : Nat} (hu : OpWF u) (hl : l < B) : Good P (add_ui P false u l) :=
  ⟨(mpf_add_ui_err P hp u l hu hl false (by simp)).1, prec_add_ui _ _ _ _⟩
theorem good_sub_ui {P : Nat} (hp : 2 ≤ P) {u : F} {l : Nat} (hu : OpWF u) (hl : l < B) : Good P (sub_ui P false u l) :=
  ⟨(mpf_sub_ui_err P hp u l hu hl false (by simp)).1, prec_sub_ui _ _ _ _⟩
theorem good_ui_sub {P : Nat} (hp : 2 ≤ P) {u : F} {l : Nat} (hu : OpWF u) (hl : l < B) : Good P (ui_sub P false l u) :=
  ⟨(mpf_ui_sub_err P hp l u hu hl false (by simp)).1, prec_ui_sub _ _ _ _⟩
theorem good_mul_ui {P : Nat} (hp : 2 ≤ P) {u : F} {l : Nat} (hu : OpWF u) (hl : l < B) : Good P (mul_ui P u l) :=
  ⟨(mpf_mul_ui_err P (by omega) u l hu hl).1.1, prec_mul_ui _ _ _⟩
theorem good_set_ui {P : Nat} {l : Nat} (hl : l < B) : Good P (set_ui P l) := ⟨(set_ui_exact P l hl).2, prec_set_ui _ _⟩
theorem good_set_si {P : Nat} {l : Int} (hl : l.natAbs < B) : Good P (set_si P l) := ⟨(set_si_exact P l hl).2, prec_set_si _ _⟩
theorem good_set_z {P : Nat} (hp : 2 ≤ P) (z : Int) : Good P (set_z P z) := ⟨(set_z_spec P z (by omega)).1, rfl⟩
theorem good_set_q {P : Nat} (hp : 2 ≤ P) (n : Int) (d : Nat) (hd : d ≠ 0) : Good P (set_q P n d) := by
  refine ⟨?_, prec_set_q _ _ _⟩
  by_cases hn : n = 0
  · unfold set_q; rw [if_pos hn]; exact WF_zero P
  · exact (mpf_set_q_err P (by omega) n d hn hd).1

/-! ### the function objects return well-formed objects of the destination's precision -/

/-- what a function object may be handed: a proper mpf operand or a built-in in range -/
def VOK : FVal → Prop
  | .f x => OpWF x
  | .bi c => c.ok = true

theorem ok_some {r : Mpf.Res} {x : F} (h : ok r = some x) : r = .ok x := by
  cases r <;> simp [ok] at h; subst h; rfl

theorem dTemp_opwf {d : Nat} {t : F} (h : dTemp d = some t) : OpWF t := set_d_opwf _ _ _ (ok_some h)

theorem fnUnV_good {P : Nat} (hp : 2 ≤ P) (o : FUn) {g r : F} (hg : OpWF g) (h : fnUnV P o false g = some r) : Good P r := by
  cases o <;> simp only [fnUnV, Option.some.injEq] at h
  · subst h; exact good_set hp hg
  · subst h; exact good_neg hp hg
  · subst h; exact good_abs hp hg
  · exact good_sqrt hp hg (ok_some h)
  · subst h; exact good_trunc hp hg
  · subst h; exact good_floor hp hg
  · subst h; exact good_ceil hp hg

theorem fnShV_good {P : Nat} (hp : 2 ≤ P) (o : Sh) {g : F} (hg : OpWF g) (n : Nat) : Good P (fnShV P o g n) := by
  cases o
  · exact good_mul_2exp hp hg n
  · exact good_div_2exp hp hg n

theorem tp_eq {P : Nat} (hp : 2 ≤ P) : tp P = P := by
  unfold tp BITS_TO_PREC PREC_TO_BITS; omega

theorem hypotTail_good {P : Nat} (hp : 2 ≤ P) {t f0 r : F} (sq : Bool) (ht : OpWF t)
    (h0 : if sq then OpWF f0 else Good P f0) (h : hypotTail P t f0 sq = some r) : Good P r := by
  unfold hypotTail at h
  have g1 : Good P (if sq = true then Mpf.mul P f0 f0 else f0) := by
    cases sq
    · simpa using h0
    · simp only [if_true] at h0 ⊢; exact good_mul hp h0 h0
  simp only at h
  rw [add_flag true false (fun _ => g1.fit) (by simp)] at h
  exact good_sqrt hp (good_add hp g1.op ht).op (ok_some h)

theorem si_natAbs {l : Int} (h : SiRange l) : l.natAbs < B := by
  unfold SiRange LONG_MIN LONG_MAX at h; rw [B_eq]; omega

theorem fnBinV_good {P : Nat} (hp : 2 ≤ P) (o : FBin) {a b : FVal} {r : F} (ha : VOK a) (hb : VOK b)
    (h : fnBinV P o false false a b = some r) : Good P r := by
  have htp := tp_eq hp
  cases a with
  | f g =>
    cases b with
    | f k =>
      cases o <;> simp only [fnBinV, Option.some.injEq] at h
      · subst h; exact good_add hp ha hb
      · subst h; exact good_sub hp ha hb
      · subst h; exact good_mul hp ha hb
      · exact good_div hp ha hb (ok_some h)
      · rw [htp] at h; exact hypotTail_good hp false (good_mul hp ha ha).op (by simpa using good_mul hp hb hb) h
    | bi c =>
      cases c with
      | ui l =>
        have hl := ui_lt_B (bi_ok_ui hb)
        cases o <;> simp only [fnBinV, Option.some.injEq] at h
        · subst h; exact good_add_ui hp ha hl
        · subst h; exact good_sub_ui hp ha hl
        · subst h; exact good_mul_ui hp ha hl
        · exact good_div_ui hp ha hl (ok_some h)
        · rw [htp] at h; exact hypotTail_good hp true (good_mul hp ha ha).op (by simpa using (good_set_ui (P := P) hl).op) h
      | si l =>
        have hr := bi_ok_si hb
        have h1 : 0 ≤ l → toUi l < B := fun h0 => ui_lt_B (toUi_range hr h0)
        have h2 : l < 0 → negUi l < B := fun h0 => ui_lt_B (negUi_range hr h0)
        cases o <;> simp only [fnBinV, Option.some.injEq] at h
        · subst h; split
          · exact good_add_ui hp ha (h1 (by omega))
          · exact good_sub_ui hp ha (h2 (by omega))
        · subst h; split
          · exact good_sub_ui hp ha (h1 (by omega))
          · exact good_add_ui hp ha (h2 (by omega))
        · subst h; split
          · exact good_mul_ui hp ha (h1 (by omega))
          · exact good_neg_self hp (good_mul_ui hp ha (h2 (by omega)))
        · split at h
          · exact good_div_ui hp ha (h1 (by omega)) (ok_some h)
          · rename_i hl
            cases hq : ok (div_ui P g (negUi l)) with
            | none => rw [hq] at h; simp at h
            | some q => rw [hq] at h; simp only [Option.map_some, Option.some.injEq] at h; subst h
                        exact good_neg_self hp (good_div_ui hp ha (h2 (by omega)) (ok_some hq))
        · rw [htp] at h; exact hypotTail_good hp true (good_mul hp ha ha).op (by simpa using (good_set_si (P := P) (si_natAbs hr)).op) h
      | d d =>
        cases o <;> simp only [fnBinV] at h
        · cases ht : dTemp d with
          | none => rw [ht] at h; simp at h
          | some t => rw [ht] at h; simp only [Option.map_some, Option.some.injEq] at h; subst h; exact good_add hp ha (dTemp_opwf ht)
        · cases ht : dTemp d with
          | none => rw [ht] at h; simp at h
          | some t => rw [ht] at h; simp only [Option.map_some, Option.some.injEq] at h; subst h; exact good_sub hp ha (dTemp_opwf ht)
        · cases ht : dTemp d with
          | none => rw [ht] at h; simp at h
          | some t => rw [ht] at h; simp only [Option.map_some, Option.some.injEq] at h; subst h; exact good_mul hp ha (dTemp_opwf ht)
        · cases ht : dTemp d with
          | none => rw [ht] at h; simp at h
          | some t => rw [ht] at h; simp only [Option.bind_some] at h; exact good_div hp ha (dTemp_opwf ht) (ok_some h)
        · cases ht : ok (set_d P d) with
          | none => rw [ht] at h; simp at h
          | some t =>
            rw [ht] at h; simp only [Option.bind_some] at h; rw [htp] at h
            exact hypotTail_good hp true (good_mul hp ha ha).op (by simpa using set_d_opwf _ _ _ (ok_some ht)) h
  | bi c =>
    cases b with
    | bi c' => simp [fnBinV] at h
    | f g =>
      cases c with
      | ui l =>
        have hl := ui_lt_B (bi_ok_ui ha)
        cases o <;> simp only [fnBinV, Option.some.injEq] at h
        · subst h; exact good_add_ui hp hb hl
        · subst h; exact good_ui_sub hp hb hl
        · subst h; exact good_mul_ui hp hb hl
        · exact good_ui_div hp hb hl (ok_some h)
        · rw [htp] at h; exact hypotTail_good hp true (good_mul hp hb hb).op (by simpa using (good_set_ui (P := P) hl).op) h
      | si l =>
        have hr := bi_ok_si ha
        have h1 : 0 ≤ l → toUi l < B := fun h0 => ui_lt_B (toUi_range hr h0)
        have h2 : l < 0 → negUi l < B := fun h0 => ui_lt_B (negUi_range hr h0)
        cases o <;> simp only [fnBinV, Option.some.injEq] at h
        · subst h; split
          · exact good_add_ui hp hb (h1 (by omega))
          · exact good_sub_ui hp hb (h2 (by omega))
        · subst h; apply good_neg_self hp; split
          · exact good_sub_ui hp hb (h1 (by omega))
          · exact good_add_ui hp hb (h2 (by omega))
        · subst h; split
          · exact good_mul_ui hp hb (h1 (by omega))
          · exact good_neg_self hp (good_mul_ui hp hb (h2 (by omega)))
        · split at h
          · exact good_ui_div hp hb (h1 (by omega)) (ok_some h)
          · cases hq : ok (ui_div P (negUi l) g) with
            | none => rw [hq] at h; simp at h
            | some q => rw [hq] at h; simp only [Option.map_some, Option.some.injEq] at h; subst h
                        exact good_neg_self hp (good_ui_div hp hb (h2 (by omega)) (ok_some hq))
        · rw [htp] at h; exact hypotTail_good hp true (good_mul hp hb hb).op (by simpa using (good_set_si (P := P) (si_natAbs hr)).op) h
      | d d =>
        cases o <;> simp only [fnBinV] at h
        · cases ht : dTemp d with
          | none => rw [ht] at h; simp at h
          | some t => rw [ht] at h; simp only [Option.map_some, Option.some.injEq] at h; subst h; exact good_add hp hb (dTemp_opwf ht)
        · cases ht : dTemp d with
          | none => rw [ht] at h; simp at h
          | some t => rw [ht] at h; simp only [Option.map_some, Option.some.injEq] at h; subst h; exact good_sub hp (dTemp_opwf ht) hb
        · cases ht : dTemp d with
          | none => rw [ht] at h; simp at h
          | some t => rw [ht] at h; simp only [Option.map_some, Option.some.injEq] at h; subst h; exact good_mul hp hb (dTemp_opwf ht)
        · cases ht : dTemp d with
          | none => rw [ht] at h; simp at h
          | some t => rw [ht] at h; simp only [Option.bind_some] at h; exact good_div hp (dTemp_opwf ht) hb (ok_some h)
        · cases ht : ok (set_d P d) with
          | none => rw [ht] at h; simp at h
          | some t =>
            rw [ht] at h; simp only [Option.bind_some] at h; rw [htp] at h
            exact hypotTail_good hp true (good_mul hp hb hb).op (by simpa using set_d_opwf _ _ _ (ok_some ht)) h

/-! ### the `r == u` shortcuts of the C functions do not matter for operands that fit the destination -/

theorem fnUnV_flag (P : Nat) (o : FUn) (a : Bool) (g : F) (h : a = true → Fit P g) :
    fnUnV P o a g = fnUnV P o false g := by
  cases a with
  | false => rfl
  | true => cases o <;> simp only [fnUnV, neg_flag (h rfl), abs_flag (h rfl)]

theorem fnBinV_flag (P : Nat) (o : FBin) (aP bP : Bool) (a b : FVal)
    (ha : aP = true → ∀ x, a = .f x → Fit P x) (hb : bP = true → ∀ x, b = .f x → Fit P x) :
    fnBinV P o aP bP a b = fnBinV P o false false a b := by
  cases a with
  | f g =>
    have ha' : aP = true → Fit P g := fun h => ha h g rfl
    cases b with
    | f k =>
      have hb' : bP = true → Fit P k := fun h => hb h k rfl
      cases o <;> simp only [fnBinV, add_flag aP bP ha' hb', sub_flag aP bP ha' hb']
    | bi c =>
      cases c <;> cases o <;>
        simp only [fnBinV, add_ui_flag aP _ ha', sub_ui_flag aP _ ha', add_flag aP false ha' (by simp), sub_flag aP false ha' (by simp)]
  | bi c =>
    cases b with
    | bi c' => cases c <;> cases c' <;> rfl
    | f g =>
      have hb' : bP = true → Fit P g := fun h => hb h g rfl
      cases c <;> cases o <;>
        simp only [fnBinV, add_ui_flag bP _ hb', sub_ui_flag bP _ hb', ui_sub_flag bP _ hb', add_flag bP false hb' (by simp),
          sub_flag false bP (by simp) hb']

/-! ### conversions of mpz/mpq operands; basic facts about `evalTmpF` -/

def zqOK (KZ : Nat) (zh : Heap) (e : E) : Prop := e.wt = true ∧ e.zbelow KZ ∧ e.qbelow KZ ∧ e.canon zh

theorem zqConv_correct (cst : Bool) (KZ : Nat) (zh : Heap) (P : Nat) (e : E) (h : zqOK KZ zh e) :
    zqConv cst KZ zh P e = (evalTmp zh.abs e).map (convF P) := by
  obtain ⟨hwt, hz, hq, hc⟩ := h
  unfold zqConv
  by_cases hty : e.ty = .z
  · rw [if_pos hty, evalTmp_z zh e hty hc]
    have H := bindZ_correct cst (evalZ_correct cst) e hty hwt KZ zh hz
    show _ = ((evalTmpZ zh.get e).map Val.z).map (convF P)
    cases hr : evalTmpZ zh.get e with
    | none => rw [hr] at H; simp only at H; rw [H]; rfl
    | some x =>
      rw [hr] at H; obtain ⟨l, h', e1, hx, _, _⟩ := H
      rw [e1]; simp only [Option.map_some, convF, hx]
  · rw [if_neg hty]
    have H := bindQ_correct cst e hwt KZ zh hz hq hc
    unfold evalTmpR at H
    cases hr : evalTmp zh.abs e with
    | none => rw [hr] at H; simp only [Option.map_none] at H; rw [H]; rfl
    | some v =>
      obtain ⟨r, rfl⟩ := val_of_ty_q ((evalTmp_ty _ e v hr).trans (ty_q_of_ne_z hty))
      rw [hr] at H; simp only [Option.map_some, Val.toQ] at H
      obtain ⟨l, h', e1, hc', hx, _, _⟩ := H
      obtain ⟨n1, n2⟩ := qval_num_den hc'
      rw [e1]; simp only [Option.map_some, convF]
      rw [← n1, ← n2, hx]; simp

def FE.fbelow (k : Nat) : FE → Prop
  | .fv i => i < k
  | .zq _ => True
  | .un _ a => a.fbelow k
  | .bin _ a b => a.fbelow k ∧ b.fbelow k
  | .binL _ _ b => b.fbelow k
  | .binR _ a _ => a.fbelow k
  | .sh _ a _ => a.fbelow k

def FE.zqOK (KZ : Nat) (zh : Heap) : FE → Prop
  | .fv _ => True
  | .zq e => CxxF.zqOK KZ zh e
  | .un _ a => a.zqOK KZ zh
  | .bin _ a b => a.zqOK KZ zh ∧ b.zqOK KZ zh
  | .binL _ _ b => b.zqOK KZ zh
  | .binR _ a _ => a.zqOK KZ zh
  | .sh _ a _ => a.zqOK KZ zh

theorem FE.fbelow_mono {k k' : Nat} (hk : k ≤ k') : ∀ (e : FE), e.fbelow k → e.fbelow k' := by
  intro e
  induction e with
  | fv i => intro h; simp only [FE.fbelow] at *; omega
  | zq e => intro _; trivial
  | un o a ih => exact ih
  | bin o a b iha ihb => intro h; exact ⟨iha h.1, ihb h.2⟩
  | binL o c b ih => exact ih
  | binR o a c ih => exact ih
  | sh o a n ih => exact ih

theorem leaf?_some {a : FE} {i : Nat} (h : a.leaf? = some i) : a = .fv i := by
  cases a <;> simp [FE.leaf?] at h; subst h; rfl

/-- the value handed to a function object for operand `a` -/
def opv (P : Nat) (zenv : Env) (fenv : Nat → F) (a : FE) : Option F :=
  match a.leaf? with | some i => some (fenv i) | none => evalTmpF P zenv fenv a

theorem evalTmpF_un (P : Nat) (zenv : Env) (fenv : Nat → F) (o : FUn) (a : FE) :
    evalTmpF P zenv fenv (.un o a) = (opv P zenv fenv a).bind (fnUnV P o false) := rfl
theorem evalTmpF_bin (P : Nat) (zenv : Env) (fenv : Nat → F) (o : FBin) (a b : FE) :
    evalTmpF P zenv fenv (.bin o a b) = (opv P zenv fenv a).bind fun x => (opv P zenv fenv b).bind fun y =>
      fnBinV P o false false (.f x) (.f y) := rfl
theorem evalTmpF_binL (P : Nat) (zenv : Env) (fenv : Nat → F) (o : FBin) (c : Bi) (b : FE) :
    evalTmpF P zenv fenv (.binL o c b) = (opv P zenv fenv b).bind fun y => fnBinV P o false false (.bi c) (.f y) := rfl
theorem evalTmpF_binR (P : Nat) (zenv : Env) (fenv : Nat → F) (o : FBin) (a : FE) (c : Bi) :
    evalTmpF P zenv fenv (.binR o a c) = (opv P zenv fenv a).bind fun x => fnBinV P o false false (.f x) (.bi c) := rfl
theorem evalTmpF_sh (P : Nat) (zenv : Env) (fenv : Nat → F) (o : Sh) (a : FE) (n : Nat) :
    evalTmpF P zenv fenv (.sh o a n) = (opv P zenv fenv a).map fun x => fnShV P o x n := rfl

theorem evalTmpF_congr (P : Nat) (zenv : Env) {f1 f2 : Nat → F} {k : Nat} (hag : ∀ i, i < k → f1 i = f2 i) :
    ∀ (e : FE), e.fbelow k → evalTmpF P zenv f1 e = evalTmpF P zenv f2 e := by
  intro e
  have hop : ∀ a : FE, (a.fbelow k → evalTmpF P zenv f1 a = evalTmpF P zenv f2 a) → a.fbelow k →
      opv P zenv f1 a = opv P zenv f2 a := by
    intro a ih hb
    unfold opv
    cases hl : a.leaf? with
    | some i => have := leaf?_some hl; subst this; simp only; rw [hag i hb]
    | none => exact ih hb
  induction e with
  | fv i => intro h; simp only [evalTmpF]; rw [hag i h]
  | zq e => intro _; rfl
  | un o a ih => intro h; rw [evalTmpF_un, evalTmpF_un, hop a ih h]
  | bin o a b iha ihb => intro h; rw [evalTmpF_bin, evalTmpF_bin, hop a iha h.1, hop b ihb h.2]
  | binL o c b ih => intro h; rw [evalTmpF_binL, evalTmpF_binL, hop b ih h]
  | binR o a c ih => intro h; rw [evalTmpF_binR, evalTmpF_binR, hop a ih h]
  | sh o a n ih => intro h; rw [evalTmpF_sh, evalTmpF_sh, hop a ih h]

theorem evalTmpF_good {P : Nat} (hp : 2 ≤ P) (zenv : Env) {fenv : Nat → F} {k : Nat} (hwf : ∀ i, i < k → OpWF (fenv i)) :
    ∀ (e : FE), e.wt = true → e.fbelow k → ∀ x, evalTmpF P zenv fenv e = some x → Good P x := by
  intro e
  have hop : ∀ a : FE, (a.wt = true → a.fbelow k → ∀ x, evalTmpF P zenv fenv a = some x → Good P x) →
      a.wt = true → a.fbelow k → ∀ x, opv P zenv fenv a = some x → OpWF x := by
    intro a ih hw hb x hx
    unfold opv at hx
    cases hl : a.leaf? with
    | some i => have := leaf?_some hl; subst this; rw [hl] at hx; simp only [Option.some.injEq] at hx; subst hx; exact hwf i hb
    | none => rw [hl] at hx; exact (ih hw hb x hx).op
  induction e with
  | fv i => intro _ hb x hx; simp only [evalTmpF, Option.some.injEq] at hx; subst hx; exact good_set hp (hwf i hb)
  | zq e =>
    intro _ _ x hx
    simp only [evalTmpF] at hx
    cases hv : evalTmp zenv e with
    | none => rw [hv] at hx; simp at hx
    | some v =>
      rw [hv] at hx; simp only [Option.map_some, Option.some.injEq] at hx; subst hx
      cases v with
      | z v => exact good_set_z hp v
      | q r => exact good_set_q hp r.num r.den r.den_nz
  | un o a ih =>
    intro hw hb x hx
    simp only [FE.wt, Bool.and_eq_true] at hw
    rw [evalTmpF_un] at hx
    cases hv : opv P zenv fenv a with
    | none => rw [hv] at hx; simp at hx
    | some g => rw [hv] at hx; exact fnUnV_good hp o (hop a ih hw.1 hb g hv) hx
  | bin o a b iha ihb =>
    intro hw hb x hx
    simp only [FE.wt, Bool.and_eq_true] at hw
    rw [evalTmpF_bin] at hx
    cases hv : opv P zenv fenv a with
    | none => rw [hv] at hx; simp at hx
    | some g =>
      cases hv2 : opv P zenv fenv b with
      | none => rw [hv, hv2] at hx; simp at hx
      | some g2 =>
        rw [hv, hv2] at hx
        exact fnBinV_good hp o (a := .f g) (b := .f g2) (hop a iha hw.1.1 hb.1 g hv) (hop b ihb hw.1.2 hb.2 g2 hv2) hx
  | binL o c b ih =>
    intro hw hb x hx
    simp only [FE.wt, Bool.and_eq_true] at hw
    rw [evalTmpF_binL] at hx
    cases hv : opv P zenv fenv b with
    | none => rw [hv] at hx; simp at hx
    | some g => rw [hv] at hx; exact fnBinV_good hp o (a := .bi c) (b := .f g) hw.1.1 (hop b ih hw.1.2 hb g hv) hx
  | binR o a c ih =>
    intro hw hb x hx
    simp only [FE.wt, Bool.and_eq_true] at hw
    rw [evalTmpF_binR] at hx
    cases hv : opv P zenv fenv a with
    | none => rw [hv] at hx; simp at hx
    | some g => rw [hv] at hx; exact fnBinV_good hp o (a := .f g) (b := .bi c) (hop a ih hw.1.2 hb g hv) hw.1.1 hx
  | sh o a n ih =>
    intro hw hb x hx
    simp only [FE.wt, Bool.and_eq_true] at hw
    rw [evalTmpF_sh] at hx
    cases hv : opv P zenv fenv a with
    | none => rw [hv] at hx; simp at hx
    | some g => rw [hv] at hx; simp only [Option.map_some, Option.some.injEq] at hx; subst hx
                exact fnShV_good hp o (hop a ih hw.1.1 hb g hv) n

/-! ### the template strategy -/

/-- what one evaluation step guarantees: the destination holds the value, every pre-existing object other
    than the destination is unchanged; an exception of the temporaries semantics is an exception here -/
def FPost (k p : Nat) (h : FHeap) (r : Option F) (res : Option FHeap) : Prop :=
  match r with
  | none => res = none
  | some x => ∃ h', res = some h' ∧ h'.get p = x ∧ ∀ i, i < k → i ≠ p → h'.get i = h.get i

theorem FHeap.get_set_self (h : FHeap) (p : Nat) (x : F) : (h.set p x).get p = x := by simp [FHeap.set]
theorem FHeap.get_set_ne (h : FHeap) (p : Nat) (x : F) (i : Nat) (hne : i ≠ p) : (h.set p x).get i = h.get i := by
  simp [FHeap.set, hne]

theorem FPost.step {k p : Nat} {h h1 : FHeap} {r : Option F} (hfr : ∀ i, i < k → i ≠ p → h1.get i = h.get i) :
    FPost k p h r (r.map (h1.set p)) := by
  cases r with
  | none => rfl
  | some x => exact ⟨_, rfl, FHeap.get_set_self _ _ _, fun i hi hne => by rw [FHeap.get_set_ne _ _ _ _ hne]; exact hfr i hi hne⟩

def Inv (k : Nat) (h : FHeap) : Prop := ∀ i, i < k → WF (h.get i)

theorem fnUnF_post {k p g : Nat} {h h1 : FHeap} {P : Nat} (o : FUn) (hP : (h1.get p).prec = P)
    (hfit : g = p → Fit P (h1.get g)) (hfr : ∀ i, i < k → i ≠ p → h1.get i = h.get i) :
    FPost k p h (fnUnV P o false (h1.get g)) (fnUnF o p g h1) := by
  unfold fnUnF
  rw [hP, fnUnV_flag P o (g == p) _ (fun hb => hfit (by simpa using hb))]
  exact FPost.step hfr

theorem fnShF_post {k p g : Nat} {h h1 : FHeap} {P : Nat} (o : Sh) (n : Nat) (hP : (h1.get p).prec = P)
    (hfr : ∀ i, i < k → i ≠ p → h1.get i = h.get i) :
    FPost k p h (some (fnShV P o (h1.get g) n)) (fnShF o p g n h1) := by
  unfold fnShF
  rw [hP]
  exact FPost.step (r := some _) hfr

theorem fnBinF_post {k p : Nat} {h h1 : FHeap} {P : Nat} (o : FBin) (a b : FArg) (hP : (h1.get p).prec = P)
    (hfa : a.is p = true → ∀ x, a.val h1 = .f x → Fit P x) (hfb : b.is p = true → ∀ x, b.val h1 = .f x → Fit P x)
    (hfr : ∀ i, i < k → i ≠ p → h1.get i = h.get i) :
    FPost k p h (fnBinV P o false false (a.val h1) (b.val h1)) (fnBinF o p a b h1) := by
  unfold fnBinF
  rw [hP, fnBinV_flag P o _ _ _ _ hfa hfb]
  exact FPost.step hfr

theorem Inv.good {k : Nat} {h : FHeap} (hi : Inv k h) {i : Nat} (hik : i < k) : Good (h.get i).prec (h.get i) := ⟨hi i hik, rfl⟩

section
variable (cst : Bool) (KZ : Nat) (zh : Heap)

/-- the statement proved by induction over the tree -/
def EvalOK (e : FE) : Prop :=
  ∀ (k p : Nat) (h : FHeap), p < k → e.fbelow k → Inv k h → 2 ≤ (h.get p).prec →
    FPost k p h (evalTmpF (h.get p).prec zh.abs h.get e) (evalF cst KZ zh k p e h)

/-- `__gmp_temp<mpf_t> temp(b, p)`: a fresh object of `p`'s precision receives the value of `b` -/
theorem temp_step {b : FE} (ihb : EvalOK cst KZ zh b) {k : Nat} {h : FHeap} {P : Nat} (hp : 2 ≤ P)
    (hb : b.fbelow k) (hinv : Inv k h) :
    FPost (k + 1) k h (evalTmpF P zh.abs h.get b) (evalF cst KZ zh (k + 1) k b (newTemp k (tp P) h)) := by
  have h0k : (newTemp k (tp P) h).get k = Mpf.zero (tp P) := FHeap.get_set_self _ _ _
  have h0i : ∀ i, i ≠ k → (newTemp k (tp P) h).get i = h.get i := fun i hne => FHeap.get_set_ne _ _ _ _ hne
  have hinv0 : Inv (k + 1) (newTemp k (tp P) h) := by
    intro i hi
    by_cases hik : i = k
    · subst hik; rw [h0k]; exact WF_zero _
    · rw [h0i i hik]; exact hinv i (by omega)
  have H := ihb (k + 1) k (newTemp k (tp P) h) (by omega) (FE.fbelow_mono (by omega) _ hb) hinv0
    (by rw [h0k]; show 2 ≤ tp P; rw [tp_eq hp]; exact hp)
  have e1 : ((newTemp k (tp P) h).get k).prec = P := by rw [h0k]; show tp P = P; exact tp_eq hp
  rw [e1, evalTmpF_congr P zh.abs (k := k) (fun i hi => h0i i (by omega)) b hb] at H
  cases hr : evalTmpF P zh.abs h.get b with
  | none => rw [hr] at H; exact H
  | some y =>
    rw [hr] at H
    obtain ⟨h1, e2, hy, hfr⟩ := H
    exact ⟨h1, e2, hy, fun i hi hne => by rw [hfr i hi hne, h0i i hne]⟩
end


theorem fit_arg {p : Nat} {h1 : FHeap} {P : Nat} (a : FArg) (hf : Fit P (h1.get p)) :
    a.is p = true → ∀ x, a.val h1 = .f x → Fit P x := by
  intro hb x hx
  cases a with
  | loc i =>
    simp only [FArg.is, beq_iff_eq] at hb; subst hb
    simp only [FArg.val, FVal.f.injEq] at hx; subst hx; exact hf
  | bi c => simp [FArg.is] at hb

theorem fnBinF_post' {k p : Nat} {h h1 : FHeap} {P : Nat} (o : FBin) (a b : FArg) (hP : (h1.get p).prec = P)
    (hf : Fit P (h1.get p)) (hfr : ∀ i, i < k → i ≠ p → h1.get i = h.get i) :
    FPost k p h (fnBinV P o false false (a.val h1) (b.val h1)) (fnBinF o p a b h1) :=
  fnBinF_post o a b hP (fit_arg a hf) (fit_arg b hf) hfr

theorem FPost.none_of {k p : Nat} {h : FHeap} {res : Option FHeap} (h0 : FPost k p h none res) : res = none := h0

section
variable (cst : Bool) (KZ : Nat) (zh : Heap)

theorem evalF_correct : ∀ (e : FE), e.wt = true → e.zqOK KZ zh → EvalOK cst KZ zh e := by
  intro e
  induction e with
  | fv i =>
    intro _ _ k p h hpk hb hinv hp2
    simp only [evalF, evalTmpF]
    exact FPost.step (r := some _) (fun _ _ _ => rfl)
  | zq e =>
    intro _ hz k p h hpk hb hinv hp2
    simp only [FE.zqOK] at hz
    simp only [evalF, evalTmpF]
    rw [zqConv_correct cst KZ zh _ e hz]
    exact FPost.step (fun _ _ _ => rfl)
  | un o a ih =>
    intro hw hz k p h hpk hb hinv hp2
    simp only [FE.wt, Bool.and_eq_true] at hw
    simp only [FE.zqOK] at hz; simp only [FE.fbelow] at hb
    rw [evalTmpF_un]; unfold opv
    simp only [evalF]
    cases hl : a.leaf? with
    | some i =>
      simp only [Option.bind_some]
      exact fnUnF_post o rfl (fun e => by subst e; exact (hinv.good hpk).fit) (fun _ _ _ => rfl)
    | none =>
      simp only []
      have IH := ih hw.1 hz k p h hpk hb hinv hp2
      cases hr : evalTmpF (h.get p).prec zh.abs h.get a with
      | none => rw [hr] at IH; rw [IH.none_of]; rfl
      | some x =>
        rw [hr] at IH; obtain ⟨h1, e1, hx, hfr⟩ := IH
        have gx := evalTmpF_good hp2 zh.abs (fun i hi => (hinv i hi).toOpWF) a hw.1 hb x hr
        rw [e1]; simp only [Option.bind_some]
        have := fnUnF_post (k := k) (p := p) (g := p) (h := h) (h1 := h1) (P := (h.get p).prec) o (by rw [hx]; exact gx.2) (fun _ => by rw [hx]; exact gx.fit) hfr
        rw [hx] at this; exact this
  | sh o a n ih =>
    intro hw hz k p h hpk hb hinv hp2
    simp only [FE.wt, Bool.and_eq_true] at hw
    simp only [FE.zqOK] at hz; simp only [FE.fbelow] at hb
    rw [evalTmpF_sh]; unfold opv
    simp only [evalF]
    cases hl : a.leaf? with
    | some i =>
      simp only [Option.map_some]
      exact fnShF_post o n rfl (fun _ _ _ => rfl)
    | none =>
      simp only []
      have IH := ih hw.1.1 hz k p h hpk hb hinv hp2
      cases hr : evalTmpF (h.get p).prec zh.abs h.get a with
      | none => rw [hr] at IH; rw [IH.none_of]; rfl
      | some x =>
        rw [hr] at IH; obtain ⟨h1, e1, hx, hfr⟩ := IH
        have gx := evalTmpF_good hp2 zh.abs (fun i hi => (hinv i hi).toOpWF) a hw.1.1 hb x hr
        rw [e1]; simp only [Option.bind_some, Option.map_some]
        have := fnShF_post (k := k) (p := p) (g := p) (h := h) (h1 := h1) (P := (h.get p).prec) o n (by rw [hx]; exact gx.2) hfr
        rw [hx] at this; exact this
  | binL o c b ih =>
    intro hw hz k p h hpk hb hinv hp2
    simp only [FE.wt, Bool.and_eq_true] at hw
    simp only [FE.zqOK] at hz; simp only [FE.fbelow] at hb
    rw [evalTmpF_binL]; unfold opv
    simp only [evalF]
    cases hl : b.leaf? with
    | some j =>
      simp only [Option.bind_some]
      exact fnBinF_post' o (.bi c) (.loc j) rfl (hinv.good hpk).fit (fun _ _ _ => rfl)
    | none =>
      simp only []
      have IH := ih hw.1.2 hz k p h hpk hb hinv hp2
      cases hr : evalTmpF (h.get p).prec zh.abs h.get b with
      | none => rw [hr] at IH; rw [IH.none_of]; rfl
      | some x =>
        rw [hr] at IH; obtain ⟨h1, e1, hx, hfr⟩ := IH
        have gx := evalTmpF_good hp2 zh.abs (fun i hi => (hinv i hi).toOpWF) b hw.1.2 hb x hr
        rw [e1]; simp only [Option.bind_some]
        have := fnBinF_post' (k := k) (p := p) (h := h) (h1 := h1) (P := (h.get p).prec) o (.bi c) (.loc p) (by rw [hx]; exact gx.2) (by rw [hx]; exact gx.fit) hfr
        simp only [FArg.val, hx] at this; exact this
  | binR o a c ih =>
    intro hw hz k p h hpk hb hinv hp2
    simp only [FE.wt, Bool.and_eq_true] at hw
    simp only [FE.zqOK] at hz; simp only [FE.fbelow] at hb
    rw [evalTmpF_binR]; unfold opv
    simp only [evalF]
    cases hl : a.leaf? with
    | some j =>
      simp only [Option.bind_some]
      exact fnBinF_post' o (.loc j) (.bi c) rfl (hinv.good hpk).fit (fun _ _ _ => rfl)
    | none =>
      simp only []
      have IH := ih hw.1.2 hz k p h hpk hb hinv hp2
      cases hr : evalTmpF (h.get p).prec zh.abs h.get a with
      | none => rw [hr] at IH; rw [IH.none_of]; rfl
      | some x =>
        rw [hr] at IH; obtain ⟨h1, e1, hx, hfr⟩ := IH
        have gx := evalTmpF_good hp2 zh.abs (fun i hi => (hinv i hi).toOpWF) a hw.1.2 hb x hr
        rw [e1]; simp only [Option.bind_some]
        have := fnBinF_post' (k := k) (p := p) (h := h) (h1 := h1) (P := (h.get p).prec) o (.loc p) (.bi c) (by rw [hx]; exact gx.2) (by rw [hx]; exact gx.fit) hfr
        simp only [FArg.val, hx] at this; exact this
  | bin o a b iha ihb =>
    intro hw hz k p h hpk hb hinv hp2
    simp only [FE.wt, Bool.and_eq_true] at hw
    simp only [FE.zqOK] at hz; simp only [FE.fbelow] at hb
    rw [evalTmpF_bin]; unfold opv
    simp only [evalF]
    have IHa := iha hw.1.1 hz.1
    have IHb := ihb hw.1.2 hz.2
    have wfo : ∀ i, i < k → OpWF (h.get i) := fun i hi => (hinv i hi).toOpWF
    have fitp := (hinv.good hpk).fit
    cases hla : a.leaf? with
    | some i =>
      have := leaf?_some hla; subst this
      simp only [FE.fbelow] at hb
      cases hlb : b.leaf? with
      | some j =>
        simp only [Option.bind_some]
        exact fnBinF_post' o (.loc i) (.loc j) rfl fitp (fun _ _ _ => rfl)
      | none =>
        simp only [Option.bind_some]
        by_cases hpi : p ≠ i
        · rw [if_pos hpi]
          have IH := IHb k p h hpk hb.2 hinv hp2
          cases hr : evalTmpF (h.get p).prec zh.abs h.get b with
          | none => rw [hr] at IH; rw [IH.none_of]; rfl
          | some y =>
            rw [hr] at IH; obtain ⟨h1, e1, hy, hfr⟩ := IH
            have gy := evalTmpF_good hp2 zh.abs wfo b hw.1.2 hb.2 y hr
            rw [e1]; simp only [Option.bind_some]
            have := fnBinF_post' (k := k) (p := p) (h := h) (h1 := h1) (P := (h.get p).prec) o (.loc i) (.loc p) (by rw [hy]; exact gy.2) (by rw [hy]; exact gy.fit) hfr
            simp only [FArg.val, hy, hfr i hb.1 (Ne.symm hpi)] at this; exact this
        · rw [if_neg hpi]
          have hpi' : p = i := by omega
          subst hpi'
          have T := temp_step cst KZ zh IHb hp2 hb.2 hinv
          cases hr : evalTmpF (h.get p).prec zh.abs h.get b with
          | none => rw [hr] at T; rw [T.none_of]; rfl
          | some y =>
            rw [hr] at T; obtain ⟨h1, e1, hy, hfr⟩ := T
            rw [e1]; simp only [Option.bind_some]
            have hpp : h1.get p = h.get p := hfr p (by omega) (by omega)
            have := fnBinF_post' (k := k) (p := p) (h := h) (h1 := h1) (P := (h.get p).prec) o (.loc p) (.loc k) (by rw [hpp]) (by rw [hpp]; exact fitp)
              (fun i hi hne => hfr i (by omega) (by omega))
            simp only [FArg.val, hy, hpp] at this; exact this
    | none =>
      cases hlb : b.leaf? with
      | some j =>
        have := leaf?_some hlb; subst this
        simp only [FE.fbelow] at hb
        simp only [Option.bind_some]
        by_cases hpj : p ≠ j
        · rw [if_pos hpj]
          have IH := IHa k p h hpk hb.1 hinv hp2
          cases hr : evalTmpF (h.get p).prec zh.abs h.get a with
          | none => rw [hr] at IH; rw [IH.none_of]; rfl
          | some x =>
            rw [hr] at IH; obtain ⟨h1, e1, hx, hfr⟩ := IH
            have gx := evalTmpF_good hp2 zh.abs wfo a hw.1.1 hb.1 x hr
            rw [e1]; simp only [Option.bind_some]
            have := fnBinF_post' (k := k) (p := p) (h := h) (h1 := h1) (P := (h.get p).prec) o (.loc p) (.loc j) (by rw [hx]; exact gx.2) (by rw [hx]; exact gx.fit) hfr
            simp only [FArg.val, hx, hfr j hb.2 (Ne.symm hpj)] at this; exact this
        · rw [if_neg hpj]
          have hpj' : p = j := by omega
          subst hpj'
          have T := temp_step cst KZ zh IHa hp2 hb.1 hinv
          cases hr : evalTmpF (h.get p).prec zh.abs h.get a with
          | none => rw [hr] at T; rw [T.none_of]; rfl
          | some x =>
            rw [hr] at T; obtain ⟨h1, e1, hx, hfr⟩ := T
            rw [e1]; simp only [Option.bind_some]
            have hpp : h1.get p = h.get p := hfr p (by omega) (by omega)
            have := fnBinF_post' (k := k) (p := p) (h := h) (h1 := h1) (P := (h.get p).prec) o (.loc k) (.loc p) (by rw [hpp]) (by rw [hpp]; exact fitp)
              (fun i hi hne => hfr i (by omega) (by omega))
            simp only [FArg.val, hx, hpp] at this; exact this
      | none =>
        simp only []
        -- both operands are sub-expressions: one goes to a temporary, the other is evaluated in `p`
        have two : ∀ (t s : FE), EvalOK cst KZ zh t → EvalOK cst KZ zh s → t.wt = true → s.wt = true → t.fbelow k → s.fbelow k →
            ∀ (f : F → F → Option F) (g : FHeap → Option FHeap),
            (∀ h2 x y, h2.get k = x → h2.get p = y → (h2.get p).prec = (h.get p).prec → Fit (h.get p).prec y →
                (∀ i, i < k → i ≠ p → h2.get i = h.get i) → FPost k p h (f x y) (g h2)) →
            FPost k p h ((evalTmpF (h.get p).prec zh.abs h.get t).bind fun x => (evalTmpF (h.get p).prec zh.abs h.get s).bind fun y => f x y)
              ((evalF cst KZ zh (k + 1) k t (newTemp k (tp (h.get p).prec) h)).bind fun h1 =>
                (evalF cst KZ zh (k + 1) p s h1).bind g) := by
          intro t s IHt IHs wt ws bt bs f g hfin
          have T := temp_step cst KZ zh IHt hp2 bt hinv
          cases hr : evalTmpF (h.get p).prec zh.abs h.get t with
          | none => rw [hr] at T; rw [T.none_of]; rfl
          | some x =>
            rw [hr] at T; obtain ⟨h1, e1, hx, hfr⟩ := T
            have gx := evalTmpF_good hp2 zh.abs wfo t wt bt x hr
            rw [e1]; simp only [Option.bind_some]
            have hpp : h1.get p = h.get p := hfr p (by omega) (by omega)
            have hinv1 : Inv (k + 1) h1 := by
              intro i hi
              by_cases hik : i = k
              · subst hik; rw [hx]; exact gx.1
              · rw [hfr i hi hik]; exact hinv i (by omega)
            have IH := IHs (k + 1) p h1 (by omega) (FE.fbelow_mono (by omega) _ bs) hinv1 (by rw [hpp]; exact hp2)
            rw [hpp, evalTmpF_congr _ zh.abs (k := k) (fun i hi => hfr i (by omega) (by omega)) s bs] at IH
            cases hr2 : evalTmpF (h.get p).prec zh.abs h.get s with
            | none => rw [hr2] at IH; rw [IH.none_of]; rfl
            | some y =>
              rw [hr2] at IH; obtain ⟨h2, e2, hy, hfr2⟩ := IH
              have gy := evalTmpF_good hp2 zh.abs wfo s ws bs y hr2
              rw [e2]; simp only [Option.bind_some]
              exact hfin h2 x y (by rw [hfr2 k (by omega) (by omega), hx]) hy (by rw [hy]; exact gy.2) gy.fit
                (fun i hi hne => by rw [hfr2 i (by omega) hne, hfr i (by omega) (by omega)])
        by_cases hzq : a.isZq = true
        · rw [if_pos hzq]
          refine two a b IHa IHb hw.1.1 hw.1.2 hb.1 hb.2 (fun x y => fnBinV (h.get p).prec o false false (.f x) (.f y)) _ ?_
          intro h2 x y hxk hyp hP hfit hfr
          have := fnBinF_post' (k := k) (p := p) (h := h) (h1 := h2) o (.loc k) (.loc p) hP (by rw [hyp]; exact hfit) hfr
          simp only [FArg.val, hxk, hyp] at this; exact this
        · rw [if_neg hzq]
          have sw : ((evalTmpF (h.get p).prec zh.abs h.get a).bind fun x => (evalTmpF (h.get p).prec zh.abs h.get b).bind fun y =>
                fnBinV (h.get p).prec o false false (.f x) (.f y)) =
              ((evalTmpF (h.get p).prec zh.abs h.get b).bind fun y => (evalTmpF (h.get p).prec zh.abs h.get a).bind fun x =>
                fnBinV (h.get p).prec o false false (.f x) (.f y)) := by
            cases evalTmpF (h.get p).prec zh.abs h.get a <;> cases evalTmpF (h.get p).prec zh.abs h.get b <;> rfl
          rw [sw]
          refine two b a IHb IHa hw.1.2 hw.1.1 hb.2 hb.1 (fun y x => fnBinV (h.get p).prec o false false (.f x) (.f y)) _ ?_
          intro h2 y x hyk hxp hP hfit hfr
          have := fnBinF_post' (k := k) (p := p) (h := h) (h1 := h2) o (.loc p) (.loc k) hP (by rw [hxp]; exact hfit) hfr
          simp only [FArg.val, hyk, hxp] at this; exact this
end

end Mpir.CxxF
